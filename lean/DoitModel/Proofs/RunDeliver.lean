import DoitModel.Proofs.RunLive2
/-! # Calc results are delivered: when a calc_dep of a node has been processed and is executed / up-to-date, what it
    delivers is part of the node's dynamic dependency lists -/
namespace DoitModel.Run

/-- everything `c` delivers is among the dynamic deps of `nd` -/
def Delivered (inp : RunInput) (nd : Node) (c : Name) : Prop :=
  (∀ x ∈ (inp.calcRes c).tasks, x ∈ nd.dynTask) ∧ (∀ x ∈ (inp.calcRes c).files, x ∈ nd.dynTask) ∧
  (∀ x ∈ (inp.calcRes c).calcs, x ∈ nd.dynCalc)

/-- `c` is neither pending, nor in the snapshot being iterated, nor awaited -/
def Processed (nd : Node) (c : Name) : Prop :=
  c ∉ nd.pendCalc ∧ ¬ (nd.pc.iterC = true ∧ c ∈ nd.snapCalc) ∧ c ∉ nd.waitRunCalc

def DCn (inp : RunInput) (s : Sys) (nd : Node) : Prop :=
  ∀ c ∈ nd.dynCalc, Processed nd c → (stOf s c).good = true → Delivered inp nd c

theorem implicitNew_covers {acc fs : List Name} {f : Name} (hf : f ∈ fs) : f ∈ acc ∨ f ∈ implicitNew acc fs := by
  induction fs generalizing acc with
  | nil => cases hf
  | cons a t ih =>
    simp only [implicitNew]
    rcases List.mem_cons.mp hf with rfl | h
    · by_cases e : f ∈ acc
      · exact Or.inl e
      · simp [e]
    · by_cases e : a ∈ acc
      · simp only [e, if_true]; exact ih h
      · simp only [e, if_false]
        rcases ih (acc := acc ++ [a]) h with x | x
        · rcases List.mem_append.mp x with y | y
          · exact Or.inl y
          · simp at y; subst y; exact Or.inr (by simp)
        · exact Or.inr (List.mem_cons_of_mem _ x)

theorem addDeps_delivered (inp : RunInput) (nd : Node) (p : Name) : Delivered inp (nd.addDeps (inp.calcRes p)) p := by
  refine ⟨?_, ?_, ?_⟩
  · intro x hx; simp only [Node.addDeps, newTaskDeps, List.mem_append]; exact Or.inr (Or.inl hx)
  · intro x hx
    simp only [Node.addDeps, newTaskDeps, List.mem_append]
    rcases implicitNew_covers (acc := nd.dynTask ++ (inp.calcRes p).tasks) hx with a | a
    · rcases List.mem_append.mp a with b | b
      · exact Or.inl b
      · exact Or.inr (Or.inl b)
    · exact Or.inr (Or.inr a)
  · intro x hx
    simp only [Node.addDeps, newCalcDeps, List.mem_append, List.mem_filter]
    by_cases e : x ∈ nd.dynCalc
    · exact Or.inl e
    · exact Or.inr ⟨mem_dedup.mpr hx, by simpa using e⟩

theorem Delivered.mono {inp : RunInput} {a b : Node} {c : Name} (h : Delivered inp a c)
    (h1 : ∀ x, x ∈ a.dynTask → x ∈ b.dynTask) (h2 : ∀ x, x ∈ a.dynCalc → x ∈ b.dynCalc) : Delivered inp b c :=
  ⟨fun x hx => h1 x (h.1 x hx), fun x hx => h1 x (h.2.1 x hx), fun x hx => h2 x (h.2.2 x hx)⟩

theorem deliver_delivered {inp : RunInput} (pst : RS) (p : Name) (nd : Node) (hg : pst.good = true) :
    Delivered inp (deliver inp pst p nd) p := by
  unfold deliver; simp only [hg, if_true]; exact addDeps_delivered inp nd p

/-- `DCn` survives growth of the lists at the same position -/
theorem DCn.grow {inp : RunInput} {s : Sys} {a b : Node} (h : DCn inp s a) (g : Grow a b) : DCn inp s b := by
  intro c hc hp hg
  rcases g.newCalc c hc with x | x
  · have hpa : Processed a c := by
      refine ⟨fun e => hp.1 (g.pendCalc c e), ?_, ?_⟩
      · rw [← g.pc, ← g.snapCalc]; exact hp.2.1
      · rw [← g.waitRunCalc]; exact hp.2.2
    exact (h c x hpa hg).mono g.dynTask g.dynCalc
  · exact absurd x hp.1

/-- the deps absorbed by `_node_add_wait_run(…, calc=True)` that are finished and good are delivered -/
theorem absorbDone_delivered {inp : RunInput} {s : Sys} : ∀ (ds : List Name) (nd : Node),
    ∀ d ∈ ds, unfinished s d = false → (stOf s d).good = true → Delivered inp (absorbDone inp s true ds nd) d := by
  intro ds
  induction ds with
  | nil => intro nd d hd; cases hd
  | cons a t ih =>
    intro nd d hd hu hg
    simp only [absorbDone]
    by_cases hua : unfinished s a = true
    · simp only [hua, if_true]
      rcases List.mem_cons.mp hd with rfl | hd'
      · rw [hua] at hu; cases hu
      · exact ih nd d hd' hu hg
    · have hua' : unfinished s a = false := by simpa using hua
      simp only [hua', Bool.false_eq_true, if_false, if_true]
      rcases List.mem_cons.mp hd with rfl | hd'
      · have g := (deliverF_grow inp (started s d) (stOf s d) d _).trans
          (absorbDone_spec inp s true t (deliverF inp (started s d) (stOf s d) d
            (deliver inp (stOf s d) d (parentStatus (stOf s d) d nd)))).1
        exact (deliver_delivered (stOf s d) d _ hg).mono g.dynTask g.dynCalc
      · exact ih _ d hd' hu hg


/-- `calcIter []`: the calc_dep snapshot is absorbed -/
theorem waitNode_calc_dcn {inp : RunInput} {s : Sys} {nd : Node} (pc' : PC) (h : DCn inp s nd)
    (hpc : nd.pc = .calcIter []) : DCn inp s (waitNode inp s nd nd.snapCalc true pc') := by
  have f := waitNode_facts inp s nd nd.snapCalc true pc'
  obtain ⟨g, _, _⟩ := absorbDone_spec inp s true nd.snapCalc nd
  have dynT : (waitNode inp s nd nd.snapCalc true pc').dynTask = (absorbDone inp s true nd.snapCalc nd).dynTask := rfl
  have dynC : (waitNode inp s nd nd.snapCalc true pc').dynCalc = (absorbDone inp s true nd.snapCalc nd).dynCalc := rfl
  intro c hc hp hg
  by_cases hs : c ∈ nd.snapCalc
  · -- in the snapshot: not awaited afterwards, hence finished; good, hence delivered
    have hu : unfinished s c = false := by
      by_cases hu : unfinished s c = true
      · exfalso; apply hp.2.2
        simp [waitNode, addWaits, List.mem_filter, hs, hu]
      · simpa using hu
    have := absorbDone_delivered (inp := inp) (s := s) nd.snapCalc nd c hs hu hg
    exact ⟨by rw [dynT]; exact this.1, by rw [dynT]; exact this.2.1, by rw [dynC]; exact this.2.2⟩
  · rcases f.newCalc c hc with x | x
    · have hpa : Processed nd c := by
        refine ⟨fun e => hp.1 (f.pendCalc c e), fun e => hs e.2, fun e => hp.2.2 (f.wc c e)⟩
      exact (h c x hpa hg).mono f.dynTask f.dynCalc
    · exact absurd x hp.1

/-- `_node_add_wait_run` for task_deps / setup-tasks does not touch the calc bookkeeping -/
theorem waitNode_plain_dcn {inp : RunInput} {s : Sys} {nd : Node} (ds : List Name) (pc' : PC) (h : DCn inp s nd)
    (hc1 : nd.pc.iterC = false) (hc2 : pc'.iterC = false) : DCn inp s (waitNode inp s nd ds false pc') := by
  have f := waitNode_facts inp s nd ds false pc'
  obtain ⟨⟨e1, e2, e3, e4⟩, e5⟩ := f.same rfl
  intro c hc hp hg
  rw [e2] at hc
  have hpa : Processed nd c := by
    refine ⟨by rw [← e4]; exact hp.1, (fun (e : nd.pc.iterC = true ∧ c ∈ nd.snapCalc) => by rw [hc1] at e; cases e.1), by rw [← e5]; exact hp.2.2⟩
  have := h c hc hpa hg
  exact ⟨by rw [e1]; exact this.1, by rw [e1]; exact this.2.1, by rw [e2]; exact this.2.2⟩

theorem wokenNode_dcn {inp : RunInput} {s : Sys} {nd : Node} (pst : RS) (p : Name) (h : DCn inp s nd)
    (hp : stOf s p = pst) : DCn inp s (wokenNode inp pst p nd) := by
  have hu := wokenNode_upd inp pst p nd
  intro c hc hpr hg
  by_cases e : c = p ∧ p ∈ nd.waitRunCalc
  · obtain ⟨rfl, hin⟩ := e
    -- the calc_dep that just finished: delivered by `_update_waiting`
    have hgood : pst.good = true := by rw [← hp]; exact hg
    unfold wokenNode; simp only [hin, if_true]
    exact deliver_delivered pst c _ hgood
  · rcases hu.newCalc c hc with x | x
    · have hpa : Processed nd c := by
        refine ⟨fun y => hpr.1 (hu.pendCalc c y), by rw [← hu.pc, ← hu.snapCalc]; exact hpr.2.1, ?_⟩
        intro y
        rcases hu.wc c y with z | ⟨z, _⟩
        · exact hpr.2.2 z
        · exact e ⟨z, z ▸ y⟩
      exact (h c x hpa hg).mono hu.dynTask hu.dynCalc
    · exact absurd x hpr.1

theorem wokenF_dcn {inp : RunInput} {s : Sys} {nd : Node} (pst : RS) (p : Name) (h : DCn inp s nd)
    (hp : stOf s p = pst) : DCn inp s (wokenF inp s pst p nd) :=
  (wokenNode_dcn pst p h hp).grow (wokenF_grow inp s pst p nd)

/-- only the position changes, between two positions outside the calc_dep loop -/
theorem DCn.setPc {inp : RunInput} {s : Sys} {nd : Node} (pc' : PC) (h : DCn inp s nd) (h1 : nd.pc.iterC = false) :
    DCn inp s { nd with pc := pc' } := by
  intro c hc hp hg
  exact h c hc ⟨hp.1, (fun (e : nd.pc.iterC = true ∧ c ∈ nd.snapCalc) => by rw [h1] at e; cases e.1), hp.2.2⟩ hg

theorem DCn.stable {inp : RunInput} {s s' : Sys} {n : Name} {nd : Node} (h : DCn inp s nd) (hok : NodeOK inp s n nd)
    (hst : Stable s s') : DCn inp s' nd := by
  intro c hc hp hg
  -- a processed calc_dep is finished, so its status is the same in both states
  rcases hok.kc c hc with a | a | a | a
  · exact absurd a hp.1
  · exact absurd a hp.2.1
  · exact absurd a hp.2.2
  · have := hst c a.1
    exact h c hc hp (by rw [← this]; exact hg)

theorem mkNode_dcn (inp : RunInput) (s : Sys) (t : Name) (anc : List Name) : DCn inp s (mkNode inp t anc) := by
  intro c hc hp _; exact absurd hc hp.1


/-! ### state level -/

def AllDC (inp : RunInput) (s : Sys) : Prop := ∀ n nd, s.nodes n = some nd → DCn inp s nd

theorem DCn.congr {inp : RunInput} {s s' : Sys} {nd : Node} (h : DCn inp s nd) (hst : ∀ x, stOf s' x = stOf s x) :
    DCn inp s' nd := by
  intro c hc hp hg; rw [hst] at hg; exact h c hc hp hg

theorem allDC_setNode {inp : RunInput} {s : Sys} {n : Name} {x : Node} (h : AllDC inp s) (hx : DCn inp s x)
    (hst : ∀ d, stOf (setNode s n x) d = stOf s d) : AllDC inp (setNode s n x) := by
  intro k y hk
  simp only [setNode_nodes] at hk
  split at hk
  · cases hk; exact hx.congr hst
  · exact (h k y hk).congr hst

theorem allDC_congr {inp : RunInput} {s s' : Sys} (h : AllDC inp s) (e : s'.nodes = s.nodes) : AllDC inp s' := by
  intro k y hk; rw [e] at hk; exact (h k y hk).congr (stOf_congr e)

theorem dcn_addWaiting {inp : RunInput} {s : Sys} {nd : Node} (m : Name) (h : DCn inp s nd) :
    DCn inp s (nd.addWaiting m) := by
  unfold Node.addWaiting; split
  · exact h
  · exact h

theorem allDC_registerWaiting {inp : RunInput} {s : Sys} (n : Name) (wf : List Name) (h : AllDC inp s) :
    AllDC inp (registerWaiting s n wf) := by
  intro k y hk
  rw [registerWaiting_nodes] at hk
  cases hx : s.nodes k with
  | none => rw [hx] at hk; cases hk
  | some x =>
    rw [hx] at hk
    by_cases e : k ∈ wf
    · simp only [e, if_true, Option.some.injEq] at hk; subst hk
      exact (dcn_addWaiting n (h k x hx)).congr (stOf_registerWaiting s n wf)
    · simp only [e, if_false, Option.some.injEq] at hk; subst hk
      exact (h k x hx).congr (stOf_registerWaiting s n wf)

theorem genStep_allDC {inp : RunInput} {s : Sys} {n : Name} {nd : Node} (d : Name) (pc' : PC) (h : AllDC inp s)
    (hn : s.nodes n = some nd) (hx : DCn inp s { nd with pc := pc' }) : AllDC inp (genStep inp s n nd d pc') := by
  have hst := fun x => genStep_stOf (inp := inp) d pc' hn x
  intro k y hk
  have key : DCn inp s y := by
    unfold genStep at hk
    cases hd : s.nodes d with
    | none =>
      rw [hd] at hk; simp only [] at hk
      by_cases e1 : k = n
      · subst e1; simp [setNode] at hk; subst hk; exact hx
      · by_cases e2 : k = d
        · subst e2; simp [setNode, e1] at hk; subst hk; exact mkNode_dcn inp s _ _
        · exact h k y (by simpa [setNode, e1, e2] using hk)
    | some z =>
      rw [hd] at hk; simp only [] at hk
      split at hk
      · exact h k y hk
      · by_cases e1 : k = n
        · subst e1; simp [setNode] at hk; subst hk; exact hx
        · exact h k y (by simpa [setNode, e1] using hk)
  exact key.congr hst

theorem addWaitRun_allDC {inp : RunInput} {s : Sys} {n : Name} {nd : Node} (ds : List Name) (c : Bool) (pc' : PC)
    (h : AllDC inp s) (hn : s.nodes n = some nd) (hx : DCn inp s (waitNode inp s nd ds c pc')) :
    AllDC inp (addWaitRun inp s n nd ds c pc') := by
  have e0 : addWaitRun inp s n nd ds c pc' =
      registerWaiting (setNode s n (waitNode inp s nd ds c pc')) n (ds.filter (unfinished s)) := rfl
  rw [e0]
  apply allDC_registerWaiting
  exact allDC_setNode h hx (stOf_setNode_same hn (waitNode_facts inp s nd ds c pc').status)

theorem nodeStep_allDC {inp : RunInput} {s s' : Sys} {n : Name} {nd : Node} {perm : List Name} (h : AllDC inp s)
    (hn : s.nodes n = some nd) (hs : nodeStep inp s n nd perm = some s') : AllDC inp s' := by
  have hD := h n nd hn
  have same : ∀ x : Node, x.status = nd.status → ∀ d, stOf (setNode s n x) d = stOf s d :=
    fun x hx => stOf_setNode_same hn hx
  unfold nodeStep at hs
  cases hpc : nd.pc with
  | loopTop =>
    simp only [hpc] at hs; split at hs
    · rename_i hp; cases hs
      refine allDC_setNode h ?_ (same _ rfl)
      intro c hc hpr hg
      have hnot : c ∉ perm := fun e => hpr.2.1 ⟨rfl, e⟩
      exact h n nd hn c hc ⟨fun e => hnot (hp.mem_iff.mpr e), (fun (e : nd.pc.iterC = true ∧ c ∈ nd.snapCalc) => by rw [hpc] at e; cases e.1), hpr.2.2⟩ hg
    · cases hs
  | calcIter todo =>
    simp only [hpc] at hs
    cases todo with
    | cons d ds =>
      cases hs
      refine genStep_allDC d _ h hn ?_
      intro c hc hpr hg
      exact hD c hc ⟨hpr.1, fun e => hpr.2.1 ⟨rfl, e.2⟩, hpr.2.2⟩ hg
    | nil => cases hs; exact addWaitRun_allDC _ _ _ h hn (waitNode_calc_dcn _ hD hpc)
  | taskIter todo =>
    simp only [hpc] at hs
    cases todo with
    | cons d ds => cases hs; exact genStep_allDC d _ h hn (hD.setPc _ (by rw [hpc]; rfl))
    | nil => cases hs; exact addWaitRun_allDC _ _ _ h hn (waitNode_plain_dcn _ _ hD (by rw [hpc]; rfl) rfl)
  | afterDeps =>
    simp only [hpc] at hs
    split at hs
    · cases hs; exact allDC_setNode h (hD.setPc _ (by rw [hpc]; rfl)) (same _ rfl)
    · split at hs
      · cases hs; exact allDC_congr (allDC_setNode h (hD.setPc .loopTop (by rw [hpc]; rfl)) (same _ rfl)) rfl
      · cases hs; exact allDC_setNode h (hD.setPc _ (by rw [hpc]; rfl)) (same _ rfl)
  | self1 =>
    simp only [hpc] at hs; cases hs
    exact allDC_congr (allDC_setNode h (hD.setPc .afterSelf1 (by rw [hpc]; rfl)) (same _ rfl)) rfl
  | afterSelf1 =>
    simp only [hpc] at hs
    split at hs
    · cases hs; exact allDC_setNode h (hD.setPc _ (by rw [hpc]; rfl)) (same _ rfl)
    · split at hs
      · cases hs
        have := hD.setPc .setupDecide (by rw [hpc]; rfl)
        exact allDC_congr (allDC_setNode (x := { nd with pc := .setupDecide, waitSelect := true }) h this (same _ rfl)) rfl
      · cases hs; exact allDC_setNode h (hD.setPc _ (by rw [hpc]; rfl)) (same _ rfl)
  | setupDecide =>
    simp only [hpc] at hs
    split at hs <;> (cases hs; exact allDC_setNode h (hD.setPc _ (by rw [hpc]; rfl)) (same _ rfl))
  | setupIter todo =>
    simp only [hpc] at hs
    cases todo with
    | cons d ds => cases hs; exact genStep_allDC d _ h hn (hD.setPc _ (by rw [hpc]; rfl))
    | nil => cases hs; exact addWaitRun_allDC _ _ _ h hn (waitNode_plain_dcn _ _ hD (by rw [hpc]; rfl) rfl)
  | afterSetup =>
    simp only [hpc] at hs
    split at hs
    · cases hs; exact allDC_congr (allDC_setNode h (hD.setPc .self2 (by rw [hpc]; rfl)) (same _ rfl)) rfl
    · cases hs; exact allDC_setNode h (hD.setPc _ (by rw [hpc]; rfl)) (same _ rfl)
  | self2 =>
    simp only [hpc] at hs; cases hs
    exact allDC_congr (allDC_setNode h (hD.setPc .afterSelf2 (by rw [hpc]; rfl)) (same _ rfl)) rfl
  | afterSelf2 => simp only [hpc] at hs; cases hs; exact allDC_setNode h (hD.setPc _ (by rw [hpc]; rfl)) (same _ rfl)
  | done => simp only [hpc] at hs; cases hs; exact allDC_congr h rfl

theorem dtick_allDC {inp : RunInput} {s s' : Sys} {perm : List Name} (h : AllDC inp s)
    (hs : dtick inp s perm = some s') : AllDC inp s' := by
  unfold dtick at hs
  cases hc : s.cur with
  | some n =>
    simp only [hc] at hs
    cases hn : s.nodes n with
    | none => simp only [hn] at hs; cases hs; exact allDC_congr h rfl
    | some nd => simp only [hn] at hs; exact nodeStep_allDC h hn hs
  | none =>
    simp only [hc] at hs
    split at hs
    · cases hs; exact allDC_congr h rfl
    · split at hs
      · split at hs
        · rename_i t ts _ _ hnt
          cases hs
          refine allDC_congr (allDC_setNode h (mkNode_dcn inp s t [t]) ?_) rfl
          intro d; rw [stOf_setNode]; split
          · rename_i e; subst e; simp [stOf, hnt, mkNode]
          · rfl
        · cases hs; exact allDC_congr h rfl
      · split at hs
        · split at hs <;> (cases hs; exact allDC_congr h rfl)
        · cases hs; exact allDC_congr h rfl


theorem wakeOne_allDC {inp : RunInput} {s : Sys} {pst : RS} {p w : Name} {nd : Node} (h : AllDC inp s)
    (hw : s.nodes w = some nd) (hp : stOf s p = pst) : AllDC inp (wakeOne inp s pst p w nd) := by
  have hu := wokenF_upd inp s pst p nd
  have base := allDC_setNode h (wokenF_dcn pst p (h w nd hw) hp) (stOf_setNode_same hw hu.status)
  unfold wakeOne; split
  · exact allDC_congr base rfl
  · exact base

theorem updateWaiting_allDC {inp : RunInput} {pst : RS} {p : Name} :
    ∀ (perm : List Name) (s s' : Sys), AllDC inp s → stOf s p = pst → updateWaiting inp pst p s perm = some s' →
      AllDC inp s' := by
  intro perm
  induction perm with
  | nil => intro s s' h _ hs; simp only [updateWaiting] at hs; cases hs; exact h
  | cons w ws ih =>
    intro s s' h hp hs
    simp only [updateWaiting] at hs
    cases hw : s.nodes w with
    | none => simp only [hw] at hs; exact ih s s' h hp hs
    | some nd =>
      simp only [hw] at hs
      split at hs
      · cases hs
      · refine ih _ s' (wakeOne_allDC h hw hp) ?_ hs
        have hu := wokenF_upd inp s pst p nd
        have e : ∀ x, stOf (wakeOne inp s pst p w nd) x = stOf s x := by
          intro x
          have : (wakeOne inp s pst p w nd).nodes = (setNode s w (wokenF inp s pst p nd)).nodes := by
            unfold wakeOne; split <;> rfl
          rw [stOf_congr this]; exact stOf_setNode_same hw hu.status x
        rw [e]; exact hp

theorem sendHead_allDC {inp : RunInput} {s : Sys} {p : Name} {nd : Node} (h : AllDC inp s) (hn : s.nodes p = some nd) :
    AllDC inp (sendHead s p nd) ∧ ∀ x, stOf (sendHead s p nd) x = stOf s x := by
  unfold sendHead; split
  · have hst := stOf_setNode_same (x := { nd with waitSelect := false }) hn rfl
    have hx : DCn inp s { nd with waitSelect := false } := h p nd hn
    exact ⟨allDC_congr (allDC_setNode (x := { nd with waitSelect := false }) h hx hst) rfl, hst⟩
  · exact ⟨allDC_congr h rfl, fun _ => rfl⟩

theorem send_allDC {inp : RunInput} {s s' : Sys} {processed : Option Name} {perm : List Name} (h : AllDC inp s)
    (hs : send inp s processed perm = some s') : AllDC inp s' := by
  unfold send at hs
  cases processed with
  | none => cases hs; exact allDC_congr h rfl
  | some p =>
    simp only [] at hs
    cases hn : s.nodes p with
    | none => simp only [hn] at hs; cases hs; exact allDC_congr h rfl
    | some nd =>
      simp only [hn] at hs
      obtain ⟨h1, e1⟩ := sendHead_allDC h hn
      split at hs
      · cases hs; exact allDC_congr h rfl
      · split at hs
        · cases hs; exact allDC_congr h1 rfl
        · split at hs
          · cases hu : updateWaiting inp nd.status p (sendHead s p nd) perm with
            | none => simp only [hu] at hs; cases hs; exact allDC_congr h1 rfl
            | some s2 =>
              simp only [hu] at hs; cases hs
              have hp : stOf (sendHead s p nd) p = nd.status := by rw [e1]; simp [stOf, hn]
              exact allDC_congr (updateWaiting_allDC perm _ s2 h1 hp hu) rfl
          · cases hs

/-- the runner gives node `n` (unfinished so far) the status `st'` -/
theorem allDC_status {inp : RunInput} {s s' : Sys} {n : Name} {nd : Node} (h : AllDC inp s) (h1 : Inv1 inp s)
    (hn : s.nodes n = some nd) (hu : nd.status.finished = false) (st' : RS)
    (e1 : s'.nodes = (setNode s n { nd with status := st' }).nodes) : AllDC inp s' := by
  have hstb : Stable s s' := by
    intro d hd
    rw [stOf_congr e1, stOf_setNode]; split
    · rename_i e; subst e; simp [stOf, hn, hu] at hd
    · rfl
  intro k y hk
  rw [e1] at hk
  by_cases e : k = n
  · subst e
    simp [setNode] at hk; subst hk
    exact (h k nd hn).stable (h1.node k nd hn) hstb
  · have hk' : s.nodes k = some y := by simpa [setNode, e] using hk
    exact (h k y hk').stable (h1.node k y hk') hstb

/-- the dependency list recorded with `go` is closed under what its calc members deliver -/
def DepsClosed (inp : RunInput) (n : Name) (cs deps : List Name) : Prop :=
  (∀ c ∈ inp.calcDep n, c ∈ cs) ∧ (∀ c ∈ cs, c ∈ deps) ∧
  ∀ c ∈ cs, (∀ x ∈ (inp.calcRes c).calcs, x ∈ cs) ∧ (∀ x ∈ (inp.calcRes c).tasks, x ∈ deps) ∧
    (∀ x ∈ (inp.calcRes c).files, x ∈ deps)

structure InvG (inp : RunInput) (s : Sys) : Prop where
  dc : AllDC inp s
  gd : ∀ n deps, Ev.go n deps ∈ s.events → ∃ cs, DepsClosed inp n cs deps

/-- at the moment `select_task` answers yes the recorded list is closed -/
theorem go_closed {inp : RunInput} {s : Sys} {n : Name} {nd : Node} (h2 : Inv2 inp s) (hg : InvG inp s)
    (haw : awaiting s) (hsusp : s.susp = some (.node n)) (hn : s.nodes n = some nd)
    (hd : selDecision inp n nd = .go) : DepsClosed inp n nd.dynCalc (allDeps inp n nd) := by
  have hok := h2.inv1.node n nd hn
  have good := go_deps_good h2 haw hsusp hn hd
  obtain ⟨nd', hn', hpc⟩ := h2.inv1.sp n hsusp
  rw [hn] at hn'; cases hn'
  have hm1 : nd.pendTask = [] ∧ nd.pendCalc = [] ∧ nd.waitRunCalc = [] := by
    rcases hpc with e | e <;> exact hok.m1 (by rw [e]; rfl)
  have noC : nd.pc.iterC = false := by rcases hpc with e | e <;> (rw [e]; rfl)
  refine ⟨fun c hc => hok.st.2 c hc, fun c hc => by simp [allDeps, hc], ?_⟩
  intro c hc
  have hpr : Processed nd c := ⟨by rw [hm1.2.1]; simp,
    (fun (e : nd.pc.iterC = true ∧ c ∈ nd.snapCalc) => by rw [noC] at e; cases e.1), by rw [hm1.2.2]; simp⟩
  have hgood : (stOf s c).good = true := good c (by simp [allDeps, hc])
  obtain ⟨d1, d2, d3⟩ := hg.dc n nd hn c hc hpr hgood
  exact ⟨d3, fun x hx => by simp [allDeps, d1 x hx], fun x hx => by simp [allDeps, d2 x hx]⟩


theorem invG_outer {inp : RunInput} {s s' : Sys} (h : InvG inp s) (e1 : s'.nodes = s.nodes)
    (hev : ∀ n deps, Ev.go n deps ∈ s'.events → Ev.go n deps ∈ s.events) : InvG inp s' :=
  ⟨allDC_congr h.dc e1, fun n deps hg => h.gd n deps (hev n deps hg)⟩

theorem invG_dtick {inp : RunInput} {s s' : Sys} {perm : List Name} (h : InvG inp s)
    (hs : dtick inp s perm = some s') : InvG inp s' :=
  ⟨dtick_allDC h.dc hs, fun n deps hg => h.gd n deps (by rw [← (dtick_outer hs).1]; exact hg)⟩

theorem invG_send {inp : RunInput} {s s0 : Sys} {node : Option Name} {perm : List Name} (rpc' : RPC) (h : InvG inp s)
    (hs : send inp s node perm = some s0) : InvG inp { s0 with rpc := rpc' } :=
  ⟨allDC_congr (send_allDC h.dc hs) rfl, fun n deps hg => h.gd n deps (by
    have : Ev.go n deps ∈ s0.events := hg
    rw [(send_outer hs).1.1] at this; exact this)⟩

theorem invG_select {inp : RunInput} {s s' : Sys} {n : Name} {nd : Node} (h : InvG inp s) (h2 : Inv2 inp s)
    (haw : awaiting s) (hsusp : s.susp = some (.node n)) (hn : s.nodes n = some nd)
    (hd : selDecision inp n nd ≠ .assertFail)
    (e1 : s'.nodes = (applySel inp s n nd (selDecision inp n nd)).nodes)
    (hev : ∀ m deps, Ev.go m deps ∈ s'.events → Ev.go m deps ∈ (applySel inp s n nd (selDecision inp n nd)).events) :
    InvG inp s' := by
  refine ⟨allDC_status h.dc h2.inv1 hn (selDecision_unfinished hd) _ (e1.trans (applySel_nodes inp s n nd _ hd)), ?_⟩
  intro m deps hg
  have hg' := hev m deps hg
  rw [applySel_events] at hg'
  rcases List.mem_append.mp hg' with a | a
  · cases hdd : selDecision inp n nd <;> rw [hdd] at a <;> simp [selEvents, statusEv_noGo] at a
    obtain ⟨rfl, rfl⟩ := a
    exact ⟨nd.dynCalc, go_closed h2 h haw hsusp hn hdd⟩
  · exact h.gd m deps a

theorem invG_result {inp : RunInput} {s s1 s' : Sys} {n : Name} {nd : Node} (h : InvG inp s) (h1 : Inv1 inp s)
    (hn : s.nodes n = some nd) (hrun : nd.status = .run) (e0 : s1.nodes = s.nodes)
    (e1 : s'.nodes = (processResult inp s1 n nd).nodes)
    (hev : ∀ m deps, Ev.go m deps ∈ s'.events → Ev.go m deps ∈ s.events) : InvG inp s' := by
  refine ⟨allDC_status h.dc h1 hn (by rw [hrun]; rfl) (resStatus (inp.outcome n)) ?_, fun m deps hg => h.gd m deps (hev m deps hg)⟩
  rw [e1, processResult_nodes]; funext k; simp [setNode, e0]

theorem init_invG (inp : RunInput) : InvG inp (init inp) :=
  ⟨fun n nd hn => by simp [init] at hn, fun n deps hg => by simp [init] at hg⟩

theorem mem_go_append {new old : List Ev} {m : Name} {deps : List Name}
    (hnew : ∀ e ∈ new, ∀ a b, e ≠ Ev.go a b) (h : Ev.go m deps ∈ new ++ old) : Ev.go m deps ∈ old := by
  rcases List.mem_append.mp h with a | a
  · exact absurd rfl (hnew _ a m deps)
  · exact a

theorem startEvents_noGo (inp : RunInput) (n w : Nat) :
    ∀ e ∈ (if inp.runner = .process then [Ev.start n w] else [Ev.start n w, Ev.execute n]), ∀ a b, e ≠ Ev.go a b := by
  intro e he a b
  split at he <;> simp at he
  · subst he; intro x; cases x
  · rcases he with rfl | rfl <;> (intro x; cases x)

theorem resEvents_noGo (n : Name) (o : Outcome) : ∀ e ∈ resEvents n o, ∀ a b, e ≠ Ev.go a b := by
  intro e he a b; cases o <;> simp [resEvents] at he <;> (subst he; intro x; cases x)

theorem serialStep_invG {inp : RunInput} {s s' : Sys} {perm : List Name} (h : InvG inp s) (h2 : Inv2 inp s)
    (hs : serialStep inp s perm = some s') : InvG inp s' := by
  unfold serialStep at hs
  cases hr : s.rpc with
  | sTop node =>
    simp only [hr] at hs
    split at hs
    · cases hs; exact invG_outer h rfl (fun _ _ a => a)
    · cases hsd : send inp s node perm with
      | none => simp only [hsd] at hs; cases hs
      | some s0 => simp only [hsd] at hs; cases hs; exact invG_send _ h hsd
  | sWait =>
    simp only [hr] at hs
    have haw : awaiting s := Or.inl hr
    cases hsu : s.susp with
    | none => simp only [hsu] at hs; exact invG_dtick h hs
    | some o =>
      simp only [hsu] at hs
      cases o with
      | init => cases hs
      | node n =>
        simp only [] at hs
        cases hn : s.nodes n with
        | none => simp only [hn] at hs; cases hs; exact invG_outer h rfl (fun _ _ a => a)
        | some nd =>
          simp only [hn] at hs
          have key : ∀ (hd : selDecision inp n nd ≠ .assertFail),
              InvG inp { applySel inp s n nd (selDecision inp n nd) with rpc := .sTop (some n) } :=
            fun hd => invG_select h h2 haw hsu hn hd rfl (fun _ _ a => a)
          cases hd : selDecision inp n nd with
          | go =>
            simp only [hd] at hs; cases hs
            have := invG_select (s' := { startTask inp (applySel inp s n nd (selDecision inp n nd)) n 0 with rpc := .sExec n })
              h h2 haw hsu hn (by rw [hd]; simp) rfl ?_
            · rwa [hd] at this
            · intro m deps hg
              have hg' : Ev.go m deps ∈ (startTask inp (applySel inp s n nd (selDecision inp n nd)) n 0).events := hg
              rw [startTask_events] at hg'
              exact mem_go_append (startEvents_noGo inp n 0) hg'
          | assertFail => simp only [hd] at hs; cases hs; exact invG_outer h rfl (fun _ _ a => a)
          | skipIgn => simp only [hd] at hs; cases hs; have := key (by simp [hd]); rwa [hd] at this
          | unmet => simp only [hd] at hs; cases hs; have := key (by simp [hd]); rwa [hd] at this
          | depErr => simp only [hd] at hs; cases hs; have := key (by simp [hd]); rwa [hd] at this
          | utd => simp only [hd] at hs; cases hs; have := key (by simp [hd]); rwa [hd] at this
          | runFirst => simp only [hd] at hs; cases hs; have := key (by simp [hd]); rwa [hd] at this
          | argsErr => simp only [hd] at hs; cases hs; have := key (by simp [hd]); rwa [hd] at this
      | stopIter => cases hs; exact invG_outer h rfl (fun _ _ a => a)
      | holdOn => cases hs; exact invG_outer h rfl (fun _ _ a => a)
      | cyclic n => cases hs; exact invG_outer h rfl (fun _ _ a => a)
      | crash => cases hs; exact invG_outer h rfl (fun _ _ a => a)
  | sExec n =>
    simp only [hr] at hs
    cases hn : s.nodes n with
    | none => simp only [hn] at hs; cases hs; exact invG_outer h rfl (fun _ _ a => a)
    | some nd =>
      simp only [hn] at hs; cases hs
      have hrun : nd.status = .run := by have := h2.x n hr; simpa [stOf, hn] using this
      refine invG_result (s1 := { s with rpc := .sExec n, events := Ev.fin n 0 :: s.events }) h h2.inv1 hn hrun rfl rfl ?_
      intro m deps hg
      have hg' : Ev.go m deps ∈ (processResult inp { s with rpc := .sExec n, events := Ev.fin n 0 :: s.events } n nd).events := hg
      rw [processResult_events] at hg'
      have := mem_go_append (resEvents_noGo n _) hg'
      rcases List.mem_cons.mp this with x | x
      · cases x
      · exact x
  | fin =>
    simp only [hr] at hs; cases hs
    refine invG_outer h rfl ?_
    intro m deps hg
    have : Ev.go m deps = Ev.complete ∨ (∃ x ∈ s.tdown, Ev.teardown x = Ev.go m deps) ∨ Ev.go m deps ∈ s.events := by
      simpa [finishRun] using hg
    rcases this with x | ⟨_, _, x⟩ | x
    · cases x
    · cases x
    · exact x
  | gEntry a b => simp only [hr] at hs; cases hs
  | gLoop a b => simp only [hr] at hs; cases hs
  | gWait a => simp only [hr] at hs; cases hs
  | gRet a b => simp only [hr] at hs; cases hs
  | pTop => simp only [hr] at hs; cases hs
  | pJoin => simp only [hr] at hs; cases hs
  | halted => simp only [hr] at hs; cases hs

theorem reach_invG {inp : RunInput} {s : Sys} (h : Reach inp s) : InvG inp s := by
  induction h with
  | init => exact init_invG inp
  | @next s0 s1 c hr hs ih =>
    cases c with
    | main perm => exact serialStep_invG ih (reach_inv2 hr) hs
    | take w => cases hs
    | done w => cases hs


theorem takeStep_invG {inp : RunInput} {s s' : Sys} {w : Nat} (h : InvG inp s)
    (hs : takeStep inp s w = some s') : InvG inp s' := by
  unfold takeStep at hs
  by_cases hidle : s.workers w = .idle
  case neg => simp only [hidle, if_false] at hs; cases hs
  simp only [hidle, if_true] at hs
  cases hq : s.jobQ with
  | nil => simp only [hq] at hs; cases hs
  | cons j js =>
    simp only [hq] at hs
    cases j with
    | hold => cases hs; exact invG_outer h rfl (fun _ _ a => a)
    | stop => cases hs; exact invG_outer h rfl (fun _ _ a => a)
    | task n =>
      cases hs
      refine invG_outer h rfl ?_
      intro m deps hg
      have hg' : Ev.go m deps ∈ (startTask inp s n w).events := hg
      rw [startTask_events] at hg'
      exact mem_go_append (startEvents_noGo inp n w) hg'

theorem doneStep_invG {inp : RunInput} {s s' : Sys} {w : Nat} (h : InvG inp s)
    (hs : doneStep s w = some s') : InvG inp s' := by
  unfold doneStep at hs
  cases hw : s.workers w with
  | running n =>
    simp only [hw] at hs; cases hs
    refine invG_outer h rfl ?_
    intro m deps hg
    rcases List.mem_cons.mp hg with x | x
    · cases x
    · exact x
  | notStarted => simp only [hw] at hs; cases hs
  | idle => simp only [hw] at hs; cases hs
  | exited => simp only [hw] at hs; cases hs

theorem gReturn_invG {inp : RunInput} {s : Sys} (job : Job) (ret : Ret) (h : InvG inp s) :
    InvG inp (gReturn s job ret) := by
  cases ret with
  | startLoop k =>
    simp only [gReturn]
    split
    · exact invG_outer h rfl (fun _ _ a => a)
    · split <;> exact invG_outer h rfl (fun _ _ a => a)
  | feedLoop k =>
    simp only [gReturn]
    split
    · split <;> exact invG_outer h rfl (fun _ _ a => a)
    · exact invG_outer h rfl (fun _ _ a => a)

theorem mainStep_invG {inp : RunInput} {s s' : Sys} {perm : List Name} (h : InvG inp s) (h2 : Inv2 inp s)
    (h3 : Inv3 inp s) (hs : mainStep inp s perm = some s') : InvG inp s' := by
  unfold mainStep at hs
  cases hr : s.rpc with
  | gEntry completed ret =>
    simp only [hr] at hs
    split at hs <;> (cases hs; exact invG_outer h rfl (fun _ _ a => a))
  | gLoop node ret =>
    simp only [hr] at hs
    cases hsd : send inp s node perm with
    | none => simp only [hsd] at hs; cases hs
    | some s0 => simp only [hsd] at hs; cases hs; exact invG_send _ h hsd
  | gWait ret =>
    simp only [hr] at hs
    have haw : awaiting s := Or.inr ⟨ret, hr⟩
    cases hsu : s.susp with
    | none => simp only [hsu] at hs; exact invG_dtick h hs
    | some o =>
      simp only [hsu] at hs
      cases o with
      | init => cases hs
      | node n =>
        simp only [] at hs
        cases hn : s.nodes n with
        | none => simp only [hn] at hs; cases hs; exact invG_outer h rfl (fun _ _ a => a)
        | some nd =>
          simp only [hn] at hs
          have key : ∀ (rpc' : RPC) (hd : selDecision inp n nd ≠ .assertFail),
              InvG inp { applySel inp s n nd (selDecision inp n nd) with rpc := rpc' } :=
            fun rpc' hd => invG_select h h2 haw hsu hn hd rfl (fun _ _ a => a)
          cases hd : selDecision inp n nd with
          | go => simp only [hd] at hs; cases hs; have := key (.gRet (.task n) ret) (by simp [hd]); rwa [hd] at this
          | assertFail => simp only [hd] at hs; cases hs; exact invG_outer h rfl (fun _ _ a => a)
          | skipIgn => simp only [hd] at hs; cases hs; have := key (.gLoop (some n) ret) (by simp [hd]); rwa [hd] at this
          | unmet => simp only [hd] at hs; cases hs; have := key (.gLoop (some n) ret) (by simp [hd]); rwa [hd] at this
          | depErr => simp only [hd] at hs; cases hs; have := key (.gLoop (some n) ret) (by simp [hd]); rwa [hd] at this
          | utd => simp only [hd] at hs; cases hs; have := key (.gLoop (some n) ret) (by simp [hd]); rwa [hd] at this
          | runFirst => simp only [hd] at hs; cases hs; have := key (.gLoop (some n) ret) (by simp [hd]); rwa [hd] at this
          | argsErr => simp only [hd] at hs; cases hs; have := key (.gLoop (some n) ret) (by simp [hd]); rwa [hd] at this
      | holdOn => cases hs; exact invG_outer h rfl (fun _ _ a => a)
      | stopIter => cases hs; exact invG_outer h rfl (fun _ _ a => a)
      | cyclic n => cases hs; exact invG_outer h rfl (fun _ _ a => a)
      | crash => cases hs; exact invG_outer h rfl (fun _ _ a => a)
  | gRet job ret => simp only [hr] at hs; cases hs; exact gReturn_invG job ret h
  | pTop =>
    simp only [hr] at hs
    split at hs
    · cases hs; exact invG_outer h rfl (fun _ _ a => a)
    · cases hq : s.resQ with
      | nil => simp only [hq] at hs; cases hs
      | cons n rest =>
        simp only [hq] at hs
        cases hn : s.nodes n with
        | none => simp only [hn] at hs; cases hs; exact invG_outer h rfl (fun _ _ a => a)
        | some nd =>
          simp only [hn] at hs; cases hs
          have hrun : nd.status = .run := by
            have := (h3.q1 n (by rw [hq]; simp)).2; simpa [stOf, hn] using this
          refine invG_result (s1 := { s with rpc := .pTop, resQ := rest }) h h2.inv1 hn hrun rfl rfl ?_
          intro m deps hg
          have hg' : Ev.go m deps ∈ (processResult inp { s with rpc := .pTop, resQ := rest } n nd).events := hg
          rw [processResult_events] at hg'
          exact mem_go_append (resEvents_noGo n _) hg'
  | pJoin =>
    simp only [hr] at hs
    split at hs
    · cases hs; exact invG_outer h rfl (fun _ _ a => a)
    · cases hs
  | fin =>
    simp only [hr] at hs; cases hs
    refine invG_outer h rfl ?_
    intro m deps hg
    have : Ev.go m deps = Ev.complete ∨ (∃ x ∈ s.tdown, Ev.teardown x = Ev.go m deps) ∨ Ev.go m deps ∈ s.events := by
      simpa [finishRun] using hg
    rcases this with x | ⟨_, _, x⟩ | x
    · cases x
    · cases x
    · exact x
  | sTop a => simp only [hr] at hs; cases hs
  | sWait => simp only [hr] at hs; cases hs
  | sExec a => simp only [hr] at hs; cases hs
  | halted => simp only [hr] at hs; cases hs

theorem preach_invG {inp : RunInput} {s : Sys} (h : PReach inp s) : InvG inp s := by
  induction h with
  | init => exact init_invG inp
  | @next s0 s1 c hr hs ih =>
    have hi := preach_inv hr
    cases c with
    | main perm => exact mainStep_invG ih hi.1 hi.2 hs
    | take w => exact takeStep_invG ih hs
    | done w => exact doneStep_invG ih hs

/-! ### from the recorded list to the dependencies computed from the observed trace -/

theorem calcsAt_subset {inp : RunInput} {t : Name} {cs deps : List Name} (hc : DepsClosed inp t cs deps)
    (pre : List Ev) : ∀ (fuel : Nat) (xs : List Name), (∀ x ∈ xs, x ∈ cs) → ∀ x ∈ calcsAt inp pre fuel xs, x ∈ cs := by
  intro fuel
  induction fuel with
  | zero => intro xs h x hx; exact h x hx
  | succ k ih =>
    intro xs h x hx
    simp only [calcsAt] at hx
    refine ih _ ?_ x hx
    intro y hy
    -- `addNew` only adds members of the second list
    have key : ∀ (acc ys : List Name), (∀ a ∈ acc, a ∈ cs) → (∀ a ∈ ys, a ∈ cs) → ∀ a ∈ addNew acc ys, a ∈ cs := by
      intro acc ys
      induction ys generalizing acc with
      | nil => intro h1 _ a ha; exact h1 a ha
      | cons b bs ihb =>
        intro h1 h2 a ha
        simp only [addNew, List.foldl_cons] at ha
        refine ihb _ ?_ (fun z hz => h2 z (by simp [hz])) a ha
        intro z hz
        split at hz
        · exact h1 z hz
        · rcases List.mem_append.mp hz with w | w
          · exact h1 z w
          · simp at w; subst w; exact h2 z (by simp)
    refine key xs _ h ?_ y hy
    intro a ha
    simp only [List.mem_flatMap, List.mem_filter] at ha
    obtain ⟨c, ⟨hcx, _⟩, hac⟩ := ha
    exact (hc.2.2 c (h c hcx)).1 a hac

/-- everything the monitor's `depsAt` computes for `t` from any set of observed finish reports is in the list recorded
    when `select_task(t)` answered yes -/
theorem depsAt_subset {inp : RunInput} {t : Name} {cs deps : List Name} (hc : DepsClosed inp t cs deps)
    (hs : ∀ d ∈ staticDeps inp t, d ∈ deps) (nTasks : Nat) (pre : List Ev) :
    ∀ d ∈ depsAt inp nTasks pre t, d ∈ deps := by
  intro d hd
  have hcs := calcsAt_subset hc pre nTasks (inp.calcDep t) hc.1
  simp only [depsAt, List.mem_append, List.mem_flatMap, List.mem_filter] at hd
  rcases hd with ((a | a) | a) | ⟨c, ⟨hcx, _⟩, hac⟩
  · exact hs d (by simp [staticDeps, a])
  · exact hs d (by simp [staticDeps, a])
  · exact hc.2.1 d (hcs d a)
  · have := hc.2.2 c (hcs c hcx)
    rcases hac with x | x
    · exact this.2.1 d x
    · exact this.2.2 d x

/-- C01 in the form of the monitor: before a `start t`, every dependency of `t` — static ones and whatever finished
    calc_deps delivered, computed by `depsAt` from ANY list `obs` of observed events — has its finish report -/
theorem start_after_depsAt {inp : RunInput} {s : Sys} (h2 : Inv2 inp s) (hg : InvG inp s) {pre post : List Ev}
    {t w : Nat} (he : s.events = pre ++ Ev.start t w :: post) (nTasks : Nat) (obs : List Ev) :
    ∀ d ∈ depsAt inp nTasks obs t, finBefore post d := by
  obtain ⟨deps, hgo, hst, hfin⟩ := start_after_known_deps h2 he
  have hmem : Ev.go t deps ∈ s.events := by rw [he]; simp [hgo]
  obtain ⟨cs, hc⟩ := hg.gd t deps hmem
  intro d hd
  exact hfin d (depsAt_subset hc hst nTasks obs d hd)


/-! ### the monitor `monC01Order` holds on the model's observable trace -/

theorem orderFrom_of_splits (inp : RunInput) (nTasks : Nat) :
    ∀ (rest pre : List Ev),
      (∀ a b t w, rest = a ++ Ev.start t w :: b → ∀ d ∈ depsAt inp nTasks (pre ++ a) t, finishedIn (pre ++ a) d = true) →
      orderFrom inp nTasks pre rest = true := by
  intro rest
  induction rest with
  | nil => intro pre _; rfl
  | cons e es ih =>
    intro pre h
    simp only [orderFrom, Bool.and_eq_true]
    constructor
    · cases e with
      | start t w =>
        simp only [List.all_eq_true]
        intro d hd
        have := h [] es t w rfl d (by simpa using hd)
        simpa using this
      | _ => rfl
    · apply ih
      intro a b t w hsplit d hd
      have := h (e :: a) b t w (by rw [hsplit]; rfl) d (by simpa using hd)
      simpa using this

theorem finBefore_finishedIn {post : List Ev} {d : Name} (h : finBefore post d) (l : List Ev)
    (hl : ∀ e, e ∈ post → (Ev.isFinishOf d e = true) → e ∈ l) : finishedIn l d = true := by
  unfold finishedIn
  rw [List.any_eq_true]
  rcases h with x | x
  · exact ⟨_, hl _ x (by simp [Ev.isFinishOf]), by simp [Ev.isFinishOf]⟩
  · exact ⟨_, hl _ x (by simp [Ev.isFinishOf]), by simp [Ev.isFinishOf]⟩

theorem monC01Order_of_inv {inp : RunInput} {s : Sys} (h2 : Inv2 inp s) (hg : InvG inp s) (nTasks : Nat) :
    monC01Order inp nTasks (trace inp s) = true := by
  unfold monC01Order
  apply orderFrom_of_splits
  intro a b t w hsplit d hd
  simp only [List.nil_append] at hd ⊢
  -- translate the split of the filtered, reversed list into a split of `s.events`
  unfold trace at hsplit
  have h1 : s.events.filter (fun e => !hidden inp e) = b.reverse ++ Ev.start t w :: a.reverse := by
    have := congrArg List.reverse hsplit
    simpa using this
  obtain ⟨l1, l2, e1, f1, f2⟩ := List.filter_eq_append_iff.mp h1
  obtain ⟨m1, m2, e2, _, _, f3⟩ := List.filter_eq_cons_iff.mp f2
  have he : s.events = (l1 ++ m1) ++ Ev.start t w :: m2 := by rw [e1, e2]; simp
  have hfb := start_after_depsAt h2 hg he nTasks a d hd
  refine finBefore_finishedIn hfb a ?_
  intro e hem hfin
  have hnh : hidden inp e = false := by
    cases e <;> simp [Ev.isFinishOf] at hfin <;> rfl
  have : e ∈ m2.filter (fun e => !hidden inp e) := by simp [List.mem_filter, hem, hnh]
  rw [f3] at this
  simpa using this

end DoitModel.Run
