import DoitModel.Proofs.C11LazyCtx
/-! # C11, laziness monitor: when the first pass of `select_task` answers `run`, the monitor's `ranFirst` holds -/
namespace DoitModel.Run
open DoitModel.Report

/-- a yielded node with no failed / ignored dependency registered: every dynamic dependency is executed / up-to-date -/
theorem loop_deps_good {inp : RunInput} {s : Sys} {n : Name} {nd : Node} (h : Inv2 inp s)
    (hsusp : s.susp = some (.node n)) (hn : s.nodes n = some nd) (hb : nd.bad = []) (hi : nd.ign = []) :
    ∀ d ∈ nd.dynTask ++ nd.dynCalc, (stOf s d).good = true := by
  have hok := h.inv1.node n nd hn
  obtain ⟨nd', hn', hpc⟩ := h.inv1.sp n hsusp
  rw [hn] at hn'; cases hn'
  have clsGood : ∀ d, Cls s nd d → (stOf s d).good = true := by
    intro d ⟨c1, c2, c3⟩
    exact RS.good_of_fin c1 (fun e => by have := c2 e; rw [hb] at this; cases this)
      (fun e => by have := c3 e; rw [hi] at this; cases this)
  have hm1 : nd.pendTask = [] ∧ nd.pendCalc = [] ∧ nd.waitRunCalc = [] := by
    rcases hpc with e | e <;> exact hok.m1 (by rw [e]; rfl)
  have hm2 : nd.waitRun = [] := by
    rcases hpc with e | e <;> exact hok.m2 (by rw [e]; rfl)
  have noT : nd.pc.iterT = false := by rcases hpc with e | e <;> (rw [e]; rfl)
  have noC : nd.pc.iterC = false := by rcases hpc with e | e <;> (rw [e]; rfl)
  intro d hd
  rcases List.mem_append.mp hd with hd | hd
  · rcases hok.kt d hd with a | ⟨a, _⟩ | a | a
    · rw [hm1.1] at a; cases a
    · rw [noT] at a; cases a
    · rw [hm2] at a; cases a
    · exact clsGood d a
  · rcases hok.kc d hd with a | ⟨a, _⟩ | a | a
    · rw [hm1.2.1] at a; cases a
    · rw [noC] at a; cases a
    · rw [hm1.2.2] at a; cases a
    · exact clsGood d a

/-- … and the dynamic lists are closed under what their calc members deliver -/
theorem loop_deps_closed {inp : RunInput} {s : Sys} {n : Name} {nd : Node} (h : Inv2 inp s) (hg : InvG inp s)
    (hsusp : s.susp = some (.node n)) (hn : s.nodes n = some nd) (hb : nd.bad = []) (hi : nd.ign = []) :
    DepsClosed inp n nd.dynCalc (nd.dynTask ++ nd.dynCalc) := by
  have hok := h.inv1.node n nd hn
  have good := loop_deps_good h hsusp hn hb hi
  obtain ⟨nd', hn', hpc⟩ := h.inv1.sp n hsusp
  rw [hn] at hn'; cases hn'
  have hm1 : nd.pendTask = [] ∧ nd.pendCalc = [] ∧ nd.waitRunCalc = [] := by
    rcases hpc with e | e <;> exact hok.m1 (by rw [e]; rfl)
  have noC : nd.pc.iterC = false := by rcases hpc with e | e <;> (rw [e]; rfl)
  refine ⟨fun c hc => hok.st.2 c hc, fun c hc => by simp [hc], ?_⟩
  intro c hc
  have hpr : Processed nd c := ⟨by rw [hm1.2.1]; simp,
    (fun (e : nd.pc.iterC = true ∧ c ∈ nd.snapCalc) => by rw [noC] at e; cases e.1), by rw [hm1.2.2]; simp⟩
  have hgood : (stOf s c).good = true := good c (by simp [hc])
  obtain ⟨d1, d2, d3⟩ := hg.dc n nd hn c hc hpr hgood
  exact ⟨d3, fun x hx => by simp [d1 x hx], fun x hx => by simp [d2 x hx]⟩

theorem first_run_ranFirst {inp : RunInput} {s : Sys} {n : Name} {nd : Node} (c : Ctx inp s)
    (hsusp : s.susp = some (.node n)) (hn : s.nodes n = some nd) (h0 : nd.status = .none)
    (hrun : selStatus (selDecision inp n nd) = .run) (nT : Nat) : ranFirst inp nT (trace inp s) n = true := by
  unfold selDecision at hrun
  simp only [h0, if_true] at hrun
  split at hrun; · cases hrun
  rename_i hi
  split at hrun; · cases hrun
  rename_i hb
  split at hrun; · cases hrun
  rename_i he
  split at hrun; · cases hrun
  rename_i hu
  have hi' : nd.ign = [] ∧ inp.ignored n = false := by
    simp only [not_or, ne_eq, Decidable.not_not] at hi
    exact ⟨hi.1, by simpa using hi.2⟩
  have hb' : nd.bad = [] := by simpa using hb
  have good := loop_deps_good c.h2 hsusp hn hb' hi'.1
  have closed := loop_deps_closed c.h2 c.hg hsusp hn hb' hi'.1
  have hok := c.h2.inv1.node n nd hn
  have hcs := calcsAt_subset closed (trace inp s) nT (inp.calcDep n) closed.1
  have hrunS : effStatus inp n = .run := by
    unfold effStatus at hu ⊢
    split
    · rfl
    · rename_i ha
      simp only [ha] at hu
      cases hst : inp.statusOf n with
      | run => rfl
      | utd => exact absurd hst hu
      | error => exact absurd hst he
  unfold ranFirst
  simp only [Bool.and_eq_true, List.all_eq_true, Bool.not_eq_true', bne_iff_ne, ne_eq, beq_iff_eq]
  refine ⟨⟨⟨hi'.2, he⟩, hrunS⟩, ?_⟩
  intro x hx
  apply c.good_finished
  apply good
  simp only [List.mem_append, List.mem_flatMap, List.mem_filter] at hx
  rcases hx with (a | a) | ⟨cc, ⟨hcc, _⟩, a⟩
  · exact List.mem_append.mpr (Or.inl (hok.st.1 x a))
  · exact List.mem_append.mpr (Or.inr (hcs x a))
  · have := closed.2.2 cc (hcs cc hcc)
    rcases a with b | b
    · exact this.2.1 x b
    · exact this.2.2 x b

end DoitModel.Run
