import DoitModel.Proofs.RunStep
import DoitModel.Model.RunMon
/-! # System-level invariant `Inv2` (runner discipline, event order) and the serial runner -/
namespace DoitModel.Run

/-- the runner is about to call `select_task` on the yielded node -/
def awaiting (s : Sys) : Prop := s.rpc = .sWait ∨ ∃ ret, s.rpc = .gWait ret

/-- the node the runner will send back to the dispatcher -/
def sentBack (s : Sys) : Option Name :=
  match s.rpc with
  | .sTop p => p
  | .gLoop p _ => p
  | .gEntry p _ => p
  | _ => none

def finBefore (post : List Ev) (d : Name) : Prop := Ev.success d ∈ post ∨ Ev.skipUtd d ∈ post

/-- what must hold of the events older than `e` -/
def EvOK : Ev → List Ev → Prop
  | .go _ deps, post => ∀ d ∈ deps, finBefore post d
  | .start n _, post => ∃ deps, Ev.go n deps ∈ post
  | _, _ => True

/-- every event (newest first) is justified by the older ones -/
def OrdOK : List Ev → Prop
  | [] => True
  | e :: post => EvOK e post ∧ OrdOK post

def staticDeps (inp : RunInput) (n : Name) : List Name := inp.taskDep n ++ inp.calcDep n ++ inp.setup n

structure Inv2 (inp : RunInput) (s : Sys) : Prop where
  inv1 : Inv1 inp s
  sb : ∀ p, sentBack s = some p → stOf s p ≠ .none
  sel1 : awaiting s → ∀ n nd, s.susp = some (.node n) → s.nodes n = some nd → nd.pc = .afterSelf1 →
    nd.status = .none
  f1 : ∀ n, (Job.task n ∈ s.jobQ ∨ (∃ ret, s.rpc = .gRet (.task n) ret)) → ∃ deps, Ev.go n deps ∈ s.events
  g : ∀ d, (stOf s d = .ok → Ev.success d ∈ s.events) ∧ (stOf s d = .utd → Ev.skipUtd d ∈ s.events)
  ord : OrdOK s.events
  gs : ∀ n deps, Ev.go n deps ∈ s.events → ∀ d ∈ staticDeps inp n, d ∈ deps
  x : ∀ n, s.rpc = .sExec n → stOf s n = .run

theorem finBefore_mono {post post' : List Ev} {d : Name} (h : ∀ e, e ∈ post → e ∈ post') (hf : finBefore post d) :
    finBefore post' d := by
  rcases hf with a | a
  · exact Or.inl (h _ a)
  · exact Or.inr (h _ a)

/-- appending events that need no justification -/
theorem OrdOK_append_plain {new old : List Ev} (h : OrdOK old)
    (hp : ∀ e ∈ new, match e with | .go _ _ => False | .start _ _ => False | _ => True) : OrdOK (new ++ old) := by
  induction new with
  | nil => exact h
  | cons e t ih =>
    have := hp e (by simp)
    refine ⟨?_, ih (fun x hx => hp x (by simp [hx]))⟩
    cases e <;> simp_all [EvOK]

theorem statusEv_plain (nd : Node) (n : Name) :
    ∀ e ∈ statusEv nd n, match e with | .go _ _ => False | .start _ _ => False | _ => True := by
  intro e he; unfold statusEv at he; split at he
  · simp at he; subst he; trivial
  · cases he

/-- when `select_task` answers `True`, every dependency known then is executed or up-to-date -/
theorem go_deps_good {inp : RunInput} {s : Sys} {n : Name} {nd : Node} (h : Inv2 inp s) (haw : awaiting s)
    (hsusp : s.susp = some (.node n)) (hn : s.nodes n = some nd) (hd : selDecision inp n nd = .go) :
    ∀ d ∈ allDeps inp n nd, (stOf s d).good = true := by
  have hok := h.inv1.node n nd hn
  obtain ⟨nd', hn', hpc⟩ := h.inv1.sp n hsusp
  rw [hn] at hn'; cases hn'
  have clsGood : nd.bad = [] → nd.ign = [] → ∀ d, Cls s nd d → (stOf s d).good = true := by
    intro hb hi d ⟨c1, c2, c3⟩
    exact RS.good_of_fin c1 (fun e => by have := c2 e; rw [hb] at this; cases this)
      (fun e => by have := c3 e; rw [hi] at this; cases this)
  have hm1 : nd.pendTask = [] ∧ nd.pendCalc = [] ∧ nd.waitRunCalc = [] := by
    rcases hpc with e | e <;> exact hok.m1 (by rw [e]; rfl)
  have hm2 : nd.waitRun = [] := by
    rcases hpc with e | e <;> exact hok.m2 (by rw [e]; rfl)
  have noT : nd.pc.iterT = false := by rcases hpc with e | e <;> (rw [e]; rfl)
  have noC : nd.pc.iterC = false := by rcases hpc with e | e <;> (rw [e]; rfl)
  have loopDeps : nd.bad = [] → nd.ign = [] → ∀ d ∈ nd.dynTask ++ nd.dynCalc, (stOf s d).good = true := by
    intro hb hi d hd
    rcases List.mem_append.mp hd with hd | hd
    · rcases hok.kt d hd with a | ⟨a, _⟩ | a | a
      · rw [hm1.1] at a; cases a
      · rw [noT] at a; cases a
      · rw [hm2] at a; cases a
      · exact clsGood hb hi d a
    · rcases hok.kc d hd with a | ⟨a, _⟩ | a | a
      · rw [hm1.2.1] at a; cases a
      · rw [noC] at a; cases a
      · rw [hm1.2.2] at a; cases a
      · exact clsGood hb hi d a
  unfold selDecision at hd
  by_cases h0 : nd.status = .none
  · simp only [h0, if_true] at hd
    split at hd; · cases hd
    rename_i hi
    split at hd; · cases hd
    rename_i hb
    split at hd; · cases hd
    split at hd; · cases hd
    split at hd; · cases hd
    rename_i hsetup
    have hi' : nd.ign = [] := by
      simp only [not_or, ne_eq, Decidable.not_not] at hi; exact hi.1
    have hb' : nd.bad = [] := by simpa using hb
    have hs' : inp.setup n = [] := by simpa using hsetup
    intro d hd'
    unfold allDeps at hd'
    rw [hs', List.append_nil] at hd'
    exact loopDeps hb' hi' d hd'
  · simp only [h0, if_false] at hd
    split at hd; · cases hd
    rename_i hrs
    split at hd; · cases hd
    rename_i hi
    split at hd; · cases hd
    rename_i hb
    have hi' : nd.ign = [] := by simpa using hi
    have hb' : nd.bad = [] := by simpa using hb
    have hpc2 : nd.pc = .afterSelf2 := by
      rcases hpc with e | e
      · exact absurd (h.sel1 haw n nd hsusp hn e) h0
      · exact e
    intro d hd'
    unfold allDeps at hd'
    rcases List.mem_append.mp hd' with hd' | hd'
    · exact loopDeps hb' hi' d hd'
    · rcases hok.ks (by rw [hpc2]; rfl) d hd' with a | a
      · rw [hm2] at a; cases a
      · exact clsGood hb' hi' d a

theorem good_finBefore {inp : RunInput} {s : Sys} (h : Inv2 inp s) {d : Name} (hg : (stOf s d).good = true) :
    finBefore s.events d := by
  cases hst : stOf s d <;> simp [hst, RS.good] at hg
  · exact Or.inr ((h.g d).2 hst)
  · exact Or.inl ((h.g d).1 hst)


/-! ### frame lemmas: what the dispatcher does not touch -/

/-- fields outside the dispatcher -/
def SameOuter (s s' : Sys) : Prop :=
  s'.events = s.events ∧ s'.rpc = s.rpc ∧ s'.jobQ = s.jobQ ∧ s'.resQ = s.resQ ∧ s'.workers = s.workers ∧
  s'.stop = s.stop ∧ s'.final = s.final ∧ s'.tdown = s.tdown ∧ s'.halt = s.halt ∧ s'.freeProc = s.freeProc ∧
  s'.procCount = s.procCount ∧ s'.nStarted = s.nStarted

theorem genStep_outer (inp : RunInput) (s : Sys) (n : Name) (nd : Node) (d : Name) (pc' : PC) :
    SameOuter s (genStep inp s n nd d pc') := by
  unfold genStep SameOuter
  cases s.nodes d with
  | none => simp [setNode]
  | some x => simp only []; split <;> simp [setNode]

theorem addWaitRun_outer (inp : RunInput) (s : Sys) (n : Name) (nd : Node) (ds : List Name) (c : Bool) (pc' : PC) :
    SameOuter s (addWaitRun inp s n nd ds c pc') := by
  simp [addWaitRun, SameOuter, registerWaiting, setNode]

theorem nodeStep_outer {inp : RunInput} {s s' : Sys} {n : Name} {nd : Node} {perm : List Name}
    (hs : nodeStep inp s n nd perm = some s') : SameOuter s s' := by
  unfold nodeStep at hs
  split at hs
  all_goals (try split at hs)
  all_goals (try split at hs)
  all_goals (cases hs <;> first
    | exact genStep_outer _ _ _ _ _ _ | exact addWaitRun_outer _ _ _ _ _ _ _ | simp [SameOuter, setNode])

theorem dtick_outer {inp : RunInput} {s s' : Sys} {perm : List Name} (hs : dtick inp s perm = some s') :
    SameOuter s s' := by
  unfold dtick at hs
  split at hs
  · split at hs
    · cases hs; simp [SameOuter]
    · exact nodeStep_outer hs
  · split at hs
    · cases hs; simp [SameOuter]
    · split at hs
      · split at hs <;> (cases hs; simp [SameOuter, setNode])
      · split at hs
        · split at hs <;> (cases hs; simp [SameOuter])
        · cases hs; simp [SameOuter]

theorem stOf_setNode_same {s : Sys} {n : Name} {nd x : Node} (hn : s.nodes n = some nd) (hx : x.status = nd.status)
    (d : Name) : stOf (setNode s n x) d = stOf s d := by
  rw [stOf_setNode]; split
  · rename_i e; subst e; simp [stOf, hn, hx]
  · rfl

theorem genStep_stOf {inp : RunInput} {s : Sys} {n : Name} {nd : Node} (d : Name) (pc' : PC)
    (hn : s.nodes n = some nd) (x : Name) : stOf (genStep inp s n nd d pc') x = stOf s x := by
  unfold genStep
  cases hd : s.nodes d with
  | none =>
    simp only []
    have hdn : d ≠ n := by intro e; subst e; rw [hn] at hd; cases hd
    have e1 : ∀ y, stOf (setNode s d (mkNode inp d (nd.anc ++ [d]))) y = stOf s y := by
      intro y; rw [stOf_setNode]; split
      · rename_i e; subst e; simp [stOf, hd, mkNode]
      · rfl
    have hn1 : (setNode s d (mkNode inp d (nd.anc ++ [d]))).nodes n = some nd := by
      simp [setNode_nodes, Ne.symm hdn, hn]
    exact ((stOf_congr (s := setNode (setNode s d (mkNode inp d (nd.anc ++ [d]))) n { nd with pc := pc' }) rfl x).trans
      (stOf_setNode_same hn1 (by rfl) x)).trans (e1 x)
  | some y =>
    simp only []
    split
    · rfl
    · exact stOf_setNode_same hn (by rfl) x

theorem addWaitRun_stOf {inp : RunInput} {s : Sys} {n : Name} {nd : Node} (ds : List Name) (c : Bool) (pc' : PC)
    (hn : s.nodes n = some nd) (x : Name) : stOf (addWaitRun inp s n nd ds c pc') x = stOf s x := by
  unfold addWaitRun
  rw [stOf_registerWaiting]
  exact stOf_setNode_same hn (waitNode_facts inp s nd ds c pc').status x

theorem nodeStep_stOf {inp : RunInput} {s s' : Sys} {n : Name} {nd : Node} {perm : List Name}
    (hn : s.nodes n = some nd) (hs : nodeStep inp s n nd perm = some s') (x : Name) : stOf s' x = stOf s x := by
  unfold nodeStep at hs
  split at hs
  all_goals (try split at hs)
  all_goals (try split at hs)
  all_goals (cases hs <;> first
    | exact genStep_stOf _ _ hn x | exact addWaitRun_stOf _ _ _ hn x | exact stOf_setNode_same hn (by rfl) x
    | exact (stOf_congr (s := setNode s n _) rfl x).trans (stOf_setNode_same hn (by rfl) x)
    | rfl)

theorem dtick_stOf {inp : RunInput} {s s' : Sys} {perm : List Name} (hs : dtick inp s perm = some s') (x : Name) :
    stOf s' x = stOf s x := by
  unfold dtick at hs
  split at hs
  · split at hs
    · cases hs; rfl
    · rename_i hn; exact nodeStep_stOf hn hs x
  · split at hs
    · cases hs; rfl
    · split at hs
      · split at hs
        · rename_i hnt
          cases hs
          refine (stOf_congr (s := setNode s _ (mkNode inp _ [_])) rfl x).trans ?_
          rw [stOf_setNode]; split
          · rename_i e; subst e; simp [stOf, hnt, mkNode]
          · rfl
        · cases hs; rfl
      · split at hs
        · split at hs <;> (cases hs; rfl)
        · cases hs; rfl

theorem genStep_susp (inp : RunInput) (s : Sys) (n : Name) (nd : Node) (d : Name) (pc' : PC) (m : Name) :
    (genStep inp s n nd d pc').susp = some (.node m) → s.susp = some (.node m) := by
  unfold genStep
  cases s.nodes d with
  | none => simp [setNode]
  | some x => simp only []; split <;> simp [setNode]

theorem addWaitRun_susp (inp : RunInput) (s : Sys) (n : Name) (nd : Node) (ds : List Name) (c : Bool) (pc' : PC) :
    (addWaitRun inp s n nd ds c pc').susp = s.susp := by
  simp [addWaitRun, registerWaiting, setNode]

/-- the generator yields a node only from `self1` / `self2` of the current node -/
theorem nodeStep_yield {inp : RunInput} {s s' : Sys} {n : Name} {nd : Node} {perm : List Name}
    (hs : nodeStep inp s n nd perm = some s') (hsusp : s.susp = none) (m : Name) (hy : s'.susp = some (.node m)) :
    m = n ∧ ((nd.pc = .self1 ∧ s'.nodes n = some { nd with pc := .afterSelf1 }) ∨
             (nd.pc = .self2 ∧ s'.nodes n = some { nd with pc := .afterSelf2 })) := by
  unfold nodeStep at hs
  split at hs
  all_goals (try split at hs)
  all_goals (try split at hs)
  all_goals (cases hs)
  all_goals first
    | (have := genStep_susp _ _ _ _ _ _ _ hy; rw [hsusp] at this; cases this)
    | (rw [addWaitRun_susp, hsusp] at hy; cases hy)
    | (simp [setNode, hsusp] at hy; done)
    | (simp only [setNode, Option.some.injEq, DOut.node.injEq] at hy; subst hy
       refine ⟨rfl, ?_⟩; simp_all [setNode])

theorem dtick_yield {inp : RunInput} {s s' : Sys} {perm : List Name} (hs : dtick inp s perm = some s')
    (hsusp : s.susp = none) (m : Name) (hy : s'.susp = some (.node m)) :
    ∃ nd, s.nodes m = some nd ∧ ((nd.pc = .self1 ∧ s'.nodes m = some { nd with pc := .afterSelf1 }) ∨
             (nd.pc = .self2 ∧ s'.nodes m = some { nd with pc := .afterSelf2 })) := by
  unfold dtick at hs
  split at hs
  · split at hs
    · cases hs; simp at hy
    · rename_i n _ nd hn
      obtain ⟨e, h⟩ := nodeStep_yield hs hsusp m hy
      subst e; exact ⟨nd, hn, h⟩
  · split at hs
    · cases hs; simp [hsusp] at hy
    · split at hs
      · split at hs <;> (cases hs; simp [setNode, hsusp] at hy)
      · split at hs
        · split at hs <;> (cases hs; simp at hy)
        · cases hs; simp at hy

theorem wakeOne_outer (inp : RunInput) (s : Sys) (pst : RS) (p w : Name) (nd : Node) :
    SameOuter s (wakeOne inp s pst p w nd) ∧ (wakeOne inp s pst p w nd).susp = s.susp := by
  unfold wakeOne; split <;> simp [SameOuter, setNode]

theorem SameOuter.trans {a b c : Sys} (h1 : SameOuter a b) (h2 : SameOuter b c) : SameOuter a c := by
  unfold SameOuter at *
  obtain ⟨a1, a2, a3, a4, a5, a6, a7, a8, a9, a10, a11, a12⟩ := h1
  obtain ⟨b1, b2, b3, b4, b5, b6, b7, b8, b9, b10, b11, b12⟩ := h2
  exact ⟨b1.trans a1, b2.trans a2, b3.trans a3, b4.trans a4, b5.trans a5, b6.trans a6, b7.trans a7, b8.trans a8,
    b9.trans a9, b10.trans a10, b11.trans a11, b12.trans a12⟩

theorem SameOuter.refl (a : Sys) : SameOuter a a := by simp [SameOuter]

theorem updateWaiting_outer (inp : RunInput) (pst : RS) (p : Name) :
    ∀ (perm : List Name) (s s' : Sys), updateWaiting inp pst p s perm = some s' → SameOuter s s' ∧ s'.susp = s.susp := by
  intro perm
  induction perm with
  | nil => intro s s' hs; simp only [updateWaiting] at hs; cases hs; exact ⟨SameOuter.refl _, rfl⟩
  | cons w ws ih =>
    intro s s' hs
    simp only [updateWaiting] at hs
    cases hw : s.nodes w with
    | none => simp only [hw] at hs; exact ih s s' hs
    | some nd =>
      simp only [hw] at hs
      split at hs
      · cases hs
      · obtain ⟨o1, e1⟩ := wakeOne_outer inp s pst p w nd
        obtain ⟨o2, e2⟩ := ih _ s' hs
        exact ⟨o1.trans o2, e2.trans e1⟩

theorem sendHead_outer (s : Sys) (p : Name) (nd : Node) :
    SameOuter s (sendHead s p nd) ∧ (sendHead s p nd).susp = s.susp := by
  unfold sendHead; split <;> simp [SameOuter, setNode]

/-- `send` leaves everything outside the dispatcher alone; afterwards the generator runs or has crashed -/
theorem send_outer {inp : RunInput} {s s' : Sys} {processed : Option Name} {perm : List Name}
    (hs : send inp s processed perm = some s') :
    SameOuter s s' ∧ (s'.susp = none ∨ s'.susp = some .crash) := by
  unfold send at hs
  cases processed with
  | none => cases hs; exact ⟨by simp [SameOuter], Or.inl rfl⟩
  | some p =>
    simp only [] at hs
    cases hn : s.nodes p with
    | none => simp only [hn] at hs; cases hs; exact ⟨by simp [SameOuter], Or.inr rfl⟩
    | some nd =>
      simp only [hn] at hs
      have ⟨o1, _⟩ := sendHead_outer s p nd
      split at hs
      · cases hs; exact ⟨by simp [SameOuter], Or.inr rfl⟩
      · split at hs
        · cases hs
          exact ⟨o1.trans (by simp [SameOuter]), Or.inl rfl⟩
        · split at hs
          · cases hu : updateWaiting inp nd.status p (sendHead s p nd) perm with
            | none => simp only [hu] at hs; cases hs; exact ⟨o1.trans (by simp [SameOuter]), Or.inr rfl⟩
            | some s2 =>
              simp only [hu] at hs; cases hs
              obtain ⟨o2, _⟩ := updateWaiting_outer inp nd.status p perm _ s2 hu
              exact ⟨(o1.trans o2).trans (by simp [SameOuter]), Or.inl rfl⟩
          · cases hs


/-! ### preservation of `Inv2` -/

/-- nothing in the dispatcher changes; events are added (with justification), runner fields move -/
theorem Inv2.outer {inp : RunInput} {s s' : Sys} (h : Inv2 inp s) (e1 : s'.nodes = s.nodes)
    (e2 : s'.ready = s.ready) (e3 : s'.waiting = s.waiting) (e4 : s'.cur = s.cur) (e5 : s'.susp = s.susp)
    (new : List Ev) (hev : s'.events = new ++ s.events) (hord : OrdOK (new ++ s.events))
    (hgs : ∀ n deps, Ev.go n deps ∈ new → ∀ d ∈ staticDeps inp n, d ∈ deps)
    (hsb : ∀ p, sentBack s' = some p → stOf s p ≠ .none) (haw : awaiting s' → awaiting s)
    (hf1 : ∀ n, (Job.task n ∈ s'.jobQ ∨ ∃ ret, s'.rpc = .gRet (.task n) ret) → ∃ deps, Ev.go n deps ∈ s'.events)
    (hx : ∀ n, s'.rpc = .sExec n → stOf s n = .run) : Inv2 inp s' := by
  have hst : ∀ x, stOf s' x = stOf s x := stOf_congr e1
  constructor
  · exact h.inv1.congr e1 e2 e3 e4 e5
  · intro p hp; rw [hst]; exact hsb p hp
  · intro ha n nd hs hn; rw [e5] at hs; rw [e1] at hn; exact h.sel1 (haw ha) n nd hs hn
  · exact hf1
  · intro d; rw [hst, hev]
    exact ⟨fun e => List.mem_append_right _ ((h.g d).1 e), fun e => List.mem_append_right _ ((h.g d).2 e)⟩
  · rw [hev]; exact hord
  · intro n deps hm; rw [hev] at hm
    rcases List.mem_append.mp hm with a | a
    · exact hgs n deps a
    · exact h.gs n deps a
  · intro n hn; rw [hst]; exact hx n hn

theorem inv2_dtick {inp : RunInput} {s s' : Sys} {perm : List Name} (h : Inv2 inp s) (hsusp : s.susp = none)
    (hs : dtick inp s perm = some s') : Inv2 inp s' := by
  obtain ⟨o1, o2, o3, _⟩ := dtick_outer hs
  have hst := dtick_stOf hs
  constructor
  · exact dtick_inv1 h.inv1 hsusp hs
  · intro p hp; rw [hst]; apply h.sb; simpa [sentBack, o2] using hp
  · intro _ n nd' hy hn' hpc
    obtain ⟨nd, hn, hc | hc⟩ := dtick_yield hs hsusp n hy
    · rw [hc.2] at hn'; cases hn'
      have hok := h.inv1.node n nd hn
      cases hst' : nd.status with
      | none => rfl
      | _ => have := hok.l (by simp [hst']); rw [hc.1] at this; cases this
    · rw [hc.2] at hn'; cases hn'; cases hpc
  · intro n hn; rw [o1]; apply h.f1; simpa [o2, o3] using hn
  · intro d; rw [hst, o1]; exact h.g d
  · rw [o1]; exact h.ord
  · intro n deps hm; rw [o1] at hm; exact h.gs n deps hm
  · intro n hn; rw [hst]; apply h.x; simpa [o2] using hn

/-- `send(node)` followed by waiting for the generator (`rpc'` is `sWait` or `gWait _`) -/
theorem inv2_send {inp : RunInput} {s s0 : Sys} {node : Option Name} {perm : List Name} (rpc' : RPC)
    (h : Inv2 inp s) (hnode : sentBack s = node) (hs : send inp s node perm = some s0)
    (hr1 : sentBack { s0 with rpc := rpc' } = none) (hr2 : ∀ n ret, rpc' ≠ .gRet (.task n) ret)
    (hr3 : ∀ n, rpc' ≠ .sExec n) : Inv2 inp { s0 with rpc := rpc' } := by
  obtain ⟨⟨o1, o2, o3, _⟩, osusp⟩ := send_outer hs
  obtain ⟨i1, hst⟩ := send_inv1 h.inv1 (fun p hp => h.sb p (by rw [hnode, hp])) hs
  constructor
  · exact i1.congr rfl rfl rfl rfl rfl
  · intro p hp; rw [hr1] at hp; cases hp
  · intro _ n nd hy; rcases osusp with e | e <;> (simp only [e] at hy; cases hy)
  · intro n hn
    show ∃ deps, Ev.go n deps ∈ s0.events
    rw [o1]; apply h.f1
    rcases hn with a | ⟨ret, a⟩
    · exact Or.inl (by simpa [o3] using a)
    · exact absurd a (hr2 n ret)
  · intro d
    show (stOf s0 d = .ok → Ev.success d ∈ s0.events) ∧ (stOf s0 d = .utd → Ev.skipUtd d ∈ s0.events)
    rw [hst, o1]; exact h.g d
  · show OrdOK s0.events; rw [o1]; exact h.ord
  · intro n deps hm
    have hm' : Ev.go n deps ∈ s0.events := hm
    rw [o1] at hm'; exact h.gs n deps hm'
  · intro n hn; exact absurd hn (hr3 n)

/-! #### `select_task` -/

def selStatus : Sel → RS
  | .skipIgn => .ign | .unmet => .fail | .depErr => .fail | .utd => .utd
  | .runFirst => .run | .argsErr => .fail | .go => .run | .assertFail => .none

def selEvents (inp : RunInput) (n : Name) (nd : Node) : Sel → List Ev
  | .skipIgn => Ev.skipIgn n :: statusEv nd n
  | .unmet => Ev.failure n .unmet :: statusEv nd n
  | .depErr => Ev.failure n .depErr :: statusEv nd n
  | .utd => Ev.skipUtd n :: statusEv nd n
  | .runFirst => statusEv nd n
  | .argsErr => Ev.failure n .depErr :: statusEv nd n
  | .go => Ev.go n (allDeps inp n nd) :: statusEv nd n
  | .assertFail => []

theorem applySel_nodes (inp : RunInput) (s : Sys) (n : Name) (nd : Node) (d : Sel) (hd : d ≠ .assertFail) :
    (applySel inp s n nd d).nodes = (setNode s n { nd with status := selStatus d }).nodes := by
  cases d <;> first | rfl | exact absurd rfl hd

theorem applySel_events (inp : RunInput) (s : Sys) (n : Name) (nd : Node) (d : Sel) :
    (applySel inp s n nd d).events = selEvents inp n nd d ++ s.events := by
  cases d <;> simp [applySel, selEvents, failNode]

theorem applySel_frame (inp : RunInput) (s : Sys) (n : Name) (nd : Node) (d : Sel) :
    (applySel inp s n nd d).ready = s.ready ∧ (applySel inp s n nd d).waiting = s.waiting ∧
    (applySel inp s n nd d).cur = s.cur ∧ (applySel inp s n nd d).susp = s.susp ∧
    (applySel inp s n nd d).rpc = s.rpc ∧ (applySel inp s n nd d).jobQ = s.jobQ ∧
    (applySel inp s n nd d).resQ = s.resQ ∧ (applySel inp s n nd d).workers = s.workers := by
  cases d <;> simp [applySel, failNode, setNode]

theorem selStatus_ne_none {d : Sel} (hd : d ≠ .assertFail) : selStatus d ≠ .none := by
  cases d <;> simp [selStatus] at hd ⊢

theorem stOf_applySel (inp : RunInput) (s : Sys) (n : Name) (nd : Node) (d : Sel) (hd : d ≠ .assertFail) (x : Name) :
    stOf (applySel inp s n nd d) x = if x = n then selStatus d else stOf s x := by
  have := applySel_nodes inp s n nd d hd
  rw [stOf_congr this, stOf_setNode]

theorem selEvents_ord {inp : RunInput} {s : Sys} {n : Name} {nd : Node} (h : Inv2 inp s) (haw : awaiting s)
    (hsusp : s.susp = some (.node n)) (hn : s.nodes n = some nd) (d : Sel) (hd : d = selDecision inp n nd) :
    OrdOK (selEvents inp n nd d ++ s.events) := by
  have plain := OrdOK_append_plain h.ord (statusEv_plain nd n)
  cases d with
  | go =>
    refine ⟨?_, plain⟩
    intro x hx
    have := go_deps_good h haw hsusp hn hd.symm x hx
    exact finBefore_mono (fun e he => List.mem_append_right _ he) (good_finBefore h this)
  | runFirst => exact plain
  | assertFail => exact h.ord
  | _ => exact ⟨trivial, plain⟩

theorem statusEv_noGo (nd : Node) (n m : Name) (deps : List Name) : Ev.go m deps ∉ statusEv nd n := by
  unfold statusEv; split <;> simp

/-- `select_task(n)` on the node the generator yielded, then the runner moves to `rpc'` -/
theorem inv2_select {inp : RunInput} {s : Sys} {n : Name} {nd : Node} (rpc' : RPC) (h : Inv2 inp s)
    (haw : awaiting s) (hsusp : s.susp = some (.node n)) (hn : s.nodes n = some nd)
    (hd : selDecision inp n nd ≠ .assertFail)
    (hr1 : ∀ p, sentBack { s with rpc := rpc' } = some p → p = n)
    (hr2 : ¬ awaiting { s with rpc := rpc' })
    (hr3 : ∀ m ret, rpc' = .gRet (.task m) ret → m = n ∧ selDecision inp n nd = .go)
    (hr4 : ∀ m, rpc' = .sExec m → m = n ∧ selDecision inp n nd = .go) :
    Inv2 inp { applySel inp s n nd (selDecision inp n nd) with rpc := rpc' } := by
  obtain ⟨f1, f2, f3, f4, f5, f6, _⟩ := applySel_frame inp s n nd (selDecision inp n nd)
  have hst := stOf_applySel inp s n nd (selDecision inp n nd) hd
  have hev := applySel_events inp s n nd (selDecision inp n nd)
  have hy : nd.pc.yielded1 = true := by
    obtain ⟨nd', a, b⟩ := h.inv1.sp n hsusp
    rw [hn] at a; cases a
    rcases b with e | e <;> (rw [e]; rfl)
  constructor
  · exact (applySel_inv1 _ h.inv1 hn (selDecision_unfinished hd) hy).congr rfl rfl rfl rfl rfl
  · intro p hp
    have := hr1 p hp; subst this
    show stOf (applySel inp s p nd (selDecision inp p nd)) p ≠ .none
    rw [hst]; simp only [if_true]; exact selStatus_ne_none hd
  · intro ha; exact absurd ha hr2
  · intro m hm
    show ∃ deps, Ev.go m deps ∈ (applySel inp s n nd (selDecision inp n nd)).events
    rw [hev]
    rcases hm with a | ⟨ret, a⟩
    · have a' : Job.task m ∈ s.jobQ := by rw [← f6]; exact a
      obtain ⟨deps, hd'⟩ := h.f1 m (Or.inl a')
      exact ⟨deps, List.mem_append_right _ hd'⟩
    · obtain ⟨e1, e2⟩ := hr3 m ret a
      subst e1
      exact ⟨allDeps inp m nd, by rw [e2]; simp [selEvents]⟩
  · intro x
    show (stOf (applySel inp s n nd (selDecision inp n nd)) x = .ok → _ ∈ (applySel inp s n nd (selDecision inp n nd)).events) ∧
      (stOf (applySel inp s n nd (selDecision inp n nd)) x = .utd → _ ∈ (applySel inp s n nd (selDecision inp n nd)).events)
    rw [hst, hev]
    by_cases e : x = n
    · subst e
      simp only [if_true]
      constructor
      · intro e'; cases hdd : selDecision inp x nd <;> simp [hdd, selStatus] at e'
      · intro e'; cases hdd : selDecision inp x nd <;> simp [hdd, selStatus] at e'
        simp [selEvents]
    · simp only [e, if_false]
      exact ⟨fun e' => List.mem_append_right _ ((h.g x).1 e'), fun e' => List.mem_append_right _ ((h.g x).2 e')⟩
  · show OrdOK (applySel inp s n nd (selDecision inp n nd)).events
    rw [hev]; exact selEvents_ord h haw hsusp hn _ rfl
  · intro m deps hm
    have hm' : Ev.go m deps ∈ (applySel inp s n nd (selDecision inp n nd)).events := hm
    rw [hev] at hm'
    rcases List.mem_append.mp hm' with a | a
    · cases hdd : selDecision inp n nd <;> rw [hdd] at a <;> simp [selEvents, statusEv_noGo] at a
      obtain ⟨rfl, rfl⟩ := a
      have hok := h.inv1.node m nd hn
      intro d hd'
      unfold staticDeps at hd'
      unfold allDeps
      simp only [List.mem_append] at hd' ⊢
      rcases hd' with (a | a) | a
      · exact Or.inl (Or.inl (hok.st.1 d a))
      · exact Or.inl (Or.inr (hok.st.2 d a))
      · exact Or.inr a
    · exact h.gs m deps a
  · intro m hm
    obtain ⟨e1, e2⟩ := hr4 m hm
    subst e1
    show stOf (applySel inp s m nd (selDecision inp m nd)) m = .run
    rw [hst]; simp [e2, selStatus]


/-! #### `process_task_result` -/

def resStatus : Outcome → RS
  | .ok => .ok | _ => .fail

def resEvents (n : Name) : Outcome → List Ev
  | .ok => [Ev.success n]
  | .failed => [Ev.failure n .failed]
  | .error => [Ev.failure n .error]
  | .saveErr => [Ev.failure n .depErr]

theorem processResult_nodes (inp : RunInput) (s : Sys) (n : Name) (nd : Node) :
    (processResult inp s n nd).nodes = (setNode s n { nd with status := resStatus (inp.outcome n) }).nodes := by
  unfold processResult; cases inp.outcome n <;> rfl

theorem processResult_events (inp : RunInput) (s : Sys) (n : Name) (nd : Node) :
    (processResult inp s n nd).events = resEvents n (inp.outcome n) ++ s.events := by
  unfold processResult; cases inp.outcome n <;> simp [resEvents, failNode]

theorem processResult_frame (inp : RunInput) (s : Sys) (n : Name) (nd : Node) :
    (processResult inp s n nd).ready = s.ready ∧ (processResult inp s n nd).waiting = s.waiting ∧
    (processResult inp s n nd).cur = s.cur ∧ (processResult inp s n nd).susp = s.susp ∧
    (processResult inp s n nd).rpc = s.rpc ∧ (processResult inp s n nd).jobQ = s.jobQ ∧
    (processResult inp s n nd).resQ = s.resQ ∧ (processResult inp s n nd).workers = s.workers := by
  unfold processResult; cases inp.outcome n <;> simp [failNode, setNode]

theorem stOf_processResult (inp : RunInput) (s : Sys) (n : Name) (nd : Node) (x : Name) :
    stOf (processResult inp s n nd) x = if x = n then resStatus (inp.outcome n) else stOf s x := by
  rw [stOf_congr (processResult_nodes inp s n nd), stOf_setNode]

theorem resEvents_plain (n : Name) (o : Outcome) :
    ∀ e ∈ resEvents n o, match e with | .go _ _ => False | .start _ _ => False | _ => True := by
  intro e he; cases o <;> simp [resEvents] at he <;> (subst he; trivial)

/-- `process_task_result(n)` for a task whose status is `run`, then the runner moves to `rpc'` -/
theorem inv2_result {inp : RunInput} {s : Sys} {n : Name} {nd : Node} (rpc' : RPC) (h : Inv2 inp s)
    (hn : s.nodes n = some nd) (hrun : nd.status = .run)
    (hr1 : ∀ p, sentBack { s with rpc := rpc' } = some p → p = n)
    (hr2 : ¬ awaiting { s with rpc := rpc' })
    (hr3 : ∀ m ret, rpc' ≠ .gRet (.task m) ret) (hr4 : ∀ m, rpc' ≠ .sExec m) :
    Inv2 inp { processResult inp s n nd with rpc := rpc' } := by
  obtain ⟨f1, f2, f3, f4, f5, f6, _⟩ := processResult_frame inp s n nd
  have hst := stOf_processResult inp s n nd
  have hev := processResult_events inp s n nd
  have hok := h.inv1.node n nd hn
  have hy : nd.pc.yielded1 = true := hok.l (by rw [hrun]; simp)
  constructor
  · exact (processResult_inv1 h.inv1 hn (by rw [hrun]; rfl) hy).congr rfl rfl rfl rfl rfl
  · intro p hp
    have := hr1 p hp; subst this
    show stOf (processResult inp s p nd) p ≠ .none
    rw [hst]; simp only [if_true]; cases inp.outcome p <;> simp [resStatus]
  · intro ha; exact absurd ha hr2
  · intro m hm
    show ∃ deps, Ev.go m deps ∈ (processResult inp s n nd).events
    rw [hev]
    rcases hm with a | ⟨ret, a⟩
    · have a' : Job.task m ∈ s.jobQ := by rw [← f6]; exact a
      obtain ⟨deps, hd'⟩ := h.f1 m (Or.inl a')
      exact ⟨deps, List.mem_append_right _ hd'⟩
    · exact absurd a (hr3 m ret)
  · intro x
    show (stOf (processResult inp s n nd) x = .ok → _ ∈ (processResult inp s n nd).events) ∧
      (stOf (processResult inp s n nd) x = .utd → _ ∈ (processResult inp s n nd).events)
    rw [hst, hev]
    by_cases e : x = n
    · subst e
      simp only [if_true]
      constructor
      · intro e'; cases ho : inp.outcome x <;> simp [ho, resStatus] at e'
        simp [resEvents]
      · intro e'; cases ho : inp.outcome x <;> simp [ho, resStatus] at e'
    · simp only [e, if_false]
      exact ⟨fun e' => List.mem_append_right _ ((h.g x).1 e'), fun e' => List.mem_append_right _ ((h.g x).2 e')⟩
  · show OrdOK (processResult inp s n nd).events
    rw [hev]; exact OrdOK_append_plain h.ord (resEvents_plain n _)
  · intro m deps hm
    have hm' : Ev.go m deps ∈ (processResult inp s n nd).events := hm
    rw [hev] at hm'
    rcases List.mem_append.mp hm' with a | a
    · cases ho : inp.outcome n <;> rw [ho] at a <;> simp [resEvents] at a
    · exact h.gs m deps a
  · intro m hm; exact absurd hm (hr4 m)

end DoitModel.Run
