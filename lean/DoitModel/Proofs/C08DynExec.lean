import DoitModel.Proofs.C08DynConfluence
/-! # C08 (I10) with calc_dep: the executable denotation (`denTab`, `closureTab`, `monC08DenC` of `Model/RunData.lean`)

A determined answer of the bottom-up table is THE relational denotation (`denTab_sound`); under the decidable side
condition `determinedOf` the computed closure is `Dyn.DenCl` (`closureTab_spec`) and the monitor `monC08DenC` holds of
every trace of the model (`C08_monitor_denC`).  No counting argument: that the given number of rounds suffices is part
of the decidable side condition, not of the proofs. -/
namespace DoitModel.Run.Dyn


theorem addNew_eq : appNew = addAll := rfl

theorem mem_roundWith (f : Name → List Name) (x : Name) : ∀ (L acc : List Name),
    x ∈ L.foldl (fun acc c => appNew (f c) acc) acc ↔ x ∈ acc ∨ ∃ c ∈ L, x ∈ f c := by
  intro L
  induction L with
  | nil => intro acc; simp
  | cons a t ih =>
    intro acc
    simp only [List.foldl_cons]
    rw [ih, addNew_eq, mem_addAll]
    constructor
    · rintro ((h | h) | ⟨c, hc, h⟩)
      · exact Or.inl h
      · exact Or.inr ⟨a, by simp, h⟩
      · exact Or.inr ⟨c, by simp [hc], h⟩
    · rintro (h | ⟨c, hc, h⟩)
      · exact Or.inl (Or.inl h)
      · rcases List.mem_cons.mp hc with rfl | hc'
        · exact Or.inl (Or.inr h)
        · exact Or.inr ⟨c, hc', h⟩

theorem mem_round (f : Name → List Name) (cs : List Name) (x : Name) :
    x ∈ roundWith f cs ↔ x ∈ cs ∨ ∃ c ∈ cs, x ∈ f c := mem_roundWith f x cs cs

theorem iterN_inv (f : Name → List Name) (P : Name → Prop) (h : ∀ c x, P c → x ∈ f c → P x) :
    ∀ (k : Nat) (cs : List Name), (∀ x ∈ cs, P x) → ∀ x ∈ iterN (roundWith f) k cs, P x := by
  intro k
  induction k with
  | zero => intro cs h0; exact h0
  | succ k ih =>
    intro cs h0
    apply ih
    intro x hx
    rcases (mem_round f cs x).mp hx with a | ⟨c, hc, a⟩
    · exact h0 x a
    · exact h c x (h0 c hc) a

theorem iterN_mono (f : Name → List Name) : ∀ (k : Nat) (cs : List Name) (x : Name), x ∈ cs → x ∈ iterN (roundWith f) k cs := by
  intro k
  induction k with
  | zero => intro cs x h; exact h
  | succ k ih => intro cs x h; exact ih _ x ((mem_round f cs x).mpr (Or.inl h))

theorem closedWith_spec {f : Name → List Name} {cs : List Name} (h : closedWith f cs = true) :
    ∀ c ∈ cs, ∀ x ∈ f c, x ∈ cs := by
  intro c hc x hx
  unfold closedWith at h
  rw [List.all_eq_true] at h
  have := h c hc
  rw [List.all_eq_true] at this
  simpa using this x hx

/-! ### the calc_dep set -/

theorem calcsF_sound (inp : RunInput) (dd : Name → Den) (k : Nat) (n : Name) :
    ∀ c ∈ calcsF inp dd k n, CalcOf inp dd n c := by
  apply iterN_inv (calcOut inp dd) (CalcOf inp dd n)
  · intro c x hc hx
    exact CalcOf.deliv hc hx
  · intro x hx; exact CalcOf.static (mem_dedup.mp hx)

theorem calcsF_complete {inp : RunInput} {dd : Name → Den} {k : Nat} {n : Name}
    (h : closedWith (calcOut inp dd) (calcsF inp dd k n) = true) {c : Name} (hc : CalcOf inp dd n c) :
    c ∈ calcsF inp dd k n := by
  induction hc with
  | static hc => exact iterN_mono _ k _ _ (mem_dedup.mpr hc)
  | @deliv c x _ hm ih =>
    exact closedWith_spec h c ih x hm

theorem depsF_spec {inp : RunInput} {dd : Name → Den} {k : Nat} {n : Name} {L : List Name}
    (h : depsF inp dd k n = some L) : ∀ x, x ∈ L ↔ DepOf inp dd n x := by
  unfold depsF at h
  split at h
  · rename_i hcl
    cases h
    intro x
    simp only [List.mem_append, List.mem_flatMap]
    constructor
    · rintro ((a | a) | ⟨c, hc, a⟩)
      · exact Or.inl a
      · exact Or.inr (Or.inl (calcsF_sound inp dd k n x a))
      · exact Or.inr (Or.inr ⟨c, calcsF_sound inp dd k n c hc, List.mem_append.mp a⟩)
    · rintro (a | a | ⟨c, hc, a⟩)
      · exact Or.inl (Or.inl a)
      · exact Or.inl (Or.inr (calcsF_complete hcl a))
      · exact Or.inr ⟨c, calcsF_complete hcl hc, List.mem_append.mpr a⟩
  · cases h

theorem good_ne_bot {d : Den} (h : d.rs.good = true) : d ≠ .bot := by
  intro e; rw [e] at h; cases h

theorem deliv_ne_bot {inp : RunInput} {c x : Name} {d : Den}
    (h : x ∈ (delivOf inp c d).calcs ∨ x ∈ (delivOf inp c d).tasks ∨ x ∈ (delivOf inp c d).files) : d ≠ .bot := by
  intro e; rw [e, delivOf_bot] at h
  rcases h with h | h | h <;> cases h

/-- `dd` only makes derived claims -/
def SoundDD (inp : RunInput) (dd : Name → Den) : Prop := ∀ x, dd x ≠ .bot → DenOf inp x (dd x)

/-- one bottom-up step is sound: a determined answer from derived outcomes is THE outcome -/
theorem stepC_sound {inp : RunInput} {k : Nat} {dd : Name → Den} (hdd : SoundDD inp dd) (n : Name)
    (h : stepC inp k dd n ≠ .bot) : DenOf inp n (stepC inp k dd n) := by
  unfold stepC at h ⊢
  cases hd : depsF inp dd k n with
  | none => simp only [hd] at h; exact absurd rfl h
  | some L =>
    simp only [hd] at h ⊢
    split at h
    · exact absurd rfl h
    · rename_i hT
      simp only [hT] at ⊢
      split at h
      · exact absurd rfl h
      · rename_i hS
        simp only [hS, if_false]
        refine DenOf.mk n dd L (depsF_spec hd) ?_ ?_
        · intro d hd'; exact hdd d (any_isBot_false hT d hd')
        · intro h1 d hd'
          have : ¬ ((inp.setup n).any (fun d => (dd d).isBot) = true) := fun x => hS ⟨h1, x⟩
          exact hdd d (any_isBot_false this d hd')

theorem ddTab_map_range (N : Nat) (g : Name → Den) (x : Name) :
    ddTab ((List.range N).map g) x = if x < N then g x else .bot := by
  unfold ddTab
  by_cases h : x < N
  · simp [h, List.getD_eq_getElem?_getD]
  · simp [h, List.getD_eq_getElem?_getD]

theorem denTab_sound (inp : RunInput) (N k : Nat) : ∀ f, SoundDD inp (ddTab (denTab inp N k f)) := by
  intro f
  induction f with
  | zero => intro x h; exact absurd (by simp [denTab, ddTab]) h
  | succ f ih =>
    intro x h
    simp only [denTab, tabStep, ddTab_map_range] at h ⊢
    split at h
    · rename_i hx; simp only [hx, if_true]; exact stepC_sound ih x h
    · exact absurd rfl h

theorem denFC_sound (inp : RunInput) (nTasks : Nat) (t : Name) (h : denFC inp nTasks t ≠ .bot) :
    DenOf inp t (denFC inp nTasks t) := denTab_sound inp _ _ _ t h

/-! ### the closure -/

theorem CalcOf.toR {inp : RunInput} {dd : Name → Den} {n c : Name} (hdd : SoundDD inp dd) (h : CalcOf inp dd n c) :
    CalcR inp n c := by
  induction h with
  | static hc => exact CalcR.static hc
  | deliv _ hm ih => exact CalcR.deliv ih (hdd _ (deliv_ne_bot (Or.inl hm))) hm

theorem DepOf.toCl {inp : RunInput} {dd : Name → Den} {n x : Name} (hdd : SoundDD inp dd) (hcl : DenCl inp n)
    (h : DepOf inp dd n x) : DenCl inp x := by
  rcases h with a | a | ⟨c, hc, hm⟩
  · exact DenCl.ofTask hcl a
  · exact DenCl.ofCalc hcl (a.toR hdd)
  · exact DenCl.ofDeliv hcl (hc.toR hdd) (hdd _ (deliv_ne_bot (Or.inr hm))) hm

theorem contribC_sound {inp : RunInput} {dd : Name → Den} {k : Nat} (hdd : SoundDD inp dd) {t x : Name}
    (hcl : DenCl inp t) (hx : x ∈ contribC inp dd k t) : DenCl inp x := by
  unfold contribC at hx
  cases hd : depsF inp dd k t with
  | none => simp only [hd] at hx; cases hx
  | some L =>
    simp only [hd] at hx
    have hL := depsF_spec hd
    have inL : ∀ y ∈ L, DenCl inp y := fun y hy => ((hL y).mp hy).toCl hdd hcl
    split at hx
    · exact inL x hx
    · rename_i hnb
      split at hx
      · rename_i h1
        rcases List.mem_append.mp hx with a | a
        · exact inL x a
        · exact DenCl.ofSetup hcl ⟨dd, L, hL, fun d hd' => hdd d (any_isBot_false hnb d hd'), h1⟩ a
      · exact inL x hx

theorem closureTab_sound {inp : RunInput} {tab : List Den} (hdd : SoundDD inp (ddTab tab)) (k : Nat) :
    ∀ t ∈ closureTab inp tab k, DenCl inp t := by
  apply iterN_inv _ (DenCl inp)
  · intro c x hc hx; exact contribC_sound hdd hc hx
  · intro x hx; exact DenCl.ofSel (mem_dedup.mp hx)

/-- what `determinedC` says, as propositions -/
structure Det (inp : RunInput) (dd : Name → Den) (k : Nat) (cl : List Name) : Prop where
  closed : ∀ t ∈ cl, ∀ x ∈ contribC inp dd k t, x ∈ cl
  nb : ∀ t ∈ cl, dd t ≠ .bot
  deps : ∀ t ∈ cl, ∃ L, depsF inp dd k t = some L ∧ ¬ (L.any (fun d => (dd d).isBot) = true)

theorem determinedOf_det {inp : RunInput} {tab : List Den} {k : Nat} {cl : List Name}
    (h : determinedOf inp tab k cl = true) : Det inp (ddTab tab) k cl := by
  unfold determinedOf at h
  rw [Bool.and_eq_true, List.all_eq_true] at h
  obtain ⟨h1, h2⟩ := h
  refine ⟨closedWith_spec h1, ?_, ?_⟩
  · intro t ht e
    have := h2 t ht
    rw [Bool.and_eq_true] at this
    rw [e] at this
    exact absurd this.1 (by decide)
  · intro t ht
    have := h2 t ht
    rw [Bool.and_eq_true] at this
    cases hd : depsF inp (ddTab tab) k t with
    | none => rw [hd] at this; simp at this
    | some L =>
      rw [hd] at this
      exact ⟨L, rfl, by simpa using this.2⟩

theorem CalcR.toOf {inp : RunInput} {dd : Name → Den} {n c : Name} (hdd : SoundDD inp dd) {L : List Name}
    (hL : ∀ x, x ∈ L ↔ DepOf inp dd n x) (hnb : ¬ (L.any (fun d => (dd d).isBot) = true)) (h : CalcR inp n c) :
    CalcOf inp dd n c := by
  induction h with
  | static hc => exact CalcOf.static hc
  | @deliv c x d _ hd hm ih =>
    have hc : c ∈ L := (hL c).mpr (DepOf.ofCalc ih)
    have e : dd c = d := (hdd c (any_isBot_false hnb c hc)).functional hd
    exact CalcOf.deliv ih (by rw [e]; exact hm)

theorem sub_contribC {inp : RunInput} {dd : Name → Den} {k : Nat} {t : Name} {L : List Name}
    (hd : depsF inp dd k t = some L) : ∀ x ∈ L, x ∈ contribC inp dd k t := by
  intro x hx
  unfold contribC
  simp only [hd]
  split
  · exact hx
  · split
    · exact List.mem_append.mpr (Or.inl hx)
    · exact hx

theorem denClosureC_complete {inp : RunInput} {dd : Name → Den} {k : Nat} {cl : List Name} (hdd : SoundDD inp dd)
    (hdet : Det inp dd k cl) (hsel : ∀ t ∈ inp.sel, t ∈ cl) {t : Name} (h : DenCl inp t) : t ∈ cl := by
  induction h with
  | ofSel hm => exact hsel _ hm
  | @ofTask t d _ hd ih =>
    obtain ⟨L, hL, _⟩ := hdet.deps t ih
    exact hdet.closed t ih d (sub_contribC hL d ((depsF_spec hL d).mpr (Or.inl hd)))
  | @ofCalc t c _ hc ih =>
    obtain ⟨L, hL, hnb⟩ := hdet.deps t ih
    exact hdet.closed t ih c (sub_contribC hL c ((depsF_spec hL c).mpr (DepOf.ofCalc (hc.toOf hdd (depsF_spec hL) hnb))))
  | @ofDeliv t c x d _ hc hd hm ih =>
    obtain ⟨L, hL, hnb⟩ := hdet.deps t ih
    have hc' := hc.toOf hdd (depsF_spec hL) hnb
    have hcL : c ∈ L := (depsF_spec hL c).mpr (DepOf.ofCalc hc')
    have e : dd c = d := (hdd c (any_isBot_false hnb c hcL)).functional hd
    exact hdet.closed t ih x (sub_contribC hL x ((depsF_spec hL x).mpr (Or.inr (Or.inr ⟨c, hc', by rw [e]; exact hm⟩))))
  | @ofSetup t d _ hr1 hd ih =>
    obtain ⟨L, hL, hnb⟩ := hdet.deps t ih
    obtain ⟨dd0, L0, hL0, hT0, h10⟩ := hr1
    have hT : ∀ d ∈ L, DenOf inp d (dd d) := fun d hd' => hdd d (any_isBot_false hnb d hd')
    obtain ⟨sub, eT⟩ := dep_agree (depsF_spec hL) hL0 hT0 (fun d hd' b hb => (hT d hd').functional hb)
    have h1 : stage1L inp dd L t = .run := by rw [← h10]; exact stage1L_congr sub eT
    apply hdet.closed t ih d
    unfold contribC
    simp only [hL, hnb, h1, if_true]
    exact List.mem_append.mpr (Or.inr hd)

theorem closureTab_spec {inp : RunInput} {tab : List Den} {k : Nat} (hdd : SoundDD inp (ddTab tab))
    (h : determinedOf inp tab k (closureTab inp tab k) = true) (t : Name) :
    t ∈ closureTab inp tab k ↔ DenCl inp t :=
  ⟨closureTab_sound hdd k t, fun hc => denClosureC_complete hdd (determinedOf_det h)
    (fun y hy => iterN_mono _ _ _ y (mem_dedup.mpr hy)) hc⟩

/-- the monitor holds of every trace of the model for any sound table under which the closure is determined -/
theorem monitor_denOf {inp : RunInput} {s : Sys} (hr : Reach inp s ∨ PReach inp s) (nTasks : Nat) {tab : List Den}
    {k : Nat} (hdd : SoundDD inp (ddTab tab)) (hdet : determinedOf inp tab k (closureTab inp tab k) = true)
    (complete : Bool) (hc : complete = true → s.rpc = .halted ∧ s.halt = .none ∧ s.stop = false) :
    monDenOf tab (closureTab inp tab k) nTasks (trace inp s) (exitCode s) complete = true := by
  have hD := determinedOf_det hdet
  have spec := closureTab_spec hdd hdet
  unfold monDenOf
  rw [Bool.and_eq_true]
  refine ⟨?_, ?_⟩
  · rw [List.all_eq_true]
    intro t _
    cases hrep : reportOf (trace inp s) t with
    | none => rfl
    | some d =>
      simp only [beq_iff_eq]
      have hden := reportOf_is_den hr t d hrep
      have hR : Reported s t := (reportOf_isSome_iff inp s t).mp (by rw [hrep]; rfl)
      have hcl := (spec t).mpr (reported_in_closure hr t hR)
      exact (hdd t (hD.nb t hcl)).functional hden
  · cases complete with
    | false => rfl
    | true =>
      obtain ⟨e1, e2, e3⟩ := hc rfl
      simp only [Bool.not_true, Bool.false_or, Bool.and_eq_true, List.all_eq_true, beq_iff_eq]
      refine ⟨?_, ?_⟩
      · intro t _
        rw [Bool.eq_iff_iff, reportOf_isSome_iff, decide_eq_true_iff, reported_iff_closure hr e1 e2 e3, spec]
      · exact complete_exit_is_den hr e1 e2 e3 _ spec _ (fun t ht => hdd t (hD.nb t ht))

/-- the monitor `monC08DenC` holds of every trace of the model on every input (calc_dep included) for which the
    executable denotation is determined -/
theorem C08_monitor_denC {inp : RunInput} {s : Sys} (hr : Reach inp s ∨ PReach inp s) (nTasks : Nat)
    (hdet : determinedC inp nTasks = true) (complete : Bool)
    (hc : complete = true → s.rpc = .halted ∧ s.halt = .none ∧ s.stop = false) :
    monC08DenC inp nTasks (trace inp s) (exitCode s) complete = true :=
  monitor_denOf hr nTasks (denTab_sound inp _ _ _) hdet complete hc

/-- … and the executable closure is the denotational closure there -/
theorem denClosureC_spec {inp : RunInput} {nTasks : Nat} (h : determinedC inp nTasks = true) (t : Name) :
    t ∈ denClosureC inp nTasks ↔ DenCl inp t :=
  closureTab_spec (denTab_sound inp _ _ _) h t

end DoitModel.Run.Dyn
