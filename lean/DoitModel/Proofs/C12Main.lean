import DoitModel.Proofs.C12Closure
import DoitModel.Proofs.C12Stuck
/-! # C12 — the order clause on the run model (serial runner)

`inp.sel = pre ++ post`.  Phase 1 (`P1`): only members of `pre` have been popped from `tasks_to_run`; every node and
every started task is in the dependency closure of `pre`.  The phase ends when the dispatcher pops the first element of
`post`: nothing is current or ready then, so every existing node — in particular the node of every member of `pre` —
is finished or belongs to a set of parked nodes that await each other (`Stuck`), and stays so (`P2`).  Hence a member of
`pre` that is started at all is started in phase 1, after tasks of the closure of `pre` only (`Final`). -/
namespace DoitModel.Run

variable {inp : RunInput} {pre post : List Name}

structure P1 (inp : RunInput) (pre post : List Name) (s : Sys) : Prop where
  ncl : AllNCl inp pre s
  split : ∃ done r, pre = done ++ r ∧ s.toRun = r ++ post ∧ ∀ t ∈ done, created s t
  ev : ∀ b ∈ startsOf s.events, Cl (cutSel inp pre) b

def P2 (pre : List Name) (s : Sys) : Prop :=
  ∃ D : Name → Prop, Stuck D s ∧ ∀ a ∈ pre, D a ∨ (stOf s a).finished = true

/-- whatever was started before a member of `pre` is in the closure of `pre` (`startsOf`: newest first) -/
def Final (inp : RunInput) (pre : List Name) (s : Sys) : Prop :=
  ∀ l1 a l2, startsOf s.events = l1 ++ a :: l2 → a ∈ pre → ∀ b ∈ l2, Cl (cutSel inp pre) b

theorem p2_step {s s' : Sys} {perm : List Name} (h2 : Inv2 inp s) (h3 : Inv3 inp s) (hsb : SB s) (h : P2 pre s)
    (hs : serialStep inp s perm = some s') : P2 pre s' := by
  obtain ⟨D, hD, hf⟩ := h
  refine ⟨D, stuck_step h2.inv1 hsb hD hs, ?_⟩
  have hst := shape_stable (serialStep_shape h2 h3 hs)
  intro a ha
  rcases hf a ha with x | x
  · exact Or.inl x
  · right; rw [hst a x]; exact x

/-- a member of `pre` is not started in phase 2 -/
theorem p2_no_start {s : Sys} {b : Name} {nd : Node} (h1 : Inv1 inp s) (h : P2 pre s) (hb : b ∈ pre)
    (hsu : s.susp = some (.node b)) (hn : s.nodes b = some nd) (hd : selDecision inp b nd = .go) : False := by
  obtain ⟨D, hD, hf⟩ := h
  rcases hf b hb with x | x
  · exact stuck_not_yielded h1 hD hsu x
  · have := selDecision_unfinished (inp := inp) (n := b) (nd := nd) (by rw [hd]; simp)
    simp only [stOf, hn] at x; rw [this] at x; cases x

theorem order_inv {s : Sys} (hser : inp.runner = .serial) (hsel : inp.sel = pre ++ post) (hr : Reach inp s) :
    Final inp pre s ∧ (P1 inp pre post s ∨ P2 pre s) := by
  induction hr with
  | init =>
    refine ⟨?_, Or.inl ⟨?_, ⟨[], pre, rfl, hsel, fun t a => by cases a⟩, ?_⟩⟩
    · intro l1 a l2 e; simp [init, startsOf] at e
    · intro k y hk; simp [init] at hk
    · intro b hb; simp [init, startsOf] at hb
  | @next s0 s1 c hp hs ih =>
    cases c with
    | take w => cases hs
    | done w => cases hs
    | main perm =>
      have hs : serialStep inp s0 perm = some s1 := hs
      obtain ⟨ihF, ihP⟩ := ih
      have h2 := reach_inv2 hp
      have h3 := reach_inv3 hp
      have hsb := reach_sb hser hp
      have F := serialStep_facts hs
      have keeps : ∀ a, created s0 a → created s1 a := by
        intro a ⟨y, hy⟩
        obtain ⟨y', hy', _⟩ := F.keep a y hy
        exact ⟨y', hy'⟩
      constructor
      · -- `Final`
        rcases F.ev with e | ⟨b, e, _, hsu, nd, hn, hd⟩
        · intro l1 a l2 hsp; rw [e] at hsp; exact ihF l1 a l2 hsp
        · intro l1 a l2 hsp ha b' hb'
          rw [e] at hsp
          cases l1 with
          | nil =>
            simp only [List.nil_append, List.cons.injEq] at hsp
            obtain ⟨e1, e2⟩ := hsp
            subst e1
            rcases ihP with p1 | p2
            · exact p1.ev b' (by rw [e2]; exact hb')
            · exact (p2_no_start h2.inv1 p2 ha hsu hn hd).elim
          | cons x l1' =>
            simp only [List.cons_append, List.cons.injEq] at hsp
            exact ihF l1' a l2 hsp.2 ha b' hb'
      · -- the phases
        rcases ihP with p1 | p2
        · obtain ⟨done, r, hpre, htr, hcr⟩ := p1.split
          by_cases hA : r = [] ∧ s0.rpc = .sWait ∧ s0.susp = none ∧ s0.cur = none ∧ s0.ready = []
          · -- the first element of `post` is about to be popped: phase 2 begins
            obtain ⟨hr0, hrpc, hsu, hc, hrd⟩ := hA
            obtain ⟨st, cl⟩ := stuck_at_pop hser hp hrpc hsu hc hrd
            have : P2 pre s0 := by
              refine ⟨(· ∈ s0.waiting), st, ?_⟩
              intro a ha
              rw [hpre, hr0, List.append_nil] at ha
              exact cl a (hcr a ha)
            exact Or.inr (p2_step h2 h3 hsb this hs)
          · left
            have rne : s0.rpc = .sWait → s0.susp = none → s0.cur = none → s0.ready = [] →
                ∃ t r', r = t :: r' := by
              intro a b c d
              cases r with
              | nil => exact absurd ⟨rfl, a, b, c, d⟩ hA
              | cons t r' => exact ⟨t, r', rfl⟩
            refine ⟨?_, ?_, ?_⟩
            · apply serialStep_ncl p1.ncl _ hs
              intro t rest htr' a b c d
              obtain ⟨t', r', e⟩ := rne a b c d
              rw [htr, e] at htr'
              simp only [List.cons_append, List.cons.injEq] at htr'
              apply Cl.ofSel
              show t ∈ pre
              rw [hpre, e, ← htr'.1]; simp
            · rcases F.toRun with e | ⟨t, e, a, b, c, d, hcr'⟩
              · exact ⟨done, r, hpre, by rw [e]; exact htr, fun x hx => keeps x (hcr x hx)⟩
              · obtain ⟨t', r', e'⟩ := rne a b c d
                rw [htr, e'] at e
                simp only [List.cons_append, List.cons.injEq] at e
                refine ⟨done ++ [t], r', ?_, e.2.symm, ?_⟩
                · rw [hpre, e', e.1]; simp
                · intro x hx
                  rcases List.mem_append.mp hx with y | y
                  · exact keeps x (hcr x y)
                  · simp only [List.mem_singleton] at y; subst y; exact hcr'
            · rcases F.ev with e | ⟨b, e, _, _, nd, hn, _⟩
              · rw [e]; exact p1.ev
              · rw [e]; intro b' hb'
                rcases List.mem_cons.mp hb' with x | x
                · subst x; exact (p1.ncl b' nd hn).self
                · exact p1.ev b' x
        · exact Or.inr (p2_step h2 h3 hsb p2 hs)

/-- the tasks in the order in which the serial runner started them -/
def startOrder (s : Sys) : List Name := (startsOf s.events).reverse

/-- **Order clause on the run model.**  Serial runner, any reachable state, `pre` any prefix of the selection: a task
    that is started before a member of `pre` belongs to the dependency closure of `pre` — the least set containing
    `pre` and closed under task_dep, calc_dep, the setup-tasks of members that may run (not ignored, not up-to-date)
    and whatever a member delivers as a calc result (`Cl`, `Proofs/RunClosure.lean`). -/
theorem serial_start_order {s : Sys} (hser : inp.runner = .serial) (hsel : inp.sel = pre ++ post)
    (hr : Reach inp s) (before : List Name) (a : Name) (after : List Name)
    (hso : startOrder s = before ++ a :: after) (ha : a ∈ pre) : ∀ b ∈ before, Cl (cutSel inp pre) b := by
  have hf := (order_inv (post := post) hser hsel hr).1
  have e : startsOf s.events = after.reverse ++ a :: before.reverse := by
    have := congrArg List.reverse hso
    simpa [startOrder] using this
  intro b hb
  exact hf _ a _ e ha b (by simpa using hb)

end DoitModel.Run
