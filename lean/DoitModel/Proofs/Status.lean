import DoitModel.Model.Status
/-! # M2 — the invariant tying records to the ghost state, preserved by every history operation -/
namespace DoitModel.Status

/-- a stored md5 state never lies about a file that still has the mtime it was taken at -/
def StOk (fs : FS) (clock : Nat) (r : Rcd) : Prop :=
  ∀ p m sz c, r.fstate p = some (.md5 m sz c) →
    m ≤ clock ∧ ∀ cur, fs p = some cur → cur.mtime = m → cur.size = sz ∧ cur.cid = c

def SawOk (fs : FS) (clock : Nat) (e : Exec) : Prop :=
  ∀ p sm, e.saw p = some sm → sm.mtime ≤ clock ∧ ∀ cur, fs p = some cur → cur.mtime = sm.mtime → cur = sm

/-- the record of a task with no recorded successful execution holds nothing but (possibly) the ignore mark -/
def AgreeNone (r : Rcd) : Prop :=
  r.values = none ∧ r.result = none ∧ r.checker = none ∧ r.deps = none ∧ ∀ p, r.fstate p = none

/-- the record says exactly what the last recorded successful execution saw (stale per-file keys are allowed) -/
def AgreeSome (r : Rcd) (e : Exec) : Prop :=
  r.values = some e.values ∧ r.result = e.result ∧ r.checker = some e.checker ∧ r.deps = some e.deps ∧
  ∀ p, p ∈ e.deps → ∃ sm, e.saw p = some sm ∧ r.fstate p = some (stateOf e.checker sm)

def Agree (r : Rcd) : Option Exec → Prop
  | none => AgreeNone r
  | some e => AgreeSome r e

structure Inv (s : St) : Prop where
  clk : ∀ p m, s.fs p = some m → m.mtime ≤ s.clock
  st : ∀ t, StOk s.fs s.clock (s.rcd t)
  saw : ∀ t e, s.shadow t = some e → SawOk s.fs s.clock e
  agree : ∀ t, Agree (s.rcd t) (s.shadow t)

theorem StOk_empty (fs clock) : StOk fs clock Rcd.empty := by
  intro p m sz c h; simp [Rcd.empty] at h

theorem init_inv : Inv St.init := by
  refine ⟨?_, ?_, ?_, ?_⟩
  · intro p m h; simp [St.init] at h
  · intro t; exact StOk_empty _ _
  · intro t e h; simp [St.init] at h
  · intro t; simp [St.init, Agree, AgreeNone, Rcd.empty]

theorem erase_inv {s : St} (t : Name) (h : Inv s) : Inv (erase s t) := by
  obtain ⟨clk, st, saw, ag⟩ := h
  refine ⟨clk, ?_, ?_, ?_⟩
  · intro k
    simp only [erase]
    by_cases hk : k = t
    · simp only [hk, if_true]; exact StOk_empty _ _
    · simp only [hk, if_false]; exact st k
  · intro k e he
    simp only [erase] at he ⊢
    by_cases hk : k = t
    · simp [hk] at he
    · simp only [hk, if_false] at he; exact saw k e he
  · intro k
    simp only [erase]
    by_cases hk : k = t
    · simp [hk, Agree, AgreeNone, Rcd.empty]
    · simp only [hk, if_false]; exact ag k

theorem crashed_inv {s : St} (h : Inv s) : Inv { s with crashed := true } := ⟨h.clk, h.st, h.saw, h.agree⟩

theorem writeFile_inv {s : St} (p sz c) (h : Inv s) : Inv (writeFile s p sz c) := by
  obtain ⟨clk, st, saw, ag⟩ := h
  refine ⟨?_, ?_, ?_, ag⟩
  · intro q m hq
    simp only [writeFile] at hq ⊢
    by_cases hp : q = p
    · simp only [hp, if_true, Option.some.injEq] at hq; subst hq; simp
    · simp only [hp, if_false] at hq; have := clk q m hq; omega
  · intro t q m sz' c' hq
    have := st t q m sz' c' hq
    simp only [writeFile]
    refine ⟨by omega, ?_⟩
    intro cur hcur hm
    by_cases hp : q = p
    · simp only [hp, if_true, Option.some.injEq] at hcur; subst hcur; simp at hm; omega
    · simp only [hp, if_false] at hcur; exact this.2 cur hcur hm
  · intro t e he q sm hq
    have := saw t e he q sm hq
    simp only [writeFile]
    refine ⟨by omega, ?_⟩
    intro cur hcur hm
    by_cases hp : q = p
    · simp only [hp, if_true, Option.some.injEq] at hcur; subst hcur; simp at hm; omega
    · simp only [hp, if_false] at hcur; exact this.2 cur hcur hm

theorem applyWrites_inv {s : St} (ws : List (Path × Nat × Nat)) (h : Inv s) : Inv (applyWrites s ws) := by
  induction ws generalizing s with
  | nil => exact h
  | cons w rest ih =>
    obtain ⟨p, sz, c⟩ := w
    exact ih (writeFile_inv p sz c h)

theorem touch_inv {s : St} (p : Path) (h : Inv s) :
    Inv { s with fs := fun q => if q = p then touchMeta s.clock (s.fs p) else s.fs q, clock := s.clock + 1 } := by
  obtain ⟨clk, st, saw, ag⟩ := h
  refine ⟨?_, ?_, ?_, ag⟩
  · intro q m hq
    simp only at hq ⊢
    by_cases hp : q = p
    · simp only [hp, if_true] at hq
      cases hf : s.fs p with
      | none => simp [hf, touchMeta] at hq
      | some m0 => simp only [hf, touchMeta, Option.some.injEq] at hq; subst hq; simp
    · simp only [hp, if_false] at hq; have := clk q m hq; omega
  · intro t q m sz' c' hq
    have := st t q m sz' c' hq
    refine ⟨by simp only; omega, ?_⟩
    intro cur hcur hm
    simp only at hcur
    by_cases hp : q = p
    · simp only [hp, if_true] at hcur
      cases hf : s.fs p with
      | none => simp [hf, touchMeta] at hcur
      | some m0 => simp only [hf, touchMeta, Option.some.injEq] at hcur; subst hcur; simp at hm; omega
    · simp only [hp, if_false] at hcur; exact this.2 cur hcur hm
  · intro t e he q sm hq
    have := saw t e he q sm hq
    refine ⟨by simp only; omega, ?_⟩
    intro cur hcur hm
    simp only at hcur
    by_cases hp : q = p
    · simp only [hp, if_true] at hcur
      cases hf : s.fs p with
      | none => simp [hf, touchMeta] at hcur
      | some m0 => simp only [hf, touchMeta, Option.some.injEq] at hcur; subst hcur; simp at hm; omega
    · simp only [hp, if_false] at hcur; exact this.2 cur hcur hm

theorem delete_inv {s : St} (p : Path) (h : Inv s) :
    Inv { s with fs := fun q => if q = p then none else s.fs q } := by
  obtain ⟨clk, st, saw, ag⟩ := h
  refine ⟨?_, ?_, ?_, ag⟩
  · intro q m hq
    simp only at hq ⊢
    by_cases hp : q = p
    · simp [hp] at hq
    · simp only [hp, if_false] at hq; exact clk q m hq
  · intro t q m sz' c' hq
    have := st t q m sz' c' hq
    refine ⟨this.1, ?_⟩
    intro cur hcur hm
    simp only at hcur
    by_cases hp : q = p
    · simp [hp] at hcur
    · simp only [hp, if_false] at hcur; exact this.2 cur hcur hm
  · intro t e he q sm hq
    have := saw t e he q sm hq
    refine ⟨this.1, ?_⟩
    intro cur hcur hm
    simp only at hcur
    by_cases hp : q = p
    · simp [hp] at hcur
    · simp only [hp, if_false] at hcur; exact this.2 cur hcur hm

theorem ignore_inv {s : St} (t : Name) (h : Inv s) :
    Inv { s with rcd := fun k => if k = t then { s.rcd t with ign := true } else s.rcd k } := by
  obtain ⟨clk, st, saw, ag⟩ := h
  refine ⟨clk, ?_, saw, ?_⟩
  · intro k
    simp only
    by_cases hk : k = t
    · simp only [hk, if_true]; exact st t
    · simp only [hk, if_false]; exact st k
  · intro k
    simp only
    by_cases hk : k = t
    · subst hk
      simp only [if_true]
      have := ag k
      cases hs : s.shadow k with
      | none => rw [hs] at this; exact this
      | some e => rw [hs] at this; exact this
    · simp only [hk, if_false]; exact ag k

theorem any_false_of {α} {l : List α} {f : α → Bool} (h : l.any f = false) {x : α} (hx : x ∈ l) : f x = false := by
  cases hf : f x with
  | false => rfl
  | true =>
    have : l.any f = true := List.any_eq_true.mpr ⟨x, hx, hf⟩
    rw [h] at this; cases this

/-- what `save_success` leaves for a dependency is the state the configured checker computes for the present file -/
theorem savedState_eq {c : Checker} {r : Rcd} {fs : FS} {clock : Nat} {p : Path} {cur : FMeta}
    (hst : StOk fs clock r) (hcur : fs p = some cur) (hnc : saveCrashAt c r fs p = false) :
    savedState c r fs p = some (stateOf c cur) := by
  simp only [saveCrashAt, hcur] at hnc
  simp only [savedState, hcur]
  cases c with
  | ts => simp [getState]
  | md5 =>
    cases hr : r.fstate p with
    | none => simp [getState]
    | some st0 =>
      cases st0 with
      | ts m =>
        by_cases hm : m = 0
        · simp [getState, hm]
        · simp [hr, getState, hm] at hnc
      | md5 m sz c' =>
        by_cases hm : m = cur.mtime
        · have := (hst p m sz c' hr).2 cur hcur hm.symm
          simp [getState, hm, stateOf, this.1, this.2]
        · simp [getState, hm]

theorem save_commit_inv {s : St} (t : Name) (r0 r : Rcd) (deps : List Path) (vals : Values) (res : Option Res)
    (h : Inv s) (hr0 : StOk s.fs s.clock r0)
    (hs : saveSuccess s.checker deps r0 s.fs vals res = .ok r) :
    Inv (commit s t r ⟨deps, s.fs, vals, r.result, s.checker⟩) := by
  obtain ⟨clk, st, saw, ag⟩ := h
  unfold saveSuccess at hs
  cases hmiss' : deps.any (depMissing s.fs) with
  | true => simp [hmiss'] at hs
  | false =>
  cases hcr' : deps.any (saveCrashAt s.checker r0 s.fs) with
  | true => simp [hmiss', hcr'] at hs
  | false =>
      simp only [hmiss', hcr', Bool.false_eq_true, if_false, SaveOut.ok.injEq] at hs
      subst hs
      have hex : ∀ p, p ∈ deps → ∃ cur, s.fs p = some cur := by
        intro p hp
        have := any_false_of hmiss' hp
        simp only [depMissing] at this
        cases hf : s.fs p with
        | none => simp [hf] at this
        | some cur => exact ⟨cur, rfl⟩
      refine ⟨clk, ?_, ?_, ?_⟩
      · intro k
        simp only [commit]
        by_cases hk : k = t
        · simp only [hk, if_true]
          intro p m sz c hp
          simp only at hp
          by_cases hpd : p ∈ deps
          · simp only [hpd, if_true] at hp
            obtain ⟨cur, hcur⟩ := hex p hpd
            rw [savedState_eq hr0 hcur (any_false_of hcr' hpd)] at hp
            cases hc : s.checker with
            | ts => simp [hc, stateOf] at hp
            | md5 =>
              simp only [hc, stateOf, Option.some.injEq, FState.md5.injEq] at hp
              obtain ⟨h1, h2, h3⟩ := hp
              refine ⟨by have := clk p cur hcur; omega, ?_⟩
              intro cur' hcur' _
              rw [hcur] at hcur'
              simp only [Option.some.injEq] at hcur'
              subst hcur'
              exact ⟨h2, h3⟩
          · simp only [hpd, if_false] at hp
            exact hr0 p m sz c hp
        · simp only [hk, if_false]; exact st k
      · intro k e he
        simp only [commit] at he ⊢
        by_cases hk : k = t
        · simp only [hk, if_true, Option.some.injEq] at he
          subst he
          intro p sm hp
          simp only at hp
          refine ⟨clk p sm hp, ?_⟩
          intro cur hcur _
          rw [hp] at hcur
          simp only [Option.some.injEq] at hcur
          exact hcur.symm
        · simp only [hk, if_false] at he; exact saw k e he
      · intro k
        simp only [commit]
        by_cases hk : k = t
        · simp only [hk, if_true, Agree, AgreeSome]
          refine ⟨trivial, trivial, trivial, trivial, ?_⟩
          intro p hp
          obtain ⟨cur, hcur⟩ := hex p hp
          refine ⟨cur, hcur, ?_⟩
          simp only [hp, if_true]
          exact savedState_eq hr0 hcur (any_false_of hcr' hp)
        · simp only [hk, if_false]; exact ag k

theorem commit_ign_inv {s : St} (t : Name) (r : Rcd) (e : Exec) (b : Bool) (h : Inv (commit s t r e)) :
    Inv (commit s t { r with ign := b } e) := by
  obtain ⟨clk, st, saw, ag⟩ := h
  refine ⟨clk, ?_, saw, ?_⟩
  · intro k
    have := st k
    simp only [commit] at this ⊢
    by_cases hk : k = t
    · simp only [hk, if_true] at this ⊢; exact this
    · simp only [hk, if_false] at this ⊢; exact this
  · intro k
    have := ag k
    simp only [commit] at this ⊢
    by_cases hk : k = t
    · simp only [hk, if_true] at this ⊢; exact this
    · simp only [hk, if_false] at this ⊢; exact this

theorem peek_inv {s : St} (t : Name) (h : Inv s) : Inv (peek s t) := by
  unfold peek
  split
  · exact erase_inv t h
  · exact h

theorem finish_inv {s : St} (t : Name) (ok : Bool) (res : Option Res) (h : Inv s) : Inv (finish s t ok res) := by
  unfold finish
  cases ok with
  | false => simpa using erase_inv t h
  | true =>
    simp only [if_true]
    cases hs : saveSuccess s.checker (s.defs t).deps (s.rcd t) s.fs (newValues (s.defs t) s.resOf) res with
    | ok r => exact save_commit_inv t (s.rcd t) r _ _ res h (h.st t) hs
    | missing => exact erase_inv t h
    | crash => exact erase_inv t h

theorem runTask_inv {s : St} (t : Name) (ok always : Bool) (ws : List (Path × Nat × Nat)) (res : Option Res)
    (h : Inv s) : Inv (runTask true s t ok always ws res) := by
  unfold runTask
  split
  · exact h
  · cases hst : s.status true t with
    | crash => exact crashed_inv h
    | error => exact erase_inv t h
    | upToDate =>
      simp only
      split
      · exact finish_inv t ok res (applyWrites_inv ws h)
      · exact h
    | run => exact finish_inv t ok res (applyWrites_inv ws (peek_inv t h))

theorem peek_rcd_stok {s : St} (t : Name) (h : Inv s) : StOk s.fs s.clock ((peek s t).rcd t) := by
  have := (peek_inv t h).st t
  unfold peek at this ⊢
  split
  · simp only [erase, if_true]; exact StOk_empty _ _
  · exact h.st t

theorem resetDep_inv {s : St} (t : Name) (h : Inv s) : Inv (resetDep true s t) := by
  unfold resetDep
  split
  · exact h
  · cases hst : s.status true t with
    | crash => exact crashed_inv h
    | error => exact h
    | upToDate => exact h
    | run =>
      simp only
      cases hs : saveSuccess s.checker (s.defs t).deps ((peek s t).rcd t) s.fs (s.rcd t).getValues (s.rcd t).result with
      | ok r => exact save_commit_inv t _ r _ _ _ h (peek_rcd_stok t h) hs
      | missing => exact h
      | crash => exact crashed_inv h

theorem step_inv {s : St} (op : Op) (hop : op.faithful = true) (h : Inv s) : Inv (step true s op) := by
  unfold step
  split
  · exact h
  · cases op with
    | edit p sz c => exact writeFile_inv p sz c h
    | touch p => exact touch_inv p h
    | delete p => exact delete_inv p h
    | editKeep p sz c => simp [Op.faithful] at hop
    | redefine t d => exact ⟨h.clk, h.st, h.saw, h.agree⟩
    | run t ok always ws res => exact runTask_inv t ok always ws res h
    | unmet t => exact erase_inv t h
    | forget t => exact erase_inv t h
    | ignore t => exact ignore_inv t h
    | resetDep t =>
      simp only [resetDepKeep]
      split
      · exact ignore_inv t (resetDep_inv t h)
      · exact resetDep_inv t h
    | peek t =>
      simp only
      split
      · exact crashed_inv h
      · exact peek_inv t h
    | switchChecker c => exact ⟨h.clk, h.st, h.saw, h.agree⟩
    | info t =>
      simp only [info]
      split
      · exact h
      · split
        · exact crashed_inv h
        · split
          · exact erase_inv t h
          · exact h

theorem foldl_inv (ops : List Op) (hf : Faithful ops = true) (s : St) (h : Inv s) :
    Inv (ops.foldl (step true) s) := by
  induction ops generalizing s with
  | nil => exact h
  | cons o os ih =>
    simp only [Faithful, List.all_cons, Bool.and_eq_true] at hf
    exact ih (by simpa [Faithful] using hf.2) _ (step_inv o hf.1 h)

theorem hist_inv (ops : List Op) (hf : Faithful ops = true) : Inv (runHist true ops) :=
  foldl_inv ops hf _ init_inv

/-! ## in a state satisfying the invariant the decision of `get_status` equals the specification -/

theorem resOf_eq_specRes {s : St} (h : Inv s) : s.resOf = s.specRes := by
  funext t
  have := h.agree t
  simp only [St.resOf, St.specRes]
  cases hs : s.shadow t with
  | none => rw [hs] at this; simp [this.2.1]
  | some e => rw [hs] at this; simp [this.2.1]

theorem getValues_eq_last {s : St} (h : Inv s) (t : Name) : (s.rcd t).getValues = lastValues (s.shadow t) := by
  have := h.agree t
  cases hs : s.shadow t with
  | none => rw [hs] at this; simp [Rcd.getValues, lastValues, this.1]
  | some e => rw [hs] at this; simp [Rcd.getValues, lastValues, this.1]

theorem checkModified_stateOf_ne_crash (c : Checker) (sm now : FMeta) : checkModified c (stateOf c sm) now ≠ .crash := by
  cases c <;> simp only [stateOf, checkModified] <;> (repeat' split) <;> simp

end DoitModel.Status
