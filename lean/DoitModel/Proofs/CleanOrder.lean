import DoitModel.Proofs.CleanFlat
/-! Helper lemmas for C14, part 2: `flat` emits dependents first.

The argument is the DFS post-order one.  The recursive calls of `_get_leafs` in progress form a stack
`St` (ghost state: it is a parameter of the lemmas, not of the model).  Every task of the original node
table `G` is in exactly one of three places: still in `nodes`, on the stack, or emitted.  When `name` is
emitted every recorded dependent `c ∈ chOf G name` has been emitted: either the loop over the children
found it in `nodes` and the recursive call emitted it, or it was not in `nodes`, hence emitted already or on
the stack — and the stack is impossible, because every task on the stack is a (transitive) dependency of
`name` while `c` depends on `name`; with a rank function that strictly decreases along dependencies
(acyclicity) that reads `rank y ≤ rank name < rank c` for `y` on the stack. -/
namespace DoitModel.Clean

theorem mem_keys_of_alookup {c : Name} {g : List Name} :
    ∀ {ns : Nodes}, alookup c ns = some g → c ∈ keys ns := by
  intro ns
  induction ns with
  | nil => intro h; simp [alookup] at h
  | cons p rest ih =>
    obtain ⟨a, v⟩ := p
    intro h
    simp only [alookup] at h
    by_cases hak : a = c
    · simp [keys, hak]
    · simp only [hak, if_false] at h
      have := ih h
      simp only [keys, List.map_cons, List.mem_cons] at this ⊢
      exact Or.inr this

theorem alookup_none_of_not_mem {c : Name} :
    ∀ {ns : Nodes}, c ∉ keys ns → alookup c ns = (none : Option (List Name)) := by
  intro ns
  induction ns with
  | nil => intro _; rfl
  | cons p rest ih =>
    obtain ⟨a, v⟩ := p
    intro h
    simp only [keys, List.map_cons, List.mem_cons, not_or] at h
    have hak : ¬ a = c := fun e => h.1 e.symm
    simp only [alookup, hak, if_false]
    exact ih h.2

theorem not_mem_keys_of_alookup_none {c : Name} :
    ∀ {ns : Nodes}, alookup c ns = (none : Option (List Name)) → c ∉ keys ns := by
  intro ns
  induction ns with
  | nil => intro _; simp [keys]
  | cons p rest ih =>
    obtain ⟨a, v⟩ := p
    intro h
    simp only [alookup] at h
    by_cases hak : a = c
    · simp [hak] at h
    · simp only [hak, if_false] at h
      have := ih h
      simp only [keys, List.map_cons, List.mem_cons, not_or] at this ⊢
      exact ⟨fun e => hak e.symm, this⟩

theorem keys_pop1_subset {c x : Name} : ∀ {ns : Nodes}, x ∈ keys (pop1 c ns) → x ∈ keys ns := by
  intro ns
  induction ns with
  | nil => intro h; exact h
  | cons p rest ih =>
    obtain ⟨a, v⟩ := p
    intro h
    by_cases hak : a = c
    · simp only [pop1, hak, if_true] at h
      simp only [keys, List.map_cons, List.mem_cons]
      exact Or.inr h
    · simp only [pop1, hak, if_false, keys, List.map_cons, List.mem_cons] at h ⊢
      rcases h with h | h
      · exact Or.inl h
      · exact Or.inr (ih h)

theorem mem_keys_pop1 {c x : Name} : ∀ {ns : Nodes}, x ∈ keys ns → x ≠ c → x ∈ keys (pop1 c ns) := by
  intro ns
  induction ns with
  | nil => intro h; exact absurd h (by simp [keys])
  | cons p rest ih =>
    obtain ⟨a, v⟩ := p
    intro h hx
    simp only [keys, List.map_cons, List.mem_cons] at h
    by_cases hak : a = c
    · simp only [pop1, hak, if_true]
      rcases h with h | h
      · exact absurd (h.trans hak) hx
      · exact h
    · simp only [pop1, hak, if_false, keys, List.map_cons, List.mem_cons]
      rcases h with h | h
      · exact Or.inl h
      · exact Or.inr (ih h hx)

theorem nodup_keys_pop1 {c : Name} : ∀ {ns : Nodes}, (keys ns).Nodup → (keys (pop1 c ns)).Nodup := by
  intro ns
  induction ns with
  | nil => intro h; exact h
  | cons p rest ih =>
    obtain ⟨a, v⟩ := p
    intro h
    simp only [keys, List.map_cons, List.nodup_cons] at h
    by_cases hak : a = c
    · simp only [pop1, hak, if_true]; exact h.2
    · simp only [pop1, hak, if_false, keys, List.map_cons, List.nodup_cons]
      exact ⟨fun hm => h.1 (keys_pop1_subset hm), ih h.2⟩

theorem not_mem_keys_pop1_self {c : Name} : ∀ {ns : Nodes}, (keys ns).Nodup → c ∉ keys (pop1 c ns) := by
  intro ns
  induction ns with
  | nil => intro _; simp [pop1, keys]
  | cons p rest ih =>
    obtain ⟨a, v⟩ := p
    intro h
    simp only [keys, List.map_cons, List.nodup_cons] at h
    by_cases hak : a = c
    · simp only [pop1, hak, if_true]; rw [← hak]; exact h.1
    · simp only [pop1, hak, if_false, keys, List.map_cons, List.mem_cons, not_or]
      exact ⟨fun e => hak e.symm, ih h.2⟩

theorem alookup_pop1 {c x : Name} {v : List Name} :
    ∀ {ns : Nodes}, alookup x (pop1 c ns) = some v → x ≠ c → alookup x ns = some v := by
  intro ns
  induction ns with
  | nil => intro h; simp [pop1, alookup] at h
  | cons p rest ih =>
    obtain ⟨a, w⟩ := p
    intro h hx
    by_cases hak : a = c
    · simp only [pop1, hak, if_true] at h
      have : ¬ a = x := fun e => hx (e.symm.trans hak)
      simp only [alookup, this, if_false]; exact h
    · simp only [pop1, hak, if_false, alookup] at h ⊢
      by_cases hax : a = x
      · simp only [hax, if_true] at h ⊢; exact h
      · simp only [hax, if_false] at h ⊢; exact ih h hx

/-- what the order argument needs to know about the node table `G` built by `build_nodes_with_deps` -/
structure GOK (deps : Name → List Name) (rank : Name → Nat) (G : Nodes) : Prop where
  nd : (keys G).Nodup
  chKeys : ∀ b a, a ∈ chOf G b → a ∈ keys G
  chDep : ∀ b a, a ∈ chOf G b → b ∈ deps a
  rank : ∀ a b, b ∈ deps a → rank b < rank a

/-- invariant of the traversal; `St` is the stack of `_get_leafs` calls in progress -/
structure FInv (G : Nodes) (St : List Name) (s : FState) : Prop where
  sub : ∀ x v, alookup x s.nodes = some v → alookup x G = some v
  nd : (keys s.nodes).Nodup
  cover : ∀ x, x ∈ keys G → x ∈ keys s.nodes ∨ x ∈ St ∨ x ∈ s.out
  d1 : ∀ x, x ∈ s.out → x ∉ keys s.nodes
  d2 : ∀ x, x ∈ s.out → x ∉ St
  d3 : ∀ x, x ∈ St → x ∉ keys s.nodes
  order : ∀ x, x ∈ s.out → ∀ a, a ∈ chOf G x → a ∈ s.out ∧ s.out.idxOf a < s.out.idxOf x

theorem FInv.push {G : Nodes} {St : List Name} {s : FState} (h : FInv G St s) {c : Name} {g : List Name}
    (hc : alookup c s.nodes = some g) : FInv G (c :: St) { s with nodes := pop1 c s.nodes } where
  sub := by
    intro x v hx
    by_cases hxc : x = c
    · subst hxc
      exact absurd (mem_keys_of_alookup hx) (not_mem_keys_pop1_self h.nd)
    · exact h.sub x v (alookup_pop1 hx hxc)
  nd := nodup_keys_pop1 h.nd
  cover := by
    intro x hx
    by_cases hxc : x = c
    · exact Or.inr (Or.inl (by simp [hxc]))
    · rcases h.cover x hx with h1 | h1 | h1
      · exact Or.inl (mem_keys_pop1 h1 hxc)
      · exact Or.inr (Or.inl (List.mem_cons_of_mem _ h1))
      · exact Or.inr (Or.inr h1)
  d1 := fun x hx hm => h.d1 x hx (keys_pop1_subset hm)
  d2 := by
    intro x hx hm
    simp only [List.mem_cons] at hm
    rcases hm with hm | hm
    · exact h.d1 x hx (hm ▸ mem_keys_of_alookup hc)
    · exact h.d2 x hx hm
  d3 := by
    intro x hx
    simp only [List.mem_cons] at hx
    rcases hx with hx | hx
    · rw [hx]; exact not_mem_keys_pop1_self h.nd
    · exact fun hm => h.d3 x hx (keys_pop1_subset hm)
  order := h.order

theorem FInv.pop {G : Nodes} {St : List Name} {s : FState} {name : Name} (h : FInv G (name :: St) s)
    (hn : name ∉ St) (hch : ∀ a, a ∈ chOf G name → a ∈ s.out) : FInv G St (emit name s) where
  sub := h.sub
  nd := h.nd
  cover := by
    intro x hx
    rcases h.cover x hx with h1 | h1 | h1
    · exact Or.inl h1
    · simp only [List.mem_cons] at h1
      rcases h1 with h1 | h1
      · exact Or.inr (Or.inr (by simp [emit, h1]))
      · exact Or.inr (Or.inl h1)
    · exact Or.inr (Or.inr (by simp [emit, h1]))
  d1 := by
    intro x hx
    simp only [emit, List.mem_append, List.mem_singleton] at hx
    rcases hx with hx | hx
    · exact h.d1 x hx
    · rw [hx]; exact h.d3 name (by simp)
  d2 := by
    intro x hx
    simp only [emit, List.mem_append, List.mem_singleton] at hx
    rcases hx with hx | hx
    · exact fun hm => h.d2 x hx (List.mem_cons_of_mem _ hm)
    · rw [hx]; exact hn
  d3 := fun x hx => h.d3 x (List.mem_cons_of_mem _ hx)
  order := by
    have hno : name ∉ s.out := fun hm => h.d2 name hm (by simp)
    intro x hx a ha
    simp only [emit, List.mem_append, List.mem_singleton] at hx
    simp only [emit]
    rcases hx with hx | hx
    · obtain ⟨h1, h2⟩ := h.order x hx a ha
      refine ⟨by simp [h1], ?_⟩
      rw [List.idxOf_append, List.idxOf_append]
      simp only [h1, hx, if_true]
      exact h2
    · subst hx
      have h1 := hch a ha
      refine ⟨by simp [h1], ?_⟩
      rw [List.idxOf_append, List.idxOf_append]
      simp only [h1, hno, if_true, if_false, List.idxOf_cons_self]
      have := List.idxOf_lt_length_of_mem h1
      omega

theorem getLeafs_order {deps : Name → List Name} {rank : Name → Nat} {G : Nodes} (hG : GOK deps rank G) :
    ∀ (f : Nat) (name : Name) (ch : List Name) (s : FState) (St : List Name),
    FInv G (name :: St) s → name ∉ St → ch = chOf G name → (∀ y, y ∈ St → rank y ≤ rank name) →
    s.nodes.length < f →
    FInv G St (getLeafs f name ch s) ∧ name ∈ (getLeafs f name ch s).out ∧
      (getLeafs f name ch s).nodes.length ≤ s.nodes.length ∧
      (∀ x, x ∈ s.out → x ∈ (getLeafs f name ch s).out) := by
  intro f
  induction f with
  | zero => intro name ch s St _ _ _ _ h; omega
  | succ f ih =>
    intro name ch s St hinv hn hch hrk hlen
    have inner : ∀ (cs : List Name) (s : FState), (∀ c, c ∈ cs → c ∈ chOf G name) →
        FInv G (name :: St) s → s.nodes.length < f + 1 →
        FInv G (name :: St) (cs.foldl (visit (getLeafs f)) s) ∧
          (cs.foldl (visit (getLeafs f)) s).nodes.length ≤ s.nodes.length ∧
          (∀ x, x ∈ s.out → x ∈ (cs.foldl (visit (getLeafs f)) s).out) ∧
          (∀ c, c ∈ cs → c ∈ (cs.foldl (visit (getLeafs f)) s).out) := by
      intro cs
      induction cs with
      | nil => intro s _ h _; exact ⟨h, Nat.le_refl _, fun _ hx => hx, fun _ hc => absurd hc (by simp)⟩
      | cons c cs ihc =>
        intro s hcs h hl
        simp only [List.foldl_cons]
        have hcn : c ∈ chOf G name := hcs c (by simp)
        have hrc : rank name < rank c := hG.rank c name (hG.chDep name c hcn)
        have step : FInv G (name :: St) (visit (getLeafs f) s c) ∧
            (visit (getLeafs f) s c).nodes.length ≤ s.nodes.length ∧
            (∀ x, x ∈ s.out → x ∈ (visit (getLeafs f) s c).out) ∧ c ∈ (visit (getLeafs f) s c).out := by
          cases hc : alookup c s.nodes with
          | none =>
            simp only [visit, hc]
            refine ⟨h, Nat.le_refl _, fun _ hx => hx, ?_⟩
            rcases h.cover c (hG.chKeys name c hcn) with h1 | h1 | h1
            · exact absurd h1 (not_mem_keys_of_alookup_none hc)
            · simp only [List.mem_cons] at h1
              rcases h1 with h1 | h1
              · rw [h1] at hrc; omega
              · have := hrk c h1; omega
            · exact h1
          | some grand =>
            simp only [visit, hc]
            have hlp := length_pop1 hc
            have hck : c ∈ keys s.nodes := mem_keys_of_alookup hc
            have hg : grand = chOf G c := by
              have := h.sub c grand hc
              simp [chOf, this]
            have := ih c grand { s with nodes := pop1 c s.nodes } (name :: St) (h.push hc)
              (fun hm => h.d3 c hm hck) hg
              (by
                intro y hy
                simp only [List.mem_cons] at hy
                rcases hy with hy | hy
                · rw [hy]; omega
                · have := hrk y hy; omega)
              (by simp only; omega)
            obtain ⟨i1, i2, i3, i4⟩ := this
            exact ⟨i1, by simp only at i3; omega, i4, i2⟩
        obtain ⟨s1, s2, s3, s4⟩ := step
        obtain ⟨r1, r2, r3, r4⟩ := ihc _ (fun x hx => hcs x (List.mem_cons_of_mem _ hx)) s1 (by omega)
        refine ⟨r1, by omega, fun x hx => r3 x (s3 x hx), ?_⟩
        intro x hx
        simp only [List.mem_cons] at hx
        rcases hx with hx | hx
        · rw [hx]; exact r3 c s4
        · exact r4 x hx
    obtain ⟨r1, r2, r3, r4⟩ := inner ch s (fun c hc => hch ▸ hc) hinv hlen
    have hpop := r1.pop hn (fun a ha => r4 a (hch ▸ ha))
    refine ⟨hpop, ?_, r2, ?_⟩
    · simp [getLeafs, emit]
    · intro x hx
      simp only [getLeafs, emit, List.mem_append]
      exact Or.inl (r3 x hx)

theorem flatLoop_order {deps : Name → List Name} {rank : Name → Nat} {G : Nodes} (hG : GOK deps rank G)
    (lf : Nat) : ∀ (fuel : Nat) (s : FState), FInv G [] s → s.nodes.length ≤ lf → s.nodes.length ≤ fuel →
    FInv G [] (flatLoop lf fuel s) := by
  intro fuel
  induction fuel with
  | zero =>
    intro s h _ hl
    cases hn : s.nodes with
    | nil => simp only [flatLoop, hn]; exact h
    | cons p rest => rw [hn] at hl; simp at hl
  | succ f ih =>
    intro s h hlf hl
    cases hn : s.nodes with
    | nil => simp only [flatLoop, hn]; exact h
    | cons p rest =>
      obtain ⟨hd, ch⟩ := p
      simp only [flatLoop, hn]
      rw [hn] at hl
      simp only [List.length_cons] at hl
      have hc : alookup hd s.nodes = some ch := by simp [hn, alookup]
      have hpush := h.push hc
      have hp : pop1 hd s.nodes = rest := by simp [hn, pop1]
      rw [hp] at hpush
      have hch : ch = chOf G hd := by simp [chOf, h.sub hd ch hc]
      rw [hn] at hlf
      simp only [List.length_cons] at hlf
      obtain ⟨i1, _, i3, _⟩ := getLeafs_order hG lf hd ch { s with nodes := rest } [] hpush (by simp) hch
        (by intro y hy; simp at hy) (by simp only; omega)
      exact ih _ i1 (by simp only at i3; omega) (by simp only at i3; omega)

/-- in the output of `flat` every recorded dependent of `x` comes before `x` -/
theorem flat_order {deps : Name → List Name} {rank : Name → Nat} {G : Nodes} (hG : GOK deps rank G) :
    ∀ x, x ∈ (flat G).out → ∀ a, a ∈ chOf G x →
      a ∈ (flat G).out ∧ (flat G).out.idxOf a < (flat G).out.idxOf x := by
  have h0 : FInv G [] { nodes := G, out := [], oof := false } :=
    { sub := fun _ _ h => h, nd := hG.nd, cover := fun x hx => Or.inl hx,
      d1 := fun x hx => absurd hx (by simp), d2 := fun x hx => absurd hx (by simp),
      d3 := fun x hx => absurd hx (by simp), order := fun x hx => absurd hx (by simp) }
  exact (flatLoop_order hG (G.length + 1) G.length _ h0 (Nat.le_succ _) (Nat.le_refl _)).order

end DoitModel.Clean
