import DoitModel.Proofs.C09Fuel
/-! # C09 — termination, part 1: the measure

A lexicographic triple `(L1, L2, lin)`:
* `L1` — task names below `N` without a node (decreases when `_gen_node` / `_get_next_node` creates a node);
* `L2` — Σ over the nodes of `calOf`: calc_deps not yet delivered (names not yet in `task.calc_dep`, pending ones, the
  snapshot being iterated, awaited ones); decreases when a finished calc_dep leaves `wait_run_calc` / the snapshot, which
  pays for whatever its result appends to `task_dep`;
* `lin` — a weighted sum with literal weights: list lengths, a rank of the generator position (with a gap at the two
  `yield this_task`), the queues, and a rank of the runner's program counter. -/
namespace DoitModel.Run

/-! ### sums over the node table -/

def sumF (N : Nat) (g : Name → Node → Nat) (f : Name → Option Node) : Nat :=
  ((List.range N).map fun k => match f k with | some nd => g k nd | none => 0).sum

theorem map_sum_update {h h' : Nat → Nat} {n : Nat} : ∀ (l : List Nat), l.Nodup → n ∈ l → (∀ k, k ≠ n → h' k = h k) →
    ∃ rest, (l.map h).sum = rest + h n ∧ (l.map h').sum = rest + h' n := by
  intro l
  induction l with
  | nil => intro _ hm; cases hm
  | cons a t ih =>
    intro hnd hm heq
    obtain ⟨hat, hnt⟩ := List.nodup_cons.mp hnd
    by_cases e : a = n
    · subst e
      have : t.map h' = t.map h := List.map_congr_left (fun k hk => heq k (fun e => hat (e ▸ hk)))
      exact ⟨(t.map h).sum, by simp [Nat.add_comm], by simp [this, Nat.add_comm]⟩
    · have hmt : n ∈ t := by
        rcases List.mem_cons.mp hm with x | x
        · exact absurd x.symm e
        · exact x
      obtain ⟨rest, r1, r2⟩ := ih hnt hmt heq
      refine ⟨h a + rest, ?_, ?_⟩
      · simp only [List.map_cons, List.sum_cons, r1]; omega
      · simp only [List.map_cons, List.sum_cons, r2, heq a e]; omega

theorem sumF_update {N : Nat} {g : Name → Node → Nat} {n : Name} (hN : n < N) (f : Name → Option Node) (x : Node) :
    ∃ rest, sumF N g f = rest + (match f n with | some nd => g n nd | none => 0) ∧
      sumF N g (fun k => if k = n then some x else f k) = rest + g n x := by
  obtain ⟨rest, r1, r2⟩ := map_sum_update (n := n)
    (h := fun k => match f k with | some nd => g k nd | none => 0)
    (h' := fun k => match (if k = n then some x else f k) with | some nd => g k nd | none => 0)
    (List.range N) List.nodup_range (List.mem_range.mpr hN) (fun k hk => by simp [hk])
  refine ⟨rest, r1, ?_⟩
  unfold sumF; rw [r2]; simp

theorem sumF_congr {N : Nat} {g : Name → Node → Nat} {f f' : Name → Option Node}
    (h : ∀ k, (match f' k with | some nd => g k nd | none => 0) = (match f k with | some nd => g k nd | none => 0)) :
    sumF N g f' = sumF N g f := by
  unfold sumF
  congr 1
  exact List.map_congr_left (fun k _ => h k)

/-! ### L1 -/

def cntNone (N : Nat) (f : Name → Option Node) : Nat := (List.range N).countP fun k => (f k).isNone

theorem cntNone_congr {N : Nat} {f f' : Name → Option Node} (h : ∀ k, (f' k).isNone = (f k).isNone) :
    cntNone N f' = cntNone N f := by
  unfold cntNone; congr 1; funext k; exact h k

theorem cntNone_lt {N : Nat} {f f' : Name → Option Node} {d : Name} (hd : d < N) (h0 : f d = none)
    (h1 : (f' d).isSome = true) (hk : ∀ k, (f' k).isNone = true → (f k).isNone = true) : cntNone N f' < cntNone N f := by
  unfold cntNone
  apply countP_lt_of_mem (x := d) (List.mem_range.mpr hd)
  · cases h : f' d with
    | none => rw [h] at h1; cases h1
    | some _ => rfl
  · simp [h0]
  · intro y _ hy; exact hk y hy

/-! ### L2 -/

def cntNot (N : Nat) (l : List Name) : Nat := (List.range N).countP fun p => decide (p ∉ l)

theorem cntNot_append_one {N : Nat} {l : List Name} {x : Name} (hx : x < N) (hn : x ∉ l) :
    cntNot N (l ++ [x]) + 1 ≤ cntNot N l := by
  have : cntNot N (l ++ [x]) < cntNot N l := by
    unfold cntNot
    apply countP_lt_of_mem (x := x) (List.mem_range.mpr hx)
    · simp
    · simpa using hn
    · intro y _ hy
      simp only [List.mem_append, List.mem_singleton, not_or, decide_eq_true_eq] at hy ⊢
      exact hy.1
  omega

theorem cntNot_append {N : Nat} : ∀ (new l : List Name), new.Nodup → (∀ x ∈ new, x < N ∧ x ∉ l) →
    cntNot N (l ++ new) + new.length ≤ cntNot N l := by
  intro new
  induction new with
  | nil => intro l _ _; simp
  | cons x xs ih =>
    intro l hnd h
    obtain ⟨hx, hxs⟩ := List.nodup_cons.mp hnd
    have h1 := cntNot_append_one (N := N) (l := l) (h x (by simp)).1 (h x (by simp)).2
    have h2 := ih (l ++ [x]) hxs (fun y hy => ⟨(h y (by simp [hy])).1, by
      simp only [List.mem_append, List.mem_singleton, not_or]
      exact ⟨(h y (by simp [hy])).2, fun e => hx (e ▸ hy)⟩⟩)
    have e : l ++ x :: xs = (l ++ [x]) ++ xs := by simp
    rw [e]; simp only [List.length_cons]; omega

theorem dedup_nodup9 : ∀ l : List Name, (dedup l).Nodup := by
  intro l
  induction l with
  | nil => simp [dedup]
  | cons a t ih =>
    simp only [dedup]
    split
    · exact ih
    · rename_i h; exact List.nodup_cons.mpr ⟨h, ih⟩

/-- calc_deps of a node still to be delivered -/
def calOf (N : Nat) (nd : Node) : Nat :=
  cntNot N nd.dynCalc + nd.pendCalc.length + (if nd.pc.iterC = true then nd.snapCalc.length else 0) +
    nd.waitRunCalc.length

def m2Of (N : Nat) (nd : Node) : Nat := cntNot N nd.dynCalc + nd.pendCalc.length

/-- every name a task table mentions is a task index below `N` -/
structure FiniteTable (inp : RunInput) (N : Nat) : Prop where
  sel : ∀ t ∈ inp.sel, t < N
  task : ∀ n, ∀ d ∈ inp.taskDep n, d < N
  cd : ∀ n, ∀ d ∈ inp.calcDep n, d < N
  setup : ∀ n, ∀ d ∈ inp.setup n, d < N
  rt : ∀ n, ∀ d ∈ (inp.calcRes n).tasks, d < N
  rf : ∀ n, ∀ d ∈ (inp.calcRes n).files, d < N
  rc : ∀ n, ∀ d ∈ (inp.calcRes n).calcs, d < N
  rtF : ∀ n, ∀ d ∈ (inp.calcResFail n).tasks, d < N
  rfF : ∀ n, ∀ d ∈ (inp.calcResFail n).files, d < N
  rcF : ∀ n, ∀ d ∈ (inp.calcResFail n).calcs, d < N

variable {inp : RunInput} {N : Nat}

theorem cl_lt (hF : FiniteTable inp N) {t : Name} (h : Cl inp t) : t < N := by
  induction h with
  | ofSel h => exact hF.sel _ h
  | ofTask _ h => exact hF.task _ _ h
  | ofCalc _ h => exact hF.cd _ _ h
  | ofSetup _ _ h => exact hF.setup _ _ h
  | ofRes _ h =>
    rcases h with h | h | h
    · exact hF.rt _ _ h
    · exact hF.rf _ _ h
    · exact hF.rc _ _ h
  | ofResFail _ h =>
    rcases h with h | h | h
    · exact hF.rtF _ _ h
    · exact hF.rfF _ _ h
    · exact hF.rcF _ _ h

theorem addDeps_m2R (nd : Node) (r : CalcRes) (hr : ∀ x ∈ r.calcs, x < N) :
    m2Of N (nd.addDeps r) ≤ m2Of N nd := by
  unfold m2Of
  have hnew : (newCalcDeps nd r).Nodup := by
    unfold newCalcDeps; exact List.Nodup.sublist List.filter_sublist (dedup_nodup9 _)
  have hmem : ∀ x ∈ newCalcDeps nd r, x < N ∧ x ∉ nd.dynCalc := by
    intro x hx
    simp only [newCalcDeps, List.mem_filter, decide_eq_true_eq] at hx
    exact ⟨hr x (mem_dedup.mp hx.1), hx.2⟩
  have h1 := cntNot_append (N := N) _ nd.dynCalc hnew hmem
  have h2 : ((newCalcDeps nd r).filter (fun c => c ∉ nd.pendCalc)).length ≤
      (newCalcDeps nd r).length := List.length_filter_le _ _
  simp only [Node.addDeps, List.length_append]
  omega

theorem addDeps_m2 (hF : FiniteTable inp N) (nd : Node) (p : Name) :
    m2Of N (nd.addDeps (inp.calcRes p)) ≤ m2Of N nd := addDeps_m2R nd _ (hF.rc p)

theorem deliverF_m2 (hF : FiniteTable inp N) (ex : Bool) (pst : RS) (p : Name) (nd : Node) :
    m2Of N (deliverF inp ex pst p nd) ≤ m2Of N nd := by
  unfold deliverF; split
  · exact addDeps_m2R nd _ (hF.rcF p)
  · exact Nat.le_refl _

theorem deliver_m2 (hF : FiniteTable inp N) (pst : RS) (p : Name) (nd : Node) :
    m2Of N (deliver inp pst p nd) ≤ m2Of N nd := by
  unfold deliver; split
  · exact addDeps_m2 hF nd p
  · exact Nat.le_refl _

theorem absorbDone_m2 (hF : FiniteTable inp N) (s : Sys) (c : Bool) : ∀ (ds : List Name) (nd : Node),
    m2Of N (absorbDone inp s c ds nd) ≤ m2Of N nd := by
  intro ds
  induction ds with
  | nil => intro nd; exact Nat.le_refl _
  | cons a t ih =>
    intro nd
    simp only [absorbDone]
    split
    · exact ih nd
    · split
      · exact Nat.le_trans (ih _) (Nat.le_trans (deliverF_m2 hF _ _ _ _) (deliver_m2 hF _ _ _))
      · exact ih _

theorem absorbDone_all_unfinished (s : Sys) (c : Bool) : ∀ (ds : List Name) (nd : Node),
    (∀ d ∈ ds, unfinished s d = true) → absorbDone inp s c ds nd = nd := by
  intro ds
  induction ds with
  | nil => intro nd _; rfl
  | cons a t ih =>
    intro nd h
    simp only [absorbDone, h a (by simp), if_true]
    exact ih nd (fun d hd => h d (by simp [hd]))

/-! ### the linear part -/

def PC.loopback : PC → Bool
  | .calcIter _ | .taskIter _ | .afterDeps => true
  | _ => false

def posOf : PC → Nat
  | .done => 0 | .afterSelf2 => 1 | .self2 => 8 | .afterSetup => 9 | .setupIter _ => 10 | .setupDecide => 11
  | .afterSelf1 => 17 | .self1 => 24 | .afterDeps => 25 | .taskIter _ => 26 | .calcIter _ => 27 | .loopTop => 28

def todoOf (nd : Node) : Nat :=
  match nd.pc with
  | .calcIter todo => todo.length + nd.snapTask.length
  | .taskIter todo => todo.length
  | _ => 0

/-- the setup-tasks still to be passed to `_node_add_wait_run` -/
def setupTerm (pc : PC) (L : Nat) : Nat :=
  match pc with
  | .loopTop | .calcIter _ | .taskIter _ | .afterDeps | .self1 | .afterSelf1 | .setupDecide => 6 * L
  | .setupIter todo => 5 * L + todo.length
  | _ => 0

def linNode (inp : RunInput) (n : Name) (nd : Node) : Nat :=
  6 * nd.pendTask.length + 6 * nd.pendCalc.length +
  (if nd.pc.loopback = true then 4 * (nd.pendTask.length + nd.pendCalc.length) else 0) +
  (if nd.pc.iterT = true then 5 * nd.snapTask.length else 0) +
  (if nd.pc.iterC = true then 5 * nd.snapCalc.length else 0) +
  todoOf nd + 5 * (nd.waitRun.length + nd.waitRunCalc.length) + posOf nd.pc +
  setupTerm nd.pc (inp.setup n).length + (if nd.waitSelect = true then 5 else 0)

/-- rank of the dispatcher's last answer while the runner waits for it: running, a yielded node (the rank the generator
    lost at `yield this_task` is kept here until `select_task` has looked at the node), ended -/
def wRank : Option DOut → Nat
  | none => 3
  | some (.node _) => 9
  | some _ => 2

def loopK : Ret → Nat
  | .startLoop k => k
  | .feedLoop k => k

def rOf : RPC → Option DOut → Nat
  | .halted, _ => 0
  | .fin, _ => 1
  | .sWait, o => wRank o
  | .sTop _, _ => 4
  | .sExec _, _ => 5
  | .pJoin, _ => 2
  | .pTop, _ => 3
  | .gRet _ ret, _ => 20 * loopK ret + 11
  | .gWait ret, o => 20 * loopK ret + 10 + wRank o
  | .gLoop _ ret, _ => 20 * loopK ret + 14
  | .gEntry _ ret, _ => 20 * loopK ret + 15

/-- a node is being stepped by the dispatcher -/
def curW : Option Name → Nat
  | some _ => 4
  | none => 0

def restOf (s : Sys) : Nat :=
  5 * s.ready.length + s.toRun.length + curW s.cur + rOf s.rpc s.susp

def L1 (N : Nat) (s : Sys) : Nat := cntNone N s.nodes
def L2 (N : Nat) (s : Sys) : Nat := sumF N (fun _ nd => calOf N nd) s.nodes
def linS (inp : RunInput) (N : Nat) (s : Sys) : Nat := sumF N (linNode inp) s.nodes

/-- the measure of `s'` is below the measure of `s` -/
def MLt (inp : RunInput) (N : Nat) (s' s : Sys) : Prop :=
  L1 N s' < L1 N s ∨ (L1 N s' = L1 N s ∧
    (L2 N s' < L2 N s ∨ (L2 N s' = L2 N s ∧ linS inp N s' + restOf s' < linS inp N s + restOf s)))

/-- the dispatcher part of the measure did not grow -/
def GLe (inp : RunInput) (N : Nat) (s' s : Sys) : Prop :=
  L1 N s' = L1 N s ∧ (L2 N s' < L2 N s ∨ (L2 N s' = L2 N s ∧
    linS inp N s' + 5 * s'.ready.length ≤ linS inp N s + 5 * s.ready.length))

theorem GLe.refl (s : Sys) : GLe inp N s s := ⟨rfl, Or.inr ⟨rfl, Nat.le_refl _⟩⟩

theorem GLe.trans {a b c : Sys} (h1 : GLe inp N b a) (h2 : GLe inp N c b) : GLe inp N c a := by
  obtain ⟨a1, a2⟩ := h1
  obtain ⟨b1, b2⟩ := h2
  refine ⟨b1.trans a1, ?_⟩
  rcases a2 with x | ⟨x1, x2⟩ <;> rcases b2 with y | ⟨y1, y2⟩
  · left; omega
  · left; omega
  · left; omega
  · right; exact ⟨by omega, by omega⟩

/-! ### node replacement -/

/-- facts about replacing the node of `n` (which exists) -/
theorem upd_facts {s : Sys} {n : Name} {nd : Node} (hn : s.nodes n = some nd) (hN : n < N) (x : Node) :
    L1 N (setNode s n x) = L1 N s ∧
    (∃ r2, L2 N s = r2 + calOf N nd ∧ L2 N (setNode s n x) = r2 + calOf N x) ∧
    (∃ r3, linS inp N s = r3 + linNode inp n nd ∧ linS inp N (setNode s n x) = r3 + linNode inp n x) := by
  refine ⟨?_, ?_, ?_⟩
  · apply cntNone_congr
    intro k
    simp only [setNode_nodes]
    split
    · rename_i e; subst e; simp [hn]
    · rfl
  · obtain ⟨r, a, b⟩ := sumF_update (g := fun _ nd => calOf N nd) hN s.nodes x
    rw [hn] at a
    exact ⟨r, a, b⟩
  · obtain ⟨r, a, b⟩ := sumF_update (g := linNode inp) hN s.nodes x
    rw [hn] at a
    exact ⟨r, a, b⟩

theorem addWaiting_cal (x : Node) (m : Name) : calOf N (x.addWaiting m) = calOf N x := by
  unfold Node.addWaiting; split <;> rfl

theorem addWaiting_lin (k : Name) (x : Node) (m : Name) : linNode inp k (x.addWaiting m) = linNode inp k x := by
  unfold Node.addWaiting; split <;> rfl

theorem registerWaiting_facts (s : Sys) (n : Name) (wf : List Name) :
    L1 N (registerWaiting s n wf) = L1 N s ∧ L2 N (registerWaiting s n wf) = L2 N s ∧
    linS inp N (registerWaiting s n wf) = linS inp N s := by
  refine ⟨?_, ?_, ?_⟩
  · apply cntNone_congr
    intro k
    rw [registerWaiting_nodes]
    cases s.nodes k with
    | none => rfl
    | some x => simp only []; split <;> rfl
  · apply sumF_congr
    intro k
    rw [registerWaiting_nodes]
    cases s.nodes k with
    | none => rfl
    | some x => simp only []; by_cases e : k ∈ wf <;> simp only [e, if_true, if_false, addWaiting_cal]
  · apply sumF_congr
    intro k
    rw [registerWaiting_nodes]
    cases s.nodes k with
    | none => rfl
    | some x => simp only []; by_cases e : k ∈ wf <;> simp only [e, if_true, if_false, addWaiting_lin]

end DoitModel.Run
