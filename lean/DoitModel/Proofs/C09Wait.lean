import DoitModel.Proofs.C09Flight
/-! # C09 — the wait sets are backed by `waiting_me`: an awaited task exists, knows its waiter, and is unfinished or
    still out at the runner; a parked node awaits something; `wait_select` is never set by the built-in runners -/
namespace DoitModel.Run

variable {inp : RunInput}

/-- `_gen_node` has already been called for every member of the list being iterated that is not in `todo` any more -/
def SnapCreated (inp : RunInput) (s : Sys) (n : Name) (nd : Node) : Prop :=
  match nd.pc with
  | .calcIter todo => ∀ d ∈ nd.snapCalc, d ∈ todo ∨ created s d
  | .taskIter todo => ∀ d ∈ nd.snapTask, d ∈ todo ∨ created s d
  | .setupIter todo => ∀ d ∈ inp.setup n, d ∈ todo ∨ created s d
  | _ => True

/-- `w` waits for `d` legitimately -/
def Registered (s : Sys) (w d : Name) : Prop :=
  ∃ x, s.nodes d = some x ∧ w ∈ x.waitingMe ∧ (x.status.finished = false ∨ d ∈ s.dispatched)

structure InvE9 (inp : RunInput) (s : Sys) : Prop where
  nw : ∀ n nd, s.nodes n = some nd → nd.waitSelect = false
  w : ∀ w ∈ s.waiting, ∃ nd, s.nodes w = some nd ∧ (nd.waitRun ≠ [] ∨ nd.waitRunCalc ≠ [])
  sc : ∀ n nd, s.nodes n = some nd → SnapCreated inp s n nd
  e : s.susp ≠ some .crash → ∀ w nd d, s.nodes w = some nd → (d ∈ nd.waitRun ∨ d ∈ nd.waitRunCalc) → Registered s w d

theorem init_invE9 (inp : RunInput) : InvE9 inp (init inp) := by
  refine ⟨?_, ?_, ?_, ?_⟩
  · intro n nd h; simp [init] at h
  · intro w h; simp [init] at h
  · intro n nd h; simp [init] at h
  · intro _ w nd d h; simp [init] at h

theorem SnapCreated.mono {s s' : Sys} {n : Name} {a b : Node} (h : SnapCreated inp s n a) (k : Keeps s s')
    (e1 : b.pc = a.pc) (e2 : b.snapTask = a.snapTask) (e3 : b.snapCalc = a.snapCalc) : SnapCreated inp s' n b := by
  unfold SnapCreated at *
  rw [e1, e2, e3]
  cases hp : a.pc <;> simp only [hp] at h ⊢ <;>
    (intro d hd; rcases h d hd with x | x
     · exact Or.inl x
     · exact Or.inr (k d x))

/-- the fields of a node that the wait-set invariant reads -/
structure SameW (a b : Node) : Prop where
  waitRun : b.waitRun = a.waitRun
  waitRunCalc : b.waitRunCalc = a.waitRunCalc
  waitingMe : b.waitingMe = a.waitingMe
  waitSelect : b.waitSelect = a.waitSelect
  status : b.status = a.status

/-- replace the node of `n` by one with the same wait data (another position of its generator); queues may change
    in the ways `node.step()` changes them -/
theorem invE_setSame {s s' : Sys} {n : Name} {nd x : Node} (h : InvE9 inp s) (hn : s.nodes n = some nd)
    (hx : SameW nd x) (hsc : SnapCreated inp s' n x)
    (hnodes : ∀ k, s'.nodes k = if k = n then some x else s.nodes k)
    (hw : ∀ k ∈ s'.waiting, k ∈ s.waiting ∨ (k = n ∧ (x.waitRun ≠ [] ∨ x.waitRunCalc ≠ [])))
    (hd : ∀ k ∈ s.dispatched, k ∈ s'.dispatched) (hsu : s.susp ≠ some .crash) : InvE9 inp s' := by
  have keeps : Keeps s s' := by
    intro d ⟨y, hy⟩
    show ∃ z, s'.nodes d = some z
    rw [hnodes]; split
    · exact ⟨x, rfl⟩
    · exact ⟨y, hy⟩
  have look : ∀ k y, s'.nodes k = some y → (k = n ∧ y = x) ∨ (k ≠ n ∧ s.nodes k = some y) := by
    intro k y hk
    rw [hnodes] at hk
    split at hk
    · rename_i e; cases hk; exact Or.inl ⟨e, rfl⟩
    · rename_i e; exact Or.inr ⟨e, hk⟩
  refine ⟨?_, ?_, ?_, ?_⟩
  · intro k y hk
    rcases look k y hk with ⟨_, e⟩ | ⟨_, e⟩
    · subst e; rw [hx.waitSelect]; exact h.nw n nd hn
    · exact h.nw k y e
  · intro k hk
    rcases hw k hk with a | ⟨a, b⟩
    · obtain ⟨y, hy, hy2⟩ := h.w k a
      by_cases e : k = n
      · subst e; rw [hn] at hy; cases hy
        exact ⟨x, by rw [hnodes]; simp, by rw [hx.waitRun, hx.waitRunCalc]; exact hy2⟩
      · exact ⟨y, by rw [hnodes]; simp [e, hy], hy2⟩
    · subst a; exact ⟨x, by rw [hnodes]; simp, b⟩
  · intro k y hk
    rcases look k y hk with ⟨e1, e2⟩ | ⟨_, e⟩
    · subst e1; subst e2; exact hsc
    · exact (h.sc k y e).mono keeps rfl rfl rfl
  · intro _ k y d hk hd'
    have old : ∃ y0, s.nodes k = some y0 ∧ (d ∈ y0.waitRun ∨ d ∈ y0.waitRunCalc) := by
      rcases look k y hk with ⟨e1, e2⟩ | ⟨_, e⟩
      · subst e1; subst e2
        exact ⟨nd, hn, by rw [← hx.waitRun, ← hx.waitRunCalc]; exact hd'⟩
      · exact ⟨y, e, hd'⟩
    obtain ⟨y0, hy0, hd0⟩ := old
    obtain ⟨z, hz, hz1, hz2⟩ := h.e hsu k y0 d hy0 hd0
    by_cases e : d = n
    · subst e; rw [hn] at hz; cases hz
      refine ⟨x, by rw [hnodes]; simp, by rw [hx.waitingMe]; exact hz1, ?_⟩
      rcases hz2 with a | a
      · exact Or.inl (by rw [hx.status]; exact a)
      · exact Or.inr (hd d a)
    · refine ⟨z, by rw [hnodes]; simp [e, hz], hz1, ?_⟩
      rcases hz2 with a | a
      · exact Or.inl a
      · exact Or.inr (hd d a)

/-- nodes and `waiting` untouched, `dispatched` only grows -/
theorem InvE9.congr {s s' : Sys} (h : InvE9 inp s) (e1 : s'.nodes = s.nodes) (e2 : s'.waiting = s.waiting)
    (hd : ∀ k ∈ s.dispatched, k ∈ s'.dispatched) (hsu : s.susp ≠ some .crash) : InvE9 inp s' := by
  have keeps : Keeps s s' := Keeps.of_eq e1
  refine ⟨?_, ?_, ?_, ?_⟩
  · intro k y hk; rw [e1] at hk; exact h.nw k y hk
  · intro k hk; rw [e2] at hk; rw [e1]; exact h.w k hk
  · intro k y hk; rw [e1] at hk; exact (h.sc k y hk).mono keeps rfl rfl rfl
  · intro _ k y d hk hd'
    rw [e1] at hk
    obtain ⟨z, hz, hz1, hz2⟩ := h.e hsu k y d hk hd'
    refine ⟨z, by rw [e1]; exact hz, hz1, ?_⟩
    rcases hz2 with a | a
    · exact Or.inl a
    · exact Or.inr (hd d a)

/-- a new node (`ExecNode(task, parent)`) appears -/
theorem invE_create {s s' : Sys} {t : Name} (anc : List Name) (h : InvE9 inp s) (ht : s.nodes t = none)
    (hnodes : ∀ k, s'.nodes k = if k = t then some (mkNode inp t anc) else s.nodes k)
    (hw : ∀ k ∈ s'.waiting, k ∈ s.waiting) (hd : ∀ k ∈ s.dispatched, k ∈ s'.dispatched)
    (hsu : s.susp ≠ some .crash) : InvE9 inp s' := by
  have keeps : Keeps s s' := by
    intro d ⟨y, hy⟩
    show ∃ z, s'.nodes d = some z
    rw [hnodes]; split
    · exact ⟨_, rfl⟩
    · exact ⟨y, hy⟩
  have look : ∀ k y, s'.nodes k = some y → (k = t ∧ y = mkNode inp t anc) ∨ (k ≠ t ∧ s.nodes k = some y) := by
    intro k y hk
    rw [hnodes] at hk
    split at hk
    · rename_i e; cases hk; exact Or.inl ⟨e, rfl⟩
    · rename_i e; exact Or.inr ⟨e, hk⟩
  refine ⟨?_, ?_, ?_, ?_⟩
  · intro k y hk
    rcases look k y hk with ⟨_, e⟩ | ⟨_, e⟩
    · subst e; rfl
    · exact h.nw k y e
  · intro k hk
    obtain ⟨y, hy, hy2⟩ := h.w k (hw k hk)
    have : k ≠ t := by intro e; subst e; rw [ht] at hy; cases hy
    exact ⟨y, by rw [hnodes]; simp [this, hy], hy2⟩
  · intro k y hk
    rcases look k y hk with ⟨_, e⟩ | ⟨_, e⟩
    · subst e; simp [SnapCreated, mkNode]
    · exact (h.sc k y e).mono keeps rfl rfl rfl
  · intro _ k y d hk hd'
    rcases look k y hk with ⟨_, e⟩ | ⟨_, e⟩
    · subst e; simp [mkNode] at hd'
    · obtain ⟨z, hz, hz1, hz2⟩ := h.e hsu k y d e hd'
      have : d ≠ t := by intro e'; subst e'; rw [ht] at hz; cases hz
      refine ⟨z, by rw [hnodes]; simp [this, hz], hz1, ?_⟩
      rcases hz2 with a | a
      · exact Or.inl a
      · exact Or.inr (hd d a)

theorem sameW_pc (nd : Node) (pc' : PC) : SameW nd { nd with pc := pc' } := ⟨rfl, rfl, rfl, rfl, rfl⟩

/-- `yield self._gen_node(node = n, d)` -/
theorem invE_genStep {s : Sys} {n : Name} {nd : Node} (d : Name) (pc' : PC) (h : InvE9 inp s)
    (hn : s.nodes n = some nd) (hsu : s.susp = none)
    (hsc : ∀ s', Keeps s s' → created s' d → SnapCreated inp s' n { nd with pc := pc' }) :
    InvE9 inp (genStep inp s n nd d pc') := by
  have hcr : s.susp ≠ some .crash := by rw [hsu]; simp
  unfold genStep
  cases hdn : s.nodes d with
  | none =>
    simp only []
    have hne : n ≠ d := by intro e; subst e; rw [hn] at hdn; cases hdn
    have h1 : InvE9 inp (setNode s d (mkNode inp d (nd.anc ++ [d]))) :=
      invE_create (nd.anc ++ [d]) h hdn (fun k => rfl) (fun k a => a) (fun k a => a) hcr
    have hn1 : (setNode s d (mkNode inp d (nd.anc ++ [d]))).nodes n = some nd := by simp [hne, hn]
    refine invE_setSame h1 hn1 (sameW_pc nd pc') ?_ (fun k => rfl) (fun k a => Or.inl a) (fun k a => a)
      (by simp [setNode]; exact hcr)
    apply hsc
    · intro k ⟨y, hy⟩
      show ∃ z, (if k = n then _ else if k = d then _ else s.nodes k) = some z
      split
      · exact ⟨_, rfl⟩
      · split
        · exact ⟨_, rfl⟩
        · exact ⟨y, hy⟩
    · show ∃ z, (if d = n then _ else if d = d then _ else s.nodes d) = some z
      split
      · exact ⟨_, rfl⟩
      · simp
  | some y =>
    simp only []
    split
    · exact h.congr rfl rfl (fun k a => a) hcr
    · refine invE_setSame h hn (sameW_pc nd pc') ?_ (fun k => rfl) (fun k a => Or.inl a) (fun k a => a) hcr
      apply hsc
      · exact keeps_setNode _
      · show ∃ z, (if d = n then _ else s.nodes d) = some z
        split
        · exact ⟨_, rfl⟩
        · exact ⟨y, hdn⟩

theorem addWaiting_same (x : Node) (m : Name) :
    (x.addWaiting m).waitRun = x.waitRun ∧ (x.addWaiting m).waitRunCalc = x.waitRunCalc ∧
    (x.addWaiting m).waitSelect = x.waitSelect ∧ (x.addWaiting m).status = x.status ∧
    (x.addWaiting m).pc = x.pc ∧ (x.addWaiting m).snapTask = x.snapTask ∧ (x.addWaiting m).snapCalc = x.snapCalc ∧
    (∀ k, k ∈ x.waitingMe → k ∈ (x.addWaiting m).waitingMe) ∧ m ∈ (x.addWaiting m).waitingMe := by
  unfold Node.addWaiting
  split
  · rename_i h; exact ⟨rfl, rfl, rfl, rfl, rfl, rfl, rfl, fun k a => a, h⟩
  · exact ⟨rfl, rfl, rfl, rfl, rfl, rfl, rfl, fun k a => by simp [a], by simp⟩

/-- what `_node_add_wait_run` leaves in the node, as far as the wait data go -/
theorem waitNode_wait (inp : RunInput) (s : Sys) (nd : Node) (ds : List Name) (c : Bool) (pc' : PC) :
    (∀ d, d ∈ (waitNode inp s nd ds c pc').waitRun → d ∈ nd.waitRun ∨ (c = false ∧ d ∈ ds.filter (unfinished s))) ∧
    (∀ d, d ∈ (waitNode inp s nd ds c pc').waitRunCalc →
      d ∈ nd.waitRunCalc ∨ (c = true ∧ d ∈ ds.filter (unfinished s))) ∧
    (∀ d, d ∈ nd.waitRun → d ∈ (waitNode inp s nd ds c pc').waitRun) ∧
    (∀ d, d ∈ nd.waitRunCalc → d ∈ (waitNode inp s nd ds c pc').waitRunCalc) ∧
    (waitNode inp s nd ds c pc').waitingMe = nd.waitingMe := by
  obtain ⟨g, _, _⟩ := absorbDone_spec inp s c ds nd
  cases c with
  | false =>
    refine ⟨?_, ?_, ?_, ?_, ?_⟩
    · intro d hd
      simp only [waitNode, addWaits, Bool.false_eq_true, if_false, List.mem_append] at hd
      rcases hd with a | a
      · exact Or.inr ⟨rfl, a⟩
      · exact Or.inl (by rw [← g.waitRun]; exact a)
    · intro d hd
      simp only [waitNode, addWaits, Bool.false_eq_true, if_false] at hd
      exact Or.inl (by rw [← g.waitRunCalc]; exact hd)
    · intro d hd; simp [waitNode, addWaits, g.waitRun, hd]
    · intro d hd; simp [waitNode, addWaits, g.waitRunCalc, hd]
    · simp [waitNode, addWaits, g.waitingMe]
  | true =>
    refine ⟨?_, ?_, ?_, ?_, ?_⟩
    · intro d hd
      simp only [waitNode, addWaits, if_true] at hd
      exact Or.inl (by rw [← g.waitRun]; exact hd)
    · intro d hd
      simp only [waitNode, addWaits, if_true, List.mem_append] at hd
      rcases hd with a | a
      · exact Or.inr ⟨rfl, a⟩
      · exact Or.inl (by rw [← g.waitRunCalc]; exact a)
    · intro d hd; simp [waitNode, addWaits, g.waitRun, hd]
    · intro d hd; simp [waitNode, addWaits, g.waitRunCalc, hd]
    · simp [waitNode, addWaits, g.waitingMe]

/-- `_node_add_wait_run(node = n, ds, calc)` when every member of `ds` has a node -/
theorem invE_addWaitRun {s : Sys} {n : Name} {nd : Node} (ds : List Name) (c : Bool) (pc' : PC) (h : InvE9 inp s)
    (hn : s.nodes n = some nd) (hsu : s.susp = none) (hnw : n ∉ s.waiting) (hcre : ∀ d ∈ ds, created s d)
    (hsc : ∀ s' x, Keeps s s' → x.pc = pc' → x.snapTask = nd.snapTask → x.snapCalc = nd.snapCalc →
      SnapCreated inp s' n x) :
    InvE9 inp (addWaitRun inp s n nd ds c pc') := by
  have hcr : s.susp ≠ some .crash := by rw [hsu]; simp
  obtain ⟨w1, w2, w3, w4, w5⟩ := waitNode_wait inp s nd ds c pc'
  have wf := waitNode_facts inp s nd ds c pc'
  -- abbreviations
  generalize hx : waitNode inp s nd ds c pc' = x at w1 w2 w3 w4 w5 wf
  have hs' : addWaitRun inp s n nd ds c pc' = registerWaiting (setNode s n x) n (ds.filter (unfinished s)) := by
    unfold addWaitRun; rw [← hx]; rfl
  rw [hs']
  have nodes' : ∀ k, (registerWaiting (setNode s n x) n (ds.filter (unfinished s))).nodes k =
      match (if k = n then some x else s.nodes k) with
      | some y => if k ∈ ds.filter (unfinished s) then some (y.addWaiting n) else some y
      | none => none := by
    intro k; rw [registerWaiting_nodes]; rfl
  -- the node stored at `k` afterwards, in terms of the node before
  have look : ∀ k y', (registerWaiting (setNode s n x) n (ds.filter (unfinished s))).nodes k = some y' →
      ∃ y, (if k = n then some x else s.nodes k) = some y ∧ (y' = y ∨ y' = y.addWaiting n) := by
    intro k y' hk
    rw [nodes'] at hk
    cases hy : (if k = n then some x else s.nodes k) with
    | none => rw [hy] at hk; cases hk
    | some y =>
      rw [hy] at hk; simp only [] at hk
      split at hk
      · exact ⟨y, rfl, Or.inr (by cases hk; rfl)⟩
      · exact ⟨y, rfl, Or.inl (by cases hk; rfl)⟩
  have keeps : Keeps s (registerWaiting (setNode s n x) n (ds.filter (unfinished s))) :=
    (keeps_setNode (s := s) (n := n) x).trans (keeps_registerWaiting _ _ _)
  -- existing node `d` afterwards: same status, larger `waitingMe`; it knows `n` if `d` is in the new wait list
  have after : ∀ d z, s.nodes d = some z → ∃ z', (registerWaiting (setNode s n x) n (ds.filter (unfinished s))).nodes d
      = some z' ∧ z'.status = z.status ∧ (∀ k, k ∈ z.waitingMe → k ∈ z'.waitingMe) ∧
      (d ∈ ds.filter (unfinished s) → n ∈ z'.waitingMe) := by
    intro d z hz
    have base : ∃ y, (if d = n then some x else s.nodes d) = some y ∧ y.status = z.status ∧
        y.waitingMe = z.waitingMe := by
      by_cases e : d = n
      · subst e; rw [hn] at hz; cases hz
        exact ⟨x, by simp, wf.status, w5⟩
      · exact ⟨z, by simp [e, hz], rfl, rfl⟩
    obtain ⟨y, hy, hy1, hy2⟩ := base
    rw [nodes', hy]; simp only []
    obtain ⟨a1, a2, a3, a4, a5, a6, a7, a8, a9⟩ := addWaiting_same y n
    split
    · exact ⟨_, rfl, by rw [a4, hy1], fun k hk => a8 k (by rw [hy2]; exact hk), fun _ => a9⟩
    · rename_i hnot
      exact ⟨_, rfl, hy1, fun k hk => by rw [hy2]; exact hk, fun hin => absurd hin hnot⟩
  refine ⟨?_, ?_, ?_, ?_⟩
  · intro k y' hk
    obtain ⟨y, hy, hyy⟩ := look k y' hk
    have base : y.waitSelect = false := by
      by_cases e : k = n
      · subst e; simp at hy; subst hy; rw [wf.waitSelect]; exact h.nw k nd hn
      · simp [e] at hy; exact h.nw k y hy
    rcases hyy with e | e
    · rw [e]; exact base
    · rw [e, (addWaiting_same y n).2.2.1]; exact base
  · intro k hk
    have hk' : k ∈ s.waiting := by simpa [registerWaiting, setNode] using hk
    obtain ⟨y0, hy0, hy2⟩ := h.w k hk'
    have hkn : k ≠ n := fun e => hnw (e ▸ hk')
    have hy : (if k = n then some x else s.nodes k) = some y0 := by simp [hkn, hy0]
    rw [nodes', hy]; simp only []
    obtain ⟨a1, a2, _⟩ := addWaiting_same y0 n
    split
    · exact ⟨_, rfl, by rw [a1, a2]; exact hy2⟩
    · exact ⟨_, rfl, hy2⟩
  · intro k y' hk
    obtain ⟨y, hy, hyy⟩ := look k y' hk
    obtain ⟨a1, a2, a3, a4, a5, a6, a7, _⟩ := addWaiting_same y n
    by_cases e : k = n
    · subst e; simp at hy; subst hy
      rcases hyy with e' | e'
      · rw [e']; exact hsc _ _ keeps wf.pc wf.snapTask wf.snapCalc
      · rw [e']; exact hsc _ _ keeps (by rw [a5]; exact wf.pc) (by rw [a6]; exact wf.snapTask)
          (by rw [a7]; exact wf.snapCalc)
    · simp [e] at hy
      rcases hyy with e' | e'
      · rw [e']; exact (h.sc k y hy).mono keeps rfl rfl rfl
      · rw [e']; exact (h.sc k y hy).mono keeps a5 a6 a7
  · intro _ k y' d hk hd'
    obtain ⟨y, hy, hyy⟩ := look k y' hk
    have hdy : d ∈ y.waitRun ∨ d ∈ y.waitRunCalc := by
      rcases hyy with e | e
      · rw [e] at hd'; exact hd'
      · rw [e, (addWaiting_same y n).1, (addWaiting_same y n).2.1] at hd'; exact hd'
    -- old entry, or one of the new ones of `n`
    have cases3 : (∃ y0, s.nodes k = some y0 ∧ (d ∈ y0.waitRun ∨ d ∈ y0.waitRunCalc)) ∨
        (k = n ∧ d ∈ ds.filter (unfinished s)) := by
      by_cases e : k = n
      · subst e; simp at hy; subst hy
        rcases hdy with a | a
        · rcases w1 d a with b | ⟨_, b⟩
          · exact Or.inl ⟨nd, hn, Or.inl b⟩
          · exact Or.inr ⟨rfl, b⟩
        · rcases w2 d a with b | ⟨_, b⟩
          · exact Or.inl ⟨nd, hn, Or.inr b⟩
          · exact Or.inr ⟨rfl, b⟩
      · simp [e] at hy; exact Or.inl ⟨y, hy, hdy⟩
    rcases cases3 with ⟨y0, hy0, hd0⟩ | ⟨e, hin⟩
    · obtain ⟨z, hz, hz1, hz2⟩ := h.e hcr k y0 d hy0 hd0
      obtain ⟨z', hz', st', wm', _⟩ := after d z hz
      refine ⟨z', hz', wm' k hz1, ?_⟩
      rcases hz2 with a | a
      · exact Or.inl (by rw [st']; exact a)
      · exact Or.inr (by simpa [registerWaiting, setNode] using a)
    · subst e
      have hd1 := (List.mem_filter.mp hin)
      obtain ⟨z, hz⟩ := hcre d hd1.1
      obtain ⟨z', hz', st', _, reg'⟩ := after d z hz
      refine ⟨z', hz', reg' hin, Or.inl ?_⟩
      rw [st']
      have : unfinished s d = true := hd1.2
      simpa [unfinished, stOf, hz] using this

/-! ### `_update_waiting` -/

theorem wokenNode_waitingMe (inp : RunInput) (pst : RS) (p : Name) (w : Node) :
    (wokenNode inp pst p w).waitingMe = w.waitingMe := by
  unfold wokenNode deliver
  split
  · split <;> simp [Node.addDeps, parentStatus]
  · simp [parentStatus]

/-- what `_update_waiting` may do to the nodes and to `waiting` -/
structure RelW (s s' : Sys) : Prop where
  none : ∀ k, s.nodes k = none → s'.nodes k = none
  node : ∀ k y, s.nodes k = some y → ∃ y', s'.nodes k = some y' ∧ y'.waitingMe = y.waitingMe ∧
    y'.status = y.status ∧ y'.waitSelect = y.waitSelect ∧ y'.pc = y.pc ∧ y'.snapTask = y.snapTask ∧
    y'.snapCalc = y.snapCalc ∧ (∀ d, d ∈ y'.waitRun → d ∈ y.waitRun) ∧ (∀ d, d ∈ y'.waitRunCalc → d ∈ y.waitRunCalc)
  wait : ∀ k ∈ s'.waiting, k ∈ s.waiting ∧ ∀ y y', s.nodes k = some y → s'.nodes k = some y' →
    (y.waitRun ≠ [] ∨ y.waitRunCalc ≠ []) → (y'.waitRun ≠ [] ∨ y'.waitRunCalc ≠ [])
  disp : s'.dispatched = s.dispatched

theorem RelW.refl (s : Sys) : RelW s s :=
  ⟨fun _ a => a, fun k y a => ⟨y, a, rfl, rfl, rfl, rfl, rfl, rfl, fun _ b => b, fun _ b => b⟩,
   fun k a => ⟨a, fun y y' e1 e2 b => by rw [e1] at e2; cases e2; exact b⟩, rfl⟩

theorem RelW.trans {a b c : Sys} (h1 : RelW a b) (h2 : RelW b c) : RelW a c := by
  refine ⟨fun k x => h2.none k (h1.none k x), ?_, ?_, h2.disp.trans h1.disp⟩
  · intro k y hy
    obtain ⟨y1, e1, a1, a2, a3, a4, a5, a6, a7, a8⟩ := h1.node k y hy
    obtain ⟨y2, e2, b1, b2, b3, b4, b5, b6, b7, b8⟩ := h2.node k y1 e1
    exact ⟨y2, e2, b1.trans a1, b2.trans a2, b3.trans a3, b4.trans a4, b5.trans a5, b6.trans a6,
      fun d x => a7 d (b7 d x), fun d x => a8 d (b8 d x)⟩
  · intro k hk
    obtain ⟨k1, f1⟩ := h2.wait k hk
    obtain ⟨k0, f0⟩ := h1.wait k k1
    refine ⟨k0, ?_⟩
    intro y y' e e' ne
    obtain ⟨y1, e1, _⟩ := h1.node k y e
    exact f1 y1 y' e1 e' (f0 y y1 e e1 ne)

theorem wakeOne_relW (inp : RunInput) (s : Sys) (pst : RS) (p w : Name) (nd : Node) (hw : s.nodes w = some nd) :
    RelW s (wakeOne inp s pst p w nd) ∧
    (∀ y', (wakeOne inp s pst p w nd).nodes w = some y' → p ∉ y'.waitRun ∧ p ∉ y'.waitRunCalc) := by
  have u := wokenF_upd inp s pst p nd
  have gw := wokenF_grow inp s pst p nd
  have wm := gw.waitingMe.trans (wokenNode_waitingMe inp pst p nd)
  -- `p` is gone from both sets of the woken node
  have gone : p ∉ (wokenF inp s pst p nd).waitRun ∧ p ∉ (wokenF inp s pst p nd).waitRunCalc := by
    rw [gw.waitRun, gw.waitRunCalc]
    unfold wokenNode deliver
    split
    · split <;> simp [Node.addDeps, parentStatus]
    · rename_i hnc
      refine ⟨by simp [parentStatus], ?_⟩
      simpa [parentStatus] using hnc
  have nodes' : ∀ k, (wakeOne inp s pst p w nd).nodes k = if k = w then some (wokenF inp s pst p nd) else s.nodes k := by
    intro k; unfold wakeOne; split <;> rfl
  have hnode : ∀ k y, s.nodes k = some y → ∃ y', (wakeOne inp s pst p w nd).nodes k = some y' ∧
      y'.waitingMe = y.waitingMe ∧ y'.status = y.status ∧ y'.waitSelect = y.waitSelect ∧ y'.pc = y.pc ∧
      y'.snapTask = y.snapTask ∧ y'.snapCalc = y.snapCalc ∧ (∀ d, d ∈ y'.waitRun → d ∈ y.waitRun) ∧
      (∀ d, d ∈ y'.waitRunCalc → d ∈ y.waitRunCalc) := by
    intro k y hy
    by_cases e : k = w
    · subst e; rw [hw] at hy; cases hy
      exact ⟨_, by rw [nodes']; simp, wm, u.status, u.waitSelect, u.pc, u.snapTask, u.snapCalc, u.wr', u.wc'⟩
    · exact ⟨y, by rw [nodes']; simp [e, hy], rfl, rfl, rfl, rfl, rfl, rfl, fun _ b => b, fun _ b => b⟩
  refine ⟨⟨?_, hnode, ?_, ?_⟩, ?_⟩
  · intro k hk
    rw [nodes']
    have : k ≠ w := by intro e; subst e; rw [hw] at hk; cases hk
    simp [this, hk]
  · intro k hk
    have hk0 : k ∈ s.waiting ∧ (k = w → ¬ wokenReady p nd = true) := by
      unfold wakeOne at hk; split at hk
      · have := List.mem_filter.mp (show k ∈ s.waiting.filter (· ≠ w) from hk)
        exact ⟨this.1, fun e => absurd e (by simpa using this.2)⟩
      · rename_i hcond
        have hk' : k ∈ s.waiting := hk
        exact ⟨hk', fun e r => hcond ⟨r, e ▸ hk'⟩⟩
    refine ⟨hk0.1, ?_⟩
    intro y y' e e' ne
    rw [nodes'] at e'
    by_cases ekw : k = w
    · subst ekw
      simp only [if_true, Option.some.injEq] at e'
      subst e'
      rw [hw] at e; cases e
      have nr := hk0.2 rfl
      unfold wokenReady at nr
      rw [gw.waitRun, gw.waitRunCalc]
      unfold wokenNode
      split
      · rename_i hc; simp [hc] at nr
      · rename_i hc
        simp only [hc, if_false, Bool.and_eq_true, List.isEmpty_iff, not_and] at nr
        by_cases e1 : List.filter (fun x => decide (x ≠ p)) nd.waitRun = []
        · right; simpa [parentStatus] using nr e1
        · left; simpa [parentStatus] using e1
    · simp only [ekw, if_false] at e'
      rw [e] at e'; cases e'; exact ne
  · unfold wakeOne; split <;> rfl
  · intro y' hy'
    rw [nodes'] at hy'; simp at hy'; subst hy'; exact gone

theorem updateWaiting_relW (inp : RunInput) (pst : RS) (p : Name) :
    ∀ (perm : List Name) (s s' : Sys), updateWaiting inp pst p s perm = some s' →
      RelW s s' ∧ ∀ k ∈ perm, ∀ y', s'.nodes k = some y' → p ∉ y'.waitRun ∧ p ∉ y'.waitRunCalc := by
  intro perm
  induction perm with
  | nil => intro s s' hs; simp only [updateWaiting] at hs; cases hs; exact ⟨RelW.refl s, fun k a => by cases a⟩
  | cons w ws ih =>
    intro s s' hs
    simp only [updateWaiting] at hs
    cases hw : s.nodes w with
    | none =>
      simp only [hw] at hs
      obtain ⟨r, g⟩ := ih s s' hs
      refine ⟨r, ?_⟩
      intro k hk y' hy'
      rcases List.mem_cons.mp hk with e | e
      · subst e; rw [r.none k hw] at hy'; cases hy'
      · exact g k e y' hy'
    | some nd =>
      simp only [hw] at hs
      split at hs
      · cases hs
      · obtain ⟨r1, g1⟩ := wakeOne_relW inp s pst p w nd hw
        obtain ⟨r2, g2⟩ := ih _ s' hs
        refine ⟨r1.trans r2, ?_⟩
        intro k hk y' hy'
        rcases List.mem_cons.mp hk with e | e
        · subst e
          obtain ⟨y1, e1, _⟩ := r1.node k nd hw
          obtain ⟨y2, e2, _, _, _, _, _, _, b7, b8⟩ := r2.node k y1 e1
          rw [e2] at hy'; cases hy'
          have := g1 y1 e1
          exact ⟨fun a => this.1 (b7 p a), fun a => this.2 (b8 p a)⟩
        · exact g2 k e y' hy'

theorem InvE9.rpc {s : Sys} (h : InvE9 inp s) (r : RPC) : InvE9 inp { s with rpc := r } :=
  ⟨h.nw, h.w, h.sc, h.e⟩

/-- the generator crashed: only the structural part of the invariant is claimed -/
theorem InvE9.crashed {s s' : Sys} (h : InvE9 inp s) (e1 : s'.nodes = s.nodes) (e2 : s'.waiting = s.waiting)
    (e3 : s'.susp = some .crash) : InvE9 inp s' := by
  refine ⟨?_, ?_, ?_, fun a => absurd e3 a⟩
  · intro k y hk; rw [e1] at hk; exact h.nw k y hk
  · intro k hk; rw [e2] at hk; rw [e1]; exact h.w k hk
  · intro k y hk; rw [e1] at hk; exact (h.sc k y hk).mono (Keeps.of_eq e1) rfl rfl rfl

theorem sendHead_eq (s : Sys) (p : Name) (nd : Node) (h : nd.waitSelect = false) :
    sendHead s p nd = { s with dispatched := s.dispatched.filter (· ≠ p) } := by
  unfold sendHead; simp [h]

theorem invE_send {s s0 : Sys} {node : Option Name} {perm : List Name} (h : InvE9 inp s)
    (hcr : s.susp ≠ some .crash) (hs : send inp s node perm = some s0) : InvE9 inp s0 := by
  unfold send at hs
  cases node with
  | none =>
    cases hs
    exact ⟨h.nw, h.w, h.sc, fun _ => h.e hcr⟩
  | some p =>
    simp only [] at hs
    cases hn : s.nodes p with
    | none => simp only [hn] at hs; cases hs; exact h.crashed rfl rfl rfl
    | some nd =>
      simp only [hn] at hs
      have hws := h.nw p nd hn
      have hsh := sendHead_eq s p nd hws
      -- the state after the head of `_update_waiting`
      have h1 : InvE9 inp (sendHead s p nd) ∨ nd.status ≠ .run := by
        by_cases hr : nd.status = .run
        · left
          rw [hsh]
          refine ⟨h.nw, h.w, h.sc, ?_⟩
          intro _ k y d hk hd
          obtain ⟨z, hz, hz1, hz2⟩ := h.e hcr k y d hk hd
          refine ⟨z, hz, hz1, ?_⟩
          by_cases e : d = p
          · subst e; rw [hn] at hz; cases hz; left; rw [hr]; rfl
          · rcases hz2 with a | a
            · exact Or.inl a
            · exact Or.inr (List.mem_filter.mpr ⟨a, by simpa using e⟩)
        · exact Or.inr hr
      split at hs
      · cases hs; exact h.crashed rfl rfl rfl
      · split at hs
        · rename_i hrun
          cases hs
          rcases h1 with a | a
          · exact ⟨a.nw, a.w, a.sc, fun _ => a.e (by rw [hsh]; exact hcr)⟩
          · exact absurd hrun a
        · split at hs
          · rename_i hperm
            cases hu : updateWaiting inp nd.status p (sendHead s p nd) perm with
            | none =>
              simp only [hu] at hs; cases hs
              rw [hsh]; exact h.crashed rfl rfl rfl
            | some s2 =>
              simp only [hu] at hs; cases hs
              obtain ⟨r, gone⟩ := updateWaiting_relW inp nd.status p perm _ s2 hu
              rw [hsh] at r
              -- preimage of a node of `s2`
              have pre : ∀ k y', s2.nodes k = some y' → ∃ y, s.nodes k = some y ∧ y'.waitingMe = y.waitingMe ∧
                  y'.status = y.status ∧ y'.waitSelect = y.waitSelect ∧ y'.pc = y.pc ∧ y'.snapTask = y.snapTask ∧
                  y'.snapCalc = y.snapCalc ∧ (∀ d, d ∈ y'.waitRun → d ∈ y.waitRun) ∧
                  (∀ d, d ∈ y'.waitRunCalc → d ∈ y.waitRunCalc) := by
                intro k y' hk
                cases hy : s.nodes k with
                | none => rw [r.none k hy] at hk; cases hk
                | some y =>
                  obtain ⟨y2, e2, rest⟩ := r.node k y hy
                  rw [e2] at hk; cases hk
                  exact ⟨y, rfl, rest⟩
              have keeps : Keeps s s2 := by
                intro d ⟨y, hy⟩
                obtain ⟨y2, e2, _⟩ := r.node d y hy
                exact ⟨y2, e2⟩
              have hdisp : s2.dispatched = s.dispatched.filter (· ≠ p) := r.disp
              refine ⟨?_, ?_, ?_, ?_⟩
              · intro k y' hk
                obtain ⟨y, hy, _, _, a3, _⟩ := pre k y' hk
                rw [a3]; exact h.nw k y hy
              · intro k hk
                obtain ⟨k0, f0⟩ := r.wait k hk
                obtain ⟨y, hy, ne⟩ := h.w k k0
                obtain ⟨y2, e2, _⟩ := r.node k y hy
                exact ⟨y2, e2, f0 y y2 hy e2 ne⟩
              · intro k y' hk
                obtain ⟨y, hy, _, _, _, a4, a5, a6, _⟩ := pre k y' hk
                exact (h.sc k y hy).mono keeps a4 a5 a6
              · intro _ k y' d hk hd
                obtain ⟨y, hy, _, _, _, _, _, _, a7, a8⟩ := pre k y' hk
                have hd0 : d ∈ y.waitRun ∨ d ∈ y.waitRunCalc := by
                  rcases hd with a | a
                  · exact Or.inl (a7 d a)
                  · exact Or.inr (a8 d a)
                obtain ⟨z, hz, hz1, hz2⟩ := h.e hcr k y d hy hd0
                by_cases e : d = p
                · subst e
                  rw [hn] at hz; cases hz
                  have hkp : k ∈ perm := hperm.mem_iff.mpr hz1
                  have := gone k hkp y' hk
                  rcases hd with a | a
                  · exact absurd a this.1
                  · exact absurd a this.2
                · obtain ⟨z2, ez2, b1, b2, _⟩ := r.node d z hz
                  refine ⟨z2, ez2, by rw [b1]; exact hz1, ?_⟩
                  rcases hz2 with a | a
                  · exact Or.inl (by rw [b2]; exact a)
                  · exact Or.inr (by
                      show d ∈ s2.dispatched
                      rw [hdisp]; exact List.mem_filter.mpr ⟨a, by simpa using e⟩)
          · cases hs

/-- nodes, `waiting`, `dispatched`, `susp` untouched -/
theorem InvE9.frame {s s' : Sys} (h : InvE9 inp s) (e1 : s'.nodes = s.nodes) (e2 : s'.waiting = s.waiting)
    (e3 : s'.dispatched = s.dispatched) (e4 : s'.susp = s.susp) : InvE9 inp s' := by
  refine ⟨?_, ?_, ?_, ?_⟩
  · intro k y hk; rw [e1] at hk; exact h.nw k y hk
  · intro k hk; rw [e2] at hk; rw [e1]; exact h.w k hk
  · intro k y hk; rw [e1] at hk; exact (h.sc k y hk).mono (Keeps.of_eq e1) rfl rfl rfl
  · intro c k y d hk hd
    rw [e1] at hk
    obtain ⟨z, hz, hz1, hz2⟩ := h.e (e4 ▸ c) k y d hk hd
    exact ⟨z, by rw [e1]; exact hz, hz1, by rw [e3]; exact hz2⟩

/-- the runner sets the status of a node that is out at the runner -/
theorem invE_status {s s' : Sys} {n : Name} {nd : Node} (st' : RS) (h : InvE9 inp s) (hn : s.nodes n = some nd)
    (hdn : n ∈ s.dispatched) (e1 : s'.nodes = (setNode s n { nd with status := st' }).nodes)
    (e2 : s'.waiting = s.waiting) (e3 : s'.dispatched = s.dispatched) (e4 : s'.susp = s.susp) : InvE9 inp s' := by
  have hnodes : ∀ k, s'.nodes k = if k = n then some { nd with status := st' } else s.nodes k := by
    intro k; rw [e1]; rfl
  have keeps : Keeps s s' := by
    intro d ⟨y, hy⟩
    show ∃ z, s'.nodes d = some z
    rw [hnodes]; split
    · exact ⟨_, rfl⟩
    · exact ⟨y, hy⟩
  have look : ∀ k y, s'.nodes k = some y → ∃ y0, s.nodes k = some y0 ∧ y.waitRun = y0.waitRun ∧
      y.waitRunCalc = y0.waitRunCalc ∧ y.waitSelect = y0.waitSelect ∧ y.pc = y0.pc ∧ y.snapTask = y0.snapTask ∧
      y.snapCalc = y0.snapCalc := by
    intro k y hk
    rw [hnodes] at hk
    split at hk
    · rename_i e; cases hk; subst e; exact ⟨nd, hn, rfl, rfl, rfl, rfl, rfl, rfl⟩
    · exact ⟨y, hk, rfl, rfl, rfl, rfl, rfl, rfl⟩
  refine ⟨?_, ?_, ?_, ?_⟩
  · intro k y hk
    obtain ⟨y0, hy0, _, _, a3, _⟩ := look k y hk
    rw [a3]; exact h.nw k y0 hy0
  · intro k hk
    rw [e2] at hk
    obtain ⟨y0, hy0, ne⟩ := h.w k hk
    by_cases e : k = n
    · subst e; rw [hn] at hy0; cases hy0
      exact ⟨{ nd with status := st' }, by rw [hnodes]; simp, ne⟩
    · exact ⟨y0, by rw [hnodes]; simp [e, hy0], ne⟩
  · intro k y hk
    obtain ⟨y0, hy0, _, _, _, a4, a5, a6⟩ := look k y hk
    exact (h.sc k y0 hy0).mono keeps a4 a5 a6
  · intro c k y d hk hd
    obtain ⟨y0, hy0, a1, a2, _⟩ := look k y hk
    rw [a1, a2] at hd
    obtain ⟨z, hz, hz1, hz2⟩ := h.e (e4 ▸ c) k y0 d hy0 hd
    by_cases e : d = n
    · subst e; rw [hn] at hz; cases hz
      exact ⟨{ nd with status := st' }, by rw [hnodes]; simp, hz1, Or.inr (by rw [e3]; exact hdn)⟩
    · exact ⟨z, by rw [hnodes]; simp [e, hz], hz1, by rw [e3]; exact hz2⟩

/-- one step of `node.step()` for the current node -/
theorem nodeStep_invE {s s' : Sys} {n : Name} {nd : Node} {perm : List Name} (h : InvE9 inp s)
    (hn : s.nodes n = some nd) (hsu : s.susp = none) (hnw : n ∉ s.waiting)
    (ha4 : nd.pc.yielded1 = true → nd.status ≠ .none)
    (hs : nodeStep inp s n nd perm = some s') : InvE9 inp s' := by
  have hcr : s.susp ≠ some .crash := by rw [hsu]; simp
  have hsc := h.sc n nd hn
  have plain : ∀ (pc' : PC), SnapCreated inp (setNode s n { nd with pc := pc' }) n { nd with pc := pc' } →
      InvE9 inp (setNode s n { nd with pc := pc' }) := fun pc' c =>
    invE_setSame h hn (sameW_pc nd pc') c (fun k => rfl) (fun k a => Or.inl a) (fun k a => a) hcr
  unfold nodeStep at hs
  cases hpc : nd.pc with
  | loopTop =>
    simp only [hpc] at hs; split at hs
    · cases hs
      refine invE_setSame (x := { nd with snapCalc := perm, pendCalc := [], snapTask := nd.pendTask, pendTask := [], pc := .calcIter perm }) h hn ⟨rfl, rfl, rfl, rfl, rfl⟩ ?_ (fun k => rfl) (fun k a => Or.inl a) (fun k a => a) hcr
      simp only [SnapCreated]; intro d hd; exact Or.inl hd
    · cases hs
  | calcIter todo =>
    simp only [hpc] at hs
    unfold SnapCreated at hsc; simp only [hpc] at hsc
    cases todo with
    | cons d ds =>
      cases hs
      refine invE_genStep d _ h hn hsu ?_
      intro s2 k cd
      simp only [SnapCreated]
      intro x hx
      rcases hsc x hx with a | a
      · rcases List.mem_cons.mp a with b | b
        · subst b; exact Or.inr cd
        · exact Or.inl b
      · exact Or.inr (k x a)
    | nil =>
      cases hs
      refine invE_addWaitRun _ _ _ h hn hsu hnw ?_ ?_
      · intro d hd; rcases hsc d hd with a | a
        · cases a
        · exact a
      · intro s2 x _ e1 e2 _
        unfold SnapCreated; rw [e1]; simp only []
        intro d hd; rw [e2] at hd; exact Or.inl hd
  | taskIter todo =>
    simp only [hpc] at hs
    unfold SnapCreated at hsc; simp only [hpc] at hsc
    cases todo with
    | cons d ds =>
      cases hs
      refine invE_genStep d _ h hn hsu ?_
      intro s2 k cd
      simp only [SnapCreated]
      intro x hx
      rcases hsc x hx with a | a
      · rcases List.mem_cons.mp a with b | b
        · subst b; exact Or.inr cd
        · exact Or.inl b
      · exact Or.inr (k x a)
    | nil =>
      cases hs
      refine invE_addWaitRun _ _ _ h hn hsu hnw ?_ ?_
      · intro d hd; rcases hsc d hd with a | a
        · cases a
        · exact a
      · intro s2 x _ e1 _ _
        unfold SnapCreated; rw [e1]; trivial
  | afterDeps =>
    simp only [hpc] at hs
    split at hs
    · cases hs; exact plain _ trivial
    · split at hs
      · rename_i hwait
        cases hs
        refine invE_setSame h hn (sameW_pc nd .loopTop) trivial (fun k => rfl) ?_ (fun k a => a) hcr
        intro k hk
        have hk' : k ∈ s.waiting ++ [n] := hk
        rcases List.mem_append.mp hk' with a | a
        · exact Or.inl a
        · simp at a; exact Or.inr ⟨a, hwait⟩
      · cases hs; exact plain _ trivial
  | self1 =>
    simp only [hpc] at hs; cases hs
    exact invE_setSame h hn (sameW_pc nd .afterSelf1) trivial (fun k => rfl) (fun k a => Or.inl a)
      (fun k a => (mem_addDispatched s n k).mpr (Or.inl a)) hcr
  | afterSelf1 =>
    simp only [hpc] at hs
    split at hs
    · cases hs; exact plain _ trivial
    · split at hs
      · rename_i hst; exact absurd hst (ha4 (by rw [hpc]; rfl))
      · cases hs; exact plain _ trivial
  | setupDecide =>
    simp only [hpc] at hs
    split at hs
    · cases hs
      refine plain _ ?_
      simp only [SnapCreated]; intro d hd; exact Or.inl hd
    · cases hs; exact plain _ trivial
  | setupIter todo =>
    simp only [hpc] at hs
    unfold SnapCreated at hsc; simp only [hpc] at hsc
    cases todo with
    | cons d ds =>
      cases hs
      refine invE_genStep d _ h hn hsu ?_
      intro s2 k cd
      simp only [SnapCreated]
      intro x hx
      rcases hsc x hx with a | a
      · rcases List.mem_cons.mp a with b | b
        · subst b; exact Or.inr cd
        · exact Or.inl b
      · exact Or.inr (k x a)
    | nil =>
      cases hs
      refine invE_addWaitRun _ _ _ h hn hsu hnw ?_ ?_
      · intro d hd; rcases hsc d hd with a | a
        · cases a
        · exact a
      · intro s2 x _ e1 _ _
        unfold SnapCreated; rw [e1]; trivial
  | afterSetup =>
    simp only [hpc] at hs
    split at hs
    · rename_i hwait
      cases hs
      refine invE_setSame h hn (sameW_pc nd .self2) trivial (fun k => rfl) ?_ (fun k a => a) hcr
      intro k hk
      have hk' : k ∈ s.waiting ++ [n] := hk
      rcases List.mem_append.mp hk' with a | a
      · exact Or.inl a
      · simp at a; exact Or.inr ⟨a, Or.inl hwait⟩
    · cases hs; exact plain _ trivial
  | self2 =>
    simp only [hpc] at hs; cases hs
    exact invE_setSame h hn (sameW_pc nd .afterSelf2) trivial (fun k => rfl) (fun k a => Or.inl a)
      (fun k a => (mem_addDispatched s n k).mpr (Or.inl a)) hcr
  | afterSelf2 => simp only [hpc] at hs; cases hs; exact plain _ trivial
  | done => simp only [hpc] at hs; cases hs; exact h.congr rfl rfl (fun k a => a) hcr

theorem dtick_invE {s s' : Sys} {perm : List Name} (h : InvE9 inp s) (hsu : s.susp = none) (h1 : Inv1 inp s)
    (ha4 : ∀ n nd, s.nodes n = some nd → nd.pc.yielded1 = true → nd.status ≠ .none)
    (hs : dtick inp s perm = some s') : InvE9 inp s' := by
  have hcr : s.susp ≠ some .crash := by rw [hsu]; simp
  unfold dtick at hs
  cases hc : s.cur with
  | some n =>
    simp only [hc] at hs
    cases hn : s.nodes n with
    | none => simp only [hn] at hs; cases hs; exact h.crashed rfl rfl rfl
    | some nd =>
      simp only [hn] at hs
      exact nodeStep_invE h hn hsu (h1.q3 n hc).2 (ha4 n nd hn) hs
  | none =>
    simp only [hc] at hs
    split at hs
    · cases hs; exact h.congr rfl rfl (fun k a => a) hcr
    · split at hs
      · rename_i t ts htr
        split at hs
        · rename_i hnone
          cases hs
          exact invE_create [t] h hnone (fun k => rfl) (fun k a => a) (fun k a => a) hcr
        · cases hs; exact h.congr rfl rfl (fun k a => a) hcr
      · split at hs
        · split at hs <;> (cases hs; exact h.congr rfl rfl (fun k a => a) hcr)
        · cases hs; exact h.congr rfl rfl (fun k a => a) hcr

/-! ### the runner side: the steps of the two systems -/

theorem serialStep_invE {s s' : Sys} {perm : List Name} (h : InvE9 inp s) (hC : InvC s) (hF : InvF s) (hS : InvS s)
    (hL : InvL inp s) (h1 : Inv1 inp s) (hs : serialStep inp s perm = some s') : InvE9 inp s' := by
  unfold serialStep at hs
  cases hr : s.rpc with
  | sTop node =>
    simp only [hr] at hs
    have hcr : s.susp ≠ some .crash := by
      intro e
      rcases hC.cr e with a | a
      · rcases a with a | ⟨r, a⟩ <;> (rw [hr] at a; cases a)
      · rcases hS.hl a with b | b <;> (rw [hr] at b; cases b)
    split at hs
    · cases hs; exact h.rpc _
    · cases hsd : send inp s node perm with
      | none => simp only [hsd] at hs; cases hs
      | some s0 => simp only [hsd] at hs; cases hs; exact (invE_send h hcr hsd).rpc _
  | sWait =>
    simp only [hr] at hs
    cases hsu : s.susp with
    | none =>
      simp only [hsu] at hs
      refine dtick_invE h hsu h1 ?_ hs
      intro n nd hn hy hst
      have := (hL.a4 n nd hn hy hst).1
      rw [hsu] at this; cases this
    | some o =>
      simp only [hsu] at hs
      cases o with
      | init => cases hs
      | node n =>
        simp only [] at hs
        cases hn : s.nodes n with
        | none => simp only [hn] at hs; cases hs; exact h.frame rfl rfl rfl rfl
        | some nd =>
          simp only [hn] at hs
          have hdn : n ∈ s.dispatched := hC.ds n hsu
          have key : ∀ (d : Sel) (hd : d ≠ .assertFail) (s2 : Sys), s2.nodes = (applySel inp s n nd d).nodes →
              s2.waiting = (applySel inp s n nd d).waiting → s2.dispatched = (applySel inp s n nd d).dispatched →
              s2.susp = (applySel inp s n nd d).susp → InvE9 inp s2 := by
            intro d hd s2 e1 e2 e3 e4
            obtain ⟨_, f2, _, f4, _⟩ := applySel_frame inp s n nd d
            exact invE_status (selStatus d) h hn hdn (e1.trans (applySel_nodes inp s n nd d hd)) (e2.trans f2)
              (e3.trans (applySel_dispatched inp s n nd d)) (e4.trans f4)
          cases hd : selDecision inp n nd with
          | go => simp only [hd] at hs; cases hs; exact key .go (by simp) _ rfl rfl rfl rfl
          | assertFail => simp only [hd] at hs; cases hs; exact h.frame rfl rfl rfl rfl
          | skipIgn => simp only [hd] at hs; cases hs; exact key _ (by simp) _ rfl rfl rfl rfl
          | unmet => simp only [hd] at hs; cases hs; exact key _ (by simp) _ rfl rfl rfl rfl
          | depErr => simp only [hd] at hs; cases hs; exact key _ (by simp) _ rfl rfl rfl rfl
          | utd => simp only [hd] at hs; cases hs; exact key _ (by simp) _ rfl rfl rfl rfl
          | runFirst => simp only [hd] at hs; cases hs; exact key _ (by simp) _ rfl rfl rfl rfl
          | argsErr => simp only [hd] at hs; cases hs; exact key _ (by simp) _ rfl rfl rfl rfl
      | stopIter => cases hs; exact h.frame rfl rfl rfl hsu.symm
      | holdOn => cases hs; exact h.frame rfl rfl rfl rfl
      | cyclic n => cases hs; exact h.frame rfl rfl rfl rfl
      | crash => cases hs; exact h.frame rfl rfl rfl rfl
  | sExec n =>
    simp only [hr] at hs
    cases hn : s.nodes n with
    | none => simp only [hn] at hs; cases hs; exact h.frame rfl rfl rfl rfl
    | some nd =>
      simp only [hn] at hs; cases hs
      obtain ⟨_, f2, _, f4, _⟩ :=
        processResult_frame inp { s with events := Ev.fin n 0 :: s.events, rpc := .sExec n } n nd
      exact invE_status (resStatus (inp.outcome n)) h hn (hF.sx n hr) (processResult_nodes inp _ n nd) f2
        (processResult_dispatched inp _ n nd) f4
  | fin => simp only [hr] at hs; cases hs; exact h.frame rfl rfl rfl rfl
  | gEntry a b => simp only [hr] at hs; cases hs
  | gLoop a b => simp only [hr] at hs; cases hs
  | gWait a => simp only [hr] at hs; cases hs
  | gRet a b => simp only [hr] at hs; cases hs
  | pTop => simp only [hr] at hs; cases hs
  | pJoin => simp only [hr] at hs; cases hs
  | halted => simp only [hr] at hs; cases hs

theorem reach_invE {s : Sys} (hser : inp.runner = .serial) (h : Reach inp s) : InvE9 inp s := by
  induction h with
  | init => exact init_invE9 inp
  | @next s0 s1 c hp hs ih =>
    cases c with
    | main perm =>
      exact serialStep_invE ih (reach_invC hp) (reach_invF hp) (reach_invS hser hp) (reach_invL hp)
        (reach_inv2 hp).inv1 hs
    | take w => cases hs
    | done w => cases hs

/-! ### `_check_deadlock` cannot fire on an acyclic graph -/

/-- in the state in which `_check_deadlock` would raise (nothing current, ready or dispatched), every parked node
    awaits a parked node; with a ranked dependency graph nothing can be parked then -/
theorem no_deadlock_shape {rank : Name → Nat} {s : Sys} (hrk : Ranked inp rank) (hN : AllN inp rank s)
    (hE : InvE9 inp s) (hD : InvD inp s) (hsu : s.susp = none) (hc : s.cur = none) (hrd : s.ready = [])
    (hdp : s.dispatched = [])
    (hnone : ∀ n nd, s.nodes n = some nd → nd.pc.yielded1 = true → nd.status ≠ .none)
    (hrun : ∀ n nd, s.nodes n = some nd → nd.status = .run → nd.pc.inSetup = true) : s.waiting = [] := by
  apply waiting_descent hrk hN
  intro w hw
  obtain ⟨nd, hn, ne⟩ := hE.w w hw
  have pick : ∃ d, d ∈ nd.waitRun ∨ d ∈ nd.waitRunCalc := by
    rcases ne with a | a
    · obtain ⟨d, hd⟩ := List.exists_mem_of_ne_nil _ a; exact ⟨d, Or.inl hd⟩
    · obtain ⟨d, hd⟩ := List.exists_mem_of_ne_nil _ a; exact ⟨d, Or.inr hd⟩
  obtain ⟨d, hd⟩ := pick
  obtain ⟨z, hz, _, hz2⟩ := hE.e (by rw [hsu]; simp) w nd d hn hd
  have hunf : z.status.finished = false := by
    rcases hz2 with a | a
    · exact a
    · rw [hdp] at a; cases a
  have hpc : z.pc ≠ .done := by
    intro e
    cases hst : z.status with
    | none => exact hnone d z hz (by rw [e]; rfl) hst
    | run => have := hrun d z hz hst; rw [e] at this; cases this
    | utd => rw [hst] at hunf; cases hunf
    | ign => rw [hst] at hunf; cases hunf
    | ok => rw [hst] at hunf; cases hunf
    | fail => rw [hst] at hunf; cases hunf
  refine ⟨nd, hn, d, hd, ?_⟩
  rcases hD.a2 d z hz hpc with a | a | a
  · rw [hrd] at a; cases a
  · exact a
  · rw [hc] at a; cases a

/-- serial runner, ranked (= acyclic) dependency graph: the dispatcher never raises the cyclic error -/
theorem serial_no_cyclic {rank : Name → Nat} {s : Sys} (hser : inp.runner = .serial) (hrk : Ranked inp rank)
    (h : Reach inp s) : (∀ d, s.susp ≠ some (.cyclic d)) ∧ s.halt ≠ .cyclic := by
  induction h with
  | init => simp [init]
  | @next s0 s1 c hp hs ih =>
    obtain ⟨ih1, ih2⟩ := ih
    cases c with
    | take w => cases hs
    | done w => cases hs
    | main perm =>
      have hs' : serialStep inp s0 perm = some s1 := hs
      unfold serialStep at hs'
      cases hr : s0.rpc with
      | sTop node =>
        simp only [hr] at hs'
        split at hs'
        · cases hs'; exact ⟨ih1, ih2⟩
        · cases hsd : send inp s0 node perm with
          | none => simp only [hsd] at hs'; cases hs'
          | some x =>
            simp only [hsd] at hs'; cases hs'
            obtain ⟨⟨_, _, _, _, _, _, _, _, o9, _⟩, o⟩ := send_outer hsd
            refine ⟨?_, by show x.halt ≠ .cyclic; rw [o9]; exact ih2⟩
            intro d e
            have e' : x.susp = some (.cyclic d) := e
            rcases o with a | a <;> (rw [a] at e'; cases e')
      | sWait =>
        simp only [hr] at hs'
        cases hsu : s0.susp with
        | none =>
          simp only [hsu] at hs'
          have o9 := (dtick_outer hs').2.2.2.2.2.2.2.2.1
          refine ⟨?_, by rw [o9]; exact ih2⟩
          intro d e
          have hN := reach_allN hrk hp
          obtain ⟨c1, c2, _, c4, c5⟩ := dtick_cyclic_shape hrk hN hsu hs' d e
          have hL := reach_invL hp
          apply c4
          refine no_deadlock_shape hrk hN (reach_invE hser hp) hL.d hsu c1 c2 c5 ?_ ?_
          · intro n nd hn hy hst
            have := (hL.a4 n nd hn hy hst).1
            rw [hsu] at this; cases this
          · intro n nd hn hst
            rcases hL.a5 n nd hn hst with a | ⟨_, _, a | ⟨_, a, _⟩⟩
            · rw [hr] at a; cases a
            · exact a
            · rw [hsu] at a; cases a
        | some o =>
          simp only [hsu] at hs'
          cases o with
          | init => cases hs'
          | node n =>
            simp only [] at hs'
            cases hn : s0.nodes n with
            | none => simp only [hn] at hs'; cases hs'; exact ⟨ih1, by simp [raise]⟩
            | some nd =>
              simp only [hn] at hs'
              have key : ∀ (d : Sel), (∀ x, (applySel inp s0 n nd d).susp ≠ some (.cyclic x)) ∧
                  (applySel inp s0 n nd d).halt ≠ .cyclic := by
                intro d
                rw [(applySel_frame inp s0 n nd d).2.2.2.1, (applySel_frame2 inp s0 n nd d).2.2.2.1]
                exact ⟨ih1, ih2⟩
              cases hd : selDecision inp n nd <;> simp only [hd] at hs' <;> cases hs' <;>
                first | exact key _ | exact ⟨ih1, by simp [raise]⟩
          | stopIter => cases hs'; exact ⟨by simp, ih2⟩
          | holdOn => cases hs'; exact ⟨ih1, by simp [raise]⟩
          | cyclic n => exact absurd hsu (ih1 n)
          | crash => cases hs'; exact ⟨ih1, by simp [raise]⟩
      | sExec n =>
        simp only [hr] at hs'
        cases hn : s0.nodes n with
        | none => simp only [hn] at hs'; cases hs'; exact ⟨ih1, by simp [raise]⟩
        | some nd =>
          simp only [hn] at hs'; cases hs'
          refine ⟨?_, ?_⟩
          · intro d e
            have e' : (processResult inp { s0 with events := Ev.fin n 0 :: s0.events, rpc := .sExec n } n nd).susp
                = some (.cyclic d) := e
            rw [(processResult_frame inp _ n nd).2.2.2.1] at e'
            exact ih1 d e'
          · show (processResult inp { s0 with events := Ev.fin n 0 :: s0.events, rpc := .sExec n } n nd).halt ≠ .cyclic
            rw [(processResult_frame2 inp _ n nd).2.2.2.1]; exact ih2
      | fin => simp only [hr] at hs'; cases hs'; exact ⟨ih1, ih2⟩
      | gEntry a b => simp only [hr] at hs'; cases hs'
      | gLoop a b => simp only [hr] at hs'; cases hs'
      | gWait a => simp only [hr] at hs'; cases hs'
      | gRet a b => simp only [hr] at hs'; cases hs'
      | pTop => simp only [hr] at hs'; cases hs'
      | pJoin => simp only [hr] at hs'; cases hs'
      | halted => simp only [hr] at hs'; cases hs'

end DoitModel.Run
