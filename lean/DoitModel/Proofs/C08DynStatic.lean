import DoitModel.Proofs.C08DynConfluence
import DoitModel.Proofs.C08DynExec
/-! # C08 (I10): the theorems for graphs without calc_dep as corollaries of the development for any graph

On `NoCalc` inputs `Dyn.DenOf` / `Dyn.DenCl` are the static `DenOf` / `DenCl` (`DenOf_noCalc`, `DenCl_noCalc`), so the
statements of `Proofs/C08Confluence.lean` follow from `Proofs/C08DynConfluence.lean` — without the hypothesis
`NoFailDeliver` the static development carries (what a failed calc task delivers is irrelevant without calc_dep edges,
and the dynamic development accounts for it anyway). -/
namespace DoitModel.Run.DynS
open DoitModel.Run.Dyn (DenOf_noCalc DenOf_of_static DenOf_to_static DepOf_noCalc)

theorem CalcR_noCalc {inp : RunInput} (hnc : NoCalc inp) {n c : Name} (h : Dyn.CalcR inp n c) : False := by
  induction h with
  | static hc => rw [hnc] at hc; cases hc
  | deliv _ _ _ ih => exact ih

theorem R1_noCalc {inp : RunInput} (hnc : NoCalc inp) (n : Name) : Dyn.R1 inp n ↔ R1 inp n := by
  constructor
  · rintro ⟨dd, L, hL, hT, h1⟩
    have sub : ∀ x, x ∈ L ↔ x ∈ inp.taskDep n := fun x => (hL x).trans (DepOf_noCalc hnc dd n x)
    refine ⟨dd, fun d hd => DenOf_to_static hnc (hT d ((sub d).mpr hd)), ?_⟩
    rw [← Dyn.stage1L_static, ← Dyn.stage1L_congr sub (fun _ _ => rfl)]; exact h1
  · rintro ⟨dd, hT, h1⟩
    exact ⟨dd, inp.taskDep n, fun x => (DepOf_noCalc hnc dd n x).symm, fun d hd => DenOf_of_static hnc (hT d hd),
      by rw [Dyn.stage1L_static]; exact h1⟩

theorem DenCl_noCalc {inp : RunInput} (hnc : NoCalc inp) (t : Name) : Dyn.DenCl inp t ↔ DenCl inp t := by
  constructor
  · intro h
    induction h with
    | ofSel hm => exact DenCl.ofSel hm
    | ofTask _ hd ih => exact DenCl.ofTask ih hd
    | ofCalc _ hc _ => exact (CalcR_noCalc hnc hc).elim
    | ofDeliv _ hc _ _ _ => exact (CalcR_noCalc hnc hc).elim
    | ofSetup _ hr hd ih => exact DenCl.ofSetup ih ((R1_noCalc hnc _).mp hr) hd
  · intro h
    induction h with
    | ofSel hm => exact Dyn.DenCl.ofSel hm
    | ofTask _ hd ih => exact Dyn.DenCl.ofTask ih hd
    | ofSetup _ hr hd ih => exact Dyn.DenCl.ofSetup ih ((R1_noCalc hnc _).mpr hr) hd

theorem status_is_den {inp : RunInput} {s : Sys} (hnc : NoCalc inp) (hr : Reach inp s ∨ PReach inp s) (t : Name)
    (hf : (stOf s t).finished = true) : ∃ d, DenOf inp t d ∧ d.rs = stOf s t := by
  obtain ⟨d, hd, e⟩ := Dyn.status_is_den hr t hf
  exact ⟨d, DenOf_to_static hnc hd, e⟩

theorem report_is_den {inp : RunInput} {s : Sys} (hnc : NoCalc inp) (hr : Reach inp s ∨ PReach inp s) (t : Name)
    (d : Den) (h : ∃ e ∈ s.events, Ev.den? t e = some d) : DenOf inp t d :=
  DenOf_to_static hnc (Dyn.report_is_den hr t d h)

theorem reportOf_is_den {inp : RunInput} {s : Sys} (hnc : NoCalc inp) (hr : Reach inp s ∨ PReach inp s) (t : Name)
    (d : Den) (h : reportOf (trace inp s) t = some d) : DenOf inp t d :=
  DenOf_to_static hnc (Dyn.reportOf_is_den hr t d h)

theorem reported_iff_closure {inp : RunInput} {s : Sys} (hnc : NoCalc inp) (hr : Reach inp s ∨ PReach inp s)
    (hend : s.rpc = .halted) (hhalt : s.halt = .none) (hstop : s.stop = false) (t : Name) :
    Reported s t ↔ DenCl inp t :=
  (Dyn.reported_iff_closure hr hend hhalt hstop t).trans (DenCl_noCalc hnc t)

/-- the dynamic denotation of `inp2` embeds in that of `inp1` when the task tables agree and there is no calc_dep -/
theorem denSub {inp1 inp2 : RunInput} (hsame : SameTasks inp1 inp2) (hnc : NoCalc inp1) :
    ∀ t d, Dyn.DenOf inp2 t d → Dyn.DenOf inp1 t d :=
  fun _ _ h => DenOf_of_static hnc ((DenOf_to_static (hsame.noCalc hnc) h).same hsame.symm)

theorem confluent_status {inp1 inp2 : RunInput} {s1 s2 : Sys} (hsame : SameTasks inp1 inp2) (hnc : NoCalc inp1)
    (h1 : Reach inp1 s1 ∨ PReach inp1 s1) (h2 : Reach inp2 s2 ∨ PReach inp2 s2) (t : Name)
    (f1 : (stOf s1 t).finished = true) (f2 : (stOf s2 t).finished = true) : stOf s1 t = stOf s2 t :=
  Dyn.confluent_status_of (denSub hsame hnc) h1 h2 t f1 f2

theorem confluent_report {inp1 inp2 : RunInput} {s1 s2 : Sys} (hsame : SameTasks inp1 inp2) (hnc : NoCalc inp1)
    (h1 : Reach inp1 s1 ∨ PReach inp1 s1) (h2 : Reach inp2 s2 ∨ PReach inp2 s2) (t : Name) (d1 d2 : Den)
    (r1 : ∃ e ∈ s1.events, Ev.den? t e = some d1) (r2 : ∃ e ∈ s2.events, Ev.den? t e = some d2) : d1 = d2 :=
  Dyn.confluent_report_of (denSub hsame hnc) h1 h2 t d1 d2 r1 r2

theorem complete_runs_same_reported {inp1 inp2 : RunInput} {s1 s2 : Sys} (hsame : SameTasks inp1 inp2)
    (hsel : ∀ t, t ∈ inp1.sel ↔ t ∈ inp2.sel) (hnc : NoCalc inp1)
    (h1 : Reach inp1 s1 ∨ PReach inp1 s1) (h2 : Reach inp2 s2 ∨ PReach inp2 s2)
    (e1 : s1.rpc = .halted ∧ s1.halt = .none ∧ s1.stop = false)
    (e2 : s2.rpc = .halted ∧ s2.halt = .none ∧ s2.stop = false) (t : Name) :
    Reported s1 t ↔ Reported s2 t := by
  rw [reported_iff_closure hnc h1 e1.1 e1.2.1 e1.2.2, reported_iff_closure (hsame.noCalc hnc) h2 e2.1 e2.2.1 e2.2.2]
  exact ⟨DenCl_same hsame (fun t => (hsel t).mp), DenCl_same hsame.symm (fun t => (hsel t).mpr)⟩

theorem complete_runs_same_exit {inp1 inp2 : RunInput} {s1 s2 : Sys} (hsame : SameTasks inp1 inp2)
    (hsel : ∀ t, t ∈ inp1.sel ↔ t ∈ inp2.sel) (hnc : NoCalc inp1)
    (h1 : Reach inp1 s1 ∨ PReach inp1 s1) (h2 : Reach inp2 s2 ∨ PReach inp2 s2)
    (e1 : s1.rpc = .halted ∧ s1.halt = .none ∧ s1.stop = false)
    (e2 : s2.rpc = .halted ∧ s2.halt = .none ∧ s2.stop = false) : exitCode s1 = exitCode s2 :=
  Dyn.confluent_exit_of (denSub hsame hnc) h1 h2 e1.2.1 e2.2.1 (complete_runs_same_reported hsame hsel hnc h1 h2 e1 e2)

theorem complete_runs_same_reportOf {inp1 inp2 : RunInput} {s1 s2 : Sys} (hsame : SameTasks inp1 inp2)
    (hsel : ∀ t, t ∈ inp1.sel ↔ t ∈ inp2.sel) (hnc : NoCalc inp1)
    (h1 : Reach inp1 s1 ∨ PReach inp1 s1) (h2 : Reach inp2 s2 ∨ PReach inp2 s2)
    (e1 : s1.rpc = .halted ∧ s1.halt = .none ∧ s1.stop = false)
    (e2 : s2.rpc = .halted ∧ s2.halt = .none ∧ s2.stop = false) (t : Name) :
    reportOf (trace inp1 s1) t = reportOf (trace inp2 s2) t :=
  Dyn.complete_runs_same_reportOf_of (denSub hsame hnc) h1 h2 t (complete_runs_same_reported hsame hsel hnc h1 h2 e1 e2 t)

/-! ### against the executable denotation `denF` (acyclic graphs) -/

theorem C08_monitor_reports {inp : RunInput} {s : Sys} {r : Name → Nat} (hnc : NoCalc inp) (hac : Acyclic inp r)
    (hr : Reach inp s ∨ PReach inp s) (nTasks : Nat) (hb : ∀ t, r t ≤ nTasks) :
    ((List.range nTasks).all fun t =>
      match reportOf (trace inp s) t with
      | some d => denF inp (nTasks + 1) t == d
      | none => true) = true := by
  simp only [List.all_eq_true, List.mem_range]
  intro t _
  cases h : reportOf (trace inp s) t with
  | none => rfl
  | some d =>
    have := denF_unique hac (reportOf_is_den hnc hr t d h) (nTasks + 1) (by have := hb t; omega)
    simp [this]

theorem complete_exit_is_den {inp : RunInput} {s : Sys} (hnc : NoCalc inp) (hr : Reach inp s ∨ PReach inp s)
    (hend : s.rpc = .halted) (hhalt : s.halt = .none) (hstop : s.stop = false)
    (L : List Name) (hL : ∀ t, t ∈ L ↔ DenCl inp t) (den : Name → Den) (hden : ∀ t ∈ L, DenOf inp t (den t)) :
    exitCode s = exitOfDens (L.map den) :=
  Dyn.complete_exit_is_den hr hend hhalt hstop L (fun t => (hL t).trans (DenCl_noCalc hnc t).symm) den
    (fun t ht => DenOf_of_static hnc (hden t ht))

theorem C08_monitor_den {inp : RunInput} {s : Sys} {r : Name → Nat} (hnc : NoCalc inp) (hac : Acyclic inp r)
    (hr : Reach inp s ∨ PReach inp s) (nTasks : Nat) (hb : ∀ t, r t ≤ nTasks) (hst : ClosureStable inp nTasks)
    (complete : Bool) (hc : complete = true → s.rpc = .halted ∧ s.halt = .none ∧ s.stop = false) :
    monC08Den inp nTasks (trace inp s) (exitCode s) complete = true := by
  unfold monC08Den
  rw [Bool.and_eq_true]
  refine ⟨C08_monitor_reports hnc hac hr nTasks hb, ?_⟩
  cases complete with
  | false => rfl
  | true =>
    obtain ⟨e1, e2, e3⟩ := hc rfl
    simp only [Bool.not_true, Bool.false_or, Bool.and_eq_true, List.all_eq_true, List.mem_range, beq_iff_eq]
    refine ⟨?_, ?_⟩
    · intro t _
      rw [Bool.eq_iff_iff, reportOf_isSome_iff, decide_eq_true_iff, reported_iff_closure hnc hr e1 e2 e3]
      exact ((denClosureSpec_of_stable hac nTasks hb hst) t).symm
    · exact complete_exit_is_den hnc hr e1 e2 e3 _ (denClosureSpec_of_stable hac nTasks hb hst) _
        (fun t _ => denF_is_den hac (nTasks + 1) t (by have := hb t; omega))

theorem C08_monitor_den' {inp : RunInput} {s : Sys} {r : Name → Nat} (hnc : NoCalc inp) (hac : Acyclic inp r)
    (hr : Reach inp s ∨ PReach inp s) (nTasks : Nat) (hb : ∀ t, r t ≤ nTasks)
    (hlt : ∀ t, DenCl inp t → t < nTasks)
    (complete : Bool) (hc : complete = true → s.rpc = .halted ∧ s.halt = .none ∧ s.stop = false) :
    monC08Den inp nTasks (trace inp s) (exitCode s) complete = true :=
  C08_monitor_den hnc hac hr nTasks hb (closureStable hac nTasks hb hlt) complete hc

end DoitModel.Run.DynS
