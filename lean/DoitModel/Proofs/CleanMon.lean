import DoitModel.Proofs.CleanSpec
/-! Helper lemmas for C14, part 7: the monitor's declarative clean set is the `InCleanSet` of the theorems. -/
namespace DoitModel.Clean

theorem Reach.trans {deps : Name → List Name} {a b c : Name} (h1 : Reach deps a b) (h2 : Reach deps b c) :
    Reach deps a c := by
  induction h2 with
  | refl => exact h1
  | step _ hc ih => exact Reach.step ih hc

theorem closeN_sound (deps : Name → List Name) : ∀ (n : Nat) (s : List Name) (x : Name),
    x ∈ closeN deps n s → ∃ r, r ∈ s ∧ Reach deps r x := by
  intro n
  induction n with
  | zero => intro s x h; exact ⟨x, h, Reach.refl x⟩
  | succ n ih =>
    intro s x h
    obtain ⟨r, hr, hrx⟩ := ih _ x h
    simp only [List.mem_append, List.mem_flatMap] at hr
    rcases hr with hr | ⟨a, ha, hra⟩
    · exact ⟨r, hr, hrx⟩
    · exact ⟨a, ha, (Reach.step (Reach.refl a) hra).trans hrx⟩

theorem closeN_contains (deps : Name → List Name) : ∀ (n : Nat) (s : List Name) (x : Name),
    x ∈ s → x ∈ closeN deps n s := by
  intro n
  induction n with
  | zero => intro s x h; exact h
  | succ n ih => intro s x h; exact ih _ x (List.mem_append_left _ h)

theorem mem_declSet_iff (tbl : Table) (r : Req) (base : List Name) (hc : declClosed tbl r base = true) (x : Name) :
    x ∈ declSet tbl r base ↔ InCleanSet tbl r base x := by
  unfold declClosed at hc
  unfold InCleanSet
  by_cases hd : withDeps r = true
  · simp only [hd, Bool.not_true, Bool.false_or, List.all_eq_true, decide_eq_true_eq] at hc
    simp only [hd, if_true]
    constructor
    · intro h
      have : x ∈ closeN (depsOf tbl) tbl.length base := by simpa [declSet, hd] using h
      exact closeN_sound _ _ _ _ this
    · rintro ⟨n, hn, hr⟩
      refine reach_in_closed (S := fun y => y ∈ declSet tbl r base) (fun a ha b hb => hc a ha b hb) ?_ hr
      have := closeN_contains (depsOf tbl) tbl.length base n hn
      simpa [declSet, hd] using this
  · simp only [hd, Bool.false_eq_true, if_false]
    simp only [declSet, hd, Bool.false_eq_true, if_false, List.mem_append, List.mem_flatMap, List.mem_filter]

theorem subset_iff (a b : List Name) : subset a b = true ↔ ∀ x, x ∈ a → x ∈ b := by
  simp [subset, List.all_eq_true]

theorem depFirstB_iff (deps : Name → List Name) (o : List Name) :
    depFirstB deps o = true ↔ ∀ a, a ∈ o → ∀ b, b ∈ deps a → b ∈ o → o.idxOf a < o.idxOf b := by
  simp only [depFirstB, beforeB, List.all_eq_true, Bool.or_eq_true, Bool.not_eq_true', decide_eq_false_iff_not,
    decide_eq_true_eq]
  constructor
  · intro h a ha b hb hbo
    rcases h a ha b hb with h' | h'
    · exact absurd hbo h'
    · exact h'
  · intro h a ha b hb
    by_cases hbo : b ∈ o
    · exact Or.inr (h a ha b hb hbo)
    · exact Or.inl hbo

end DoitModel.Clean
