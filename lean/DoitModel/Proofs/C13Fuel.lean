import DoitModel.Proofs.C13Forget
/-! # C13 — the fuel of `tdIter` suffices: `forget --follow-sub` never ends in the model's out-of-fuel result -/
namespace DoitModel.Cmds
open DoitModel.Status

/-- names of the task set that are neither processed nor queued -/
def unseen (g : Graph) (processed q : List Name) : Nat :=
  g.names.countP fun n => !decide (n ∈ processed) && !decide (n ∈ q)

theorem countP_strict {α} (p p' : α → Bool) (L : List α) (hmono : ∀ y, p y = true → p' y = true)
    (x : α) (hx : x ∈ L) (hp' : p' x = true) (hp : p x = false) : L.countP p + 1 ≤ L.countP p' := by
  induction L with
  | nil => cases hx
  | cons a as ih =>
    simp only [List.countP_cons]
    have hle : as.countP p ≤ as.countP p' := List.countP_mono_left (fun y _ => hmono y)
    rcases List.mem_cons.1 hx with h | h
    · subst h
      simp only [hp', hp, if_true]
      simp
      omega
    · have := ih h
      by_cases ha : p a = true
      · simp only [ha, hmono a ha, if_true]; omega
      · by_cases ha' : p' a = true
        · simp only [ha, ha', if_true]; simp; omega
        · simp only [ha, ha']; simp; omega

theorem unseen_push (g : Graph) (P q : List Name) (d : Name) (hd : d ∈ g.names) (hP : d ∉ P) (hq : d ∉ q) :
    unseen g P (q ++ [d]) + 1 ≤ unseen g P q := by
  unfold unseen
  apply countP_strict _ _ g.names _ d hd
  · simp [hP, hq]
  · simp
  · intro y hy
    simp only [Bool.and_eq_true, Bool.not_eq_true', decide_eq_false_iff_not, List.mem_append, List.mem_singleton,
      not_or] at hy ⊢
    exact ⟨hy.1, hy.2.1⟩

theorem pushDeps_need (g : Graph) (P : List Name) (ds q : List Name) (hds : ∀ d, d ∈ ds → d ∈ g.names) :
    (pushDeps P q ds).1.length + unseen g P (pushDeps P q ds).1 ≤ q.length + unseen g P q := by
  induction ds generalizing q with
  | nil => simp [pushDeps]
  | cons d ds ih =>
    simp only [pushDeps]
    split
    · exact ih q (fun x hx => hds x (List.mem_cons_of_mem _ hx))
    · rename_i hnew
      have hnew' : d ∉ P ∧ d ∉ q := by
        constructor
        · intro h; exact hnew (Or.inl h)
        · intro h; exact hnew (Or.inr h)
      have h1 := ih (q ++ [d]) (fun x hx => hds x (List.mem_cons_of_mem _ hx))
      have h2 := unseen_push g P q d (hds d List.mem_cons_self) hnew'.1 hnew'.2
      simp only [List.length_append, List.length_cons, List.length_nil] at h1
      omega

theorem unseen_pop (g : Graph) (P q : List Name) (t : Name) : unseen g (t :: P) q = unseen g P (t :: q) := by
  unfold unseen
  congr 1
  funext n
  simp only [List.mem_cons]
  by_cases h1 : n = t <;> by_cases h2 : n ∈ P <;> by_cases h3 : n ∈ q <;> simp [h1, h2, h3]

/-- enough fuel: the queue length plus the number of names still unseen -/
theorem tdIter_fuel (g : Graph) (hwf : g.WF = true) :
    ∀ (fuel : Nat) (P q : List Name), (∀ x, x ∈ q → x ∈ g.names) → q.length + unseen g P q ≤ fuel →
      tdIter g fuel P q ≠ none := by
  intro fuel
  induction fuel with
  | zero =>
    intro P q _ hf
    cases q with
    | nil => simp [tdIter]
    | cons t q => simp at hf
  | succ n ih =>
    intro P q hq hf
    cases q with
    | nil => simp [tdIter]
    | cons t q =>
      simp only [tdIter]
      have hsucc : ∀ d, d ∈ g.succs t → d ∈ g.names := by
        intro d hd
        unfold Graph.WF at hwf
        have := List.all_eq_true.1 hwf t (hq t List.mem_cons_self)
        have := List.all_eq_true.1 this d (List.mem_append_left _ hd)
        simpa using this
      have hneed := pushDeps_need g (t :: P) (g.succs t) q hsucc
      have hpop := unseen_pop g P q t
      have hq' : ∀ x, x ∈ (pushDeps (t :: P) q (g.succs t)).1 → x ∈ g.names := by
        intro x hx
        rcases pushDeps_queue_mem _ _ _ _ hx with h | h
        · exact hq x (List.mem_cons_of_mem _ h)
        · exact hsucc x h
      have hrec := ih (t :: P) (pushDeps (t :: P) q (g.succs t)).1 hq' (by
        simp only [List.length_cons] at hf
        omega)
      cases hr : tdIter g n (t :: P) (pushDeps (t :: P) q (g.succs t)).1 with
      | none => exact absurd hr hrec
      | some rest => simp

theorem unseen_le (g : Graph) (P q : List Name) : unseen g P q ≤ g.names.length := by
  unfold unseen; exact List.countP_le_length

/-- `fuel_suffices`: on a well-formed task set, with every selected name a task, `tasks_and_deps_iter` ends -/
theorem tdIter_tdFuel (g : Graph) (hwf : g.WF = true) (sel : List Name) (hsel : ∀ x, x ∈ sel → x ∈ g.names) :
    tdIter g (tdFuel g sel) [] sel ≠ none := by
  apply tdIter_fuel g hwf _ _ _ hsel
  unfold tdFuel
  have := unseen_le g [] sel
  omega

end DoitModel.Cmds

namespace DoitModel.Cmds
open DoitModel.Status

/-- on a well-formed task set `forget` never ends in the model's out-of-fuel result -/
theorem forgetTarget_ne_fuel (fixed : Bool) (g : Graph) (hwf : g.WF = true) (a : ForgetArgs) (dflt : Option (List Name)) :
    forgetTarget fixed g a dflt ≠ .fuel := by
  unfold forgetTarget
  split
  · simp
  · split
    · simp
    · cases hu : firstUnknown g ((selTasks a.names dflt).getD []) with
      | some n => simp
      | none =>
        simp only
        cases hb : forgetBase fixed g (selTasks a.names dflt) with
        | none => simp
        | some base =>
          simp only
          have hbase : ∀ x, x ∈ base → x ∈ g.names := by
            cases hs : selTasks a.names dflt with
            | none =>
              rw [hs] at hb
              simp only [forgetBase] at hb
              cases fixed with
              | true => simp at hb; subst hb; exact fun x hx => hx
              | false => simp at hb
            | some l =>
              rw [hs] at hb hu
              simp only [forgetBase] at hb
              injection hb with hb; subst hb
              exact firstUnknown_none (by simpa using hu)
          unfold forgetExpand
          split
          · cases ht : tdIter g (tdFuel g base) [] base with
            | none => exact absurd ht (tdIter_tdFuel g hwf base hbase)
            | some l => simp
          · simp

end DoitModel.Cmds
