import DoitModel.Proofs.RunSys
/-! # C12 — wait sets only lose the node that is fed back to the dispatcher

`KeepW p s s'`: every node of `s` is still there in `s'`, and whatever it waited for it still waits for, except
possibly `p`.  Holds of every piece of the dispatcher with `p` = the processed node of `_update_waiting`. -/
namespace DoitModel.Run

def waitsOn (nd : Node) (d : Name) : Prop := d ∈ nd.waitRun ∨ d ∈ nd.waitRunCalc

def KeepW (p : Option Name) (s s' : Sys) : Prop :=
  ∀ k y, s.nodes k = some y → ∃ y', s'.nodes k = some y' ∧ ∀ d, waitsOn y d → waitsOn y' d ∨ p = some d

theorem KeepW.refl (p : Option Name) (s : Sys) : KeepW p s s := fun _ y h => ⟨y, h, fun _ a => Or.inl a⟩

theorem KeepW.of_eq {p : Option Name} {s s' : Sys} (h : s'.nodes = s.nodes) : KeepW p s s' :=
  fun _ y hy => ⟨y, by rw [h]; exact hy, fun _ a => Or.inl a⟩

theorem KeepW.trans {p : Option Name} {a b c : Sys} (h1 : KeepW p a b) (h2 : KeepW p b c) : KeepW p a c := by
  intro k y hy
  obtain ⟨y1, e1, f1⟩ := h1 k y hy
  obtain ⟨y2, e2, f2⟩ := h2 k y1 e1
  refine ⟨y2, e2, fun d hd => ?_⟩
  rcases f1 d hd with a | a
  · exact f2 d a
  · exact Or.inr a

theorem KeepW.weaken {p : Option Name} {s s' : Sys} (h : KeepW none s s') : KeepW p s s' := by
  intro k y hy
  obtain ⟨y', e, f⟩ := h k y hy
  refine ⟨y', e, fun d hd => ?_⟩
  rcases f d hd with a | a
  · exact Or.inl a
  · cases a

/-- replace the node of `n` by one that waits for at least as much -/
theorem keepW_setNode {p : Option Name} {s : Sys} {n : Name} {nd x : Node} (hn : s.nodes n = some nd)
    (hx : ∀ d, waitsOn nd d → waitsOn x d ∨ p = some d) : KeepW p s (setNode s n x) := by
  intro k y hy
  by_cases e : k = n
  · subst e; rw [hn] at hy; cases hy
    exact ⟨x, by simp [setNode], hx⟩
  · exact ⟨y, by simpa [setNode, e] using hy, fun _ a => Or.inl a⟩

/-- a node is created -/
theorem keepW_create {p : Option Name} {s : Sys} {t : Name} (x : Node) (ht : s.nodes t = none) :
    KeepW p s (setNode s t x) := by
  intro k y hy
  have e : k ≠ t := by intro e; subst e; rw [ht] at hy; cases hy
  exact ⟨y, by simpa [setNode, e] using hy, fun _ a => Or.inl a⟩

theorem addWaiting_waits (x : Node) (m : Name) (d : Name) : waitsOn (x.addWaiting m) d ↔ waitsOn x d := by
  unfold Node.addWaiting; split <;> exact Iff.rfl

theorem keepW_registerWaiting (p : Option Name) (s : Sys) (n : Name) (wf : List Name) :
    KeepW p s (registerWaiting s n wf) := by
  intro k y hy
  by_cases hk : k ∈ wf
  · exact ⟨y.addWaiting n, by simp [registerWaiting_nodes, hy, hk], fun d a => Or.inl ((addWaiting_waits y n d).2 a)⟩
  · exact ⟨y, by simp [registerWaiting_nodes, hy, hk], fun _ a => Or.inl a⟩

theorem keepW_genStep {inp : RunInput} (p : Option Name) {s : Sys} {n : Name} {nd : Node} (d : Name) (pc' : PC)
    (hn : s.nodes n = some nd) : KeepW p s (genStep inp s n nd d pc') := by
  unfold genStep
  cases hd : s.nodes d with
  | none =>
    simp only []
    have h1 : KeepW p s (setNode s d (mkNode inp d (nd.anc ++ [d]))) := keepW_create _ hd
    have hne : n ≠ d := by intro e; subst e; rw [hn] at hd; cases hd
    have hn' : (setNode s d (mkNode inp d (nd.anc ++ [d]))).nodes n = some nd := by simp [setNode, hne, hn]
    have h2 := keepW_setNode (p := p) (x := { nd with pc := pc' }) hn' (fun _ a => Or.inl a)
    exact fun k y hy => (h1.trans h2) k y hy
  | some x =>
    simp only []
    split
    · exact KeepW.of_eq rfl
    · exact keepW_setNode hn (fun _ a => Or.inl a)

theorem keepW_addWaitRun {inp : RunInput} (p : Option Name) {s : Sys} {n : Name} {nd : Node} (ds : List Name)
    (c : Bool) (pc' : PC) (hn : s.nodes n = some nd) : KeepW p s (addWaitRun inp s n nd ds c pc') := by
  unfold addWaitRun
  have wf := waitNode_facts inp s nd ds c pc'
  have h1 : KeepW p s (setNode s n (waitNode inp s nd ds c pc')) :=
    keepW_setNode hn (fun d a => Or.inl (by
      rcases a with a | a
      · exact Or.inl (wf.wr d a)
      · exact Or.inr (wf.wc d a)))
  exact h1.trans (keepW_registerWaiting p _ n _)

theorem keepW_nodeStep {inp : RunInput} (p : Option Name) {s s' : Sys} {n : Name} {nd : Node} {perm : List Name}
    (hn : s.nodes n = some nd) (hs : nodeStep inp s n nd perm = some s') : KeepW p s s' := by
  have setSame : ∀ x : Node, x.waitRun = nd.waitRun → x.waitRunCalc = nd.waitRunCalc → KeepW p s (setNode s n x) :=
    fun x e1 e2 => keepW_setNode hn (fun d a => Or.inl (by unfold waitsOn at *; rw [e1, e2]; exact a))
  unfold nodeStep at hs
  split at hs
  all_goals (try split at hs)
  all_goals (try split at hs)
  all_goals (cases hs)
  all_goals first
    | exact keepW_genStep p _ _ hn
    | exact keepW_addWaitRun p _ _ _ hn
    | exact setSame _ rfl rfl
    | exact (setSame _ rfl rfl).trans (KeepW.of_eq rfl)
    | exact KeepW.of_eq rfl

theorem keepW_dtick {inp : RunInput} (p : Option Name) {s s' : Sys} {perm : List Name}
    (hs : dtick inp s perm = some s') : KeepW p s s' := by
  unfold dtick at hs
  cases hc : s.cur with
  | some n =>
    simp only [hc] at hs
    cases hn : s.nodes n with
    | none => simp only [hn] at hs; cases hs; exact KeepW.of_eq rfl
    | some nd => simp only [hn] at hs; exact keepW_nodeStep p hn hs
  | none =>
    simp only [hc] at hs
    split at hs
    · cases hs; exact KeepW.of_eq rfl
    · split at hs
      · split at hs
        · rename_i ht
          cases hs
          exact (keepW_create (p := p) _ ht).trans (KeepW.of_eq rfl)
        · cases hs; exact KeepW.of_eq rfl
      · split at hs
        · split at hs <;> (cases hs; exact KeepW.of_eq rfl)
        · cases hs; exact KeepW.of_eq rfl

theorem keepW_wakeOne (inp : RunInput) (s : Sys) (pst : RS) (p w : Name) (nd : Node) (hw : s.nodes w = some nd) :
    KeepW (some p) s (wakeOne inp s pst p w nd) := by
  have u := wokenF_upd inp s pst p nd
  have h1 : KeepW (some p) s (setNode s w (wokenF inp s pst p nd)) :=
    keepW_setNode hw (fun d a => by
      rcases a with a | a
      · rcases u.wr d a with b | ⟨b, _⟩
        · exact Or.inl (Or.inl b)
        · exact Or.inr (by rw [b])
      · rcases u.wc d a with b | ⟨b, _⟩
        · exact Or.inl (Or.inr b)
        · exact Or.inr (by rw [b]))
  unfold wakeOne; split
  · exact h1.trans (KeepW.of_eq rfl)
  · exact h1

theorem keepW_updateWaiting (inp : RunInput) (pst : RS) (p : Name) :
    ∀ (perm : List Name) (s s' : Sys), updateWaiting inp pst p s perm = some s' → KeepW (some p) s s' := by
  intro perm
  induction perm with
  | nil => intro s s' hs; simp only [updateWaiting] at hs; cases hs; exact KeepW.refl _ _
  | cons w ws ih =>
    intro s s' hs
    simp only [updateWaiting] at hs
    cases hw : s.nodes w with
    | none => simp only [hw] at hs; exact ih s s' hs
    | some nd =>
      simp only [hw] at hs
      split at hs
      · cases hs
      · exact (keepW_wakeOne inp s pst p w nd hw).trans (ih _ s' hs)

theorem keepW_sendHead (q : Option Name) (s : Sys) (p : Name) (nd : Node) (hn : s.nodes p = some nd) :
    KeepW q s (sendHead s p nd) := by
  unfold sendHead; split
  · exact (keepW_setNode (p := q) (x := { nd with waitSelect := false }) hn (fun _ a => Or.inl a)).trans
      (KeepW.of_eq rfl)
  · exact KeepW.of_eq rfl

theorem keepW_send {inp : RunInput} {s s' : Sys} {processed : Option Name} {perm : List Name}
    (hs : send inp s processed perm = some s') : KeepW processed s s' := by
  unfold send at hs
  cases processed with
  | none => cases hs; exact KeepW.of_eq rfl
  | some p =>
    simp only [] at hs
    cases hn : s.nodes p with
    | none => simp only [hn] at hs; cases hs; exact KeepW.of_eq rfl
    | some nd =>
      simp only [hn] at hs
      have hh := keepW_sendHead (some p) s p nd hn
      split at hs
      · cases hs; exact KeepW.of_eq rfl
      · split at hs
        · cases hs; exact hh.trans (KeepW.of_eq rfl)
        · split at hs
          · cases hu : updateWaiting inp nd.status p (sendHead s p nd) perm with
            | none => simp only [hu] at hs; cases hs; exact hh.trans (KeepW.of_eq rfl)
            | some s1 =>
              simp only [hu] at hs; cases hs
              exact (hh.trans (keepW_updateWaiting inp _ p perm _ _ hu)).trans (KeepW.of_eq rfl)
          · cases hs

/-- the runner sets the status of a node -/
theorem keepW_status (q : Option Name) {s s' : Sys} {n : Name} {nd : Node} (st' : RS) (hn : s.nodes n = some nd)
    (e : s'.nodes = (setNode s n { nd with status := st' }).nodes) : KeepW q s s' :=
  (keepW_setNode (p := q) (x := { nd with status := st' }) hn (fun _ a => Or.inl a)).trans (KeepW.of_eq e)

end DoitModel.Run
