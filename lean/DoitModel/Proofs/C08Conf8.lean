import DoitModel.Proofs.C08Conf1
/-! # C08 (I10): on an acyclic graph the executable `denF` is total and is THE denotation -/
namespace DoitModel.Run

/-- `r` is a rank: every task_dep and every setup-task of `n` ranks below `n` -/
def Acyclic (inp : RunInput) (r : Name → Nat) : Prop :=
  ∀ n, (∀ d ∈ inp.taskDep n, r d < r n) ∧ (∀ d ∈ inp.setup n, r d < r n)

theorem not_any_isBot {l : List Name} {f : Name → Den} (h : ∀ d ∈ l, f d ≠ .bot) :
    ¬ (l.any (fun d => (f d).isBot) = true) := by
  rw [List.any_eq_true]
  rintro ⟨d, hd, hb⟩
  have := h d hd
  cases hx : f d <;> simp_all [Den.isBot]

/-- with fuel above the rank the answer is determined -/
theorem denF_complete {inp : RunInput} {r : Name → Nat} (hr : Acyclic inp r) :
    ∀ (f : Nat) (n : Name), r n < f → denF inp f n ≠ .bot := by
  intro f
  induction f with
  | zero => intro n h; exact absurd h (Nat.not_lt_zero _)
  | succ f ih =>
    intro n h
    have hT := not_any_isBot (f := denF inp f) (l := inp.taskDep n)
      (fun d hd => ih d (by have := (hr n).1 d hd; omega))
    have hS := not_any_isBot (f := denF inp f) (l := inp.setup n)
      (fun d hd => ih d (by have := (hr n).2 d hd; omega))
    have hS' : ¬ (stage1 inp (denF inp f) n = .run ∧ (inp.setup n).any (fun d => (denF inp f d).isBot) = true) :=
      fun x => hS x.2
    simp only [denF, hT, hS', if_false]
    exact combine_ne_bot _ _ _

/-- on an acyclic graph every task has an outcome, computed by `denF` -/
theorem denF_is_den {inp : RunInput} {r : Name → Nat} (hr : Acyclic inp r) (f : Nat) (n : Name) (h : r n < f) :
    DenOf inp n (denF inp f n) :=
  denF_sound inp f n (denF_complete hr f n h)

theorem DenOf_total {inp : RunInput} {r : Name → Nat} (hr : Acyclic inp r) (n : Name) : ∃ d, DenOf inp n d :=
  ⟨_, denF_is_den hr (r n + 1) n (Nat.lt_succ_self _)⟩

/-- … and it is the only one: `denF` with enough fuel decides `DenOf` -/
theorem denF_unique {inp : RunInput} {r : Name → Nat} (hr : Acyclic inp r) {n : Name} {d : Den} (h : DenOf inp n d)
    (f : Nat) (hf : r n < f) : denF inp f n = d :=
  (denF_is_den hr f n hf).functional h

theorem DenOf_iff_denF {inp : RunInput} {r : Name → Nat} (hr : Acyclic inp r) (n : Name) (d : Den) (f : Nat)
    (hf : r n < f) : DenOf inp n d ↔ denF inp f n = d :=
  ⟨fun h => denF_unique hr h f hf, fun h => h ▸ denF_is_den hr f n hf⟩

/-- more fuel does not change a determined answer -/
theorem denF_mono {inp : RunInput} {f g : Nat} {n : Name} (h : denF inp f n ≠ .bot) (hg : denF inp g n ≠ .bot) :
    denF inp f n = denF inp g n :=
  (denF_sound inp f n h).functional (denF_sound inp g n hg)

end DoitModel.Run
