import DoitModel.Model.Inputs
import DoitModel.Proofs.StatusDecision
/-! # helper lemmas of C10 (model `Model/Inputs.lean` over `Model/Status.lean`) -/
namespace DoitModel.Inputs
open DoitModel.Status

/-! ## the invariant of the status model survives the split `select` / `complete` steps -/

theorem selectTask_inv {s : St} (t : Name) (h : Inv s) : Inv (selectTask s t) := by
  unfold selectTask
  cases hst : s.status true t with
  | crash => exact crashed_inv h
  | error => exact erase_inv t h
  | upToDate => exact h
  | run => exact peek_inv t h

theorem istep_inv {s : St} (op : IOp) (hop : op.faithful = true) (h : Inv s) : Inv (istep s op) := by
  cases op with
  | base o => exact step_inv o hop h
  | select t =>
    simp only [istep]
    split
    · exact h
    · exact selectTask_inv t h
  | complete t ok ws res =>
    simp only [istep]
    split
    · exact h
    · exact finish_inv t ok res (applyWrites_inv ws h)

theorem ifoldl_inv (ops : List IOp) (hf : IFaithful ops = true) (s : St) (h : Inv s) : Inv (ops.foldl istep s) := by
  induction ops generalizing s with
  | nil => exact h
  | cons o os ih =>
    simp only [IFaithful, List.all_cons, Bool.and_eq_true] at hf
    exact ih (by simpa [IFaithful] using hf.2) _ (istep_inv o hf.1 h)

theorem ifaithful_take (h : List IOp) (k : Nat) (hf : IFaithful h = true) : IFaithful (h.take k) = true := by
  unfold IFaithful at hf ⊢
  rw [List.all_eq_true] at hf ⊢
  intro o ho
  exact hf o (List.mem_of_mem_take ho)

theorem runI_inv (ops : List IOp) (hf : IFaithful ops = true) : Inv (runI ops) := ifoldl_inv ops hf _ init_inv

/-- an atomic `run` of the status model is `select` followed at once by `complete` (no `--always-execute`, task not
    ignored, status `run`) -/
theorem run_eq_select_complete (s : St) (t : Name) (ok : Bool) (ws : List (Path × Nat × Nat)) (res : Option Res)
    (hal : s.crashed = false) (hign : (s.rcd t).ign = false) (hst : s.status true t = .run)
    (hp : (peek s t).crashed = false) :
    istep (istep s (.select t)) (.complete t ok ws res) = step true s (.run t ok false ws res) := by
  simp only [istep, hal, Bool.false_eq_true, if_false, selectTask, hst, hp, step, runTask, hign]

/-! ## `changed` -/

theorem mod_cases (m : Mod) (h1 : m ≠ .same) (h2 : m ≠ .crash) : m = .modified := by
  cases m <;> simp_all

/-- in a state satisfying the invariant, when no uptodate item is false and the status check does not end in
    `error`/`crash`, every dependency that the specification marks (`needsSeen`) is in `dep_changed` -/
theorem changed_of_needsSeen {s : St} (h : Inv s) (t : Name) (p : Path)
    (hF : falseItemAt s t = false)
    (hst : s.status true t = .run ∨ s.status true t = .upToDate)
    (hp : p ∈ (s.defs t).deps) (hn : needsSeenAt s t p = true) :
    p ∈ (kwargsOf s t).changed := by
  have hres := resOf_eq_specRes h
  have hval := getValues_eq_last h t
  have hag := h.agree t
  unfold falseItemAt at hF
  simp only [kwargsOf, depChangedOf, hval, hres, hF, Bool.false_eq_true, if_false]
  have hne : (s.defs t).deps.isEmpty = false := by
    cases hd : (s.defs t).deps with
    | nil => rw [hd] at hp; simp at hp
    | cons a l => rfl
  simp only [hne, Bool.false_and, Bool.false_eq_true, if_false]
  by_cases hT : (s.defs t).targets.any (depMissing s.fs) = true
  · simp only [hT, if_true]; exact hp
  · have hT' : (s.defs t).targets.any (depMissing s.fs) = false := by simpa using hT
    simp only [hT', Bool.false_eq_true, if_false]
    by_cases hC : checkerChanged s.checker (s.rcd t) = true
    · simp only [hC, if_true]; exact hp
    · have hC' : checkerChanged s.checker (s.rcd t) = false := by simpa using hC
      simp only [hC', Bool.false_eq_true, if_false]
      have hE : earlyRun (s.defs t) (lastValues (s.shadow t)) s.specRes s.fs = false := by
        simp [earlyRun, hF, hne, hT']
      -- the status is decided by the file loop
      have hfv : fileVerdict s.checker (s.rcd t) s.fs (s.defs t).deps ≠ .error ∧
                 fileVerdict s.checker (s.rcd t) s.fs (s.defs t).deps ≠ .crash := by
        have : s.status true t ≠ .error ∧ s.status true t ≠ .crash := by
          rcases hst with h1 | h1 <;> simp [h1]
        unfold St.status statusOf at this
        rw [hres, hval, hE] at this
        simp only [Bool.false_eq_true, if_false, hC'] at this
        cases hv : fileVerdict s.checker (s.rcd t) s.fs (s.defs t).deps <;> simp [hv] at this ⊢
      have hmiss : (s.defs t).deps.any (depMissing s.fs) = false := by
        cases hm : (s.defs t).deps.any (depMissing s.fs) with
        | false => rfl
        | true => exact absurd (by simp [fileVerdict, hm]) hfv.1
      have hcr : (s.defs t).deps.any (depIs .crash s.checker (s.rcd t) s.fs) = false := by
        cases hm : (s.defs t).deps.any (depIs .crash s.checker (s.rcd t) s.fs) with
        | false => rfl
        | true => exact absurd (by simp [fileVerdict, hmiss, hm]) hfv.2
      have hpm := any_false_of hmiss hp
      have hpc := any_false_of hcr hp
      rw [List.mem_filter]
      refine ⟨hp, ?_⟩
      cases hcur : s.fs p with
      | none => simp [depMissing, hcur] at hpm
      | some cur =>
        simp only [depIs, hcur, beq_iff_eq] at hpc ⊢
        unfold needsSeenAt needsSeen at hn
        cases hs : s.shadow t with
        | none =>
          rw [hs] at hag
          simp [depVerdict, hag.2.2.2.2 p]
        | some e =>
          rw [hs] at hag hn
          obtain ⟨_, _, hck, hdeps', hfst⟩ := hag
          simp only [Bool.and_eq_true, decide_eq_true_eq, Bool.not_eq_true'] at hn
          obtain ⟨sm, hsaw, hstate⟩ := hfst p hn.1
          have hns : notSaved (s.rcd t) p = false := by simp [notSaved, hdeps', hn.1]
          have hc : e.checker = s.checker := by
            simp only [checkerChanged, hck] at hC'
            simpa using hC'
          have hu := hn.2
          simp only [depUnmod, hcur, hsaw, unmodBy, beq_eq_false_iff_ne] at hu
          simp only [depVerdict, hstate, hns, Bool.false_eq_true, if_false, hc]
          exact mod_cases _ hu (checkModified_stateOf_ne_crash _ _ _)

/-- a dependency the last recorded execution did not have and for which the record holds no (stale) state is in
    `dep_changed` under the same conditions -/
theorem changed_of_no_state {s : St} (h : Inv s) (t : Name) (p : Path)
    (hF : falseItemAt s t = false)
    (hst : s.status true t = .run ∨ s.status true t = .upToDate)
    (hp : p ∈ (s.defs t).deps) (hn : (s.rcd t).fstate p = none) :
    p ∈ (kwargsOf s t).changed := by
  have hres := resOf_eq_specRes h
  have hval := getValues_eq_last h t
  unfold falseItemAt at hF
  simp only [kwargsOf, depChangedOf, hval, hres, hF, Bool.false_eq_true, if_false]
  have hne : (s.defs t).deps.isEmpty = false := by
    cases hd : (s.defs t).deps with
    | nil => rw [hd] at hp; simp at hp
    | cons a l => rfl
  simp only [hne, Bool.false_and, Bool.false_eq_true, if_false]
  by_cases hT : (s.defs t).targets.any (depMissing s.fs) = true
  · simp only [hT, if_true]; exact hp
  · have hT' : (s.defs t).targets.any (depMissing s.fs) = false := by simpa using hT
    simp only [hT', Bool.false_eq_true, if_false]
    by_cases hC : checkerChanged s.checker (s.rcd t) = true
    · simp only [hC, if_true]; exact hp
    · have hC' : checkerChanged s.checker (s.rcd t) = false := by simpa using hC
      simp only [hC', Bool.false_eq_true, if_false]
      have hE : earlyRun (s.defs t) (lastValues (s.shadow t)) s.specRes s.fs = false := by
        simp [earlyRun, hF, hne, hT']
      have hfv : fileVerdict s.checker (s.rcd t) s.fs (s.defs t).deps ≠ .error := by
        have : s.status true t ≠ .error := by
          rcases hst with h1 | h1 <;> simp [h1]
        unfold St.status statusOf at this
        rw [hres, hval, hE] at this
        simp only [Bool.false_eq_true, if_false, hC'] at this
        cases hv : fileVerdict s.checker (s.rcd t) s.fs (s.defs t).deps <;> simp [hv] at this ⊢
      have hmiss : (s.defs t).deps.any (depMissing s.fs) = false := by
        cases hm : (s.defs t).deps.any (depMissing s.fs) with
        | false => rfl
        | true => exact absurd (by simp [fileVerdict, hm]) hfv
      have hpm := any_false_of hmiss hp
      rw [List.mem_filter]
      refine ⟨hp, ?_⟩
      cases hcur : s.fs p with
      | none => simp [depMissing, hcur] at hpm
      | some cur => simp [depIs, hcur, depVerdict, hn]

/-! ### the repaired loop (findings/pending/C10-readded-dep-stale-state.md) -/

theorem repaired_superset (c : Checker) (d : TaskDef) (r : Rcd) (fs : FS) (resOf : Name → Option Res) (p : Path)
    (h : p ∈ depChangedOf c d r fs resOf) : p ∈ depChangedRepaired c d r fs resOf := by
  unfold depChangedOf at h
  unfold depChangedRepaired
  by_cases h1 : utdFalse r.getValues resOf d.uptodate = true
  · rw [if_pos h1] at h; simp at h
  · rw [if_neg h1] at h ⊢
    by_cases h2 : (d.deps.isEmpty && !utdEvaluated r.getValues resOf d.uptodate) = true
    · rw [if_pos h2] at h; simp at h
    · rw [if_neg h2] at h ⊢
      by_cases h3 : d.targets.any (depMissing fs) = true
      · rw [if_pos h3] at h ⊢; exact h
      · rw [if_neg h3] at h ⊢
        by_cases h4 : checkerChanged c r = true
        · rw [if_pos h4] at h ⊢; exact h
        · rw [if_neg h4] at h ⊢
          rw [List.mem_filter] at h ⊢
          exact ⟨h.1, by simp [h.2]⟩

theorem repaired_new_dep {s : St} (h : Inv s) (t : Name) (p : Path) (e : Exec)
    (hF : falseItemAt s t = false) (hp : p ∈ (s.defs t).deps) (hs : s.shadow t = some e) (hn : p ∉ e.deps) :
    p ∈ (kwargsRepaired s t).changed := by
  have hres := resOf_eq_specRes h
  have hval := getValues_eq_last h t
  have hag := h.agree t
  rw [hs] at hag
  unfold falseItemAt at hF
  simp only [kwargsRepaired, depChangedRepaired, hval, hres, hF, Bool.false_eq_true, if_false]
  have hne : (s.defs t).deps.isEmpty = false := by
    cases hd : (s.defs t).deps with
    | nil => rw [hd] at hp; simp at hp
    | cons a l => rfl
  simp only [hne, Bool.false_and, Bool.false_eq_true, if_false]
  split
  · exact hp
  · split
    · exact hp
    · rw [List.mem_filter]
      refine ⟨hp, ?_⟩
      have : depNotPrev (s.rcd t) p = true := by simp [depNotPrev, hag.2.2.2.1, hn]
      simp [this]

/-- a file dependency that differs from what the last recorded execution saw makes the task not up-to-date -/
theorem needed_not_uptodate {s : St} (h : Inv s) (t : Name) (p : Path)
    (hp : p ∈ (s.defs t).deps) (hn : needsAt s t p = true) : s.status true t ≠ .upToDate := by
  intro hst
  have hspec := (decision_eq_spec h t).mp hst
  unfold needsAt needs at hn
  unfold St.spec specUpToDate at hspec
  cases hs : s.shadow t with
  | none =>
    rw [hs] at hspec
    simp only [Bool.and_eq_true] at hspec
    have : (s.defs t).deps = [] := by simpa using hspec.2
    rw [this] at hp; simp at hp
  | some e =>
    rw [hs] at hspec hn
    simp only [Bool.and_eq_true, List.all_eq_true] at hspec
    obtain ⟨_, ⟨_, hss⟩, hall⟩ := hspec
    simp only [Bool.or_eq_true, Bool.not_eq_true', decide_eq_false_iff_not] at hn
    rcases hn with hn | hn
    · exact hn (sameSet_mem hss hp)
    · have := hall p hp
      rw [hn] at this; simp at this

/-! ## `update_deps` -/

theorem mem_addDeps (base delivered : List Path) (p : Path) :
    p ∈ addDeps base delivered ↔ p ∈ base ∨ p ∈ delivered := by
  unfold addDeps
  simp only [List.mem_append, List.mem_eraseDups, List.mem_filter, Bool.not_eq_true', decide_eq_false_iff_not]
  constructor
  · rintro (h | ⟨h, _⟩)
    · exact Or.inl h
    · exact Or.inr h
  · rintro (h | h)
    · exact Or.inl h
    · by_cases hb : p ∈ base
      · exact Or.inl hb
      · exact Or.inr ⟨h, hb⟩

/-! ## values -/

theorem latest_append_single (rev : List VOp) (k : Name) (o : VOp) (db : VDB) (h : db k = latest rev k) :
    vstep db o k = latest (o :: rev) k := by
  cases o with
  | save t v => simp only [vstep, latest]; split <;> simp_all
  | remove t => simp only [vstep, latest]; split <;> simp_all
  | other => simpa [vstep, latest] using h

theorem vfoldl_latest (ops : List VOp) (db : VDB) (rev : List VOp) (h : ∀ k, db k = latest rev k) :
    ∀ k, ops.foldl vstep db k = latest (ops.reverse ++ rev) k := by
  induction ops generalizing db rev with
  | nil => simpa using h
  | cons o os ih =>
    intro k
    simp only [List.foldl_cons, List.reverse_cons, List.append_assoc, List.singleton_append]
    exact ih (vstep db o) (o :: rev) (fun k => latest_append_single rev k o db (h k)) k

/-- the `_values_:` entry of every task is, after any sequence of DB effects, what the most recent successful
    execution still recorded saved -/
theorem vrun_eq_latest (ops : List VOp) : vrun ops = latest ops.reverse := by
  funext k
  have := vfoldl_latest ops (fun _ => none) [] (fun k => by simp [latest]) k
  simpa [vrun] using this

end DoitModel.Inputs
