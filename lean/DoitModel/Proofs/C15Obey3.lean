import DoitModel.Proofs.C15Obey2
/-! # Delayed creation: `ObeyInv` holds in every reachable state

`ObeyInv` = `ObeyCore` + "the node the dispatcher has just yielded has exhausted its generator with nothing pending
and nothing awaited".  The second part needs to know where the generator can be suspended (`*_susp` lemmas). -/
namespace DoitModel.Delayed
open DoitModel.Run (RS Name)

structure ObeyInv (inp : Input) (s : Sys) : Prop where
  core : ObeyCore inp s
  yld : ∀ n, s.susp = .yielded n → ∀ nd, s.nodes n = some nd →
    nd.pc = .done ∧ nd.pend = [] ∧ nd.waitRun = [] ∧ nd.task.loader = none

theorem genStep_susp {s : Sys} {n : Name} {nd : Node} {d : Name} {pc' : PC} {m : Name}
    (h : (genStep s n nd d pc').susp = .yielded m) : s.susp = .yielded m := by
  unfold genStep at h
  repeat' split at h
  all_goals first | exact h | (simp at h)

theorem regexBlock_susp {inp : Input} {s : Sys} {l : LId} {g : GId} {m : Name}
    (h : (regexBlock inp s l g).susp = .yielded m) : s.susp = .yielded m := by
  unfold regexBlock at h
  repeat' split at h
  all_goals first | exact h | (simp at h)

theorem finishLoader_susp {s : Sys} {n : Name} {nd : Node} {l : LId} {tk' : TDef} {m : Name}
    (h : (finishLoader s n nd l tk').susp = .yielded m) : s.susp = .yielded m := by
  unfold finishLoader at h
  repeat' split at h
  all_goals first | exact h | (simp at h)

theorem evalCreator_susp {inp : Input} {s : Sys} {l : LId} {tname : Name} {m : Name}
    (h : (evalCreator inp s l tname b).susp = .yielded m) : s.susp = .yielded m := by
  unfold evalCreator at h
  repeat' split at h
  all_goals first | exact h | (simp at h)

theorem afterCreate_susp {inp : Input} {s : Sys} {n : Name} {nd : Node} {l : LId} {m : Name}
    (h : (afterCreate inp s n nd l).susp = .yielded m) : s.susp = .yielded m := by
  unfold afterCreate at h
  split at h
  · exact finishLoader_susp h
  · split at h
    · exact regexBlock_susp h
    · exact regexBlock_susp (finishLoader_susp h)

theorem loaderStep_susp {inp : Input} {s : Sys} {n : Name} {nd : Node} {l : LId} {m : Name}
    (h : (loaderStep inp s n nd l).susp = .yielded m) : s.susp = .yielded m := by
  unfold loaderStep at h
  split at h
  · simp at h
  · split at h
    · split at h
      · exact evalCreator_susp h
      · exact evalCreator_susp (afterCreate_susp h)
    · exact afterCreate_susp h

theorem nodeStep_susp {inp : Input} {s : Sys} {n : Name} {nd : Node} {m : Name}
    (h : (nodeStep inp s n nd).susp = .yielded m) : s.susp = .yielded m ∨ (nd.pc = .self1 ∧ m = n) := by
  unfold nodeStep at h
  cases hpc : nd.pc with
  | start => simp only [hpc] at h; split at h <;> exact Or.inl h
  | loopTop => simp only [hpc] at h; exact Or.inl h
  | taskIter todo =>
    cases todo with
    | nil => simp only [hpc] at h; exact Or.inl h
    | cons d ds => simp only [hpc] at h; exact Or.inl (genStep_susp h)
  | afterDeps =>
    simp only [hpc] at h
    split at h
    · exact Or.inl h
    · split at h <;> exact Or.inl h
  | loaderPc =>
    simp only [hpc] at h
    split at h
    · exact Or.inl h
    · exact Or.inl (loaderStep_susp h)
  | self1 =>
    simp only [hpc] at h
    right
    refine ⟨rfl, ?_⟩
    have : Susp.yielded n = Susp.yielded m := h
    cases this; rfl
  | done => simp only [hpc] at h; exact Or.inl h

theorem dtick_susp {inp : Input} {s : Sys} {m : Name} (h : (dtick inp s).susp = .yielded m) :
    s.susp = .yielded m ∨ ∃ nd, s.cur = some m ∧ s.nodes m = some nd ∧ nd.pc = .self1 := by
  unfold dtick at h
  cases hc : s.cur with
  | some n =>
    simp only [hc] at h
    cases hn : s.nodes n with
    | none => simp [hn] at h
    | some nd =>
      simp only [hn] at h
      rcases nodeStep_susp h with h1 | ⟨h1, h2⟩
      · exact Or.inl h1
      · subst h2; exact Or.inr ⟨nd, rfl, hn, h1⟩
  | none =>
    simp only [hc] at h
    repeat' split at h
    all_goals first | exact Or.inl h | (simp at h)

theorem handBack_susp {inp : Input} {s s' : Sys} {n : Name} {perm : List Name}
    (h : handBack inp s n perm = some s') (m : Name) : s'.susp ≠ .yielded m := by
  unfold handBack at h
  split at h
  · cases h; intro e; cases e
  · rcases feed_susp h with h1 | ⟨e, h1⟩ <;> (rw [h1]; intro e; cases e)

theorem selectStep_susp {inp : Input} {s s' : Sys} {n : Name} {perm : List Name}
    (h : selectStep inp s n perm = some s') (m : Name) : s'.susp ≠ .yielded m := by
  unfold selectStep at h
  cases hn : s.nodes n with
  | none => simp only [hn] at h; cases h; intro e; cases e
  | some nd =>
    simp only [hn] at h
    split at h
    · cases h; intro e; cases e
    · split at h
      · exact handBack_susp h m
      · split at h
        · exact handBack_susp h m
        · cases h; intro e; cases e

theorem finishStep_susp {inp : Input} {s s' : Sys} {n : Name} {perm : List Name}
    (h : finishStep inp s n perm = some s') (m : Name) : s'.susp ≠ .yielded m := by
  unfold finishStep at h
  split at h
  · rename_i hg
    have hsm : s.susp ≠ .yielded m := by
      rcases hg.2 with h1 | h1 | h1 <;> (rw [h1]; intro e; cases e)
    have hfeed : ∀ {x : Sys}, feed x n perm = some s' → s'.susp ≠ .yielded m := by
      intro x hx
      rcases feed_susp hx with h1 | ⟨e, h1⟩ <;> (rw [h1]; intro e; cases e)
    cases hn : s.nodes n with
    | none => simp only [hn] at h; cases h
    | some nd =>
      simp only [hn] at h
      split at h
      · cases h
      · split at h
        · split at h
          · exact hfeed h
          · cases h; exact hsm
        · split at h
          · cases h; exact hsm
          · exact hfeed h
  · cases h

theorem obey_init (inp : Input) : ObeyInv inp (init inp) :=
  ⟨⟨fun _ _ h => by simp [init] at h, fun d hd => by simp [stOf, init] at hd, fun d hd => by simp [stOf, init] at hd,
    fun d hd => by simp [stOf, init] at hd, rfl, rfl⟩, fun n h => by simp [init] at h⟩

theorem obey_step {inp : Input} {s s' : Sys} {c : Choice} (h : ObeyInv inp s) (ha : AfterInv inp s)
    (hs : step inp s c = some s') : ObeyInv inp s' := by
  cases c with
  | tick perm =>
    simp only [step] at hs
    cases hsu : s.susp with
    | running =>
      simp only [hsu] at hs; cases hs
      refine ⟨core_dtick h.core ha, ?_⟩
      intro m hm nd' hnd'
      rcases dtick_susp hm with h1 | ⟨nd, hc, hn, hpc⟩
      · rw [hsu] at h1; cases h1
      · have hq := (h.core.node m nd hn).2.1 hpc
        have : dtick inp s = { setNode s m { nd with pc := .done } with
                               dispatched := addDispatched s m, susp := .yielded m } := by
          simp only [dtick, hc, hn, nodeStep, hpc]
        rw [this] at hnd'
        simp only [setNode, if_true] at hnd'
        cases hnd'
        exact ⟨rfl, hq.1, hq.2.1, hq.2.2⟩
    | yielded n =>
      simp only [hsu] at hs
      exact ⟨core_selectStep h.core ha (h.yld n hsu) hs, fun m hm => absurd hm (selectStep_susp hs m)⟩
    | idle => simp [hsu] at hs
    | holdOn => simp [hsu] at hs
    | stopIter => simp [hsu] at hs
    | err e => simp [hsu] at hs
  | resume =>
    simp only [step] at hs
    split at hs
    · cases hs; exact ⟨h.core.congr rfl rfl, fun m hm => by cases hm⟩
    · cases hs
  | finish n perm =>
    exact ⟨core_finishStep h.core ha hs, fun m hm => absurd hm (finishStep_susp hs m)⟩

theorem obey_reach {inp : Input} (wf : TrigWF inp) {s : Sys} (hr : Reach inp s) : ObeyInv inp s := by
  induction hr with
  | init => exact obey_init inp
  | next hr' hs ih => exact obey_step ih (after_reach wf hr') hs

/-- reading `obeyOK` at one `start`: the good reports of the dependencies are in the older part of the trace -/
theorem obeyOK_start_split (deps : Name → List Name) (na : Name → Bool) :
    ∀ (ev : List Ev) (t : Name) (post pre : List Ev), ev = post ++ Ev.start t :: pre → obeyOK deps na ev = true →
      ∀ d ∈ deps t, Ev.success d ∈ pre ∨ Ev.skipUtd d ∈ pre := by
  intro ev t post
  induction post generalizing ev with
  | nil =>
    intro pre hev ho d hd
    subst hev
    simp only [List.nil_append, obeyOK, Bool.and_eq_true, List.all_eq_true, List.any_eq_true] at ho
    obtain ⟨e, he, h2⟩ := ho.1.1.1 d hd
    simp only [Bool.or_eq_true, decide_eq_true_eq] at h2
    rcases h2 with h2 | h2
    · subst h2; exact Or.inl he
    · subst h2; exact Or.inr he
  | cons e post ih =>
    intro pre hev ho
    subst hev
    have : obeyOK deps na (post ++ Ev.start t :: pre) = true := by
      cases e <;> simp only [List.cons_append, obeyOK, Bool.and_eq_true] at ho
      · exact ho
      · exact ho.2
      · exact ho.2
      · exact ho.2
      · exact ho.2
      · exact ho.2
    exact ih _ pre rfl this

end DoitModel.Delayed
