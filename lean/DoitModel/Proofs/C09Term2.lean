import DoitModel.Proofs.C09Term1
/-! # C09 — termination, part 2: every step of the dispatcher generator decreases the measure -/
namespace DoitModel.Run

variable {inp : RunInput} {N : Nat}

def SameM (inp : RunInput) (N : Nat) (s' t : Sys) : Prop :=
  L1 N s' = L1 N t ∧ L2 N s' = L2 N t ∧ linS inp N s' = linS inp N t

theorem SameM.of_nodes {s' t : Sys} (e : s'.nodes = t.nodes) : SameM inp N s' t := by
  simp [SameM, L1, L2, linS, e]

theorem SameM.trans {a b c : Sys} (h1 : SameM inp N a b) (h2 : SameM inp N b c) : SameM inp N a c :=
  ⟨h1.1.trans h2.1, h1.2.1.trans h2.2.1, h1.2.2.trans h2.2.2⟩

theorem sameM_registerWaiting (s : Sys) (n : Name) (wf : List Name) : SameM inp N (registerWaiting s n wf) s :=
  registerWaiting_facts s n wf

theorem mlt_upd {s s' : Sys} {n : Name} {nd x : Node} (hn : s.nodes n = some nd) (hN : n < N)
    (hm : SameM inp N s' (setNode s n x))
    (h : calOf N x < calOf N nd ∨
      (calOf N x = calOf N nd ∧ linNode inp n x + restOf s' < linNode inp n nd + restOf s)) : MLt inp N s' s := by
  obtain ⟨u1, ⟨r2, a2, b2⟩, ⟨r3, a3, b3⟩⟩ := upd_facts (inp := inp) (N := N) hn hN x
  obtain ⟨m1, m2, m3⟩ := hm
  right; refine ⟨by omega, ?_⟩
  rcases h with h | ⟨h1, h2⟩
  · left; omega
  · right; exact ⟨by omega, by omega⟩

theorem gle_upd {s s' : Sys} {n : Name} {nd x : Node} (hn : s.nodes n = some nd) (hN : n < N)
    (hm : SameM inp N s' (setNode s n x))
    (h : calOf N x < calOf N nd ∨
      (calOf N x = calOf N nd ∧ linNode inp n x + 5 * s'.ready.length ≤ linNode inp n nd + 5 * s.ready.length)) :
    GLe inp N s' s := by
  obtain ⟨u1, ⟨r2, a2, b2⟩, ⟨r3, a3, b3⟩⟩ := upd_facts (inp := inp) (N := N) hn hN x
  obtain ⟨m1, m2, m3⟩ := hm
  refine ⟨by omega, ?_⟩
  rcases h with h | ⟨h1, h2⟩
  · left; omega
  · right; exact ⟨by omega, by omega⟩

theorem mlt_same {s s' : Sys} (e : s'.nodes = s.nodes) (h : restOf s' < restOf s) : MLt inp N s' s := by
  obtain ⟨m1, m2, m3⟩ := SameM.of_nodes (inp := inp) (N := N) e
  right; refine ⟨m1, Or.inr ⟨m2, by omega⟩⟩

theorem mlt_create {s s' : Sys} {d : Name} (hd : s.nodes d = none) (hd' : (s'.nodes d).isSome = true) (hlt : d < N)
    (keep : ∀ k, (s'.nodes k).isNone = true → (s.nodes k).isNone = true) : MLt inp N s' s :=
  Or.inl (cntNone_lt hlt hd hd' keep)

/-! ### `_node_add_wait_run` -/

theorem waitNode_calc_lt (hF : FiniteTable inp N) (s : Sys) (n : Name) (nd : Node) (hpc : nd.pc = .calcIter []) :
    calOf N (waitNode inp s nd nd.snapCalc true (.taskIter nd.snapTask)) < calOf N nd ∨
    (calOf N (waitNode inp s nd nd.snapCalc true (.taskIter nd.snapTask)) = calOf N nd ∧
     linNode inp n (waitNode inp s nd nd.snapCalc true (.taskIter nd.snapTask)) < linNode inp n nd) := by
  have g := (absorbDone_spec inp s true nd.snapCalc nd).1
  have hm2 := absorbDone_m2 hF s true nd.snapCalc nd
  unfold m2Of at hm2
  by_cases hall : ∀ d ∈ nd.snapCalc, unfinished s d = true
  · right
    have ea := absorbDone_all_unfinished (inp := inp) s true nd.snapCalc nd hall
    have ef : nd.snapCalc.filter (unfinished s) = nd.snapCalc := List.filter_eq_self.mpr hall
    simp only [waitNode, addWaits, ea, ef, if_true]
    constructor
    · simp [calOf, hpc, PC.iterC]; omega
    · simp [linNode, todoOf, posOf, setupTerm, hpc, PC.iterC, PC.iterT, PC.loopback]; omega
  · left
    have hlt : (nd.snapCalc.filter (unfinished s)).length < nd.snapCalc.length := by
      apply List.length_filter_lt_length_iff_exists.mpr
      have ⟨d, hd⟩ := Classical.not_forall.mp hall
      obtain ⟨h1, h2⟩ := Classical.not_imp.mp hd
      exact ⟨d, h1, h2⟩
    simp only [waitNode, addWaits, if_true]
    simp only [calOf, hpc, PC.iterC, if_true, List.length_append, g.waitRunCalc]
    simp only [Bool.false_eq_true, if_false]
    omega

/-- `_node_add_wait_run` for task_deps / setup-tasks changes only `wait_run`, the position and `bad_deps`/`ignored_deps` -/
theorem waitNode_plain_fields (s : Sys) (nd : Node) (ds : List Name) (pc' : PC) :
    let x := waitNode inp s nd ds false pc'
    x.dynCalc = nd.dynCalc ∧ x.pendCalc = nd.pendCalc ∧ x.pendTask = nd.pendTask ∧ x.snapTask = nd.snapTask ∧
    x.snapCalc = nd.snapCalc ∧ x.waitRunCalc = nd.waitRunCalc ∧ x.waitRun = ds.filter (unfinished s) ++ nd.waitRun ∧
    x.pc = pc' ∧ x.waitSelect = nd.waitSelect := by
  obtain ⟨g, sd, _⟩ := absorbDone_spec inp s false ds nd
  obtain ⟨_, s2, s3, s4⟩ := sd rfl
  simp only [waitNode, addWaits, Bool.false_eq_true, if_false]
  refine ⟨s2, s4, s3, g.snapTask, g.snapCalc, g.waitRunCalc, by rw [g.waitRun], ?_, g.waitSelect⟩
  trivial

/-! ### `_add_task`: one step of the current node -/

theorem restOf_setNode (s : Sys) (n : Name) (x : Node) : restOf (setNode s n x) = restOf s := rfl

theorem nodeStep_mlt {s s' : Sys} {n : Name} {nd : Node} {perm : List Name} (hF : FiniteTable inp N)
    (hc : s.cur = some n) (hn : s.nodes n = some nd) (hN : n < N) {b : Nat} (hw : ∀ o, rOf s.rpc o = b + wRank o)
    (hsu : s.susp = none)
    (hb' : ∀ k y, s'.nodes k = some y → k < N)
    (hs : nodeStep inp s n nd perm = some s') : MLt inp N s' s := by
  have hrest : restOf s = 5 * s.ready.length + s.toRun.length + 4 + (b + 3) := by simp [restOf, curW, hc, hw, hsu, wRank]
  -- the three outcomes of `_gen_node`
  have gen : ∀ (d : Name) (pc' : PC), s' = genStep inp s n nd d pc' →
      (calOf N { nd with pc := pc' } = calOf N nd ∧ linNode inp n { nd with pc := pc' } < linNode inp n nd) →
      MLt inp N s' s := by
    intro d pc' e hx
    subst e
    unfold genStep at hb' ⊢
    cases hd : s.nodes d with
    | none =>
      simp only [hd] at hb' ⊢
      have hdn : d ≠ n := by intro e; subst e; rw [hn] at hd; cases hd
      refine mlt_create hd ?_ (hb' d (mkNode inp d (nd.anc ++ [d])) (by simp [setNode, hdn])) ?_
      · simp [setNode, hdn]
      · intro k hk
        by_cases e1 : k = n
        · simp [setNode, e1] at hk
        · by_cases e2 : k = d
          · subst e2; simp [setNode, hdn] at hk
          · simpa [setNode, e1, e2] using hk
    | some y =>
      simp only []
      split
      · exact mlt_same rfl (by simp [restOf, curW, hc, hw, hsu, wRank])
      · exact mlt_upd hn hN (SameM.of_nodes rfl) (Or.inr ⟨hx.1, by rw [restOf_setNode]; omega⟩)
  -- `_node_add_wait_run`
  have wait : ∀ (ds : List Name) (c : Bool) (pc' : PC), s' = addWaitRun inp s n nd ds c pc' →
      (calOf N (waitNode inp s nd ds c pc') < calOf N nd ∨
        (calOf N (waitNode inp s nd ds c pc') = calOf N nd ∧
          linNode inp n (waitNode inp s nd ds c pc') < linNode inp n nd)) → MLt inp N s' s := by
    intro ds c pc' e hx
    subst e
    refine mlt_upd (x := waitNode inp s nd ds c pc') hn hN (sameM_registerWaiting _ _ _) ?_
    have : restOf (addWaitRun inp s n nd ds c pc') = restOf s := rfl
    rcases hx with a | ⟨a, b⟩
    · exact Or.inl a
    · exact Or.inr ⟨a, by omega⟩
  unfold nodeStep at hs
  cases hpc : nd.pc with
  | loopTop =>
    simp only [hpc] at hs; split at hs
    · rename_i hp; cases hs
      have hl : perm.length = nd.pendCalc.length := hp.length_eq
      refine mlt_upd hn hN (SameM.of_nodes rfl) (Or.inr ⟨?_, ?_⟩)
      · simp [calOf, hpc, PC.iterC, hl]
      · rw [restOf_setNode]
        simp [linNode, todoOf, posOf, setupTerm, hpc, PC.iterC, PC.iterT, PC.loopback, hl]; omega
    · cases hs
  | calcIter todo =>
    simp only [hpc] at hs
    cases todo with
    | cons d ds =>
      cases hs
      refine gen d _ rfl ⟨?_, ?_⟩
      · simp [calOf, hpc, PC.iterC]
      · simp [linNode, todoOf, posOf, setupTerm, hpc, PC.iterC, PC.iterT, PC.loopback]
    | nil => cases hs; exact wait _ _ _ rfl (waitNode_calc_lt hF s n nd hpc)
  | taskIter todo =>
    simp only [hpc] at hs
    cases todo with
    | cons d ds =>
      cases hs
      refine gen d _ rfl ⟨?_, ?_⟩
      · simp [calOf, hpc, PC.iterC]
      · simp [linNode, todoOf, posOf, setupTerm, hpc, PC.iterC, PC.iterT, PC.loopback]
    | nil =>
      cases hs
      refine wait _ _ _ rfl (Or.inr ?_)
      obtain ⟨f1, f2, f3, f4, f5, f6, f7, f8, f9⟩ := waitNode_plain_fields (inp := inp) s nd nd.snapTask .afterDeps
      have hle : (nd.snapTask.filter (unfinished s)).length ≤ nd.snapTask.length := List.length_filter_le _ _
      constructor
      · simp only [calOf, f1, f2, f5, f6, f8, hpc, PC.iterC]
      · simp only [linNode, todoOf, f2, f3, f4, f5, f6, f7, f8, f9, hpc]
        simp [posOf, setupTerm, PC.iterC, PC.iterT, PC.loopback]; omega
  | afterDeps =>
    simp only [hpc] at hs
    split at hs
    · rename_i hp; cases hs
      have hpos : nd.pendTask.length + nd.pendCalc.length ≥ 1 := by
        rcases hp with a | a
        · have := List.length_pos_iff.mpr a; omega
        · have := List.length_pos_iff.mpr a; omega
      refine mlt_upd hn hN (SameM.of_nodes rfl) (Or.inr ⟨?_, ?_⟩)
      · simp [calOf, hpc, PC.iterC]
      · rw [restOf_setNode]
        simp [linNode, todoOf, posOf, setupTerm, hpc, PC.iterC, PC.iterT, PC.loopback]; omega
    · split at hs
      · cases hs
        refine mlt_upd (x := { nd with pc := .loopTop }) hn hN (SameM.of_nodes rfl) (Or.inr ⟨?_, ?_⟩)
        · simp [calOf, hpc, PC.iterC]
        · rename_i hp _
          have hp0 : nd.pendTask.length + nd.pendCalc.length = 0 := by
            simp only [ne_eq, not_or, Decidable.not_not] at hp
            simp [hp.1, hp.2]
          simp [restOf, curW, hc, hw, hsu, wRank]
          simp [linNode, todoOf, posOf, setupTerm, hpc, PC.iterC, PC.iterT, PC.loopback]; omega
      · cases hs
        refine mlt_upd hn hN (SameM.of_nodes rfl) (Or.inr ⟨?_, ?_⟩)
        · simp [calOf, hpc, PC.iterC]
        · rw [restOf_setNode]
          simp [linNode, todoOf, posOf, setupTerm, hpc, PC.iterC, PC.iterT, PC.loopback]; omega
  | self1 =>
    simp only [hpc] at hs; cases hs
    refine mlt_upd (x := { nd with pc := .afterSelf1 }) hn hN (SameM.of_nodes rfl) (Or.inr ⟨?_, ?_⟩)
    · simp [calOf, hpc, PC.iterC]
    · simp [restOf, curW, hc, hw, hsu, wRank]
      simp [linNode, todoOf, posOf, setupTerm, hpc, PC.iterC, PC.iterT, PC.loopback]; omega
  | afterSelf1 =>
    simp only [hpc] at hs
    split at hs
    · rename_i hsetup; cases hs
      refine mlt_upd hn hN (SameM.of_nodes rfl) (Or.inr ⟨?_, ?_⟩)
      · simp [calOf, hpc, PC.iterC]
      · rw [restOf_setNode]
        simp [linNode, todoOf, posOf, setupTerm, hpc, PC.iterC, PC.iterT, PC.loopback, hsetup]
    · split at hs
      · cases hs
        refine mlt_upd (x := { nd with pc := .setupDecide, waitSelect := true }) hn hN (SameM.of_nodes rfl)
          (Or.inr ⟨?_, ?_⟩)
        · simp [calOf, hpc, PC.iterC]
        · simp [restOf, curW, hc, hw, hsu, wRank]
          simp [linNode, todoOf, posOf, setupTerm, hpc, PC.iterC, PC.iterT, PC.loopback]; split <;> omega
      · cases hs
        refine mlt_upd hn hN (SameM.of_nodes rfl) (Or.inr ⟨?_, ?_⟩)
        · simp [calOf, hpc, PC.iterC]
        · rw [restOf_setNode]
          simp [linNode, todoOf, posOf, setupTerm, hpc, PC.iterC, PC.iterT, PC.loopback]
  | setupDecide =>
    simp only [hpc] at hs
    split at hs
    · cases hs
      refine mlt_upd hn hN (SameM.of_nodes rfl) (Or.inr ⟨?_, ?_⟩)
      · simp [calOf, hpc, PC.iterC]
      · rw [restOf_setNode]
        simp [linNode, todoOf, posOf, setupTerm, hpc, PC.iterC, PC.iterT, PC.loopback]; omega
    · cases hs
      refine mlt_upd hn hN (SameM.of_nodes rfl) (Or.inr ⟨?_, ?_⟩)
      · simp [calOf, hpc, PC.iterC]
      · rw [restOf_setNode]
        simp [linNode, todoOf, posOf, setupTerm, hpc, PC.iterC, PC.iterT, PC.loopback]; omega
  | setupIter todo =>
    simp only [hpc] at hs
    cases todo with
    | cons d ds =>
      cases hs
      refine gen d _ rfl ⟨?_, ?_⟩
      · simp [calOf, hpc, PC.iterC]
      · simp [linNode, todoOf, posOf, setupTerm, hpc, PC.iterC, PC.iterT, PC.loopback]
    | nil =>
      cases hs
      refine wait _ _ _ rfl (Or.inr ?_)
      obtain ⟨f1, f2, f3, f4, f5, f6, f7, f8, f9⟩ := waitNode_plain_fields (inp := inp) s nd (inp.setup n) .afterSetup
      have hle : ((inp.setup n).filter (unfinished s)).length ≤ (inp.setup n).length := List.length_filter_le _ _
      constructor
      · simp only [calOf, f1, f2, f5, f6, f8, hpc, PC.iterC]
      · simp only [linNode, todoOf, f2, f3, f4, f5, f6, f7, f8, f9, hpc]
        simp [posOf, setupTerm, PC.iterC, PC.iterT, PC.loopback]; omega
  | afterSetup =>
    simp only [hpc] at hs
    split at hs
    · cases hs
      refine mlt_upd (x := { nd with pc := .self2 }) hn hN (SameM.of_nodes rfl) (Or.inr ⟨?_, ?_⟩)
      · simp [calOf, hpc, PC.iterC]
      · simp [restOf, curW, hc, hw, hsu, wRank]
        simp [linNode, todoOf, posOf, setupTerm, hpc, PC.iterC, PC.iterT, PC.loopback]; omega
    · cases hs
      refine mlt_upd hn hN (SameM.of_nodes rfl) (Or.inr ⟨?_, ?_⟩)
      · simp [calOf, hpc, PC.iterC]
      · rw [restOf_setNode]
        simp [linNode, todoOf, posOf, setupTerm, hpc, PC.iterC, PC.iterT, PC.loopback]
  | self2 =>
    simp only [hpc] at hs; cases hs
    refine mlt_upd (x := { nd with pc := .afterSelf2 }) hn hN (SameM.of_nodes rfl) (Or.inr ⟨?_, ?_⟩)
    · simp [calOf, hpc, PC.iterC]
    · simp [restOf, curW, hc, hw, hsu, wRank]
      simp [linNode, todoOf, posOf, setupTerm, hpc, PC.iterC, PC.iterT, PC.loopback]; omega
  | afterSelf2 =>
    simp only [hpc] at hs; cases hs
    refine mlt_upd hn hN (SameM.of_nodes rfl) (Or.inr ⟨?_, ?_⟩)
    · simp [calOf, hpc, PC.iterC]
    · rw [restOf_setNode]
      simp [linNode, todoOf, posOf, setupTerm, hpc, PC.iterC, PC.iterT, PC.loopback]
  | done =>
    simp only [hpc] at hs; cases hs
    exact mlt_same rfl (by simp [restOf, curW, hc, hw, hsu, wRank])

theorem dtick_mlt {s s' : Sys} {perm : List Name} (hF : FiniteTable inp N) {b : Nat}
    (hw : ∀ o, rOf s.rpc o = b + wRank o) (hsu : s.susp = none)
    (hb : ∀ k y, s.nodes k = some y → k < N) (hb' : ∀ k y, s'.nodes k = some y → k < N)
    (hs : dtick inp s perm = some s') : MLt inp N s' s := by
  unfold dtick at hs
  cases hc : s.cur with
  | some n =>
    simp only [hc] at hs
    cases hn : s.nodes n with
    | none => simp only [hn] at hs; cases hs; exact mlt_same rfl (by simp [restOf, curW, hc, hw, hsu, wRank])
    | some nd => simp only [hn] at hs; exact nodeStep_mlt hF hc hn (hb n nd hn) hw hsu hb' hs
  | none =>
    simp only [hc] at hs
    cases hrd : s.ready with
    | cons r rs =>
      simp only [hrd] at hs; cases hs
      exact mlt_same rfl (by simp [restOf, curW, hc, hw, hsu, wRank, hrd]; omega)
    | nil =>
      simp only [hrd] at hs
      cases htr : s.toRun with
      | cons t ts =>
        simp only [htr] at hs
        cases ht : s.nodes t with
        | none =>
          simp only [ht] at hs; cases hs
          refine mlt_create ht (by simp [setNode]) (hb' t (mkNode inp t [t]) (by simp [setNode])) ?_
          intro k hk
          simp only [setNode] at hk
          by_cases e : k = t
          · simp [e] at hk
          · simpa [e] using hk
        | some y =>
          simp only [ht] at hs; cases hs
          exact mlt_same rfl (by simp [restOf, curW, hc, hw, hsu, wRank, hrd, htr])
      | nil =>
        simp only [htr] at hs
        split at hs
        · split at hs <;> (cases hs; exact mlt_same rfl (by simp [restOf, curW, hc, hw, hsu, wRank, hrd, htr]))
        · cases hs; exact mlt_same rfl (by simp [restOf, curW, hc, hw, hsu, wRank, hrd, htr])

end DoitModel.Run
