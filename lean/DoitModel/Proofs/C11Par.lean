import DoitModel.Proofs.C11Base
/-! # C11: the base invariant `TdB` along the steps of the parallel runners -/
namespace DoitModel.Run

/-- `TdB` looks at six fields only -/
theorem TdB.of_eq {inp : RunInput} {a b : Sys} (h : TdB inp a) (e1 : b.events = a.events) (e2 : b.tdown = a.tdown)
    (e3 : b.nStarted = a.nStarted) (e4 : b.workers = a.workers) (e5 : b.rpc = a.rpc) (e6 : b.halt = a.halt) :
    TdB inp b := by
  refine h.plain (Plain.of_same e1 e2) e4 e3 ?_
  rw [e5, e6, e4]; exact h.quiet

theorem allExited_spec (s : Sys) : ∀ k, allExited s k = true → ∀ w, w < k → s.workers w = .exited := by
  intro k
  induction k with
  | zero => intro _ w hw; omega
  | succ k ih =>
    intro h w hw
    simp only [allExited, Bool.and_eq_true, decide_eq_true_eq] at h
    by_cases e : w = k
    · subst e; exact h.1
    · exact ih h.2 w (by omega)

/-- a new worker: `process.start()` in `_run_start_processes` -/
theorem TdB.newWorker {inp : RunInput} {s s' : Sys} (h : TdB inp s) (hpar : inp.runner ≠ .serial)
    (e1 : s'.events = s.events) (e2 : s'.tdown = s.tdown) (e3 : s'.nStarted = s.nStarted + 1)
    (e4 : s'.workers = (setWorker s s.nStarted .idle).workers) (e5 : s'.rpc ≠ .fin) (e6 : s'.rpc ≠ .halted) :
    TdB inp s' := by
  refine ⟨?_, ?_, ?_, fun x => absurd x hpar, notEnd_of e5 e6, fun d hd => by rw [e2]; exact h.tdm d (e1 ▸ hd)⟩
  · intro hp; rw [e2, e1]; exact h.shared hp
  · intro hp; rw [e2]; exact h.proc hp
  · intro w hw
    rw [e4]; simp only [setWorker]
    rw [e3] at hw
    rw [if_neg (by omega)]; exact h.ns w (by omega)

theorem gReturn_tdB {inp : RunInput} {s : Sys} (h : TdB inp s) (hpar : inp.runner ≠ .serial) (job : Job) (ret : Ret) :
    TdB inp (gReturn s job ret) := by
  cases ret with
  | startLoop k =>
    simp only [gReturn]
    split
    · exact h.plain (Plain.of_same rfl rfl) rfl rfl (notEnd_of (by simp) (by simp))
    · split
      · exact h.newWorker hpar rfl rfl rfl rfl (by simp) (by simp)
      · exact h.newWorker hpar rfl rfl rfl rfl (by simp) (by simp)
  | feedLoop k =>
    simp only [gReturn]
    split
    · split
      · exact h.plain (Plain.of_same rfl rfl) rfl rfl (notEnd_of (by simp) (by simp))
      · exact h.plain (Plain.of_same rfl rfl) rfl rfl (fun _ a => by simp [raise] at a)
    · exact h.plain (Plain.of_same rfl rfl) rfl rfl (notEnd_of (by simp) (by simp))

theorem mainStep_tdB {inp : RunInput} {s s' : Sys} {perm : List Name} (h : TdB inp s) (hpar : inp.runner ≠ .serial)
    (hs : mainStep inp s perm = some s') : TdB inp s' := by
  unfold mainStep at hs
  cases hr : s.rpc with
  | gEntry completed ret =>
    simp only [hr] at hs
    split at hs <;> (cases hs; exact h.plain (Plain.of_same rfl rfl) rfl rfl (notEnd_of (by simp) (by simp)))
  | gLoop node ret =>
    simp only [hr] at hs
    cases hsd : send inp s node perm with
    | none => simp only [hsd] at hs; cases hs
    | some s0 =>
      simp only [hsd] at hs; cases hs
      have o := (send_outer hsd).1
      exact h.plain (Plain.of_same o.1 o.2.2.2.2.2.2.2.1) o.2.2.2.2.1 o.2.2.2.2.2.2.2.2.2.2.2
        (notEnd_of (by simp) (by simp))
  | gWait ret =>
    simp only [hr] at hs
    cases hsu : s.susp with
    | none =>
      simp only [hsu] at hs
      have o := dtick_outer hs
      refine h.plain (Plain.of_outer o) o.2.2.2.2.1 o.2.2.2.2.2.2.2.2.2.2.2 ?_
      rw [o.2.1, hr]; exact notEnd_of (by simp) (by simp)
    | some o =>
      simp only [hsu] at hs
      cases o with
      | init => cases hs
      | node n =>
        simp only [] at hs
        cases hn : s.nodes n with
        | none => simp only [hn] at hs; cases hs; exact h.raise (by simp)
        | some nd =>
          simp only [hn] at hs
          have key : ∀ d r, r ≠ .fin → r ≠ .halted → TdB inp { applySel inp s n nd d with rpc := r } :=
            fun d r h1 h2 =>
            h.plain (applySel_plain inp s n nd d _) (applySel_outer inp s n nd d).2.2.2.1
              (applySel_outer inp s n nd d).2.2.1 (notEnd_of h1 h2)
          cases hd : selDecision inp n nd <;> simp only [hd] at hs <;> cases hs
          all_goals first
            | exact key _ _ (by simp) (by simp)
            | exact h.raise (by simp)
      | stopIter => cases hs; exact h.plain (Plain.of_same rfl rfl) rfl rfl (notEnd_of (by simp) (by simp))
      | cyclic c => cases hs; exact h.raise (by simp)
      | holdOn => cases hs; exact h.plain (Plain.of_same rfl rfl) rfl rfl (notEnd_of (by simp) (by simp))
      | crash => cases hs; exact h.raise (by simp)
  | gRet job ret => simp only [hr] at hs; cases hs; exact gReturn_tdB h hpar job ret
  | pTop =>
    simp only [hr] at hs
    split at hs
    · cases hs; exact h.plain (Plain.of_same rfl rfl) rfl rfl (notEnd_of (by simp) (by simp))
    · cases hq : s.resQ with
      | nil => simp only [hq] at hs; cases hs
      | cons n rest =>
        simp only [hq] at hs
        cases hn : s.nodes n with
        | none => simp only [hn] at hs; cases hs; exact h.raise (by simp)
        | some nd =>
          simp only [hn] at hs; cases hs
          have := h.result { s with resQ := rest, rpc := .pTop } n nd (.gEntry (some n) (.feedLoop (s.freeProc + 1)))
            (Plain.of_same rfl rfl) rfl rfl (by simp) (by simp)
          exact this.of_eq rfl rfl rfl rfl rfl rfl
  | pJoin =>
    simp only [hr] at hs
    split at hs
    · cases hs
      rename_i hall
      refine h.plain (Plain.of_same rfl rfl) rfl rfl ?_
      intro _ _ w
      by_cases hw : w < s.nStarted
      · exact Or.inl (allExited_spec s _ hall w hw)
      · exact Or.inr (h.ns w (by omega))
    · cases hs
  | fin => simp only [hr] at hs; cases hs; exact h.finishRun hr
  | sTop _ => simp [hr] at hs
  | sWait => simp [hr] at hs
  | sExec _ => simp [hr] at hs
  | halted => simp [hr] at hs

/-- a worker that can move contradicts the quiescence of a finished run -/
theorem TdB.busy {inp : RunInput} {s : Sys} (h : TdB inp s) {w : Nat} (hw : s.workers w ≠ .exited)
    (hw2 : s.workers w ≠ .notStarted) {P : Prop} : (s.rpc = .fin ∨ s.rpc = .halted) → s.halt = .none → P := by
  intro a b
  rcases h.quiet a b w with x | x
  · exact absurd x hw
  · exact absurd x hw2

theorem setWorker_ns {inp : RunInput} {s : Sys} (h : TdB inp s) {w : Nat} (hw2 : s.workers w ≠ .notStarted) (st : WState) :
    ∀ k, s.nStarted ≤ k → (setWorker s w st).workers k = .notStarted := by
  intro k hk
  simp only [setWorker]
  by_cases e : k = w
  · subst e; exact absurd (h.ns k hk) hw2
  · rw [if_neg e]; exact h.ns k hk

theorem takeStep_tdB {inp : RunInput} {s s' : Sys} {w : Nat} (h : TdB inp s) (hpar : inp.runner ≠ .serial)
    (hs : takeStep inp s w = some s') : TdB inp s' := by
  unfold takeStep at hs
  split at hs
  · rename_i hidle
    have b1 : s.workers w ≠ .exited := by rw [hidle]; simp
    have b2 : s.workers w ≠ .notStarted := by rw [hidle]; simp
    cases hq : s.jobQ with
    | nil => simp only [hq] at hs; cases hs
    | cons j js =>
      simp only [hq] at hs
      cases j with
      | hold => cases hs; exact h.plain (Plain.of_same rfl rfl) rfl rfl (h.busy b1 b2)
      | stop =>
        cases hs
        exact ⟨h.shared, h.proc, setWorker_ns h b2 _, fun x => absurd x hpar, h.busy b1 b2, h.tdm⟩
      | task n =>
        cases hs
        have hst := startTask_tdB h n w
        refine ⟨hst.1, hst.2, ?_, fun x => absurd x hpar, ?_, startTask_tdm h n w⟩
        · intro k hk
          simp only [setWorker, startTask]
          by_cases e : k = w
          · subst e; exact absurd (h.ns k hk) b2
          · rw [if_neg e]; exact h.ns k hk
        · exact h.busy b1 b2
  · cases hs

theorem doneStep_tdB {inp : RunInput} {s s' : Sys} {w : Nat} (h : TdB inp s) (hpar : inp.runner ≠ .serial)
    (hs : doneStep s w = some s') : TdB inp s' := by
  unfold doneStep at hs
  cases hw : s.workers w with
  | running n =>
    simp only [hw] at hs; cases hs
    have b1 : s.workers w ≠ .exited := by rw [hw]; simp
    have b2 : s.workers w ≠ .notStarted := by rw [hw]; simp
    refine ⟨?_, h.proc, setWorker_ns h b2 _, fun x => absurd x hpar, h.busy b1 b2,
      fun d hd => h.tdm d (by simpa using hd)⟩
    intro hp
    show s.tdown = startOrder inp (Ev.fin n w :: s.events)
    rw [show Ev.fin n w :: s.events = [Ev.fin n w] ++ s.events from rfl,
      startOrder_noStart inp (fun e he a b => by simp at he; subst he; intro x; cases x)]
    exact h.shared hp
  | notStarted => simp [hw] at hs
  | idle => simp [hw] at hs
  | exited => simp [hw] at hs

theorem reach_tdB {inp : RunInput} {s : Sys} (hser : inp.runner = .serial) (h : Reach inp s) : TdB inp s := by
  induction h with
  | init => exact init_tdB inp
  | @next s0 s1 c _ hs ih =>
    cases c with
    | main perm => exact serialStep_tdB ih hser hs
    | take w => simp [step] at hs
    | done w => simp [step] at hs

theorem preach_tdB {inp : RunInput} {s : Sys} (hpar : inp.runner ≠ .serial) (h : PReach inp s) : TdB inp s := by
  induction h with
  | init => exact init_tdB inp
  | @next s0 s1 c _ hs ih =>
    cases c with
    | main perm => exact mainStep_tdB ih hpar hs
    | take w => exact takeStep_tdB ih hpar hs
    | done w => exact doneStep_tdB ih hpar hs

end DoitModel.Run
