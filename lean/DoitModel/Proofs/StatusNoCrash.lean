import DoitModel.Proofs.Status
/-! # M2 — the absorbing `crash` state needs a switch of the checker

`crash` models the `TypeError` of `MD5Checker` on a state saved by `TimestampChecker`.  Without a
`switchChecker` operation every saved state has the md5 shape and the configured checker stays md5. -/
namespace DoitModel.Status

def Op.isSwitch : Op → Bool
  | .switchChecker _ => true
  | _ => false

def NoSwitch (h : List Op) : Bool := h.all fun o => !o.isSwitch

def Md5Shape (r : Rcd) : Prop := ∀ p st, r.fstate p = some st → ∃ m sz c, st = .md5 m sz c

structure Md5Only (s : St) : Prop where
  ck : s.checker = .md5
  shape : ∀ t, Md5Shape (s.rcd t)
  alive : s.crashed = false

theorem md5shape_empty : Md5Shape Rcd.empty := by intro p st h; simp [Rcd.empty] at h

theorem status_ne_crash (fixed : Bool) {s : St} (h : Md5Only s) (t : Name) : s.status fixed t ≠ .crash := by
  intro hc
  unfold St.status statusOf at hc
  rw [h.ck] at hc
  split at hc
  · cases hc
  · split at hc
    · cases hc
    · cases hfv : fileVerdict .md5 (s.rcd t) s.fs (s.defs t).deps with
      | upToDate => rw [hfv] at hc; simp only at hc; split at hc <;> cases hc
      | run => rw [hfv] at hc; cases hc
      | error => rw [hfv] at hc; cases hc
      | crash =>
        unfold fileVerdict at hfv
        split at hfv
        · cases hfv
        · split at hfv
          · rename_i hany
            obtain ⟨p, _, hp⟩ := List.any_eq_true.mp hany
            simp only [depIs] at hp
            cases hf : s.fs p with
            | none => simp [hf] at hp
            | some cur =>
              simp only [hf, depVerdict] at hp
              cases hr : (s.rcd t).fstate p with
              | none => simp [hr] at hp
              | some st =>
                obtain ⟨m, sz, c, hst⟩ := h.shape t p st hr
                subst hst
                simp only [hr, checkModified] at hp
                (repeat' split at hp) <;> simp at hp
          · split at hfv <;> cases hfv

theorem depIs_crash_false {r : Rcd} (hr : Md5Shape r) (fs : FS) (p : Path) : depIs .crash .md5 r fs p = false := by
  simp only [depIs]
  cases hf : fs p with
  | none => rfl
  | some cur =>
    simp only [depVerdict]
    cases hs : r.fstate p with
    | none => simp
    | some st =>
      obtain ⟨m, sz, c, hst⟩ := hr p st hs
      subst hst
      simp only [checkModified]
      (repeat' split) <;> simp

theorem logRcd_shape {r : Rcd} (hr : Md5Shape r) (c : Checker) : Md5Shape (logRcd c r) := by
  unfold logRcd; split
  · exact md5shape_empty
  · exact hr

theorem statusLog_ne_crash {s : St} (h : Md5Only s) (t : Name) : s.statusLog t ≠ .crash := by
  intro hc
  unfold St.statusLog statusLog at hc
  rw [h.ck] at hc
  have hno : (s.defs t).deps.any (depIs .crash .md5 (logRcd .md5 (s.rcd t)) s.fs) = false := by
    rw [List.any_eq_false]
    intro p _
    simp [depIs_crash_false (logRcd_shape (h.shape t) .md5) s.fs p]
  rw [hno] at hc
  simp only [Bool.false_eq_true, if_false] at hc
  (repeat' split at hc) <;> cases hc

theorem save_ne_crash {r : Rcd} (hr : Md5Shape r) (deps : List Path) (fs : FS) (vals : Values) (res : Option Res) :
    saveSuccess .md5 deps r fs vals res ≠ .crash := by
  intro hc
  unfold saveSuccess at hc
  split at hc
  · cases hc
  · split at hc
    · rename_i hany
      obtain ⟨p, _, hp⟩ := List.any_eq_true.mp hany
      simp only [saveCrashAt] at hp
      cases hf : fs p with
      | none => simp [hf] at hp
      | some cur =>
        cases hs : r.fstate p with
        | none => simp [hf, hs, getState] at hp
        | some st =>
          obtain ⟨m, sz, c, hst⟩ := hr p st hs
          subst hst
          simp only [hf, hs, getState] at hp
          split at hp <;> simp at hp
    · cases hc

theorem save_shape {r r' : Rcd} (hr : Md5Shape r) (deps : List Path) (fs : FS) (vals : Values) (res : Option Res)
    (hs : saveSuccess .md5 deps r fs vals res = .ok r') : Md5Shape r' := by
  unfold saveSuccess at hs
  split at hs
  · cases hs
  · split at hs
    · cases hs
    · simp only [SaveOut.ok.injEq] at hs
      subst hs
      intro p st hp
      simp only at hp
      split at hp
      · simp only [savedState] at hp
        cases hf : fs p with
        | none => simp only [hf] at hp; exact hr p st hp
        | some cur =>
          simp only [hf] at hp
          cases hg : getState .md5 cur (r.fstate p) with
          | keep => simp only [hg] at hp; exact hr p st hp
          | crash => simp only [hg] at hp; exact hr p st hp
          | new st' =>
            simp only [hg, Option.some.injEq] at hp
            subst hp
            cases hs : r.fstate p with
            | none => simp [hs, getState, stateOf] at hg; exact ⟨_, _, _, hg.symm⟩
            | some st0 =>
              obtain ⟨m, sz, c, hst⟩ := hr p st0 hs
              subst hst
              simp only [hs, getState] at hg
              split at hg
              · cases hg
              · simp only [GS.new.injEq, stateOf] at hg; exact ⟨_, _, _, hg.symm⟩
      · exact hr p st hp

theorem erase_md5 {s : St} (t : Name) (h : Md5Only s) : Md5Only (erase s t) := by
  refine ⟨h.ck, ?_, h.alive⟩
  intro k
  simp only [erase]
  by_cases hk : k = t
  · simp only [hk, if_true]; exact md5shape_empty
  · simp only [hk, if_false]; exact h.shape k

theorem writeFile_md5 {s : St} (p sz c) (h : Md5Only s) : Md5Only (writeFile s p sz c) := ⟨h.ck, h.shape, h.alive⟩

theorem applyWrites_md5 {s : St} (ws : List (Path × Nat × Nat)) (h : Md5Only s) : Md5Only (applyWrites s ws) := by
  induction ws generalizing s with
  | nil => exact h
  | cons w rest ih => obtain ⟨p, sz, c⟩ := w; exact ih (writeFile_md5 p sz c h)

theorem peek_md5 {s : St} (t : Name) (h : Md5Only s) : Md5Only (peek s t) := by
  unfold peek; split
  · exact erase_md5 t h
  · exact h

theorem commit_md5 {s : St} (t : Name) (r : Rcd) (e : Exec) (h : Md5Only s) (hr : Md5Shape r) :
    Md5Only (commit s t r e) := by
  refine ⟨h.ck, ?_, h.alive⟩
  intro k
  simp only [commit]
  by_cases hk : k = t
  · simp only [hk, if_true]; exact hr
  · simp only [hk, if_false]; exact h.shape k

theorem finish_md5 {s : St} (t : Name) (ok : Bool) (res : Option Res) (h : Md5Only s) : Md5Only (finish s t ok res) := by
  unfold finish
  cases ok with
  | false => simpa using erase_md5 t h
  | true =>
    simp only [if_true]
    have hnc := save_ne_crash (h.shape t) (s.defs t).deps s.fs (newValues (s.defs t) s.resOf) res
    rw [h.ck]
    cases hs : saveSuccess .md5 (s.defs t).deps (s.rcd t) s.fs (newValues (s.defs t) s.resOf) res with
    | ok r => exact commit_md5 t r _ h (save_shape (h.shape t) _ _ _ _ hs)
    | missing => exact erase_md5 t h
    | crash => exact absurd hs hnc

theorem peek_rcd_shape {s : St} (t : Name) (h : Md5Only s) : Md5Shape ((peek s t).rcd t) := (peek_md5 t h).shape t

theorem markIgn_md5 {s : St} (t : Name) (h : Md5Only s) : Md5Only (markIgn s t) := by
  refine ⟨h.ck, ?_, h.alive⟩
  intro k
  simp only [markIgn]
  by_cases hk : k = t
  · simp only [hk, if_true]; exact h.shape t
  · simp only [hk, if_false]; exact h.shape k

theorem resetDep_md5 (fixed : Bool) {s : St} (t : Name) (h : Md5Only s) : Md5Only (resetDep fixed s t) := by
  simp only [resetDep]
  split
  · exact h
  · have hne := status_ne_crash fixed h t
    cases hst : s.status fixed t with
    | crash => exact absurd hst hne
    | error => exact h
    | upToDate => exact h
    | run =>
      simp only
      have hnc := save_ne_crash (peek_rcd_shape t h) (s.defs t).deps s.fs (s.rcd t).getValues (s.rcd t).result
      rw [h.ck]
      cases hs : saveSuccess .md5 (s.defs t).deps ((peek s t).rcd t) s.fs (s.rcd t).getValues (s.rcd t).result with
      | ok r => exact commit_md5 t r _ h (save_shape (peek_rcd_shape t h) _ _ _ _ hs)
      | missing => exact h
      | crash => exact absurd hs hnc

theorem step_md5 (fixed : Bool) {s : St} (op : Op) (hop : op.isSwitch = false) (h : Md5Only s) :
    Md5Only (step fixed s op) := by
  unfold step
  split
  · rename_i hc; rw [h.alive] at hc; cases hc
  · skip
    cases op with
    | edit p sz c => exact writeFile_md5 p sz c h
    | touch p => exact ⟨h.ck, h.shape, h.alive⟩
    | delete p => exact ⟨h.ck, h.shape, h.alive⟩
    | editKeep p sz c => exact ⟨h.ck, h.shape, h.alive⟩
    | redefine t d => exact ⟨h.ck, h.shape, h.alive⟩
    | unmet t => exact erase_md5 t h
    | forget t => exact erase_md5 t h
    | switchChecker c => simp [Op.isSwitch] at hop
    | info t =>
      simp only [info]
      have := statusLog_ne_crash h t
      split
      · exact h
      · split
        · rename_i hc; simp at hc; exact absurd hc this
        · split
          · exact erase_md5 t h
          · exact h
    | ignore t =>
      refine ⟨h.ck, ?_, h.alive⟩
      intro k
      simp only
      by_cases hk : k = t
      · simp only [hk, if_true]; exact h.shape t
      · simp only [hk, if_false]; exact h.shape k
    | peek t =>
      simp only
      have := status_ne_crash fixed h t
      split
      · rename_i hc; simp at hc; exact absurd hc this
      · exact peek_md5 t h
    | run t ok always ws res =>
      simp only [runTask]
      split
      · exact h
      · have hne := status_ne_crash fixed h t
        cases hst : s.status fixed t with
        | crash => exact absurd hst hne
        | error => exact erase_md5 t h
        | upToDate =>
          simp only
          split
          · exact finish_md5 t ok res (applyWrites_md5 ws h)
          · exact h
        | run => exact finish_md5 t ok res (applyWrites_md5 ws (peek_md5 t h))
    | resetDep t =>
      simp only [resetDepKeep]
      split
      · exact markIgn_md5 t (resetDep_md5 fixed t h)
      · exact resetDep_md5 fixed t h

theorem init_md5 : Md5Only St.init := ⟨rfl, fun _ => md5shape_empty, rfl⟩

theorem noSwitch_md5 (fixed : Bool) (ops : List Op) (hn : NoSwitch ops = true) : Md5Only (runHist fixed ops) := by
  unfold runHist
  suffices ∀ s, Md5Only s → Md5Only (ops.foldl (step fixed) s) from this _ init_md5
  induction ops with
  | nil => intro s h; exact h
  | cons o os ih =>
    intro s h
    simp only [NoSwitch, List.all_cons, Bool.and_eq_true, Bool.not_eq_true'] at hn
    exact ih (by simpa [NoSwitch] using hn.2) _ (step_md5 fixed o hn.1 h)

end DoitModel.Status
