import DoitModel.Proofs.C05Main
/-! # C05 — the monitors evaluated on implementation traces hold on every trace of the model -/
namespace DoitModel.Run

theorem mem_addNew_run (acc xs : List Name) (x : Name) : x ∈ addNew acc xs ↔ x ∈ acc ∨ x ∈ xs := by
  induction xs generalizing acc with
  | nil => simp [addNew]
  | cons y ys ih =>
    have : addNew acc (y :: ys) = addNew (if y ∈ acc then acc else acc ++ [y]) ys := by simp [addNew]
    rw [this, ih]
    by_cases hy : y ∈ acc
    · simp only [hy, if_true, List.mem_cons]
      constructor
      · rintro (a | a)
        · exact Or.inl a
        · exact Or.inr (Or.inr a)
      · rintro (a | a | a)
        · exact Or.inl a
        · subst a; exact Or.inl hy
        · exact Or.inr a
    · simp only [hy, if_false, List.mem_append, List.mem_cons, List.mem_singleton, List.not_mem_nil, or_false]
      constructor
      · rintro ((a | a) | a)
        · exact Or.inl a
        · exact Or.inr (Or.inl a)
        · exact Or.inr (Or.inr a)
      · rintro (a | a | a)
        · exact Or.inl (Or.inl a)
        · exact Or.inl (Or.inr a)
        · exact Or.inr a

theorem calcsAt_calcOf (inp : RunInput) (pre : List Ev) (t : Name) : ∀ (fuel : Nat) (cs : List Name),
    (∀ c ∈ cs, CalcOf inp t c) → ∀ c ∈ calcsAt inp pre fuel cs, CalcOf inp t c := by
  intro fuel
  induction fuel with
  | zero => intro cs h c hc; exact h c hc
  | succ k ih =>
    intro cs h c hc
    simp only [calcsAt] at hc
    refine ih _ ?_ c hc
    intro x hx
    rcases (mem_addNew_run _ _ _).mp hx with a | a
    · exact h x a
    · obtain ⟨c0, hc0, hx0⟩ := List.mem_flatMap.mp a
      exact .step (h c0 (List.mem_filter.mp hc0).1) hx0

theorem edgesOf_depOnE {inp : RunInput} {nTasks : Nat} {tr evs : List Ev}
    (hutd : ∀ t, Ev.skipUtd t ∈ evs → Ev.skipUtd t ∈ tr) {t d : Name} (h : d ∈ edgesOf inp nTasks tr t) :
    DepOnE inp evs t d := by
  have hcalc := calcsAt_calcOf inp tr t nTasks (inp.calcDep t) (fun c hc => .base hc)
  unfold edgesOf at h
  rcases List.mem_append.mp h with h | h
  · rcases List.mem_append.mp h with h | h
    · rcases List.mem_append.mp h with h | h
      · exact .ns (.task h)
      · by_cases hs : skippedUtd tr t = true
        · simp [hs] at h
        · simp only [hs] at h
          refine .setup (by simpa using h) (fun hu => hs ?_)
          unfold skippedUtd
          exact List.any_eq_true.mpr ⟨_, hutd t hu, by simp⟩
    · exact .ns (.ofCalc (hcalc d h))
  · obtain ⟨c, hc, hd⟩ := List.mem_flatMap.mp h
    have hco := hcalc c (List.mem_filter.mp hc).1
    rcases List.mem_append.mp hd with a | a
    · exact .ns (.resTask hco a)
    · exact .ns (.resFile hco a)

theorem DepPlusE.snoc {inp : RunInput} {evs : List Ev} {t m d : Name} (h : DepPlusE inp evs t m)
    (h' : DepOnE inp evs m d) : DepPlusE inp evs t d := by
  induction h with
  | one a => exact .more a (.one h')
  | more a _ ih => exact .more a (ih h')

theorem reachIter_sound {inp : RunInput} {nTasks : Nat} {tr evs : List Ev}
    (hutd : ∀ t, Ev.skipUtd t ∈ evs → Ev.skipUtd t ∈ tr) (t : Name) : ∀ (fuel : Nat) (acc : List Name),
    (∀ x ∈ acc, DepPlusE inp evs t x) → ∀ x ∈ reachIter inp nTasks tr fuel acc, DepPlusE inp evs t x := by
  intro fuel
  induction fuel with
  | zero => intro acc h x hx; exact h x hx
  | succ k ih =>
    intro acc h x hx
    simp only [reachIter] at hx
    refine ih _ ?_ x hx
    intro y hy
    rcases (mem_addNew_run _ _ _).mp hy with a | a
    · exact h y a
    · obtain ⟨z, hz, hyz⟩ := List.mem_flatMap.mp a
      exact (h z hz).snoc (edgesOf_depOnE hutd hyz)

theorem depClosure_sound {inp : RunInput} {nTasks : Nat} {tr evs : List Ev}
    (hutd : ∀ t, Ev.skipUtd t ∈ evs → Ev.skipUtd t ∈ tr) {t d : Name} (h : d ∈ depClosure inp nTasks tr t) :
    DepPlusE inp evs t d := by
  unfold depClosure at h
  refine reachIter_sound hutd t nTasks _ ?_ d h
  intro x hx
  rcases (mem_addNew_run _ _ _).mp hx with a | a
  · cases a
  · exact .one (edgesOf_depOnE hutd a)

theorem noDepRunsFrom_true {inp : RunInput} {nTasks : Nat} {tr evs : List Ev}
    (hutd : ∀ t, Ev.skipUtd t ∈ evs → Ev.skipUtd t ∈ tr)
    (hP : ∀ t w d k, Ev.start t w ∈ evs → Ev.failure d k ∈ evs → ¬ DepPlusE inp evs t d) :
    ∀ (rest : List Ev) (failed : List Name), (∀ d ∈ failed, ∃ k, Ev.failure d k ∈ evs) → (∀ e ∈ rest, e ∈ evs) →
      noDepRunsFrom inp nTasks tr failed rest = true := by
  intro rest
  induction rest with
  | nil => intro _ _ _; rfl
  | cons e rest ih =>
    intro failed hf hr
    simp only [noDepRunsFrom, Bool.and_eq_true]
    constructor
    · cases e with
      | start t w =>
        simp only [List.all_eq_true, decide_eq_true_eq]
        intro d hd hmem
        obtain ⟨k, hk⟩ := hf d hd
        exact hP t w d k (hr _ (by simp)) hk (depClosure_sound hutd hmem)
      | _ => rfl
    · apply ih
      · cases e with
        | failure d k =>
          intro x hx
          rcases List.mem_cons.mp hx with a | a
          · subst a; exact ⟨k, hr _ (by simp)⟩
          · exact hf x a
        | _ => exact hf
      · intro x hx; exact hr x (by simp [hx])

theorem mem_trace {inp : RunInput} {s : Sys} {e : Ev} (h : e ∈ trace inp s) : e ∈ s.events := by
  unfold trace at h
  exact (List.mem_filter.mp (List.mem_reverse.mp h)).1

theorem skipUtd_in_trace {inp : RunInput} {s : Sys} (t : Name) (h : Ev.skipUtd t ∈ s.events) :
    Ev.skipUtd t ∈ trace inp s := by
  unfold trace
  exact List.mem_reverse.mpr (List.mem_filter.mpr ⟨h, by simp [hidden]⟩)

/-- (a) as evaluated by the driver -/
theorem monC05NoDependentRuns_of_inv {inp : RunInput} {s : Sys} (h2 : Inv2 inp s) (hG : InvG inp s) (hF : InvF inp s)
    (nTasks : Nat) : monC05NoDependentRuns inp nTasks (trace inp s) = true := by
  unfold monC05NoDependentRuns
  refine noDepRunsFrom_true (evs := s.events) (fun t h => skipUtd_in_trace t h) ?_ _ [] (fun _ h => by cases h)
    (fun e h => mem_trace h)
  intro t w d k hs hf hd
  exact (failed_dep_never_started h2 hG hF hf hd).2.1 w hs

/-- (b) as evaluated by the driver, with the DB content the model predicts -/
theorem monC05NotRecorded_of_inv {inp : RunInput} {s : Sys} (h3 : Inv3 inp s) (nTasks : Nat) (r0 : Name → Bool) :
    monC05NotRecorded nTasks (trace inp s) (fun n => recAfter r0 n s.events) = true := by
  unfold monC05NotRecorded
  simp only [List.all_eq_true, List.mem_range, Bool.or_eq_true, Bool.not_eq_true']
  intro t _
  by_cases hf : failedIn (trace inp s) t = true
  · right
    unfold failedIn at hf
    obtain ⟨e, he, hp⟩ := List.any_eq_true.mp hf
    cases e with
    | failure m k =>
      have : m = t := by simpa [Ev.isFailureOf] using hp
      subst this
      exact recAfter_failed r0 m s.events (h3.t2 m) ⟨k, mem_trace he⟩
    | _ => simp [Ev.isFailureOf] at hp
  · left; simpa using hf

/-! ### (d) -/

theorem noStartAfterFail_append (a : List Ev) (e : Ev) : ∀ (seen : Bool),
    noStartAfterFail seen (a ++ [e]) = (noStartAfterFail seen a && !((seen || a.any Ev.isFailure) && e.isStart)) := by
  induction a with
  | nil => intro seen; simp [noStartAfterFail]
  | cons x xs ih =>
    intro seen
    simp only [List.cons_append, noStartAfterFail, ih, List.any_cons]
    cases seen <;> cases x.isFailure <;> cases x.isStart <;> cases e.isStart <;> simp

theorem noStartAfterFail_of_NSA (p : Ev → Bool) : ∀ (l : List Ev), NSA l →
    noStartAfterFail false ((l.filter p).reverse) = true := by
  intro l
  induction l with
  | nil => intro _; rfl
  | cons e rest ih =>
    intro h
    by_cases hp : p e = true
    · simp only [List.filter_cons, hp, if_true, List.reverse_cons]
      rw [noStartAfterFail_append, ih h.2]
      simp only [Bool.true_and, Bool.false_or, Bool.not_eq_true', Bool.and_eq_false_iff]
      by_cases hs : e.isStart = true
      · left
        have nf := h.1 hs
        cases hany : ((rest.filter p).reverse).any Ev.isFailure with
        | false => rfl
        | true =>
          obtain ⟨x, hx, hxf⟩ := List.any_eq_true.mp hany
          have hx' : x ∈ rest := (List.mem_filter.mp (List.mem_reverse.mp hx)).1
          cases x with
          | failure m k => exact absurd ⟨m, k, hx'⟩ nf
          | _ => simp [Ev.isFailure] at hxf
      · right; simpa using hs
    · simp only [List.filter_cons, hp]
      exact ih h.2

theorem monC05SerialStops_of_inv {inp : RunInput} {s : Sys} (h : inp.continue_ = false → InvS inp s) :
    monC05SerialStops inp (trace inp s) = true := by
  unfold monC05SerialStops
  by_cases hc : inp.continue_ = true
  · simp [hc]
  · have hc' : inp.continue_ = false := by simpa using hc
    have := noStartAfterFail_of_NSA (fun e => !hidden inp e) s.events (h hc').ns
    unfold trace
    simp [this]

end DoitModel.Run
