import DoitModel.Proofs.C09Wait
/-! # C09 — the wait-set invariant and "no false cycle error" for the parallel runners -/
namespace DoitModel.Run

variable {inp : RunInput}

/-- after an exception left `run_tasks` the main thread only finishes -/
theorem preach_haltRpc {s : Sys} (h : PReach inp s) : s.halt ≠ .none → s.rpc = .fin ∨ s.rpc = .halted := by
  induction h with
  | init => intro e; simp [init] at e
  | @next s0 s1 c _ hs ih =>
    cases c with
    | take w =>
      have hs' : takeStep inp s0 w = some s1 := hs
      unfold takeStep at hs'
      split at hs'
      · cases hq : s0.jobQ with
        | nil => simp only [hq] at hs'; cases hs'
        | cons j js =>
          simp only [hq] at hs'
          cases j <;> (simp only [] at hs'; cases hs'; exact ih)
      · cases hs'
    | done w =>
      have hs' : doneStep s0 w = some s1 := hs
      unfold doneStep at hs'
      cases hw : s0.workers w <;> simp only [hw] at hs' <;> cases hs'
      exact ih
    | main perm =>
      have hs' : mainStep inp s0 perm = some s1 := hs
      have hh0 : ∀ {r : RPC}, s0.rpc = r → r ≠ .fin → r ≠ .halted → s0.halt = .none := by
        intro r e n1 n2
        apply Classical.byContradiction; intro x
        rcases ih x with a | a <;> (rw [e] at a; first | exact n1 a | exact n2 a)
      unfold mainStep at hs'
      cases hr : s0.rpc with
      | gEntry completed ret =>
        have h0 := hh0 hr (by simp) (by simp)
        simp only [hr] at hs'; split at hs' <;> (cases hs'; intro e; exact absurd h0 e)
      | gLoop node ret =>
        have h0 := hh0 hr (by simp) (by simp)
        simp only [hr] at hs'
        cases hsd : send inp s0 node perm with
        | none => simp only [hsd] at hs'; cases hs'
        | some x =>
          simp only [hsd] at hs'; cases hs'
          have o9 := (send_outer hsd).1.2.2.2.2.2.2.2.2.1
          intro e; exact absurd (show x.halt = .none by rw [o9]; exact h0) e
      | gWait ret =>
        have h0 := hh0 hr (by simp) (by simp)
        simp only [hr] at hs'
        cases hsu : s0.susp with
        | none =>
          simp only [hsu] at hs'
          have o9 := (dtick_outer hs').2.2.2.2.2.2.2.2.1
          intro e; rw [o9] at e; exact absurd h0 e
        | some o =>
          simp only [hsu] at hs'
          cases o with
          | init => cases hs'
          | node n =>
            simp only [] at hs'
            cases hn : s0.nodes n with
            | none => simp only [hn] at hs'; cases hs'; intro _; exact Or.inl rfl
            | some nd =>
              simp only [hn] at hs'
              have key : ∀ (d : Sel), (applySel inp s0 n nd d).halt = .none := by
                intro d; rw [(applySel_frame2 inp s0 n nd d).2.2.2.1]; exact h0
              cases hd : selDecision inp n nd <;> simp only [hd] at hs' <;> cases hs' <;>
                first | (intro e; exact absurd (key _) e) | (intro _; exact Or.inl rfl)
          | holdOn => cases hs'; intro e; exact absurd h0 e
          | stopIter => cases hs'; intro e; exact absurd h0 e
          | cyclic n => cases hs'; intro _; exact Or.inl rfl
          | crash => cases hs'; intro _; exact Or.inl rfl
      | gRet job ret =>
        have h0 := hh0 hr (by simp) (by simp)
        simp only [hr] at hs'; cases hs'
        cases ret with
        | startLoop k =>
          simp only [gReturn]; split
          · intro e; exact absurd h0 e
          · split <;> (intro e; exact absurd (show s0.halt = .none from h0) e)
        | feedLoop k =>
          simp only [gReturn]; split
          · split
            · intro e; exact absurd h0 e
            · intro _; exact Or.inl rfl
          · intro e; exact absurd h0 e
      | pTop =>
        have h0 := hh0 hr (by simp) (by simp)
        simp only [hr] at hs'
        split at hs'
        · cases hs'; intro e; exact absurd h0 e
        · cases hq : s0.resQ with
          | nil => simp only [hq] at hs'; cases hs'
          | cons n rest =>
            simp only [hq] at hs'
            cases hn : s0.nodes n with
            | none => simp only [hn] at hs'; cases hs'; intro _; exact Or.inl rfl
            | some nd =>
              simp only [hn] at hs'; cases hs'
              intro e
              have e' : (processResult inp { s0 with resQ := rest, rpc := .pTop } n nd).halt ≠ .none := e
              rw [(processResult_frame2 inp _ n nd).2.2.2.1] at e'
              exact absurd h0 e'
      | pJoin => simp only [hr] at hs'; split at hs' <;> cases hs'; intro _; exact Or.inl rfl
      | fin => simp only [hr] at hs'; cases hs'; intro _; exact Or.inr rfl
      | sTop a => simp only [hr] at hs'; cases hs'
      | sWait => simp only [hr] at hs'; cases hs'
      | sExec a => simp only [hr] at hs'; cases hs'
      | halted => simp only [hr] at hs'; cases hs'

theorem gReturn_frameE (s : Sys) (job : Job) (ret : Ret) :
    (gReturn s job ret).nodes = s.nodes ∧ (gReturn s job ret).waiting = s.waiting ∧
    (gReturn s job ret).dispatched = s.dispatched ∧ (gReturn s job ret).susp = s.susp := by
  cases ret with
  | startLoop k =>
    simp only [gReturn]; split
    · exact ⟨rfl, rfl, rfl, rfl⟩
    · split <;> exact ⟨rfl, rfl, rfl, rfl⟩
  | feedLoop k =>
    simp only [gReturn]; split
    · split <;> exact ⟨rfl, rfl, rfl, rfl⟩
    · exact ⟨rfl, rfl, rfl, rfl⟩

theorem takeStep_frameE {s s' : Sys} {w : Nat} (hs : takeStep inp s w = some s') :
    s'.nodes = s.nodes ∧ s'.waiting = s.waiting ∧ s'.dispatched = s.dispatched ∧ s'.susp = s.susp := by
  unfold takeStep at hs
  split at hs
  · cases hq : s.jobQ with
    | nil => simp only [hq] at hs; cases hs
    | cons j js =>
      simp only [hq] at hs
      cases j <;> (simp only [] at hs; cases hs; exact ⟨rfl, rfl, rfl, rfl⟩)
  · cases hs

theorem doneStep_frameE {s s' : Sys} {w : Nat} (hs : doneStep s w = some s') :
    s'.nodes = s.nodes ∧ s'.waiting = s.waiting ∧ s'.dispatched = s.dispatched ∧ s'.susp = s.susp := by
  unfold doneStep at hs
  cases hw : s.workers w <;> simp only [hw] at hs <;> cases hs
  exact ⟨rfl, rfl, rfl, rfl⟩

theorem mainStep_invE {s s' : Sys} {perm : List Name} (h : InvE9 inp s) (hC : InvC s) (hF : InvF s)
    (hH : s.halt ≠ .none → s.rpc = .fin ∨ s.rpc = .halted)
    (hP : InvP inp s) (h1 : Inv1 inp s) (hs : mainStep inp s perm = some s') : InvE9 inp s' := by
  unfold mainStep at hs
  cases hr : s.rpc with
  | gEntry completed ret =>
    simp only [hr] at hs
    split at hs <;> (cases hs; exact h.rpc _)
  | gLoop node ret =>
    simp only [hr] at hs
    have hcr : s.susp ≠ some .crash := by
      intro e
      rcases hC.cr e with a | a
      · rcases a with a | ⟨r, a⟩ <;> (rw [hr] at a; cases a)
      · rcases hH a with b | b <;> (rw [hr] at b; cases b)
    cases hsd : send inp s node perm with
    | none => simp only [hsd] at hs; cases hs
    | some s0 => simp only [hsd] at hs; cases hs; exact (invE_send h hcr hsd).rpc _
  | gWait ret =>
    simp only [hr] at hs
    cases hsu : s.susp with
    | none =>
      simp only [hsu] at hs
      refine dtick_invE h hsu h1 ?_ hs
      intro n nd hn hy hst
      have := (hP.a4 n nd hn hy hst).1
      rw [hsu] at this; cases this
    | some o =>
      simp only [hsu] at hs
      cases o with
      | init => cases hs
      | node n =>
        simp only [] at hs
        cases hn : s.nodes n with
        | none => simp only [hn] at hs; cases hs; exact h.frame rfl rfl rfl rfl
        | some nd =>
          simp only [hn] at hs
          have hdn : n ∈ s.dispatched := hC.ds n hsu
          have key : ∀ (d : Sel) (hd : d ≠ .assertFail) (s2 : Sys), s2.nodes = (applySel inp s n nd d).nodes →
              s2.waiting = (applySel inp s n nd d).waiting → s2.dispatched = (applySel inp s n nd d).dispatched →
              s2.susp = (applySel inp s n nd d).susp → InvE9 inp s2 := by
            intro d hd s2 e1 e2 e3 e4
            obtain ⟨_, f2, _, f4, _⟩ := applySel_frame inp s n nd d
            exact invE_status (selStatus d) h hn hdn (e1.trans (applySel_nodes inp s n nd d hd)) (e2.trans f2)
              (e3.trans (applySel_dispatched inp s n nd d)) (e4.trans f4)
          cases hd : selDecision inp n nd with
          | go => simp only [hd] at hs; cases hs; exact key .go (by simp) _ rfl rfl rfl rfl
          | assertFail => simp only [hd] at hs; cases hs; exact h.frame rfl rfl rfl rfl
          | skipIgn => simp only [hd] at hs; cases hs; exact key _ (by simp) _ rfl rfl rfl rfl
          | unmet => simp only [hd] at hs; cases hs; exact key _ (by simp) _ rfl rfl rfl rfl
          | depErr => simp only [hd] at hs; cases hs; exact key _ (by simp) _ rfl rfl rfl rfl
          | utd => simp only [hd] at hs; cases hs; exact key _ (by simp) _ rfl rfl rfl rfl
          | runFirst => simp only [hd] at hs; cases hs; exact key _ (by simp) _ rfl rfl rfl rfl
          | argsErr => simp only [hd] at hs; cases hs; exact key _ (by simp) _ rfl rfl rfl rfl
      | holdOn => cases hs; exact h.frame rfl rfl rfl hsu.symm
      | stopIter => cases hs; exact h.frame rfl rfl rfl hsu.symm
      | cyclic n => cases hs; exact h.frame rfl rfl rfl rfl
      | crash => cases hs; exact h.frame rfl rfl rfl rfl
  | gRet job ret =>
    simp only [hr] at hs; cases hs
    obtain ⟨g1, g2, g3, g4⟩ := gReturn_frameE s job ret
    exact h.frame g1 g2 g3 g4
  | pTop =>
    simp only [hr] at hs
    split at hs
    · cases hs; exact h.rpc _
    · cases hq : s.resQ with
      | nil => simp only [hq] at hs; cases hs
      | cons n rest =>
        simp only [hq] at hs
        cases hn : s.nodes n with
        | none => simp only [hn] at hs; cases hs; exact h.frame rfl rfl rfl rfl
        | some nd =>
          simp only [hn] at hs; cases hs
          have hdn : n ∈ s.dispatched := hF.di n (Or.inr (Or.inr (Or.inr (by rw [hq]; simp))))
          obtain ⟨_, f2, _, f4, _⟩ := processResult_frame inp { s with resQ := rest, rpc := .pTop } n nd
          exact invE_status (resStatus (inp.outcome n)) h hn hdn (processResult_nodes inp _ n nd) f2
            (processResult_dispatched inp _ n nd) f4
  | pJoin =>
    simp only [hr] at hs
    split at hs
    · cases hs; exact h.rpc _
    · cases hs
  | fin => simp only [hr] at hs; cases hs; exact h.frame rfl rfl rfl rfl
  | sTop a => simp only [hr] at hs; cases hs
  | sWait => simp only [hr] at hs; cases hs
  | sExec a => simp only [hr] at hs; cases hs
  | halted => simp only [hr] at hs; cases hs

theorem preach_invE {s : Sys} (h : PReach inp s) : InvE9 inp s := by
  induction h with
  | init => exact init_invE9 inp
  | @next s0 s1 c hp hs ih =>
    cases c with
    | main perm =>
      exact mainStep_invE ih (preach_invC hp) (preach_invF hp) (preach_haltRpc hp) (preach_invP hp)
        (preach_inv hp).1.inv1 hs
    | take w =>
      obtain ⟨g1, g2, g3, g4⟩ := takeStep_frameE hs
      exact ih.frame g1 g2 g3 g4
    | done w =>
      obtain ⟨g1, g2, g3, g4⟩ := doneStep_frameE hs
      exact ih.frame g1 g2 g3 g4

/-- parallel runners, ranked (= acyclic) dependency graph: the dispatcher never raises the cyclic error -/
theorem parallel_no_cyclic {rank : Name → Nat} {s : Sys} (hrk : Ranked inp rank)
    (h : PReach inp s) : (∀ d, s.susp ≠ some (.cyclic d)) ∧ s.halt ≠ .cyclic := by
  induction h with
  | init => simp [init]
  | @next s0 s1 c hp hs ih =>
    obtain ⟨ih1, ih2⟩ := ih
    cases c with
    | take w =>
      have hs' : takeStep inp s0 w = some s1 := hs
      obtain ⟨_, _, _, g4⟩ := takeStep_frameE hs'
      refine ⟨by rw [g4]; exact ih1, ?_⟩
      unfold takeStep at hs'
      split at hs'
      · cases hq : s0.jobQ with
        | nil => simp only [hq] at hs'; cases hs'
        | cons j js =>
          simp only [hq] at hs'
          cases j <;> (simp only [] at hs'; cases hs'; exact ih2)
      · cases hs'
    | done w =>
      have hs' : doneStep s0 w = some s1 := hs
      obtain ⟨_, _, _, g4⟩ := doneStep_frameE hs'
      refine ⟨by rw [g4]; exact ih1, ?_⟩
      unfold doneStep at hs'
      cases hw : s0.workers w <;> simp only [hw] at hs' <;> cases hs'
      exact ih2
    | main perm =>
      have hs' : mainStep inp s0 perm = some s1 := hs
      unfold mainStep at hs'
      cases hr : s0.rpc with
      | gEntry completed ret => simp only [hr] at hs'; split at hs' <;> (cases hs'; exact ⟨ih1, ih2⟩)
      | gLoop node ret =>
        simp only [hr] at hs'
        cases hsd : send inp s0 node perm with
        | none => simp only [hsd] at hs'; cases hs'
        | some x =>
          simp only [hsd] at hs'; cases hs'
          obtain ⟨⟨_, _, _, _, _, _, _, _, o9, _⟩, o⟩ := send_outer hsd
          refine ⟨?_, by show x.halt ≠ .cyclic; rw [o9]; exact ih2⟩
          intro d e
          have e' : x.susp = some (.cyclic d) := e
          rcases o with a | a <;> (rw [a] at e'; cases e')
      | gWait ret =>
        simp only [hr] at hs'
        cases hsu : s0.susp with
        | none =>
          simp only [hsu] at hs'
          have o9 := (dtick_outer hs').2.2.2.2.2.2.2.2.1
          refine ⟨?_, by rw [o9]; exact ih2⟩
          intro d e
          have hN := preach_allN hrk hp
          obtain ⟨c1, c2, _, c4, c5⟩ := dtick_cyclic_shape hrk hN hsu hs' d e
          have hP := preach_invP hp
          have hF := preach_invF hp
          apply c4
          refine no_deadlock_shape hrk hN (preach_invE hp) hP.d hsu c1 c2 c5 ?_ ?_
          · intro n nd hn hy hst
            have := (hP.a4 n nd hn hy hst).1
            rw [hsu] at this; cases this
          · intro n nd hn hst
            rcases hP.a5 n nd hn hst with a | ⟨_, _, a | ⟨_, a, _⟩⟩
            · have := hF.di n a; rw [c5] at this; cases this
            · exact a
            · rw [hsu] at a; cases a
        | some o =>
          simp only [hsu] at hs'
          cases o with
          | init => cases hs'
          | node n =>
            simp only [] at hs'
            cases hn : s0.nodes n with
            | none => simp only [hn] at hs'; cases hs'; exact ⟨ih1, by simp [raise]⟩
            | some nd =>
              simp only [hn] at hs'
              have key : ∀ (d : Sel), (∀ x, (applySel inp s0 n nd d).susp ≠ some (.cyclic x)) ∧
                  (applySel inp s0 n nd d).halt ≠ .cyclic := by
                intro d
                rw [(applySel_frame inp s0 n nd d).2.2.2.1, (applySel_frame2 inp s0 n nd d).2.2.2.1]
                exact ⟨ih1, ih2⟩
              cases hd : selDecision inp n nd <;> simp only [hd] at hs' <;> cases hs' <;>
                first | exact key _ | exact ⟨ih1, by simp [raise]⟩
          | holdOn => cases hs'; exact ⟨by simp, ih2⟩
          | stopIter => cases hs'; exact ⟨by simp, ih2⟩
          | cyclic n => exact absurd hsu (ih1 n)
          | crash => cases hs'; exact ⟨ih1, by simp [raise]⟩
      | gRet job ret =>
        simp only [hr] at hs'; cases hs'
        refine ⟨by rw [(gReturn_frameE s0 job ret).2.2.2]; exact ih1, ?_⟩
        cases ret with
        | startLoop k =>
          simp only [gReturn]; split
          · exact ih2
          · split <;> exact ih2
        | feedLoop k =>
          simp only [gReturn]; split
          · split
            · exact ih2
            · simp [raise]
          · exact ih2
      | pTop =>
        simp only [hr] at hs'
        split at hs'
        · cases hs'; exact ⟨ih1, ih2⟩
        · cases hq : s0.resQ with
          | nil => simp only [hq] at hs'; cases hs'
          | cons n rest =>
            simp only [hq] at hs'
            cases hn : s0.nodes n with
            | none => simp only [hn] at hs'; cases hs'; exact ⟨ih1, by simp [raise]⟩
            | some nd =>
              simp only [hn] at hs'; cases hs'
              refine ⟨?_, ?_⟩
              · intro d e
                have e' : (processResult inp { s0 with resQ := rest, rpc := .pTop } n nd).susp
                    = some (.cyclic d) := e
                rw [(processResult_frame inp _ n nd).2.2.2.1] at e'
                exact ih1 d e'
              · show (processResult inp { s0 with resQ := rest, rpc := .pTop } n nd).halt ≠ .cyclic
                rw [(processResult_frame2 inp _ n nd).2.2.2.1]; exact ih2
      | pJoin => simp only [hr] at hs'; split at hs' <;> cases hs'; exact ⟨ih1, ih2⟩
      | fin => simp only [hr] at hs'; cases hs'; exact ⟨ih1, ih2⟩
      | sTop a => simp only [hr] at hs'; cases hs'
      | sWait => simp only [hr] at hs'; cases hs'
      | sExec a => simp only [hr] at hs'; cases hs'
      | halted => simp only [hr] at hs'; cases hs'

end DoitModel.Run
