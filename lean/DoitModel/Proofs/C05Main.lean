import DoitModel.Proofs.C05Serial
/-! # C05 — from the invariants to the statements -/
namespace DoitModel.Run

/-- the dependencies recorded by a `go` are all reported finished (somewhere) in the event list -/
theorem go_deps_fin {l : List Ev} (h : OrdOK l) {n : Name} {deps : List Name} (hg : Ev.go n deps ∈ l) :
    ∀ d ∈ deps, finBefore l d := by
  induction l with
  | nil => cases hg
  | cons e rest ih =>
    rcases List.mem_cons.mp hg with a | a
    · subst a
      intro d hd
      exact finBefore_mono (fun e he => List.mem_cons_of_mem _ he) (h.1 d hd)
    · intro d hd
      exact finBefore_mono (fun e he => List.mem_cons_of_mem _ he) (ih h.2 a d hd)

/-- `select_task` has cleared `t` for execution, or `t` is executed / up-to-date -/
def Cleared (s : Sys) (t : Name) : Prop := (∃ deps, Ev.go t deps ∈ s.events) ∨ (stOf s t).good = true

theorem finBefore_good {inp : RunInput} {s : Sys} (hF : InvF inp s) {d : Name} (h : finBefore s.events d) :
    (stOf s d).good = true := by
  rcases h with a | a
  · rw [(hF.ok d a).1]; rfl
  · rw [hF.ut d a]; rfl

/-- every dependency of a cleared task is executed / up-to-date -/
theorem cleared_dep_good {inp : RunInput} {s : Sys} (h2 : Inv2 inp s) (hG : InvG inp s) (hF : InvF inp s)
    {t d : Name} (hc : Cleared s t) (hd : DepOnE inp s.events t d) : (stOf s d).good = true := by
  have viaGo : (∃ deps, Ev.go t deps ∈ s.events) → (stOf s d).good = true := by
    rintro ⟨deps, hg⟩
    obtain ⟨cs, hcl⟩ := hG.gd t deps hg
    have hmem : d ∈ deps := by
      cases hd with
      | ns h =>
        rcases closed_depNS hcl h with a | a
        · exact h2.gs t deps hg d (by simp [staticDeps, a])
        · exact a
      | setup h _ => exact h2.gs t deps hg d (by simp [staticDeps, h])
    exact finBefore_good hF (go_deps_fin h2.ord hg d hmem)
  rcases hc with hg | hgood
  · exact viaGo hg
  · cases hst : stOf s t <;> rw [hst] at hgood <;> simp [RS.good] at hgood
    · -- up-to-date
      cases hd with
      | ns h => exact (hF.ud t hst).2 d h
      | setup _ hne => exact absurd ((h2.g t).2 hst) hne
    · -- executed
      exact viaGo (hF.ok t ((h2.g t).1 hst)).2

theorem cleared_plus_good {inp : RunInput} {s : Sys} (h2 : Inv2 inp s) (hG : InvG inp s) (hF : InvF inp s)
    {t d : Name} (hd : DepPlusE inp s.events t d) : Cleared s t → (stOf s d).good = true := by
  induction hd with
  | one h => exact fun hc => cleared_dep_good h2 hG hF hc h
  | more h _ ih => exact fun hc => ih (Or.inr (cleared_dep_good h2 hG hF hc h))

/-- the static relation is contained in the one the run determines -/
theorem depOn_depOnE {inp : RunInput} {s : Sys} (hF : InvF inp s) {t d : Name} (h : DepOn inp t d) :
    DepOnE inp s.events t d := by
  cases h with
  | ns h => exact .ns h
  | setup h hne => exact .setup h (fun hu => hne (hF.ud t (hF.ut t hu)).1)

theorem depPlus_depPlusE {inp : RunInput} {s : Sys} (hF : InvF inp s) {t d : Name} (h : DepPlus inp t d) :
    DepPlusE inp s.events t d := by
  induction h with
  | one h => exact .one (depOn_depOnE hF h)
  | more h _ ih => exact .more (depOn_depOnE hF h) ih

/-- core of (a): if `d` has a failure report and `t` depends on `d`, `select_task` never clears `t` -/
theorem failed_dep_never_started {inp : RunInput} {s : Sys} (h2 : Inv2 inp s) (hG : InvG inp s) (hF : InvF inp s)
    {t d : Name} {k : FailKind} (hf : Ev.failure d k ∈ s.events) (hd : DepPlusE inp s.events t d) :
    (∀ deps, Ev.go t deps ∉ s.events) ∧ (∀ w, Ev.start t w ∉ s.events) ∧ Ev.success t ∉ s.events ∧
      Ev.skipUtd t ∉ s.events := by
  have hfail := hF.fl d k hf
  have nc : ¬ Cleared s t := by
    intro hc
    have := cleared_plus_good h2 hG hF hd hc
    rw [hfail] at this; cases this
  refine ⟨fun deps hg => nc (Or.inl ⟨deps, hg⟩), ?_, ?_, ?_⟩
  · intro w hw
    obtain ⟨pre, post, hsplit⟩ := List.append_of_mem hw
    have ho : OrdOK (Ev.start t w :: post) := OrdOK_suffix (pre := pre) (by rw [← hsplit]; exact h2.ord)
    obtain ⟨deps, hdm⟩ := ho.1
    exact nc (Or.inl ⟨deps, by rw [hsplit]; simp [hdm]⟩)
  · intro hs'; exact nc (Or.inr (by rw [(hF.ok t hs').1]; rfl))
  · intro hs'; exact nc (Or.inr (by rw [hF.ut t hs']; rfl))

/-- (b): with at most one terminal report per task, a failure report leaves no success record -/
theorem recAfter_failed (r0 : Name → Bool) (n : Name) : ∀ (l : List Ev), l.countP (Ev.isTerminalOf n) ≤ 1 →
    (∃ k, Ev.failure n k ∈ l) → recAfter r0 n l = false := by
  intro l
  induction l with
  | nil => rintro _ ⟨k, h⟩; cases h
  | cons e rest ih =>
    intro hc ⟨k, hm⟩
    have hpos : ∀ k', Ev.failure n k' ∈ rest → 0 < rest.countP (Ev.isTerminalOf n) := fun k' h =>
      List.countP_pos_iff.mpr ⟨_, h, by simp [Ev.isTerminalOf]⟩
    rw [List.countP_cons] at hc
    have hle : rest.countP (Ev.isTerminalOf n) ≤ 1 := Nat.le_trans (Nat.le_add_right _ _) hc
    cases e with
    | success m =>
      by_cases e1 : m = n
      · subst e1
        rcases List.mem_cons.mp hm with a | a
        · cases a
        · have := hpos k a
          have h1 : (if Ev.isTerminalOf m (Ev.success m) = true then 1 else 0) = 1 := by simp [Ev.isTerminalOf]
          rw [h1] at hc; omega
      · simp only [recAfter, e1, if_false]
        rcases List.mem_cons.mp hm with a | a
        · cases a
        · exact ih hle ⟨k, a⟩
    | failure m k' =>
      by_cases e1 : m = n
      · simp [recAfter, e1]
      · simp only [recAfter, e1, if_false]
        rcases List.mem_cons.mp hm with a | a
        · cases a; exact absurd rfl e1
        · exact ih hle ⟨k, a⟩
    | getStatus m | skipIgn m | skipUtd m | execute m | teardown m | start m w | fin m w | go m ds | complete =>
      simp only [recAfter]
      rcases List.mem_cons.mp hm with a | a
      · cases a
      · exact ih hle ⟨k, a⟩

end DoitModel.Run
