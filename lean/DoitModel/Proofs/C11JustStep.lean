import DoitModel.Proofs.C11Just
/-! # C11, laziness: the node invariant of `Proofs/C11Just.lean` along every transition (for fixed `J`, `G`) -/
namespace DoitModel.Run

variable {inp : RunInput} {J : Name → Prop} {G : Name → CalcRes → Prop}

structure SJ (inp : RunInput) (J : Name → Prop) (G : Name → CalcRes → Prop) (s : Sys) : Prop where
  all : AllJ inp J G s
  tr : ∀ t ∈ s.toRun, J t

/-- what the dispatcher needs from outside to keep `SJ`: good statuses are known to `G`, `J` is closed under the known
    dependencies, and a setup-task about to get its node is justified -/
structure Hyp (inp : RunInput) (J : Name → Prop) (G : Name → CalcRes → Prop) (s : Sys) : Prop where
  g : KnowsD inp G s
  c : JClosed inp J G
  s : ∀ n nd d ds, s.cur = some n → s.nodes n = some nd → nd.pc = .setupIter (d :: ds) → s.nodes d = none → J d

theorem SJ.same {s s' : Sys} (h : SJ inp J G s) (e1 : s'.nodes = s.nodes) (e2 : s'.toRun = s.toRun) : SJ inp J G s' :=
  ⟨allJ_congr h.all e1, by rw [e2]; exact h.tr⟩

theorem c11_applySel_toRun (inp : RunInput) (s : Sys) (n : Name) (nd : Node) (d : Sel) :
    (applySel inp s n nd d).toRun = s.toRun := by
  cases d <;> rfl

theorem c11_processResult_toRun (inp : RunInput) (s : Sys) (n : Name) (nd : Node) :
    (processResult inp s n nd).toRun = s.toRun := by
  unfold processResult; cases inp.outcome n <;> rfl

theorem c11_genStep_toRun (inp : RunInput) (s : Sys) (n : Name) (nd : Node) (d : Name) (pc' : PC) :
    (genStep inp s n nd d pc').toRun = s.toRun := by
  unfold genStep
  cases s.nodes d with
  | none => rfl
  | some x => simp only []; split <;> rfl

theorem c11_nodeStep_toRun {s s' : Sys} {n : Name} {nd : Node} {perm : List Name}
    (hs : nodeStep inp s n nd perm = some s') : s'.toRun = s.toRun := by
  unfold nodeStep at hs
  split at hs
  all_goals (try split at hs)
  all_goals (try split at hs)
  all_goals (cases hs <;> first
    | exact c11_genStep_toRun _ _ _ _ _ _ | rfl | simp [addWaitRun, registerWaiting, setNode])

theorem c11_dtick_toRun {s s' : Sys} {perm : List Name} (hs : dtick inp s perm = some s') :
    ∀ t ∈ s'.toRun, t ∈ s.toRun := by
  unfold dtick at hs
  split at hs
  · split at hs
    · cases hs; exact fun t h => h
    · rw [c11_nodeStep_toRun hs]; exact fun t h => h
  · split at hs
    · cases hs; exact fun t h => h
    · split at hs
      · rename_i heq
        split at hs <;> (cases hs; intro t h; rw [heq]; exact List.mem_cons_of_mem _ h)
      · split at hs
        · split at hs <;> (cases hs; exact fun t h => h)
        · cases hs; exact fun t h => h

theorem c11_gReturn_nodes (s : Sys) (job : Job) (ret : Ret) : (gReturn s job ret).nodes = s.nodes := by
  cases ret <;> simp only [gReturn] <;> (repeat' split) <;> rfl

theorem gReturn_toRun' (s : Sys) (job : Job) (ret : Ret) : (gReturn s job ret).toRun = s.toRun := by
  cases ret with
  | startLoop k => simp only [gReturn]; split; · rfl
                   split <;> rfl
  | feedLoop k => simp only [gReturn]; split
                  · split <;> rfl
                  · rfl

theorem dtick_sj {s s' : Sys} {perm : List Name} (hy : Hyp inp J G s) (h : SJ inp J G s)
    (hs : dtick inp s perm = some s') : SJ inp J G s' := by
  exact ⟨dtick_allJ hy.g hy.c hy.s h.tr h.all hs, fun x hx => h.tr x (c11_dtick_toRun hs x hx)⟩

theorem send_sj {s s0 : Sys} {node : Option Name} {perm : List Name} (hy : Hyp inp J G s) (h : SJ inp J G s)
    (hs : send inp s node perm = some s0) (r : RPC) : SJ inp J G { s0 with rpc := r } :=
  ⟨allJ_congr (send_allJ hy.g h.all hs) rfl, by
    intro t ht; exact h.tr t (by rw [← send_toRun hs]; exact ht)⟩

theorem select_sj {s : Sys} {n : Name} {nd : Node} (h : SJ inp J G s) (hn : s.nodes n = some nd)
    (d : Sel) (hd : d ≠ .assertFail) (r : RPC) : SJ inp J G { applySel inp s n nd d with rpc := r } :=
  ⟨allJ_congr (allJ_status (selStatus d) h.all hn (applySel_nodes inp s n nd d hd)) rfl, by
    intro t ht; exact h.tr t (by rw [← c11_applySel_toRun inp s n nd d]; exact ht)⟩

theorem result_sj {s x : Sys} {n : Name} {nd : Node} (h : SJ inp J G s) (hn : s.nodes n = some nd)
    (e1 : x.nodes = s.nodes) (e2 : x.toRun = s.toRun) (r : RPC) :
    SJ inp J G { processResult inp x n nd with rpc := r } := by
  have hx : SJ inp J G x := h.same e1 e2
  exact ⟨allJ_congr (allJ_status (resStatus (inp.outcome n)) hx.all (by rw [e1]; exact hn)
    (processResult_nodes inp x n nd)) rfl, by
    intro t ht; exact hx.tr t (by rw [← c11_processResult_toRun inp x n nd]; exact ht)⟩

theorem serialStep_sj {s s' : Sys} {perm : List Name} (hy : Hyp inp J G s) (h : SJ inp J G s)
    (hs : serialStep inp s perm = some s') : SJ inp J G s' := by
  unfold serialStep at hs
  cases hrp : s.rpc with
  | sTop node =>
    simp only [hrp] at hs
    split at hs
    · cases hs; exact h.same rfl rfl
    · cases hsd : send inp s node perm with
      | none => simp only [hsd] at hs; cases hs
      | some s0 => simp only [hsd] at hs; cases hs; exact send_sj hy h hsd _
  | sWait =>
    simp only [hrp] at hs
    cases hsu : s.susp with
    | none => simp only [hsu] at hs; exact dtick_sj hy h hs
    | some o =>
      simp only [hsu] at hs
      cases o with
      | init => cases hs
      | node n =>
        simp only [] at hs
        cases hn : s.nodes n with
        | none => simp only [hn] at hs; cases hs; exact h.same rfl rfl
        | some nd =>
          simp only [hn] at hs
          cases hd : selDecision inp n nd with
          | go =>
            simp only [hd] at hs; cases hs
            exact (select_sj h hn .go (by simp) (.sExec n)).same rfl rfl
          | assertFail => simp only [hd] at hs; cases hs; exact h.same rfl rfl
          | skipIgn => simp only [hd] at hs; cases hs; exact select_sj h hn _ (by simp) _
          | unmet => simp only [hd] at hs; cases hs; exact select_sj h hn _ (by simp) _
          | depErr => simp only [hd] at hs; cases hs; exact select_sj h hn _ (by simp) _
          | utd => simp only [hd] at hs; cases hs; exact select_sj h hn _ (by simp) _
          | runFirst => simp only [hd] at hs; cases hs; exact select_sj h hn _ (by simp) _
          | argsErr => simp only [hd] at hs; cases hs; exact select_sj h hn _ (by simp) _
      | stopIter => cases hs; exact h.same rfl rfl
      | holdOn => cases hs; exact h.same rfl rfl
      | cyclic n => cases hs; exact h.same rfl rfl
      | crash => cases hs; exact h.same rfl rfl
  | sExec n =>
    simp only [hrp] at hs
    cases hn : s.nodes n with
    | none => simp only [hn] at hs; cases hs; exact h.same rfl rfl
    | some nd =>
      simp only [hn] at hs; cases hs
      exact result_sj (x := { s with events := Ev.fin n 0 :: s.events, rpc := .sExec n }) h hn rfl rfl _
  | fin => simp only [hrp] at hs; cases hs; exact h.same rfl rfl
  | gEntry a b => simp only [hrp] at hs; cases hs
  | gLoop a b => simp only [hrp] at hs; cases hs
  | gWait a => simp only [hrp] at hs; cases hs
  | gRet a b => simp only [hrp] at hs; cases hs
  | pTop => simp only [hrp] at hs; cases hs
  | pJoin => simp only [hrp] at hs; cases hs
  | halted => simp only [hrp] at hs; cases hs

theorem mainStep_sj {s s' : Sys} {perm : List Name} (hy : Hyp inp J G s) (h : SJ inp J G s)
    (hs : mainStep inp s perm = some s') : SJ inp J G s' := by
  unfold mainStep at hs
  cases hrp : s.rpc with
  | gEntry completed ret =>
    simp only [hrp] at hs
    split at hs <;> (cases hs; exact h.same rfl rfl)
  | gLoop node ret =>
    simp only [hrp] at hs
    cases hsd : send inp s node perm with
    | none => simp only [hsd] at hs; cases hs
    | some s0 => simp only [hsd] at hs; cases hs; exact send_sj hy h hsd _
  | gWait ret =>
    simp only [hrp] at hs
    cases hsu : s.susp with
    | none => simp only [hsu] at hs; exact dtick_sj hy h hs
    | some o =>
      simp only [hsu] at hs
      cases o with
      | init => cases hs
      | node n =>
        simp only [] at hs
        cases hn : s.nodes n with
        | none => simp only [hn] at hs; cases hs; exact h.same rfl rfl
        | some nd =>
          simp only [hn] at hs
          cases hd : selDecision inp n nd with
          | go => simp only [hd] at hs; cases hs; exact (select_sj h hn .go (by simp) _).same rfl rfl
          | assertFail => simp only [hd] at hs; cases hs; exact h.same rfl rfl
          | skipIgn => simp only [hd] at hs; cases hs; exact select_sj h hn _ (by simp) _
          | unmet => simp only [hd] at hs; cases hs; exact select_sj h hn _ (by simp) _
          | depErr => simp only [hd] at hs; cases hs; exact select_sj h hn _ (by simp) _
          | utd => simp only [hd] at hs; cases hs; exact select_sj h hn _ (by simp) _
          | runFirst => simp only [hd] at hs; cases hs; exact select_sj h hn _ (by simp) _
          | argsErr => simp only [hd] at hs; cases hs; exact select_sj h hn _ (by simp) _
      | holdOn => cases hs; exact h.same rfl rfl
      | stopIter => cases hs; exact h.same rfl rfl
      | cyclic n => cases hs; exact h.same rfl rfl
      | crash => cases hs; exact h.same rfl rfl
  | gRet job ret => simp only [hrp] at hs; cases hs; exact h.same (c11_gReturn_nodes s job ret) (gReturn_toRun' s job ret)
  | pTop =>
    simp only [hrp] at hs
    split at hs
    · cases hs; exact h.same rfl rfl
    · cases hq : s.resQ with
      | nil => simp only [hq] at hs; cases hs
      | cons n rest =>
        simp only [hq] at hs
        cases hn : s.nodes n with
        | none => simp only [hn] at hs; cases hs; exact h.same rfl rfl
        | some nd =>
          simp only [hn] at hs; cases hs
          exact (result_sj (x := { s with resQ := rest, rpc := .pTop }) h hn rfl rfl
            (.gEntry (some n) (.feedLoop (s.freeProc + 1)))).same rfl rfl
  | pJoin =>
    simp only [hrp] at hs
    split at hs
    · cases hs; exact h.same rfl rfl
    · cases hs
  | fin => simp only [hrp] at hs; cases hs; exact h.same rfl rfl
  | sTop a => simp only [hrp] at hs; cases hs
  | sWait => simp only [hrp] at hs; cases hs
  | sExec a => simp only [hrp] at hs; cases hs
  | halted => simp only [hrp] at hs; cases hs

theorem pstep_sj {s s' : Sys} {c : Choice} (hy : Hyp inp J G s) (h : SJ inp J G s)
    (hs : pstep inp s c = some s') : SJ inp J G s' := by
  cases c with
  | main perm => exact mainStep_sj hy h hs
  | take w =>
    simp only [pstep, takeStep] at hs
    split at hs
    · cases hq : s.jobQ with
      | nil => simp only [hq] at hs; cases hs
      | cons j js => simp only [hq] at hs; cases j <;> (cases hs; exact h.same rfl rfl)
    · cases hs
  | done w =>
    simp only [pstep, doneStep] at hs
    cases hw : s.workers w <;> simp only [hw] at hs <;> cases hs
    exact h.same rfl rfl

end DoitModel.Run
