import DoitModel.Model.Clean
/-! Helper lemmas for C14, part 3: what `build_nodes_with_deps` builds.

For the final table `G` (when the model's fuel was not exhausted): keys are duplicate-free and are exactly the
processed tasks; the processed tasks contain the roots, are closed under `deps`, and are all reachable from a
root; `a ∈ chOf G b` iff `a` is processed and `b ∈ deps a`. -/
namespace DoitModel.Clean

/-! ### primitives -/
theorem mem_keys_setdef {k x : Name} : ∀ {ns : Nodes}, x ∈ keys (setdef k ns) ↔ x = k ∨ x ∈ keys ns := by
  intro ns
  induction ns with
  | nil => simp [setdef, keys]
  | cons p rest ih =>
    obtain ⟨a, v⟩ := p
    by_cases hak : a = k
    · simp only [setdef, hak, if_true, keys, List.map_cons, List.mem_cons]
      constructor
      · intro h; exact Or.inr h
      · intro h; rcases h with h | h
        · exact Or.inl h
        · exact h
    · simp only [setdef, hak, if_false, keys, List.map_cons, List.mem_cons] at ih ⊢
      rw [ih]
      constructor
      · intro h; rcases h with h | h | h
        · exact Or.inr (Or.inl h)
        · exact Or.inl h
        · exact Or.inr (Or.inr h)
      · intro h; rcases h with h | h | h
        · exact Or.inr (Or.inl h)
        · exact Or.inl h
        · exact Or.inr (Or.inr h)

theorem mem_keys_addRev {k y x : Name} : ∀ {ns : Nodes}, x ∈ keys (addRev k y ns) ↔ x = k ∨ x ∈ keys ns := by
  intro ns
  induction ns with
  | nil => simp [addRev, keys]
  | cons p rest ih =>
    obtain ⟨a, v⟩ := p
    by_cases hak : a = k
    · simp only [addRev, hak, if_true, keys, List.map_cons, List.mem_cons]
      constructor
      · intro h; exact Or.inr h
      · intro h; rcases h with h | h
        · exact Or.inl h
        · exact h
    · simp only [addRev, hak, if_false, keys, List.map_cons, List.mem_cons] at ih ⊢
      rw [ih]
      constructor
      · intro h; rcases h with h | h | h
        · exact Or.inr (Or.inl h)
        · exact Or.inl h
        · exact Or.inr (Or.inr h)
      · intro h; rcases h with h | h | h
        · exact Or.inr (Or.inl h)
        · exact Or.inl h
        · exact Or.inr (Or.inr h)

theorem nodup_keys_setdef {k : Name} : ∀ {ns : Nodes}, (keys ns).Nodup → (keys (setdef k ns)).Nodup := by
  intro ns
  induction ns with
  | nil => intro _; simp [setdef, keys]
  | cons p rest ih =>
    obtain ⟨a, v⟩ := p
    intro h
    by_cases hak : a = k
    · simp only [setdef, hak, if_true]; rw [← hak]; exact h
    · simp only [keys, List.map_cons, List.nodup_cons] at h
      simp only [setdef, hak, if_false, keys, List.map_cons, List.nodup_cons]
      refine ⟨?_, ih h.2⟩
      intro hm
      rcases (mem_keys_setdef (ns := rest)).1 hm with h1 | h1
      · exact hak h1
      · exact h.1 h1

theorem nodup_keys_addRev {k y : Name} : ∀ {ns : Nodes}, (keys ns).Nodup → (keys (addRev k y ns)).Nodup := by
  intro ns
  induction ns with
  | nil => intro _; simp [addRev, keys]
  | cons p rest ih =>
    obtain ⟨a, v⟩ := p
    intro h
    by_cases hak : a = k
    · simp only [addRev, hak, if_true]; rw [← hak]; exact h
    · simp only [keys, List.map_cons, List.nodup_cons] at h
      simp only [addRev, hak, if_false, keys, List.map_cons, List.nodup_cons]
      refine ⟨?_, ih h.2⟩
      intro hm
      rcases (mem_keys_addRev (ns := rest)).1 hm with h1 | h1
      · exact hak h1
      · exact h.1 h1

theorem chOf_setdef {k b : Name} : ∀ {ns : Nodes}, chOf (setdef k ns) b = chOf ns b := by
  intro ns
  induction ns with
  | nil =>
    by_cases h : k = b <;> simp [setdef, chOf, alookup, h]
  | cons p rest ih =>
    obtain ⟨a, v⟩ := p
    by_cases hak : a = k
    · simp [setdef, hak]
    · simp only [setdef, hak, if_false, chOf, alookup] at ih ⊢
      by_cases hab : a = b
      · simp [hab]
      · simp only [hab, if_false]; exact ih

theorem mem_chOf_addRev {k y b a : Name} :
    ∀ {ns : Nodes}, a ∈ chOf (addRev k y ns) b ↔ a ∈ chOf ns b ∨ (b = k ∧ a = y) := by
  intro ns
  induction ns with
  | nil =>
    by_cases h : k = b
    · simp [addRev, chOf, alookup, h]
    · have : ¬ b = k := fun e => h e.symm
      simp [addRev, chOf, alookup, h, this]
  | cons p rest ih =>
    obtain ⟨c, v⟩ := p
    by_cases hck : c = k
    · by_cases hcb : c = b
      · have : b = k := hcb.symm.trans hck
        simp [addRev, hck, chOf, alookup, this]
      · have : ¬ b = k := fun e => hcb (hck.trans e.symm)
        have hkb : ¬ k = b := fun e => this e.symm
        simp [addRev, hck, chOf, alookup, this, hkb]
    · simp only [addRev, hck, if_false, chOf, alookup] at ih ⊢
      by_cases hcb : c = b
      · have : ¬ b = k := fun e => hck (hcb.trans e)
        simp [hcb, this]
      · simp only [hcb, if_false]; exact ih

/-! ### monotonicity -/
/-- nothing is ever taken away while building, and the out-of-fuel flag is sticky -/
structure BMono (s s' : BState) : Prop where
  proc : ∀ x, x ∈ s.processed → x ∈ s'.processed
  keys : ∀ x, x ∈ keys s.nodes → x ∈ keys s'.nodes
  ch : ∀ b a, a ∈ chOf s.nodes b → a ∈ chOf s'.nodes b
  oof : s.oof = true → s'.oof = true

theorem BMono.refl (s : BState) : BMono s s := ⟨fun _ h => h, fun _ h => h, fun _ _ h => h, fun h => h⟩
theorem BMono.trans {a b c : BState} (h1 : BMono a b) (h2 : BMono b c) : BMono a c :=
  ⟨fun x h => h2.proc x (h1.proc x h), fun x h => h2.keys x (h1.keys x h),
   fun y x h => h2.ch y x (h1.ch y x h), fun h => h2.oof (h1.oof h)⟩

theorem foldl_mono {α : Type} (g : BState → α → BState) (hg : ∀ s a, BMono s (g s a)) :
    ∀ (l : List α) (s : BState), BMono s (l.foldl g s) := by
  intro l
  induction l with
  | nil => intro s; exact BMono.refl s
  | cons a l ih => intro s; exact (hg s a).trans (ih _)

theorem mono_setdef (s : BState) (n : Name) :
    BMono s { s with nodes := setdef n s.nodes, processed := n :: s.processed } :=
  ⟨fun _ h => List.mem_cons_of_mem _ h, fun _ h => mem_keys_setdef.2 (Or.inr h),
   fun _ _ h => by simpa [chOf_setdef] using h, fun h => h⟩

theorem mono_addRev (s : BState) (d n : Name) : BMono s { s with nodes := addRev d n s.nodes } :=
  ⟨fun _ h => h, fun _ h => mem_keys_addRev.2 (Or.inr h), fun _ _ h => mem_chOf_addRev.2 (Or.inl h), fun h => h⟩

theorem buildDeps_mono (deps : Name → List Name) : ∀ (f : Nat) (name : Name) (s : BState),
    BMono s (buildDeps deps f name s) := by
  intro f
  induction f with
  | zero => intro name s; exact ⟨fun _ h => h, fun _ h => h, fun _ _ h => h, fun _ => rfl⟩
  | succ f ih =>
    intro name s
    by_cases hp : name ∈ s.processed
    · simp only [buildDeps, hp, if_true]; exact BMono.refl s
    · simp only [buildDeps, hp, if_false]
      exact (mono_setdef s name).trans
        (foldl_mono _ (fun t d => (mono_addRev t d name).trans (ih d _)) _ _)

/-! ### invariants preserved by every primitive step -/
theorem buildDeps_inv (deps : Name → List Name) (Q : BState → Prop) (C : Name → BState → Prop)
    (hset : ∀ s n, Q s → C n s → n ∉ s.processed →
      Q { s with nodes := setdef n s.nodes, processed := n :: s.processed })
    (hadd : ∀ s n d, Q s → n ∈ s.processed → d ∈ deps n →
      Q { s with nodes := addRev d n s.nodes } ∧ C d { s with nodes := addRev d n s.nodes })
    (hoof : ∀ s, Q s → Q { s with oof := true }) :
    ∀ (f : Nat) (name : Name) (s : BState), Q s → C name s → Q (buildDeps deps f name s) := by
  intro f
  induction f with
  | zero => intro name s h _; exact hoof s h
  | succ f ih =>
    intro name s h hc
    by_cases hp : name ∈ s.processed
    · simp only [buildDeps, hp, if_true]; exact h
    · simp only [buildDeps, hp, if_false]
      have inner : ∀ (ds : List Name) (t : BState), (∀ d, d ∈ ds → d ∈ deps name) → Q t → name ∈ t.processed →
          Q (ds.foldl (buildStep (buildDeps deps f) name) t) := by
        intro ds
        induction ds with
        | nil => intro t _ ht _; exact ht
        | cons d ds ihd =>
          intro t hds ht hn
          simp only [List.foldl_cons]
          obtain ⟨q1, c1⟩ := hadd t name d ht hn (hds d (by simp))
          have q2 := ih d _ q1 c1
          refine ihd _ (fun x hx => hds x (List.mem_cons_of_mem _ hx)) q2 ?_
          exact (buildDeps_mono deps f d _).proc name hn
      exact inner _ _ (fun d hd => by simpa using hd) (hset s name h hc hp) (by simp)

theorem buildFold_mono (deps : Name → List Name) (f : Nat) (name : Name) (ds : List Name) (t : BState) :
    BMono t (ds.foldl (buildStep (buildDeps deps f) name) t) :=
  foldl_mono _ (fun u d => (mono_addRev u d name).trans (buildDeps_mono deps f d _)) ds t

/-! ### the post-condition of one call -/
theorem build_post (deps : Name → List Name) : ∀ (f : Nat) (name : Name) (s : BState),
    (buildDeps deps f name s).oof = false →
    name ∈ (buildDeps deps f name s).processed ∧
    (∀ a, a ∈ (buildDeps deps f name s).processed → a ∉ s.processed → ∀ b, b ∈ deps a →
      b ∈ (buildDeps deps f name s).processed ∧ a ∈ chOf (buildDeps deps f name s).nodes b) ∧
    ((∀ x, x ∈ keys s.nodes → x ∈ s.processed ∨ x = name) →
      ∀ x, x ∈ keys (buildDeps deps f name s).nodes → x ∈ (buildDeps deps f name s).processed) := by
  intro f
  induction f with
  | zero => intro name s h; simp [buildDeps] at h
  | succ f ih =>
    intro name s
    by_cases hp : name ∈ s.processed
    · rw [show buildDeps deps (f + 1) name s = s by simp [buildDeps, hp]]
      intro _
      refine ⟨hp, fun a ha hna => absurd ha hna, fun hk x hx => ?_⟩
      rcases hk x hx with h | h
      · exact h
      · rw [h]; exact hp
    · simp only [buildDeps, hp, if_false]
      have inner : ∀ (ds : List Name) (t : BState), name ∈ t.processed →
          (ds.foldl (buildStep (buildDeps deps f) name) t).oof = false →
          (∀ d, d ∈ ds → d ∈ (ds.foldl (buildStep (buildDeps deps f) name) t).processed ∧
            name ∈ chOf (ds.foldl (buildStep (buildDeps deps f) name) t).nodes d) ∧
          (∀ a, a ∈ (ds.foldl (buildStep (buildDeps deps f) name) t).processed → a ∉ t.processed →
            ∀ b, b ∈ deps a → b ∈ (ds.foldl (buildStep (buildDeps deps f) name) t).processed ∧
              a ∈ chOf (ds.foldl (buildStep (buildDeps deps f) name) t).nodes b) ∧
          ((∀ x, x ∈ keys t.nodes → x ∈ t.processed) →
            ∀ x, x ∈ keys (ds.foldl (buildStep (buildDeps deps f) name) t).nodes →
              x ∈ (ds.foldl (buildStep (buildDeps deps f) name) t).processed) := by
        intro ds
        induction ds with
        | nil =>
          intro t _ _
          exact ⟨fun d hd => absurd hd (by simp), fun a ha hna => absurd ha hna, fun hk => hk⟩
        | cons d ds ihd =>
          intro t hn hoof
          simp only [List.foldl_cons] at hoof ⊢
          have hm2 := buildFold_mono deps f name ds (buildStep (buildDeps deps f) name t d)
          have hoof2 : (buildStep (buildDeps deps f) name t d).oof = false := by
            cases h : (buildStep (buildDeps deps f) name t d).oof with
            | false => rfl
            | true => rw [hm2.oof h] at hoof; exact absurd hoof (by simp)
          have hm1 : BMono { t with nodes := addRev d name t.nodes } (buildStep (buildDeps deps f) name t d) :=
            buildDeps_mono deps f d _
          obtain ⟨p1, p2, p3⟩ := ih d { t with nodes := addRev d name t.nodes } hoof2
          obtain ⟨a1, a2, a3⟩ := ihd (buildStep (buildDeps deps f) name t d) (hm1.proc name hn) hoof
          refine ⟨?_, ?_, ?_⟩
          · intro x hx
            simp only [List.mem_cons] at hx
            rcases hx with hx | hx
            · rw [hx]
              exact ⟨hm2.proc d p1, hm2.ch d name (hm1.ch d name (mem_chOf_addRev.2 (Or.inr ⟨rfl, rfl⟩)))⟩
            · exact a1 x hx
          · intro a ha hna b hb
            by_cases h2 : a ∈ (buildStep (buildDeps deps f) name t d).processed
            · obtain ⟨q1, q2⟩ := p2 a h2 hna b hb
              exact ⟨hm2.proc b q1, hm2.ch b a q2⟩
            · exact a2 a ha h2 b hb
          · intro hk
            refine a3 (p3 ?_)
            intro x hx
            rcases mem_keys_addRev.1 hx with h | h
            · exact Or.inr h
            · exact Or.inl (hk x h)
      intro hoof
      have hm := buildFold_mono deps f name (deps name).reverse
        { s with nodes := setdef name s.nodes, processed := name :: s.processed }
      obtain ⟨a1, a2, a3⟩ := inner (deps name).reverse
        { s with nodes := setdef name s.nodes, processed := name :: s.processed } (by simp) hoof
      refine ⟨hm.proc name (by simp), ?_, ?_⟩
      · intro a ha hna b hb
        by_cases han : a = name
        · rw [han] at hb ⊢; exact a1 b (by simpa using hb)
        · exact a2 a ha (by simp [han, hna]) b hb
      · intro hk
        refine a3 ?_
        intro x hx
        rcases mem_keys_setdef.1 hx with h | h
        · simp [h]
        · rcases hk x h with h' | h'
          · exact List.mem_cons_of_mem _ h'
          · simp [h']

/-! ### the whole table -/
/-- reachable from one of the roots -/
def Rb (deps : Name → List Name) (roots : List Name) (x : Name) : Prop := ∃ r, r ∈ roots ∧ Reach deps r x

/-- invariants that every primitive step keeps -/
structure BQ (deps : Name → List Name) (roots : List Name) (s : BState) : Prop where
  nd : (keys s.nodes).Nodup
  chDep : ∀ b a, a ∈ chOf s.nodes b → b ∈ deps a ∧ a ∈ s.processed
  procKeys : ∀ x, x ∈ s.processed → x ∈ keys s.nodes
  reach : ∀ x, x ∈ keys s.nodes → Rb deps roots x

theorem buildDeps_BQ (deps : Name → List Name) (roots : List Name) (f : Nat) (name : Name) (s : BState)
    (h : BQ deps roots s) (hr : Rb deps roots name) : BQ deps roots (buildDeps deps f name s) := by
  refine buildDeps_inv deps (BQ deps roots) (fun n _ => Rb deps roots n) ?_ ?_ ?_ f name s h hr
  · intro s n q c _
    refine ⟨nodup_keys_setdef q.nd, ?_, ?_, ?_⟩
    · intro b a ha
      rw [chOf_setdef] at ha
      exact ⟨(q.chDep b a ha).1, List.mem_cons_of_mem _ (q.chDep b a ha).2⟩
    · intro x hx
      simp only [List.mem_cons] at hx
      rcases hx with hx | hx
      · exact mem_keys_setdef.2 (Or.inl hx)
      · exact mem_keys_setdef.2 (Or.inr (q.procKeys x hx))
    · intro x hx
      rcases mem_keys_setdef.1 hx with hx | hx
      · rw [hx]; exact c
      · exact q.reach x hx
  · intro s n d q hn hd
    have hrd : Rb deps roots d := by
      obtain ⟨r, hr1, hr2⟩ := q.reach n (q.procKeys n hn)
      exact ⟨r, hr1, Reach.step hr2 hd⟩
    refine ⟨⟨nodup_keys_addRev q.nd, ?_, ?_, ?_⟩, hrd⟩
    · intro b a ha
      rcases mem_chOf_addRev.1 ha with h1 | ⟨h1, h2⟩
      · exact q.chDep b a h1
      · rw [h1, h2]; exact ⟨hd, hn⟩
    · intro x hx
      exact mem_keys_addRev.2 (Or.inr (q.procKeys x hx))
    · intro x hx
      rcases mem_keys_addRev.1 hx with hx | hx
      · rw [hx]; exact hrd
      · exact q.reach x hx
  · intro s q; exact ⟨q.nd, q.chDep, q.procKeys, q.reach⟩

/-- the facts about the final table that hold between top-level calls -/
structure BAll (deps : Name → List Name) (roots : List Name) (s : BState) : Prop where
  q : BQ deps roots s
  keysProc : ∀ x, x ∈ keys s.nodes → x ∈ s.processed
  closed : ∀ a, a ∈ s.processed → ∀ b, b ∈ deps a → b ∈ s.processed ∧ a ∈ chOf s.nodes b

theorem buildAll_fold (deps : Name → List Name) (roots : List Name) (f : Nat) :
    ∀ (cl : List Name) (s : BState), (∀ r, r ∈ cl → r ∈ roots) → BAll deps roots s →
    (cl.foldl (fun s n => buildDeps deps f n s) s).oof = false →
    BAll deps roots (cl.foldl (fun s n => buildDeps deps f n s) s) ∧
      (∀ r, r ∈ cl → r ∈ (cl.foldl (fun s n => buildDeps deps f n s) s).processed) := by
  intro cl
  induction cl with
  | nil => intro s _ h _; exact ⟨h, fun r hr => absurd hr (by simp)⟩
  | cons r cl ih =>
    intro s hcl h hoof
    simp only [List.foldl_cons] at hoof ⊢
    have hm2 : BMono (buildDeps deps f r s) (cl.foldl (fun s n => buildDeps deps f n s) (buildDeps deps f r s)) :=
      foldl_mono _ (fun u n => buildDeps_mono deps f n u) cl _
    have hoof1 : (buildDeps deps f r s).oof = false := by
      cases hh : (buildDeps deps f r s).oof with
      | false => rfl
      | true => rw [hm2.oof hh] at hoof; exact absurd hoof (by simp)
    have hm1 := buildDeps_mono deps f r s
    obtain ⟨p1, p2, p3⟩ := build_post deps f r s hoof1
    have hrr : Rb deps roots r := ⟨r, hcl r (by simp), Reach.refl r⟩
    have hall : BAll deps roots (buildDeps deps f r s) := by
      refine ⟨buildDeps_BQ deps roots f r s h.q hrr, p3 (fun x hx => Or.inl (h.keysProc x hx)), ?_⟩
      intro a ha b hb
      by_cases hold : a ∈ s.processed
      · obtain ⟨c1, c2⟩ := h.closed a hold b hb
        exact ⟨hm1.proc b c1, hm1.ch b a c2⟩
      · exact p2 a ha hold b hb
    obtain ⟨i1, i2⟩ := ih _ (fun x hx => hcl x (List.mem_cons_of_mem _ hx)) hall hoof
    refine ⟨i1, ?_⟩
    intro x hx
    simp only [List.mem_cons] at hx
    rcases hx with hx | hx
    · rw [hx]; exact hm2.proc r p1
    · exact i2 x hx

/-- everything the property theorems need about the table built with dependencies -/
theorem buildAll_spec (deps : Name → List Name) (f : Nat) (cl : List Name)
    (hoof : (buildAll deps f cl).oof = false) :
    (keys (buildAll deps f cl).nodes).Nodup ∧
    (∀ b a, a ∈ chOf (buildAll deps f cl).nodes b → b ∈ deps a ∧ a ∈ keys (buildAll deps f cl).nodes) ∧
    (∀ r, r ∈ cl → r ∈ keys (buildAll deps f cl).nodes) ∧
    (∀ a, a ∈ keys (buildAll deps f cl).nodes → ∀ b, b ∈ deps a →
      b ∈ keys (buildAll deps f cl).nodes ∧ a ∈ chOf (buildAll deps f cl).nodes b) ∧
    (∀ x, x ∈ keys (buildAll deps f cl).nodes → ∃ r, r ∈ cl ∧ Reach deps r x) := by
  have h0 : BAll deps cl { nodes := [], processed := [], oof := false } :=
    ⟨⟨by simp [keys], fun b a ha => by simp [chOf, alookup] at ha, fun x hx => absurd hx (by simp),
      fun x hx => by simp [keys] at hx⟩, fun x hx => by simp [keys] at hx, fun a ha => absurd ha (by simp)⟩
  obtain ⟨hall, hroots⟩ := buildAll_fold deps cl f cl _ (fun r hr => hr) h0 hoof
  refine ⟨hall.q.nd, ?_, ?_, ?_, hall.q.reach⟩
  · intro b a ha
    exact ⟨(hall.q.chDep b a ha).1, hall.q.procKeys a (hall.q.chDep b a ha).2⟩
  · intro r hr; exact hall.q.procKeys r (hroots r hr)
  · intro a ha b hb
    obtain ⟨c1, c2⟩ := hall.closed a (hall.keysProc a ha) b hb
    exact ⟨hall.q.procKeys b c1, c2⟩

end DoitModel.Clean
