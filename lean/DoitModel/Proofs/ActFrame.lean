import DoitModel.Proofs.Act
/-! The frame lemma of the stream machine: a well-nested step list leaves the cell as it found it, gives every
    execution started in it exactly its own writes, and appends to the context action's buffer exactly the
    context action's writes.  Induction over `WN` (a stack discipline), no enumeration. -/
namespace DoitModel.Act

theorem run_exec (s : St) (b : Act) (body rest : List Ev) :
    run s ([.save b, .set b] ++ body ++ [.restore b, .read b] ++ rest) =
      run (step (step (run (step (step s (.save b)) (.set b)) body) (.restore b)) (.read b)) rest := by
  simp [run, List.foldl_append]

theorem writesOf_exec (c b : Act) (body rest : List Ev) :
    writesOf c ([.save b, .set b] ++ body ++ [.restore b, .read b] ++ rest) =
      writesOf c body ++ writesOf c rest := by
  simp [writesOf_append, writesOf]

theorem started_exec (b : Act) (body rest : List Ev) :
    started ([.save b, .set b] ++ body ++ [.restore b, .read b] ++ rest) =
      b :: (started body ++ started rest) := by
  simp [started_append, started]

theorem wn_frame {o : Option Act} {evs : List Ev} (h : WN o evs) :
    ∀ s : St, (started evs).Nodup → (∀ b, b ∈ started evs → s.buf b = []) →
      (∀ a, o = some a → s.cell = .writer a ∧ a ∉ started evs) →
      Frame evs s (run s evs) := by
  induction h with
  | nil o =>
    intro s _ _ _
    exact ⟨rfl, rfl, rfl, by intro b hb; simp [started] at hb, by intro c _; simp [run, writesOf],
      fun _ _ => rfl, fun _ _ => rfl⟩
  | write a n rest _ ih =>
    intro s hn hb ho
    obtain ⟨hcell, hna⟩ := ho a rfl
    have hst : started (Ev.write a n :: rest) = started rest := rfl
    rw [hst] at hn hb hna
    have hs1 : step s (.write a n) = { s with buf := upd s.buf a (s.buf a ++ [(a, n)]) } := by
      simp [step, emit, hcell]
    have F := ih (step s (.write a n)) hn
      (by
        intro b hbm
        have hne : b ≠ a := fun e => hna (e ▸ hbm)
        rw [hs1]; simp [upd, hne, hb b hbm])
      (by
        intro a' ha'
        cases ha'
        exact ⟨by rw [hs1]; exact hcell, hna⟩)
    rw [run_cons]
    refine ⟨?_, ?_, ?_, ?_, ?_, ?_, ?_⟩
    · rw [F.cell, hs1]
    · rw [F.unbound, hs1]
    · rw [F.orig, hs1]
    · intro b hbm
      rw [hst] at hbm
      have hne : a ≠ b := fun e => hna (e ▸ hbm)
      rw [F.outs b hbm]; simp [writesOf, hne]
    · intro c hc
      rw [hst] at hc
      rw [F.buf c hc, hs1]
      by_cases hca : c = a
      · subst hca; simp [upd, writesOf]
      · have hne : a ≠ c := fun e => hca e.symm
        simp [upd, hca, writesOf, hne]
    · intro c hc; rw [hst] at hc; rw [F.keepOut c hc, hs1]
    · intro c hc; rw [hst] at hc; rw [F.keepSaved c hc, hs1]
  | exec o b body rest hbody hrest ihb ihr =>
    intro s hn hbuf ho
    rw [started_exec] at hn hbuf
    have hn' := List.nodup_cons.mp hn
    have hnb : b ∉ started body ∧ b ∉ started rest := by
      have := hn'.1; simp only [List.mem_append, not_or] at this; exact this
    have hnapp := List.nodup_append.mp hn'.2
    have hdisj : ∀ x, x ∈ started body → x ∉ started rest := fun x hx hx' => hnapp.2.2 x hx x hx' rfl
    have howner : ∀ x, o = some x → x ≠ b ∧ x ∉ started body ∧ x ∉ started rest := by
      intro x hx
      have := (ho x hx).2
      rw [started_exec] at this
      simp only [List.mem_cons, List.mem_append, not_or] at this
      exact this
    -- after `save b; set b`
    have hs1 : step (step s (.save b)) (.set b) =
        { s with saved := upd s.saved b (some s.cell), cell := .writer b } := rfl
    have F1 := ihb (step (step s (.save b)) (.set b)) hnapp.1
      (by intro x hx; rw [hs1]; exact hbuf x (by simp [hx]))
      (by intro a' ha'; cases ha'; exact ⟨by rw [hs1], hnb.1⟩)
    generalize hs2 : run (step (step s (.save b)) (.set b)) body = s2 at F1
    rw [hs1] at F1
    -- after `restore b; read b`
    have hsaved : s2.saved b = some s.cell := by
      rw [F1.keepSaved b hnb.1]; simp [upd]
    have hs3 : step (step s2 (.restore b)) (.read b) =
        { s2 with cell := s.cell, out := upd s2.out b (some (s2.buf b)) } := by
      simp [step, restoreTo, hsaved]
    have hbufb : s2.buf b = writesOf b body := by
      rw [F1.buf b hnb.1]; simp [hbuf b (by simp)]
    have F2 := ihr (step (step s2 (.restore b)) (.read b)) hnapp.2.1
      (by
        intro x hx
        have hxb : x ≠ b := fun e => hnb.2 (e ▸ hx)
        have hxbody : x ∉ started body := fun hx' => hdisj x hx' hx
        rw [hs3]
        show s2.buf x = []
        rw [F1.buf x hxbody]
        have := wn_writes hbody x (by intro e; exact hxb (Option.some.inj e).symm) hxbody
        simp [this, hbuf x (by simp [hx])])
      (by
        intro a' ha'
        refine ⟨?_, (howner a' ha').2.2⟩
        rw [hs3]; exact (ho a' ha').1)
    rw [run_exec, hs2]
    generalize hs4 : run (step (step s2 (.restore b)) (.read b)) rest = s4 at F2
    rw [hs3] at F2
    have hob : o ≠ some b := fun e => (howner b e).1 rfl
    refine ⟨?_, ?_, ?_, ?_, ?_, ?_, ?_⟩
    · rw [F2.cell]
    · rw [F2.unbound]; exact F1.unbound
    · rw [F2.orig]; exact F1.orig
    · intro x hx
      rw [started_exec] at hx
      rw [writesOf_exec]
      rcases List.mem_cons.mp hx with hxb | hx
      · subst hxb
        rw [F2.keepOut x hnb.2]
        have := wn_writes hrest x hob hnb.2
        simp [upd, hbufb, this]
      · rcases List.mem_append.mp hx with hxbody | hxrest
        · have hxb : x ≠ b := fun e => hnb.1 (e ▸ hxbody)
          have hxr : x ∉ started rest := hdisj x hxbody
          have hox : o ≠ some x := fun e => (howner x e).2.1 hxbody
          rw [F2.keepOut x hxr]
          have := wn_writes hrest x hox hxr
          simp [upd, hxb, F1.outs x hxbody, this]
        · have hxb : x ≠ b := fun e => hnb.2 (e ▸ hxrest)
          have hxbody : x ∉ started body := fun hx' => hdisj x hx' hxrest
          have := wn_writes hbody x (by intro e; exact hxb (Option.some.inj e).symm) hxbody
          rw [F2.outs x hxrest]; simp [this]
    · intro c hc
      rw [started_exec] at hc
      simp only [List.mem_cons, List.mem_append, not_or] at hc
      rw [writesOf_exec, F2.buf c hc.2.2]
      show s2.buf c ++ writesOf c rest = _
      rw [F1.buf c hc.2.1]
      simp [List.append_assoc]
    · intro c hc
      rw [started_exec] at hc
      simp only [List.mem_cons, List.mem_append, not_or] at hc
      rw [F2.keepOut c hc.2.2]
      show upd s2.out b (some (s2.buf b)) c = _
      simp only [upd, hc.1, if_false]
      exact F1.keepOut c hc.2.1
    · intro c hc
      rw [started_exec] at hc
      simp only [List.mem_cons, List.mem_append, not_or] at hc
      rw [F2.keepSaved c hc.2.2]
      show s2.saved c = _
      rw [F1.keepSaved c hc.2.1]
      simp [upd, hc.1]

/-- a forest of scenarios flattens to a well-nested step list -/
theorem flatten_wn (f : Forest) : ∀ o, WN o (flatten o f) := by
  induction f with
  | nil => intro o; cases o <;> exact WN.nil _
  | write n rest ih =>
    intro o
    cases o with
    | none => exact ih none
    | some a => exact WN.write a n _ (ih (some a))
  | exec b body rest ihb ihr =>
    intro o
    cases o <;> exact WN.exec _ b _ _ (ihb (some b)) (ihr _)
  | kw b rest ih =>
    intro o
    cases o <;> simpa [flatten, execSteps] using ih _

/-- conversely every well-nested list is the step list of a scenario forest: quantifying over forests loses
    nothing -/
theorem wn_is_forest {o : Option Act} {evs : List Ev} (h : WN o evs) : ∃ f : Forest, flatten o f = evs := by
  induction h with
  | nil o => exact ⟨.nil, by cases o <;> rfl⟩
  | write a n rest _ ih =>
    obtain ⟨f, hf⟩ := ih
    exact ⟨.write n f, by simp [flatten, hf]⟩
  | exec o b body rest _ _ ihb ihr =>
    obtain ⟨fb, hb⟩ := ihb
    obtain ⟨fr, hr⟩ := ihr
    exact ⟨.exec b fb fr, by cases o <;> simp [flatten, hb, hr]⟩

end DoitModel.Act
