import DoitModel.Proofs.RunLive
namespace DoitModel.Run

theorem nodeStep_susp_ne {inp : RunInput} {s s' : Sys} {n : Name} {nd : Node} {perm : List Name}
    (hsusp : s.susp = none) (hs : nodeStep inp s n nd perm = some s') : s'.susp ≠ some .stopIter := by
  have gs : ∀ d pc', (genStep inp s n nd d pc').susp ≠ some .stopIter := by
    intro d pc'; unfold genStep
    cases s.nodes d with
    | none => simp [setNode, hsusp]
    | some y => simp only []; split <;> simp [setNode, hsusp]
  unfold nodeStep at hs
  split at hs
  all_goals (try split at hs)
  all_goals (try split at hs)
  all_goals (cases hs)
  all_goals first
    | exact gs _ _
    | (rw [addWaitRun_susp, hsusp]; simp)
    | (simp [setNode, hsusp])

theorem dtick_invD {inp : RunInput} {s s' : Sys} {perm : List Name} (h : InvD inp s) (hsusp : s.susp = none)
    (hs : dtick inp s perm = some s') : InvD inp s' := by
  unfold dtick at hs
  cases hc : s.cur with
  | some n =>
    simp only [hc] at hs
    cases hn : s.nodes n with
    | none =>
      simp only [hn] at hs; cases hs
      exact ⟨allA_congr h.a1 rfl, (fun k y hk hpc => by have := h.a2 k y hk hpc; rw [hc] at this; exact this), h.a3,
        fun e => by cases e⟩
    | some nd =>
      simp only [hn] at hs
      have q := nodeStep_q hn hs
      obtain ⟨keep, nd', hn', _⟩ := nodeStep_pcs hn hs
      have kp : Keeps s s' := by
        intro d ⟨x, hx⟩
        by_cases e : d = n
        · subst e; exact ⟨nd', hn'⟩
        · obtain ⟨x', hx', _⟩ := keep d x hx (by simpa using e); exact ⟨x', hx'⟩
      refine ⟨nodeStep_allA h.a1 hn hs, ?_, ?_, fun e => absurd e (nodeStep_susp_ne hsusp hs)⟩
      · intro k y hk hpc
        cases hks : s.nodes k with
        | none => exact Or.inl (q.fresh k y hk hks).1
        | some x =>
          by_cases e : k = n
          · subst e
            rcases q.cur with a | ⟨a, b | b⟩
            · exact Or.inr (Or.inr (a.trans hc))
            · exact Or.inr (Or.inl b)
            · -- the generator was exhausted: the step did not touch the node
              rw [hn] at hks; cases hks
              have : s' = { s with cur := none } := by
                unfold nodeStep at hs; rw [b] at hs; simp only at hs; cases hs; rfl
              subst this
              rw [hn] at hk; cases hk; exact absurd b hpc
          · obtain ⟨x', hx', e'⟩ := keep k x hks (by simpa using e)
            rw [hk] at hx'; cases hx'
            rcases h.a2 k x hks (e' ▸ hpc) with a | a | a
            · exact Or.inl (q.ready k a)
            · exact Or.inr (Or.inl (q.waiting k a))
            · rw [hc] at a; cases a; exact absurd rfl e
      · intro t ht
        rcases h.a3 t ht with a | a
        · exact Or.inl (by rw [q.toRun]; exact a)
        · exact Or.inr (kp t a)
  | none =>
    simp only [hc] at hs
    cases hr : s.ready with
    | cons r rs =>
      simp only [hr] at hs; cases hs
      refine ⟨allA_congr h.a1 rfl, ?_, h.a3, fun e => by simp [hsusp] at e⟩
      intro k y hk hpc
      rcases h.a2 k y hk hpc with a | a | a
      · rw [hr] at a
        rcases List.mem_cons.mp a with rfl | a
        · exact Or.inr (Or.inr rfl)
        · exact Or.inl a
      · exact Or.inr (Or.inl a)
      · rw [hc] at a; cases a
    | nil =>
      simp only [hr] at hs
      cases ht : s.toRun with
      | cons t ts =>
        simp only [ht] at hs
        cases hnt : s.nodes t with
        | none =>
          simp only [hnt] at hs; cases hs
          refine ⟨allA_congr (allA_setNode h.a1 (mkNode_nodeA inp s t [t])) rfl, ?_, ?_, fun e => by simp [setNode, hsusp] at e⟩
          · intro k y hk hpc
            by_cases e : k = t
            · subst e; exact Or.inr (Or.inr rfl)
            · have hk' : s.nodes k = some y := by simpa [setNode, e] using hk
              rcases h.a2 k y hk' hpc with a | a | a
              · rw [hr] at a; cases a
              · exact Or.inr (Or.inl a)
              · rw [hc] at a; cases a
          · intro t' ht'
            rcases h.a3 t' ht' with a | a
            · rw [ht] at a
              rcases List.mem_cons.mp a with rfl | a
              · exact Or.inr ⟨_, setNode_self _ _ _⟩
              · exact Or.inl a
            · exact Or.inr (keeps_setNode _ t' a)
        | some x =>
          simp only [hnt] at hs; cases hs
          refine ⟨allA_congr h.a1 rfl, ?_, ?_, fun e => by simp [hsusp] at e⟩
          · intro k y hk hpc
            rcases h.a2 k y hk hpc with a | a | a
            · rw [hr] at a; cases a
            · exact Or.inr (Or.inl a)
            · rw [hc] at a; cases a
          · intro t' ht'
            rcases h.a3 t' ht' with a | a
            · rw [ht] at a
              rcases List.mem_cons.mp a with rfl | a
              · exact Or.inr ⟨x, hnt⟩
              · exact Or.inl a
            · exact Or.inr a
      | nil =>
        simp only [ht] at hs
        have a2' : ∀ k y, s.nodes k = some y → y.pc ≠ .done → k ∈ ([] : List Name) ∨ k ∈ s.waiting ∨ (none : Option Name) = some k := by
          intro k y hk hpc
          have := h.a2 k y hk hpc
          rw [hr, hc] at this; exact this
        have a3' : ∀ t ∈ inp.sel, t ∈ ([] : List Name) ∨ created s t := by
          intro t' ht'; have := h.a3 t' ht'; rw [ht] at this; exact this
        split at hs
        · split at hs
          · cases hs; exact ⟨allA_congr h.a1 rfl, a2', a3', fun e => by cases e⟩
          · cases hs; exact ⟨allA_congr h.a1 rfl, a2', a3', fun e => by cases e⟩
        · rename_i hw
          cases hs
          exact ⟨allA_congr h.a1 rfl, a2', a3', fun _ => ⟨rfl, rfl, rfl, by simpa using hw⟩⟩


/-- the part of `InvD` that `_update_waiting` works on -/
structure InvW (s : Sys) : Prop where
  a1 : AllA s
  a2 : ∀ n nd, s.nodes n = some nd → nd.pc ≠ .done → n ∈ s.ready ∨ n ∈ s.waiting ∨ s.cur = some n

theorem wakeOne_invW {inp : RunInput} {s : Sys} {pst : RS} {p w : Name} {nd : Node} (h : InvW s)
    (hw : s.nodes w = some nd) : InvW (wakeOne inp s pst p w nd) := by
  have hu := wokenF_upd inp s pst p nd
  have a1 : AllA (setNode s w (wokenF inp s pst p nd)) := allA_setNode h.a1 ((h.a1 w nd hw).ofUpd hu)
  have old : ∀ k y, (setNode s w (wokenF inp s pst p nd)).nodes k = some y → y.pc ≠ .done →
      ∃ x, s.nodes k = some x ∧ x.pc ≠ .done := by
    intro k y hk hpc
    by_cases e : k = w
    · subst e; simp [setNode] at hk; subst hk; exact ⟨nd, hw, by rw [← hu.pc]; exact hpc⟩
    · exact ⟨y, by simpa [setNode, e] using hk, hpc⟩
  unfold wakeOne
  split
  · refine ⟨allA_congr a1 rfl, ?_⟩
    intro k y hk hpc
    obtain ⟨x, hx, hxp⟩ := old k y hk hpc
    rcases h.a2 k x hx hxp with a | a | a
    · exact Or.inl (by simp [a])
    · by_cases e : k = w
      · exact Or.inl (by simp [e])
      · exact Or.inr (Or.inl (by simp [List.mem_filter, a, e]))
    · exact Or.inr (Or.inr a)
  · refine ⟨a1, ?_⟩
    intro k y hk hpc
    obtain ⟨x, hx, hxp⟩ := old k y hk hpc
    exact h.a2 k x hx hxp

theorem updateWaiting_invW (inp : RunInput) (pst : RS) (p : Name) :
    ∀ (perm : List Name) (s s' : Sys), InvW s → updateWaiting inp pst p s perm = some s' → InvW s' := by
  intro perm
  induction perm with
  | nil => intro s s' h hs; simp only [updateWaiting] at hs; cases hs; exact h
  | cons w ws ih =>
    intro s s' h hs
    simp only [updateWaiting] at hs
    cases hw : s.nodes w with
    | none => simp only [hw] at hs; exact ih s s' h hs
    | some nd =>
      simp only [hw] at hs
      split at hs
      · cases hs
      · exact ih _ s' (wakeOne_invW h hw) hs

theorem sendHead_invW {s : Sys} {p : Name} {nd : Node} (h : InvW s) (hn : s.nodes p = some nd) :
    InvW (sendHead s p nd) := by
  unfold sendHead
  split
  · have hA := h.a1 p nd hn
    have a1 : AllA (setNode s p { nd with waitSelect := false }) := allA_setNode h.a1 ⟨hA.t, hA.c⟩
    refine ⟨allA_congr a1 rfl, ?_⟩
    intro k y hk hpc
    have : ∃ x, s.nodes k = some x ∧ x.pc ≠ .done := by
      by_cases e : k = p
      · subst e; simp [setNode] at hk; subst hk; exact ⟨nd, hn, hpc⟩
      · exact ⟨y, by simpa [setNode, e] using hk, hpc⟩
    obtain ⟨x, hx, hxp⟩ := this
    rcases h.a2 k x hx hxp with a | a | a
    · exact Or.inl (by simp [a])
    · by_cases e : k = p
      · exact Or.inl (by simp [e])
      · exact Or.inr (Or.inl (by simp [List.mem_filter, a, e]))
    · exact Or.inr (Or.inr a)
  · exact ⟨allA_congr h.a1 rfl, h.a2⟩

theorem send_invD {inp : RunInput} {s s' : Sys} {processed : Option Name} {perm : List Name} (h : InvD inp s)
    (hs : send inp s processed perm = some s') : InvD inp s' := by
  obtain ⟨_, osusp⟩ := send_outer hs
  have ht := send_toRun hs
  have keep := send_pcs hs
  have kp : Keeps s s' := fun d ⟨x, hx⟩ => by obtain ⟨x', hx', _⟩ := keep d x hx (by simp); exact ⟨x', hx'⟩
  have hw : InvW s' := by
    have h0 : InvW s := ⟨h.a1, h.a2⟩
    unfold send at hs
    cases processed with
    | none => cases hs; exact ⟨allA_congr h.a1 rfl, h.a2⟩
    | some p =>
      simp only [] at hs
      cases hn : s.nodes p with
      | none => simp only [hn] at hs; cases hs; exact ⟨allA_congr h.a1 rfl, h.a2⟩
      | some nd =>
        simp only [hn] at hs
        have h1 := sendHead_invW h0 hn
        split at hs
        · cases hs; exact ⟨allA_congr h.a1 rfl, h.a2⟩
        · split at hs
          · cases hs; exact ⟨allA_congr h1.a1 rfl, h1.a2⟩
          · split at hs
            · cases hu : updateWaiting inp nd.status p (sendHead s p nd) perm with
              | none => simp only [hu] at hs; cases hs; exact ⟨allA_congr h1.a1 rfl, h1.a2⟩
              | some s2 =>
                simp only [hu] at hs; cases hs
                have h2 := updateWaiting_invW inp _ p perm _ s2 h1 hu
                exact ⟨allA_congr h2.a1 rfl, h2.a2⟩
            · cases hs
  refine ⟨hw.a1, hw.a2, ?_, ?_⟩
  · intro t ht'
    rcases h.a3 t ht' with a | a
    · exact Or.inl (by rw [ht]; exact a)
    · exact Or.inr (kp t a)
  · intro e; rcases osusp with x | x <;> (rw [x] at e; cases e)

/-- the runner changes a status (and fields outside the dispatcher) -/
theorem InvD.status {inp : RunInput} {s s' : Sys} {n : Name} {nd : Node} (h : InvD inp s) (hn : s.nodes n = some nd)
    (st' : RS) (e1 : s'.nodes = (setNode s n { nd with status := st' }).nodes) (e2 : s'.ready = s.ready)
    (e3 : s'.waiting = s.waiting) (e4 : s'.cur = s.cur) (e5 : s'.toRun = s.toRun) (e6 : s'.susp = s.susp) :
    InvD inp s' := by
  have hA := h.a1 n nd hn
  have a1 : AllA (setNode s n { nd with status := st' }) := allA_setNode h.a1 ⟨hA.t, hA.c⟩
  refine ⟨allA_congr a1 e1, ?_, ?_, by rw [e6, e4, e2, e5, e3]; exact h.a7⟩
  · intro k y hk hpc
    rw [e1] at hk; rw [e2, e3, e4]
    by_cases e : k = n
    · subst e; simp [setNode] at hk; subst hk; exact h.a2 k nd hn hpc
    · exact h.a2 k y (by simpa [setNode, e] using hk) hpc
  · intro t ht
    rcases h.a3 t ht with a | a
    · exact Or.inl (by rw [e5]; exact a)
    · right
      obtain ⟨x, hx⟩ := a
      by_cases e : t = n
      · exact ⟨_, by rw [e1, e]; exact setNode_self _ _ _⟩
      · exact ⟨x, by rw [e1]; simp [setNode, e, hx]⟩

theorem InvD.outer {inp : RunInput} {s s' : Sys} (h : InvD inp s) (e1 : s'.nodes = s.nodes) (e2 : s'.ready = s.ready)
    (e3 : s'.waiting = s.waiting) (e4 : s'.cur = s.cur) (e5 : s'.toRun = s.toRun) (e6 : s'.susp = s.susp) :
    InvD inp s' := by
  refine ⟨allA_congr h.a1 e1, by rw [e1, e2, e3, e4]; exact h.a2, ?_, by rw [e6, e4, e2, e5, e3]; exact h.a7⟩
  intro t ht
  rcases h.a3 t ht with a | a
  · exact Or.inl (by rw [e5]; exact a)
  · exact Or.inr (Keeps.of_eq e1 t a)


/-! ### the transition table of `_add_task` as far as the positions after the first yield are concerned -/

def PcTrans (inp : RunInput) (n : Name) (nd : Node) (s' : Sys) (pc' : PC) : Prop :=
  match nd.pc with
  | .self1 => pc' = .afterSelf1 ∧ s'.susp = some (.node n)
  | .self2 => pc' = .afterSelf2 ∧ s'.susp = some (.node n)
  | .afterSelf1 => (inp.setup n = [] ∧ pc' = .done) ∨ (inp.setup n ≠ [] ∧ pc' = .setupDecide)
  | .setupDecide => (nd.status = .run ∧ ∃ t, pc' = .setupIter t) ∨ (nd.status ≠ .run ∧ pc' = .done)
  | .setupIter _ => (∃ t, pc' = .setupIter t) ∨ pc' = .afterSetup
  | .afterSetup => pc' = .self2
  | .afterSelf2 => pc' = .done
  | .done => pc' = .done
  | _ => pc'.yielded1 = false

theorem nodeStep_table {inp : RunInput} {s s' : Sys} {n : Name} {nd : Node} {perm : List Name}
    (hn : s.nodes n = some nd) (hs : nodeStep inp s n nd perm = some s') :
    ∃ nd', s'.nodes n = some nd' ∧ nd'.status = nd.status ∧ PcTrans inp n nd s' nd'.pc := by
  have gen : ∀ d pc', ∃ nd', (genStep inp s n nd d pc').nodes n = some nd' ∧ nd'.status = nd.status ∧
      (nd'.pc = pc' ∨ nd'.pc = nd.pc) := by
    intro d pc'
    unfold genStep
    cases hd : s.nodes d with
    | none =>
      simp only []
      exact ⟨{ nd with pc := pc' }, by simp [setNode], rfl, Or.inl rfl⟩
    | some y =>
      simp only []
      split
      · exact ⟨nd, hn, rfl, Or.inr rfl⟩
      · exact ⟨{ nd with pc := pc' }, by simp [setNode], rfl, Or.inl rfl⟩
  have wt : ∀ ds c pc', ∃ nd', (addWaitRun inp s n nd ds c pc').nodes n = some nd' ∧ nd'.status = nd.status ∧
      nd'.pc = pc' := by
    intro ds c pc'
    have f := waitNode_facts inp s nd ds c pc'
    have e0 : addWaitRun inp s n nd ds c pc' =
        registerWaiting (setNode s n (waitNode inp s nd ds c pc')) n (ds.filter (unfinished s)) := rfl
    have hx : (setNode s n (waitNode inp s nd ds c pc')).nodes n = some (waitNode inp s nd ds c pc') := setNode_self _ _ _
    rw [e0, registerWaiting_nodes, hx]
    by_cases e : n ∈ ds.filter (unfinished s)
    · refine ⟨(waitNode inp s nd ds c pc').addWaiting n, by simp [e], ?_, ?_⟩
      · rw [(addWaiting_fields _ n).2.1]; exact f.status
      · rw [(addWaiting_fields _ n).1]; exact f.pc
    · exact ⟨waitNode inp s nd ds c pc', by simp [e], f.status, f.pc⟩
  unfold nodeStep at hs
  unfold PcTrans
  cases hpc : nd.pc with
  | loopTop =>
    simp only [hpc] at hs; split at hs <;> cases hs
    exact ⟨_, setNode_self _ _ _, rfl, rfl⟩
  | calcIter todo =>
    simp only [hpc] at hs
    cases todo <;> cases hs
    · obtain ⟨x, a, b, c⟩ := wt nd.snapCalc true (.taskIter nd.snapTask); exact ⟨x, a, b, by rw [c]; rfl⟩
    · obtain ⟨x, a, b, c⟩ := gen ‹_› (.calcIter ‹_›)
      refine ⟨x, a, b, ?_⟩
      rcases c with c | c <;> (rw [c]; first | rfl | (rw [hpc]; rfl))
  | taskIter todo =>
    simp only [hpc] at hs
    cases todo <;> cases hs
    · obtain ⟨x, a, b, c⟩ := wt nd.snapTask false .afterDeps; exact ⟨x, a, b, by rw [c]; rfl⟩
    · obtain ⟨x, a, b, c⟩ := gen ‹_› (.taskIter ‹_›)
      refine ⟨x, a, b, ?_⟩
      rcases c with c | c <;> (rw [c]; first | rfl | (rw [hpc]; rfl))
  | afterDeps =>
    simp only [hpc] at hs
    split at hs
    · cases hs; exact ⟨_, setNode_self _ _ _, rfl, rfl⟩
    · split at hs <;> cases hs
      · exact ⟨_, setNode_self _ _ _, rfl, rfl⟩
      · exact ⟨_, setNode_self _ _ _, rfl, rfl⟩
  | self1 => simp only [hpc] at hs; cases hs; exact ⟨_, setNode_self _ _ _, rfl, rfl, rfl⟩
  | afterSelf1 =>
    simp only [hpc] at hs
    split at hs
    · rename_i h0; cases hs; exact ⟨_, setNode_self _ _ _, rfl, Or.inl ⟨h0, rfl⟩⟩
    · rename_i h0
      split at hs <;> cases hs
      · exact ⟨_, setNode_self _ _ _, rfl, Or.inr ⟨h0, rfl⟩⟩
      · exact ⟨_, setNode_self _ _ _, rfl, Or.inr ⟨h0, rfl⟩⟩
  | setupDecide =>
    simp only [hpc] at hs
    split at hs
    · rename_i h0; cases hs; exact ⟨_, setNode_self _ _ _, rfl, Or.inl ⟨h0, _, rfl⟩⟩
    · rename_i h0; cases hs; exact ⟨_, setNode_self _ _ _, rfl, Or.inr ⟨h0, rfl⟩⟩
  | setupIter todo =>
    simp only [hpc] at hs
    cases todo <;> cases hs
    · obtain ⟨x, a, b, c⟩ := wt (inp.setup n) false .afterSetup; exact ⟨x, a, b, Or.inr c⟩
    · obtain ⟨x, a, b, c⟩ := gen ‹_› (.setupIter ‹_›)
      refine ⟨x, a, b, Or.inl ?_⟩
      rcases c with c | c
      · exact ⟨_, c⟩
      · exact ⟨_, c.trans hpc⟩
  | afterSetup =>
    simp only [hpc] at hs
    split at hs <;> cases hs
    · exact ⟨_, setNode_self _ _ _, rfl, rfl⟩
    · exact ⟨_, setNode_self _ _ _, rfl, rfl⟩
  | self2 => simp only [hpc] at hs; cases hs; exact ⟨_, setNode_self _ _ _, rfl, rfl, rfl⟩
  | afterSelf2 => simp only [hpc] at hs; cases hs; exact ⟨_, setNode_self _ _ _, rfl, rfl⟩
  | done => simp only [hpc] at hs; cases hs; exact ⟨nd, hn, rfl, hpc⟩


/-- what a dispatcher tick can do to the position and status of a node -/
theorem dtick_node {inp : RunInput} {s s' : Sys} {perm : List Name} (hs : dtick inp s perm = some s')
    (k : Name) (y : Node) (hk : s'.nodes k = some y) :
    (s.nodes k = none ∧ y.pc = .loopTop ∧ y.status = .none) ∨
    (∃ x, s.nodes k = some x ∧ y.status = x.status ∧ (y.pc = x.pc ∨ (s.cur = some k ∧ PcTrans inp k x s' y.pc))) := by
  have hst := dtick_stOf hs k
  have stY : ∀ x, s.nodes k = some x → y.status = x.status := by
    intro x hx; simpa [stOf, hk, hx] using hst
  have stN : s.nodes k = none → y.status = .none := by
    intro hx; simpa [stOf, hk, hx] using hst
  unfold dtick at hs
  cases hc : s.cur with
  | some n =>
    simp only [hc] at hs
    cases hn : s.nodes n with
    | none =>
      simp only [hn] at hs; cases hs
      exact Or.inr ⟨y, hk, rfl, Or.inl rfl⟩
    | some nd =>
      simp only [hn] at hs
      cases hks : s.nodes k with
      | none => exact Or.inl ⟨rfl, ((nodeStep_q hn hs).fresh k y hk hks).2, stN hks⟩
      | some x =>
        right
        refine ⟨x, rfl, stY x hks, ?_⟩
        by_cases e : k = n
        · subst e
          rw [hn] at hks; cases hks
          obtain ⟨nd', a, _, c⟩ := nodeStep_table hn hs
          rw [hk] at a; cases a
          exact Or.inr ⟨rfl, c⟩
        · obtain ⟨keep, _⟩ := nodeStep_pcs hn hs
          obtain ⟨x', hx', e'⟩ := keep k x hks (by simpa using e)
          rw [hk] at hx'; cases hx'; exact Or.inl e'
  | none =>
    simp only [hc] at hs
    have same : s'.nodes = s.nodes → (s.nodes k = none ∧ y.pc = .loopTop ∧ y.status = .none) ∨
        (∃ x, s.nodes k = some x ∧ y.status = x.status ∧ (y.pc = x.pc ∨ ((none : Option Name) = some k ∧ PcTrans inp k x s' y.pc))) := by
      intro e; rw [e] at hk; exact Or.inr ⟨y, hk, rfl, Or.inl rfl⟩
    split at hs
    · cases hs; exact same rfl
    · split at hs
      · split at hs
        · rename_i t ts _ _ hnt
          cases hs
          by_cases e : k = t
          · subst e
            have : y = mkNode inp k [k] := by simpa [setNode] using hk.symm
            subst this; exact Or.inl ⟨hnt, rfl, rfl⟩
          · exact Or.inr ⟨y, by simpa [setNode, e] using hk, rfl, Or.inl rfl⟩
        · cases hs; exact same rfl
      · split at hs
        · split at hs <;> (cases hs; exact same rfl)
        · cases hs; exact same rfl

def PC.inSetup : PC → Bool
  | .afterSelf1 | .setupDecide | .setupIter _ | .afterSetup | .self2 => true
  | _ => false

/-- serial runner: nodes that were yielded are selected; a `run` status means executing or in the setup stage; final
    statuses have their report; a normal end of the run is the end of the dispatcher -/
structure InvL (inp : RunInput) (s : Sys) : Prop where
  d : InvD inp s
  a4 : ∀ n nd, s.nodes n = some nd → nd.pc.yielded1 = true → nd.status = .none →
    s.susp = some (.node n) ∧ awaiting s
  a4b : ∀ n nd, s.nodes n = some nd → nd.pc = .afterSelf2 → nd.status ≠ .none
  a5 : ∀ n nd, s.nodes n = some nd → nd.status = .run → s.rpc = .sExec n ∨
    (cGo s n = 0 ∧ inp.setup n ≠ [] ∧
      (nd.pc.inSetup = true ∨ (nd.pc = .afterSelf2 ∧ s.susp = some (.node n) ∧ awaiting s)))
  a6 : ∀ n, (stOf s n).finished = true → cTerm s n ≥ 1
  a8 : (s.rpc = .fin ∨ s.rpc = .halted) → s.halt = .none → s.stop = false → s.susp = some .stopIter

theorem invL_dtick {inp : RunInput} {s s' : Sys} {perm : List Name} (h : InvL inp s) (hr : s.rpc = .sWait)
    (hsusp : s.susp = none) (hs : dtick inp s perm = some s') : InvL inp s' := by
  obtain ⟨o1, o2, _, _, _, o6, _, _, o9, _⟩ := dtick_outer hs
  have hc := fun m => counts_same o1 m
  have haw : awaiting s' := Or.inl (o2.trans hr)
  refine ⟨dtick_invD h.d hsusp hs, ?_, ?_, ?_, ?_, ?_⟩
  · intro k y hk hy hn
    rcases dtick_node hs k y hk with ⟨_, a, _⟩ | ⟨x, hx, e1, e2⟩
    · rw [a] at hy; cases hy
    · rcases e2 with e2 | ⟨hcur, tr⟩
      · have := h.a4 k x hx (e2 ▸ hy) (e1 ▸ hn)
        rw [hsusp] at this; cases this.1
      · -- the current node: it can only have entered the yielded positions through `self1`
        unfold PcTrans at tr
        cases hpc : x.pc <;> rw [hpc] at tr <;> simp only at tr
        case self1 => exact ⟨tr.2, haw⟩
        all_goals first
          | (have := h.a4 k x hx (by rw [hpc]; rfl) (e1 ▸ hn); rw [hsusp] at this; cases this.1)
          | (rw [tr] at hy; cases hy)
  · intro k y hk hpc2 hn
    rcases dtick_node hs k y hk with ⟨_, a, _⟩ | ⟨x, hx, e1, e2⟩
    · rw [a] at hpc2; cases hpc2
    · rcases e2 with e2 | ⟨hcur, tr⟩
      · exact h.a4b k x hx (e2 ▸ hpc2) (e1 ▸ hn)
      · unfold PcTrans at tr
        cases hpc : x.pc <;> rw [hpc] at tr <;> simp only at tr
        case self2 =>
          have := h.a4 k x hx (by rw [hpc]; rfl) (e1 ▸ hn); rw [hsusp] at this; cases this.1
        case afterSelf2 => rw [tr] at hpc2; cases hpc2
        case done => rw [tr] at hpc2; cases hpc2
        case afterSetup => rw [tr] at hpc2; cases hpc2
        case self1 => rw [tr.1] at hpc2; cases hpc2
        case afterSelf1 => rcases tr with ⟨_, t⟩ | ⟨_, t⟩ <;> (rw [t] at hpc2; cases hpc2)
        case setupDecide => rcases tr with ⟨_, _, t⟩ | ⟨_, t⟩ <;> (rw [t] at hpc2; cases hpc2)
        case setupIter => rcases tr with ⟨_, t⟩ | t <;> (rw [t] at hpc2; cases hpc2)
        all_goals (rw [hpc2] at tr; cases tr)
  · intro k y hk hrun
    right
    rcases dtick_node hs k y hk with ⟨_, _, a⟩ | ⟨x, hx, e1, e2⟩
    · rw [a] at hrun; cases hrun
    · have old := h.a5 k x hx (e1 ▸ hrun)
      rcases old with a | ⟨a1, a2, a3⟩
      · rw [hr] at a; cases a
      · refine ⟨by rw [(hc k).1]; exact a1, a2, ?_⟩
        rcases a3 with a3 | ⟨_, b, _⟩
        · rcases e2 with e2 | ⟨hcur, tr⟩
          · exact Or.inl (e2 ▸ a3)
          · unfold PcTrans at tr
            cases hpc : x.pc <;> rw [hpc] at tr a3 <;> simp only at tr <;> simp only [PC.inSetup] at a3
            case afterSelf1 =>
              rcases tr with ⟨t1, _⟩ | ⟨_, t2⟩
              · exact absurd t1 a2
              · exact Or.inl (by rw [t2]; rfl)
            case setupDecide =>
              rcases tr with ⟨_, t, t2⟩ | ⟨t1, _⟩
              · exact Or.inl (by rw [t2]; rfl)
              · exact absurd (e1 ▸ hrun) t1
            case setupIter =>
              rcases tr with ⟨t, t2⟩ | t2
              · exact Or.inl (by rw [t2]; rfl)
              · exact Or.inl (by rw [t2]; rfl)
            case afterSetup => exact Or.inl (by rw [tr]; rfl)
            case self2 => exact Or.inr ⟨tr.1, tr.2, haw⟩
            all_goals cases a3
        · rw [hsusp] at b; cases b
  · intro n hn
    rw [dtick_stOf hs] at hn; rw [(hc n).2.2.2]; exact h.a6 n hn
  · intro a; rw [o2, hr] at a; rcases a with a | a <;> cases a


/-- `send` creates no node -/
theorem send_noNew {inp : RunInput} {s s' : Sys} {processed : Option Name} {perm : List Name}
    (hs : send inp s processed perm = some s') : ∀ k, s.nodes k = none → s'.nodes k = none := by
  have setN : ∀ (a : Sys) (w : Name) (x y : Node), a.nodes w = some x → ∀ k, a.nodes k = none →
      (setNode a w y).nodes k = none := by
    intro a w x y hw k hk
    by_cases e : k = w
    · subst e; rw [hw] at hk; cases hk
    · simp [setNode, e, hk]
  have wk : ∀ (pst : RS) (p : Name) (perm : List Name) (a b : Sys), updateWaiting inp pst p a perm = some b →
      ∀ k, a.nodes k = none → b.nodes k = none := by
    intro pst p perm
    induction perm with
    | nil => intro a b hab; simp only [updateWaiting] at hab; cases hab; exact fun _ h => h
    | cons w ws ih =>
      intro a b hab
      simp only [updateWaiting] at hab
      cases hw : a.nodes w with
      | none => simp only [hw] at hab; exact ih a b hab
      | some nd =>
        simp only [hw] at hab
        split at hab
        · cases hab
        · intro k hk
          apply ih _ b hab k
          unfold wakeOne; split
          · exact setN a w nd _ hw k hk
          · exact setN a w nd _ hw k hk
  have sh : ∀ p nd, s.nodes p = some nd → ∀ k, s.nodes k = none → (sendHead s p nd).nodes k = none := by
    intro p nd hp k hk; unfold sendHead; split
    · exact setN s p nd _ hp k hk
    · exact hk
  unfold send at hs
  cases processed with
  | none => cases hs; exact fun _ h => h
  | some p =>
    simp only [] at hs
    cases hn : s.nodes p with
    | none => simp only [hn] at hs; cases hs; exact fun _ h => h
    | some nd =>
      simp only [hn] at hs
      split at hs
      · cases hs; exact fun _ h => h
      · split at hs
        · cases hs; exact sh p nd hn
        · split at hs
          · cases hu : updateWaiting inp nd.status p (sendHead s p nd) perm with
            | none => simp only [hu] at hs; cases hs; exact sh p nd hn
            | some s2 =>
              simp only [hu] at hs; cases hs
              exact fun k hk => wk _ _ _ _ _ hu k (sh p nd hn k hk)
          · cases hs

/-- when the runner is not about to select a yielded node, every yielded node has a status -/
theorem InvL.noPending {inp : RunInput} {s : Sys} (h : InvL inp s)
    (hno : ∀ k, s.susp = some (.node k) → ¬ awaiting s) :
    ∀ k x, s.nodes k = some x → x.pc.yielded1 = true → x.status ≠ .none := by
  intro k x hx hy hn
  obtain ⟨a, b⟩ := h.a4 k x hx hy hn
  exact hno k a b

/-- a `run` status outside execution means the setup stage (when nothing is awaiting selection) -/
theorem InvL.runSetup {inp : RunInput} {s : Sys} (h : InvL inp s) (hno : ¬ awaiting s) (k : Name) (x : Node)
    (hx : s.nodes k = some x) (hrun : x.status = .run) (hex : s.rpc ≠ .sExec k) :
    cGo s k = 0 ∧ inp.setup k ≠ [] ∧ x.pc.inSetup = true := by
  rcases h.a5 k x hx hrun with a | ⟨a1, a2, a3 | ⟨_, _, c⟩⟩
  · exact absurd a hex
  · exact ⟨a1, a2, a3⟩
  · exact absurd c hno

theorem invL_send {inp : RunInput} {s s0 : Sys} {node : Option Name} {perm : List Name} (h : InvL inp s)
    (h2 : Inv2 inp s) (hr : s.rpc = .sTop node) (hs : send inp s node perm = some s0) :
    InvL inp { s0 with rpc := .sWait } := by
  obtain ⟨⟨o1, _, _, _, _, o6, _, _, o9, _⟩, osusp⟩ := send_outer hs
  obtain ⟨_, hst⟩ := send_inv1 h2.inv1 (fun p hp => h2.sb p (by simp [sentBack, hr, hp])) hs
  have keep := send_pcs hs
  have hnaw : ¬ awaiting s := by intro a; rcases a with a | ⟨r, a⟩ <;> (rw [hr] at a; cases a)
  have hc := fun m => counts_same (s' := { s0 with rpc := .sWait }) o1 m
  -- nodes keep position and status
  have back : ∀ k y, s0.nodes k = some y → ∃ x, s.nodes k = some x ∧ y.pc = x.pc ∧ y.status = x.status := by
    intro k y hk
    cases hx : s.nodes k with
    | none =>
      have := send_noNew hs k hx
      rw [hk] at this; cases this
    | some x =>
      obtain ⟨x', hx', e⟩ := keep k x hx (by simp)
      rw [hk] at hx'; cases hx'
      exact ⟨x, rfl, e, by have := hst k; simpa [stOf, hk, hx] using this⟩
  refine ⟨(send_invD h.d hs).outer rfl rfl rfl rfl rfl rfl, ?_, ?_, ?_, ?_, ?_⟩
  · intro k y hk hy hn
    obtain ⟨x, hx, e1, e2⟩ := back k y hk
    exact absurd (e2 ▸ hn) (h.noPending (fun _ _ => hnaw) k x hx (e1 ▸ hy))
  · intro k y hk hp hn
    obtain ⟨x, hx, e1, e2⟩ := back k y hk
    exact h.a4b k x hx (e1 ▸ hp) (e2 ▸ hn)
  · intro k y hk hrun
    obtain ⟨x, hx, e1, e2⟩ := back k y hk
    obtain ⟨a1, a2, a3⟩ := h.runSetup hnaw k x hx (e2 ▸ hrun) (by rw [hr]; intro e; cases e)
    exact Or.inr ⟨by rw [(hc k).1]; exact a1, a2, Or.inl (e1 ▸ a3)⟩
  · intro n hn
    have : stOf { s0 with rpc := .sWait } n = stOf s n := hst n
    rw [this] at hn; rw [(hc n).2.2.2]; exact h.a6 n hn
  · intro a; rcases a with a | a <;> cases a


theorem selTerm_of_finished {d : Sel} (h : (selStatus d).finished = true) : selTerm d = 1 := by
  cases d <;> simp [selStatus, RS.finished] at h <;> rfl

/-- `select_task(n)` in the serial runner, any decision except the failing assertion; for `go` execution starts -/
theorem invL_select {inp : RunInput} {s s' : Sys} {n : Name} {nd : Node} (h : InvL inp s) (h2 : Inv2 inp s)
    (h3 : Inv3 inp s) (hr : s.rpc = .sWait) (hsusp : s.susp = some (.node n)) (hn : s.nodes n = some nd)
    (hd : selDecision inp n nd ≠ .assertFail)
    (e1 : s'.nodes = (applySel inp s n nd (selDecision inp n nd)).nodes)
    (e2 : s'.ready = s.ready) (e3 : s'.waiting = s.waiting) (e4 : s'.cur = s.cur) (e5 : s'.toRun = s.toRun)
    (e6 : s'.susp = s.susp) (e7 : s'.halt = s.halt)
    (ev : ∃ extra, s'.events = extra ++ (applySel inp s n nd (selDecision inp n nd)).events ∧
      ∀ m, extra.countP (Ev.isGoOf m) = 0)
    (hrpc : (selDecision inp n nd = .go ∧ s'.rpc = .sExec n) ∨ (selDecision inp n nd ≠ .go ∧ s'.rpc = .sTop (some n))) :
    InvL inp s' := by
  have haw : awaiting s := Or.inl hr
  have hnodes : s'.nodes = (setNode s n { nd with status := selStatus (selDecision inp n nd) }).nodes :=
    e1.trans (applySel_nodes inp s n nd _ hd)
  have hst : ∀ x, stOf s' x = if x = n then selStatus (selDecision inp n nd) else stOf s x := by
    intro x; rw [stOf_congr hnodes, stOf_setNode]
  obtain ⟨extra, hev, hex⟩ := ev
  have hev' : s'.events = (extra ++ selEvents inp n nd (selDecision inp n nd)) ++ s.events := by
    rw [hev, applySel_events]; simp
  have hnaw' : ¬ awaiting s' := by
    intro a; rcases hrpc with ⟨_, e⟩ | ⟨_, e⟩ <;> (rcases a with a | ⟨r, a⟩ <;> (rw [e] at a; cases a))
  have sc := selEvents_counts inp n nd (selDecision inp n nd)
  have z0 : cGo s n = 0 := h3.z haw n hsusp
  have cgo : ∀ m, cGo s' m = (if n = m then selGo (selDecision inp n nd) else 0) + cGo s m := by
    intro m; simp only [cGo, hev', List.countP_append, hex m, (sc m).go]; omega
  have cterm : ∀ m, cTerm s' m ≥ (if n = m then selTerm (selDecision inp n nd) else 0) + cTerm s m := by
    intro m; simp only [cTerm, hev', List.countP_append, (sc m).term]; omega
  -- nodes: `n` changes its status, nothing else
  have back : ∀ k y, s'.nodes k = some y →
      (k = n ∧ y = { nd with status := selStatus (selDecision inp n nd) }) ∨ (k ≠ n ∧ s.nodes k = some y) := by
    intro k y hk
    rw [hnodes] at hk
    by_cases e : k = n
    · subst e; simp [setNode] at hk; exact Or.inl ⟨rfl, hk.symm⟩
    · exact Or.inr ⟨e, by simpa [setNode, e] using hk⟩
  have others : ∀ k y, k ≠ n → s.nodes k = some y → y.pc.yielded1 = true → y.status ≠ .none := by
    intro k y hk hy hyy hnn
    have := (h.a4 k y hy hyy hnn).1
    rw [hsusp] at this; cases this; exact hk rfl
  have pcn : nd.pc = .afterSelf1 ∨ nd.pc = .afterSelf2 := by
    obtain ⟨x, a, b⟩ := h2.inv1.sp n hsusp; rw [hn] at a; cases a; exact b
  refine ⟨h.d.status hn _ hnodes e2 e3 e4 e5 e6, ?_, ?_, ?_, ?_, ?_⟩
  · intro k y hk hy hnn
    rcases back k y hk with ⟨_, rfl⟩ | ⟨e, hy'⟩
    · exact absurd hnn (selStatus_ne_none hd)
    · exact absurd hnn (others k y e hy' hy)
  · intro k y hk hp hnn
    rcases back k y hk with ⟨_, rfl⟩ | ⟨e, hy'⟩
    · exact absurd hnn (selStatus_ne_none hd)
    · exact h.a4b k y hy' hp hnn
  · intro k y hk hrun
    rcases back k y hk with ⟨e, rfl⟩ | ⟨e, hy'⟩
    · subst e
      rcases hrpc with ⟨_, e⟩ | ⟨hng, e⟩
      · exact Or.inl e
      · right
        -- status `run` without `go`: the first pass answered "run the setup-tasks first"
        have hrf : selDecision inp k nd = .runFirst := by
          cases hdd : selDecision inp k nd <;> simp [hdd, selStatus] at hrun
          · rfl
          · exact absurd hdd hng
        have hnone : nd.status = .none := by
          unfold selDecision at hrf
          by_cases h0 : nd.status = .none
          · exact h0
          · simp only [h0, if_false] at hrf
            split at hrf
            · cases hrf
            · split at hrf; · cases hrf
              split at hrf; · cases hrf
              split at hrf <;> cases hrf
        have hsetup : inp.setup k ≠ [] := by
          unfold selDecision at hrf
          simp only [hnone, if_true] at hrf
          split at hrf; · cases hrf
          split at hrf; · cases hrf
          split at hrf; · cases hrf
          split at hrf; · cases hrf
          split at hrf
          · assumption
          · split at hrf <;> cases hrf
        have hpc1 : nd.pc = .afterSelf1 := by
          rcases pcn with e' | e'
          · exact e'
          · exact absurd hnone (h.a4b k nd hn e')
        refine ⟨?_, hsetup, Or.inl (by show nd.pc.inSetup = true; rw [hpc1]; rfl)⟩
        rw [cgo k, hrf]; simp [selGo, z0]
    · right
      have hex' : s.rpc ≠ .sExec k := by rw [hr]; intro x; cases x
      rcases h.a5 k y hy' hrun with a | ⟨a1, a2, a3 | ⟨_, b, _⟩⟩
      · exact absurd a hex'
      · refine ⟨?_, a2, Or.inl a3⟩
        rw [cgo k]; simp [Ne.symm e, a1]
      · rw [hsusp] at b; cases b; exact absurd rfl e
  · intro m hm
    rw [hst m] at hm
    by_cases e : m = n
    · subst e
      simp only [if_true] at hm
      have := cterm m; simp only [if_true, selTerm_of_finished hm] at this; omega
    · simp only [e, if_false] at hm
      have := cterm m; have := h.a6 m hm; omega
  · intro a
    rcases hrpc with ⟨_, e⟩ | ⟨_, e⟩ <;> (rw [e] at a; rcases a with a | a <;> cases a)


theorem invL_result {inp : RunInput} {s : Sys} {n : Name} {nd : Node} (h : InvL inp s) (hr : s.rpc = .sExec n)
    (hn : s.nodes n = some nd) :
    InvL inp { processResult inp { s with events := Ev.fin n 0 :: s.events } n nd with rpc := .sTop (some n) } := by
  obtain ⟨f1, f2, f3, f4, f5, f6, f7, f8⟩ := processResult_frame inp { s with events := Ev.fin n 0 :: s.events } n nd
  have hnodes := processResult_nodes inp { s with events := Ev.fin n 0 :: s.events } n nd
  have hst := stOf_processResult inp { s with events := Ev.fin n 0 :: s.events } n nd
  have hev : (processResult inp { s with events := Ev.fin n 0 :: s.events } n nd).events
      = (resEvents n (inp.outcome n) ++ [Ev.fin n 0]) ++ s.events := by
    rw [processResult_events]; simp
  have hnaw : ¬ awaiting s := by intro a; rcases a with a | ⟨r, a⟩ <;> (rw [hr] at a; cases a)
  have rc := resEvents_counts n (inp.outcome n)
  have cgo : ∀ m, cGo { processResult inp { s with events := Ev.fin n 0 :: s.events } n nd with rpc := .sTop (some n) } m
      = cGo s m := by
    intro m
    show (processResult inp { s with events := Ev.fin n 0 :: s.events } n nd).events.countP _ = _
    rw [hev]; simp [cGo, List.countP_append, (rc m).go, List.countP_cons, Ev.isGoOf]
  have cterm : ∀ m, cTerm { processResult inp { s with events := Ev.fin n 0 :: s.events } n nd with rpc := .sTop (some n) } m
      = (if n = m then 1 else 0) + cTerm s m := by
    intro m
    show (processResult inp { s with events := Ev.fin n 0 :: s.events } n nd).events.countP _ = _
    rw [hev]; simp [cTerm, List.countP_append, (rc m).term, List.countP_cons, Ev.isTerminalOf]
  have back : ∀ k y, (processResult inp { s with events := Ev.fin n 0 :: s.events } n nd).nodes k = some y →
      (k = n ∧ y = { nd with status := resStatus (inp.outcome n) }) ∨ (k ≠ n ∧ s.nodes k = some y) := by
    intro k y hk
    rw [hnodes] at hk
    by_cases e : k = n
    · subst e; simp [setNode] at hk; exact Or.inl ⟨rfl, hk.symm⟩
    · exact Or.inr ⟨e, by simpa [setNode, e] using hk⟩
  have rne : resStatus (inp.outcome n) ≠ .none ∧ resStatus (inp.outcome n) ≠ .run := by
    cases inp.outcome n <;> simp [resStatus]
  refine ⟨h.d.status hn _ hnodes f1 f2 f3 ?_ f4, ?_, ?_, ?_, ?_, ?_⟩
  · unfold processResult; cases inp.outcome n <;> rfl
  · intro k y hk hy hnn
    rcases back k y hk with ⟨_, rfl⟩ | ⟨e, hy'⟩
    · exact absurd hnn rne.1
    · exact absurd hnn (h.noPending (fun _ _ => hnaw) k y hy' hy)
  · intro k y hk hp hnn
    rcases back k y hk with ⟨_, rfl⟩ | ⟨e, hy'⟩
    · exact absurd hnn rne.1
    · exact h.a4b k y hy' hp hnn
  · intro k y hk hrun
    rcases back k y hk with ⟨_, rfl⟩ | ⟨e, hy'⟩
    · exact absurd hrun rne.2
    · obtain ⟨a1, a2, a3⟩ := h.runSetup hnaw k y hy' hrun (by rw [hr]; intro x; cases x; exact e rfl)
      exact Or.inr ⟨by rw [cgo k]; exact a1, a2, Or.inl a3⟩
  · intro m hm
    have hm' : (stOf (processResult inp { s with events := Ev.fin n 0 :: s.events } n nd) m).finished = true := hm
    rw [hst m] at hm'
    rw [cterm m]
    by_cases e : m = n
    · subst e; simp
    · simp only [e, if_false] at hm'
      have hs : stOf { s with events := Ev.fin n 0 :: s.events } m = stOf s m := rfl
      rw [hs] at hm'
      have := h.a6 m hm'; omega
  · intro a; rcases a with a | a <;> cases a

/-- the serial runner leaves its loop (or `finish()` runs): nothing is awaiting selection, nothing executes -/
theorem invL_leave {inp : RunInput} {s s' : Sys} (h : InvL inp s)
    (hnp : ∀ k x, s.susp = some (.node k) → awaiting s → s.nodes k = some x → x.status ≠ .none ∧ x.status ≠ .run)
    (hex : ∀ k, s.rpc ≠ .sExec k)
    (e1 : s'.nodes = s.nodes) (e2 : s'.ready = s.ready) (e3 : s'.waiting = s.waiting) (e4 : s'.cur = s.cur)
    (e5 : s'.toRun = s.toRun) (e6 : s'.susp = s.susp)
    (ev : ∃ extra, s'.events = extra ++ s.events ∧ ∀ m, extra.countP (Ev.isGoOf m) = 0)
    (hrpc : s'.rpc = .fin ∨ s'.rpc = .halted)
    (h8 : s'.halt = .none → s'.stop = false → s.susp = some .stopIter) : InvL inp s' := by
  obtain ⟨extra, hev, hex0⟩ := ev
  have hst : ∀ x, stOf s' x = stOf s x := stOf_congr e1
  have hnaw' : ¬ awaiting s' := by
    intro a; rcases hrpc with e | e <;> (rcases a with a | ⟨r, a⟩ <;> (rw [e] at a; cases a))
  have cgo : ∀ m, cGo s' m = cGo s m := by intro m; simp [cGo, hev, List.countP_append, hex0 m]
  have cterm : ∀ m, cTerm s' m ≥ cTerm s m := by intro m; simp [cTerm, hev, List.countP_append]
  refine ⟨h.d.outer e1 e2 e3 e4 e5 e6, ?_, ?_, ?_, ?_, ?_⟩
  · intro k y hk hy hnn
    rw [e1] at hk
    obtain ⟨a, b⟩ := h.a4 k y hk hy hnn
    exact absurd hnn (hnp k y a b hk).1
  · intro k y hk hp hnn; rw [e1] at hk; exact h.a4b k y hk hp hnn
  · intro k y hk hrun
    rw [e1] at hk
    rcases h.a5 k y hk hrun with a | ⟨a1, a2, a3 | ⟨_, b, c⟩⟩
    · exact absurd a (hex k)
    · exact Or.inr ⟨by rw [cgo k]; exact a1, a2, Or.inl a3⟩
    · exact absurd hrun (hnp k y b c hk).2
  · intro m hm; rw [hst m] at hm; have := h.a6 m hm; have := cterm m; omega
  · intro _ hh hs; rw [e6]; exact h8 hh hs

theorem serialStep_invL {inp : RunInput} {s s' : Sys} {perm : List Name} (h : InvL inp s) (h2 : Inv2 inp s)
    (h3 : Inv3 inp s) (hs : serialStep inp s perm = some s') : InvL inp s' := by
  unfold serialStep at hs
  cases hr : s.rpc with
  | sTop node =>
    simp only [hr] at hs
    have hnaw : ¬ awaiting s := by intro a; rcases a with a | ⟨r, a⟩ <;> (rw [hr] at a; cases a)
    split at hs
    · rename_i hstop
      cases hs
      refine invL_leave h (fun _ _ _ aw _ => absurd aw hnaw) (fun k => by rw [hr]; intro e; cases e) rfl rfl rfl rfl rfl rfl
        ⟨[], rfl, fun _ => rfl⟩ (Or.inl rfl) ?_
      intro _ hf; rw [hstop] at hf; cases hf
    · cases hsd : send inp s node perm with
      | none => simp only [hsd] at hs; cases hs
      | some s0 => simp only [hsd] at hs; cases hs; exact invL_send h h2 hr hsd
  | sWait =>
    simp only [hr] at hs
    cases hsu : s.susp with
    | none => simp only [hsu] at hs; exact invL_dtick h hr hsu hs
    | some o =>
      simp only [hsu] at hs
      have leave : ∀ (s1 : Sys) (hl : Halt), hl ≠ .none → s1 = raise s hl → (∀ k, o ≠ .node k) → InvL inp s1 := by
        intro s1 hl hne e hno
        subst e
        refine invL_leave h (fun k _ hk => by rw [hsu] at hk; cases hk; exact absurd rfl (hno k))
          (fun k => by rw [hr]; intro e; cases e) rfl rfl rfl rfl rfl rfl ⟨[], rfl, fun _ => rfl⟩ (Or.inl rfl) ?_
        intro hh; exact absurd hh hne
      cases o with
      | init => cases hs
      | node n =>
        simp only [] at hs
        cases hn : s.nodes n with
        | none =>
          simp only [hn] at hs; cases hs
          -- the yielded node exists (Inv1.sp)
          obtain ⟨x, a, _⟩ := h2.inv1.sp n hsu; rw [hn] at a; cases a
        | some nd =>
          simp only [hn] at hs
          have key : ∀ (hd : selDecision inp n nd ≠ .assertFail) (hg : selDecision inp n nd ≠ .go),
              InvL inp { applySel inp s n nd (selDecision inp n nd) with rpc := .sTop (some n) } := by
            intro hd hg
            obtain ⟨f1, f2, f3, f4, f5, _⟩ := applySel_frame inp s n nd (selDecision inp n nd)
            refine invL_select h h2 h3 hr hsu hn hd rfl f1 f2 f3 ?_ f4 ?_ ⟨[], rfl, fun _ => rfl⟩ (Or.inr ⟨hg, rfl⟩)
            · cases selDecision inp n nd <;> rfl
            · cases selDecision inp n nd <;> rfl
          cases hd : selDecision inp n nd with
          | go =>
            simp only [hd] at hs; cases hs
            obtain ⟨f1, f2, f3, f4, f5, _⟩ := applySel_frame inp s n nd (selDecision inp n nd)
            have := invL_select (s' := { startTask inp (applySel inp s n nd (selDecision inp n nd)) n 0 with rpc := .sExec n })
              h h2 h3 hr hsu hn (by rw [hd]; simp) rfl f1 f2 f3 (by rw [hd]; rfl) f4 (by rw [hd]; rfl)
              ⟨(if inp.runner = .process then [Ev.start n 0] else [Ev.start n 0, Ev.execute n]),
               startTask_events inp _ n 0, fun m => (startTask_counts inp n 0 m).go⟩
              (Or.inl ⟨hd, rfl⟩)
            rwa [hd] at this
          | assertFail =>
            simp only [hd] at hs; cases hs
            -- the assertion fails: the run is aborted with a crash; the yielded node already has a final status
            refine invL_leave h ?_ (fun k => by rw [hr]; intro e; cases e) rfl rfl rfl rfl rfl rfl
              ⟨[], rfl, fun _ => rfl⟩ (Or.inl rfl) (fun hh => by cases hh)
            intro k x hk _ hx
            rw [hsu] at hk; cases hk
            rw [hn] at hx; cases hx
            have hne : nd.status ≠ .none := by
              intro e; unfold selDecision at hd; simp only [e, if_true] at hd
              split at hd; · cases hd
              split at hd; · cases hd
              split at hd; · cases hd
              split at hd; · cases hd
              split at hd; · cases hd
              split at hd <;> cases hd
            refine ⟨hne, ?_⟩
            intro hrun
            have hsetup : inp.setup n ≠ [] := by
              rcases h.a5 n nd hn hrun with a | ⟨_, a2, _⟩
              · rw [hr] at a; cases a
              · exact a2
            unfold selDecision at hd
            rw [hrun] at hd
            simp only [reduceCtorEq, if_false] at hd
            split at hd
            · rename_i hh; simp [hsetup] at hh
            · split at hd; · cases hd
              split at hd; · cases hd
              split at hd <;> cases hd
          | skipIgn => simp only [hd] at hs; cases hs; have := key (by simp [hd]) (by simp [hd]); rwa [hd] at this
          | unmet => simp only [hd] at hs; cases hs; have := key (by simp [hd]) (by simp [hd]); rwa [hd] at this
          | depErr => simp only [hd] at hs; cases hs; have := key (by simp [hd]) (by simp [hd]); rwa [hd] at this
          | utd => simp only [hd] at hs; cases hs; have := key (by simp [hd]) (by simp [hd]); rwa [hd] at this
          | runFirst => simp only [hd] at hs; cases hs; have := key (by simp [hd]) (by simp [hd]); rwa [hd] at this
          | argsErr => simp only [hd] at hs; cases hs; have := key (by simp [hd]) (by simp [hd]); rwa [hd] at this
      | stopIter =>
        cases hs
        refine invL_leave h (fun k _ hk => by rw [hsu] at hk; cases hk) (fun k => by rw [hr]; intro e; cases e)
          rfl rfl rfl rfl rfl (by simp [hsu]) ⟨[], rfl, fun _ => rfl⟩ (Or.inl rfl) (fun _ _ => hsu)
      | holdOn => cases hs; exact leave _ .crash (by simp) rfl (fun k e => by cases e)
      | cyclic n => cases hs; exact leave _ .cyclic (by simp) rfl (fun k e => by cases e)
      | crash => cases hs; exact leave _ .crash (by simp) rfl (fun k e => by cases e)
  | sExec n =>
    simp only [hr] at hs
    cases hn : s.nodes n with
    | none =>
      simp only [hn] at hs; cases hs
      have := h2.x n hr; simp [stOf, hn] at this
    | some nd =>
      simp only [hn] at hs; cases hs
      have := invL_result h hr hn
      simp only [hr] at this; exact this
  | fin =>
    simp only [hr] at hs; cases hs
    have hnaw : ¬ awaiting s := by intro a; rcases a with a | ⟨r, a⟩ <;> (rw [hr] at a; cases a)
    refine invL_leave h (fun _ _ _ aw _ => absurd aw hnaw) (fun k => by rw [hr]; intro e; cases e) rfl rfl rfl rfl rfl rfl
      ⟨Ev.complete :: s.tdown.map Ev.teardown, by simp [finishRun], fun m => (teardown_counts s.tdown m).1⟩
      (Or.inr rfl) (fun hh hs' => h.a8 (Or.inl hr) hh hs')
  | gEntry a b => simp only [hr] at hs; cases hs
  | gLoop a b => simp only [hr] at hs; cases hs
  | gWait a => simp only [hr] at hs; cases hs
  | gRet a b => simp only [hr] at hs; cases hs
  | pTop => simp only [hr] at hs; cases hs
  | pJoin => simp only [hr] at hs; cases hs
  | halted => simp only [hr] at hs; cases hs


theorem init_invL (inp : RunInput) : InvL inp (init inp) := by
  refine ⟨⟨?_, ?_, ?_, ?_⟩, ?_, ?_, ?_, ?_, ?_⟩
  · intro n nd hn; simp [init] at hn
  · intro n nd hn; simp [init] at hn
  · intro t ht; exact Or.inl ht
  · intro e; simp [init] at e
  · intro n nd hn; simp [init] at hn
  · intro n nd hn; simp [init] at hn
  · intro n nd hn; simp [init] at hn
  · intro n hn; simp [stOf, init, RS.finished] at hn
  · intro a; simp only [init] at a; split at a <;> (rcases a with a | a <;> cases a)

theorem reach_invL {inp : RunInput} {s : Sys} (h : Reach inp s) : InvL inp s := by
  induction h with
  | init => exact init_invL inp
  | @next s0 s1 c hr hs ih =>
    cases c with
    | main perm => exact serialStep_invL ih (reach_inv2 hr) (reach_inv3 hr) hs
    | take w => cases hs
    | done w => cases hs

theorem ordOK_go {l : List Ev} (h : OrdOK l) {t : Name} {deps : List Name} (hg : Ev.go t deps ∈ l) :
    ∀ d ∈ deps, finBefore l d := by
  induction l with
  | nil => cases hg
  | cons e rest ih =>
    rcases List.mem_cons.mp hg with rfl | hg'
    · intro d hd
      exact finBefore_mono (fun x hx => List.mem_cons_of_mem _ hx) (h.1 d hd)
    · intro d hd
      exact finBefore_mono (fun x hx => List.mem_cons_of_mem _ hx) (ih h.2 hg' d hd)

/-- the closure of the selection as this run determined it: task_dep and calc_dep as extended by calc results, and the
    setup-tasks of the tasks that `select_task` chose for execution -/
inductive RunCl (inp : RunInput) (s : Sys) : Name → Prop
  | ofSel {t} : t ∈ inp.sel → RunCl inp s t
  | ofTask {t d nd} : RunCl inp s t → s.nodes t = some nd → d ∈ nd.dynTask → RunCl inp s d
  | ofCalc {t d nd} : RunCl inp s t → s.nodes t = some nd → d ∈ nd.dynCalc → RunCl inp s d
  | ofSetup {t d deps} : RunCl inp s t → Ev.go t deps ∈ s.events → d ∈ inp.setup t → RunCl inp s d

/-- serial runner: when the run ends because the dispatcher has nothing left (no failure stopped it, no internal
    error), every member of the closure has exactly one terminal report -/
theorem all_processed_serial {inp : RunInput} {s : Sys} (hr : Reach inp s) (hh : s.rpc = .halted)
    (hhalt : s.halt = .none) (hstop : s.stop = false) : ∀ t, RunCl inp s t → cTerm s t = 1 := by
  have hL := reach_invL hr
  have h2 := reach_inv2 hr
  have h3 := reach_inv3 hr
  have hsu : s.susp = some .stopIter := hL.a8 (Or.inr hh) hhalt hstop
  obtain ⟨q1, q2, q3, q4⟩ := hL.d.a7 hsu
  have allDone : ∀ k x, s.nodes k = some x → x.pc = .done := by
    intro k x hx
    cases hpc : x.pc with
    | done => rfl
    | _ =>
      have := hL.d.a2 k x hx (by rw [hpc]; simp)
      rw [q1, q2, q4] at this
      rcases this with a | a | a <;> cases a
  have hnaw : ¬ awaiting s := by intro a; rcases a with a | ⟨r, a⟩ <;> (rw [hh] at a; cases a)
  have processed : ∀ t, created s t → cTerm s t = 1 := by
    intro t ⟨x, hx⟩
    have hpc := allDone t x hx
    have hne : x.status ≠ .none := by
      intro e
      have := (hL.a4 t x hx (by rw [hpc]; rfl) e).1
      rw [hsu] at this; cases this
    have hnr : x.status ≠ .run := by
      intro e
      rcases hL.a5 t x hx e with a | ⟨_, _, a | ⟨a, _⟩⟩
      · rw [hh] at a; cases a
      · rw [hpc] at a; cases a
      · rw [hpc] at a; cases a
    have hfin : (stOf s t).finished = true := by
      simp only [stOf, hx]
      cases hs : x.status <;> simp_all [RS.finished]
    have := hL.a6 t hfin
    have := h3.t2 t
    omega
  have mk : ∀ t, RunCl inp s t → created s t := by
    intro t ht
    induction ht with
    | ofSel hm =>
      rcases hL.d.a3 _ hm with a | a
      · rw [q3] at a; cases a
      · exact a
    | @ofTask t d nd _ hn hd _ =>
      have hpc := allDone t nd hn
      have hm := (h2.inv1.node t nd hn).m1 (by rw [hpc]; rfl)
      rcases (hL.d.a1 t nd hn).t d hd with a | ⟨⟨_, a⟩, _⟩ | ⟨_, a, _⟩ | a
      · rw [hm.1] at a; cases a
      · rw [hpc] at a; cases a
      · rw [hpc] at a; cases a
      · exact a
    | @ofCalc t d nd _ hn hd _ =>
      have hpc := allDone t nd hn
      have hm := (h2.inv1.node t nd hn).m1 (by rw [hpc]; rfl)
      rcases (hL.d.a1 t nd hn).c d hd with a | ⟨_, a, _⟩ | a
      · rw [hm.2.1] at a; cases a
      · rw [hpc] at a; cases a
      · exact a
    | @ofSetup t d deps _ hg hd _ =>
      have hin : d ∈ deps := h2.gs t deps hg d (by simp [staticDeps, hd])
      have hfb := ordOK_go h2.ord hg d hin
      -- `d` has a finish report, hence a final status, hence a node
      have hpos : cTerm s d ≥ 1 := by
        have : ∃ e ∈ s.events, Ev.isTerminalOf d e = true := by
          rcases hfb with x | x
          · exact ⟨_, x, by simp [Ev.isTerminalOf]⟩
          · exact ⟨_, x, by simp [Ev.isTerminalOf]⟩
        have := List.countP_pos_iff.mpr this
        unfold cTerm; omega
      cases hx : s.nodes d with
      | some x => exact ⟨x, hx⟩
      | none =>
        have := h3.t d (by simp [stOf, hx, RS.finished])
        omega
  intro t ht
  exact processed t (mk t ht)

end DoitModel.Run
