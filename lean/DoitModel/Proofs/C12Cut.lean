import DoitModel.Proofs.RunClosure
/-! # C12 — the transitions of the run model do not read the selection

`cutSel inp pre` is `inp` with the selection replaced by `pre`.  Every transition function gives the same result for
both inputs (the selection is read by `init` only), so the node-level closure lemmas of `Proofs/RunClosure.lean`,
instantiated at `cutSel inp pre`, describe a run of `inp` as long as only members of `pre` have been popped from
`tasks_to_run`. -/
namespace DoitModel.Run

def cutSel (inp : RunInput) (pre : List Name) : RunInput := { inp with sel := pre }

variable (inp : RunInput) (pre : List Name)

theorem absorbDone_cut (s : Sys) (c : Bool) : ∀ (ds : List Name) (nd : Node),
    absorbDone (cutSel inp pre) s c ds nd = absorbDone inp s c ds nd := by
  intro ds
  induction ds with
  | nil => intro nd; rfl
  | cons d ds ih =>
    intro nd
    simp only [absorbDone]
    split
    · exact ih nd
    · rw [ih]; rfl

theorem addWaitRun_cut (s : Sys) (n : Name) (nd : Node) (ds : List Name) (c : Bool) (pc' : PC) :
    addWaitRun (cutSel inp pre) s n nd ds c pc' = addWaitRun inp s n nd ds c pc' := by
  unfold addWaitRun; rw [absorbDone_cut]

theorem updateWaiting_cut (pst : RS) (p : Name) : ∀ (perm : List Name) (s : Sys),
    updateWaiting (cutSel inp pre) pst p s perm = updateWaiting inp pst p s perm := by
  intro perm
  induction perm with
  | nil => intro s; rfl
  | cons w ws ih =>
    intro s
    simp only [updateWaiting]
    cases s.nodes w with
    | none => exact ih s
    | some nd =>
      simp only []
      split
      · rfl
      · rw [ih]; rfl

theorem send_cut (s : Sys) (processed : Option Name) (perm : List Name) :
    send (cutSel inp pre) s processed perm = send inp s processed perm := by
  unfold send; simp only [updateWaiting_cut]

theorem nodeStep_cut (s : Sys) (n : Name) (nd : Node) (perm : List Name) :
    nodeStep (cutSel inp pre) s n nd perm = nodeStep inp s n nd perm := by
  unfold nodeStep; simp only [addWaitRun_cut]; rfl

theorem dtick_cut (s : Sys) (perm : List Name) : dtick (cutSel inp pre) s perm = dtick inp s perm := by
  unfold dtick; simp only [nodeStep_cut]; rfl

theorem serialStep_cut (s : Sys) (perm : List Name) :
    serialStep (cutSel inp pre) s perm = serialStep inp s perm := by
  unfold serialStep; simp only [send_cut, dtick_cut]; rfl

end DoitModel.Run
