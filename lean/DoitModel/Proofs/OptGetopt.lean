import DoitModel.Model.Opt
/-! M4: the getopt state machine on rendered assignments (round trip) and on malformed tokens (rejection) -/
namespace DoitModel.Opt

theorem splitEq_noeq (n : Str) (h : '=' ∉ n) : splitEq n = (n, none) := by
  induction n with
  | nil => rfl
  | cons c r ih =>
    have hc : c ≠ '=' := fun e => h (by simp [e])
    have hr : '=' ∉ r := fun e => h (by simp [e])
    simp [splitEq, hc, ih hr]

theorem splitEq_eq (n v : Str) (h : '=' ∉ n) : splitEq (n ++ '=' :: v) = (n, some v) := by
  induction n with
  | nil => simp [splitEq]
  | cons c r ih =>
    have hc : c ≠ '=' := fun e => h (by simp [e])
    have hr : '=' ∉ r := fun e => h (by simp [e])
    simp [splitEq, hc, ih hr]

theorem isPrefixOf_self (n : Str) : n.isPrefixOf n = true := by
  induction n with
  | nil => rfl
  | cons c r ih => simp [List.isPrefixOf, ih]

theorem mem_possibilities_self (tbl : List (Str × Bool)) (n : Str) (b : Bool) (h : (n, b) ∈ tbl) :
    (n, b) ∈ possibilities tbl n := by
  simp [possibilities, List.mem_filter, h]

theorem mem_possibilities_sub (tbl : List (Str × Bool)) (n : Str) (e : Str × Bool)
    (h : e ∈ possibilities tbl n) : e ∈ tbl := by
  simp [possibilities, List.mem_filter] at h; exact h.1

/-- exact match of a flag name wins whatever else has it as a prefix -/
theorem longHasArgs_exact_flag (tbl : List (Str × Bool)) (n : Str) (h : (n, false) ∈ tbl) :
    longHasArgs tbl n = .ok (false, n) := by
  have hm := mem_possibilities_self tbl n false h
  unfold longHasArgs
  split
  · next he => rw [he] at hm; cases hm
  · next x rest he => rw [he] at hm; simp [hm]

/-- exact match of a name that takes a value wins whatever else has it as a prefix -/
theorem longHasArgs_exact_arg (tbl : List (Str × Bool)) (n : Str) (h : (n, true) ∈ tbl)
    (hno : (n, false) ∉ tbl) : longHasArgs tbl n = .ok (true, n) := by
  have hm := mem_possibilities_self tbl n true h
  unfold longHasArgs
  split
  · next he => rw [he] at hm; cases hm
  · next x rest he =>
    rw [he] at hm
    have hno' : (n, false) ∉ x :: rest := fun hc => hno (mem_possibilities_sub tbl n _ (he ▸ hc))
    simp only [hno', hm, if_false, if_true]

/-- a prefix that exactly one table entry extends selects that entry (abbreviated long options) -/
theorem longHasArgs_unique (tbl : List (Str × Bool)) (p n : Str) (a : Bool)
    (h : possibilities tbl p = [(n, a)]) : longHasArgs tbl p = .ok (a, n) := by
  unfold longHasArgs
  rw [h]
  by_cases hp : p = n <;> cases a <;> simp_all

/-- a prefix that several entries extend, none of them exactly, is rejected -/
theorem longHasArgs_ambiguous (tbl : List (Str × Bool)) (p : Str) (x y : Str × Bool) (rest : List (Str × Bool))
    (h : possibilities tbl p = x :: y :: rest) (h1 : (p, false) ∉ tbl) (h2 : (p, true) ∉ tbl) :
    longHasArgs tbl p = .error .ambiguous := by
  unfold longHasArgs
  rw [h]
  have e1 : (p, false) ∉ x :: y :: rest := fun hc => h1 (mem_possibilities_sub tbl p _ (h ▸ hc))
  have e2 : (p, true) ∉ x :: y :: rest := fun hc => h2 (mem_possibilities_sub tbl p _ (h ▸ hc))
  simp only [e1, e2, if_false]
  simp

theorem longHasArgs_unknown (tbl : List (Str × Bool)) (p : Str) (h : possibilities tbl p = []) :
    longHasArgs tbl p = .error .unknownLong := by
  unfold longHasArgs; rw [h]

/-! ### folds of the state machine -/

theorem fold_fail (sT lT) (e : Err) (toks : List Str) :
    toks.foldl (gstep sT lT) (.fail e) = .fail e := by
  induction toks with
  | nil => rfl
  | cons t r ih => simpa [gstep] using ih

theorem fold_pos (sT lT) (acc : Pairs) (ps toks : List Str) :
    toks.foldl (gstep sT lT) (.pos acc ps) = .pos acc (ps ++ toks) := by
  induction toks generalizing ps with
  | nil => simp
  | cons t r ih => simp [gstep, ih]

theorem doShorts_flags (sT) (cs rest : List Char) (acc : Pairs) (h : flagsOk sT cs = true) :
    doShorts sT (cs ++ rest) acc = doShorts sT rest (acc ++ flagPairs cs) := by
  induction cs generalizing acc with
  | nil => simp [flagPairs]
  | cons c r ih =>
    simp only [flagsOk, List.all_cons, Bool.and_eq_true, decide_eq_true_eq] at h
    have hr : flagsOk sT r = true := by simpa [flagsOk] using h.2
    simp [doShorts, h.1.2, ih _ hr, flagPairs]

theorem flagsOk_head (sT) (c : Char) (r : List Char) (h : flagsOk sT (c :: r) = true) : c ≠ '-' := by
  simp only [flagsOk, List.all_cons, Bool.and_eq_true, decide_eq_true_eq] at h
  exact h.1.1

/-- a cluster token `-c…` whose first letter is not `-` is handed to `do_shorts` -/
theorem scanTok_short (sT lT) (acc : Pairs) (c : Char) (r : List Char) (hc : c ≠ '-') :
    scanTok sT lT acc ('-' :: c :: r) = doShorts sT (c :: r) acc := by
  unfold scanTok
  split
  · next h => injection h with _ h; injection h with h _; exact absurd h hc
  · next h => injection h with _ h; injection h with h _; exact absurd h hc
  · next h => injection h with _ h; injection h with h1 h2; subst h1; subst h2; rfl
  · next h => exact absurd rfl (h c r)

theorem scanTok_long (sT lT) (acc : Pairs) (body : Str) (hb : body ≠ []) :
    scanTok sT lT acc ('-' :: '-' :: body) = doLong lT body acc := by
  cases body with
  | nil => exact absurd rfl hb
  | cons b bs => simp [scanTok]

/-- the head of `cs ++ c :: v` is not a dash when `cs` are flags and `c` is not a dash -/
theorem cluster_head (sT) (cs : List Char) (c : Char) (v : Str) (h : flagsOk sT cs = true) (hc : c ≠ '-') :
    ∃ d r, cs ++ c :: v = d :: r ∧ d ≠ '-' := by
  cases cs with
  | nil => exact ⟨c, v, rfl, hc⟩
  | cons d r => exact ⟨d, r ++ c :: v, rfl, flagsOk_head sT d r h⟩

/-- **one assignment**: whatever form it was rendered in, the machine reads back exactly its pairs -/
theorem fold_asg (sT lT) (a : Asg) (acc : Pairs) (h : a.ok sT lT = true) :
    a.render.foldl (gstep sT lT) (.scan acc) = .scan (acc ++ a.pairs) := by
  cases a with
  | flags cs =>
    simp only [Asg.ok, Bool.and_eq_true, decide_eq_true_eq] at h
    obtain ⟨hne, hf⟩ := h
    cases cs with
    | nil => exact absurd rfl hne
    | cons d r =>
      have hd := flagsOk_head sT d r hf
      have := doShorts_flags sT (d :: r) [] acc hf
      simp only [List.append_nil] at this
      simp only [Asg.render, List.foldl_cons, List.foldl_nil, gstep]
      rw [scanTok_short sT lT acc d r hd, this]
      simp [doShorts, Asg.pairs]
  | sAtt cs c v =>
    simp only [Asg.ok, Bool.and_eq_true, decide_eq_true_eq] at h
    obtain ⟨⟨⟨hf, hc⟩, hl⟩, hv⟩ := h
    obtain ⟨d, r, he, hd⟩ := cluster_head sT cs c v hf hc
    cases v with
    | nil => exact absurd rfl hv
    | cons v0 vs =>
      simp only [Asg.render, List.foldl_cons, List.foldl_nil, gstep]
      rw [he, scanTok_short sT lT acc d r hd, ← he, doShorts_flags sT cs _ acc hf]
      simp [doShorts, hl, Asg.pairs]
  | sDet cs c v =>
    simp only [Asg.ok, Bool.and_eq_true, decide_eq_true_eq] at h
    obtain ⟨⟨hf, hc⟩, hl⟩ := h
    obtain ⟨d, r, he, hd⟩ := cluster_head sT cs c [] hf hc
    simp only [Asg.render, List.foldl_cons, List.foldl_nil, gstep]
    rw [he, scanTok_short sT lT acc d r hd, ← he, doShorts_flags sT cs _ acc hf]
    simp [doShorts, hl, Asg.pairs, gstep]
  | lFlag n =>
    simp only [Asg.ok, longOk, Bool.and_eq_true, decide_eq_true_eq, Bool.not_eq_true', Bool.or_eq_true] at h
    obtain ⟨⟨⟨hne, heq⟩, hm⟩, _⟩ := h
    have heq' : '=' ∉ n := by simpa using heq
    simp [Asg.render, gstep, scanTok_long sT lT acc n hne, doLong, splitEq_noeq n heq',
      longHasArgs_exact_flag lT n hm, longResult, Asg.pairs]
  | lEq n v =>
    simp only [Asg.ok, longOk, Bool.and_eq_true, decide_eq_true_eq, Bool.not_eq_true', Bool.or_eq_true] at h
    obtain ⟨⟨⟨hne, heq⟩, hm⟩, hno⟩ := h
    have heq' : '=' ∉ n := by simpa using heq
    have hno' : (n, false) ∉ lT := by simpa using hno
    have hb : n ++ '=' :: v ≠ [] := by simp
    simp [Asg.render, gstep, scanTok_long sT lT acc _ hb, doLong, splitEq_eq n v heq',
      longHasArgs_exact_arg lT n hm hno', longResult, Asg.pairs]
  | lDet n v =>
    simp only [Asg.ok, longOk, Bool.and_eq_true, decide_eq_true_eq, Bool.not_eq_true', Bool.or_eq_true] at h
    obtain ⟨⟨⟨hne, heq⟩, hm⟩, hno⟩ := h
    have heq' : '=' ∉ n := by simpa using heq
    have hno' : (n, false) ∉ lT := by simpa using hno
    simp [Asg.render, gstep, scanTok_long sT lT acc n hne, doLong, splitEq_noeq n heq',
      longHasArgs_exact_arg lT n hm hno', longResult, Asg.pairs]

theorem fold_asgs (sT lT) (xs : List Asg) (acc : Pairs) (h : xs.all (Asg.ok sT lT) = true) :
    (renderAll xs).foldl (gstep sT lT) (.scan acc) = .scan (acc ++ pairsAll xs) := by
  induction xs generalizing acc with
  | nil => simp [renderAll, pairsAll]
  | cons a r ih =>
    simp only [List.all_cons, Bool.and_eq_true] at h
    simp only [renderAll, pairsAll, List.flatMap_cons, List.foldl_append] at ih ⊢
    rw [fold_asg sT lT a acc h.1, ih _ h.2, List.append_assoc]

/-- what follows the rendered assignments is read with exactly their pairs accumulated -/
theorem getoptT_prefix (sT lT) (xs : List Asg) (rest : List Str) (h : xs.all (Asg.ok sT lT) = true) :
    getoptT sT lT (renderAll xs ++ rest) = gfinish (rest.foldl (gstep sT lT) (.scan (pairsAll xs))) := by
  unfold getoptT
  rw [List.foldl_append, fold_asgs sT lT xs [] h]
  simp

theorem finish_pos (sT lT) (acc : Pairs) (pos : List Str) (h : PosOk pos = true) :
    gfinish (pos.foldl (gstep sT lT) (.scan acc)) = .ok (acc, pos) := by
  cases pos with
  | nil => rfl
  | cons p ps =>
    have hstep : scanTok sT lT acc p = .pos acc [p] := by
      unfold scanTok
      split
      · simp [PosOk] at h
      · simp [PosOk] at h
      · simp [PosOk] at h
      · rfl
    simp [gstep, hstep, fold_pos, gfinish]

theorem finish_sep (sT lT) (acc : Pairs) (pos : List Str) :
    gfinish ((['-', '-'] :: pos).foldl (gstep sT lT) (.scan acc)) = .ok (acc, pos) := by
  simp [gstep, scanTok, fold_pos, gfinish]

end DoitModel.Opt
