import DoitModel.Proofs.C05Complete
/-! # C05 (c): `complete_run` is reported only by `Runner.finish()`, after which the runner is halted

`Ev.complete ∈ s.events → s.rpc = .halted` for every reachable state of either system: with it the guard of
`monC05ContinueComplete` (`exit ≤ 2`, last event `complete`) is false on the trace of every state that is not a normal
end of the run, so the monitor holds on EVERY model trace. -/
namespace DoitModel.Run

theorem keepC {s s' : Sys} (new : List Ev) (hev : s'.events = new ++ s.events) (hn : Ev.complete ∉ new) :
    Ev.complete ∈ s'.events → Ev.complete ∈ s.events ∨ s'.rpc = .halted := by
  intro h
  rw [hev] at h
  rcases List.mem_append.mp h with a | a
  · exact absurd a hn
  · exact Or.inl a

theorem selEvents_noC (inp : RunInput) (n : Name) (nd : Node) (d : Sel) : Ev.complete ∉ selEvents inp n nd d := by
  have hs : ∀ e ∈ statusEv nd n, e = Ev.getStatus n := by
    intro e he; unfold statusEv at he; split at he <;> simp at he; exact he
  intro h
  cases d <;> simp only [selEvents, List.mem_cons] at h <;>
    first
    | (rcases h with a | a
       · cases a
       · have := hs _ a; cases this)
    | (have := hs _ h; cases this)
    | cases h

theorem resEvents_noC (n : Name) (o : Outcome) : Ev.complete ∉ resEvents n o := by
  intro h; cases o <;> simp [resEvents] at h

theorem startEvents_noC (inp : RunInput) (n w : Nat) :
    Ev.complete ∉ (if inp.runner = .process then [Ev.start n w] else [Ev.start n w, Ev.execute n]) := by
  intro h; split at h <;> simp at h

theorem select_keepC {inp : RunInput} {s : Sys} (n : Name) (nd : Node) (d : Sel) (r : RPC) :
    Ev.complete ∈ ({ applySel inp s n nd d with rpc := r } : Sys).events →
      Ev.complete ∈ s.events ∨ ({ applySel inp s n nd d with rpc := r } : Sys).rpc = .halted :=
  keepC (selEvents inp n nd d) (applySel_events inp s n nd d) (selEvents_noC inp n nd d)

theorem serialStep_compl {inp : RunInput} {s s' : Sys} {perm : List Name} (hs : serialStep inp s perm = some s') :
    s.rpc ≠ .halted ∧ (Ev.complete ∈ s'.events → Ev.complete ∈ s.events ∨ s'.rpc = .halted) := by
  have same : ∀ x : Sys, x.events = s.events → Ev.complete ∈ x.events → Ev.complete ∈ s.events ∨ x.rpc = .halted :=
    fun x e => keepC [] (by simpa using e) (by simp)
  unfold serialStep at hs
  cases hr : s.rpc with
  | sTop node =>
    simp only [hr] at hs
    refine ⟨by simp, ?_⟩
    split at hs
    · cases hs; exact same _ rfl
    · cases hsd : send inp s node perm with
      | none => simp only [hsd] at hs; cases hs
      | some s0 => simp only [hsd] at hs; cases hs; exact same _ (send_outer hsd).1.1
  | sWait =>
    simp only [hr] at hs
    refine ⟨by simp, ?_⟩
    cases hsu : s.susp with
    | none => simp only [hsu] at hs; exact same _ (dtick_outer hs).1
    | some o =>
      simp only [hsu] at hs
      cases o with
      | init => cases hs
      | node n =>
        simp only [] at hs
        cases hn : s.nodes n with
        | none => simp only [hn] at hs; cases hs; exact same _ rfl
        | some nd =>
          simp only [hn] at hs
          cases hd : selDecision inp n nd with
          | go =>
            simp only [hd] at hs; cases hs
            refine keepC ((if inp.runner = .process then [Ev.start n 0] else [Ev.start n 0, Ev.execute n]) ++
              selEvents inp n nd .go) ?_ ?_
            · show (startTask inp _ n 0).events = _
              rw [startTask_events, applySel_events, List.append_assoc]
            · intro h
              rcases List.mem_append.mp h with a | a
              · exact startEvents_noC inp n 0 a
              · exact selEvents_noC inp n nd .go a
          | assertFail => simp only [hd] at hs; cases hs; exact same _ rfl
          | skipIgn => simp only [hd] at hs; cases hs; exact select_keepC n nd _ _
          | unmet => simp only [hd] at hs; cases hs; exact select_keepC n nd _ _
          | depErr => simp only [hd] at hs; cases hs; exact select_keepC n nd _ _
          | utd => simp only [hd] at hs; cases hs; exact select_keepC n nd _ _
          | runFirst => simp only [hd] at hs; cases hs; exact select_keepC n nd _ _
          | argsErr => simp only [hd] at hs; cases hs; exact select_keepC n nd _ _
      | stopIter => cases hs; exact same _ rfl
      | holdOn => cases hs; exact same _ rfl
      | cyclic n => cases hs; exact same _ rfl
      | crash => cases hs; exact same _ rfl
  | sExec n =>
    simp only [hr] at hs
    refine ⟨by simp, ?_⟩
    cases hn : s.nodes n with
    | none => simp only [hn] at hs; cases hs; exact same _ rfl
    | some nd =>
      simp only [hn] at hs; cases hs
      refine keepC (resEvents n (inp.outcome n) ++ [Ev.fin n 0]) ?_ ?_
      · show (processResult inp _ n nd).events = _
        rw [processResult_events]; simp
      · intro h
        rcases List.mem_append.mp h with a | a
        · exact resEvents_noC _ _ a
        · simp at a
  | fin => simp only [hr] at hs; cases hs; exact ⟨by simp, fun _ => Or.inr rfl⟩
  | gEntry a b => simp only [hr] at hs; cases hs
  | gLoop a b => simp only [hr] at hs; cases hs
  | gWait a => simp only [hr] at hs; cases hs
  | gRet a b => simp only [hr] at hs; cases hs
  | pTop => simp only [hr] at hs; cases hs
  | pJoin => simp only [hr] at hs; cases hs
  | halted => simp only [hr] at hs; cases hs

theorem gReturn_events (s : Sys) (job : Job) (ret : Ret) :
    (gReturn s job ret).events = s.events ∧ (gReturn s job ret).rpc ≠ .halted := by
  cases ret with
  | startLoop k =>
    simp only [gReturn]
    split
    · exact ⟨rfl, by simp⟩
    · split <;> exact ⟨rfl, by simp⟩
  | feedLoop k =>
    simp only [gReturn]
    split
    · split
      · exact ⟨rfl, by simp⟩
      · exact ⟨rfl, by simp [raise]⟩
    · exact ⟨rfl, by simp⟩

theorem mainStep_compl {inp : RunInput} {s s' : Sys} {perm : List Name} (hs : mainStep inp s perm = some s') :
    s.rpc ≠ .halted ∧ (Ev.complete ∈ s'.events → Ev.complete ∈ s.events ∨ s'.rpc = .halted) := by
  have same : ∀ x : Sys, x.events = s.events → Ev.complete ∈ x.events → Ev.complete ∈ s.events ∨ x.rpc = .halted :=
    fun x e => keepC [] (by simpa using e) (by simp)
  unfold mainStep at hs
  cases hr : s.rpc with
  | gEntry completed ret =>
    simp only [hr] at hs
    refine ⟨by simp, ?_⟩
    split at hs <;> (cases hs; exact same _ rfl)
  | gLoop node ret =>
    simp only [hr] at hs
    refine ⟨by simp, ?_⟩
    cases hsd : send inp s node perm with
    | none => simp only [hsd] at hs; cases hs
    | some s0 => simp only [hsd] at hs; cases hs; exact same _ (send_outer hsd).1.1
  | gWait ret =>
    simp only [hr] at hs
    refine ⟨by simp, ?_⟩
    cases hsu : s.susp with
    | none => simp only [hsu] at hs; exact same _ (dtick_outer hs).1
    | some o =>
      simp only [hsu] at hs
      cases o with
      | init => cases hs
      | node n =>
        simp only [] at hs
        cases hn : s.nodes n with
        | none => simp only [hn] at hs; cases hs; exact same _ rfl
        | some nd =>
          simp only [hn] at hs
          cases hd : selDecision inp n nd with
          | go => simp only [hd] at hs; cases hs; exact select_keepC n nd _ _
          | assertFail => simp only [hd] at hs; cases hs; exact same _ rfl
          | skipIgn => simp only [hd] at hs; cases hs; exact select_keepC n nd _ _
          | unmet => simp only [hd] at hs; cases hs; exact select_keepC n nd _ _
          | depErr => simp only [hd] at hs; cases hs; exact select_keepC n nd _ _
          | utd => simp only [hd] at hs; cases hs; exact select_keepC n nd _ _
          | runFirst => simp only [hd] at hs; cases hs; exact select_keepC n nd _ _
          | argsErr => simp only [hd] at hs; cases hs; exact select_keepC n nd _ _
      | holdOn => cases hs; exact same _ rfl
      | stopIter => cases hs; exact same _ rfl
      | cyclic n => cases hs; exact same _ rfl
      | crash => cases hs; exact same _ rfl
  | gRet job ret =>
    simp only [hr] at hs; cases hs
    refine ⟨by simp, fun h => ?_⟩
    rw [(gReturn_events s job ret).1] at h; exact Or.inl h
  | pTop =>
    simp only [hr] at hs
    refine ⟨by simp, ?_⟩
    split at hs
    · cases hs; exact same _ rfl
    · cases hq : s.resQ with
      | nil => simp only [hq] at hs; cases hs
      | cons n rest =>
        simp only [hq] at hs
        cases hn : s.nodes n with
        | none => simp only [hn] at hs; cases hs; exact same _ rfl
        | some nd =>
          simp only [hn] at hs; cases hs
          refine keepC (resEvents n (inp.outcome n)) ?_ (resEvents_noC _ _)
          show (processResult inp _ n nd).events = _
          rw [processResult_events]
  | pJoin =>
    simp only [hr] at hs
    refine ⟨by simp, ?_⟩
    split at hs
    · cases hs; exact same _ rfl
    · cases hs
  | fin => simp only [hr] at hs; cases hs; exact ⟨by simp, fun _ => Or.inr rfl⟩
  | sTop a => simp only [hr] at hs; cases hs
  | sWait => simp only [hr] at hs; cases hs
  | sExec a => simp only [hr] at hs; cases hs
  | halted => simp only [hr] at hs; cases hs

/-- `complete_run` has been reported only if the runner is halted -/
def InvC (s : Sys) : Prop := Ev.complete ∈ s.events → s.rpc = .halted

theorem reach_invC {inp : RunInput} {s : Sys} (h : Reach inp s) : InvC s := by
  induction h with
  | init => intro h; simp [init] at h
  | @next s0 s1 c hr hs ih =>
    cases c with
    | main perm =>
      obtain ⟨hnh, hk⟩ := serialStep_compl hs
      intro hc
      rcases hk hc with a | a
      · exact absurd (ih a) hnh
      · exact a
    | take w => cases hs
    | done w => cases hs

theorem preach_invC {inp : RunInput} {s : Sys} (h : PReach inp s) : InvC s := by
  induction h with
  | init => intro h; simp [init] at h
  | @next s0 s1 c hr hs ih =>
    cases c with
    | main perm =>
      obtain ⟨hnh, hk⟩ := mainStep_compl hs
      intro hc
      rcases hk hc with a | a
      · exact absurd (ih a) hnh
      · exact a
    | take w =>
      simp only [pstep] at hs
      unfold takeStep at hs
      by_cases hidle : s0.workers w = .idle
      case neg => simp only [hidle, if_false] at hs; cases hs
      simp only [hidle, if_true] at hs
      cases hq : s0.jobQ with
      | nil => simp only [hq] at hs; cases hs
      | cons j js =>
        simp only [hq] at hs
        cases j with
        | hold => cases hs; exact ih
        | stop => cases hs; exact ih
        | task n =>
          cases hs
          intro hc
          have : Ev.complete ∈ (startTask inp s0 n w).events := hc
          rw [startTask_events] at this
          rcases List.mem_append.mp this with a | a
          · exact absurd a (startEvents_noC inp n w)
          · exact ih a
    | done w =>
      simp only [pstep] at hs
      unfold doneStep at hs
      cases hw : s0.workers w with
      | running n =>
        simp only [hw] at hs; cases hs
        intro hc
        have : Ev.complete ∈ Ev.fin n w :: s0.events := hc
        rcases List.mem_cons.mp this with a | a
        · cases a
        · exact ih a
      | notStarted => simp only [hw] at hs; cases hs
      | idle => simp only [hw] at hs; cases hs
      | exited => simp only [hw] at hs; cases hs

/-- the guard of the monitor on a model trace: a trace ending in `complete` belongs to a halted state -/
theorem guard_halted {inp : RunInput} {s : Sys} (hC : InvC s)
    (h : ((trace inp s).getLast? == some Ev.complete) = true) : s.rpc = .halted := by
  have h' : (trace inp s).getLast? = some Ev.complete := by simpa using h
  exact hC (mem_trace (List.mem_of_getLast? h'))

theorem exit_le_two {s : Sys} (h : exitCode s ≤ 2) : s.halt = .none := by
  unfold exitCode at h
  cases hh : s.halt <;> rw [hh] at h <;> simp at h ⊢

/-- the monitor on the trace of ANY state for which the liveness facts hold whenever it is a normal end -/
theorem monC05ContinueComplete_of_inv {inp : RunInput} {s : Sys} (I : AllInv inp s) (hC : InvC s)
    (hE : s.rpc = .halted → s.halt = .none → s.stop = false → EndFacts inp s) {n : Nat} (hb : Below inp n)
    (exit : Nat) (hx : exit ≤ 2 → s.halt = .none) : monC05ContinueComplete inp n (trace inp s) exit = true := by
  by_cases hc : inp.continue_ = true
  · by_cases hg : (decide (exit ≤ 2) && (trace inp s).getLast? == some Ev.complete) = true
    · simp only [Bool.and_eq_true, decide_eq_true_eq] at hg
      exact monC05ContinueComplete_of_end I (hE (guard_halted hC hg.2) (hx hg.1) (I.hF.st hc)) hb exit
    · unfold monC05ContinueComplete
      have : (decide (exit ≤ 2) && (trace inp s).getLast? == some Ev.complete) = false := by simpa using hg
      rw [this]; simp
  · unfold monC05ContinueComplete; simp [hc]

end DoitModel.Run
