import DoitModel.Proofs.DelayedWF
/-! # Delayed creation: the target rule (structural core)

`RxOK`: a task object that belongs to a regex group `g` (a `_regex_target…` placeholder or the creator's own task
selected through its `target_regex`) either still carries its loader and has the command-line word among its
file_deps, or — once it is `DelayedLoaded` — has the task that owns the word as a target among its task_deps, unless
other loaders of the group are still to be tried.  `TgtInv`: that for every table entry and every node in every
state that did not raise, and `notFound x` is raised only while nobody has registered `x`. -/
namespace DoitModel.Delayed
open DoitModel.Run (RS Name)

def NoErr (s : Sys) : Prop := ∀ e, s.susp ≠ .err e

def RxOK (inp : Input) (s : Sys) (g : GId) (td : TDef) : Prop :=
  (td.loader ≠ none → inp.gtarget g ∈ td.fileDep) ∧
  (td.loader = none → (∃ o, s.targets (inp.gtarget g) = some o ∧ o ∈ td.deps) ∨ s.gtasks g ≠ [])

structure TgtOK (inp : Input) (s : Sys) : Prop where
  tab : ∀ n td g, s.tasks n = some td → td.rx = some g → RxOK inp s g td
  node : ∀ n nd g, s.nodes n = some nd → nd.task.rx = some g → RxOK inp s g nd.task

structure TgtInv (inp : Input) (s : Sys) : Prop where
  nf : ∀ x, s.susp = .err (.notFound x) → s.targets x = none ∧ ∃ g, inp.gtarget g = x ∧ s.gtasks g = []
  ok : NoErr s → TgtOK inp s

theorem RxOK.transfer {inp : Input} {s s' : Sys} {g : GId} {td : TDef} (h : RxOK inp s g td)
    (ht : ∀ x o, s.targets x = some o → s'.targets x = some o) (hg : s.gtasks g ≠ [] → s'.gtasks g ≠ []) :
    RxOK inp s' g td := by
  refine ⟨h.1, fun hl => ?_⟩
  rcases h.2 hl with ⟨o, h1, h2⟩ | h1
  · exact Or.inl ⟨o, ht _ _ h1, h2⟩
  · exact Or.inr (hg h1)

theorem RxOK.congr {inp : Input} {s s' : Sys} {g : GId} {td : TDef} (h : RxOK inp s g td)
    (ht : s'.targets = s.targets) (hg : s'.gtasks = s.gtasks) : RxOK inp s' g td :=
  h.transfer (fun x o hx => by rw [ht]; exact hx) (fun hx => by rw [hg]; exact hx)

/-- a step that does not evaluate a creator and touches neither `targets` nor the regex groups -/
theorem TgtOK.quiet {inp : Input} {s s' : Sys} (h : TgtOK inp s) (q : Quiet s s') (ht : s'.targets = s.targets)
    (hg : s'.gtasks = s.gtasks) : TgtOK inp s' := by
  constructor
  · intro n td g hn hr
    rw [q.tasks] at hn
    exact (h.tab n td g hn hr).congr ht hg
  · intro n nd' g hn hr
    rcases q.nodes n nd' hn with ⟨nd, h1, h2⟩ | h1
    · rw [h2] at hr ⊢; exact (h.node n nd g h1 hr).congr ht hg
    · exact (h.tab n _ g h1 hr).congr ht hg

theorem TgtInv.of_err {inp : Input} {s' : Sys} {e : Err} (he : s'.susp = .err e)
    (hnf : ∀ x, e = .notFound x → s'.targets x = none ∧ ∃ g, inp.gtarget g = x ∧ s'.gtasks g = []) :
    TgtInv inp s' :=
  ⟨fun x hx => hnf x (by rw [he] at hx; cases hx; rfl), fun hne => absurd he (hne e)⟩

/-! ### tables -/

theorem regTargets_ext : ∀ (ps : List (Name × Name)) (t tg : Name → Option Name), regTargets t ps = some tg →
    ∀ x o, t x = some o → tg x = some o := by
  intro ps
  induction ps with
  | nil => intro t tg h x o hx; simp only [regTargets] at h; cases h; exact hx
  | cons p r ih =>
    intro t tg h x o hx
    obtain ⟨f, o'⟩ := p
    simp only [regTargets] at h
    cases hf : t f with
    | some y => simp [hf] at h
    | none =>
      simp only [hf] at h
      refine ih _ tg h x o ?_
      by_cases hxf : x = f
      · subst hxf; rw [hf] at hx; cases hx
      · simpa [hxf] using hx

theorem insertNew_rx (tg : Name → Option Name) (new : List NewTask) :
    ∀ (oid : Nat) (tasks : Name → Option TDef) (k : Name) (td : TDef) (g : GId),
      insertNew tg oid tasks new k = some td → td.rx = some g → tasks k = some td := by
  induction new with
  | nil => intro oid tasks k td g h _; exact h
  | cons nt r ih =>
    intro oid tasks k td g h hg
    simp only [insertNew] at h
    have := ih _ _ k td g h hg
    split at this
    · cases this; simp [newDef] at hg
    · exact this

theorem implicitDeps_sub (targets : Name → Option Name) :
    ∀ (fs deps : List Name) (d : Name), d ∈ deps → d ∈ implicitDeps targets deps fs := by
  intro fs
  induction fs with
  | nil => intro deps d hd; exact hd
  | cons f fs ih =>
    intro deps d hd
    simp only [implicitDeps]
    split
    · split
      · exact ih _ _ hd
      · exact ih _ _ (List.mem_append_left _ hd)
    · exact ih _ _ hd

theorem implicitDeps_mem (targets : Name → Option Name) :
    ∀ (fs deps : List Name) (f o : Name), f ∈ fs → targets f = some o → o ∈ implicitDeps targets deps fs := by
  intro fs
  induction fs with
  | nil => intro deps f o hf _; cases hf
  | cons f' fs ih =>
    intro deps f o hf ht
    rcases List.mem_cons.mp hf with h1 | h1
    · subst h1
      simp only [implicitDeps, ht]
      split
      · rename_i ho; exact implicitDeps_sub _ _ _ _ ho
      · exact implicitDeps_sub _ _ _ _ (List.mem_append_right _ (List.mem_singleton.mpr rfl))
    · simp only [implicitDeps]
      split
      · split
        · exact ih _ f o h1 ht
        · exact ih _ f o h1 ht
      · exact ih _ f o h1 ht

/-! ### the loader section -/

theorem tgt_evalCreator {inp : Input} {s : Sys} {l : LId} (tname : Name) (h : TgtOK inp s) :
    TgtOK inp (evalCreator inp s l tname b) := by
  unfold evalCreator
  cases hr : regTargets s.targets (targetPairs (inp.make (inp.creatorOf l) tname)) with
  | none => exact ⟨h.tab, h.node⟩
  | some tg =>
    have hext := regTargets_ext _ _ _ hr
    constructor
    · intro n td g hn hg
      exact (h.tab n td g (insertNew_rx _ _ _ _ _ _ _ hn hg) hg).transfer hext (fun x => x)
    · intro n nd g hn hg
      exact (h.node n nd g hn hg).transfer hext (fun x => x)

theorem evalCreator_facts (inp : Input) (s : Sys) (l : LId) (tname : Name) :
    (evalCreator inp s l tname b).nodes = s.nodes ∧
    ((evalCreator inp s l tname b).susp = s.susp ∨ (evalCreator inp s l tname b).susp = .err .dupTarget) := by
  unfold evalCreator
  split
  · exact ⟨rfl, Or.inr rfl⟩
  · exact ⟨rfl, Or.inl rfl⟩

theorem tgt_finishLoader {inp : Input} {s : Sys} {n : Name} {nd : Node} {l : LId} {tk' : TDef}
    (h : TgtOK inp s) (htk : ∀ g, tk'.rx = some g → RxOK inp s g tk') :
    TgtOK inp (finishLoader s n nd l tk') := by
  unfold finishLoader
  cases hc : s.tasks n with
  | none => exact ⟨h.tab, h.node⟩
  | some cur =>
    simp only []
    split
    · constructor
      · intro k td g hk hg
        simp only at hk
        split at hk
        · cases hk; exact (htk g hg).congr rfl rfl
        · exact (h.tab k td g hk hg).congr rfl rfl
      · intro k nd' g hk hg
        simp only at hk
        split at hk
        · cases hk; exact (htk g hg).congr rfl rfl
        · exact (h.node k nd' g hk hg).congr rfl rfl
    · constructor
      · intro k td g hk hg
        exact (h.tab k td g hk hg).congr rfl rfl
      · intro k nd' g hk hg
        simp only at hk
        split at hk
        · cases hk; exact (h.tab n cur g hc hg).congr rfl rfl
        · exact (h.node k nd' g hk hg).congr rfl rfl

theorem finishLoader_susp' (s : Sys) (n : Name) (nd : Node) (l : LId) (tk' : TDef) :
    (finishLoader s n nd l tk').susp = s.susp ∨ (finishLoader s n nd l tk').susp = .err .crash := by
  unfold finishLoader
  cases s.tasks n with
  | none => exact Or.inr rfl
  | some cur => simp only []; split <;> exact Or.inl rfl

/-- `finishLoader` on a state that did not raise -/
theorem tgtInv_finishLoader {inp : Input} {s : Sys} {n : Name} {nd : Node} {l : LId} {tk' : TDef}
    (h : TgtOK inp s) (hne : NoErr s) (htk : ∀ g, tk'.rx = some g → RxOK inp s g tk') :
    TgtInv inp (finishLoader s n nd l tk') := by
  refine ⟨fun x hx => ?_, fun _ => tgt_finishLoader h htk⟩
  rcases finishLoader_susp' s n nd l tk' with h1 | h1
  · rw [h1] at hx; exact absurd hx (hne _)
  · rw [h1] at hx; cases hx

theorem regexBlock_cases (inp : Input) (s : Sys) (l : LId) (g : GId) :
    (∃ o, s.targets (inp.gtarget g) = some o ∧
      regexBlock inp s l g = { s with gfound := fun k => if k = g then true else s.gfound k }) ∨
    (regexBlock inp s l g = { s with susp := .err .crash }) ∨
    (s.targets (inp.gtarget g) = none ∧
      regexBlock inp s l g = { s with gtasks := fun k => if k = g then [] else s.gtasks k,
                                      susp := .err (.notFound (inp.gtarget g)) }) ∨
    (∃ b, (s.gtasks g).filter (· ≠ b) ≠ [] ∧
      regexBlock inp s l g = { s with gtasks := fun k => if k = g then (s.gtasks g).filter (· ≠ b) else s.gtasks k }) := by
  cases ht : s.targets (inp.gtarget g) with
  | some o => exact Or.inl ⟨o, rfl, by simp only [regexBlock, ht]⟩
  | none =>
    cases hb : inp.baseOf l with
    | none => exact Or.inr (Or.inl (by simp only [regexBlock, ht, hb]))
    | some b =>
      by_cases hmem : b ∈ s.gtasks g
      · by_cases hf : (s.gtasks g).filter (· ≠ b) = []
        · exact Or.inr (Or.inr (Or.inl ⟨rfl, by simp only [regexBlock, ht, hb, hmem, hf, if_true]⟩))
        · exact Or.inr (Or.inr (Or.inr ⟨b, hf, by simp only [regexBlock, ht, hb, hmem, hf, if_true, if_false]⟩))
      · exact Or.inr (Or.inl (by simp only [regexBlock, ht, hb, hmem, if_false]))

theorem mutated_rx (s : Sys) (tk : TDef) : (mutated s tk).rx = tk.rx := rfl

theorem tgt_afterCreate {inp : Input} {s : Sys} {n : Name} {nd : Node} {l : LId} (h : TgtOK inp s) (hne : NoErr s)
    (hn : s.nodes n = some nd) (hl : nd.task.loader ≠ none) : TgtInv inp (afterCreate inp s n nd l) := by
  unfold afterCreate
  cases hrx : nd.task.rx with
  | none =>
    simp only []
    exact tgtInv_finishLoader h hne (fun g hg => by rw [mutated_rx, hrx] at hg; cases hg)
  | some g =>
    simp only []
    have hfd : inp.gtarget g ∈ nd.task.fileDep := (h.node n nd g hn hrx).1 hl
    rcases regexBlock_cases inp s l g with ⟨o, ho, heq⟩ | heq | ⟨ht, heq⟩ | ⟨b, hb, heq⟩
    · rw [heq]
      have hne' : NoErr { s with gfound := fun k => if k = g then true else s.gfound k } := hne
      have h' : TgtOK inp { s with gfound := fun k => if k = g then true else s.gfound k } :=
        ⟨fun n td g' hn hg => (h.tab n td g' hn hg).congr rfl rfl,
         fun n nd g' hn hg => (h.node n nd g' hn hg).congr rfl rfl⟩
      split
      · rename_i e he; exact absurd he (hne e)
      · refine tgtInv_finishLoader h' hne' (fun g' hg' => ?_)
        rw [mutated_rx, hrx] at hg'; cases hg'
        refine ⟨fun hc => absurd rfl hc, fun _ => Or.inl ⟨o, ho, ?_⟩⟩
        exact implicitDeps_mem _ _ _ _ _ hfd ho
    · rw [heq]
      exact TgtInv.of_err (e := .crash) rfl (fun x hx => by cases hx)
    · rw [heq]
      exact TgtInv.of_err (e := .notFound (inp.gtarget g)) rfl (fun x hx => by cases hx; exact ⟨ht, g, rfl, by simp⟩)
    · rw [heq]
      have hne' : NoErr { s with gtasks := fun k => if k = g then (s.gtasks g).filter (· ≠ b) else s.gtasks k } := hne
      have hg' : ∀ g', s.gtasks g' ≠ [] →
          (fun k => if k = g then (s.gtasks g).filter (· ≠ b) else s.gtasks k) g' ≠ [] := by
        intro g' hx
        by_cases hgg : g' = g
        · subst hgg; simpa using hb
        · simpa [hgg] using hx
      have h' : TgtOK inp { s with gtasks := fun k => if k = g then (s.gtasks g).filter (· ≠ b) else s.gtasks k } :=
        ⟨fun n td g' hn hg => (h.tab n td g' hn hg).transfer (fun _ _ hx => hx) (hg' g'),
         fun n nd g' hn hg => (h.node n nd g' hn hg).transfer (fun _ _ hx => hx) (hg' g')⟩
      split
      · rename_i e he; exact absurd he (hne e)
      · refine tgtInv_finishLoader h' hne' (fun g'' hg'' => ?_)
        rw [mutated_rx, hrx] at hg''; cases hg''
        refine ⟨fun hc => absurd rfl hc, fun _ => Or.inr ?_⟩
        simpa using hb

theorem tgt_loaderStep {inp : Input} {s : Sys} {n : Name} {nd : Node} {l : LId} (h : TgtOK inp s) (hne : NoErr s)
    (hn : s.nodes n = some nd) (hl : nd.task.loader = some l) : TgtInv inp (loaderStep inp s n nd l) := by
  have hl' : nd.task.loader ≠ none := by rw [hl]; intro e; cases e
  unfold loaderStep
  cases s.tasks (toLoad inp l n) with
  | none => exact TgtInv.of_err (e := .crash) rfl (fun x hx => by cases hx)
  | some tT =>
    simp only []
    split
    · obtain ⟨hnodes, hsusp⟩ := evalCreator_facts inp s l (toLoad inp l n)
      split
      · rename_i e he
        rcases hsusp with h1 | h1
        · rw [h1] at he; exact absurd he (hne e)
        · exact TgtInv.of_err h1 (fun x hx => by cases hx)
      · rename_i hno
        have hne1 : NoErr (evalCreator inp s l (toLoad inp l n) nd.bad) := fun e he => hno e he
        exact tgt_afterCreate (tgt_evalCreator _ h) hne1 (by rw [hnodes]; exact hn) hl'
    · exact tgt_afterCreate h hne hn hl'

/-! ### the other steps: `targets`, the regex groups untouched, no `notFound` -/

def Calm (s s' : Sys) : Prop :=
  s'.targets = s.targets ∧ s'.gtasks = s.gtasks ∧ ∀ x, s'.susp = .err (.notFound x) → s.susp = .err (.notFound x)

theorem Calm.refl (s : Sys) : Calm s s := ⟨rfl, rfl, fun _ h => h⟩

theorem Calm.trans {s s' s'' : Sys} (c : Calm s s') (c' : Calm s' s'') : Calm s s'' :=
  ⟨c'.1.trans c.1, c'.2.1.trans c.2.1, fun x h => c.2.2 x (c'.2.2 x h)⟩

theorem calm_genStep (s : Sys) (n : Name) (nd : Node) (d : Name) (pc' : PC) : Calm s (genStep s n nd d pc') := by
  unfold genStep
  repeat' split
  all_goals exact ⟨rfl, rfl, fun x h => by first | exact h | (simp at h)⟩

theorem calm_wakeOne (s : Sys) (pst : RS) (p w : Name) (nd : Node) : Calm s (wakeOne s pst p w nd) := by
  unfold wakeOne
  split <;> exact ⟨rfl, rfl, fun x h => h⟩

theorem calm_updateWaiting (pst : RS) (p : Name) (perm : List Name) :
    ∀ (s s' : Sys), updateWaiting pst p s perm = some s' → Calm s s' := by
  induction perm with
  | nil => intro s s' h; simp only [updateWaiting] at h; cases h; exact Calm.refl _
  | cons w ws ih =>
    intro s s' h
    simp only [updateWaiting] at h
    cases hw : s.nodes w with
    | none => simp only [hw] at h; exact ih s s' h
    | some nd =>
      simp only [hw] at h
      split at h
      · cases h
      · exact (calm_wakeOne s pst p w nd).trans (ih _ _ h)

theorem calm_feed {s s' : Sys} {p : Name} {perm : List Name} (h : feed s p perm = some s') :
    s'.targets = s.targets ∧ s'.gtasks = s.gtasks ∧ ∀ x, s'.susp ≠ .err (.notFound x) := by
  unfold feed at h
  cases hp : s.nodes p with
  | none => simp only [hp] at h; cases h; exact ⟨rfl, rfl, fun x e => by cases e⟩
  | some nd =>
    simp only [hp] at h
    split at h
    · split at h
      · cases hu : updateWaiting nd.status p { s with dispatched := s.dispatched.filter (· ≠ p) } perm with
        | none => simp only [hu] at h; cases h; exact ⟨rfl, rfl, fun x e => by cases e⟩
        | some s1 =>
          simp only [hu] at h; cases h
          have c := calm_updateWaiting _ _ _ _ _ hu
          exact ⟨c.1, c.2.1, fun x e => by cases e⟩
      · cases h
    · cases h; exact ⟨rfl, rfl, fun x e => by cases e⟩

theorem calm_handBack {inp : Input} {s s' : Sys} {n : Name} {perm : List Name}
    (h : handBack inp s n perm = some s') :
    s'.targets = s.targets ∧ s'.gtasks = s.gtasks ∧ ∀ x, s'.susp ≠ .err (.notFound x) := by
  unfold handBack at h
  split at h
  · cases h; exact ⟨rfl, rfl, fun x e => by cases e⟩
  · exact calm_feed h

theorem calm_selectStep {inp : Input} {s s' : Sys} {n : Name} {perm : List Name}
    (h : selectStep inp s n perm = some s') :
    s'.targets = s.targets ∧ s'.gtasks = s.gtasks ∧ ∀ x, s'.susp ≠ .err (.notFound x) := by
  unfold selectStep at h
  cases hn : s.nodes n with
  | none => simp only [hn] at h; cases h; exact ⟨rfl, rfl, fun x e => by cases e⟩
  | some nd =>
    simp only [hn] at h
    split at h
    · cases h; exact ⟨rfl, rfl, fun x e => by cases e⟩
    · split at h
      · have c := calm_handBack h; exact ⟨c.1, c.2.1, c.2.2⟩
      · split at h
        · have c := calm_handBack h; exact ⟨c.1, c.2.1, c.2.2⟩
        · cases h; exact ⟨rfl, rfl, fun x e => by cases e⟩

theorem calm_finishStep {inp : Input} {s s' : Sys} {n : Name} {perm : List Name}
    (h : finishStep inp s n perm = some s') : Calm s s' := by
  unfold finishStep at h
  split at h
  · cases hn : s.nodes n with
    | none => simp only [hn] at h; cases h
    | some nd =>
      simp only [hn] at h
      have hfeed : ∀ {x : Sys}, feed x n perm = some s' → x.targets = s.targets → x.gtasks = s.gtasks → Calm s s' := by
        intro x hx h1 h2
        have c := calm_feed hx
        exact ⟨c.1.trans h1, c.2.1.trans h2, fun y hy => absurd hy (c.2.2 y)⟩
      split at h
      · cases h
      · split at h
        · split at h
          · exact hfeed h rfl rfl
          · cases h; exact ⟨rfl, rfl, fun x hx => hx⟩
        · split at h
          · cases h; exact ⟨rfl, rfl, fun x hx => hx⟩
          · exact hfeed h rfl rfl
  · cases h

theorem calm_nodeStep {inp : Input} {s : Sys} {n : Name} {nd : Node}
    (hl : nd.pc = .loaderPc → nd.task.loader = none) : Calm s (nodeStep inp s n nd) := by
  unfold nodeStep
  cases hpc : nd.pc with
  | start => simp only []; split <;> exact ⟨rfl, rfl, fun x h => h⟩
  | loopTop => exact ⟨rfl, rfl, fun x h => h⟩
  | taskIter todo =>
    cases todo with
    | nil => exact ⟨rfl, rfl, fun x h => h⟩
    | cons d ds => exact calm_genStep _ _ _ _ _
  | afterDeps =>
    simp only []
    split
    · exact ⟨rfl, rfl, fun x h => h⟩
    · split <;> exact ⟨rfl, rfl, fun x h => h⟩
  | loaderPc => simp only [hl hpc]; exact ⟨rfl, rfl, fun x h => h⟩
  | self1 => exact ⟨rfl, rfl, fun x h => by cases h⟩
  | done => exact ⟨rfl, rfl, fun x h => h⟩

/-- a dispatcher step is quiet and calm, or it is the loader section of the current node -/
theorem dtick_cases' (inp : Input) (s : Sys) :
    (Quiet s (dtick inp s) ∧ Calm s (dtick inp s)) ∨
    ∃ n nd l, s.nodes n = some nd ∧ nd.task.loader = some l ∧ dtick inp s = loaderStep inp s n nd l := by
  rcases dtick_cases inp s with q | hld
  · unfold dtick at q ⊢
    cases hc : s.cur with
    | some n =>
      simp only [hc] at q ⊢
      cases hn : s.nodes n with
      | none => exact Or.inl ⟨Quiet.of_eq rfl rfl rfl rfl rfl, rfl, rfl, fun x h => by cases h⟩
      | some nd =>
        simp only [hn] at q ⊢
        by_cases hl : nd.pc = .loaderPc → nd.task.loader = none
        · exact Or.inl ⟨q, calm_nodeStep hl⟩
        · refine Or.inr ?_
          have hpc : nd.pc = .loaderPc := by
            by_cases h : nd.pc = .loaderPc
            · exact h
            · exact absurd (fun h' => absurd h' h) hl
          cases hld : nd.task.loader with
          | none => exact absurd (fun _ => hld) hl
          | some l => exact ⟨n, nd, l, hn, hld, by unfold nodeStep; simp only [hpc, hld]⟩
    | none =>
      simp only [hc] at q ⊢
      refine Or.inl ⟨q, ?_⟩
      repeat' split
      all_goals exact ⟨rfl, rfl, fun x h => by first | exact h | (simp at h)⟩
  · exact Or.inr hld

/-! ### every step -/

theorem TgtInv.quiet {inp : Input} {s s' : Sys} (h : TgtInv inp s) (hne : NoErr s) (q : Quiet s s')
    (ht : s'.targets = s.targets) (hg : s'.gtasks = s.gtasks) (hnf : ∀ x, s'.susp ≠ .err (.notFound x)) :
    TgtInv inp s' :=
  ⟨fun x hx => absurd hx (hnf x), fun _ => (h.ok hne).quiet q ht hg⟩

theorem tgt_step {inp : Input} {s s' : Sys} {c : Choice} (h : TgtInv inp s) (hs : step inp s c = some s') :
    TgtInv inp s' := by
  have hne : NoErr s := fun e he => step_err_none he hs
  cases c with
  | tick perm =>
    simp only [step] at hs
    cases hsu : s.susp with
    | running =>
      simp only [hsu] at hs; cases hs
      rcases dtick_cases' inp s with ⟨q, c⟩ | ⟨n, nd, l, hn, hl, heq⟩
      · exact h.quiet hne q c.1 c.2.1 (fun x hx => hne _ (c.2.2 x hx))
      · rw [heq]; exact tgt_loaderStep (h.ok hne) hne hn hl
    | yielded n =>
      simp only [hsu] at hs
      have c := calm_selectStep hs
      exact h.quiet hne (quiet_selectStep hs) c.1 c.2.1 c.2.2
    | idle => simp [hsu] at hs
    | holdOn => simp [hsu] at hs
    | stopIter => simp [hsu] at hs
    | err e => simp [hsu] at hs
  | resume =>
    simp only [step] at hs
    split at hs
    · cases hs
      exact h.quiet hne (Quiet.of_eq rfl rfl rfl rfl rfl) rfl rfl (fun x e => by cases e)
    · cases hs
  | finish n perm =>
    have c := calm_finishStep hs
    exact h.quiet hne (quiet_finishStep hs) c.1 c.2.1 (fun x hx => hne _ (c.2.2 x hx))

/-- a task of the initial table that belongs to a regex group still carries its loader and has the word as file_dep -/
def RxWF (inp : Input) : Prop :=
  ∀ n td g, lookup0 inp.tasks0 n = some td → td.rx = some g → td.loader ≠ none ∧ inp.gtarget g ∈ td.fileDep

theorem rxWF_of_bool {inp : Input} (h : rxB inp = true) : RxWF inp := by
  intro n td g hn hg
  have hm := lookup0_mem _ _ _ hn
  unfold rxB at h
  rw [List.all_eq_true] at h
  have := h _ hm
  simp only [hg, Bool.and_eq_true, List.contains_iff_mem] at this
  refine ⟨fun e => ?_, this.2⟩
  rw [e] at this; simp at this

theorem tgt_init {inp : Input} (wf : RxWF inp) : TgtInv inp (init inp) :=
  ⟨fun x hx => by simp [init] at hx,
   fun _ => ⟨fun n td g hn hg => ⟨fun _ => (wf n td g hn hg).2, fun hl => absurd hl (wf n td g hn hg).1⟩,
             fun n nd g hn _ => by simp [init] at hn⟩⟩

theorem tgt_reach {inp : Input} (wf : RxWF inp) {s : Sys} (hr : Reach inp s) : TgtInv inp s := by
  induction hr with
  | init => exact tgt_init wf
  | next _ hs ih => exact tgt_step ih hs

end DoitModel.Delayed
