import DoitModel.Proofs.RunSys
/-! # The serial runner preserves `Inv2`; every reachable state of the serial system satisfies it -/
namespace DoitModel.Run

theorem init_inv2 (inp : RunInput) : Inv2 inp (init inp) := by
  constructor
  · constructor
    · intro n nd hn; simp [init] at hn
    · intro r hr; simp [init] at hr
    · intro n nd hc; simp [init] at hc
    · intro n hs; simp [init] at hs
    · simp [init]
    · intro r hr; simp [init] at hr
    · intro n hc; simp [init] at hc
    · intro r hr; simp [init] at hr
    · intro n nd hn; simp [init] at hn
  · intro p hp
    unfold init sentBack at hp
    by_cases hrn : inp.runner = .serial <;> simp [hrn] at hp
  · intro _ n nd hs; simp [init] at hs
  · intro n hn
    rcases hn with a | ⟨ret, a⟩
    · simp [init] at a
    · simp only [init] at a; split at a <;> cases a
  · intro d; simp [stOf, init]
  · trivial
  · intro n deps hm; simp [init] at hm
  · intro n hn; simp only [init] at hn; split at hn <;> cases hn

/-- only the runner's program counter / bookkeeping changes -/
theorem inv2_rpc {inp : RunInput} {s s' : Sys} (h : Inv2 inp s) (e1 : s'.nodes = s.nodes)
    (e2 : s'.ready = s.ready) (e3 : s'.waiting = s.waiting) (e4 : s'.cur = s.cur) (e5 : s'.susp = s.susp)
    (e6 : s'.events = s.events) (e7 : s'.jobQ = s.jobQ)
    (hsb : sentBack s' = none) (haw : ¬ awaiting s') (hf1 : ∀ n ret, s'.rpc ≠ .gRet (.task n) ret)
    (hx : ∀ n, s'.rpc ≠ .sExec n) : Inv2 inp s' := by
  refine h.outer e1 e2 e3 e4 e5 [] (by simpa using e6) (by simpa using h.ord) (by simp) ?_ (fun a => absurd a haw) ?_
    (fun n a => absurd a (hx n))
  · intro p hp; rw [hsb] at hp; cases hp
  · intro n hn
    rcases hn with a | ⟨ret, a⟩
    · rw [e6]; exact h.f1 n (Or.inl (e7 ▸ a))
    · exact absurd a (hf1 n ret)

theorem inv2_raise {inp : RunInput} {s : Sys} (h : Inv2 inp s) (hl : Halt) : Inv2 inp (raise s hl) := by
  refine inv2_rpc h rfl rfl rfl rfl rfl rfl rfl rfl ?_ ?_ ?_
  · intro a; rcases a with a | ⟨r, a⟩ <;> cases a
  · intro n ret a; cases a
  · intro n a; cases a

theorem teardown_plain (l : List Name) :
    ∀ e ∈ Ev.complete :: l.map Ev.teardown, match e with | .go _ _ => False | .start _ _ => False | _ => True := by
  intro e he
  simp only [List.mem_cons, List.mem_map] at he
  rcases he with rfl | ⟨a, _, rfl⟩ <;> trivial

theorem inv2_finishRun {inp : RunInput} {s : Sys} (h : Inv2 inp s) : Inv2 inp (finishRun s) := by
  refine h.outer rfl rfl rfl rfl rfl (Ev.complete :: s.tdown.map Ev.teardown) (by simp [finishRun])
    (OrdOK_append_plain h.ord (teardown_plain _)) ?_ ?_ ?_ ?_ ?_
  · intro n deps hm
    simp only [List.mem_cons, List.mem_map] at hm
    rcases hm with a | ⟨x, _, a⟩ <;> cases a
  · intro p hp; simp [finishRun, sentBack] at hp
  · intro a; rcases a with a | ⟨r, a⟩ <;> cases a
  · intro n hn
    rcases hn with a | ⟨ret, a⟩
    · obtain ⟨deps, hd⟩ := h.f1 n (Or.inl a)
      exact ⟨deps, by simp [finishRun, hd]⟩
    · cases a
  · intro n a; cases a

theorem serialStep_inv2 {inp : RunInput} {s s' : Sys} {perm : List Name} (h : Inv2 inp s)
    (hs : serialStep inp s perm = some s') : Inv2 inp s' := by
  unfold serialStep at hs
  cases hr : s.rpc with
  | sTop node =>
    simp only [hr] at hs
    split at hs
    · cases hs
      refine inv2_rpc h rfl rfl rfl rfl rfl rfl rfl rfl ?_ ?_ ?_
      · intro a; rcases a with a | ⟨r, a⟩ <;> cases a
      · intro n ret a; cases a
      · intro n a; cases a
    · cases hsd : send inp s node perm with
      | none => simp only [hsd] at hs; cases hs
      | some s0 =>
        simp only [hsd] at hs; cases hs
        exact inv2_send .sWait h (by simp [sentBack, hr]) hsd rfl (fun n ret a => by cases a) (fun n a => by cases a)
  | sWait =>
    simp only [hr] at hs
    have haw : awaiting s := Or.inl hr
    cases hsu : s.susp with
    | none => simp only [hsu] at hs; exact inv2_dtick h hsu hs
    | some o =>
      simp only [hsu] at hs
      cases o with
      | init => cases hs
      | node n =>
        simp only [] at hs
        cases hn : s.nodes n with
        | none => simp only [hn] at hs; cases hs; exact inv2_raise h _
        | some nd =>
          simp only [hn] at hs
          have key : ∀ (hd : selDecision inp n nd ≠ .assertFail) (hg : selDecision inp n nd ≠ .go),
              Inv2 inp { applySel inp s n nd (selDecision inp n nd) with rpc := .sTop (some n) } := by
            intro hd hg
            refine inv2_select _ h haw hsu hn hd ?_ ?_ ?_ ?_
            · intro p hp; simp only [sentBack, Option.some.injEq] at hp; exact hp.symm
            · intro a; rcases a with a | ⟨r, a⟩ <;> cases a
            · intro m ret a; cases a
            · intro m a; cases a
          cases hd : selDecision inp n nd with
          | go =>
            simp only [hd] at hs; cases hs
            have h1 : Inv2 inp { applySel inp s n nd (selDecision inp n nd) with rpc := .sExec n } := by
              refine inv2_select _ h haw hsu hn (by rw [hd]; simp) ?_ ?_ ?_ ?_
              · intro p hp; simp [sentBack] at hp
              · intro a; rcases a with a | ⟨r, a⟩ <;> cases a
              · intro m ret a; cases a
              · intro m a; cases a; exact ⟨rfl, hd⟩
            rw [hd] at h1
            refine h1.outer rfl rfl rfl rfl rfl
              (if inp.runner = .process then [Ev.start n 0] else [Ev.start n 0, Ev.execute n]) ?_ ?_ ?_ ?_
              (fun a => a) ?_ ?_
            · simp only [startTask]; split <;> simp
            · have hgo : ∃ deps, Ev.go n deps ∈ (applySel inp s n nd .go).events :=
                ⟨allDeps inp n nd, by simp [applySel]⟩
              split
              · exact ⟨hgo, h1.ord⟩
              · exact ⟨by obtain ⟨deps, hd'⟩ := hgo; exact ⟨deps, by simp [hd']⟩, trivial, h1.ord⟩
            · intro m deps hm; split at hm <;> simp at hm
            · intro p hp; simp [sentBack] at hp
            · intro m hm
              rcases hm with a | ⟨ret, a⟩
              · obtain ⟨deps, hd'⟩ := h1.f1 m (Or.inl a)
                exact ⟨deps, by simp only [startTask]; split <;> simp [hd']⟩
              · cases a
            · intro m a; exact h1.x m a
          | assertFail => simp only [hd] at hs; cases hs; exact inv2_raise h _
          | skipIgn => simp only [hd] at hs; cases hs; have := key (by simp [hd]) (by simp [hd]); rwa [hd] at this
          | unmet => simp only [hd] at hs; cases hs; have := key (by simp [hd]) (by simp [hd]); rwa [hd] at this
          | depErr => simp only [hd] at hs; cases hs; have := key (by simp [hd]) (by simp [hd]); rwa [hd] at this
          | utd => simp only [hd] at hs; cases hs; have := key (by simp [hd]) (by simp [hd]); rwa [hd] at this
          | runFirst => simp only [hd] at hs; cases hs; have := key (by simp [hd]) (by simp [hd]); rwa [hd] at this
          | argsErr => simp only [hd] at hs; cases hs; have := key (by simp [hd]) (by simp [hd]); rwa [hd] at this
      | stopIter =>
        cases hs
        refine inv2_rpc h rfl rfl rfl rfl (by simp [hsu]) rfl rfl rfl ?_ ?_ ?_
        · intro a; rcases a with a | ⟨r, a⟩ <;> cases a
        · intro n ret a; cases a
        · intro n a; cases a
      | holdOn => cases hs; exact inv2_raise h _
      | cyclic n => cases hs; exact inv2_raise h _
      | crash => cases hs; exact inv2_raise h _
  | sExec n =>
    simp only [hr] at hs
    cases hn : s.nodes n with
    | none => simp only [hn] at hs; cases hs; exact inv2_raise h _
    | some nd =>
      simp only [hn] at hs; cases hs
      have hrun : nd.status = .run := by have := h.x n hr; simpa [stOf, hn] using this
      have h1 : Inv2 inp { s with rpc := .sExec n, events := Ev.fin n 0 :: s.events } := by
        refine h.outer rfl rfl rfl rfl rfl [Ev.fin n 0] rfl ⟨trivial, h.ord⟩ (by simp) ?_ ?_ ?_ ?_
        · intro p hp; simp [sentBack] at hp
        · intro a; rcases a with a | ⟨r, a⟩ <;> cases a
        · intro m hm
          rcases hm with a | ⟨ret, a⟩
          · obtain ⟨deps, hd'⟩ := h.f1 m (Or.inl a)
            exact ⟨deps, by simp [hd']⟩
          · cases a
        · intro m a; cases a; exact h.x n hr
      refine inv2_result _ h1 hn hrun ?_ ?_ ?_ ?_
      · intro p hp; simp only [sentBack, Option.some.injEq] at hp; exact hp.symm
      · intro a; rcases a with a | ⟨r, a⟩ <;> cases a
      · intro m ret a; cases a
      · intro m a; cases a
  | fin => simp only [hr] at hs; cases hs; exact inv2_finishRun h
  | gEntry a b => simp only [hr] at hs; cases hs
  | gLoop a b => simp only [hr] at hs; cases hs
  | gWait a => simp only [hr] at hs; cases hs
  | gRet a b => simp only [hr] at hs; cases hs
  | pTop => simp only [hr] at hs; cases hs
  | pJoin => simp only [hr] at hs; cases hs
  | halted => simp only [hr] at hs; cases hs

theorem reach_inv2 {inp : RunInput} {s : Sys} (h : Reach inp s) : Inv2 inp s := by
  induction h with
  | init => exact init_inv2 inp
  | @next s0 s1 c _ hs ih =>
    cases c with
    | main perm => exact serialStep_inv2 ih hs
    | take w => cases hs
    | done w => cases hs

end DoitModel.Run
