import DoitModel.Proofs.C08Conf11
/-! # C08 (I10), closure, part 2c: at a complete end of a run (normal end, not stopped, no exception) the reported
    tasks are exactly the denotational closure `DenCl` of the selection -/
namespace DoitModel.Run

/-- what the liveness invariants give at a complete end -/
structure EndFacts (inp : RunInput) (s : Sys) : Prop where
  allDone : ∀ k x, s.nodes k = some x → x.pc = .done
  notNone : ∀ k x, s.nodes k = some x → x.status ≠ .none
  rep : ∀ t, created s t → cTerm s t = 1
  sel : ∀ t ∈ inp.sel, created s t
  dep : ∀ t nd, s.nodes t = some nd → ∀ d ∈ nd.dynTask, created s d

theorem endFacts_serial {inp : RunInput} {s : Sys} (hr : Reach inp s) (hh : s.rpc = .halted)
    (hhalt : s.halt = .none) (hstop : s.stop = false) : EndFacts inp s := by
  have hL := reach_invL hr
  have h2 := reach_inv2 hr
  have h3 := reach_inv3 hr
  have hsu : s.susp = some .stopIter := hL.a8 (Or.inr hh) hhalt hstop
  obtain ⟨q1, q2, q3, q4⟩ := hL.d.a7 hsu
  have allDone : ∀ k x, s.nodes k = some x → x.pc = .done := by
    intro k x hx
    cases hpc : x.pc with
    | done => rfl
    | _ =>
      have := hL.d.a2 k x hx (by rw [hpc]; simp)
      rw [q1, q2, q4] at this
      rcases this with a | a | a <;> cases a
  have notNone : ∀ k x, s.nodes k = some x → x.status ≠ .none := by
    intro k x hx e
    have := (hL.a4 k x hx (by rw [allDone k x hx]; rfl) e).1
    rw [hsu] at this; cases this
  refine ⟨allDone, notNone, ?_, ?_, ?_⟩
  · intro t ⟨x, hx⟩
    have hpc := allDone t x hx
    have hne := notNone t x hx
    have hnr : x.status ≠ .run := by
      intro e
      rcases hL.a5 t x hx e with a | ⟨_, _, a | ⟨a, _⟩⟩
      · rw [hh] at a; cases a
      · rw [hpc] at a; cases a
      · rw [hpc] at a; cases a
    have hfin : (stOf s t).finished = true := by
      simp only [stOf, hx]
      cases hs : x.status <;> simp_all [RS.finished]
    have := hL.a6 t hfin
    have := h3.t2 t
    omega
  · intro t hm
    rcases hL.d.a3 _ hm with a | a
    · rw [q3] at a; cases a
    · exact a
  · intro t nd hn d hd
    have hpc := allDone t nd hn
    have hm := (h2.inv1.node t nd hn).m1 (by rw [hpc]; rfl)
    rcases (hL.d.a1 t nd hn).t d hd with a | ⟨⟨_, a⟩, _⟩ | ⟨_, a, _⟩ | a
    · rw [hm.1] at a; cases a
    · rw [hpc] at a; cases a
    · rw [hpc] at a; cases a
    · exact a

theorem endFacts_parallel {inp : RunInput} {s : Sys} (hr : PReach inp s) (hh : s.rpc = .halted)
    (hhalt : s.halt = .none) (hstop : s.stop = false) : EndFacts inp s := by
  have hP := preach_invP hr
  obtain ⟨h2, h3⟩ := preach_inv hr
  obtain ⟨hsu, hq⟩ := parallel_end_quiescent hr hh hhalt hstop
  obtain ⟨q1, q2, q3, q4⟩ := hP.d.a7 hsu
  have allDone : ∀ k x, s.nodes k = some x → x.pc = .done := by
    intro k x hx
    cases hpc : x.pc with
    | done => rfl
    | _ =>
      have := hP.d.a2 k x hx (by rw [hpc]; simp)
      rw [q1, q2, q4] at this
      rcases this with a | a | a <;> cases a
  have notNone : ∀ k x, s.nodes k = some x → x.status ≠ .none := by
    intro k x hx e
    have := (hP.a4 k x hx (by rw [allDone k x hx]; rfl) e).1
    rw [hsu] at this; cases this
  refine ⟨allDone, notNone, ?_, ?_, ?_⟩
  · intro t ⟨x, hx⟩
    have hpc := allDone t x hx
    have hne := notNone t x hx
    have hnr : x.status ≠ .run := by
      intro e
      rcases hP.a5 t x hx e with a | ⟨_, _, a | ⟨a, _⟩⟩
      · exact hq t a
      · rw [hpc] at a; cases a
      · rw [hpc] at a; cases a
    have hfin : (stOf s t).finished = true := by
      simp only [stOf, hx]
      cases hs : x.status <;> simp_all [RS.finished]
    have := hP.a6 t hfin
    have := h3.t2 t
    omega
  · intro t hm
    rcases hP.d.a3 _ hm with a | a
    · rw [q3] at a; cases a
    · exact a
  · intro t nd hn d hd
    have hpc := allDone t nd hn
    have hm := (h2.inv1.node t nd hn).m1 (by rw [hpc]; rfl)
    rcases (hP.d.a1 t nd hn).t d hd with a | ⟨⟨_, a⟩, _⟩ | ⟨_, a, _⟩ | a
    · rw [hm.1] at a; cases a
    · rw [hpc] at a; cases a
    · rw [hpc] at a; cases a
    · exact a

/-- at a complete end every member of the denotational closure has been reported -/
theorem closure_reported {inp : RunInput} [NoFailDeliver inp] {s : Sys} (hnc : NoCalc inp) (hr : Reach inp s ∨ PReach inp s)
    (hend : s.rpc = .halted) (hhalt : s.halt = .none) (hstop : s.stop = false) (t : Name) (h : DenCl inp t) :
    Reported s t := by
  have hE : EndFacts inp s := by
    rcases hr with a | a
    · exact endFacts_serial a hend hhalt hstop
    · exact endFacts_parallel a hend hhalt hstop
  have hP2 : InvP2 inp s := by rcases hr with a | a; exact reach_invP2 hnc a; exact preach_invP2 hnc a
  have h2 : Inv2 inp s := by rcases hr with a | a; exact reach_inv2 a; exact (preach_inv a).1
  have mk : ∀ t, DenCl inp t → created s t := by
    intro t ht
    induction ht with
    | ofSel hm => exact hE.sel _ hm
    | @ofTask t d _ hd ih =>
      obtain ⟨nd, hn⟩ := ih
      exact hE.dep t nd hn d ((h2.inv1.node t nd hn).st.1 d hd)
    | @ofSetup t d _ hr1 hd ih =>
      obtain ⟨nd, hn⟩ := ih
      rcases (hP2 t nd hn).fin (hE.allDone t nd hn) (hE.notNone t nd hn) with a | a | a
      · rw [a] at hd; cases hd
      · exact absurd hr1 a
      · exact a d hd
  exact (reported_iff_cTerm s t).mpr (by have := hE.rep t (mk t h); omega)

/-- closure equality: at a complete end of a run — serial or parallel, any schedule — exactly the members of the
    denotational closure of the selection have a terminal report -/
theorem reported_iff_closure {inp : RunInput} [NoFailDeliver inp] {s : Sys} (hnc : NoCalc inp) (hr : Reach inp s ∨ PReach inp s)
    (hend : s.rpc = .halted) (hhalt : s.halt = .none) (hstop : s.stop = false) (t : Name) :
    Reported s t ↔ DenCl inp t :=
  ⟨reported_in_closure hnc hr t, closure_reported hnc hr hend hhalt hstop t⟩

end DoitModel.Run
