import DoitModel.Proofs.C11LazyStep
/-! # C11, laziness monitor: `monLazy` holds on the observable trace of every reachable state (bounded names) -/
namespace DoitModel.Run
open DoitModel.Report

/-- the invariant: every node's task is justified on the current trace, every list of a node holds what the closure
    reaches, the tasks still to be popped are justified; a task chosen for execution satisfies `ranFirst` -/
structure LM (inp : RunInput) (nT : Nat) (s : Sys) : Prop where
  sj : SJ inp (Just inp nT (trace inp s)) (Ds inp s) s
  rf : ∀ a, stOf s a = .run → ranFirst inp nT (trace inp s) a = true

theorem just_bnd {inp : RunInput} {n : Nat} (hb : BoundedP inp n) {tr : List Ev} {d : Name}
    (h : Just inp n tr d) : d < n := by
  induction h with
  | sel ht => exact hb.sel _ ht
  | step _ hd ih => exact succs_bnd hb tr ih _ hd

theorem crel_calcsAt {inp : RunInput} {n : Nat} (hb : BoundedP inp n) {s : Sys} (c : Ctx inp s) {t x : Name}
    (ht : t < n) (h : CRel inp (Ds inp s) t x) :
    x ∈ calcsAtF inp (trace inp s) n (inp.calcDep t) := by
  induction h with
  | base hc => exact calcsAtF_ext inp _ n _ _ hc
  | res _ hg hx ih =>
    exact calcsAtF_closed hb _ (hb.cd t ht) ih
      ((c.ds_resAt hb (calcsAtF_bnd hb _ n (hb.cd t ht) _ ih) hg).1 _ hx)

theorem jclosed {inp : RunInput} {n : Nat} (hb : BoundedP inp n) {s : Sys} (c : Ctx inp s) :
    JClosed inp (Just inp n (trace inp s)) (Ds inp s) := by
  constructor
  · intro t x ht hx
    refine .step ht ?_
    have := crel_calcsAt hb c (just_bnd hb ht) hx
    simp only [succs, List.mem_append]
    exact Or.inl (Or.inl (Or.inr this))
  · intro t x ht hx
    refine .step ht ?_
    simp only [succs, List.mem_append, List.mem_flatMap, List.mem_filter]
    cases hx with
    | task h => exact Or.inl (Or.inl (Or.inl h))
    | resT hp hg h =>
      have hm := crel_calcsAt hb c (just_bnd hb ht) hp
      have hpb := calcsAtF_bnd hb _ n (hb.cd t (just_bnd hb ht)) _ hm
      exact Or.inl (Or.inr ⟨_, hm, Or.inl ((c.ds_resAt hb hpb hg).2.1 _ h)⟩)
    | resF hp hg h =>
      have hm := crel_calcsAt hb c (just_bnd hb ht) hp
      have hpb := calcsAtF_bnd hb _ n (hb.cd t (just_bnd hb ht)) _ hm
      exact Or.inl (Or.inr ⟨_, hm, Or.inr ((c.ds_resAt hb hpb hg).2.2 _ h)⟩)

theorem hyp_of {inp : RunInput} {n : Nat} (hb : BoundedP inp n) {s : Sys} (c : Ctx inp s) (lm : LM inp n s) :
    Hyp inp (Just inp n (trace inp s)) (Ds inp s) s := by
  refine ⟨knowsD_ds inp s, jclosed hb c, ?_⟩
  intro t nd d ds _ hn hpc hnone
  have hnj := lm.sj.all t nd hn
  have hrun : stOf s t = .run := by
    have := c.lz t nd hn (by rw [hpc]; rfl)
    simp [stOf, hn, this]
  have hd : d ∈ inp.setup t := by
    have := hnj.pcl; rw [hpc] at this; exact this d (by simp)
  refine .step hnj.self ?_
  simp only [succs, List.mem_append, List.mem_filter]
  refine Or.inr ⟨hd, ?_⟩
  have h0 : stOf s d = .none := by simp [stOf, hnone]
  have hun := c.unmentioned h0
  have hf : firstMentionIdx (trace inp s) d = none := List.findIdx?_eq_none_iff.mpr hun
  unfold setupOK; rw [hf]
  unfold runPending
  simp only [Bool.and_eq_true, Bool.not_eq_true', List.contains_eq_mem, decide_eq_true_eq]
  exact ⟨⟨c.status_mention (by rw [hrun]; simp), c.run_noTerminal hrun⟩, lm.rf t hrun⟩

theorem CRel.mono {inp : RunInput} {G G' : Name → CalcRes → Prop} (hG : ∀ p r, G p r → G' p r) {n c : Name}
    (h : CRel inp G n c) : CRel inp G' n c := by
  induction h with
  | base hc => exact .base hc
  | res _ hg hx ih => exact .res ih (hG _ _ hg) hx

theorem TRel.mono {inp : RunInput} {G G' : Name → CalcRes → Prop} (hG : ∀ p r, G p r → G' p r) {n d : Name}
    (h : TRel inp G n d) : TRel inp G' n d := by
  cases h with
  | task h => exact .task h
  | resT hp hg h => exact .resT (hp.mono hG) (hG _ _ hg) h
  | resF hp hg h => exact .resF (hp.mono hG) (hG _ _ hg) h

theorem SJ.mono {inp : RunInput} {J J' : Name → Prop} {G G' : Name → CalcRes → Prop} {s : Sys}
    (hJ : ∀ x, J x → J' x) (hG : ∀ p r, G p r → G' p r)
    (h : SJ inp J G s) : SJ inp J' G' s := by
  refine ⟨?_, fun t ht => hJ t (h.tr t ht)⟩
  intro k y hk
  have a := h.all k y hk
  refine ⟨hJ k a.self, fun d hd => (a.dt d hd).mono hG, fun d hd => (a.dc d hd).mono hG,
    fun d hd => (a.pt d hd).mono hG, fun d hd => (a.pcalc d hd).mono hG, fun d hd => (a.st d hd).mono hG,
    fun d hd => (a.sc d hd).mono hG, fun d hd => (a.wc d hd).mono hG, ?_⟩
  have := a.pcl
  cases hpc : y.pc <;> rw [hpc] at this <;> simp only [pcJ] at this ⊢
  · exact fun d hd => (this d hd).mono hG
  · exact fun d hd => (this d hd).mono hG
  · exact this

theorem setupOK_getStatus {inp : RunInput} {n : Nat} {tr : List Ev} {t d : Name} (h : setupOK inp n tr t d = true) :
    Ev.getStatus t ∈ tr := by
  unfold setupOK at h
  split at h
  · unfold runPending at h
    simp only [Bool.and_eq_true, List.contains_eq_mem, decide_eq_true_eq] at h
    exact List.mem_of_mem_take h.1.1
  · unfold runPending at h
    simp only [Bool.and_eq_true, List.contains_eq_mem, decide_eq_true_eq] at h
    exact h.1.1

theorem init_lm (inp : RunInput) (nT : Nat) : LM inp nT (init inp) := by
  refine ⟨⟨fun k y hk => by simp [init] at hk, fun t ht => .sel ht⟩, ?_⟩
  intro a ha; simp [stOf, init] at ha

/-- one transition: `hsj` is the structural step of `Proofs/C11JustStep.lean` -/
theorem lm_step {inp : RunInput} {n : Nat} (hb : BoundedP inp n) {s s' : Sys} (c : Ctx inp s) (c' : Ctx inp s')
    (lm : LM inp n s) (sh : Shape inp s s')
    (hsj : ∀ J G, Hyp inp J G s → SJ inp J G s → SJ inp J G s') : LM inp n s' := by
  obtain ⟨⟨new, hev, hT⟩, gm, rf⟩ := stepInfo c n sh
  refine ⟨?_, rf lm.rf⟩
  have h1 := hsj _ _ (hyp_of hb c lm) lm.sj
  refine h1.mono ?_ gm
  intro x hx
  rw [trace_append hev]
  refine hx.mono (obsOf inp new) (resLe_step c' hev) ?_
  intro t d hd hok
  refine setupOK_stable hok _ ?_
  rintro ⟨e, he, ht⟩
  exact hT t d hd (setupOK_getStatus hok) ⟨e, (mem_obsOf.mp he).1, ht⟩

theorem reach_lm {inp : RunInput} {n : Nat} (hb : BoundedP inp n) (hser : inp.runner = .serial) {s : Sys}
    (h : Reach inp s) : LM inp n s := by
  induction h with
  | init => exact init_lm inp n
  | @next s0 s1 c hr hs ih =>
    cases c with
    | main perm =>
      have cx := reach_ctx hser hr
      exact lm_step hb cx (reach_ctx hser (Reach.next hr hs)) ih (serialStep_shape cx.h2 cx.h3 hs)
        (fun J G hy h => serialStep_sj hy h hs)
    | take w => cases hs
    | done w => cases hs

theorem preach_lm {inp : RunInput} {n : Nat} (hb : BoundedP inp n) (hpar : inp.runner ≠ .serial) {s : Sys}
    (h : PReach inp s) : LM inp n s := by
  induction h with
  | init => exact init_lm inp n
  | @next s0 s1 c hr hs ih =>
    have cx := preach_ctx hpar hr
    exact lm_step hb cx (preach_ctx hpar (PReach.next hr hs)) ih (pstep_shape cx.h2 cx.h3 hs)
      (fun J G hy h => pstep_sj hy h hs)

/-- the monitor from the invariant -/
theorem monLazy_of_lm {inp : RunInput} {n : Nat} (hb : BoundedP inp n) {s : Sys} (c : Ctx inp s) (lm : LM inp n s) :
    monLazy inp n (trace inp s) = true := by
  unfold monLazy
  simp only [List.all_eq_true, List.mem_range, Bool.or_eq_true, Bool.not_eq_true', List.contains_eq_mem,
    decide_eq_true_eq]
  intro d _
  cases hm : (trace inp s).any (Ev.mentions d) with
  | false => exact Or.inl rfl
  | true =>
    right
    obtain ⟨e, he, hme⟩ := List.any_eq_true.mp hm
    obtain ⟨h1, h2⟩ := mem_trace.mp he
    have hst := c.mention_status h1 hme h2
    cases hn : s.nodes d with
    | none => exact absurd (by simp [stOf, hn]) hst
    | some nd => exact just_mem_lazyIter hb _ (lm.sj.all d nd hn).self

theorem monLazy_init (inp : RunInput) (n : Nat) : monLazy inp n (trace inp (init inp)) = true := by
  unfold monLazy
  simp [trace, init]

end DoitModel.Run
