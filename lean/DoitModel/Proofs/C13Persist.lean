import DoitModel.Proofs.C13Ignore
import DoitModel.Proofs.C13Reset
/-! # C13 — while the configured checker does not change, every record was written by it; then `reset-dep` keeps
the ignore mark too -/
namespace DoitModel.Cmds
open DoitModel.Status

/-- no record was written by another checker than the configured one -/
def CkOk (s : St) : Prop := ∀ t, checkerChanged s.checker (s.rcd t) = false

theorem ckOk_empty (c : Checker) : checkerChanged c Rcd.empty = false := by simp [checkerChanged, Rcd.empty]

theorem erase_ckOk {s : St} (t : Name) (h : CkOk s) : CkOk (erase s t) := by
  intro k
  simp only [erase]
  by_cases hk : k = t
  · simp [hk, ckOk_empty]
  · simpa [hk] using h k

theorem peek_ckOk {s : St} (t : Name) (h : CkOk s) : CkOk (peek s t) := by
  unfold peek; split
  · exact erase_ckOk t h
  · exact h

theorem peek_eq_of_ckOk {s : St} (t : Name) (h : CkOk s) : peek s t = s := by
  unfold peek removesRecord
  simp [h t]

theorem applyWrites_ckOk {s : St} (ws : List (Path × Nat × Nat)) (h : CkOk s) : CkOk (applyWrites s ws) := by
  obtain ⟨h1, _, h3, _⟩ := applyWrites_frame ws s
  intro k; unfold CkOk at h; rw [h1, h3]; exact h k

theorem saveSuccess_checker {c : Checker} {deps : List Path} {r0 r : Rcd} {fs : FS} {vals : Values} {res : Option Res}
    (h : saveSuccess c deps r0 fs vals res = .ok r) : r.checker = some c ∧ r.ign = r0.ign := by
  unfold saveSuccess at h
  split at h
  · cases h
  · split at h
    · cases h
    · injection h with h; subst h; exact ⟨rfl, rfl⟩

theorem commit_ckOk {s : St} (t : Name) (r : Rcd) (e : Exec) (h : CkOk s) (hr : r.checker = some s.checker) :
    CkOk (commit s t r e) := by
  intro k
  simp only [commit]
  by_cases hk : k = t
  · simp [hk, checkerChanged, hr]
  · simpa [hk] using h k

theorem finish_ckOk {s : St} (t : Name) (ok : Bool) (res : Option Res) (h : CkOk s) : CkOk (finish s t ok res) := by
  unfold finish
  split
  · cases hs : saveSuccess s.checker (s.defs t).deps (s.rcd t) s.fs (newValues (s.defs t) s.resOf) res with
    | ok r => exact commit_ckOk t r _ h (saveSuccess_checker hs).1
    | missing => exact erase_ckOk t h
    | crash => exact h
  · exact erase_ckOk t h

theorem runOne_ckOk (fixed always : Bool) (g : Graph) (plan : Name → Plan) (rs : RunSt) (t : Name) (h : CkOk rs.s) :
    CkOk (runOne fixed always g plan rs t).s := by
  unfold runOne
  split
  · exact h
  · split
    · exact erase_ckOk t h
    · cases hst : rs.s.status true t with
      | crash => exact h
      | error => exact erase_ckOk t h
      | upToDate =>
        simp only
        split
        · unfold afterSetup
          split
          · exact h
          · split
            · exact erase_ckOk t h
            · exact finish_ckOk t _ _ (applyWrites_ckOk _ h)
        · exact h
      | run =>
        simp only
        unfold afterSetup
        split
        · exact peek_ckOk t h
        · split
          · exact erase_ckOk t (peek_ckOk t h)
          · exact finish_ckOk t _ _ (applyWrites_ckOk _ (peek_ckOk t h))

theorem runAll_ckOk (fixed always : Bool) (g : Graph) (plan : Name → Plan) (order : List Name) (rs : RunSt)
    (h : CkOk rs.s) : CkOk (order.foldl (runOne fixed always g plan) rs).s := by
  induction order generalizing rs with
  | nil => exact h
  | cons k ks ih => exact ih _ (runOne_ckOk fixed always g plan rs k h)

theorem resetDep_ckOk {s : St} (t : Name) (h : CkOk s) : CkOk (resetDep true s t) := by
  unfold resetDep
  split
  · exact h
  · cases s.status true t with
    | crash => exact h
    | error => exact h
    | upToDate => exact h
    | run =>
      simp only
      cases hs : saveSuccess s.checker (s.defs t).deps ((peek s t).rcd t) s.fs (s.rcd t).getValues (s.rcd t).result with
      | ok r => exact commit_ckOk t r _ h (saveSuccess_checker hs).1
      | missing => exact h
      | crash => exact h

/-- under `CkOk`, `reset-dep` keeps the mark -/
theorem resetDep_keeps_ign {s : St} (k T : Name) (h : CkOk s) (hi : (s.rcd T).ign = true) :
    ((resetDep true s k).rcd T).ign = true := by
  by_cases hk : T = k
  · subst hk
    unfold resetDep
    split
    · exact hi
    · cases s.status true T with
      | crash => exact hi
      | error => exact hi
      | upToDate => exact hi
      | run =>
        simp only
        cases hs : saveSuccess s.checker (s.defs T).deps ((peek s T).rcd T) s.fs (s.rcd T).getValues (s.rcd T).result with
        | ok r =>
          simp only [commit, if_true]
          rw [(saveSuccess_checker hs).2, peek_eq_of_ckOk T h]; exact hi
        | missing => exact hi
        | crash => exact hi
  · rw [resetDep_frame s k T hk]; exact hi

theorem resetList_keeps (l : List Name) (s : St) (T : Name) (h : CkOk s) (hi : (s.rcd T).ign = true) :
    CkOk (resetList s l) ∧ ((resetList s l).rcd T).ign = true := by
  induction l generalizing s with
  | nil => exact ⟨h, hi⟩
  | cons a as ih =>
    simp only [resetList, List.foldl_cons] at ih ⊢
    exact ih _ (resetDep_ckOk a h) (resetDep_keeps_ign a T h hi)

theorem resetList_ckOk (l : List Name) (s : St) (h : CkOk s) : CkOk (resetList s l) := by
  induction l generalizing s with
  | nil => exact h
  | cons a as ih =>
    simp only [resetList, List.foldl_cons] at ih ⊢
    exact ih _ (resetDep_ckOk a h)

theorem eraseList_ckOk (l : List Name) (s : St) (h : CkOk s) : CkOk (eraseList s l) := by
  induction l generalizing s with
  | nil => exact h
  | cons a as ih =>
    simp only [eraseList, List.foldl_cons] at ih ⊢
    exact ih _ (erase_ckOk a h)

theorem ignList_ckOk (l : List Name) (s : St) (h : CkOk s) : CkOk (ignList s l) := by
  intro k
  rw [(ignList_frame l s).2.2, ignList_rcd]
  split
  · have := h k; simpa [checkerChanged] using this
  · exact h k

theorem stepC_ckOk (g : Graph) (s : St) (op : COp) (hop : ∀ c, op ≠ .checker c) (h : CkOk s) : CkOk (stepC true g s op) := by
  cases op with
  | edit p sz c => simp only [stepC, step]; split <;> (intro k; simpa [writeFile] using h k)
  | touch p => simp only [stepC, step]; split <;> (intro k; simpa using h k)
  | delete p => simp only [stepC, step]; split <;> (intro k; simpa using h k)
  | checker c => exact absurd rfl (hop c)
  | forget a dflt =>
    simp only [stepC, forgetCmd]
    split
    · exact eraseList_ckOk _ s h
    · intro k; simp [eraseAll, ckOk_empty]
    all_goals exact h
  | ignore names =>
    simp only [stepC, ignoreCmd]
    split
    · exact ignList_ckOk _ s h
    all_goals exact h
  | reset names =>
    simp only [stepC, resetCmd]
    split
    · rename_i l _
      exact resetList_ckOk l s h
    all_goals exact h
  | run order always plan => simp only [stepC]; exact runAll_ckOk true always g plan order _ h

end DoitModel.Cmds
