import DoitModel.Model.ReportText
/-! Lemmas about the text-reporter model (`Model/ReportText.lean`) used by `Props/C19.lean`. -/
namespace DoitModel.ReportText

theorem filterMap_flatMap_nil {α β γ} (f : β → Option γ) (g : α → List β) (l : List α)
    (h : ∀ x, (g x).filterMap f = []) : (l.flatMap g).filterMap f = [] := by
  induction l with
  | nil => rfl
  | cons a l ih => simp [List.flatMap_cons, List.filterMap_append, h, ih]

theorem filter_flatMap_id {α β} (p : β → Bool) (g : α → List β) (l : List α)
    (h : ∀ x, (g x).filter p = g x) : (l.flatMap g).filter p = l.flatMap g := by
  induction l with
  | nil => rfl
  | cons a l ih => simp [List.flatMap_cons, List.filter_append, h, ih]

theorem block_progress (fv tk p) : (block fv tk p).filterMap Line.progress = [] := by
  unfold block errPart
  repeat' split
  all_goals simp [Line.progress]

theorem block_hdr (fv tk p) : (block fv tk p).filterMap Line.hdr = [] := by
  unfold block errPart
  repeat' split
  all_goals simp [Line.hdr]

theorem block_noskip (fv tk p) : (block fv tk p).filter (fun l => !l.isSkip) = block fv tk p := by
  unfold block errPart
  repeat' split
  all_goals simp [Line.isSkip]

theorem summary_progress (fv tk s) : (summary fv tk s).filterMap Line.progress = [] := by
  unfold summary trailer
  rw [List.filterMap_append, filterMap_flatMap_nil _ _ _ (block_progress fv tk)]
  split <;> simp [Line.progress]

theorem summary_hdr (fv tk s) : (summary fv tk s).filterMap Line.hdr = [] := by
  unfold summary trailer
  rw [List.filterMap_append, filterMap_flatMap_nil _ _ _ (block_hdr fv tk)]
  split <;> simp [Line.hdr]

theorem summary_noskip (fv tk s) : (summary fv tk s).filter (fun l => !l.isSkip) = summary fv tk s := by
  unfold summary trailer
  rw [List.filter_append, filter_flatMap_id _ _ _ (block_noskip fv tk)]
  split <;> simp [Line.isSkip]

/-! #### progress lines -/

theorem step_progress (fv tk) (s : St) (c : RCall) :
    decodeProgress (step .console fv tk s c).out = decodeProgress s.out ++ (c.happened tk).toList := by
  cases c
  case execute t =>
    cases h : (tk t).visibleExec <;> simp [step, isCon, St.put, decodeProgress, RCall.happened, h, Line.progress]
  all_goals simp only [step, isCon, St.put, decodeProgress, RCall.happened]
  all_goals first
    | (split <;> simp_all [Line.progress, summary_progress, decodeProgress])
    | simp_all [Line.progress, summary_progress, decodeProgress]

theorem run_progress (fv tk) (cs : List RCall) (s : St) :
    decodeProgress (cs.foldl (step .console fv tk) s).out = decodeProgress s.out ++ cs.filterMap (RCall.happened tk) := by
  induction cs generalizing s with
  | nil => simp
  | cons c cs ih =>
    rw [List.foldl_cons, ih, step_progress, List.filterMap_cons]
    cases RCall.happened tk c <;> simp

/-! #### failures -/

theorem step_failures (c : Cls) (hc : isCon c = true) (fv tk) (s : St) (r : RCall) :
    (step c fv tk s r).failures = s.failures ++ r.reported.toList ∧
    (step c fv tk s r).out.filterMap Line.hdr = s.out.filterMap Line.hdr ++ r.reported.toList := by
  cases r <;> simp only [step, hc, St.put, RCall.reported]
  all_goals (try split) <;> simp_all [Line.hdr, summary_hdr]

theorem run_failures (c : Cls) (hc : isCon c = true) (fv tk) (cs : List RCall) (s : St) :
    (cs.foldl (step c fv tk) s).failures = s.failures ++ cs.filterMap RCall.reported ∧
    (cs.foldl (step c fv tk) s).out.filterMap Line.hdr = s.out.filterMap Line.hdr ++ cs.filterMap RCall.reported := by
  induction cs generalizing s with
  | nil => simp
  | cons r cs ih =>
    rw [List.foldl_cons, (ih _).1, (ih _).2, (step_failures c hc fv tk s r).1, (step_failures c hc fv tk s r).2,
      List.filterMap_cons]
    cases RCall.reported r <;> simp

theorem decodeBlocks_block (fv tk p) (rest : List Line) :
    decodeBlocks (block fv tk p ++ rest) = (if shown fv tk p then [p.1] else []) ++ decodeBlocks rest := by
  unfold block errPart shown
  repeat' split
  all_goals simp_all [decodeBlocks]

theorem decodeBlocks_blocks (fv tk) (l : List (Nat × Fail)) (rest : List Line) :
    decodeBlocks (l.flatMap (block fv tk) ++ rest) = ((l.filter (shown fv tk)).map (·.1)) ++ decodeBlocks rest := by
  induction l with
  | nil => simp
  | cons p l ih =>
    rw [List.flatMap_cons, List.append_assoc, decodeBlocks_block, ih, List.filter_cons]
    split <;> simp

theorem decodeBlocks_trailer (rt) : decodeBlocks (trailer rt) = [] := by
  unfold trailer; split <;> simp [decodeBlocks]

theorem decodeBlocks_summary (fv tk) (s : St) :
    decodeBlocks (summary fv tk s) = (s.failures.filter (shown fv tk)).map (·.1) := by
  unfold summary
  rw [decodeBlocks_blocks, decodeBlocks_trailer, List.append_nil]

/-! #### ExecutedOnlyReporter = ConsoleReporter minus the skip lines -/

structure EoRel (a b : St) : Prop where
  out : b.out = a.out.filter (fun l => !l.isSkip)
  failures : b.failures = a.failures
  rt : b.rtErrs = a.rtErrs
  err : b.err = a.err

theorem step_eo (fv tk) (a b : St) (h : EoRel a b) (r : RCall) :
    EoRel (step .console fv tk a r) (step .executedOnly fv tk b r) := by
  obtain ⟨h1, h2, h3, h4⟩ := h
  have hs : summary fv tk b = summary fv tk a := by unfold summary; rw [h2, h3]
  cases r
  case execute t =>
    cases h : (tk t).visibleExec <;> constructor <;>
      simp_all [step, isCon, St.put, Line.isSkip, List.filter_append]
  case complete =>
    constructor <;> simp [step, isCon, St.put, h1, h2, h3, h4, hs, List.filter_append, summary_noskip]
  all_goals simp only [step, isCon, St.put]
  all_goals first
    | (split <;> constructor <;> simp_all [Line.isSkip, List.filter_append, summary_noskip])
    | (constructor <;> simp_all [Line.isSkip, List.filter_append, summary_noskip])

theorem run_eo (fv tk) (cs : List RCall) (a b : St) (h : EoRel a b) :
    EoRel (cs.foldl (step .console fv tk) a) (cs.foldl (step .executedOnly fv tk) b) := by
  induction cs generalizing a b with
  | nil => exact h
  | cons r cs ih => exact ih _ _ (step_eo fv tk a b h r)

/-! #### Zero / ErrorOnly -/

theorem step_zero (c : Cls) (hc : isCon c = false) (fv tk) (s : St) (r : RCall) :
    (step c fv tk s r).err = s.err ++ (r.stderrMsg c).toList ∧
    (step c fv tk s r).failures = s.failures ∧ (step c fv tk s r).rtErrs = s.rtErrs ∧
    (step c fv tk s r).out = s.out ++
      (if c = .errorOnly then (match r.reported with | some (t, f) => [Line.eoHdr t f, Line.failMsg f] | none => []) else []) := by
  have hk : c ≠ .console := by intro h; subst h; simp [isCon] at hc
  cases r <;> simp only [step, hc, St.put, RCall.stderrMsg, RCall.reported]
  all_goals (try split) <;> simp_all [isCon]
  all_goals (try split) <;> simp_all

theorem run_zero (c : Cls) (hc : isCon c = false) (fv tk) (cs : List RCall) (s : St) :
    (cs.foldl (step c fv tk) s).err = s.err ++ cs.filterMap (RCall.stderrMsg c) ∧
    (cs.foldl (step c fv tk) s).out = s.out ++
      (if c = .errorOnly then (cs.filterMap RCall.reported).flatMap (fun p => [Line.eoHdr p.1 p.2, Line.failMsg p.2])
       else []) := by
  induction cs generalizing s with
  | nil => simp
  | cons r cs ih =>
    have h := step_zero c hc fv tk s r
    rw [List.foldl_cons, (ih _).1, (ih _).2, h.1, h.2.2.2, List.filterMap_cons, List.filterMap_cons]
    constructor
    · cases RCall.stderrMsg c r <;> simp
    · by_cases he : c = .errorOnly
      · simp only [he, if_true]
        cases hr : RCall.reported r with
        | none => simp
        | some p => obtain ⟨t, f⟩ := p; simp
      · simp [he]

end DoitModel.ReportText
