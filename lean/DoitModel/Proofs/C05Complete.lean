import DoitModel.Proofs.C05Fuel
import DoitModel.Proofs.RunAcct
/-! # C05 (c): the monitor `monC05ContinueComplete` holds on the trace of every run of the model that ended normally

The closure the monitor computes from the trace (`closureOf`) is LARGER than `RunCl` of `Proofs/RunLive2.lean`: it also
follows the setup edges of a task whose first `select_task` pass said "run" but which was then reported `unmet` /
ignored / "args error" in the second pass (no `go`).  `InvE` (`Proofs/C05Just.lean`) shows that such a task went through
the setup stage, so its setup-tasks have nodes, and at a quiescent end every node has exactly one terminal report. -/
namespace DoitModel.Run

/-- what the liveness invariants give at a normal end of the run (serial and parallel) -/
structure EndFacts (inp : RunInput) (s : Sys) : Prop where
  allDone : ∀ k x, s.nodes k = some x → x.pc = .done
  processed : ∀ t, created s t → cTerm s t = 1
  selC : ∀ t ∈ inp.sel, created s t
  a1 : ∀ n nd, s.nodes n = some nd → NodeA s nd

theorem endFacts_serial {inp : RunInput} {s : Sys} (hr : Reach inp s) (hh : s.rpc = .halted)
    (hhalt : s.halt = .none) (hstop : s.stop = false) : EndFacts inp s := by
  have hL := reach_invL hr
  have h3 := reach_inv3 hr
  have hsu : s.susp = some .stopIter := hL.a8 (Or.inr hh) hhalt hstop
  obtain ⟨q1, q2, q3, q4⟩ := hL.d.a7 hsu
  have allDone : ∀ k x, s.nodes k = some x → x.pc = .done := by
    intro k x hx
    cases hpc : x.pc with
    | done => rfl
    | _ =>
      have := hL.d.a2 k x hx (by rw [hpc]; simp)
      rw [q1, q2, q4] at this
      rcases this with a | a | a <;> cases a
  refine ⟨allDone, ?_, ?_, hL.d.a1⟩
  · intro t ⟨x, hx⟩
    have hpc := allDone t x hx
    have hne : x.status ≠ .none := by
      intro e
      have := (hL.a4 t x hx (by rw [hpc]; rfl) e).1
      rw [hsu] at this; cases this
    have hnr : x.status ≠ .run := by
      intro e
      rcases hL.a5 t x hx e with a | ⟨_, _, a | ⟨a, _⟩⟩
      · rw [hh] at a; cases a
      · rw [hpc] at a; cases a
      · rw [hpc] at a; cases a
    have hfin : (stOf s t).finished = true := by
      simp only [stOf, hx]
      cases hs : x.status <;> simp_all [RS.finished]
    have := hL.a6 t hfin
    have := h3.t2 t
    omega
  · intro t hm
    rcases hL.d.a3 _ hm with a | a
    · rw [q3] at a; cases a
    · exact a

theorem endFacts_parallel {inp : RunInput} {s : Sys} (hr : PReach inp s) (hh : s.rpc = .halted)
    (hhalt : s.halt = .none) (hstop : s.stop = false) : EndFacts inp s := by
  obtain ⟨hsu, hq⟩ := parallel_end_quiescent hr hh hhalt hstop
  have hP := preach_invP hr
  obtain ⟨h2, h3⟩ := preach_inv hr
  obtain ⟨q1, q2, q3, q4⟩ := hP.d.a7 hsu
  have allDone : ∀ k x, s.nodes k = some x → x.pc = .done := by
    intro k x hx
    cases hpc : x.pc with
    | done => rfl
    | _ =>
      have := hP.d.a2 k x hx (by rw [hpc]; simp)
      rw [q1, q2, q4] at this
      rcases this with a | a | a <;> cases a
  refine ⟨allDone, ?_, ?_, hP.d.a1⟩
  · intro t ⟨x, hx⟩
    have hpc := allDone t x hx
    have hne : x.status ≠ .none := by
      intro e
      have := (hP.a4 t x hx (by rw [hpc]; rfl) e).1
      rw [hsu] at this; cases this
    have hnr : x.status ≠ .run := by
      intro e
      rcases hP.a5 t x hx e with a | ⟨_, _, a | ⟨a, _⟩⟩
      · exact hq t a
      · rw [hpc] at a; cases a
      · rw [hpc] at a; cases a
    have hfin : (stOf s t).finished = true := by
      simp only [stOf, hx]
      cases hs : x.status <;> simp_all [RS.finished]
    have := hP.a6 t hfin
    have := h3.t2 t
    omega
  · intro t hm
    rcases hP.d.a3 _ hm with a | a
    · rw [q3] at a; cases a
    · exact a

/-- the invariants the monitor proof uses, for either system -/
structure AllInv (inp : RunInput) (s : Sys) : Prop where
  h2 : Inv2 inp s
  h3 : Inv3 inp s
  hG : InvG inp s
  hF : InvF inp s
  hU : InvU inp s
  hE : InvE inp s

theorem allInv_serial {inp : RunInput} {s : Sys} (hr : Reach inp s) : AllInv inp s :=
  ⟨reach_inv2 hr, reach_inv3 hr, reach_invG hr, reach_invF hr, reach_invU hr, reach_invE hr⟩

theorem allInv_parallel {inp : RunInput} {s : Sys} (hr : PReach inp s) : AllInv inp s :=
  ⟨(preach_inv hr).1, (preach_inv hr).2, preach_invG hr, preach_invF hr, preach_invU hr, preach_invE hr⟩

theorem created_of_finished {s : Sys} {d : Name} (h : (stOf s d).finished = true) : created s d := by
  cases hx : s.nodes d with
  | some x => exact ⟨x, hx⟩
  | none => simp [stOf, hx, RS.finished] at h

/-! ### the edges the monitor follows lead to nodes -/

theorem calcOf_lt {inp : RunInput} {n : Nat} (hb : Below inp n) {t c : Name} (ht : t < n) (h : CalcOf inp t c) :
    c < n := by
  induction h with
  | base a => exact hb.cdep t ht _ a
  | step _ m ih => exact hb.rcalcs _ ih _ m

theorem stage1_lt {inp : RunInput} {n k : Nat} {tr : List Ev} (hb : Below inp n) {t d : Name} (ht : t < n)
    (h : d ∈ stage1 inp k tr t) : d < n := by
  have hcalc := calcsAt_calcOf inp tr t k (inp.calcDep t) (fun c hc => .base hc)
  unfold stage1 at h
  rcases List.mem_append.mp h with h | h
  · rcases List.mem_append.mp h with h | h
    · exact hb.task t ht d h
    · exact calcOf_lt hb ht (hcalc d h)
  · obtain ⟨c, hc, hd⟩ := List.mem_flatMap.mp h
    have hcn := calcOf_lt hb ht (hcalc c (List.mem_filter.mp hc).1)
    rcases List.mem_append.mp hd with a | a
    · exact hb.rtasks c hcn d a
    · exact hb.rfiles c hcn d a

/-- at a done node every calc_dep with a finish report has delivered -/
theorem done_delivered {inp : RunInput} {s : Sys} (I : AllInv inp s) {u : Name} {nd : Node} (hn : s.nodes u = some nd)
    (hpc : nd.pc = .done) {c : Name} (hc : c ∈ nd.dynCalc) (hf : finBefore s.events c) : Delivered inp nd c := by
  have hm := (I.h2.inv1.node u nd hn).m1 (by rw [hpc]; rfl)
  have hpr : Processed nd c := ⟨by rw [hm.2.1]; simp,
    (fun (e : nd.pc.iterC = true ∧ c ∈ nd.snapCalc) => by rw [hpc] at e; cases e.1), by rw [hm.2.2]; simp⟩
  exact I.hG.dc u nd hn c hc hpr (finBefore_good I.hF hf)

theorem calcsAt_dyn {inp : RunInput} {s : Sys} (I : AllInv inp s) {u : Name} {nd : Node} (hn : s.nodes u = some nd)
    (hpc : nd.pc = .done) : ∀ (k : Nat) (cs : List Name), (∀ c ∈ cs, c ∈ nd.dynCalc) →
      ∀ c ∈ calcsAt inp (trace inp s) k cs, c ∈ nd.dynCalc := by
  intro k
  induction k with
  | zero => intro cs h c hc; exact h c hc
  | succ k ih =>
    intro cs h c hc
    rw [calcsAt_succ] at hc
    refine ih _ ?_ c hc
    intro x hx
    rcases mem_calcRound.mp hx with a | ⟨c0, hc0, hf, hx0⟩
    · exact h x a
    · exact (done_delivered I hn hpc (h c0 hc0) (finBefore_of_finishedIn hf)).2.2 x hx0

theorem dyn_created {inp : RunInput} {s : Sys} (I : AllInv inp s) (E : EndFacts inp s) {u : Name} {nd : Node}
    (hn : s.nodes u = some nd) : (∀ d ∈ nd.dynTask, created s d) ∧ (∀ d ∈ nd.dynCalc, created s d) := by
  have hpc := E.allDone u nd hn
  have hm := (I.h2.inv1.node u nd hn).m1 (by rw [hpc]; rfl)
  constructor
  · intro d hd
    rcases (E.a1 u nd hn).t d hd with a | ⟨⟨_, a⟩, _⟩ | ⟨_, a, _⟩ | a
    · rw [hm.1] at a; cases a
    · rw [hpc] at a; cases a
    · rw [hpc] at a; cases a
    · exact a
  · intro d hd
    rcases (E.a1 u nd hn).c d hd with a | ⟨_, a, _⟩ | a
    · rw [hm.2.1] at a; cases a
    · rw [hpc] at a; cases a
    · exact a

theorem stage1_created {inp : RunInput} {s : Sys} (I : AllInv inp s) (E : EndFacts inp s) (k : Nat) {u d : Name}
    (hu : created s u) (h : d ∈ stage1 inp k (trace inp s) u) : created s d := by
  obtain ⟨nd, hn⟩ := hu
  have hpc := E.allDone u nd hn
  have hok := I.h2.inv1.node u nd hn
  obtain ⟨ct, cc⟩ := dyn_created I E hn
  have hcalc := calcsAt_dyn I hn hpc k (inp.calcDep u) (fun c hc => hok.st.2 c hc)
  unfold stage1 at h
  rcases List.mem_append.mp h with h | h
  · rcases List.mem_append.mp h with h | h
    · exact ct d (hok.st.1 d h)
    · exact cc d (hcalc d h)
  · obtain ⟨c, hc, hd⟩ := List.mem_flatMap.mp h
    obtain ⟨c1, c2⟩ := List.mem_filter.mp hc
    have hdel := done_delivered I hn hpc (hcalc c c1) (finBefore_of_finishedIn c2)
    rcases List.mem_append.mp hd with a | a
    · exact ct d (hdel.1 d a)
    · exact ct d (hdel.2.1 d a)

theorem go_setup_created {inp : RunInput} {s : Sys} (I : AllInv inp s) {u d : Name} {deps : List Name}
    (hg : Ev.go u deps ∈ s.events) (hd : d ∈ inp.setup u) : created s d := by
  have hin : d ∈ deps := I.h2.gs u deps hg d (by simp [staticDeps, hd])
  have hfb := ordOK_go I.h2.ord hg d hin
  exact created_of_finished (RS.good_finished (finBefore_good I.hF hfb))

/-- the setup edge: a task the monitor takes for "first pass said run" had its setup-tasks created -/
theorem ranFirst_setup_created {inp : RunInput} {s : Sys} {n : Nat} (I : AllInv inp s) (E : EndFacts inp s)
    (hb : Below inp n) {u d : Name} (hu : created s u) (hun : u < n)
    (hrf : ranFirst inp n (trace inp s) u = true) (hd : d ∈ inp.setup u) : created s d := by
  unfold ranFirst at hrf
  simp only [Bool.and_eq_true, Bool.not_eq_true', bne_iff_ne, ne_eq, beq_iff_eq] at hrf
  obtain ⟨⟨⟨hign, herr⟩, heff⟩, hall⟩ := hrf
  have hall' : ∀ p ∈ stage1 inp n (trace inp s) u, finBefore s.events p := by
    intro p hp
    exact finBefore_of_finishedIn (List.all_eq_true.mp hall p hp)
  have hjust : Just inp s u → created s d := by
    rintro (a | a | a | ⟨p, a, b⟩ | ⟨deps, a⟩)
    · exact created_of_finished (a d hd)
    · rw [hign] at a; cases a
    · exact absurd a herr
    · have hp := depObs_stage1 hb (fun x hx => finishedIn_trace (inp := inp) hx) hun a
      have hg := finBefore_good I.hF (hall' p hp)
      rcases b with ⟨k, b⟩ | b
      · rw [I.hF.fl p k b] at hg; cases hg
      · rw [I.hE.ig p b] at hg; cases hg
    · exact go_setup_created I a hd
  have hone := E.processed u hu
  have hpos : 0 < s.events.countP (Ev.isTerminalOf u) := by unfold cTerm at hone; omega
  obtain ⟨e, he, hp⟩ := List.countP_pos_iff.mp hpos
  cases e with
  | success m =>
    have : m = u := by simpa [Ev.isTerminalOf] using hp
    subst this
    obtain ⟨deps, hg⟩ := (I.hF.ok m he).2
    exact go_setup_created I hg hd
  | skipUtd m =>
    have : m = u := by simpa [Ev.isTerminalOf] using hp
    subst this
    have := (I.hF.ud m (I.hF.ut m he)).1
    rw [this] at heff; cases heff
  | skipIgn m =>
    have : m = u := by simpa [Ev.isTerminalOf] using hp
    subst this
    exact hjust (I.hE.just m (Or.inr he))
  | failure m k =>
    have : m = u := by simpa [Ev.isTerminalOf] using hp
    subst this
    exact hjust (I.hE.just m (Or.inl ⟨k, he⟩))
  | _ => simp [Ev.isTerminalOf] at hp

/-! ### the closure computed from the trace -/

theorem foldl_addNew_all {P : Name → Prop} (E : Name → List Name) : ∀ (l acc : List Name),
    (∀ x ∈ acc, P x) → (∀ t ∈ l, ∀ d ∈ E t, P d) → ∀ x ∈ l.foldl (fun a t => addNew a (E t)) acc, P x := by
  intro l
  induction l with
  | nil => intro acc h _ x hx; exact h x hx
  | cons t ts ih =>
    intro acc h hl x hx
    simp only [List.foldl_cons] at hx
    refine ih _ ?_ (fun t' ht' => hl t' (List.mem_cons_of_mem _ ht')) x hx
    intro y hy
    rcases (mem_addNew_run _ _ _).mp hy with a | a
    · exact h y a
    · exact hl t (by simp) y a

theorem closureOf_created {inp : RunInput} {s : Sys} {n : Nat} (I : AllInv inp s) (E : EndFacts inp s)
    (hb : Below inp n) : ∀ t ∈ closureOf inp n (trace inp s), created s t ∧ t < n := by
  have edge : ∀ t, (created s t ∧ t < n) →
      ∀ d ∈ stage1 inp n (trace inp s) t ++ (if ranFirst inp n (trace inp s) t then inp.setup t else []),
        created s d ∧ d < n := by
    intro t ⟨hc, hl⟩ d hd
    rcases List.mem_append.mp hd with a | a
    · exact ⟨stage1_created I E n hc a, stage1_lt hb hl a⟩
    · by_cases hrf : ranFirst inp n (trace inp s) t = true
      · simp only [hrf, if_true] at a
        exact ⟨ranFirst_setup_created I E hb hc hl hrf a, hb.setup t hl d a⟩
      · simp [hrf] at a
  have once : ∀ cl, (∀ x ∈ cl, created s x ∧ x < n) →
      ∀ x ∈ closeOnce inp n (trace inp s) cl, created s x ∧ x < n := by
    intro cl h
    unfold closeOnce
    exact foldl_addNew_all (P := fun x => created s x ∧ x < n)
      (fun t => stage1 inp n (trace inp s) t ++ (if ranFirst inp n (trace inp s) t then inp.setup t else []))
      cl cl h (fun t ht => edge t (h t ht))
  have iter : ∀ (k : Nat) (cl : List Name), (∀ x ∈ cl, created s x ∧ x < n) →
      ∀ x ∈ closureIter inp n (trace inp s) k cl, created s x ∧ x < n := by
    intro k
    induction k with
    | zero => intro cl h x hx; exact h x hx
    | succ k ih => intro cl h x hx; exact ih _ (once cl h) x hx
  unfold closureOf
  refine iter _ _ ?_
  intro x hx
  rcases (mem_addNew_run _ _ _).mp hx with a | a
  · cases a
  · exact ⟨E.selC x a, hb.sel x a⟩

/-! ### the monitor -/

theorem trace_terminal_count (inp : RunInput) (s : Sys) (t : Name) :
    ((trace inp s).filter (Ev.isTerminalOf t)).length = cTerm s t := by
  unfold trace cTerm
  rw [← List.countP_eq_length_filter, List.countP_reverse, List.countP_filter]
  apply List.countP_congr
  intro e _
  cases e <;> simp [Ev.isTerminalOf, hidden]

theorem failure_in_trace {inp : RunInput} {s : Sys} {d : Name} {k : FailKind} (h : Ev.failure d k ∈ s.events) :
    Ev.failure d k ∈ trace inp s := by
  unfold trace
  exact List.mem_reverse.mpr (List.mem_filter.mpr ⟨h, by simp [hidden]⟩)

theorem stage1_edgesOf {inp : RunInput} {n : Nat} {tr : List Ev} {t d : Name} (h : d ∈ stage1 inp n tr t) :
    d ∈ edgesOf inp n tr t := by
  unfold stage1 at h
  unfold edgesOf
  simp only [List.mem_append] at h ⊢
  rcases h with (a | a) | a
  · exact Or.inl (Or.inl (Or.inl a))
  · exact Or.inl (Or.inr a)
  · exact Or.inr a

/-- both halves of the monitor at a normal end of a run with `--continue` -/
theorem monC05ContinueComplete_of_end {inp : RunInput} {s : Sys} (I : AllInv inp s) (E : EndFacts inp s) {n : Nat}
    (hb : Below inp n) (exit : Nat) : monC05ContinueComplete inp n (trace inp s) exit = true := by
  unfold monC05ContinueComplete
  simp only [Bool.or_eq_true, Bool.and_eq_true]
  right
  constructor
  · simp only [List.all_eq_true, beq_iff_eq]
    intro t ht
    rw [trace_terminal_count]
    exact E.processed t (closureOf_created I E hb t ht).1
  · simp only [List.all_eq_true, List.mem_range, Bool.or_eq_true, Bool.not_eq_true']
    intro t ht
    by_cases hu : (trace inp s).any (fun e => e == Ev.failure t .unmet) = true
    · right
      obtain ⟨e, he, hp⟩ := List.any_eq_true.mp hu
      have : e = Ev.failure t .unmet := by simpa using hp
      subst this
      have hev := mem_trace he
      obtain ⟨d, k, hdep, hf⟩ := I.hU.um t hev
      refine List.any_eq_true.mpr ⟨d, ?_, ?_⟩
      · rcases hdep with a | a
        · exact stage1_edgesOf (depObs_stage1 hb (fun x hx => finishedIn_trace (inp := inp) hx) ht a)
        · have hnu : skippedUtd (trace inp s) t = false := by
            cases hsk : skippedUtd (trace inp s) t with
            | false => rfl
            | true =>
              unfold skippedUtd at hsk
              obtain ⟨e, he, hp⟩ := List.any_eq_true.mp hsk
              have : e = Ev.skipUtd t := by simpa using hp
              subst this
              have h1 := I.hF.fl t _ hev
              have h2 := I.hF.ut t (mem_trace he)
              rw [h1] at h2; cases h2
          unfold edgesOf
          simp [hnu, a]
      · unfold failedIn
        exact List.any_eq_true.mpr ⟨_, failure_in_trace hf, by simp [Ev.isFailureOf]⟩
    · left
      cases hh : (trace inp s).any (fun e => e == Ev.failure t .unmet) with
      | false => rfl
      | true => exact absurd hh hu

end DoitModel.Run
