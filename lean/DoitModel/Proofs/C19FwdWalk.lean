import DoitModel.Proofs.C19Fwd
import DoitModel.Proofs.C19Walk
/-! # C19: the invariant of the process runner with forwarded reports holds in every reachable `FSys` state -/
namespace DoitModel.Report
open DoitModel.Run

def pendOf (q : List Msg) : Name → Nat := fun n => q.count (.rep n)

structure FInv (inp : RunInput) (f : FSys) : Prop where
  b2 : Inv2 inp f.base
  b3 : Inv3 inp f.base
  fb : FBase inp (pendOf f.fq) f.base
  q3 : f.fq.filterMap Msg.resName = f.base.resQ
  q1 : ∀ pre post n, f.fq = pre ++ Msg.res n :: post → Msg.rep n ∉ post
  q2 : ∀ n, Msg.rep n ∈ f.fq → stOf f.base n = .run

theorem pendOf_pos {q : List Msg} {n : Name} : pendOf q n ≥ 1 ↔ Msg.rep n ∈ q := by
  unfold pendOf; rw [ge_iff_le, List.one_le_count_iff]

theorem res_mem_iff {q : List Msg} {n : Name} : Msg.res n ∈ q ↔ n ∈ q.filterMap Msg.resName := by
  rw [List.mem_filterMap]
  constructor
  · intro h; exact ⟨_, h, rfl⟩
  · rintro ⟨m, hm, e⟩; cases m <;> simp [Msg.resName] at e; subst e; exact hm

/-- a forwarded report is taken from the queue and handed to the reporter: nothing the run model looks at changes -/
theorem deliver_base {inp : RunInput} {s : Sys} (n : Name) (h2 : Inv2 inp s) (h3 : Inv3 inp s) :
    Inv2 inp { s with events := Ev.execute n :: s.events } ∧ Inv3 inp { s with events := Ev.execute n :: s.events } := by
  have hev : ({ s with events := Ev.execute n :: s.events } : Sys).events = [Ev.execute n] ++ s.events := rfl
  have hc : ∀ m, cGo { s with events := Ev.execute n :: s.events } m = cGo s m ∧
      cStart { s with events := Ev.execute n :: s.events } m = cStart s m ∧
      cFin { s with events := Ev.execute n :: s.events } m = cFin s m := by
    intro m; simp [cGo, cStart, cFin, List.countP_cons, Ev.isGoOf, Ev.isStartOf, Ev.isFinOf]
  constructor
  · refine h2.outer rfl rfl rfl rfl rfl _ hev ⟨trivial, h2.ord⟩ (by simp) (fun p hp => h2.sb p hp) (fun a => a) ?_
      (fun m a => h2.x m a)
    intro m hm
    obtain ⟨d, hd⟩ := h2.f1 m hm
    exact ⟨d, by simp [hd]⟩
  · refine h3.outer rfl rfl _ hev (fun m => by simp [List.countP_cons, Ev.isGoOf, Ev.isTerminalOf]) (fun a => a)
      ?_ ?_ ?_ ?_ ?_ ?_ ?_ ?_ ?_
    · intro m; rw [(hc m).2.1, (hc m).2.2]; exact (h3.p0 m).2
    · intro m; rw [(hc m).1, (hc m).2.1]; exact h3.j m
    · intro w m hw; rw [(hc m).2.1, (hc m).2.2]; exact h3.w1 w m hw
    · exact h3.w2
    · intro m hm; rw [(hc m).2.2]; exact h3.q1 m hm
    · exact h3.q2
    · intro m hm; exact h3.j2 m hm
    · intro m hm; rw [(hc m).2.1, (hc m).2.2]; exact h3.x3 m hm
    · intro m w hm; exact h3.xw m w hm

theorem gReturn_resQ (s : Sys) (job : Job) (ret : Ret) : (gReturn s job ret).resQ = s.resQ := by
  unfold gReturn
  cases ret with
  | startLoop k => simp only []; split <;> (try split) <;> rfl
  | feedLoop k => simp only []; split <;> (try split) <;> rfl

/-- a step of the main process that does not take a result from the queue -/
theorem mainStep_fbase {inp : RunInput} {pend : Name → Nat} {s s' : Sys} {perm : List Name} (h : FBase inp pend s)
    (h2 : Inv2 inp s) (h3 : Inv3 inp s) (hnot : ¬ atGet s) (hs : mainStep inp s perm = some s') :
    FBase inp pend s' ∧ s'.resQ = s.resQ ∧
      (∀ x, stOf s' x ≠ stOf s x → cStart s x = 0) := by
  unfold mainStep at hs
  cases hr : s.rpc with
  | gEntry completed ret =>
    simp only [hr] at hs
    split at hs <;> (cases hs; exact ⟨h.same rfl (fun _ => rfl) rfl, rfl, fun x hx => absurd rfl hx⟩)
  | gLoop node ret =>
    simp only [hr] at hs
    cases hsd : send inp s node perm with
    | none => simp only [hsd] at hs; cases hs
    | some s0 =>
      simp only [hsd] at hs; cases hs
      have o := (send_outer hsd).1
      have hst := (send_inv1 h2.inv1 (fun p hp => h2.sb p (by simp [sentBack, hr, hp])) hsd).2
      exact ⟨(h.outer o hst).same rfl (fun _ => rfl) rfl, o.2.2.2.1, fun x hx => absurd (hst x) hx⟩
  | gWait ret =>
    simp only [hr] at hs
    have haw : awaiting s := Or.inr ⟨ret, hr⟩
    cases hsu : s.susp with
    | none =>
      simp only [hsu] at hs
      exact ⟨h.outer (dtick_outer hs) (dtick_stOf hs), (dtick_outer hs).2.2.2.1, fun x hx => absurd (dtick_stOf hs x) hx⟩
    | some o =>
      simp only [hsu] at hs
      cases o with
      | init => cases hs
      | node n =>
        simp only [] at hs
        cases hn : s.nodes n with
        | none => simp only [hn] at hs; cases hs; exact ⟨h.same rfl (fun _ => rfl) rfl, rfl, fun x hx => absurd rfl hx⟩
        | some nd =>
          simp only [hn] at hs
          have hgo : cGo s n = 0 := h3.z haw n hsu
          have hstart : cStart s n = 0 := by have := h3.j n; omega
          have key : selDecision inp n nd ≠ .assertFail →
              FBase inp pend (applySel inp s n nd (selDecision inp n nd)) ∧
              (applySel inp s n nd (selDecision inp n nd)).resQ = s.resQ ∧
              (∀ x, stOf (applySel inp s n nd (selDecision inp n nd)) x ≠ stOf s x → cStart s x = 0) := by
            intro hne
            refine ⟨fbase_select h h3 haw hsu hn hne, (applySel_frame inp s n nd _).2.2.2.2.2.2.1, ?_⟩
            intro x hx
            rw [stOf_applySel inp s n nd _ hne] at hx
            by_cases e : x = n
            · subst e; exact hstart
            · simp [e] at hx
          cases hd : selDecision inp n nd with
          | assertFail => simp only [hd] at hs; cases hs; exact ⟨h.same rfl (fun _ => rfl) rfl, rfl, fun x hx => absurd rfl hx⟩
          | go => simp only [hd] at hs; cases hs; have := key (by simp [hd]); rw [hd] at this; exact ⟨this.1.same rfl (fun _ => rfl) rfl, this.2.1, this.2.2⟩
          | skipIgn => simp only [hd] at hs; cases hs; have := key (by simp [hd]); rw [hd] at this; exact ⟨this.1.same rfl (fun _ => rfl) rfl, this.2.1, this.2.2⟩
          | unmet => simp only [hd] at hs; cases hs; have := key (by simp [hd]); rw [hd] at this; exact ⟨this.1.same rfl (fun _ => rfl) rfl, this.2.1, this.2.2⟩
          | depErr => simp only [hd] at hs; cases hs; have := key (by simp [hd]); rw [hd] at this; exact ⟨this.1.same rfl (fun _ => rfl) rfl, this.2.1, this.2.2⟩
          | utd => simp only [hd] at hs; cases hs; have := key (by simp [hd]); rw [hd] at this; exact ⟨this.1.same rfl (fun _ => rfl) rfl, this.2.1, this.2.2⟩
          | runFirst => simp only [hd] at hs; cases hs; have := key (by simp [hd]); rw [hd] at this; exact ⟨this.1.same rfl (fun _ => rfl) rfl, this.2.1, this.2.2⟩
          | argsErr => simp only [hd] at hs; cases hs; have := key (by simp [hd]); rw [hd] at this; exact ⟨this.1.same rfl (fun _ => rfl) rfl, this.2.1, this.2.2⟩
      | stopIter => cases hs; exact ⟨h.same rfl (fun _ => rfl) rfl, rfl, fun x hx => absurd rfl hx⟩
      | holdOn => cases hs; exact ⟨h.same rfl (fun _ => rfl) rfl, rfl, fun x hx => absurd rfl hx⟩
      | cyclic n => cases hs; exact ⟨h.same rfl (fun _ => rfl) rfl, rfl, fun x hx => absurd rfl hx⟩
      | crash => cases hs; exact ⟨h.same rfl (fun _ => rfl) rfl, rfl, fun x hx => absurd rfl hx⟩
  | gRet job ret =>
    simp only [hr] at hs; cases hs
    obtain ⟨a, b, c⟩ := gReturn_same s job ret
    exact ⟨h.same a b c, gReturn_resQ s job ret, fun x hx => absurd (b x) hx⟩
  | pTop =>
    simp only [hr] at hs
    split at hs
    · cases hs; exact ⟨h.same rfl (fun _ => rfl) rfl, rfl, fun x hx => absurd rfl hx⟩
    · rename_i hpc; exact absurd ⟨hr, hpc⟩ hnot
  | pJoin =>
    simp only [hr] at hs; split at hs <;> cases hs
    exact ⟨h.same rfl (fun _ => rfl) rfl, rfl, fun x hx => absurd rfl hx⟩
  | fin => simp only [hr] at hs; cases hs; exact ⟨fbase_finishRun h, rfl, fun x hx => absurd rfl hx⟩
  | sTop a => simp only [hr] at hs; cases hs
  | sWait => simp only [hr] at hs; cases hs
  | sExec a => simp only [hr] at hs; cases hs
  | halted => simp only [hr] at hs; cases hs

/-! ### queue bookkeeping -/

theorem split_snoc {α : Type} {l pre post : List α} {a b : α} (h : l ++ [a] = pre ++ b :: post) :
    (post = [] ∧ a = b ∧ l = pre) ∨ (∃ post0, post = post0 ++ [a] ∧ l = pre ++ b :: post0) := by
  induction pre generalizing l with
  | nil =>
    cases l with
    | nil => simp at h; left; exact ⟨h.2, h.1, rfl⟩
    | cons x l =>
      simp only [List.cons_append, List.nil_append, List.cons.injEq] at h
      right; exact ⟨l, h.2.symm, by simp [h.1]⟩
  | cons p pre ih =>
    cases l with
    | nil =>
      simp only [List.nil_append, List.cons_append, List.cons.injEq] at h
      have := h.2; cases pre <;> simp at this
    | cons x l =>
      simp only [List.cons_append, List.cons.injEq] at h
      rcases ih h.2 with ⟨a1, a2, a3⟩ | ⟨p0, a1, a2⟩
      · left; exact ⟨a1, a2, by rw [h.1, a3]⟩
      · right; exact ⟨p0, a1, by rw [h.1, a2]; rfl⟩

theorem pendOf_rep_cons (n : Name) (q : List Msg) (x : Name) :
    pendOf q x + (if x = n then 1 else 0) = pendOf (Msg.rep n :: q) x := by
  unfold pendOf; rw [List.count_cons]
  by_cases e : x = n
  · subst e; simp
  · have : ¬ n = x := fun a => e a.symm
    simp [e, this]

theorem pendOf_res_cons (n : Name) (q : List Msg) : pendOf (Msg.res n :: q) = pendOf q := by
  funext x; unfold pendOf; rw [List.count_cons]; simp

theorem pendOf_snoc_rep (n : Name) (q : List Msg) (x : Name) :
    pendOf (q ++ [Msg.rep n]) x = pendOf q x + (if x = n then 1 else 0) := by
  unfold pendOf; rw [List.count_append]
  by_cases e : x = n
  · subst e; simp
  · have : ¬ n = x := fun a => e a.symm
    simp [e, this, List.count_cons]

theorem pendOf_snoc_res (n : Name) (q : List Msg) : pendOf (q ++ [Msg.res n]) = pendOf q := by
  funext x; unfold pendOf; rw [List.count_append]; simp [List.count_cons]

theorem init_finv (inp : RunInput) : FInv inp (finit inp) := by
  refine ⟨init_inv2 inp, init_inv3 inp, ?_, rfl, ?_, ?_⟩
  · have : pendOf ([] : List Msg) = fun _ => 0 := by funext x; rfl
    show FBase inp (pendOf []) (init inp); rw [this]; exact init_fbase inp
  · intro pre post n h; cases pre <;> cases h
  · intro n h; cases h

theorem takeStep_resQ {inp : RunInput} {s s' : Sys} {w : Nat} (hs : takeStep inp s w = some s') : s'.resQ = s.resQ := by
  unfold takeStep at hs
  split at hs
  · split at hs
    · cases hs
    · cases hs; rfl
    · cases hs; rfl
    · cases hs; rfl
  · cases hs

/-- every step of the process runner with forwarded reports keeps the invariant -/
theorem fstep_inv {inp : RunInput} (hp : inp.runner = .process) {f f' : FSys} {c : FChoice} (h : FInv inp f)
    (hs : fstep inp f c = some f') : FInv inp f' := by
  obtain ⟨h2, h3, hb, q3, q1, q2⟩ := h
  cases c with
  | take w =>
    simp only [fstep] at hs
    cases ht : takeStep inp f.base w with
    | none => simp only [ht] at hs; cases hs
    | some s' =>
      simp only [ht] at hs
      obtain ⟨i2, i3⟩ := takeStep_inv h2 h3 ht
      have hrq := takeStep_resQ ht
      -- what the worker picked up
      have ht' := ht
      unfold takeStep at ht'
      by_cases hidle : f.base.workers w = .idle
      case neg => simp only [hidle, if_false] at ht'; cases ht'
      simp only [hidle, if_true] at ht'
      cases hq : f.base.jobQ with
      | nil => simp only [hq] at ht'; cases ht'
      | cons j js =>
        simp only [hq] at ht' hs
        cases j with
        | hold =>
          simp only [] at ht' hs; cases ht'; cases hs
          exact ⟨i2, i3, hb.same rfl (fun _ => rfl) rfl, q3, q1, q2⟩
        | stop =>
          simp only [] at ht' hs; cases ht'; cases hs
          exact ⟨i2, i3, hb.same rfl (fun _ => rfl) rfl, q3, q1, q2⟩
        | task n =>
          simp only [] at ht' hs; cases ht'; cases hs
          have hmem : Job.task n ∈ f.base.jobQ := by rw [hq]; simp
          have hrun : stOf f.base n = .run := h3.j2 n (Or.inl hmem)
          have hc : f.base.jobQ.count (.task n) ≥ 1 := count_task_pos.mp hmem
          have hj := h3.j n
          have hg := (h3.p0 n).1
          have hstart : cStart f.base n = 0 := by omega
          have hfin0 : cFin f.base n = 0 := by have := (h3.p0 n).2; omega
          have hnres : Msg.res n ∉ f.fq := by
            intro hm
            have : n ∈ f.base.resQ := by rw [← q3]; exact res_mem_iff.mp hm
            have := (h3.q1 n this).1; omega
          have hev : (setWorker (startTask inp f.base n w) w (.running n)).events = Ev.start n w :: f.base.events := by
            show (startTask inp f.base n w).events = _
            rw [startTask_events]; simp [hp]
          refine ⟨i2, i3, ?_, ?_, ?_, ?_⟩
          · exact fbase_start (n := n) (w := w) hb hrun hev (fun _ => rfl) rfl (pendOf_snoc_rep n f.fq)
          · show (f.fq ++ [Msg.rep n]).filterMap Msg.resName = _
            rw [List.filterMap_append, q3]; simp [Msg.resName, setWorker, startTask]
          · intro pre post k hsp
            rcases split_snoc hsp with ⟨_, a2, _⟩ | ⟨p0, a1, a2⟩
            · cases a2
            · rw [a1]
              intro hm
              rcases List.mem_append.mp hm with x | x
              · exact q1 pre p0 k a2 x
              · simp at x; subst x
                apply hnres; rw [a2]; simp
          · intro k hk
            show stOf f.base k = .run
            rcases List.mem_append.mp hk with x | x
            · exact q2 k x
            · simp at x; subst x; exact hrun
  | done w =>
    simp only [fstep] at hs
    cases hw : f.base.workers w with
    | running n =>
      simp only [hw] at hs
      cases hd : doneStep f.base w with
      | none => simp only [hd, Option.map_none] at hs; cases hs
      | some s' =>
        simp only [hd, Option.map_some, Option.some.injEq] at hs; subst hs
        obtain ⟨i2, i3⟩ := doneStep_inv h2 h3 hd
        have hd' := hd
        unfold doneStep at hd'
        simp only [hw, Option.some.injEq] at hd'; subst hd'
        obtain ⟨a1, a2, a3⟩ := h3.w1 w n hw
        refine ⟨i2, i3, ?_, ?_, ?_, ?_⟩
        · show FBase inp (pendOf (f.fq ++ [Msg.res n])) _
          rw [pendOf_snoc_res]
          exact fbase_fin (n := n) (w := w) hb a3 (by omega) rfl (fun _ => rfl) rfl
        · show (f.fq ++ [Msg.res n]).filterMap Msg.resName = f.base.resQ ++ [n]
          rw [List.filterMap_append, q3]; simp [Msg.resName]
        · intro pre post k hsp
          rcases split_snoc hsp with ⟨a1, _, _⟩ | ⟨p0, a1, a2⟩
          · rw [a1]; simp
          · rw [a1]
            intro hm
            rcases List.mem_append.mp hm with x | x
            · exact q1 pre p0 k a2 x
            · simp at x
        · intro k hk
          show stOf f.base k = .run
          rcases List.mem_append.mp hk with x | x
          · exact q2 k x
          · simp at x
    | notStarted => simp only [hw] at hs; cases hs
    | idle => simp only [hw] at hs; cases hs
    | exited => simp only [hw] at hs; cases hs
  | deliver =>
    simp only [fstep] at hs
    split at hs
    · cases hq : f.fq with
      | nil => simp only [hq] at hs; cases hs
      | cons m q =>
        simp only [hq] at hs
        cases m with
        | res k => simp only [] at hs; cases hs
        | rep n =>
          simp only [Option.some.injEq] at hs; subst hs
          have hin : Msg.rep n ∈ f.fq := by rw [hq]; simp
          obtain ⟨i2, i3⟩ := deliver_base n h2 h3
          refine ⟨i2, i3, ?_, ?_, ?_, ?_⟩
          · exact fbase_deliver (n := n) hb h3 (q2 n hin) (pendOf_pos.mpr hin) rfl (fun _ => rfl) rfl
              (fun x => by rw [hq]; exact pendOf_rep_cons n q x)
          · show q.filterMap Msg.resName = f.base.resQ
            rw [← q3, hq]; rfl
          · intro pre post k hsp
            have hsp' : q = pre ++ Msg.res k :: post := hsp
            exact q1 (Msg.rep n :: pre) post k (by rw [hq, hsp']; rfl)
          · intro k hk
            exact q2 k (by rw [hq]; exact List.mem_cons_of_mem _ hk)
    · cases hs
  | main perm =>
    simp only [fstep] at hs
    by_cases hget : atGet f.base
    · simp only [hget, if_true] at hs
      cases hq : f.fq with
      | nil => simp only [hq] at hs; cases hs
      | cons m q =>
        simp only [hq] at hs
        cases m with
        | rep k => simp only [] at hs; cases hs
        | res k =>
          simp only [] at hs
          cases hm : mainStep inp f.base perm with
          | none => simp only [hm, Option.map_none] at hs; cases hs
          | some s' =>
            simp only [hm, Option.map_some, Option.some.injEq] at hs; subst hs
            obtain ⟨i2, i3⟩ := mainStep_inv h2 h3 hm
            have hrq : f.base.resQ = k :: q.filterMap Msg.resName := by rw [← q3, hq]; simp [Msg.resName]
            have hkq : k ∈ f.base.resQ := by rw [hrq]; simp
            obtain ⟨qa, qb⟩ := h3.q1 k hkq
            have hnrep : Msg.rep k ∉ q := q1 [] q k (by rw [hq]; rfl)
            have hpend : pendOf f.fq k = 0 := by
              cases hc : pendOf f.fq k with
              | zero => rfl
              | succ z =>
                have : Msg.rep k ∈ f.fq := pendOf_pos.mp (by omega)
                rw [hq] at this; simp at this; exact absurd this hnrep
            have hm' := hm
            unfold mainStep at hm'
            simp only [hget.1] at hm'
            simp only [hget.2, if_false, hrq] at hm'
            cases hn : f.base.nodes k with
            | none => have := qb; simp [stOf, hn] at this
            | some nd =>
              simp only [hn, Option.some.injEq] at hm'; subst hm'
              have hrun : nd.status = .run := by simpa [stOf, hn] using qb
              have hterm : cTerm f.base k = 0 := h3.t k (by rw [qb]; rfl)
              have hp0 := (h3.p0 k).2
              have hmid : FBase inp (pendOf f.fq) { f.base with resQ := q.filterMap Msg.resName } :=
                hb.same rfl (fun _ => rfl) rfl
              have hres := fbase_result (inp := inp) (s := { f.base with resQ := q.filterMap Msg.resName }) hmid hn hrun
                hterm (by show cFin f.base k ≥ 1; omega) (by show cStart f.base k ≥ 1; omega) hpend
              have hfr := processResult_frame inp { f.base with resQ := q.filterMap Msg.resName } k nd
              have hstp := stOf_processResult inp { f.base with resQ := q.filterMap Msg.resName } k nd
              simp only [hget.1] at hres hfr hstp
              refine ⟨i2, i3, ?_, ?_, ?_, ?_⟩
              · have : pendOf q = pendOf f.fq := by rw [hq, pendOf_res_cons]
                show FBase inp (pendOf q) _
                rw [this]; exact hres.same rfl (fun _ => rfl) rfl
              · show q.filterMap Msg.resName = (processResult inp _ k nd).resQ
                rw [hfr.2.2.2.2.2.2.1]
              · intro pre post x hsp
                have hsp' : q = pre ++ Msg.res x :: post := hsp
                exact q1 (Msg.res k :: pre) post x (by rw [hq, hsp']; rfl)
              · intro x hx
                have hx' : Msg.rep x ∈ f.fq := by rw [hq]; exact List.mem_cons_of_mem _ hx
                have hxk : x ≠ k := by intro e; subst e; exact hnrep hx
                show stOf (processResult inp _ k nd) x = .run
                rw [hstp]; simp only [hxk, if_false]; exact q2 x hx'
    · simp only [hget, if_false] at hs
      have general : ∀ s', mainStep inp f.base perm = some s' → FInv inp ⟨s', f.fq⟩ := by
        intro s' hm
        obtain ⟨i2, i3⟩ := mainStep_inv h2 h3 hm
        obtain ⟨b1, b2, b3⟩ := mainStep_fbase hb h2 h3 hget hm
        refine ⟨i2, i3, b1, by rw [q3]; exact b2.symm, q1, ?_⟩
        intro x hx
        show stOf s' x = .run
        by_cases e : stOf s' x = stOf f.base x
        · rw [e]; exact q2 x hx
        · have h0 := b3 x e
          have h1 := hb.ex x
          have h2' : pendOf f.fq x ≥ 1 := pendOf_pos.mpr hx
          omega
      by_cases hdr : atDrain f.base
      · simp only [hdr, if_true] at hs
        cases hq : f.fq with
        | nil =>
          simp only [hq] at hs
          cases hm : mainStep inp f.base perm with
          | none => simp only [hm, Option.map_none] at hs; cases hs
          | some s' =>
            simp only [hm, Option.map_some, Option.some.injEq] at hs; subst hs
            have := general s' hm; rw [hq] at this; exact this
        | cons m q => simp only [hq] at hs; cases hs
      · simp only [hdr, if_false] at hs
        cases hm : mainStep inp f.base perm with
        | none => simp only [hm, Option.map_none] at hs; cases hs
        | some s' =>
          simp only [hm, Option.map_some, Option.some.injEq] at hs; subst hs
          exact general s' hm

theorem freach_inv {inp : RunInput} (hp : inp.runner = .process) {f : FSys} (h : FReach inp f) : FInv inp f := by
  induction h with
  | init => exact init_finv inp
  | next _ hs ih => exact fstep_inv hp ih hs

theorem ftry_step {inp : RunInput} {f f' : FSys} : ∀ {cs : List FChoice}, ftry inp f cs = some f' →
    ∃ c, fstep inp f c = some f'
  | [], h => by cases h
  | c :: cs, h => by
    unfold ftry at h
    cases hc : fstep inp f c with
    | some g => simp only [hc, Option.some.injEq] at h; subst h; exact ⟨c, hc⟩
    | none => simp only [hc] at h; exact ftry_step h

theorem fauto_reach {inp : RunInput} : ∀ (k : Nat) (f : FSys), FReach inp f → FReach inp (fauto inp k f)
  | 0, _, h => h
  | k + 1, f, h => by
    unfold fauto
    split
    · rename_i f' hf
      obtain ⟨c, hc⟩ := ftry_step hf
      exact fauto_reach k f' (FReach.next h hc)
    · exact h

end DoitModel.Report
