import DoitModel.Proofs.Run
/-! # The dispatcher invariant `Inv1` and its preservation by every operation of the model -/
namespace DoitModel.Run

structure Inv1 (inp : RunInput) (s : Sys) : Prop where
  node : ∀ n nd, s.nodes n = some nd → NodeOK inp s n nd
  r1 : ∀ r ∈ s.ready, ∀ nd, s.nodes r = some nd → nd.pc = .self2 → nd.waitRun = []
  r2 : ∀ n nd, s.cur = some n → s.nodes n = some nd → nd.pc = .self2 → nd.waitRun = []
  sp : ∀ n, s.susp = some (.node n) → ∃ nd, s.nodes n = some nd ∧ (nd.pc = .afterSelf1 ∨ nd.pc = .afterSelf2)
  q1 : s.ready.Nodup
  q2 : ∀ r ∈ s.ready, r ∉ s.waiting
  q3 : ∀ n, s.cur = some n → n ∉ s.ready ∧ n ∉ s.waiting
  q4 : ∀ r, (r ∈ s.ready ∨ r ∈ s.waiting) → ∃ nd, s.nodes r = some nd
  wsel : ∀ n nd, s.nodes n = some nd → nd.waitSelect = true → n ∈ s.waiting

theorem stOf_congr {s s' : Sys} (h : s'.nodes = s.nodes) (d : Name) : stOf s' d = stOf s d := by
  simp [stOf, h]

theorem NodeOK.congr {inp : RunInput} {s s' : Sys} {n : Name} {a : Node} (hok : NodeOK inp s n a)
    (h : s'.nodes = s.nodes) : NodeOK inp s' n a :=
  hok.stable (Stable.of_eq (stOf_congr h))

/-- `Inv1` only reads the dispatcher fields -/
theorem Inv1.congr {inp : RunInput} {s s' : Sys} (h : Inv1 inp s) (hn : s'.nodes = s.nodes)
    (hr : s'.ready = s.ready) (hw : s'.waiting = s.waiting) (hc : s'.cur = s.cur) (hs : s'.susp = s.susp) :
    Inv1 inp s' := by
  constructor
  · intro n nd h1; rw [hn] at h1; exact (h.node n nd h1).congr hn
  · intro r h1 nd h2; rw [hr] at h1; rw [hn] at h2; exact h.r1 r h1 nd h2
  · intro n nd h1 h2; rw [hc] at h1; rw [hn] at h2; exact h.r2 n nd h1 h2
  · intro n h1; rw [hs] at h1; rw [hn]; exact h.sp n h1
  · rw [hr]; exact h.q1
  · intro r h1; rw [hr] at h1; rw [hw]; exact h.q2 r h1
  · intro n h1; rw [hc] at h1; rw [hr, hw]; exact h.q3 n h1
  · intro r h1; rw [hr, hw] at h1; rw [hn]; exact h.q4 r h1
  · intro n nd h1; rw [hn] at h1; rw [hw]; exact h.wsel n nd h1

/-- replace node `n` by `x` (same status) -/
theorem inv1_setNode {inp : RunInput} {s : Sys} {n : Name} {nd x : Node} (h : Inv1 inp s)
    (hn : s.nodes n = some nd) (hst : x.status = nd.status) (hok : NodeOK inp s n x)
    (hr : x.pc = .self2 → x.waitRun = [] ∨ (n ∉ s.ready ∧ s.cur ≠ some n))
    (hsp : s.susp = some (.node n) → x.pc = .afterSelf1 ∨ x.pc = .afterSelf2)
    (hws : x.waitSelect = true → n ∈ s.waiting) :
    Inv1 inp (setNode s n x) := by
  have hstb : Stable s (setNode s n x) := by
    apply Stable.of_eq; intro d; rw [stOf_setNode]; split
    · rename_i e; subst e; simp [stOf, hn, hst]
    · rfl
  constructor
  · intro m md hm
    simp only [setNode_nodes] at hm
    split at hm
    · rename_i e; subst e; cases hm; exact hok.stable hstb
    · exact (h.node m md hm).stable hstb
  · intro r hr1 md hm hpc
    simp only [setNode_nodes] at hm
    simp only [setNode_ready] at hr1
    split at hm
    · rename_i e; subst e; cases hm
      rcases hr hpc with h1 | h1
      · exact h1
      · exact absurd hr1 h1.1
    · exact h.r1 r hr1 md hm hpc
  · intro m md hc hm hpc
    simp only [setNode_nodes] at hm
    simp only [setNode_cur] at hc
    split at hm
    · rename_i e; subst e; cases hm
      rcases hr hpc with h1 | h1
      · exact h1
      · exact absurd hc h1.2
    · exact h.r2 m md hc hm hpc
  · intro m hm
    simp only [setNode_susp] at hm
    simp only [setNode_nodes]
    split
    · rename_i e; subst e; exact ⟨x, rfl, hsp hm⟩
    · exact h.sp m hm
  · exact h.q1
  · exact h.q2
  · exact h.q3
  · intro r hr1
    simp only [setNode_nodes]
    split
    · exact ⟨x, rfl⟩
    · exact h.q4 r hr1
  · intro m md hm hw
    simp only [setNode_nodes] at hm
    split at hm
    · rename_i e; subst e; cases hm; exact hws hw
    · exact h.wsel m md hm hw

theorem mkNode_ok (inp : RunInput) (s : Sys) (t : Name) (anc : List Name) : NodeOK inp s t (mkNode inp t anc) := by
  constructor
  · intro d hd; exact Or.inl hd
  · intro d hd; exact Or.inl hd
  · intro h; simp [mkNode, PC.setupAbsorbed] at h
  · intro h; simp [mkNode, PC.inLoop] at h
  · intro h; simp [mkNode, PC.quiet] at h
  · intro h; simp [mkNode] at h
  · intro h; simp [mkNode] at h
  · exact ⟨fun d hd => hd, fun d hd => by simp only [mkNode]; exact mem_dedup.mpr hd⟩

/-- `_gen_node` creates the node of `t` -/
theorem inv1_create {inp : RunInput} {s : Sys} {t : Name} (anc : List Name) (h : Inv1 inp s)
    (ht : s.nodes t = none) : Inv1 inp (setNode s t (mkNode inp t anc)) := by
  have hstb : Stable s (setNode s t (mkNode inp t anc)) := by
    apply Stable.of_eq; intro d; rw [stOf_setNode]; split
    · rename_i e; subst e; simp [stOf, ht, mkNode]
    · rfl
  have hne : ∀ m md, s.nodes m = some md → m ≠ t := by
    intro m md hm e; subst e; rw [ht] at hm; cases hm
  constructor
  · intro m md hm
    simp only [setNode_nodes] at hm
    split at hm
    · rename_i e; subst e; cases hm; exact mkNode_ok inp _ _ _
    · exact (h.node m md hm).stable hstb
  · intro r hr1 md hm hpc
    simp only [setNode_nodes] at hm
    split at hm
    · cases hm; simp [mkNode] at hpc
    · exact h.r1 r hr1 md hm hpc
  · intro m md hc hm hpc
    simp only [setNode_nodes] at hm
    split at hm
    · cases hm; simp [mkNode] at hpc
    · exact h.r2 m md hc hm hpc
  · intro m hm
    obtain ⟨md, h1, h2⟩ := h.sp m hm
    refine ⟨md, ?_, h2⟩
    simp only [setNode_nodes, hne m md h1, if_false, h1]
  · exact h.q1
  · exact h.q2
  · exact h.q3
  · intro r hr1
    obtain ⟨md, h1⟩ := h.q4 r hr1
    exact ⟨md, by simp only [setNode_nodes, hne r md h1, if_false, h1]⟩
  · intro m md hm hw
    simp only [setNode_nodes] at hm
    split at hm
    · cases hm; simp [mkNode] at hw
    · exact h.wsel m md hm hw

/-- the runner sets the status of node `n` (not finished before) -/
theorem inv1_status {inp : RunInput} {s : Sys} {n : Name} {nd : Node} (st' : RS) (h : Inv1 inp s)
    (hn : s.nodes n = some nd) (hu : nd.status.finished = false)
    (hy : nd.pc.yielded1 = true) : Inv1 inp (setNode s n { nd with status := st' }) := by
  have hstb : Stable s (setNode s n { nd with status := st' }) := by
    intro d hd; rw [stOf_setNode]; split
    · rename_i e; subst e; simp [stOf, hn, hu] at hd
    · rfl
  have hok := h.node n nd hn
  constructor
  · intro m md hm
    simp only [setNode_nodes] at hm
    split at hm
    · rename_i e; subst e; cases hm
      have := hok.stable hstb
      exact ⟨this.kt, this.kc, this.ks, this.m1, this.m2, fun _ => hy, this.ws, this.st⟩
    · exact (h.node m md hm).stable hstb
  · intro r hr1 md hm hpc
    simp only [setNode_nodes] at hm
    split at hm
    · rename_i e; subst e; cases hm; exact h.r1 r hr1 nd hn hpc
    · exact h.r1 r hr1 md hm hpc
  · intro m md hc hm hpc
    simp only [setNode_nodes] at hm
    split at hm
    · rename_i e; subst e; cases hm; exact h.r2 m nd hc hn hpc
    · exact h.r2 m md hc hm hpc
  · intro m hm
    simp only [setNode_nodes]
    split
    · rename_i e; subst e
      obtain ⟨md, h1, h2⟩ := h.sp m hm
      rw [hn] at h1; cases h1
      exact ⟨_, rfl, h2⟩
    · exact h.sp m hm
  · exact h.q1
  · exact h.q2
  · exact h.q3
  · intro r hr1
    simp only [setNode_nodes]
    split
    · exact ⟨_, rfl⟩
    · exact h.q4 r hr1
  · intro m md hm hw
    simp only [setNode_nodes] at hm
    split at hm
    · rename_i e; subst e; cases hm; exact h.wsel m nd hn hw
    · exact h.wsel m md hm hw

theorem NodeOK.addWaiting {inp : RunInput} {s : Sys} {k : Name} {x : Node} (hok : NodeOK inp s k x) (m : Name) :
    NodeOK inp s k (x.addWaiting m) := by
  unfold Node.addWaiting; split
  · exact hok
  · exact ⟨hok.kt, hok.kc, hok.ks, hok.m1, hok.m2, hok.l, hok.ws, hok.st⟩

theorem addWaiting_fields (x : Node) (m : Name) :
    (x.addWaiting m).pc = x.pc ∧ (x.addWaiting m).status = x.status ∧ (x.addWaiting m).waitRun = x.waitRun ∧
    (x.addWaiting m).waitSelect = x.waitSelect := by
  unfold Node.addWaiting; split <;> exact ⟨rfl, rfl, rfl, rfl⟩

theorem registerWaiting_nodes (s : Sys) (n : Name) (wf : List Name) (k : Name) :
    (registerWaiting s n wf).nodes k =
      match s.nodes k with
      | some x => if k ∈ wf then some (x.addWaiting n) else some x
      | none => none := rfl

theorem stOf_registerWaiting (s : Sys) (n : Name) (wf : List Name) (d : Name) :
    stOf (registerWaiting s n wf) d = stOf s d := by
  simp only [stOf, registerWaiting_nodes]
  cases h : s.nodes d with
  | none => rfl
  | some x =>
    show (match (if d ∈ wf then some (x.addWaiting n) else some x) with | some x => x.status | none => RS.none) = x.status
    by_cases hd : d ∈ wf
    · simp only [hd, if_true]; exact (addWaiting_fields x n).2.1
    · simp only [hd, if_false]

theorem inv1_registerWaiting {inp : RunInput} {s : Sys} (n : Name) (wf : List Name) (h : Inv1 inp s) :
    Inv1 inp (registerWaiting s n wf) := by
  have hstb : Stable s (registerWaiting s n wf) := Stable.of_eq (stOf_registerWaiting s n wf)
  have back : ∀ k y, (registerWaiting s n wf).nodes k = some y →
      ∃ x, s.nodes k = some x ∧ (y = x ∨ y = x.addWaiting n) := by
    intro k y hy
    rw [registerWaiting_nodes] at hy
    cases hk : s.nodes k with
    | none => rw [hk] at hy; cases hy
    | some x =>
      rw [hk] at hy
      by_cases hkw : k ∈ wf
      · simp only [hkw, if_true, Option.some.injEq] at hy; exact ⟨x, rfl, Or.inr hy.symm⟩
      · simp only [hkw, if_false, Option.some.injEq] at hy; exact ⟨x, rfl, Or.inl hy.symm⟩
  have fwd : ∀ k x, s.nodes k = some x → ∃ y, (registerWaiting s n wf).nodes k = some y := by
    intro k x hx; rw [registerWaiting_nodes, hx]
    by_cases hkw : k ∈ wf
    · exact ⟨x.addWaiting n, by simp only [hkw, if_true]⟩
    · exact ⟨x, by simp only [hkw, if_false]⟩
  constructor
  · intro m md hm
    obtain ⟨x, hx, e | e⟩ := back m md hm
    · subst e; exact (h.node m _ hx).stable hstb
    · subst e; exact ((h.node m x hx).stable hstb).addWaiting n
  · intro r hr1 md hm hpc
    obtain ⟨x, hx, e | e⟩ := back r md hm
    · subst e; exact h.r1 r hr1 _ hx hpc
    · subst e
      have f := addWaiting_fields x n
      rw [f.1] at hpc; rw [f.2.2.1]; exact h.r1 r hr1 x hx hpc
  · intro m md hc hm hpc
    obtain ⟨x, hx, e | e⟩ := back m md hm
    · subst e; exact h.r2 m _ hc hx hpc
    · subst e
      have f := addWaiting_fields x n
      rw [f.1] at hpc; rw [f.2.2.1]; exact h.r2 m x hc hx hpc
  · intro m hm
    obtain ⟨x, hx, hp⟩ := h.sp m hm
    obtain ⟨y, hy⟩ := fwd m x hx
    obtain ⟨x', hx', e | e⟩ := back m y hy
    · subst e; rw [hx] at hx'; cases hx'; exact ⟨_, hy, hp⟩
    · subst e; rw [hx] at hx'; cases hx'
      exact ⟨_, hy, by rw [(addWaiting_fields x n).1]; exact hp⟩
  · exact h.q1
  · exact h.q2
  · exact h.q3
  · intro r hr1
    obtain ⟨x, hx⟩ := h.q4 r hr1
    exact fwd r x hx
  · intro m md hm hw
    obtain ⟨x, hx, e | e⟩ := back m md hm
    · subst e; exact h.wsel m _ hx hw
    · subst e; rw [(addWaiting_fields x n).2.2.2] at hw; exact h.wsel m x hx hw

/-! ### queue operations (nodes unchanged) -/

theorem inv1_park {inp : RunInput} {s s' : Sys} {n : Name} {nd : Node} (h : Inv1 inp s) (hc : s.cur = some n)
    (hn : s.nodes n = some nd)
    (e1 : s'.nodes = s.nodes) (e2 : s'.ready = s.ready) (e3 : s'.waiting = s.waiting ++ [n]) (e4 : s'.cur = none)
    (e5 : s'.susp = s.susp) : Inv1 inp s' := by
  have q3 := h.q3 n hc
  constructor
  · intro m md hm; rw [e1] at hm; exact (h.node m md hm).congr e1
  · intro r hr1 md hm; rw [e2] at hr1; rw [e1] at hm; exact h.r1 r hr1 md hm
  · intro m md hc'; rw [e4] at hc'; cases hc'
  · intro m hm; rw [e5] at hm; rw [e1]; exact h.sp m hm
  · rw [e2]; exact h.q1
  · intro r hr1; rw [e2] at hr1; rw [e3]
    simp only [List.mem_append, List.mem_singleton, not_or]
    exact ⟨h.q2 r hr1, fun e => q3.1 (e ▸ hr1)⟩
  · intro m hc'; rw [e4] at hc'; cases hc'
  · intro r hr1; rw [e2, e3] at hr1; rw [e1]
    simp only [List.mem_append, List.mem_singleton] at hr1
    rcases hr1 with h1 | h1 | h1
    · exact h.q4 r (Or.inl h1)
    · exact h.q4 r (Or.inr h1)
    · subst h1; exact ⟨nd, hn⟩
  · intro m md hm hw; rw [e1] at hm; rw [e3]; simp [h.wsel m md hm hw]

theorem inv1_pop {inp : RunInput} {s s' : Sys} {r : Name} {rs : List Name} (h : Inv1 inp s) (hc : s.cur = none)
    (hr : s.ready = r :: rs)
    (e1 : s'.nodes = s.nodes) (e2 : s'.ready = rs) (e3 : s'.waiting = s.waiting) (e4 : s'.cur = some r)
    (e5 : s'.susp = s.susp) : Inv1 inp s' := by
  have nd := h.q1; rw [hr] at nd
  have ⟨hnot, hnd⟩ := List.nodup_cons.mp nd
  constructor
  · intro m md hm; rw [e1] at hm; exact (h.node m md hm).congr e1
  · intro x hx md hm; rw [e2] at hx; rw [e1] at hm; exact h.r1 x (by rw [hr]; simp [hx]) md hm
  · intro m md hc' hm; rw [e4] at hc'; cases hc'; rw [e1] at hm; exact h.r1 r (by rw [hr]; simp) md hm
  · intro m hm; rw [e5] at hm; rw [e1]; exact h.sp m hm
  · rw [e2]; exact hnd
  · intro x hx; rw [e2] at hx; rw [e3]; exact h.q2 x (by rw [hr]; simp [hx])
  · intro m hc'; rw [e4] at hc'; cases hc'; rw [e2, e3]; exact ⟨hnot, h.q2 r (by rw [hr]; simp)⟩
  · intro x hx; rw [e2, e3] at hx; rw [e1]
    rcases hx with h1 | h1
    · exact h.q4 x (Or.inl (by rw [hr]; simp [h1]))
    · exact h.q4 x (Or.inr h1)
  · intro m md hm hw; rw [e1] at hm; rw [e3]; exact h.wsel m md hm hw

/-- a node that is in neither queue becomes the current one (a freshly created node from `tasks_to_run`) -/
theorem inv1_setCur {inp : RunInput} {s s' : Sys} {t : Name} (h : Inv1 inp s)
    (ht1 : t ∉ s.ready) (ht2 : t ∉ s.waiting) (hpc : ∀ nd, s.nodes t = some nd → nd.pc ≠ .self2)
    (e1 : s'.nodes = s.nodes) (e2 : s'.ready = s.ready) (e3 : s'.waiting = s.waiting) (e4 : s'.cur = some t)
    (e5 : s'.susp = s.susp) : Inv1 inp s' := by
  constructor
  · intro m md hm; rw [e1] at hm; exact (h.node m md hm).congr e1
  · intro x hx md hm; rw [e2] at hx; rw [e1] at hm; exact h.r1 x hx md hm
  · intro m md hc' hm hp; rw [e4] at hc'; cases hc'; rw [e1] at hm; exact absurd hp (hpc md hm)
  · intro m hm; rw [e5] at hm; rw [e1]; exact h.sp m hm
  · rw [e2]; exact h.q1
  · intro x hx; rw [e2] at hx; rw [e3]; exact h.q2 x hx
  · intro m hc'; rw [e4] at hc'; cases hc'; rw [e2, e3]; exact ⟨ht1, ht2⟩
  · intro x hx; rw [e2, e3] at hx; rw [e1]; exact h.q4 x hx
  · intro m md hm hw; rw [e1] at hm; rw [e3]; exact h.wsel m md hm hw

/-- a node outside both queues (not the current one) is appended to `ready` -/
theorem inv1_pushReady {inp : RunInput} {s s' : Sys} {d : Name} {nd : Node} (h : Inv1 inp s)
    (hd1 : d ∉ s.ready) (hd2 : d ∉ s.waiting) (hd3 : s.cur ≠ some d) (hn : s.nodes d = some nd)
    (hpc : nd.pc = .self2 → nd.waitRun = [])
    (e1 : s'.nodes = s.nodes) (e2 : s'.ready = s.ready ++ [d]) (e3 : s'.waiting = s.waiting) (e4 : s'.cur = s.cur)
    (e5 : s'.susp = s.susp) : Inv1 inp s' := by
  constructor
  · intro m md hm; rw [e1] at hm; exact (h.node m md hm).congr e1
  · intro x hx md hm hp; rw [e2] at hx; rw [e1] at hm
    simp only [List.mem_append, List.mem_singleton] at hx
    rcases hx with h1 | h1
    · exact h.r1 x h1 md hm hp
    · subst h1; rw [hn] at hm; cases hm; exact hpc hp
  · intro m md hc' hm; rw [e4] at hc'; rw [e1] at hm; exact h.r2 m md hc' hm
  · intro m hm; rw [e5] at hm; rw [e1]; exact h.sp m hm
  · rw [e2]; exact List.nodup_append.mpr ⟨h.q1, by simp, by intro a ha b hb; simp at hb; subst hb; exact fun e => hd1 (e ▸ ha)⟩
  · intro x hx; rw [e2] at hx; rw [e3]
    simp only [List.mem_append, List.mem_singleton] at hx
    rcases hx with h1 | h1
    · exact h.q2 x h1
    · subst h1; exact hd2
  · intro m hc'; rw [e4] at hc'; rw [e2, e3]
    have := h.q3 m hc'
    simp only [List.mem_append, List.mem_singleton, not_or]
    exact ⟨⟨this.1, fun e => hd3 (e ▸ hc')⟩, this.2⟩
  · intro x hx; rw [e2, e3] at hx; rw [e1]
    simp only [List.mem_append, List.mem_singleton] at hx
    rcases hx with (h1 | h1) | h1
    · exact h.q4 x (Or.inl h1)
    · subst h1; exact ⟨nd, hn⟩
    · exact h.q4 x (Or.inr h1)
  · intro m md hm hw; rw [e1] at hm; rw [e3]; exact h.wsel m md hm hw

/-- a waiting node becomes ready -/
theorem inv1_toReady {inp : RunInput} {s s' : Sys} {w : Name} {nd : Node} (h : Inv1 inp s)
    (hw : w ∈ s.waiting) (hn : s.nodes w = some nd) (hpc : nd.pc = .self2 → nd.waitRun = [])
    (hws : nd.waitSelect = false)
    (e1 : s'.nodes = s.nodes) (e2 : s'.ready = s.ready ++ [w]) (e3 : s'.waiting = s.waiting.filter (· ≠ w))
    (e4 : s'.cur = s.cur) (e5 : s'.susp = s.susp) : Inv1 inp s' := by
  have hwr : w ∉ s.ready := fun hr => h.q2 w hr hw
  constructor
  · intro m md hm; rw [e1] at hm; exact (h.node m md hm).congr e1
  · intro x hx md hm hp; rw [e2] at hx; rw [e1] at hm
    simp only [List.mem_append, List.mem_singleton] at hx
    rcases hx with h1 | h1
    · exact h.r1 x h1 md hm hp
    · subst h1; rw [hn] at hm; cases hm; exact hpc hp
  · intro m md hc' hm; rw [e4] at hc'; rw [e1] at hm; exact h.r2 m md hc' hm
  · intro m hm; rw [e5] at hm; rw [e1]; exact h.sp m hm
  · rw [e2]; exact List.nodup_append.mpr ⟨h.q1, by simp, by intro a ha b hb; simp at hb; subst hb; exact fun e => hwr (e ▸ ha)⟩
  · intro x hx; rw [e2] at hx; rw [e3]
    simp only [List.mem_append, List.mem_singleton] at hx
    simp only [List.mem_filter, not_and]
    rcases hx with h1 | h1
    · intro h2; exact absurd h2 (h.q2 x h1)
    · subst h1; intro _; simp
  · intro m hc'; rw [e4] at hc'; rw [e2, e3]
    have := h.q3 m hc'
    simp only [List.mem_append, List.mem_singleton, not_or, List.mem_filter, not_and]
    exact ⟨⟨this.1, fun e => this.2 (e ▸ hw)⟩, fun h2 => absurd h2 this.2⟩
  · intro x hx; rw [e2, e3] at hx; rw [e1]
    simp only [List.mem_append, List.mem_singleton, List.mem_filter] at hx
    rcases hx with (h1 | h1) | h1
    · exact h.q4 x (Or.inl h1)
    · subst h1; exact ⟨nd, hn⟩
    · exact h.q4 x (Or.inr h1.1)
  · intro m md hm hw'; rw [e1] at hm; rw [e3]
    simp only [List.mem_filter]
    refine ⟨h.wsel m md hm hw', ?_⟩
    by_cases e : m = w
    · subst e; rw [hn] at hm; cases hm; rw [hws] at hw'; cases hw'
    · simpa using e

/-- the generator stops running (`susp := some o`), `o` not a node or a node at a yield position -/
theorem inv1_susp {inp : RunInput} {s s' : Sys} (o : Option DOut) (h : Inv1 inp s)
    (ho : ∀ n, o = some (.node n) → ∃ nd, s.nodes n = some nd ∧ (nd.pc = .afterSelf1 ∨ nd.pc = .afterSelf2))
    (e1 : s'.nodes = s.nodes) (e2 : s'.ready = s.ready) (e3 : s'.waiting = s.waiting) (e4 : s'.cur = s.cur)
    (e5 : s'.susp = o) : Inv1 inp s' := by
  constructor
  · intro m md hm; rw [e1] at hm; exact (h.node m md hm).congr e1
  · intro x hx md hm; rw [e2] at hx; rw [e1] at hm; exact h.r1 x hx md hm
  · intro m md hc' hm; rw [e4] at hc'; rw [e1] at hm; exact h.r2 m md hc' hm
  · intro m hm; rw [e5] at hm; rw [e1]; exact ho m hm
  · rw [e2]; exact h.q1
  · intro x hx; rw [e2] at hx; rw [e3]; exact h.q2 x hx
  · intro m hc'; rw [e4] at hc'; rw [e2, e3]; exact h.q3 m hc'
  · intro x hx; rw [e2, e3] at hx; rw [e1]; exact h.q4 x hx
  · intro m md hm hw; rw [e1] at hm; rw [e3]; exact h.wsel m md hm hw

theorem inv1_curNone {inp : RunInput} {s s' : Sys} (h : Inv1 inp s)
    (e1 : s'.nodes = s.nodes) (e2 : s'.ready = s.ready) (e3 : s'.waiting = s.waiting) (e4 : s'.cur = none)
    (e5 : s'.susp = s.susp) : Inv1 inp s' := by
  constructor
  · intro m md hm; rw [e1] at hm; exact (h.node m md hm).congr e1
  · intro x hx md hm; rw [e2] at hx; rw [e1] at hm; exact h.r1 x hx md hm
  · intro m md hc'; rw [e4] at hc'; cases hc'
  · intro m hm; rw [e5] at hm; rw [e1]; exact h.sp m hm
  · rw [e2]; exact h.q1
  · intro x hx; rw [e2] at hx; rw [e3]; exact h.q2 x hx
  · intro m hc'; rw [e4] at hc'; cases hc'
  · intro x hx; rw [e2, e3] at hx; rw [e1]; exact h.q4 x hx
  · intro m md hm hw; rw [e1] at hm; rw [e3]; exact h.wsel m md hm hw

end DoitModel.Run
