import DoitModel.Proofs.C09Step
/-! # C09 — helper lemmas for the counterexample theorems over the pinned dispatcher, and the rank descent over the
    waiting queue used for `_check_deadlock` -/
namespace DoitModel.Run

theorem workerMovePinned_step {inp : RunInput} {s s' : Sys} {c : Choice} :
    ∀ k, workerMovePinned inp s k = some (c, s') → stepPinned inp s c = some s' := by
  intro k
  induction k with
  | zero => intro h; simp [workerMovePinned] at h
  | succ k ih =>
    intro h
    simp only [workerMovePinned] at h
    cases h1 : stepPinned inp s (.take k) with
    | some a => simp only [h1] at h; cases h; exact h1
    | none =>
      simp only [h1] at h
      cases h2 : stepPinned inp s (.done k) with
      | some a => simp only [h2] at h; cases h; exact h2
      | none => simp only [h2] at h; exact ih h

/-- the default schedule is a run of the pinned system -/
theorem runPinned_auto (inp : RunInput) : ∀ (fuel : Nat) (s : Sys),
    runPinned inp s (autoRunPinned inp fuel s).2 = some (autoRunPinned inp fuel s).1 := by
  intro fuel
  induction fuel with
  | zero => intro s; simp [autoRunPinned, runPinned]
  | succ fuel ih =>
    intro s
    simp only [autoRunPinned]
    cases h1 : stepPinned inp s (.main (defaultPerm s)) with
    | some s' => simp only [runPinned, h1]; exact ih s'
    | none =>
      simp only []
      cases h2 : workerMovePinned inp s s.nStarted with
      | none => simp [runPinned]
      | some cs =>
        obtain ⟨c, s'⟩ := cs
        simp only [runPinned, workerMovePinned_step _ h2]
        exact ih s'

/-- rank descent: if every parked node awaits a parked node, and awaited tasks are dependencies (`AllN`), and the
    dependency graph is ranked, then nothing is parked -/
theorem waiting_descent {inp : RunInput} {rank : Name → Nat} {s : Sys} (hr : Ranked inp rank) (h : AllN inp rank s)
    (hw : ∀ w ∈ s.waiting, ∃ nd, s.nodes w = some nd ∧ ∃ d, (d ∈ nd.waitRun ∨ d ∈ nd.waitRunCalc) ∧ d ∈ s.waiting) :
    s.waiting = [] := by
  have key : ∀ k w, w ∈ s.waiting → rank w = k → False := by
    intro k
    induction k using Nat.strongRecOn with
    | _ k ih =>
      intro w hwm hk
      obtain ⟨nd, hn, d, hd, hdw⟩ := hw w hwm
      have hdep : Dep inp w d := by
        rcases hd with a | a
        · exact (h w nd hn).wr d a
        · exact Dep.ofCalc ((h w nd hn).wc d a)
      have := hr w d hdep
      exact ih (rank d) (by omega) d hdw rfl
  cases hq : s.waiting with
  | nil => rfl
  | cons w ws => exact (key (rank w) w (by rw [hq]; simp) rfl).elim

end DoitModel.Run
