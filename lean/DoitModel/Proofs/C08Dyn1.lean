import DoitModel.Proofs.C08Conf1
/-! # C08 (I10) with dynamic `calc_dep` edges, step 1: the relational denotation `Dyn.DenOf`

The dependency set of a task is no longer read off the task table: the calc_deps of `n` are the least set containing
`calcDep n` and closed under what its members deliver (`values['calc_dep']`), and the task_deps are `taskDep n` plus
what those members deliver (`values['task_dep']`, owners of `values['file_dep']`).  What a member `c` delivers is
`delivOf inp c d` (`Model/RunData.lean`) for its own outcome `d`: `calcRes c` when it was executed successfully or is
up-to-date, `calcResFail c` when it failed DURING its execution (`startedFail`: `_process_calc_dep_results` does not
look at `run_status`), nothing otherwise.  The outcome of the members is their own derived outcome — the derivation is bottom-up, and no acyclicity hypothesis is
needed: on a cyclic graph no derivation exists.  `Dyn.DenOf` is functional (`DenOf.functional`), depends on the task
table and the oracle only (`DenOf.same`), and coincides with `Run.DenOf` on graphs without calc_dep (`DenOf_noCalc`).

The development `Proofs/C08Dyn*.lean` mirrors `Proofs/C08Conf*.lean` in the namespace `DoitModel.Run.Dyn`. -/
namespace DoitModel.Run.Dyn

/-- the calc_deps of `n` when the outcomes are `dd` -/
inductive CalcOf (inp : RunInput) (dd : Name → Den) (n : Name) : Name → Prop
  | static {c : Name} : c ∈ inp.calcDep n → CalcOf inp dd n c
  | deliv {c x : Name} : CalcOf inp dd n c → x ∈ (delivOf inp c (dd c)).calcs → CalcOf inp dd n x

/-- every dependency `select_task(n)` looks at in its first pass: task_deps, calc_deps, and what the calc_deps
    deliver as task_deps (`delivOf`) -/
def DepOf (inp : RunInput) (dd : Name → Den) (n x : Name) : Prop :=
  x ∈ inp.taskDep n ∨ CalcOf inp dd n x ∨
  ∃ c, CalcOf inp dd n c ∧ (x ∈ (delivOf inp c (dd c)).tasks ∨ x ∈ (delivOf inp c (dd c)).files)

theorem stage1L_static (inp : RunInput) (dd : Name → Den) (n : Name) : stage1L inp dd (inp.taskDep n) n = stage1 inp dd n := rfl
theorem combineL_static (inp : RunInput) (dd : Name → Den) (n : Name) :
    combineL inp dd (inp.taskDep n) n = combine inp dd n := rfl

/-- `DenOf inp n d`: `d` is the outcome of `n` in a complete run; `L` lists the dependencies of `n` (`DepOf`) under the
    outcomes `dd`, each of which is derived -/
inductive DenOf (inp : RunInput) : Name → Den → Prop
  | mk (n : Name) (dd : Name → Den) (L : List Name)
      (hL : ∀ x, x ∈ L ↔ DepOf inp dd n x)
      (hT : ∀ d ∈ L, DenOf inp d (dd d))
      (hS : stage1L inp dd L n = .run → ∀ d ∈ inp.setup n, DenOf inp d (dd d)) :
      DenOf inp n (combineL inp dd L n)

theorem any_congr_set {l l' : List Name} {f g : Name → Bool} (hl : ∀ x, x ∈ l ↔ x ∈ l') (h : ∀ d ∈ l, f d = g d) :
    l.any f = l'.any g := by
  rw [Bool.eq_iff_iff, List.any_eq_true, List.any_eq_true]
  constructor
  · rintro ⟨x, hx, e⟩; exact ⟨x, (hl x).mp hx, by rw [← h x hx]; exact e⟩
  · rintro ⟨x, hx, e⟩; exact ⟨x, (hl x).mpr hx, by rw [h x ((hl x).mpr hx)]; exact e⟩

theorem stage1L_congr {inp : RunInput} {dd dd' : Name → Den} {L L' : List Name} {n : Name}
    (hl : ∀ x, x ∈ L ↔ x ∈ L') (h : ∀ d ∈ L, dd d = dd' d) : stage1L inp dd L n = stage1L inp dd' L' n := by
  unfold stage1L
  rw [any_congr_set (f := fun d => (dd d).isIgn) (g := fun d => (dd' d).isIgn) hl (fun d hd => by simp only [h d hd]),
      any_congr_set (f := fun d => (dd d).isFail) (g := fun d => (dd' d).isFail) hl (fun d hd => by simp only [h d hd])]

theorem combineL_congr {inp : RunInput} {dd dd' : Name → Den} {L L' : List Name} {n : Name}
    (hl : ∀ x, x ∈ L ↔ x ∈ L') (hT : ∀ d ∈ L, dd d = dd' d)
    (hS : stage1L inp dd L n = .run → ∀ d ∈ inp.setup n, dd d = dd' d) : combineL inp dd L n = combineL inp dd' L' n := by
  unfold combineL
  rw [← stage1L_congr hl hT]
  cases h1 : stage1L inp dd L n with
  | run => simp only []; exact stage2_congr (hS h1)
  | _ => rfl

theorem combineL_ne_bot (inp : RunInput) (dd : Name → Den) (L : List Name) (n : Name) : combineL inp dd L n ≠ .bot := by
  unfold combineL
  cases stage1L inp dd L n <;> simp [stage2_ne_bot]

theorem DenOf.ne_bot {inp : RunInput} {n : Name} {d : Den} (h : DenOf inp n d) : d ≠ .bot := by
  cases h with
  | mk n dd L hL hT hS => exact combineL_ne_bot inp dd L n

/-- two outcome assignments that agree on every calc_dep they both justify have the same calc_deps -/
theorem CalcOf.transfer {inp : RunInput} {dd dd' : Name → Den} {n : Name}
    (h : ∀ c, CalcOf inp dd n c → CalcOf inp dd' n c → dd c = dd' c) {x : Name} (hx : CalcOf inp dd n x) :
    CalcOf inp dd' n x := by
  induction hx with
  | static hc => exact CalcOf.static hc
  | deliv hc hm ih => exact CalcOf.deliv ih (by rw [← h _ hc ih]; exact hm)

theorem DepOf.transfer {inp : RunInput} {dd dd' : Name → Den} {n : Name}
    (h : ∀ c, CalcOf inp dd n c → CalcOf inp dd' n c → dd c = dd' c) {x : Name} (hx : DepOf inp dd n x) :
    DepOf inp dd' n x := by
  rcases hx with a | a | ⟨c, hc, hm⟩
  · exact Or.inl a
  · exact Or.inr (Or.inl (a.transfer h))
  · have hc' := hc.transfer h
    exact Or.inr (Or.inr ⟨c, hc', by rw [← h c hc hc']; exact hm⟩)

theorem DepOf.ofCalc {inp : RunInput} {dd : Name → Den} {n c : Name} (h : CalcOf inp dd n c) : DepOf inp dd n c :=
  Or.inr (Or.inl h)

/-- two justified dependency lists of the same task are the same set with the same outcomes, provided derived outcomes
    of members of the first are unique -/
theorem dep_agree {inp : RunInput} {n : Name} {dd dd' : Name → Den} {L L' : List Name}
    (hL : ∀ x, x ∈ L ↔ DepOf inp dd n x) (hL' : ∀ x, x ∈ L' ↔ DepOf inp dd' n x)
    (hT' : ∀ d ∈ L', DenOf inp d (dd' d))
    (uniq : ∀ d ∈ L, ∀ b, DenOf inp d b → dd d = b) :
    (∀ x, x ∈ L ↔ x ∈ L') ∧ ∀ d ∈ L, dd d = dd' d := by
  have agree : ∀ c, CalcOf inp dd n c → CalcOf inp dd' n c → dd c = dd' c := fun c h1 h2 =>
    uniq c ((hL c).mpr (DepOf.ofCalc h1)) _ (hT' c ((hL' c).mpr (DepOf.ofCalc h2)))
  have agree' : ∀ c, CalcOf inp dd' n c → CalcOf inp dd n c → dd' c = dd c := fun c h1 h2 => (agree c h2 h1).symm
  have sub : ∀ x, x ∈ L ↔ x ∈ L' := fun x =>
    ⟨fun hx => (hL' x).mpr (((hL x).mp hx).transfer agree), fun hx => (hL x).mpr (((hL' x).mp hx).transfer agree')⟩
  exact ⟨sub, fun d hd => uniq d hd _ (hT' d ((sub d).mp hd))⟩

/-- the denotation is a partial function of the input: no schedule, no choice enters it -/
theorem DenOf.functional {inp : RunInput} {n : Name} {a b : Den} (ha : DenOf inp n a) (hb : DenOf inp n b) : a = b := by
  induction ha generalizing b with
  | mk n dd L hL hT hS ihT ihS =>
    cases hb with
    | mk _ dd' L' hL' hT' hS' =>
      obtain ⟨sub, eT⟩ := dep_agree hL hL' hT' (fun d hd b hb => ihT d hd hb)
      apply combineL_congr sub eT
      intro h1 d hd
      have h1' : stage1L inp dd' L' n = .run := by rw [← stage1L_congr sub eT]; exact h1
      exact ihS h1 d hd (hS' h1' d hd)

/-- the fields of the input the denotation reads: those of `SameTasks` and what calc tasks deliver (executed
    successfully: `calcRes`; failed during execution: `calcResFail`) -/
structure SameTasksC (a b : RunInput) : Prop where
  base : SameTasks a b
  calcRes : a.calcRes = b.calcRes
  calcResFail : a.calcResFail = b.calcResFail

theorem SameTasksC.refl (a : RunInput) : SameTasksC a a := ⟨SameTasks.refl a, rfl, rfl⟩
theorem SameTasksC.symm {a b : RunInput} (h : SameTasksC a b) : SameTasksC b a := ⟨h.1.symm, h.2.symm, h.3.symm⟩

theorem delivOf_same {a b : RunInput} (h : SameTasksC a b) (c : Name) (d : Den) : delivOf a c d = delivOf b c d := by
  unfold delivOf startedFail
  rw [h.calcRes, h.calcResFail, h.base.statusOf, h.base.argsOk]

theorem delivOf_cases (inp : RunInput) (c : Name) (d : Den) :
    (d.rs.good = true ∧ delivOf inp c d = inp.calcRes c) ∨
    (d.rs.good = false ∧ startedFail inp c d = true ∧ delivOf inp c d = inp.calcResFail c) ∨
    (delivOf inp c d = {}) := by
  unfold delivOf
  by_cases h1 : d.rs.good = true
  · exact Or.inl ⟨h1, by simp [h1]⟩
  · by_cases h2 : startedFail inp c d = true
    · exact Or.inr (Or.inl ⟨by simpa using h1, h2, by simp [h1, h2]⟩)
    · exact Or.inr (Or.inr (by simp [h1, h2]))

theorem delivOf_bot (inp : RunInput) (c : Name) : delivOf inp c .bot = {} := by
  simp [delivOf, startedFail, Den.rs, RS.good]

theorem startedFail_rs {inp : RunInput} {c : Name} {d : Den} (h : startedFail inp c d = true) : d.rs = .fail := by
  cases d with
  | fail k => rfl
  | _ => simp [startedFail] at h

theorem delivOf_startedFail {inp : RunInput} {c : Name} {d : Den} (hs : startedFail inp c d = true) :
    delivOf inp c d = inp.calcResFail c := by
  simp [delivOf, startedFail_rs hs, hs, RS.good]

theorem delivOf_fail {inp : RunInput} {c : Name} {d : Den} (hg : d.rs.good = false) (hs : startedFail inp c d = true) :
    delivOf inp c d = inp.calcResFail c := by
  simp [delivOf, hg, hs]

theorem delivOf_good {inp : RunInput} {c : Name} {d : Den} (hg : d.rs.good = true) : delivOf inp c d = inp.calcRes c := by
  simp [delivOf, hg]

theorem CalcOf.same {a b : RunInput} (h : SameTasksC a b) {dd : Name → Den} {n x : Name} (hx : CalcOf a dd n x) :
    CalcOf b dd n x := by
  induction hx with
  | static hc => exact CalcOf.static (by rw [← h.base.calcDep]; exact hc)
  | deliv _ hm ih => exact CalcOf.deliv ih (by rw [← delivOf_same h]; exact hm)

theorem DepOf.same {a b : RunInput} (h : SameTasksC a b) {dd : Name → Den} {n x : Name} (hx : DepOf a dd n x) :
    DepOf b dd n x := by
  rcases hx with c | c | ⟨c, hc, hm⟩
  · exact Or.inl (by rw [← h.base.taskDep]; exact c)
  · exact Or.inr (Or.inl (c.same h))
  · exact Or.inr (Or.inr ⟨c, hc.same h, by rw [← delivOf_same h]; exact hm⟩)

theorem stage1L_same {a b : RunInput} (h : SameTasks a b) (dd : Name → Den) (L : List Name) (n : Name) :
    stage1L a dd L n = stage1L b dd L n := by
  unfold stage1L effStatus; rw [h.ignored, h.statusOf, h.always]

theorem combineL_same {a b : RunInput} (h : SameTasks a b) (dd : Name → Den) (L : List Name) (n : Name) :
    combineL a dd L n = combineL b dd L n := by
  simp only [combineL, stage1L_same h, stage2_same h]

theorem DenOf.same {a b : RunInput} (h : SameTasksC a b) {n : Name} {d : Den} (hd : DenOf a n d) : DenOf b n d := by
  induction hd with
  | mk n dd L hL hT hS ihT ihS =>
    rw [combineL_same h.base]
    refine DenOf.mk n dd L ?_ ihT ?_
    · intro x; rw [hL x]; exact ⟨fun y => y.same h, fun y => y.same h.symm⟩
    · intro h1 d hd; rw [← h.base.setup] at hd; rw [← stage1L_same h.base] at h1; exact ihS h1 d hd

theorem DenOf_congr {a b : RunInput} (h : SameTasksC a b) (n : Name) (d : Den) : DenOf a n d ↔ DenOf b n d :=
  ⟨fun x => x.same h, fun x => x.same h.symm⟩

/-! ### graphs without calc_dep: the two denotations coincide -/

theorem CalcOf.noCalc {inp : RunInput} (hnc : NoCalc inp) {dd : Name → Den} {n x : Name} (h : CalcOf inp dd n x) :
    False := by
  induction h with
  | static hc => rw [hnc] at hc; cases hc
  | deliv _ _ ih => exact ih

theorem DepOf_noCalc {inp : RunInput} (hnc : NoCalc inp) (dd : Name → Den) (n x : Name) :
    DepOf inp dd n x ↔ x ∈ inp.taskDep n := by
  constructor
  · rintro (a | a | ⟨c, hc, _⟩)
    · exact a
    · exact (a.noCalc hnc).elim
    · exact (hc.noCalc hnc).elim
  · exact Or.inl

theorem DenOf_of_static {inp : RunInput} (hnc : NoCalc inp) {n : Name} {d : Den} (h : Run.DenOf inp n d) :
    DenOf inp n d := by
  induction h with
  | mk n dd hT hS ihT ihS =>
    rw [← combineL_static]
    exact DenOf.mk n dd (inp.taskDep n) (fun x => (DepOf_noCalc hnc dd n x).symm) ihT
      (fun h1 => ihS (by rw [← stage1L_static]; exact h1))

theorem DenOf_to_static {inp : RunInput} (hnc : NoCalc inp) {n : Name} {d : Den} (h : DenOf inp n d) :
    Run.DenOf inp n d := by
  induction h with
  | mk n dd L hL hT hS ihT ihS =>
    have sub : ∀ x, x ∈ L ↔ x ∈ inp.taskDep n := fun x => (hL x).trans (DepOf_noCalc hnc dd n x)
    have e1 : stage1L inp dd L n = stage1 inp dd n := stage1L_congr sub (fun _ _ => rfl)
    have e : combineL inp dd L n = combine inp dd n := combineL_congr sub (fun _ _ => rfl) (fun _ _ _ => rfl)
    rw [e]
    exact Run.DenOf.mk n dd (fun d hd => ihT d ((sub d).mpr hd)) (fun h1 => ihS (by rw [e1]; exact h1))

/-- on graphs without calc_dep `Dyn.DenOf` is the static denotation -/
theorem DenOf_noCalc {inp : RunInput} (hnc : NoCalc inp) (n : Name) (d : Den) : DenOf inp n d ↔ Run.DenOf inp n d :=
  ⟨DenOf_to_static hnc, DenOf_of_static hnc⟩

end DoitModel.Run.Dyn
