import DoitModel.Proofs.LoadAccept
/-! definition order: `funcs.sort(key=line)` is a stable sort, the task list is the concatenation of the creators'
    results in that order -/
namespace DoitModel.Load

theorem insertByLine_perm (c : Creator) (l : List Creator) : (insertByLine c l).Perm (c :: l) := by
  induction l with
  | nil => simp [insertByLine]
  | cons x xs ih =>
    unfold insertByLine
    split
    · exact List.Perm.refl _
    · exact (List.Perm.cons x ih).trans (List.Perm.swap c x xs)

theorem foldl_insert_perm (cs acc : List Creator) :
    (cs.foldl (fun acc c => insertByLine c acc) acc).Perm (acc ++ cs) := by
  induction cs generalizing acc with
  | nil => simp
  | cons c rest ih =>
    simp only [List.foldl_cons]
    refine (ih (insertByLine c acc)).trans ?_
    refine (List.Perm.append_right rest (insertByLine_perm c acc)).trans ?_
    simp only [List.cons_append]
    exact List.perm_middle.symm

theorem sortByLine_perm (cs : List Creator) : (sortByLine cs).Perm cs := by
  simpa [sortByLine] using foldl_insert_perm cs []

def SortedByLine (l : List Creator) : Prop := l.Pairwise (fun a b => a.line ≤ b.line)

theorem insertByLine_sorted (c : Creator) (l : List Creator) (h : SortedByLine l) : SortedByLine (insertByLine c l) := by
  induction l with
  | nil => simp [insertByLine, SortedByLine]
  | cons x xs ih =>
    unfold SortedByLine at h ih ⊢
    rw [List.pairwise_cons] at h
    unfold insertByLine
    split
    · rename_i hlt
      rw [List.pairwise_cons]
      refine ⟨?_, List.pairwise_cons.mpr h⟩
      intro y hy
      rcases List.mem_cons.mp hy with rfl | hy'
      · omega
      · have := h.1 y hy'; omega
    · rename_i hge
      rw [List.pairwise_cons]
      refine ⟨?_, ih h.2⟩
      intro y hy
      rcases (mem_insertByLine c y xs).mp hy with rfl | hy'
      · omega
      · exact h.1 y hy'

theorem foldl_insert_sorted (cs acc : List Creator) (h : SortedByLine acc) :
    SortedByLine (cs.foldl (fun acc c => insertByLine c acc) acc) := by
  induction cs generalizing acc with
  | nil => simpa
  | cons c rest ih => exact ih _ (insertByLine_sorted c acc h)

theorem sortByLine_sorted (cs : List Creator) : SortedByLine (sortByLine cs) :=
  foldl_insert_sorted cs [] (by simp [SortedByLine])

/-- creators defined on the same line keep their namespace order -/
theorem insertByLine_filter (c : Creator) (l : List Creator) (n : Nat) (h : SortedByLine l) :
    (insertByLine c l).filter (fun x => x.line == n) =
      l.filter (fun x => x.line == n) ++ (if c.line == n then [c] else []) := by
  induction l with
  | nil => simp [insertByLine, List.filter_cons]
  | cons x xs ih =>
    unfold SortedByLine at h ih
    rw [List.pairwise_cons] at h
    unfold insertByLine
    split
    · rename_i hlt
      by_cases hcn : c.line = n
      · have hnil : (x :: xs).filter (fun y => y.line == n) = [] := by
          rw [List.filter_eq_nil_iff]
          intro y hy
          rcases List.mem_cons.mp hy with rfl | hy'
          · simp; omega
          · have := h.1 y hy'; simp; omega
        simp [List.filter_cons, hcn] at hnil ⊢
        simp [hnil]
      · simp [List.filter_cons, hcn]
    · simp only [List.filter_cons]
      rw [ih h.2]
      split <;> simp

theorem foldl_insert_filter (cs acc : List Creator) (n : Nat) (h : SortedByLine acc) :
    (cs.foldl (fun acc c => insertByLine c acc) acc).filter (fun x => x.line == n) =
      acc.filter (fun x => x.line == n) ++ cs.filter (fun x => x.line == n) := by
  induction cs generalizing acc with
  | nil => simp
  | cons c rest ih =>
    simp only [List.foldl_cons]
    rw [ih _ (insertByLine_sorted c acc h), insertByLine_filter c acc n h, List.filter_cons]
    split <;> simp

theorem sortByLine_stable (cs : List Creator) (n : Nat) :
    (sortByLine cs).filter (fun x => x.line == n) = cs.filter (fun x => x.line == n) := by
  simpa [sortByLine] using foldl_insert_filter cs [] n (by simp [SortedByLine])

/-- `parts` are the task lists of the creators `cs`, one by one -/
def PartsOf : List Creator → List (List Task) → Prop
  | [], [] => True
  | c :: cs, p :: ps => generate c.name c.result = .ok p ∧ PartsOf cs ps
  | _, _ => False

theorem generateAll_parts (cmds : List Name) (cs : List Creator) (ts : List Task)
    (h : generateAll cmds cs = .ok ts) : ∃ parts, PartsOf cs parts ∧ ts = parts.flatten := by
  induction cs generalizing ts with
  | nil => simp [generateAll] at h; subst h; exact ⟨[], trivial, rfl⟩
  | cons c rest ih =>
    unfold generateAll at h
    split at h
    · simp at h
    · rename_i seg hseg
      split at h
      · simp at h
      · split at h
        · simp at h
        · rename_i more hmore
          cases h
          obtain ⟨ps, hps, hflat⟩ := ih more hmore
          exact ⟨seg :: ps, ⟨hseg, hps⟩, by simp [hflat]⟩

end DoitModel.Load
