import DoitModel.Model.Act
/-! Frame lemma of the stream machine with the live copy (`Writer` forwarding), by induction over `Fwd.WN`. -/
namespace DoitModel.Act.Fwd
open DoitModel.Act

theorem run_cons (s : St) (e : Ev) (xs : List Ev) : run s (e :: xs) = run (step s e) xs := rfl

theorem run_exec (s : St) (b : Act) (on : Bool) (body rest : List Ev) :
    run s ([.getlive b on, .save b, .set b] ++ body ++ [.restore b, .read b] ++ rest) =
      run (step (step (run (step (step (step s (.getlive b on)) (.save b)) (.set b)) body) (.restore b)) (.read b))
        rest := by
  simp [run, List.foldl_append]

theorem writesOf_append (a : Act) (xs ys : List Ev) :
    writesOf a (xs ++ ys) = writesOf a xs ++ writesOf a ys := by
  induction xs with
  | nil => rfl
  | cons e xs ih =>
    cases e with
    | write b n =>
      by_cases hb : b = a
      · simp [writesOf, hb, ih]
      · simp [writesOf, hb, ih]
    | getlive b on => simpa [writesOf] using ih
    | save b => simpa [writesOf] using ih
    | set b => simpa [writesOf] using ih
    | restore b => simpa [writesOf] using ih
    | read b => simpa [writesOf] using ih

theorem started_append (xs ys : List Ev) : started (xs ++ ys) = started xs ++ started ys := by
  induction xs with
  | nil => rfl
  | cons e xs ih => cases e <;> simp [started, ih]

theorem allOff_append (xs ys : List Ev) : allOff (xs ++ ys) = (allOff xs && allOff ys) := by
  induction xs with
  | nil => simp [allOff]
  | cons e xs ih => cases e <;> simp [allOff, ih, Bool.and_assoc]

theorem writesOf_exec (c b : Act) (on : Bool) (body rest : List Ev) :
    writesOf c ([.getlive b on, .save b, .set b] ++ body ++ [.restore b, .read b] ++ rest) =
      writesOf c body ++ writesOf c rest := by
  simp [writesOf_append, writesOf]

theorem started_exec (b : Act) (on : Bool) (body rest : List Ev) :
    started ([.getlive b on, .save b, .set b] ++ body ++ [.restore b, .read b] ++ rest) =
      b :: (started body ++ started rest) := by
  simp [started_append, started]

theorem allOff_exec (b : Act) (on : Bool) (body rest : List Ev) :
    allOff ([.getlive b on, .save b, .set b] ++ body ++ [.restore b, .read b] ++ rest) =
      (!on && (allOff body && allOff rest)) := by
  simp [allOff_append, allOff]

theorem own_append (c : Act) (xs ys : List Tok) : own c (xs ++ ys) = own c xs ++ own c ys := by
  simp [own]

/-- what one `write` to a stream does -/
theorem emit_frame (t : Tok) : ∀ (str : Stream) (s : St),
    (emit t str s).cell = s.cell ∧ (emit t str s).live = s.live ∧ (emit t str s).saved = s.saved ∧
    (emit t str s).out = s.out ∧ (emit t str s).unbound = s.unbound ∧
    (∀ c, c ∉ bufsOf str → (emit t str s).buf c = s.buf c) ∧
    (∀ c, t.1 ≠ c → own c ((emit t str s).buf c) = own c (s.buf c)) ∧
    (reachesOrig str = false → (emit t str s).origLog = s.origLog) := by
  intro str
  induction str with
  | orig => intro s; simp [emit, reachesOrig]
  | null => intro s; simp [emit]
  | writer a l ih =>
    intro s
    have h := ih { s with buf := upd s.buf a (s.buf a ++ [t]) }
    simp only [emit]
    refine ⟨h.1, h.2.1, h.2.2.1, h.2.2.2.1, h.2.2.2.2.1, ?_, ?_, ?_⟩
    · intro c hc
      simp only [bufsOf, List.mem_cons, not_or] at hc
      rw [h.2.2.2.2.2.1 c hc.2]
      simp [upd, hc.1]
    · intro c hc
      rw [h.2.2.2.2.2.2.1 c hc]
      by_cases hca : c = a
      · subst hca
        simp [upd, own, hc]
      · simp [upd, hca]
    · intro hr
      simp only [reachesOrig] at hr
      rw [h.2.2.2.2.2.2.2 hr]

/-- a write of the running action `a` into its own writer whose live chain does not contain `a`'s buffer -/
theorem emit_owner (a n : Nat) (l : Stream) (s : St) (h : a ∉ bufsOf l) :
    (emit (a, n) (.writer a l) s).buf a = s.buf a ++ [(a, n)] := by
  simp only [emit]
  rw [(emit_frame (a, n) l _).2.2.2.2.2.1 a h]
  simp [upd]

structure Frame (o : Option Act) (evs : List Ev) (s s' : St) : Prop where
  cell : s'.cell = s.cell
  unbound : s'.unbound = s.unbound
  outs : ∀ b, b ∈ started evs → ∃ l, s'.out b = some l ∧ own b l = writesOf b evs
  own : ∀ c, c ∉ started evs → own c (s'.buf c) = own c (s.buf c) ++ writesOf c evs
  untouched : ∀ c, c ∉ started evs → c ∉ bufsOf s.cell → s'.buf c = s.buf c
  keepOut : ∀ c, c ∉ started evs → s'.out c = s.out c
  keepSaved : ∀ c, c ∉ started evs → s'.saved c = s.saved c
  keepLive : ∀ c, c ∉ started evs → s'.live c = s.live c
  quiet : allOff evs = true → (∀ a, o = some a → reachesOrig s.cell = false) → s'.origLog = s.origLog

/-- in a well-nested list only the context action and the actions started in it write -/
theorem wn_writes {o : Option Act} {evs : List Ev} (h : WN o evs) :
    ∀ c, o ≠ some c → c ∉ started evs → writesOf c evs = [] := by
  induction h with
  | nil o => intros; rfl
  | write a n rest _ ih =>
    intro c hc hs
    have hac : a ≠ c := fun e => hc (by rw [e])
    simp only [writesOf, hac, if_false]
    exact ih c hc (by simpa [started] using hs)
  | exec o b on body rest _ _ ihb ihr =>
    intro c hc hs
    rw [started_exec] at hs
    simp only [List.mem_cons, List.mem_append, not_or] at hs
    have e1 := ihb c (by intro e; exact hs.1 (Option.some.inj e).symm) hs.2.1
    have e2 := ihr c hc hs.2.2
    rw [writesOf_exec, e1, e2]; rfl

theorem wn_frame {o : Option Act} {evs : List Ev} (h : WN o evs) :
    ∀ s : St, (started evs).Nodup →
      (∀ b, b ∈ started evs → s.buf b = [] ∧ b ∉ bufsOf s.cell) →
      (∀ a, o = some a → s.cell = .writer a (s.live a) ∧ a ∉ bufsOf (s.live a) ∧ a ∉ started evs) →
      Frame o evs s (run s evs) := by
  induction h with
  | nil o =>
    intro s _ _ _
    exact ⟨rfl, rfl, by intro b hb; simp [started] at hb, by intro c _; simp [run, writesOf],
      fun _ _ _ => rfl, fun _ _ => rfl, fun _ _ => rfl, fun _ _ => rfl, fun _ _ => rfl⟩
  | write a n rest _ ih =>
    intro s hn hb ho
    obtain ⟨hcell, hchain, hna⟩ := ho a rfl
    have hst : started (Ev.write a n :: rest) = started rest := rfl
    rw [hst] at hn hb hna
    have E := emit_frame (a, n) s.cell s
    have hstep : step s (.write a n) = emit (a, n) s.cell s := rfl
    have hbufa : (emit (a, n) s.cell s).buf a = s.buf a ++ [(a, n)] := by
      rw [hcell]; exact emit_owner a n _ s hchain
    have F := ih (emit (a, n) s.cell s) hn
      (by
        intro b hbm
        refine ⟨?_, ?_⟩
        · rw [E.2.2.2.2.2.1 b (hb b hbm).2]; exact (hb b hbm).1
        · rw [E.1]; exact (hb b hbm).2)
      (by
        intro a' ha'
        cases ha'
        refine ⟨?_, ?_, hna⟩
        · rw [E.1, E.2.1]; exact hcell
        · rw [E.2.1]; exact hchain)
    rw [run_cons, hstep]
    refine ⟨?_, ?_, ?_, ?_, ?_, ?_, ?_, ?_, ?_⟩
    · rw [F.cell, E.1]
    · rw [F.unbound, E.2.2.2.2.1]
    · intro b hbm
      rw [hst] at hbm
      have hne : a ≠ b := fun e => hna (e ▸ hbm)
      obtain ⟨l, hl, hown⟩ := F.outs b hbm
      exact ⟨l, hl, by rw [hown]; simp [writesOf, hne]⟩
    · intro c hc
      rw [hst] at hc
      rw [F.own c hc]
      by_cases hca : c = a
      · subst hca
        rw [hbufa]
        simp [own, writesOf]
      · have hne : a ≠ c := fun e => hca e.symm
        rw [E.2.2.2.2.2.2.1 c hne]
        simp [writesOf, hne]
    · intro c hc hcc
      rw [hst] at hc
      rw [F.untouched c hc (by rw [E.1]; exact hcc), E.2.2.2.2.2.1 c hcc]
    · intro c hc; rw [hst] at hc; rw [F.keepOut c hc, E.2.2.2.1]
    · intro c hc; rw [hst] at hc; rw [F.keepSaved c hc, E.2.2.1]
    · intro c hc; rw [hst] at hc; rw [F.keepLive c hc, E.2.1]
    · intro hoff hq
      have hoff' : allOff rest = true := hoff
      rw [F.quiet hoff' (by intro a' ha'; rw [E.1]; exact hq a' ha')]
      exact E.2.2.2.2.2.2.2 (hq a rfl)
  | exec o b on body rest hbody hrest ihb ihr =>
    intro s hn hfresh ho
    rw [started_exec] at hn hfresh
    have hn' := List.nodup_cons.mp hn
    have hnb : b ∉ started body ∧ b ∉ started rest := by
      have := hn'.1; simp only [List.mem_append, not_or] at this; exact this
    have hnapp := List.nodup_append.mp hn'.2
    have hdisj : ∀ x, x ∈ started body → x ∉ started rest := fun x hx hx' => hnapp.2.2 x hx x hx' rfl
    have howner : ∀ x, o = some x → x ≠ b ∧ x ∉ started body ∧ x ∉ started rest := by
      intro x hx
      have := (ho x hx).2.2
      rw [started_exec] at this
      simp only [List.mem_cons, List.mem_append, not_or] at this
      exact this
    have hLsub : ∀ x, x ∈ bufsOf (if on then s.cell else Stream.null) → x ∈ bufsOf s.cell := by
      intro x hx
      cases on with
      | true => simpa using hx
      | false => simp [bufsOf] at hx
    have hbfresh := hfresh b (by simp)
    -- after `getlive b on; save b; set b`
    have hs1 : step (step (step s (.getlive b on)) (.save b)) (.set b) =
        { s with live := upd s.live b (if on then s.cell else .null),
                 saved := upd s.saved b (some s.cell),
                 cell := .writer b (if on then s.cell else .null) } := by
      simp [step, upd]
    have F1 := ihb (step (step (step s (.getlive b on)) (.save b)) (.set b)) hnapp.1
      (by
        intro x hx
        have hxf := hfresh x (by simp [hx])
        have hxb : x ≠ b := fun e => hnb.1 (e ▸ hx)
        rw [hs1]
        refine ⟨hxf.1, ?_⟩
        simp only [bufsOf, List.mem_cons, not_or]
        exact ⟨hxb, fun hm => hxf.2 (hLsub x hm)⟩)
      (by
        intro a' ha'
        cases ha'
        rw [hs1]
        refine ⟨by simp [upd], ?_, hnb.1⟩
        simp only [upd, if_true]
        exact fun hm => hbfresh.2 (hLsub b hm))
    generalize hs2 : run (step (step (step s (.getlive b on)) (.save b)) (.set b)) body = s2 at F1
    rw [hs1] at F1
    have hsaved : s2.saved b = some s.cell := by
      rw [F1.keepSaved b hnb.1]; simp [upd]
    have hs3 : step (step s2 (.restore b)) (.read b) =
        { s2 with cell := s.cell, out := upd s2.out b (some (s2.buf b)) } := by
      simp [step, restoreTo, hsaved]
    have hnotin1 : ∀ c, c ≠ b → c ∉ bufsOf s.cell →
        c ∉ bufsOf (Stream.writer b (if on then s.cell else Stream.null)) := by
      intro c hcb hcc
      simp only [bufsOf, List.mem_cons, not_or]
      exact ⟨hcb, fun hm => hcc (hLsub c hm)⟩
    have F2 := ihr (step (step s2 (.restore b)) (.read b)) hnapp.2.1
      (by
        intro x hx
        have hxf := hfresh x (by simp [hx])
        have hxb : x ≠ b := fun e => hnb.2 (e ▸ hx)
        have hxbody : x ∉ started body := fun hx' => hdisj x hx' hx
        rw [hs3]
        refine ⟨?_, hxf.2⟩
        show s2.buf x = []
        rw [F1.untouched x hxbody (hnotin1 x hxb hxf.2)]
        exact hxf.1)
      (by
        intro a' ha'
        have hw := howner a' ha'
        have hoa := ho a' ha'
        have hlive : s2.live a' = s.live a' := by
          rw [F1.keepLive a' hw.2.1]; simp [upd, hw.1]
        rw [hs3]
        refine ⟨?_, ?_, hw.2.2⟩
        · show s.cell = Stream.writer a' (s2.live a')
          rw [hlive]; exact hoa.1
        · show a' ∉ bufsOf (s2.live a')
          rw [hlive]; exact hoa.2.1)
    rw [run_exec, hs2]
    generalize hs4 : run (step (step s2 (.restore b)) (.read b)) rest = s4 at F2
    rw [hs3] at F2
    have hob : o ≠ some b := fun e => (howner b e).1 rfl
    have hbufb : own b (s2.buf b) = writesOf b body := by
      rw [F1.own b hnb.1]
      show own b (s.buf b) ++ writesOf b body = _
      rw [hbfresh.1]; rfl
    refine ⟨?_, ?_, ?_, ?_, ?_, ?_, ?_, ?_, ?_⟩
    · rw [F2.cell]
    · rw [F2.unbound]; exact F1.unbound
    · intro x hx
      rw [started_exec] at hx
      rw [writesOf_exec]
      rcases List.mem_cons.mp hx with hxb | hx
      · subst hxb
        refine ⟨s2.buf x, ?_, ?_⟩
        · rw [F2.keepOut x hnb.2]; simp [upd]
        · rw [hbufb, wn_writes hrest x hob hnb.2]; simp
      · rcases List.mem_append.mp hx with hxbody | hxrest
        · have hxb : x ≠ b := fun e => hnb.1 (e ▸ hxbody)
          have hxr : x ∉ started rest := hdisj x hxbody
          have hox : o ≠ some x := fun e => (howner x e).2.1 hxbody
          obtain ⟨l, hl, hown⟩ := F1.outs x hxbody
          refine ⟨l, ?_, ?_⟩
          · rw [F2.keepOut x hxr]
            show upd s2.out b (some (s2.buf b)) x = some l
            simp [upd, hxb, hl]
          · rw [hown, wn_writes hrest x hox hxr]; simp
        · have hxb : x ≠ b := fun e => hnb.2 (e ▸ hxrest)
          have hxbody : x ∉ started body := fun hx' => hdisj x hx' hxrest
          obtain ⟨l, hl, hown⟩ := F2.outs x hxrest
          refine ⟨l, hl, ?_⟩
          rw [hown, wn_writes hbody x (by intro e; exact hxb (Option.some.inj e).symm) hxbody]; simp
    · intro c hc
      rw [started_exec] at hc
      simp only [List.mem_cons, List.mem_append, not_or] at hc
      rw [writesOf_exec, F2.own c hc.2.2]
      show own c (s2.buf c) ++ writesOf c rest = _
      rw [F1.own c hc.2.1]
      simp [List.append_assoc]
    · intro c hc hcc
      rw [started_exec] at hc
      simp only [List.mem_cons, List.mem_append, not_or] at hc
      rw [F2.untouched c hc.2.2 hcc]
      show s2.buf c = _
      rw [F1.untouched c hc.2.1 (hnotin1 c hc.1 hcc)]
    · intro c hc
      rw [started_exec] at hc
      simp only [List.mem_cons, List.mem_append, not_or] at hc
      rw [F2.keepOut c hc.2.2]
      show upd s2.out b (some (s2.buf b)) c = _
      simp only [upd, hc.1, if_false]
      exact F1.keepOut c hc.2.1
    · intro c hc
      rw [started_exec] at hc
      simp only [List.mem_cons, List.mem_append, not_or] at hc
      rw [F2.keepSaved c hc.2.2]
      show s2.saved c = _
      rw [F1.keepSaved c hc.2.1]
      simp [upd, hc.1]
    · intro c hc
      rw [started_exec] at hc
      simp only [List.mem_cons, List.mem_append, not_or] at hc
      rw [F2.keepLive c hc.2.2]
      show s2.live c = _
      rw [F1.keepLive c hc.2.1]
      simp [upd, hc.1]
    · intro hoff hq
      rw [allOff_exec] at hoff
      simp only [Bool.and_eq_true, Bool.not_eq_true'] at hoff
      rw [F2.quiet hoff.2.2 (by intro a' ha'; exact hq a' ha')]
      show s2.origLog = _
      rw [F1.quiet hoff.2.1 (by
        intro a' _
        show reachesOrig (Stream.writer b (if on then s.cell else Stream.null)) = false
        rw [hoff.1]; rfl)]

theorem flatten_wn (f : Forest) : ∀ o, WN o (flatten o f) := by
  induction f with
  | nil => intro o; cases o <;> exact WN.nil _
  | write n rest ih =>
    intro o
    cases o with
    | none => exact ih none
    | some a => exact WN.write a n _ (ih (some a))
  | exec b on body rest ihb ihr =>
    intro o
    cases o <;> exact WN.exec _ b on _ _ (ihb (some b)) (ihr _)
  | kw b rest ih =>
    intro o
    cases o <;> simpa [flatten] using ih _

theorem wn_is_forest {o : Option Act} {evs : List Ev} (h : WN o evs) : ∃ f : Forest, flatten o f = evs := by
  induction h with
  | nil o => exact ⟨.nil, by cases o <;> rfl⟩
  | write a n rest _ ih =>
    obtain ⟨f, hf⟩ := ih
    exact ⟨.write n f, by simp [flatten, hf]⟩
  | exec o b on body rest _ _ ihb ihr =>
    obtain ⟨fb, hb⟩ := ihb
    obtain ⟨fr, hr⟩ := ihr
    exact ⟨.exec b on fb fr, by cases o <;> simp [flatten, hb, hr]⟩

end DoitModel.Act.Fwd
