import DoitModel.Proofs.RunPar
/-! # Closure invariant: only members of the dependency closure of the selection ever get a node, a job or an event -/
namespace DoitModel.Run

/-- `select_task` can set `run_status = 'run'` for `t`: not ignored and not up-to-date -/
def MayRun (inp : RunInput) (t : Name) : Prop := inp.ignored t = false ∧ effStatus inp t = .run

/-- the dependency closure of the selection (static over-approximation of what the dispatcher can reach): closed under
    task_dep, calc_dep, whatever a member delivers as calc result, and the setup-tasks of members that may run -/
inductive Cl (inp : RunInput) : Name → Prop
  | ofSel {t} : t ∈ inp.sel → Cl inp t
  | ofTask {t d} : Cl inp t → d ∈ inp.taskDep t → Cl inp d
  | ofCalc {t d} : Cl inp t → d ∈ inp.calcDep t → Cl inp d
  | ofSetup {t d} : Cl inp t → MayRun inp t → d ∈ inp.setup t → Cl inp d
  | ofRes {c d} : Cl inp c →
      (d ∈ (inp.calcRes c).tasks ∨ d ∈ (inp.calcRes c).files ∨ d ∈ (inp.calcRes c).calcs) → Cl inp d
  | ofResFail {c d} : Cl inp c →      -- what `c` returned before its execution failed is delivered too (`deliverF`)
      (d ∈ (inp.calcResFail c).tasks ∨ d ∈ (inp.calcResFail c).files ∨ d ∈ (inp.calcResFail c).calcs) → Cl inp d

def pcCl (inp : RunInput) (n : Name) : PC → Prop
  | .calcIter todo => ∀ d ∈ todo, Cl inp d
  | .taskIter todo => ∀ d ∈ todo, Cl inp d
  | .setupIter todo => (∀ d ∈ todo, Cl inp d) ∧ (∀ d ∈ inp.setup n, Cl inp d)
  | _ => True

structure NCl (inp : RunInput) (n : Name) (nd : Node) : Prop where
  self : Cl inp n
  dt : ∀ d ∈ nd.dynTask, Cl inp d
  dc : ∀ d ∈ nd.dynCalc, Cl inp d
  pt : ∀ d ∈ nd.pendTask, Cl inp d
  pcalc : ∀ d ∈ nd.pendCalc, Cl inp d
  st : ∀ d ∈ nd.snapTask, Cl inp d
  sc : ∀ d ∈ nd.snapCalc, Cl inp d
  pcl : pcCl inp n nd.pc
  run : nd.status = .run → MayRun inp n

structure MInv (inp : RunInput) (s : Sys) : Prop where
  nodes : ∀ n nd, s.nodes n = some nd → NCl inp n nd
  toRun : ∀ t ∈ s.toRun, Cl inp t
  ev : ∀ e ∈ s.events, ∀ n, Ev.mentions n e = true → Cl inp n
  jobs : ∀ n, Job.task n ∈ s.jobQ → Cl inp n
  held : ∀ n ret, s.rpc = .gRet (.task n) ret → Cl inp n
  wk : ∀ w n, s.workers w = .running n → Cl inp n
  rq : ∀ n ∈ s.resQ, Cl inp n
  td : ∀ n ∈ s.tdown, Cl inp n
  ex : ∀ n, s.rpc = .sExec n → Cl inp n
  yl : ∀ n, s.susp = some (.node n) → Cl inp n

/-! ### node-level lemmas -/

theorem mkNode_ncl {inp : RunInput} {t : Name} (anc : List Name) (h : Cl inp t) : NCl inp t (mkNode inp t anc) := by
  refine ⟨h, fun d hd => Cl.ofTask h hd, ?_, fun d hd => Cl.ofTask h hd, ?_, ?_, ?_, trivial, ?_⟩
  · intro d hd; exact Cl.ofCalc h (mem_dedup.mp hd)
  · intro d hd; exact Cl.ofCalc h (mem_dedup.mp hd)
  · intro d hd; simp [mkNode] at hd
  · intro d hd; simp [mkNode] at hd
  · intro e; simp [mkNode] at e

theorem implicitNew_mem {acc fs : List Name} {x : Name} : x ∈ implicitNew acc fs → x ∈ fs := by
  induction fs generalizing acc with
  | nil => simp [implicitNew]
  | cons f t ih =>
    simp only [implicitNew]
    split
    · intro h; exact List.mem_cons_of_mem _ (ih h)
    · intro h
      rcases List.mem_cons.mp h with rfl | h
      · simp
      · exact List.mem_cons_of_mem _ (ih h)

theorem addDeps_ncl {inp : RunInput} {n : Name} {nd : Node} {r : CalcRes} (h : NCl inp n nd)
    (hr : ∀ d, (d ∈ r.tasks ∨ d ∈ r.files ∨ d ∈ r.calcs) → Cl inp d) : NCl inp n (nd.addDeps r) := by
  have nt : ∀ d ∈ newTaskDeps nd r, Cl inp d := by
    intro d hd
    simp only [newTaskDeps, List.mem_append] at hd
    rcases hd with a | a
    · exact hr d (Or.inl a)
    · exact hr d (Or.inr (Or.inl (implicitNew_mem a)))
  have nc : ∀ d ∈ newCalcDeps nd r, Cl inp d := by
    intro d hd
    simp only [newCalcDeps, List.mem_filter] at hd
    exact hr d (Or.inr (Or.inr (mem_dedup.mp hd.1)))
  refine ⟨h.self, ?_, ?_, ?_, ?_, h.st, h.sc, h.pcl, h.run⟩
  · intro d hd; simp only [Node.addDeps, List.mem_append] at hd
    rcases hd with a | a
    · exact h.dt d a
    · exact nt d a
  · intro d hd; simp only [Node.addDeps, List.mem_append] at hd
    rcases hd with a | a
    · exact h.dc d a
    · exact nc d a
  · intro d hd; simp only [Node.addDeps, List.mem_append] at hd
    rcases hd with a | a
    · exact h.pt d a
    · exact nt d a
  · intro d hd; simp only [Node.addDeps, List.mem_append, List.mem_filter] at hd
    rcases hd with a | a
    · exact h.pcalc d a
    · exact nc d a.1

theorem deliver_ncl {inp : RunInput} {n : Name} {nd : Node} (pst : RS) {p : Name} (h : NCl inp n nd)
    (hp : Cl inp p) : NCl inp n (deliver inp pst p nd) := by
  unfold deliver; split
  · exact addDeps_ncl h (fun d hd => Cl.ofRes hp hd)
  · exact h

theorem deliverF_ncl {inp : RunInput} {n : Name} {nd : Node} (ex : Bool) (pst : RS) {p : Name} (h : NCl inp n nd)
    (hp : Cl inp p) : NCl inp n (deliverF inp ex pst p nd) := by
  unfold deliverF; split
  · exact addDeps_ncl h (fun d hd => Cl.ofResFail hp hd)
  · exact h

theorem parentStatus_ncl {inp : RunInput} {n : Name} {nd : Node} (pst : RS) (p : Name) (h : NCl inp n nd) :
    NCl inp n (parentStatus pst p nd) :=
  ⟨h.self, h.dt, h.dc, h.pt, h.pcalc, h.st, h.sc, h.pcl, h.run⟩

theorem absorbDone_ncl {inp : RunInput} {s : Sys} {n : Name} (isCalc : Bool) :
    ∀ (ds : List Name) (nd : Node), NCl inp n nd → (∀ d ∈ ds, Cl inp d) → NCl inp n (absorbDone inp s isCalc ds nd) := by
  intro ds
  induction ds with
  | nil => intro nd h _; exact h
  | cons a t ih =>
    intro nd h hds
    simp only [absorbDone]
    split
    · exact ih nd h (fun d hd => hds d (by simp [hd]))
    · apply ih _ _ (fun d hd => hds d (by simp [hd]))
      split
      · exact deliverF_ncl _ _ (deliver_ncl _ (parentStatus_ncl _ _ h) (hds a (by simp))) (hds a (by simp))
      · exact parentStatus_ncl _ _ h

theorem waitNode_ncl {inp : RunInput} {s : Sys} {n : Name} {nd : Node} (ds : List Name) (isCalc : Bool) (pc' : PC)
    (h : NCl inp n nd) (hds : ∀ d ∈ ds, Cl inp d) (hpc : pcCl inp n pc') :
    NCl inp n (waitNode inp s nd ds isCalc pc') := by
  have a := absorbDone_ncl (s := s) isCalc ds nd h hds
  unfold waitNode addWaits
  split <;> exact ⟨a.self, a.dt, a.dc, a.pt, a.pcalc, a.st, a.sc, hpc, a.run⟩

theorem wokenNode_ncl {inp : RunInput} {n : Name} {nd : Node} (pst : RS) {p : Name} (h : NCl inp n nd)
    (hp : Cl inp p) : NCl inp n (wokenNode inp pst p nd) := by
  unfold wokenNode
  split
  · apply deliver_ncl _ _ hp
    exact ⟨h.self, h.dt, h.dc, h.pt, h.pcalc, h.st, h.sc, h.pcl, h.run⟩
  · exact ⟨h.self, h.dt, h.dc, h.pt, h.pcalc, h.st, h.sc, h.pcl, h.run⟩

theorem wokenF_ncl {inp : RunInput} {n : Name} {nd : Node} (s : Sys) (pst : RS) {p : Name} (h : NCl inp n nd)
    (hp : Cl inp p) : NCl inp n (wokenF inp s pst p nd) := by
  unfold wokenF
  split
  · exact deliverF_ncl _ _ (wokenNode_ncl pst h hp) hp
  · exact wokenNode_ncl pst h hp

theorem addWaiting_ncl {inp : RunInput} {n : Name} {nd : Node} (m : Name) (h : NCl inp n nd) :
    NCl inp n (nd.addWaiting m) := by
  unfold Node.addWaiting; split
  · exact h
  · exact ⟨h.self, h.dt, h.dc, h.pt, h.pcalc, h.st, h.sc, h.pcl, h.run⟩


/-! ### state-level lemmas -/

/-- the dispatcher moved: the runner's fields are untouched -/
theorem MInv.disp {inp : RunInput} {s s' : Sys} (h : MInv inp s) (o : SameOuter s s')
    (hn : ∀ n nd, s'.nodes n = some nd → NCl inp n nd) (ht : ∀ t ∈ s'.toRun, t ∈ s.toRun)
    (hy : ∀ n, s'.susp = some (.node n) → Cl inp n) : MInv inp s' := by
  obtain ⟨o1, o2, o3, o4, o5, _, _, o8, _⟩ := o
  exact ⟨hn, fun t a => h.toRun t (ht t a), by rw [o1]; exact h.ev, by rw [o3]; exact h.jobs,
    by rw [o2]; exact h.held, by rw [o5]; exact h.wk, by rw [o4]; exact h.rq, by rw [o8]; exact h.td,
    by rw [o2]; exact h.ex, hy⟩

theorem ncl_setNode {inp : RunInput} {s : Sys} {n : Name} {x : Node} (h : ∀ k y, s.nodes k = some y → NCl inp k y)
    (hx : NCl inp n x) : ∀ k y, (setNode s n x).nodes k = some y → NCl inp k y := by
  intro k y hk
  simp only [setNode_nodes] at hk
  split at hk
  · rename_i e; subst e; cases hk; exact hx
  · exact h k y hk

theorem ncl_registerWaiting {inp : RunInput} {s : Sys} (n : Name) (wf : List Name)
    (h : ∀ k y, s.nodes k = some y → NCl inp k y) :
    ∀ k y, (registerWaiting s n wf).nodes k = some y → NCl inp k y := by
  intro k y hk
  rw [registerWaiting_nodes] at hk
  cases hx : s.nodes k with
  | none => rw [hx] at hk; cases hk
  | some x =>
    rw [hx] at hk
    by_cases e : k ∈ wf
    · simp only [e, if_true, Option.some.injEq] at hk; subst hk; exact addWaiting_ncl n (h k x hx)
    · simp only [e, if_false, Option.some.injEq] at hk; subst hk; exact h k x hx

theorem genStep_ncl {inp : RunInput} {s : Sys} {n : Name} {nd : Node} (d : Name) (pc' : PC)
    (h : ∀ k y, s.nodes k = some y → NCl inp k y) (hn : s.nodes n = some nd) (hd : Cl inp d)
    (hpc : pcCl inp n pc') : ∀ k y, (genStep inp s n nd d pc').nodes k = some y → NCl inp k y := by
  have hnd := h n nd hn
  have hx : NCl inp n { nd with pc := pc' } :=
    ⟨hnd.self, hnd.dt, hnd.dc, hnd.pt, hnd.pcalc, hnd.st, hnd.sc, hpc, hnd.run⟩
  unfold genStep
  cases hdn : s.nodes d with
  | none =>
    simp only []
    exact ncl_setNode (ncl_setNode h (mkNode_ncl _ hd)) hx
  | some x =>
    simp only []
    split
    · exact h
    · exact ncl_setNode h hx

theorem genStep_susp_none (inp : RunInput) (s : Sys) (n : Name) (nd : Node) (d : Name) (pc' : PC)
    (hs : s.susp = none) (m : Name) : (genStep inp s n nd d pc').susp ≠ some (.node m) := by
  intro e; have := genStep_susp inp s n nd d pc' m e; rw [hs] at this; cases this

theorem addWaitRun_ncl {inp : RunInput} {s : Sys} {n : Name} {nd : Node} (ds : List Name) (c : Bool) (pc' : PC)
    (h : ∀ k y, s.nodes k = some y → NCl inp k y) (hn : s.nodes n = some nd) (hds : ∀ d ∈ ds, Cl inp d)
    (hpc : pcCl inp n pc') : ∀ k y, (addWaitRun inp s n nd ds c pc').nodes k = some y → NCl inp k y := by
  unfold addWaitRun
  exact ncl_registerWaiting n _ (ncl_setNode h (waitNode_ncl ds c pc' (h n nd hn) hds hpc))

theorem nodeStep_ncl {inp : RunInput} {s s' : Sys} {n : Name} {nd : Node} {perm : List Name}
    (h : ∀ k y, s.nodes k = some y → NCl inp k y) (hn : s.nodes n = some nd)
    (hs : nodeStep inp s n nd perm = some s') : ∀ k y, s'.nodes k = some y → NCl inp k y := by
  have hnd := h n nd hn
  have setPc : ∀ pc', pcCl inp n pc' → NCl inp n { nd with pc := pc' } := fun pc' hp =>
    ⟨hnd.self, hnd.dt, hnd.dc, hnd.pt, hnd.pcalc, hnd.st, hnd.sc, hp, hnd.run⟩
  unfold nodeStep at hs
  cases hpc : nd.pc with
  | loopTop =>
    simp only [hpc] at hs; split at hs
    · rename_i hp; cases hs
      refine ncl_setNode h ⟨hnd.self, hnd.dt, hnd.dc, by simp, by simp, hnd.pt, ?_, ?_, hnd.run⟩
      · intro d hd; exact hnd.pcalc d (hp.mem_iff.mp hd)
      · intro d hd; exact hnd.pcalc d (hp.mem_iff.mp hd)
    · cases hs
  | calcIter todo =>
    have hp := hnd.pcl; rw [hpc] at hp
    simp only [hpc] at hs
    cases todo with
    | cons d ds => cases hs; exact genStep_ncl d _ h hn (hp d (by simp)) (fun x hx => hp x (by simp [hx]))
    | nil => cases hs; exact addWaitRun_ncl _ _ _ h hn hnd.sc hnd.st
  | taskIter todo =>
    have hp := hnd.pcl; rw [hpc] at hp
    simp only [hpc] at hs
    cases todo with
    | cons d ds => cases hs; exact genStep_ncl d _ h hn (hp d (by simp)) (fun x hx => hp x (by simp [hx]))
    | nil => cases hs; exact addWaitRun_ncl _ _ _ h hn hnd.st trivial
  | afterDeps =>
    simp only [hpc] at hs
    split at hs
    · cases hs; exact ncl_setNode h (setPc _ trivial)
    · split at hs <;> (cases hs; exact ncl_setNode h (setPc _ trivial))
  | self1 => simp only [hpc] at hs; cases hs; exact ncl_setNode h (setPc _ trivial)
  | afterSelf1 =>
    simp only [hpc] at hs
    split at hs
    · cases hs; exact ncl_setNode h (setPc _ trivial)
    · split at hs
      · cases hs
        exact ncl_setNode h ⟨hnd.self, hnd.dt, hnd.dc, hnd.pt, hnd.pcalc, hnd.st, hnd.sc, trivial, hnd.run⟩
      · cases hs; exact ncl_setNode h (setPc _ trivial)
  | setupDecide =>
    simp only [hpc] at hs
    split at hs
    · rename_i hrun
      cases hs
      have hall : ∀ d ∈ inp.setup n, Cl inp d := fun d hd => Cl.ofSetup hnd.self (hnd.run hrun) hd
      exact ncl_setNode h (setPc _ ⟨hall, hall⟩)
    · cases hs; exact ncl_setNode h (setPc _ trivial)
  | setupIter todo =>
    have hp := hnd.pcl; rw [hpc] at hp
    simp only [hpc] at hs
    cases todo with
    | cons d ds =>
      cases hs
      exact genStep_ncl d _ h hn (hp.1 d (by simp)) ⟨fun x hx => hp.1 x (by simp [hx]), hp.2⟩
    | nil => cases hs; exact addWaitRun_ncl _ _ _ h hn hp.2 trivial
  | afterSetup =>
    simp only [hpc] at hs
    split at hs <;> (cases hs; exact ncl_setNode h (setPc _ trivial))
  | self2 => simp only [hpc] at hs; cases hs; exact ncl_setNode h (setPc _ trivial)
  | afterSelf2 => simp only [hpc] at hs; cases hs; exact ncl_setNode h (setPc _ trivial)
  | done => simp only [hpc] at hs; cases hs; exact h

theorem dtick_minv {inp : RunInput} {s s' : Sys} {perm : List Name} (h : MInv inp s) (hsusp : s.susp = none)
    (hs : dtick inp s perm = some s') : MInv inp s' := by
  have o := dtick_outer hs
  have hy : (∀ k y, s'.nodes k = some y → NCl inp k y) → ∀ n, s'.susp = some (.node n) → Cl inp n := by
    intro hn' n hn
    obtain ⟨nd, _, hc⟩ := dtick_yield hs hsusp n hn
    rcases hc with ⟨_, e⟩ | ⟨_, e⟩ <;> exact (hn' n _ e).self
  unfold dtick at hs
  cases hc : s.cur with
  | some n =>
    simp only [hc] at hs
    cases hn : s.nodes n with
    | none => simp only [hn] at hs; cases hs; exact h.disp o h.nodes (fun t a => a) (fun m e => by cases e)
    | some nd =>
      simp only [hn] at hs
      have hn' := nodeStep_ncl h.nodes hn hs
      refine h.disp o hn' ?_ (hy hn')
      have := nodeStep_outer hs
      intro t ht
      -- `node.step()` never touches `tasks_to_run`
      have e : s'.toRun = s.toRun := by
        unfold nodeStep at hs
        split at hs
        all_goals (try split at hs)
        all_goals (try split at hs)
        all_goals (cases hs <;> first
          | rfl
          | (unfold genStep; cases s.nodes _ <;> simp only [] <;> first | rfl | (split <;> rfl))
          | (simp [addWaitRun, registerWaiting, setNode]))
      rw [e] at ht; exact ht
  | none =>
    simp only [hc] at hs
    split at hs
    · cases hs; exact h.disp o h.nodes (fun t a => a) (fun m e => by simp [hsusp] at e)
    · split at hs
      · rename_i t ts htr
        split at hs
        · cases hs
          refine h.disp o (ncl_setNode h.nodes (mkNode_ncl _ (h.toRun t (by rw [htr]; simp))))
            (fun x hx => by rw [htr]; simp [(show x ∈ ts from hx)]) (fun m e => by simp [setNode, hsusp] at e)
        · cases hs
          exact h.disp o h.nodes (fun x hx => by rw [htr]; simp [(show x ∈ ts from hx)])
            (fun m e => by simp [hsusp] at e)
      · split at hs
        · split at hs <;> (cases hs; exact h.disp o h.nodes (fun t a => a) (fun m e => by cases e))
        · cases hs; exact h.disp o h.nodes (fun t a => a) (fun m e => by cases e)


theorem wakeOne_ncl {inp : RunInput} {s : Sys} {pst : RS} {p w : Name} {nd : Node}
    (h : ∀ k y, s.nodes k = some y → NCl inp k y) (hw : s.nodes w = some nd) (hp : Cl inp p) :
    ∀ k y, (wakeOne inp s pst p w nd).nodes k = some y → NCl inp k y := by
  have := ncl_setNode h (wokenF_ncl s pst (h w nd hw) hp)
  unfold wakeOne; split
  · exact this
  · exact this

theorem updateWaiting_ncl {inp : RunInput} {pst : RS} {p : Name} (hp : Cl inp p) :
    ∀ (perm : List Name) (s s' : Sys), (∀ k y, s.nodes k = some y → NCl inp k y) →
      updateWaiting inp pst p s perm = some s' → ∀ k y, s'.nodes k = some y → NCl inp k y := by
  intro perm
  induction perm with
  | nil => intro s s' h hs; simp only [updateWaiting] at hs; cases hs; exact h
  | cons w ws ih =>
    intro s s' h hs
    simp only [updateWaiting] at hs
    cases hw : s.nodes w with
    | none => simp only [hw] at hs; exact ih s s' h hs
    | some nd =>
      simp only [hw] at hs
      split at hs
      · cases hs
      · exact ih _ s' (wakeOne_ncl h hw hp) hs

theorem sendHead_ncl {inp : RunInput} {s : Sys} {p : Name} {nd : Node}
    (h : ∀ k y, s.nodes k = some y → NCl inp k y) (hn : s.nodes p = some nd) :
    ∀ k y, (sendHead s p nd).nodes k = some y → NCl inp k y := by
  have hnd := h p nd hn
  unfold sendHead; split
  · exact ncl_setNode h ⟨hnd.self, hnd.dt, hnd.dc, hnd.pt, hnd.pcalc, hnd.st, hnd.sc, hnd.pcl, hnd.run⟩
  · exact h

theorem send_toRun {inp : RunInput} {s s' : Sys} {processed : Option Name} {perm : List Name}
    (hs : send inp s processed perm = some s') : s'.toRun = s.toRun := by
  have wk : ∀ (pst : RS) (p : Name) (perm : List Name) (a b : Sys), updateWaiting inp pst p a perm = some b →
      b.toRun = a.toRun := by
    intro pst p perm
    induction perm with
    | nil => intro a b hab; simp only [updateWaiting] at hab; cases hab; rfl
    | cons w ws ih =>
      intro a b hab
      simp only [updateWaiting] at hab
      cases hw : a.nodes w with
      | none => simp only [hw] at hab; exact ih a b hab
      | some nd =>
        simp only [hw] at hab
        split at hab
        · cases hab
        · have := ih _ b hab
          rw [this]; unfold wakeOne; split <;> rfl
  have sh : ∀ p nd, (sendHead s p nd).toRun = s.toRun := by intro p nd; unfold sendHead; split <;> rfl
  unfold send at hs
  cases processed with
  | none => cases hs; rfl
  | some p =>
    simp only [] at hs
    cases hn : s.nodes p with
    | none => simp only [hn] at hs; cases hs; rfl
    | some nd =>
      simp only [hn] at hs
      split at hs
      · cases hs; rfl
      · split at hs
        · cases hs; exact sh p nd
        · split at hs
          · cases hu : updateWaiting inp nd.status p (sendHead s p nd) perm with
            | none => simp only [hu] at hs; cases hs; exact sh p nd
            | some s2 => simp only [hu] at hs; cases hs; exact (wk _ _ _ _ _ hu).trans (sh p nd)
          · cases hs

theorem send_minv {inp : RunInput} {s s0 : Sys} {processed : Option Name} {perm : List Name} (rpc' : RPC)
    (h : MInv inp s) (hs : send inp s processed perm = some s0)
    (hr2 : ∀ n ret, rpc' ≠ .gRet (.task n) ret) (hr3 : ∀ n, rpc' ≠ .sExec n) :
    MInv inp { s0 with rpc := rpc' } := by
  obtain ⟨⟨o1, o2, o3, o4, o5, _, _, o8, _⟩, osusp⟩ := send_outer hs
  have ht := send_toRun hs
  have hn : ∀ k y, s0.nodes k = some y → NCl inp k y := by
    unfold send at hs
    cases processed with
    | none => cases hs; exact h.nodes
    | some p =>
      simp only [] at hs
      cases hn : s.nodes p with
      | none => simp only [hn] at hs; cases hs; exact h.nodes
      | some nd =>
        simp only [hn] at hs
        have hp := (h.nodes p nd hn).self
        split at hs
        · cases hs; exact h.nodes
        · split at hs
          · cases hs; exact sendHead_ncl h.nodes hn
          · split at hs
            · cases hu : updateWaiting inp nd.status p (sendHead s p nd) perm with
              | none => simp only [hu] at hs; cases hs; exact sendHead_ncl h.nodes hn
              | some s2 =>
                simp only [hu] at hs; cases hs
                exact updateWaiting_ncl hp perm _ s2 (sendHead_ncl h.nodes hn) hu
            · cases hs
  refine ⟨hn, ?_, ?_, ?_, ?_, ?_, ?_, ?_, ?_, ?_⟩
  · intro t a; exact h.toRun t (by rw [← ht]; exact a)
  · show ∀ e ∈ s0.events, _; rw [o1]; exact h.ev
  · show ∀ n, Job.task n ∈ s0.jobQ → _; rw [o3]; exact h.jobs
  · intro n ret a; exact absurd a (hr2 n ret)
  · show ∀ w n, s0.workers w = _ → _; rw [o5]; exact h.wk
  · show ∀ n ∈ s0.resQ, _; rw [o4]; exact h.rq
  · show ∀ n ∈ s0.tdown, _; rw [o8]; exact h.td
  · intro n a; exact absurd a (hr3 n)
  · intro n a; rcases osusp with e | e <;> (simp only [e] at a; cases a)

/-- `select_task` can make the status `run` only for a task that may run -/
theorem sel_mayRun {inp : RunInput} {n : Name} {nd : Node} (hst : nd.status ≠ .run)
    (hd : selStatus (selDecision inp n nd) = .run) : MayRun inp n := by
  unfold selDecision at hd
  by_cases h0 : nd.status = .none
  · simp only [h0, if_true] at hd
    split at hd; · simp [selStatus] at hd
    rename_i hi
    split at hd; · simp [selStatus] at hd
    split at hd; · simp [selStatus] at hd
    rename_i herr
    split at hd; · simp [selStatus] at hd
    rename_i hutd
    have hign : inp.ignored n = false := by
      simp only [not_or] at hi; simpa using hi.2
    refine ⟨hign, ?_⟩
    unfold effStatus at hutd ⊢
    by_cases ha : inp.always = true
    · simp [ha]
    · simp only [ha, if_false] at hutd ⊢
      cases hs : inp.statusOf n <;> simp_all
  · simp only [h0, if_false] at hd
    split at hd
    · simp [selStatus] at hd
    · rename_i hrs
      simp only [not_or, ne_eq, Decidable.not_not] at hrs
      exact absurd hrs.1 hst

/-- `select_task` / `process_task_result` / start of execution: what the runner itself does -/
theorem MInv.runner {inp : RunInput} {s s' : Sys} {n : Name} {nd : Node} (h : MInv inp s)
    (hn : s.nodes n = some nd) (st' : RS) (hrun : st' = .run → nd.status = .run ∨ MayRun inp n)
    (e1 : s'.nodes = (setNode s n { nd with status := st' }).nodes) (e2 : s'.toRun = s.toRun)
    (hev : ∀ e ∈ s'.events, e ∈ s.events ∨ ∀ m, Ev.mentions m e = true → m = n)
    (e3 : s'.jobQ = s.jobQ) (e4 : s'.workers = s.workers) (e5 : ∀ m ∈ s'.resQ, m ∈ s.resQ)
    (e6 : ∀ m ∈ s'.tdown, m ∈ s.tdown ∨ m = n)
    (hh : ∀ m ret, s'.rpc = .gRet (.task m) ret → m = n) (hx : ∀ m, s'.rpc = .sExec m → m = n)
    (e7 : s'.susp = s.susp) : MInv inp s' := by
  have hnd := h.nodes n nd hn
  have cn : Cl inp n := hnd.self
  refine ⟨?_, by rw [e2]; exact h.toRun, ?_, by rw [e3]; exact h.jobs, fun m r a => (hh m r a) ▸ cn,
    by rw [e4]; exact h.wk, fun m a => h.rq m (e5 m a), ?_, fun m a => (hx m a) ▸ cn, by rw [e7]; exact h.yl⟩
  · rw [e1]
    refine ncl_setNode h.nodes ⟨hnd.self, hnd.dt, hnd.dc, hnd.pt, hnd.pcalc, hnd.st, hnd.sc, hnd.pcl, ?_⟩
    intro e
    rcases hrun e with a | a
    · exact hnd.run a
    · exact a
  · intro e he m hm
    rcases hev e he with a | a
    · exact h.ev e a m hm
    · exact (a m hm) ▸ cn
  · intro m hm
    rcases e6 m hm with a | a
    · exact h.td m a
    · exact a ▸ cn

end DoitModel.Run
