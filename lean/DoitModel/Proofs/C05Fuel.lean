import DoitModel.Proofs.C05Just
import DoitModel.Proofs.C05Mon
/-! # C05 (c): the fixed-point iteration `calcsAt` of the monitors is complete

`calcsAt inp tr n cs` with `n` rounds finds every calc_dep reachable from `cs` through results delivered by calc tasks
with a finish report in `tr`, provided all task names are below `n` (`namesBelow`, decidable): a round that adds nothing
has reached the fixed point, a round that adds something raises the number of names below `n` it contains. -/
namespace DoitModel.Run

/-- every task name of the table is below `n` (the driver's `n`: tasks are numbered `0 … n-1`) -/
def namesBelow (inp : RunInput) (n : Nat) : Bool :=
  inp.sel.all (· < n) && (List.range n).all fun t =>
    (inp.taskDep t ++ inp.calcDep t ++ inp.setup t ++
      ((inp.calcRes t).tasks ++ (inp.calcRes t).files ++ (inp.calcRes t).calcs)).all (· < n)

structure Below (inp : RunInput) (n : Nat) : Prop where
  sel : ∀ t ∈ inp.sel, t < n
  task : ∀ t, t < n → ∀ d ∈ inp.taskDep t, d < n
  cdep : ∀ t, t < n → ∀ d ∈ inp.calcDep t, d < n
  setup : ∀ t, t < n → ∀ d ∈ inp.setup t, d < n
  rtasks : ∀ t, t < n → ∀ d ∈ (inp.calcRes t).tasks, d < n
  rfiles : ∀ t, t < n → ∀ d ∈ (inp.calcRes t).files, d < n
  rcalcs : ∀ t, t < n → ∀ d ∈ (inp.calcRes t).calcs, d < n

theorem below_of {inp : RunInput} {n : Nat} (h : namesBelow inp n = true) : Below inp n := by
  unfold namesBelow at h
  simp only [Bool.and_eq_true, List.all_eq_true, List.mem_range, List.mem_append, decide_eq_true_eq] at h
  obtain ⟨h1, h2⟩ := h
  exact ⟨h1, fun t ht d hd => h2 t ht d (Or.inl (Or.inl (Or.inl hd))),
    fun t ht d hd => h2 t ht d (Or.inl (Or.inl (Or.inr hd))),
    fun t ht d hd => h2 t ht d (Or.inl (Or.inr hd)),
    fun t ht d hd => h2 t ht d (Or.inr (Or.inl (Or.inl hd))),
    fun t ht d hd => h2 t ht d (Or.inr (Or.inl (Or.inr hd))),
    fun t ht d hd => h2 t ht d (Or.inr (Or.inr hd))⟩

theorem countP_lt_of {p q : Nat → Bool} (hpq : ∀ a, p a = true → q a = true) {x : Nat} (hq : q x = true)
    (hp : p x = false) : ∀ (l : List Nat), x ∈ l → l.countP p < l.countP q := by
  intro l
  induction l with
  | nil => intro h; cases h
  | cons a t ih =>
    intro hx
    have hle : t.countP p ≤ t.countP q := List.countP_mono_left (fun a _ h => hpq a h)
    simp only [List.countP_cons]
    rcases List.mem_cons.mp hx with e | e
    · subst e; simp only [hq, hp]; simp; omega
    · have := ih e
      by_cases hpa : p a = true
      · simp only [hpa, hpq a hpa]; omega
      · have : p a = false := by simpa using hpa
        simp only [this]; cases q a <;> simp <;> omega

/-- one round of `calcsAt` -/
def calcRound (inp : RunInput) (tr : List Ev) (cs : List Name) : List Name :=
  addNew cs ((cs.filter (finishedIn tr)).flatMap fun c => (inp.calcRes c).calcs)

theorem calcsAt_succ (inp : RunInput) (tr : List Ev) (k : Nat) (cs : List Name) :
    calcsAt inp tr (k + 1) cs = calcsAt inp tr k (calcRound inp tr cs) := rfl

theorem mem_calcRound {inp : RunInput} {tr : List Ev} {cs : List Name} {x : Name} :
    x ∈ calcRound inp tr cs ↔ x ∈ cs ∨ ∃ c ∈ cs, finishedIn tr c = true ∧ x ∈ (inp.calcRes c).calcs := by
  unfold calcRound
  rw [mem_addNew_run]
  constructor
  · rintro (a | a)
    · exact Or.inl a
    · obtain ⟨c, hc, hx⟩ := List.mem_flatMap.mp a
      exact Or.inr ⟨c, (List.mem_filter.mp hc).1, (List.mem_filter.mp hc).2, hx⟩
  · rintro (a | ⟨c, hc, hf, hx⟩)
    · exact Or.inl a
    · exact Or.inr (List.mem_flatMap.mpr ⟨c, List.mem_filter.mpr ⟨hc, hf⟩, hx⟩)

theorem subset_calcsAt (inp : RunInput) (tr : List Ev) : ∀ (k : Nat) (cs : List Name), ∀ x ∈ cs, x ∈ calcsAt inp tr k cs := by
  intro k
  induction k with
  | zero => intro cs x hx; exact hx
  | succ k ih =>
    intro cs x hx
    rw [calcsAt_succ]
    exact ih _ x (mem_calcRound.mpr (Or.inl hx))

/-- reachable from `cs` through deliveries of calc tasks with a finish report in `tr` -/
inductive CReach (inp : RunInput) (tr : List Ev) (cs : List Name) : Name → Prop
  | base {c : Name} : c ∈ cs → CReach inp tr cs c
  | step {c c' : Name} : CReach inp tr cs c → finishedIn tr c = true → c' ∈ (inp.calcRes c).calcs → CReach inp tr cs c'

theorem CReach.mono {inp : RunInput} {tr : List Ev} {cs cs' : List Name} {c : Name} (h : ∀ x ∈ cs, x ∈ cs')
    (hc : CReach inp tr cs c) : CReach inp tr cs' c := by
  induction hc with
  | base a => exact .base (h _ a)
  | step _ f m ih => exact .step ih f m

theorem CReach.closed {inp : RunInput} {tr : List Ev} {cs : List Name} {c : Name}
    (hcl : ∀ x ∈ calcRound inp tr cs, x ∈ cs) (hc : CReach inp tr cs c) : c ∈ cs := by
  induction hc with
  | base a => exact a
  | step _ f m ih => exact hcl _ (mem_calcRound.mpr (Or.inr ⟨_, ih, f, m⟩))

theorem CReach.lt {inp : RunInput} {tr : List Ev} {cs : List Name} {c : Name} {n : Nat} (hb : Below inp n)
    (hcs : ∀ x ∈ cs, x < n) (hc : CReach inp tr cs c) : c < n := by
  induction hc with
  | base a => exact hcs _ a
  | step _ _ m ih => exact hb.rcalcs _ ih _ m

theorem calcsAt_complete {inp : RunInput} {tr : List Ev} {n : Nat} (hb : Below inp n) :
    ∀ (k : Nat) (cs : List Name), (∀ c ∈ cs, c < n) →
      k + (List.range n).countP (fun x => decide (x ∈ cs)) ≥ n →
      ∀ c, CReach inp tr cs c → c ∈ calcsAt inp tr k cs := by
  intro k
  induction k with
  | zero =>
    intro cs hcs hm c hc
    have hle := List.countP_le_length (p := fun x => decide (x ∈ cs)) (l := List.range n)
    rw [List.length_range] at hle
    have heq : (List.range n).countP (fun x => decide (x ∈ cs)) = (List.range n).length := by
      rw [List.length_range]; omega
    have := List.countP_eq_length.mp heq c (List.mem_range.mpr (hc.lt hb hcs))
    show c ∈ cs
    simpa using this
  | succ k ih =>
    intro cs hcs hm c hc
    rw [calcsAt_succ]
    by_cases hcl : ∀ x ∈ calcRound inp tr cs, x ∈ cs
    · exact subset_calcsAt inp tr k _ c (mem_calcRound.mpr (Or.inl (hc.closed hcl)))
    · have : ∃ x, x ∈ calcRound inp tr cs ∧ x ∉ cs := by
        apply Classical.byContradiction
        intro hne
        exact hcl (fun x hx => Classical.byContradiction (fun hn => hne ⟨x, hx, hn⟩))
      obtain ⟨x, hx, hxn⟩ := this
      have hcs' : ∀ y ∈ calcRound inp tr cs, y < n := by
        intro y hy
        rcases mem_calcRound.mp hy with a | ⟨c0, hc0, _, hy0⟩
        · exact hcs y a
        · exact hb.rcalcs c0 (hcs c0 hc0) y hy0
      have hlt : (List.range n).countP (fun x => decide (x ∈ cs)) <
          (List.range n).countP (fun x => decide (x ∈ calcRound inp tr cs)) := countP_lt_of (p := fun y => decide (y ∈ cs)) (q := fun y => decide (y ∈ calcRound inp tr cs))
        (fun a ha => by simp only [decide_eq_true_eq] at ha ⊢; exact mem_calcRound.mpr (Or.inl ha))
        (x := x) (by simpa using hx) (by simpa using hxn) (List.range n) (List.mem_range.mpr (hcs' x hx))
      exact ih _ hcs' (by omega) c (hc.mono (fun y hy => mem_calcRound.mpr (Or.inl hy)))

/-- every observed calc_dep of `t` is found by the monitors' iteration on a trace that has the finish reports -/
theorem calcObs_calcsAt {inp : RunInput} {evs tr : List Ev} {n : Nat} (hb : Below inp n)
    (hfin : ∀ x, finBefore evs x → finishedIn tr x = true) {t c : Name} (ht : t < n)
    (h : CalcObs inp evs t c) : c ∈ calcsAt inp tr n (inp.calcDep t) := by
  refine calcsAt_complete hb n _ (hb.cdep t ht) (by omega) c ?_
  induction h with
  | base a => exact .base a
  | step _ f m ih => exact .step ih (hfin _ f) m

theorem finishedIn_trace {inp : RunInput} {s : Sys} {x : Name} (h : finBefore s.events x) :
    finishedIn (trace inp s) x = true := by
  unfold finishedIn trace
  rcases h with a | a
  · exact List.any_eq_true.mpr ⟨_, List.mem_reverse.mpr (List.mem_filter.mpr ⟨a, by simp [hidden]⟩), by simp [Ev.isFinishOf]⟩
  · exact List.any_eq_true.mpr ⟨_, List.mem_reverse.mpr (List.mem_filter.mpr ⟨a, by simp [hidden]⟩), by simp [Ev.isFinishOf]⟩

theorem finBefore_of_finishedIn {inp : RunInput} {s : Sys} {x : Name} (h : finishedIn (trace inp s) x = true) :
    finBefore s.events x := by
  unfold finishedIn at h
  obtain ⟨e, he, hp⟩ := List.any_eq_true.mp h
  have hm := mem_trace he
  cases e with
  | success m => have : m = x := by simpa [Ev.isFinishOf] using hp
                 subst this; exact Or.inl hm
  | skipUtd m => have : m = x := by simpa [Ev.isFinishOf] using hp
                 subst this; exact Or.inr hm
  | _ => simp [Ev.isFinishOf] at hp

/-- the first-stage dependencies the monitors compute from a trace (`ranFirst`, `closeOnce`, `edgesOf` without setup) -/
def stage1 (inp : RunInput) (nTasks : Nat) (tr : List Ev) (t : Name) : List Name :=
  inp.taskDep t ++ calcsAt inp tr nTasks (inp.calcDep t) ++
    (((calcsAt inp tr nTasks (inp.calcDep t)).filter (finishedIn tr)).flatMap fun c =>
      (inp.calcRes c).tasks ++ (inp.calcRes c).files)

theorem depObs_stage1 {inp : RunInput} {evs tr : List Ev} {n : Nat} (hb : Below inp n)
    (hfin : ∀ x, finBefore evs x → finishedIn tr x = true) {t d : Name} (ht : t < n)
    (h : DepObs inp evs t d) : d ∈ stage1 inp n tr t := by
  unfold stage1
  cases h with
  | task a => simp [a]
  | ofCalc a => have := calcObs_calcsAt hb hfin ht a; simp [this]
  | resTask a f m =>
    have := calcObs_calcsAt hb hfin ht a
    refine List.mem_append.mpr (Or.inr (List.mem_flatMap.mpr ⟨_, List.mem_filter.mpr ⟨this, hfin _ f⟩, ?_⟩))
    simp [m]
  | resFile a f m =>
    have := calcObs_calcsAt hb hfin ht a
    refine List.mem_append.mpr (Or.inr (List.mem_flatMap.mpr ⟨_, List.mem_filter.mpr ⟨this, hfin _ f⟩, ?_⟩))
    simp [m]

end DoitModel.Run
