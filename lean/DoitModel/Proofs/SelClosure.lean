import DoitModel.Model.Sel
/-! helper lemmas for the selection model (M8): the closure the dispatcher can reach -/
namespace DoitModel.Sel

/-- reachable from the selection over the static graph (`succs`: task_dep, calc_dep, setup of tasks that run) -/
inductive Reach (ts : List Task) (sel : List Tok) : Tok → Prop
  | base (n : Tok) : n ∈ sel → Reach ts sel n
  | step (n m : Tok) : Reach ts sel n → m ∈ succs ts n → Reach ts sel m

def Closed (ts : List Task) (S : List Tok) : Prop := ∀ n ∈ S, ∀ m ∈ succs ts n, m ∈ S

theorem reach_least (ts : List Task) (sel S : List Tok) (hsel : ∀ n ∈ sel, n ∈ S) (hc : Closed ts S) (m : Tok)
    (h : Reach ts sel m) : m ∈ S := by
  induction h with
  | base n hn => exact hsel n hn
  | step n m _ hm ih => exact hc n ih m hm

theorem closedB_iff (ts : List Task) (S : List Tok) : closedB ts S = true ↔ Closed ts S := by
  simp [closedB, Closed]

theorem mem_addNew (S l : List Tok) (x : Tok) : x ∈ addNew S l ↔ x ∈ S ∨ x ∈ l := by
  induction l generalizing S with
  | nil => simp [addNew]
  | cons m ms ih =>
    simp only [addNew]
    split
    · next h =>
      have : m ∈ S := by simpa using h
      rw [ih]
      constructor
      · rintro (h | h)
        · exact Or.inl h
        · exact Or.inr (by simp [h])
      · rintro (h | h)
        · exact Or.inl h
        · rcases List.mem_cons.1 h with rfl | h
          · exact Or.inl this
          · exact Or.inr h
    · rw [ih]
      simp only [List.mem_append, List.mem_cons, List.not_mem_nil, or_false]
      constructor
      · rintro ((h | h) | h)
        · exact Or.inl h
        · exact Or.inr (Or.inl h)
        · exact Or.inr (Or.inr h)
      · rintro (h | h | h)
        · exact Or.inl (Or.inl h)
        · exact Or.inl (Or.inr h)
        · exact Or.inr h

theorem mem_expand (ts : List Task) (S : List Tok) (x : Tok) :
    x ∈ expand ts S ↔ x ∈ S ∨ ∃ n ∈ S, x ∈ succs ts n := by
  simp [expand, mem_addNew, List.mem_flatMap]

theorem reachIter_mono (ts : List Task) (k : Nat) (S : List Tok) (x : Tok) (h : x ∈ S) : x ∈ reachIter ts k S := by
  induction k generalizing S with
  | zero => exact h
  | succ k ih => exact ih _ ((mem_expand ts S x).2 (Or.inl h))

theorem reachIter_sound (ts : List Task) (sel : List Tok) (k : Nat) (S : List Tok)
    (hS : ∀ x ∈ S, Reach ts sel x) : ∀ x ∈ reachIter ts k S, Reach ts sel x := by
  induction k generalizing S with
  | zero => exact hS
  | succ k ih =>
    apply ih
    intro x hx
    rcases (mem_expand ts S x).1 hx with h | ⟨n, hn, hx⟩
    · exact hS x h
    · exact .step n x (hS n hn) hx

theorem closure_sound (ts : List Task) (sel : List Tok) (m : Tok) (h : m ∈ closureOf ts sel) : Reach ts sel m := by
  apply reachIter_sound ts sel ts.length (addNew [] sel) _ m h
  intro x hx
  exact .base x (by simpa [mem_addNew] using hx)

theorem closure_has_sel (ts : List Task) (sel : List Tok) (n : Tok) (h : n ∈ sel) : n ∈ closureOf ts sel :=
  reachIter_mono ts _ _ n (by simp [mem_addNew, h])

theorem closure_complete (ts : List Task) (sel : List Tok) (hc : closedB ts (closureOf ts sel) = true) (m : Tok)
    (h : Reach ts sel m) : m ∈ closureOf ts sel :=
  reach_least ts sel _ (closure_has_sel ts sel) ((closedB_iff ts _).1 hc) m h

/-! ## order: the chunk abstraction of the serial dispatcher implies the order clause -/

theorem getD_mem_take (s : List Tok) (i : Nat) (h : i < s.length) : s.getD i [] ∈ s.take (i + 1) := by
  have : s.getD i [] = s[i] := by simp [List.getD, h]
  rw [this, List.mem_take_iff_getElem]
  exact ⟨i, by omega, rfl⟩

theorem order_of_chunked (ts : List Task) (sel started : List Tok) (h : chunkedB ts sel started = true) :
    orderPairsBad ts sel started = [] := by
  unfold orderPairsBad
  simp only [List.flatMap_eq_nil_iff, List.filterMap_eq_nil_iff, List.mem_range]
  intro i hi j hj
  have hmem := closure_has_sel ts _ _ (getD_mem_take (addNew [] sel) i hi)
  unfold chunkedB at h
  rw [List.all_eq_true] at h
  have h1 := h i (List.mem_range.2 hi)
  unfold chunkAt at h1
  rw [List.all_eq_true] at h1
  generalize (addNew [] sel).getD i [] = a at *
  generalize (addNew [] sel).getD j [] = b at *
  split
  · next hc =>
    exfalso
    simp only [Bool.and_eq_true, decide_eq_true_eq, Bool.not_eq_true'] at hc
    obtain ⟨⟨⟨⟨hij, ha⟩, hb⟩, hlt⟩, hnot⟩ := hc
    have h2 := h1 a (List.contains_iff_mem.1 ha)
    rw [List.all_eq_true] at h2
    have h3 := h2 b (List.contains_iff_mem.1 hb)
    have hin : (closureOf ts ((addNew [] sel).take (i + 1))).contains a = true := List.contains_iff_mem.2 hmem
    rw [hin, hnot] at h3
    simp at h3
    omega
  · rfl

end DoitModel.Sel
