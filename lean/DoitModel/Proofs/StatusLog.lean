import DoitModel.Proofs.StatusDecision
/-! # M2 — `get_status(..., get_log=True)` agrees with the `get_log=False` decision on "up-to-date" -/
namespace DoitModel.Status

theorem statusLog_upToDate_iff (c : Checker) (d : TaskDef) (r : Rcd) (fs : FS) (resOf : Name → Option Res) :
    statusLog c d r fs resOf = .upToDate ↔ statusOf true c d r fs resOf = .upToDate := by
  unfold statusLog statusOf fileVerdict logRcd
  cases hcc : checkerChanged c r with
  | true =>
    simp only [if_true, Bool.or_true, Bool.true_or]
    cases earlyRun d r.getValues resOf fs <;>
    cases d.deps.any (depMissing fs) <;>
    cases d.deps.any (depIs .crash c Rcd.empty fs) <;> cases d.deps.any (depIs .modified c Rcd.empty fs) <;> simp
  | false =>
    simp only [Bool.false_eq_true, if_false, Bool.or_false]
    cases earlyRun d r.getValues resOf fs <;>
    cases d.deps.any (depMissing fs) <;>
    cases d.deps.any (depIs .crash c r fs) <;> cases d.deps.any (depIs .modified c r fs) <;>
    cases depsChanged true r d.deps <;> simp

/-- `doit info` and `doit run` agree on which tasks are up-to-date, in every state -/
theorem St.statusLog_upToDate_iff (s : St) (t : Name) : s.statusLog t = .upToDate ↔ s.status true t = .upToDate :=
  Status.statusLog_upToDate_iff _ _ _ _ _

end DoitModel.Status
