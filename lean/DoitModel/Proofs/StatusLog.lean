import DoitModel.Proofs.StatusDecision
/-! # M2 — `get_status(..., get_log=True)` agrees with the `get_log=False` decision on "up-to-date" -/
namespace DoitModel.Status

/-- `doit info` shows the decision of `doit run`, unless its (unconditional) loop over the file dependencies raises -/
theorem statusLog_eq_statusOf (c : Checker) (d : TaskDef) (r : Rcd) (fs : FS) (resOf : Name → Option Res)
    (hnc : d.deps.any (depIs .crash c (logRcd c r) fs) = false) :
    statusLog c d r fs resOf = statusOf true c d r fs resOf := by
  unfold statusLog statusOf fileVerdict
  rw [hnc]
  cases hcc : checkerChanged c r with
  | true =>
    simp only [Bool.false_eq_true, if_false, Bool.or_true, if_true]
    cases earlyRun d r.getValues resOf fs <;> simp
  | false =>
    have hr : logRcd c r = r := by simp [logRcd, hcc]
    rw [hr] at hnc
    rw [hnc]
    simp only [Bool.false_eq_true, if_false, Bool.or_false]
    cases earlyRun d r.getValues resOf fs <;>
    cases d.deps.any (depMissing fs) <;> cases d.deps.any (depIs .modified c r fs) <;>
    cases depsChanged true r d.deps <;> simp

theorem statusLog_upToDate_iff (c : Checker) (d : TaskDef) (r : Rcd) (fs : FS) (resOf : Name → Option Res) :
    statusLog c d r fs resOf = .upToDate ↔ statusOf true c d r fs resOf = .upToDate := by
  unfold statusLog statusOf fileVerdict logRcd
  cases hcc : checkerChanged c r with
  | true =>
    simp only [if_true, Bool.or_true, Bool.true_or]
    cases earlyRun d r.getValues resOf fs <;>
    cases d.deps.any (depIs .crash c Rcd.empty fs) <;> simp
  | false =>
    simp only [Bool.false_eq_true, if_false, Bool.or_false]
    cases earlyRun d r.getValues resOf fs <;>
    cases d.deps.any (depMissing fs) <;>
    cases d.deps.any (depIs .crash c r fs) <;> cases d.deps.any (depIs .modified c r fs) <;>
    cases depsChanged true r d.deps <;> simp

/-- `doit info` and `doit run` agree on which tasks are up-to-date, in every state -/
theorem St.statusLog_upToDate_iff (s : St) (t : Name) : s.statusLog t = .upToDate ↔ s.status true t = .upToDate :=
  Status.statusLog_upToDate_iff _ _ _ _ _

end DoitModel.Status
