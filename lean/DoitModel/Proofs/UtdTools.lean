import DoitModel.Model.UtdTools
/-! helper lemmas for the uptodate helpers model (`Model/UtdTools.lean`) -/
namespace DoitModel.UtdTools

theorem lookup_single {α : Type} (k : Str) (v : α) : lookup [(k, v)] k = some v := by
  simp [lookup]

theorem ansOfBool_yes (b : Bool) : ansOfBool b = .yes ↔ b = true := by
  cases b <;> simp [ansOfBool]

theorem dictEq_refl (a : List (Str × Option Str)) : dictEq a a = true := by
  simp [dictEq]

theorem valEq_refl (v : Val) : valEq v v = true := by
  cases v <;> simp [valEq, dictEq_refl]

theorem attrName_inj {a b : Attr} (h : attrName a = attrName b) : a = b := by
  cases a <;> cases b <;> first | rfl | (exfalso; revert h; decide)

theorem runOnce_yes_iff (saved : Saved) :
    (runOnce saved).ans = .yes ↔ ∃ v, lookup saved kRunOnce = some v ∧ v.truthy = true := by
  simp only [runOnce]
  cases h : lookup saved kRunOnce with
  | none => simp [ansOfSavedVal]
  | some v => cases v <;> simp [ansOfSavedVal, ansOfBool_yes, Val.truthy]

theorem config_yes_iff (md5 : Str → Str) (saved : Saved) (w : World) :
    (configChanged md5 saved w).ans = .yes ↔
      ∃ d, digest md5 w.cfg = .ok d ∧ lookup saved kConfig = some (.str d) := by
  simp only [configChanged]
  cases hd : digest md5 w.cfg with
  | error e => simp
  | ok d =>
    cases h : lookup saved kConfig with
    | none => simp
    | some v => cases v <;> simp [ansOfBool_yes]

theorem timeout_yes_iff (tps : Nat) (lim : Limit) (saved : Saved) (w : World) :
    (timeout tps lim saved w).ans = .yes ↔
      ∃ last, lookup saved kSuccessTime = some (.num last) ∧ w.clock - last < limitSec lim * tps := by
  simp only [timeout]
  cases h : lookup saved kSuccessTime with
  | none => simp
  | some v => cases v <;> simp [ansOfBool_yes]

theorem stamp_yes_iff (f : Str) (a : Attr) (c : Cmp) (saved : Saved) (w : World) :
    (stamp f a c saved w).ans = .yes ↔
      ∃ prev st, lookup saved (stampKey f a) = some (.num prev) ∧ w.files f = some st ∧
        c.app prev (st.get a) = true := by
  simp only [stamp]
  cases h : lookup saved (stampKey f a) with
  | none => simp
  | some v =>
    cases v <;> simp [getTime]
    cases hf : w.files f <;> simp [ansOfBool_yes]

theorem resultDep_yes_iff (d : Str) (saved : Saved) (w : World) :
    (resultDep d saved w).ans = .yes ↔
      ∃ v, lookup saved (kResult d) = some v ∧ v ≠ .null ∧ valEq v (depResult w d) = true := by
  simp only [resultDep]
  cases h : lookup saved (kResult d) with
  | none => simp
  | some v => cases v <;> simp [ansOfBool_yes]

theorem call_not_yes_of_unrecorded (md5 : Str → Str) (tps : Nat) (it : Item) (saved : Saved) (w : World)
    (h : lookup saved it.key = none) : (it.call md5 tps saved w).ans ≠ .yes := by
  cases it with
  | once => simp only [Item.call, Item.key] at *; rw [Ne, runOnce_yes_iff]; simp [h]
  | config => simp only [Item.call, Item.key] at *; rw [Ne, config_yes_iff]; simp [h]
  | tmo l => simp only [Item.call, Item.key] at *; rw [Ne, timeout_yes_iff]; simp [h]
  | stampOf f a c => simp only [Item.call, Item.key] at *; rw [Ne, stamp_yes_iff]; simp [h]
  | resDep d => simp only [Item.call, Item.key] at *; rw [Ne, resultDep_yes_iff]; simp [h]

theorem Cmp.app_refl {c : Cmp} (h : c.isRefl = true) (x : Int) : c.app x x = true := by
  cases c with
  | const b => cases b <;> simp_all [Cmp.isRefl, Cmp.app]
  | _ => simp_all [Cmp.isRefl, Cmp.app]

theorem call_yes_after_save (md5 : Str → Str) (tps : Nat) (it : Item) (saved kv : Saved) (w : World)
    (hs : (it.call md5 tps saved w).saver w = .ok kv) (hc : it.canRepeat tps w = true) :
    (it.call md5 tps kv w).ans = .yes := by
  cases it with
  | once =>
    simp only [Item.call, runOnce] at hs
    cases hs
    simp only [Item.call]; rw [runOnce_yes_iff]
    exact ⟨.tt, lookup_single _ _, rfl⟩
  | config =>
    obtain ⟨d, hd⟩ : ∃ d, digest md5 w.cfg = .ok d := by
      simp only [Item.canRepeat, bne_iff_ne, ne_eq] at hc
      cases hcfg : w.cfg with
      | str s => exact ⟨_, rfl⟩
      | dict c => exact ⟨_, rfl⟩
      | bad => exact absurd hcfg hc
    simp only [Item.call, configChanged, hd] at hs
    cases hs
    simp only [Item.call]; rw [config_yes_iff]
    exact ⟨d, hd, lookup_single _ _⟩
  | tmo l =>
    simp only [Item.call, timeout] at hs
    cases hs
    simp only [Item.call]; rw [timeout_yes_iff]
    refine ⟨w.clock, lookup_single _ _, ?_⟩
    simp only [Item.canRepeat, decide_eq_true_eq] at hc
    omega
  | stampOf f a c =>
    simp only [Item.call, stamp, stampSaver, getTime] at hs
    cases hf : w.files f with
    | none => simp [hf] at hs
    | some st =>
      simp only [hf] at hs
      cases hs
      simp only [Item.call]; rw [stamp_yes_iff]
      exact ⟨st.get a, st, lookup_single _ _, hf, Cmp.app_refl hc _⟩
  | resDep d =>
    simp only [Item.call, resultDep] at hs
    cases hs
    simp only [Item.call]; rw [resultDep_yes_iff]
    exact ⟨depResult w d, lookup_single _ _, by simpa [Item.canRepeat] using hc, valEq_refl _⟩

theorem step_noSuccess (md5 : Str → Str) (tps : Nat) (it : Item) (s : St) (o : Op) (hs : s.saved = [])
    (ho : o.noSuccess = true) :
    (step md5 tps it s o).1.saved = [] ∧ (step md5 tps it s o).2 ≠ .skipped ∧
      (step md5 tps it s o).2 ≠ .answered .yes := by
  have hn : (it.call md5 tps s.saved s.world).ans ≠ .yes :=
    call_not_yes_of_unrecorded md5 tps it s.saved s.world (by simp [hs, lookup])
  cases o with
  | change c => simp [step, hs]
  | query =>
    simp only [step]
    refine ⟨hs, by simp, ?_⟩
    intro hq
    injection hq with hq
    exact hn hq
  | run ok during =>
    cases ok with
    | true => simp [Op.noSuccess] at ho
    | false =>
      simp only [step]
      cases ha : (it.call md5 tps s.saved s.world).ans with
      | yes => exact absurd ha hn
      | no => simp [finishRun]
      | ignored => simp [finishRun]
      | raised e => simp [hs]

theorem runOps_noSuccess (md5 : Str → Str) (tps : Nat) (it : Item) (ops : List Op) (s : St) (hs : s.saved = [])
    (h : ops.all Op.noSuccess = true) :
    (runOps md5 tps it s ops).1.saved = [] ∧
      ∀ ob ∈ (runOps md5 tps it s ops).2, ob ≠ .skipped ∧ ob ≠ .answered .yes := by
  induction ops generalizing s with
  | nil => simp [runOps, hs]
  | cons o r ih =>
    simp only [List.all_cons, Bool.and_eq_true] at h
    have h1 := step_noSuccess md5 tps it s o hs h.1
    have h2 := ih (step md5 tps it s o).1 h1.1 h.2
    simp only [runOps]
    refine ⟨h2.1, ?_⟩
    intro ob hob
    simp only [List.mem_cons] at hob
    rcases hob with rfl | hob
    · exact h1.2
    · exact h2.2 ob hob

end DoitModel.UtdTools
