import DoitModel.Proofs.C12Step
import DoitModel.Proofs.C05Shape
/-! # C12 — nodes that await each other are never started; what is left when `tasks_to_run` is popped is such a set -/
namespace DoitModel.Run

variable {inp : RunInput}

/-- every member has a node that awaits a member -/
def Stuck (D : Name → Prop) (s : Sys) : Prop :=
  ∀ w, D w → ∃ nd, s.nodes w = some nd ∧ ∃ d, D d ∧ waitsOn nd d

/-- the node the dispatcher has just yielded awaits nothing -/
theorem yielded_waits_nothing {s : Sys} {n : Name} {nd : Node} (h1 : Inv1 inp s) (hsu : s.susp = some (.node n))
    (hn : s.nodes n = some nd) (d : Name) : ¬ waitsOn nd d := by
  obtain ⟨x, hx, hpc⟩ := h1.sp n hsu
  rw [hn] at hx; cases hx
  have hok := h1.node n nd hn
  have m1 := hok.m1 (by rcases hpc with e | e <;> (rw [e]; rfl))
  have m2 := hok.m2 (by rcases hpc with e | e <;> (rw [e]; rfl))
  intro a
  rcases a with a | a
  · rw [m2] at a; cases a
  · rw [m1.2.2] at a; cases a

theorem stuck_not_yielded {D : Name → Prop} {s : Sys} {n : Name} (h1 : Inv1 inp s) (hD : Stuck D s)
    (hsu : s.susp = some (.node n)) : ¬ D n := by
  intro hn
  obtain ⟨nd, hnd, d, _, hw⟩ := hD n hn
  exact yielded_waits_nothing h1 hsu hnd d hw

theorem stuck_step {D : Name → Prop} {s s' : Sys} {perm : List Name} (h1 : Inv1 inp s) (hsb : SB s)
    (hD : Stuck D s) (hs : serialStep inp s perm = some s') : Stuck D s' := by
  have hk := (serialStep_facts hs).keep
  intro w hw
  obtain ⟨nd, hnd, d, hd, hwd⟩ := hD w hw
  obtain ⟨nd', hnd', f⟩ := hk w nd hnd
  refine ⟨nd', hnd', d, hd, ?_⟩
  rcases f d hwd with a | a
  · exact a
  · exfalso
    -- `d` is being fed back: it is the node the dispatcher yielded, which awaits nothing
    have hr : s.rpc = .sTop (some d) := by
      unfold sentBack at a
      cases hr : s.rpc with
      | sTop p => rw [hr] at a; simp only [] at a; rw [a]
      | gLoop p r => unfold serialStep at hs; simp only [hr] at hs; cases hs
      | gEntry p r => unfold serialStep at hs; simp only [hr] at hs; cases hs
      | _ => rw [hr] at a; cases a
    exact stuck_not_yielded h1 hD (hsb d (Or.inr hr)) hd

theorem shape_stable {s s' : Sys} (h : Shape inp s s') : Stable s s' := by
  cases h with
  | quiet new hst _ _ _ => exact Stable.of_eq hst
  | select n nd extra _ _ hn hd hst _ _ _ =>
    intro x hx
    rw [hst x]
    split
    · rename_i e; subst e
      have := selDecision_unfinished hd
      simp only [stOf, hn] at hx; rw [this] at hx; cases hx
    · rfl
  | result n nd mid hn hrun _ hst _ _ _ =>
    intro x hx
    rw [hst x]
    split
    · rename_i e; subst e
      simp only [stOf, hn, hrun] at hx; cases hx
    · rfl

/-- serial runner, the dispatcher is about to look at `tasks_to_run` (nothing current, nothing ready): every node is
    finished or parked, and every parked node awaits a parked node -/
theorem stuck_at_pop {s : Sys} (hser : inp.runner = .serial) (hr : Reach inp s) (hrpc : s.rpc = .sWait)
    (hsu : s.susp = none) (hc : s.cur = none) (hrd : s.ready = []) :
    Stuck (· ∈ s.waiting) s ∧ ∀ a, created s a → a ∈ s.waiting ∨ (stOf s a).finished = true := by
  have hE := reach_invE hser hr
  have hL := reach_invL hr
  have hC := reach_invC hr
  have hS := reach_invS hser hr
  have hdp : ∀ n, n ∉ s.dispatched := by
    intro n hn
    have hhalt : s.halt = .none := by
      apply Classical.byContradiction; intro e
      rcases hS.hl e with a | a <;> (rw [hrpc] at a; cases a)
    have := hC.dc (hS.sw hrpc) hhalt (by rw [hsu]; simp) n hn
    rcases this with ⟨_, a⟩ | a | a | a
    · rw [hsu] at a; cases a
    · simp [sentBack, hrpc] at a
    · rcases a with a | a | ⟨w, a⟩ | a
      · rw [hS.q.1] at a; cases a
      · simp [holding, hrpc] at a
      · rw [hS.q.2.2 w] at a; cases a
      · rw [hS.q.2.1] at a; cases a
    · rw [hrpc] at a; cases a
  have cls : ∀ a z, s.nodes a = some z → a ∈ s.waiting ∨ z.status.finished = true := by
    intro a z hz
    have park : z.pc ≠ .done → a ∈ s.waiting := by
      intro hpc
      rcases hL.d.a2 a z hz hpc with x | x | x
      · rw [hrd] at x; cases x
      · exact x
      · rw [hc] at x; cases x
    cases hst : z.status with
    | none =>
      left; apply park
      intro e
      have := (hL.a4 a z hz (by rw [e]; rfl) hst).1
      rw [hsu] at this; cases this
    | run =>
      left; apply park
      intro e
      rcases hL.a5 a z hz hst with x | ⟨_, _, x | ⟨x, _⟩⟩
      · rw [hrpc] at x; cases x
      · rw [e] at x; cases x
      · rw [e] at x; cases x
    | utd => right; rfl
    | ign => right; rfl
    | ok => right; rfl
    | fail => right; rfl
  constructor
  · intro w hw
    obtain ⟨nd, hn, ne⟩ := hE.w w hw
    have pick : ∃ d, waitsOn nd d := by
      rcases ne with a | a
      · obtain ⟨d, hd⟩ := List.exists_mem_of_ne_nil _ a; exact ⟨d, Or.inl hd⟩
      · obtain ⟨d, hd⟩ := List.exists_mem_of_ne_nil _ a; exact ⟨d, Or.inr hd⟩
    obtain ⟨d, hd⟩ := pick
    obtain ⟨z, hz, _, hz2⟩ := hE.e (by rw [hsu]; simp) w nd d hn hd
    have hunf : z.status.finished = false := by
      rcases hz2 with a | a
      · exact a
      · exact absurd a (hdp d)
    refine ⟨nd, hn, d, ?_, hd⟩
    rcases cls d z hz with a | a
    · exact a
    · rw [hunf] at a; cases a
  · intro a ⟨z, hz⟩
    rcases cls a z hz with x | x
    · exact Or.inl x
    · right; simpa [stOf, hz] using x

end DoitModel.Run
