import DoitModel.Proofs.RunClosure2
/-! # Dispatcher bookkeeping for "everything needed is processed": every dependency of a node gets a node, every
    unfinished generator is in a queue, every selected task is popped -/
namespace DoitModel.Run

def created (s : Sys) (d : Name) : Prop := ∃ nd, s.nodes d = some nd

/-- the task_deps / calc_deps of a node are pending, about to be visited by the current `for` loop, or have a node -/
structure NodeA (s : Sys) (nd : Node) : Prop where
  t : ∀ d ∈ nd.dynTask, d ∈ nd.pendTask ∨ ((∃ todo, nd.pc = .calcIter todo) ∧ d ∈ nd.snapTask) ∨
        (∃ todo, nd.pc = .taskIter todo ∧ d ∈ todo) ∨ created s d
  c : ∀ d ∈ nd.dynCalc, d ∈ nd.pendCalc ∨ (∃ todo, nd.pc = .calcIter todo ∧ d ∈ todo) ∨ created s d

structure InvD (inp : RunInput) (s : Sys) : Prop where
  a1 : ∀ n nd, s.nodes n = some nd → NodeA s nd
  a2 : ∀ n nd, s.nodes n = some nd → nd.pc ≠ .done → n ∈ s.ready ∨ n ∈ s.waiting ∨ s.cur = some n
  a3 : ∀ t ∈ inp.sel, t ∈ s.toRun ∨ created s t
  a7 : s.susp = some .stopIter → s.cur = none ∧ s.ready = [] ∧ s.toRun = [] ∧ s.waiting = []

/-- nodes are never removed -/
def Keeps (s s' : Sys) : Prop := ∀ d, created s d → created s' d

theorem NodeA.mono {s s' : Sys} {nd : Node} (h : NodeA s nd) (k : Keeps s s') : NodeA s' nd :=
  ⟨fun d hd => by
     rcases h.t d hd with a | a | a | a
     · exact Or.inl a
     · exact Or.inr (Or.inl a)
     · exact Or.inr (Or.inr (Or.inl a))
     · exact Or.inr (Or.inr (Or.inr (k d a))),
   fun d hd => by
     rcases h.c d hd with a | a | a
     · exact Or.inl a
     · exact Or.inr (Or.inl a)
     · exact Or.inr (Or.inr (k d a))⟩

/-- same position, same snapshot; pending lists grow, new dynamic deps are pending -/
theorem NodeA.grow {s : Sys} {a b : Node} (h : NodeA s a) (hpc : b.pc = a.pc) (hsn : b.snapTask = a.snapTask)
    (hpt : ∀ x, x ∈ a.pendTask → x ∈ b.pendTask) (hpcalc : ∀ x, x ∈ a.pendCalc → x ∈ b.pendCalc)
    (hnt : ∀ x, x ∈ b.dynTask → x ∈ a.dynTask ∨ x ∈ b.pendTask)
    (hnc : ∀ x, x ∈ b.dynCalc → x ∈ a.dynCalc ∨ x ∈ b.pendCalc) : NodeA s b :=
  ⟨fun d hd => by
     rcases hnt d hd with a1 | a1
     · rcases h.t d a1 with x | x | x | x
       · exact Or.inl (hpt d x)
       · exact Or.inr (Or.inl ⟨hpc ▸ x.1, hsn ▸ x.2⟩)
       · exact Or.inr (Or.inr (Or.inl (hpc ▸ x)))
       · exact Or.inr (Or.inr (Or.inr x))
     · exact Or.inl a1,
   fun d hd => by
     rcases hnc d hd with a1 | a1
     · rcases h.c d a1 with x | x | x
       · exact Or.inl (hpcalc d x)
       · exact Or.inr (Or.inl (hpc ▸ x))
       · exact Or.inr (Or.inr x)
     · exact Or.inl a1⟩

theorem NodeA.ofGrow {s : Sys} {a b : Node} (h : NodeA s a) (g : Grow a b) : NodeA s b :=
  h.grow g.pc g.snapTask g.pendTask g.pendCalc g.newTask g.newCalc

theorem NodeA.ofUpd {s : Sys} {a b : Node} {pst : RS} {p : Name} (h : NodeA s a) (g : Upd pst p a b) : NodeA s b :=
  h.grow g.pc g.snapTask g.pendTask g.pendCalc g.newTask g.newCalc

theorem keeps_setNode {s : Sys} {n : Name} (x : Node) : Keeps s (setNode s n x) := by
  intro d ⟨nd, hd⟩
  by_cases e : d = n
  · exact ⟨x, by simp [setNode, e]⟩
  · exact ⟨nd, by simp [setNode, e, hd]⟩

theorem Keeps.trans {a b c : Sys} (h1 : Keeps a b) (h2 : Keeps b c) : Keeps a c := fun d h => h2 d (h1 d h)
theorem Keeps.of_eq {a b : Sys} (h : b.nodes = a.nodes) : Keeps a b := fun d ⟨nd, hd⟩ => ⟨nd, by rw [h]; exact hd⟩

theorem keeps_registerWaiting (s : Sys) (n : Name) (wf : List Name) : Keeps s (registerWaiting s n wf) := by
  intro d ⟨nd, hd⟩
  rw [created, registerWaiting_nodes, hd]
  by_cases e : d ∈ wf
  · exact ⟨nd.addWaiting n, by simp [e]⟩
  · exact ⟨nd, by simp [e]⟩

theorem nodeA_addWaiting {s : Sys} {nd : Node} (m : Name) (h : NodeA s nd) : NodeA s (nd.addWaiting m) := by
  unfold Node.addWaiting; split
  · exact h
  · exact ⟨h.t, h.c⟩

/-- all nodes of a state satisfy `NodeA` -/
def AllA (s : Sys) : Prop := ∀ n nd, s.nodes n = some nd → NodeA s nd

theorem allA_setNode {s : Sys} {n : Name} {x : Node} (h : AllA s) (hx : NodeA s x) : AllA (setNode s n x) := by
  intro k y hk
  simp only [setNode_nodes] at hk
  split at hk
  · cases hk; exact hx.mono (keeps_setNode x)
  · exact (h k y hk).mono (keeps_setNode x)

theorem allA_registerWaiting {s : Sys} (n : Name) (wf : List Name) (h : AllA s) : AllA (registerWaiting s n wf) := by
  intro k y hk
  rw [registerWaiting_nodes] at hk
  cases hx : s.nodes k with
  | none => rw [hx] at hk; cases hk
  | some x =>
    rw [hx] at hk
    by_cases e : k ∈ wf
    · simp only [e, if_true, Option.some.injEq] at hk; subst hk
      exact (nodeA_addWaiting n (h k x hx)).mono (keeps_registerWaiting s n wf)
    · simp only [e, if_false, Option.some.injEq] at hk; subst hk
      exact (h k x hx).mono (keeps_registerWaiting s n wf)

theorem allA_congr {s s' : Sys} (h : AllA s) (e : s'.nodes = s.nodes) : AllA s' := by
  intro k y hk; rw [e] at hk; exact (h k y hk).mono (Keeps.of_eq e)


def PC.isIter : PC → Bool
  | .calcIter _ | .taskIter _ => true
  | _ => false

/-- the lists are untouched and the position changes between two places outside the two `for` loops -/
theorem NodeA.setPc {s : Sys} {nd : Node} (pc' : PC) (h : NodeA s nd) (h1 : nd.pc.isIter = false)
    : NodeA s { nd with pc := pc' } :=
  ⟨fun d hd => by
     rcases h.t d hd with a | ⟨⟨todo, a⟩, _⟩ | ⟨todo, a, _⟩ | a
     · exact Or.inl a
     · rw [a] at h1; cases h1
     · rw [a] at h1; cases h1
     · exact Or.inr (Or.inr (Or.inr a)),
   fun d hd => by
     rcases h.c d hd with a | ⟨todo, a, _⟩ | a
     · exact Or.inl a
     · rw [a] at h1; cases h1
     · exact Or.inr (Or.inr a)⟩

theorem mkNode_nodeA (inp : RunInput) (s : Sys) (t : Name) (anc : List Name) : NodeA s (mkNode inp t anc) :=
  ⟨fun _ hd => Or.inl hd, fun _ hd => Or.inl hd⟩

/-- `genStep` for the head `d` of the loop's todo list: afterwards `d` has a node; `x` is the current node at the
    loop's next position -/
theorem genStep_allA {inp : RunInput} {s : Sys} {n : Name} {nd : Node} (d : Name) (pc' : PC) (h : AllA s)
    (hn : s.nodes n = some nd)
    (hx : ∀ s', Keeps s s' → created s' d → NodeA s' { nd with pc := pc' }) :
    AllA (genStep inp s n nd d pc') := by
  unfold genStep
  cases hd : s.nodes d with
  | none =>
    simp only []
    have hdn : d ≠ n := by intro e; subst e; rw [hn] at hd; cases hd
    have k1 : Keeps s (setNode s d (mkNode inp d (nd.anc ++ [d]))) := keeps_setNode _
    have a1 : AllA (setNode s d (mkNode inp d (nd.anc ++ [d]))) := allA_setNode h (mkNode_nodeA inp s d _)
    have cr : created (setNode s d (mkNode inp d (nd.anc ++ [d]))) d := ⟨_, setNode_self _ _ _⟩
    exact allA_congr (allA_setNode a1 (hx _ k1 cr)) rfl
  | some y =>
    simp only []
    split
    · exact allA_congr h rfl
    · exact allA_setNode h (hx s (fun _ a => a) ⟨y, hd⟩)

theorem addWaitRun_allA {inp : RunInput} {s : Sys} {n : Name} {nd : Node} (ds : List Name) (c : Bool) (pc' : PC)
    (h : AllA s) (hx : NodeA s (waitNode inp s nd ds c pc')) : AllA (addWaitRun inp s n nd ds c pc') := by
  unfold addWaitRun
  exact allA_registerWaiting n _ (allA_setNode h hx)

/-- the node left by `_node_add_wait_run`, described by what happens to the `for`-loop disjuncts -/
theorem waitNode_nodeA {inp : RunInput} {s : Sys} {nd : Node} (ds : List Name) (c : Bool) (pc' : PC) (h : NodeA s nd)
    (ht : ∀ d, ((∃ todo, nd.pc = .calcIter todo) ∧ d ∈ nd.snapTask) ∨ (∃ todo, nd.pc = .taskIter todo ∧ d ∈ todo) →
      ((∃ todo, pc' = .calcIter todo) ∧ d ∈ nd.snapTask) ∨ (∃ todo, pc' = .taskIter todo ∧ d ∈ todo))
    (hc : ∀ d, (∃ todo, nd.pc = .calcIter todo ∧ d ∈ todo) → (∃ todo, pc' = .calcIter todo ∧ d ∈ todo)) :
    NodeA s (waitNode inp s nd ds c pc') := by
  have f := waitNode_facts inp s nd ds c pc'
  constructor
  · intro d hd
    rcases f.newTask d hd with a | a
    · rcases h.t d a with x | x | x | x
      · exact Or.inl (f.pendTask d x)
      · rcases ht d (Or.inl x) with y | y
        · exact Or.inr (Or.inl ⟨by rw [f.pc]; exact y.1, by rw [f.snapTask]; exact y.2⟩)
        · exact Or.inr (Or.inr (Or.inl (by rw [f.pc]; exact y)))
      · rcases ht d (Or.inr x) with y | y
        · exact Or.inr (Or.inl ⟨by rw [f.pc]; exact y.1, by rw [f.snapTask]; exact y.2⟩)
        · exact Or.inr (Or.inr (Or.inl (by rw [f.pc]; exact y)))
      · exact Or.inr (Or.inr (Or.inr x))
    · exact Or.inl a
  · intro d hd
    rcases f.newCalc d hd with a | a
    · rcases h.c d a with x | x | x
      · exact Or.inl (f.pendCalc d x)
      · exact Or.inr (Or.inl (by rw [f.pc]; exact hc d x))
      · exact Or.inr (Or.inr x)
    · exact Or.inl a

theorem nodeStep_allA {inp : RunInput} {s s' : Sys} {n : Name} {nd : Node} {perm : List Name} (h : AllA s)
    (hn : s.nodes n = some nd) (hs : nodeStep inp s n nd perm = some s') : AllA s' := by
  have hA := h n nd hn
  unfold nodeStep at hs
  cases hpc : nd.pc with
  | loopTop =>
    simp only [hpc] at hs; split at hs
    · rename_i hp; cases hs
      refine allA_setNode h ⟨?_, ?_⟩
      · intro d hd
        rcases hA.t d hd with a | ⟨⟨todo, a⟩, _⟩ | ⟨todo, a, _⟩ | a
        · exact Or.inr (Or.inl ⟨⟨perm, rfl⟩, a⟩)
        · rw [hpc] at a; cases a
        · rw [hpc] at a; cases a
        · exact Or.inr (Or.inr (Or.inr a))
      · intro d hd
        rcases hA.c d hd with a | ⟨todo, a, _⟩ | a
        · exact Or.inr (Or.inl ⟨perm, rfl, hp.mem_iff.mpr a⟩)
        · rw [hpc] at a; cases a
        · exact Or.inr (Or.inr a)
    · cases hs
  | calcIter todo =>
    simp only [hpc] at hs
    cases todo with
    | cons d ds =>
      cases hs
      refine genStep_allA d _ h hn ?_
      intro s1 k1 cr
      have hA1 := hA.mono k1
      refine ⟨?_, ?_⟩
      · intro x hx
        rcases hA1.t x hx with a | ⟨_, a⟩ | ⟨todo, a, _⟩ | a
        · exact Or.inl a
        · exact Or.inr (Or.inl ⟨⟨ds, rfl⟩, a⟩)
        · rw [hpc] at a; cases a
        · exact Or.inr (Or.inr (Or.inr a))
      · intro x hx
        rcases hA1.c x hx with a | ⟨todo, a, b⟩ | a
        · exact Or.inl a
        · rw [hpc] at a; cases a
          rcases List.mem_cons.mp b with rfl | b
          · exact Or.inr (Or.inr cr)
          · exact Or.inr (Or.inl ⟨ds, rfl, b⟩)
        · exact Or.inr (Or.inr a)
    | nil =>
      cases hs
      refine addWaitRun_allA _ _ _ h (waitNode_nodeA _ _ _ hA ?_ ?_)
      · intro d hd
        rcases hd with ⟨_, a⟩ | ⟨todo, a, _⟩
        · exact Or.inr ⟨nd.snapTask, rfl, a⟩
        · rw [hpc] at a; cases a
      · intro d ⟨todo, a, b⟩; rw [hpc] at a; cases a; cases b
  | taskIter todo =>
    simp only [hpc] at hs
    cases todo with
    | cons d ds =>
      cases hs
      refine genStep_allA d _ h hn ?_
      intro s1 k1 cr
      have hA1 := hA.mono k1
      refine ⟨?_, ?_⟩
      · intro x hx
        rcases hA1.t x hx with a | ⟨⟨todo, a⟩, _⟩ | ⟨todo, a, b⟩ | a
        · exact Or.inl a
        · rw [hpc] at a; cases a
        · rw [hpc] at a; cases a
          rcases List.mem_cons.mp b with rfl | b
          · exact Or.inr (Or.inr (Or.inr cr))
          · exact Or.inr (Or.inr (Or.inl ⟨ds, rfl, b⟩))
        · exact Or.inr (Or.inr (Or.inr a))
      · intro x hx
        rcases hA1.c x hx with a | ⟨todo, a, _⟩ | a
        · exact Or.inl a
        · rw [hpc] at a; cases a
        · exact Or.inr (Or.inr a)
    | nil =>
      cases hs
      refine addWaitRun_allA _ _ _ h (waitNode_nodeA _ _ _ hA ?_ ?_)
      · intro d hd
        rcases hd with ⟨⟨todo, a⟩, _⟩ | ⟨todo, a, b⟩
        · rw [hpc] at a; cases a
        · rw [hpc] at a; cases a; cases b
      · intro d ⟨todo, a, _⟩; rw [hpc] at a; cases a
  | afterDeps =>
    simp only [hpc] at hs
    have x := hA.setPc .loopTop (by rw [hpc]; rfl)
    split at hs
    · cases hs; exact allA_setNode h x
    · split at hs
      · cases hs; exact allA_congr (allA_setNode h x) rfl
      · cases hs; exact allA_setNode h (hA.setPc _ (by rw [hpc]; rfl))
  | self1 =>
    simp only [hpc] at hs; cases hs
    exact allA_congr (allA_setNode h (hA.setPc .afterSelf1 (by rw [hpc]; rfl))) rfl
  | afterSelf1 =>
    simp only [hpc] at hs
    split at hs
    · cases hs; exact allA_setNode h (hA.setPc _ (by rw [hpc]; rfl))
    · split at hs
      · cases hs
        have := hA.setPc .setupDecide (by rw [hpc]; rfl)
        exact allA_congr (allA_setNode (x := { nd with pc := .setupDecide, waitSelect := true }) h ⟨this.t, this.c⟩) rfl
      · cases hs; exact allA_setNode h (hA.setPc _ (by rw [hpc]; rfl))
  | setupDecide =>
    simp only [hpc] at hs
    split at hs <;> (cases hs; exact allA_setNode h (hA.setPc _ (by rw [hpc]; rfl)))
  | setupIter todo =>
    simp only [hpc] at hs
    cases todo with
    | cons d ds =>
      cases hs
      exact genStep_allA d _ h hn (fun s1 k1 _ => (hA.mono k1).setPc _ (by rw [hpc]; rfl))
    | nil =>
      cases hs
      refine addWaitRun_allA _ _ _ h (waitNode_nodeA _ _ _ hA ?_ ?_)
      · intro d hd
        rcases hd with ⟨⟨todo, a⟩, _⟩ | ⟨todo, a, _⟩ <;> (rw [hpc] at a; cases a)
      · intro d ⟨todo, a, _⟩; rw [hpc] at a; cases a
  | afterSetup =>
    simp only [hpc] at hs
    split at hs
    · cases hs; exact allA_congr (allA_setNode h (hA.setPc .self2 (by rw [hpc]; rfl))) rfl
    · cases hs; exact allA_setNode h (hA.setPc _ (by rw [hpc]; rfl))
  | self2 =>
    simp only [hpc] at hs; cases hs
    exact allA_congr (allA_setNode h (hA.setPc .afterSelf2 (by rw [hpc]; rfl))) rfl
  | afterSelf2 => simp only [hpc] at hs; cases hs; exact allA_setNode h (hA.setPc _ (by rw [hpc]; rfl))
  | done => simp only [hpc] at hs; cases hs; exact allA_congr h rfl


/-! ### queues -/

/-- how one `node.step()` moves the queues: they only grow; the current node stays current, or it was parked in
    `waiting`, or its generator was already exhausted; a node that did not exist before is in `ready` -/
structure QStep (s s' : Sys) (n : Name) (nd : Node) : Prop where
  ready : ∀ x, x ∈ s.ready → x ∈ s'.ready
  waiting : ∀ x, x ∈ s.waiting → x ∈ s'.waiting
  cur : s'.cur = s.cur ∨ (s'.cur = none ∧ (n ∈ s'.waiting ∨ nd.pc = .done))
  fresh : ∀ k y, s'.nodes k = some y → s.nodes k = none → k ∈ s'.ready ∧ y.pc = .loopTop
  toRun : s'.toRun = s.toRun

theorem genStep_q {inp : RunInput} {s : Sys} {n : Name} {nd : Node} (d : Name) (pc' : PC) (hn : s.nodes n = some nd) :
    QStep s (genStep inp s n nd d pc') n nd := by
  unfold genStep
  cases hd : s.nodes d with
  | none =>
    simp only []
    refine ⟨fun x hx => by simp [hx], fun x hx => hx, Or.inl rfl, ?_, rfl⟩
    intro k y hk hnone
    by_cases e1 : k = n
    · subst e1; rw [hn] at hnone; cases hnone
    · by_cases e2 : k = d
      · subst e2
        have : y = mkNode inp k (nd.anc ++ [k]) := by simpa [setNode, e1] using hk.symm
        subst this; exact ⟨by simp, rfl⟩
      · simp [setNode, e1, e2, hnone] at hk
  | some y =>
    simp only []
    split
    · exact ⟨fun x hx => hx, fun x hx => hx, Or.inl rfl, (fun k y hk hnone => by rw [hnone] at hk; cases hk), rfl⟩
    · refine ⟨fun x hx => hx, fun x hx => hx, Or.inl rfl, ?_, rfl⟩
      intro k y hk hnone
      by_cases e1 : k = n
      · subst e1; rw [hn] at hnone; cases hnone
      · simp [setNode, e1, hnone] at hk

theorem addWaitRun_q {inp : RunInput} {s : Sys} {n : Name} {nd : Node} (ds : List Name) (c : Bool) (pc' : PC)
    (hn : s.nodes n = some nd) : QStep s (addWaitRun inp s n nd ds c pc') n nd := by
  refine ⟨fun x hx => hx, fun x hx => hx, Or.inl rfl, ?_, rfl⟩
  intro k y hk hnone
  unfold addWaitRun at hk
  rw [registerWaiting_nodes] at hk
  by_cases e1 : k = n
  · subst e1; rw [hn] at hnone; cases hnone
  · simp [setNode, e1, hnone] at hk

theorem setNode_fresh {s : Sys} {n : Name} {nd x : Node} (hn : s.nodes n = some nd) :
    ∀ k y, (setNode s n x).nodes k = some y → s.nodes k = none → False := by
  intro k y hk hnone
  by_cases e1 : k = n
  · subst e1; rw [hn] at hnone; cases hnone
  · simp [setNode, e1, hnone] at hk

theorem nodeStep_q {inp : RunInput} {s s' : Sys} {n : Name} {nd : Node} {perm : List Name}
    (hn : s.nodes n = some nd) (hs : nodeStep inp s n nd perm = some s') : QStep s s' n nd := by
  have plain : ∀ x : Node, QStep s (setNode s n x) n nd := fun x =>
    ⟨fun _ h => h, fun _ h => h, Or.inl rfl, fun k y hk hnone => (setNode_fresh hn k y hk hnone).elim, rfl⟩
  have park : ∀ x : Node, QStep s { setNode s n x with waiting := s.waiting ++ [n], cur := none } n nd := fun x =>
    ⟨fun _ h => h, fun _ h => by simp [h], Or.inr ⟨rfl, Or.inl (by simp)⟩,
     fun k y hk hnone => (setNode_fresh (x := x) hn k y hk hnone).elim, rfl⟩
  have yld : ∀ (x : Node) (dp : List Name) (o : Option DOut),
      QStep s { setNode s n x with dispatched := dp, susp := o } n nd := fun x dp o =>
    ⟨fun _ h => h, fun _ h => h, Or.inl rfl, fun k y hk hnone => (setNode_fresh (x := x) hn k y hk hnone).elim, rfl⟩
  unfold nodeStep at hs
  cases hpc : nd.pc with
  | loopTop => simp only [hpc] at hs; split at hs <;> cases hs; exact plain _
  | calcIter todo =>
    simp only [hpc] at hs
    cases todo <;> cases hs
    · exact addWaitRun_q _ _ _ hn
    · exact genStep_q _ _ hn
  | taskIter todo =>
    simp only [hpc] at hs
    cases todo <;> cases hs
    · exact addWaitRun_q _ _ _ hn
    · exact genStep_q _ _ hn
  | afterDeps =>
    simp only [hpc] at hs
    split at hs
    · cases hs; exact plain _
    · split at hs <;> cases hs
      · exact park _
      · exact plain _
  | self1 => simp only [hpc] at hs; cases hs; exact yld _ _ _
  | afterSelf1 =>
    simp only [hpc] at hs
    split at hs
    · cases hs; exact plain _
    · split at hs <;> cases hs
      · exact park _
      · exact plain _
  | setupDecide => simp only [hpc] at hs; split at hs <;> (cases hs; exact plain _)
  | setupIter todo =>
    simp only [hpc] at hs
    cases todo <;> cases hs
    · exact addWaitRun_q _ _ _ hn
    · exact genStep_q _ _ hn
  | afterSetup =>
    simp only [hpc] at hs
    split at hs <;> cases hs
    · exact park _
    · exact plain _
  | self2 => simp only [hpc] at hs; cases hs; exact yld _ _ _
  | afterSelf2 => simp only [hpc] at hs; cases hs; exact plain _
  | done =>
    simp only [hpc] at hs; cases hs
    exact ⟨fun _ h => h, fun _ h => h, Or.inr ⟨rfl, Or.inr hpc⟩, (fun k y hk hnone => by rw [hnone] at hk; cases hk), rfl⟩

end DoitModel.Run
