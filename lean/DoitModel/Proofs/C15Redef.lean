import DoitModel.Proofs.C15Obey3
import DoitModel.Proofs.DelayedWF
/-! # Delayed creation: the node of a loaded task holds the table entry (no re-definition)

`RedefWF inp` (decidable: `noRedefB`): a name a creator yields is new or a placeholder of the same creator, the
yields of different creators are disjoint, `to_load` names a placeholder of the same creator, and the dispatcher
keeps `evaluated_creators`.  Then in every reachable state a node whose task carries no loader (in particular every
task that was handed to execution) holds exactly `TaskControl.tasks[name]`: the ordering statement over the
node-held objects (`C15_created_obey`) is the statement over the task table. -/
namespace DoitModel.Delayed
open DoitModel.Run (RS Name)

structure RedefWF (inp : Input) : Prop where
  notPinned : inp.pinnedOnce = false
  n1 : ∀ p l, Holder inp p l → ∀ m ∈ yields inp p l, ∀ td, lookup0 inp.tasks0 m = some td → td.loader ≠ none
  n3 : ∀ p l, Holder inp p l → ∀ m ∈ yields inp p l, ∀ l0, Holder inp m l0 → inp.creatorOf l0 = inp.creatorOf l
  n2 : ∀ p l p' l', Holder inp p l → Holder inp p' l' → inp.creatorOf l ≠ inp.creatorOf l' →
    ∀ m ∈ yields inp p l, m ∉ yields inp p' l'
  r : ∀ p l, Holder inp p l → ∃ l', Holder inp (toLoad inp l p) l' ∧ inp.creatorOf l' = inp.creatorOf l

theorem Holder.fn {inp : Input} {n : Name} {l l' : LId} (h : Holder inp n l) (h' : Holder inp n l') : l = l' := by
  obtain ⟨td, h1, h2⟩ := h
  obtain ⟨td', h1', h2'⟩ := h'
  rw [h1] at h1'; cases h1'; rw [h2] at h2'; cases h2'; rfl

structure RedefInv (inp : Input) (s : Sys) : Prop where
  t : ∀ n nd, s.nodes n = some nd → nd.task.loader = none → s.tasks n = some nd.task
  orig : ∀ n nd l, s.nodes n = some nd → nd.task.loader = some l → Holder inp n l
  tab : ∀ n td l, s.tasks n = some td → td.loader = some l → Holder inp n l
  e1 : ∀ l, s.created l = true → inp.creatorOf l ∈ s.evaluated
  e2 : ∀ m td l0, s.tasks m = some td → td.loader = none → Holder inp m l0 → inp.creatorOf l0 ∈ s.evaluated
  hist : ∀ m td, s.tasks m = some td → lookup0 inp.tasks0 m = none →
    ∃ p l, Holder inp p l ∧ inp.creatorOf l ∈ s.evaluated ∧ m ∈ yields inp p l

theorem RedefInv.quiet {inp : Input} {s s' : Sys} (h : RedefInv inp s) (q : Quiet s s') : RedefInv inp s' := by
  constructor
  · intro n nd' hn hl
    rw [q.tasks]
    rcases q.nodes n nd' hn with ⟨nd, h1, h2⟩ | h1
    · rw [h2] at hl ⊢; exact h.t n nd h1 hl
    · exact h1
  · intro n nd' l hn hl
    rcases q.nodes n nd' hn with ⟨nd, h1, h2⟩ | h1
    · rw [h2] at hl; exact h.orig n nd l h1 hl
    · exact h.tab n _ l h1 hl
  · intro n td l hn hl; rw [q.tasks] at hn; exact h.tab n td l hn hl
  · intro l hl; rw [q.created] at hl; rw [q.evald]; exact h.e1 l hl
  · intro m td l0 hm hl hh; rw [q.tasks] at hm; rw [q.evald]; exact h.e2 m td l0 hm hl hh
  · intro m td hm h0; rw [q.tasks] at hm; rw [q.evald]; exact h.hist m td hm h0

/-- only fields the invariant does not read differ -/
theorem RedefInv.congr {inp : Input} {s s' : Sys} (h : RedefInv inp s) (h1 : s'.tasks = s.tasks)
    (h2 : s'.created = s.created) (h4 : s'.nodes = s.nodes) (h5 : s'.evaluated = s.evaluated) : RedefInv inp s' := by
  constructor
  · intro n nd hn hl; rw [h4] at hn; rw [h1]; exact h.t n nd hn hl
  · intro n nd l hn hl; rw [h4] at hn; exact h.orig n nd l hn hl
  · intro n td l hn hl; rw [h1] at hn; exact h.tab n td l hn hl
  · intro l hl; rw [h2] at hl; rw [h5]; exact h.e1 l hl
  · intro m td l0 hm hl hh; rw [h1] at hm; rw [h5]; exact h.e2 m td l0 hm hl hh
  · intro m td hm h0; rw [h1] at hm; rw [h5]; exact h.hist m td hm h0

theorem insertNew_cases (tg : Name → Option Name) (new : List NewTask) :
    ∀ (oid : Nat) (tasks : Name → Option TDef) (k : Name),
      (insertNew tg oid tasks new k = tasks k ∧ k ∉ new.map (·.name)) ∨
      (∃ td, insertNew tg oid tasks new k = some td ∧ td.loader = none ∧ k ∈ new.map (·.name)) := by
  induction new with
  | nil => intro oid tasks k; exact Or.inl ⟨rfl, by simp⟩
  | cons nt r ih =>
    intro oid tasks k
    simp only [insertNew, List.map_cons, List.mem_cons]
    rcases ih (oid + 1) (fun k' => if k' = nt.name then some (newDef tg oid nt) else tasks k') k with
      ⟨h1, h2⟩ | ⟨td, h1, h2, h3⟩
    · by_cases hk : k = nt.name
      · right
        refine ⟨newDef tg oid nt, ?_, rfl, Or.inl hk⟩
        rw [h1]; simp [hk]
      · left
        refine ⟨?_, fun hc => ?_⟩
        · rw [h1]; simp [hk]
        · rcases hc with hc | hc
          · exact hk hc
          · exact h2 hc
    · right; exact ⟨td, h1, h2, Or.inr h3⟩

/-- the creator call through loader `l` carried by (the task object of) node `n` -/
theorem redef_evalCreator {inp : Input} (wf : RedefWF inp) {s : Sys} {n : Name} {l : LId} (h : RedefInv inp s)
    (hh : Holder inp n l) (hfresh : inp.creatorOf l ∉ s.evaluated) :
    RedefInv inp (evalCreator inp s l (toLoad inp l n) b) ∧
      inp.creatorOf l ∈ (evalCreator inp s l (toLoad inp l n) b).evaluated := by
  have hmono : ∀ c, c ∈ s.evaluated → c ∈ s.evaluated ++ [inp.creatorOf l] :=
    fun c hc => List.mem_append_left _ hc
  have hnew : inp.creatorOf l ∈ s.evaluated ++ [inp.creatorOf l] :=
    List.mem_append_right _ (List.mem_singleton.mpr rfl)
  unfold evalCreator
  cases hr : regTargets s.targets (targetPairs (inp.make (inp.creatorOf l) (toLoad inp l n))) with
  | none =>
    refine ⟨⟨h.t, h.orig, h.tab, fun l' hl' => hmono _ (h.e1 l' hl'),
      fun m td l0 hm hl h0 => hmono _ (h.e2 m td l0 hm hl h0), ?_⟩, hnew⟩
    intro m td hm h0
    obtain ⟨p, l', a, b, c⟩ := h.hist m td hm h0
    exact ⟨p, l', a, hmono _ b, c⟩
  | some tg =>
    refine ⟨⟨?_, h.orig, ?_, fun l' hl' => hmono _ (h.e1 l' hl'), ?_, ?_⟩, hnew⟩
    · intro m nd hm hl
      have hT := h.t m nd hm hl
      rcases insertNew_cases tg (inp.make (inp.creatorOf l) (toLoad inp l n)) s.nextOid s.tasks m with
        ⟨h1, _⟩ | ⟨td, _, _, h3⟩
      · show insertNew _ _ _ _ m = _
        rw [h1]; exact hT
      · exfalso
        have hy : m ∈ yields inp n l := h3
        cases h0 : lookup0 inp.tasks0 m with
        | none =>
          obtain ⟨p, l', a, b, c⟩ := h.hist m _ hT h0
          have hne : inp.creatorOf l ≠ inp.creatorOf l' := fun e => hfresh (e ▸ b)
          exact wf.n2 n l p l' hh a hne m hy c
        | some td0 =>
          cases hl0 : td0.loader with
          | none => exact wf.n1 n l hh m hy td0 h0 hl0
          | some l0 =>
            have hm0 : Holder inp m l0 := ⟨td0, h0, hl0⟩
            have := h.e2 m _ l0 hT hl hm0
            rw [wf.n3 n l hh m hy l0 hm0] at this
            exact hfresh this
    · intro m td l' hm hl'
      exact h.tab m td l' (insertNew_old _ _ _ _ _ _ _ hm hl') hl'
    · intro m td l0 hm hl hm0
      rcases insertNew_cases tg (inp.make (inp.creatorOf l) (toLoad inp l n)) s.nextOid s.tasks m with
        ⟨h1, _⟩ | ⟨_, _, _, h3⟩
      · have hm' : s.tasks m = some td := by rw [← h1]; exact hm
        exact hmono _ (h.e2 m td l0 hm' hl hm0)
      · have hy : m ∈ yields inp n l := h3
        rw [wf.n3 n l hh m hy l0 hm0]; exact hnew
    · intro m td hm h0
      rcases insertNew_cases tg (inp.make (inp.creatorOf l) (toLoad inp l n)) s.nextOid s.tasks m with
        ⟨h1, _⟩ | ⟨_, _, _, h3⟩
      · have hm' : s.tasks m = some td := by rw [← h1]; exact hm
        obtain ⟨p, l', a, b, c⟩ := h.hist m td hm' h0
        exact ⟨p, l', a, hmono _ b, c⟩
      · exact ⟨n, l, hh, hnew, h3⟩

theorem redef_regexBlock {inp : Input} {s : Sys} (l : LId) (g : GId) (h : RedefInv inp s) :
    RedefInv inp (regexBlock inp s l g) := by
  unfold regexBlock
  split
  · exact h.congr rfl rfl rfl rfl
  · split
    · exact h.congr rfl rfl rfl rfl
    · split
      · split <;> exact h.congr rfl rfl rfl rfl
      · exact h.congr rfl rfl rfl rfl

theorem regexBlock_keeps (inp : Input) (s : Sys) (l : LId) (g : GId) :
    (regexBlock inp s l g).nodes = s.nodes ∧ (regexBlock inp s l g).evaluated = s.evaluated := by
  unfold regexBlock
  split
  · exact ⟨rfl, rfl⟩
  · split
    · exact ⟨rfl, rfl⟩
    · split
      · split <;> exact ⟨rfl, rfl⟩
      · exact ⟨rfl, rfl⟩

theorem redef_finishLoader {inp : Input} {s : Sys} {n : Name} {nd : Node} {l : LId} {tk' : TDef}
    (h : RedefInv inp s) (hh : Holder inp n l) (hev : inp.creatorOf l ∈ s.evaluated) (hk : tk'.loader = none) :
    RedefInv inp (finishLoader s n nd l tk') := by
  have he1 : ∀ l', (if l' = l then true else s.created l') = true → inp.creatorOf l' ∈ s.evaluated := by
    intro l' hl'
    by_cases e : l' = l
    · subst e; exact hev
    · simp only [e, if_false] at hl'; exact h.e1 l' hl'
  unfold finishLoader
  cases hc : s.tasks n with
  | none => exact ⟨h.t, h.orig, h.tab, he1, h.e2, h.hist⟩
  | some cur =>
    simp only []
    split
    · constructor
      · intro m nd' hm hl
        simp only at hm ⊢
        by_cases e : m = n
        · subst e; simp only [if_true] at hm ⊢; cases hm; rfl
        · simp only [e, if_false] at hm ⊢; exact h.t m nd' hm hl
      · intro m nd' l' hm hl
        simp only at hm
        by_cases e : m = n
        · subst e; simp only [if_true] at hm; cases hm; rw [hk] at hl; cases hl
        · simp only [e, if_false] at hm; exact h.orig m nd' l' hm hl
      · intro m td l' hm hl
        simp only at hm
        by_cases e : m = n
        · subst e; simp only [if_true] at hm; cases hm; rw [hk] at hl; cases hl
        · simp only [e, if_false] at hm; exact h.tab m td l' hm hl
      · exact he1
      · intro m td l0 hm hl hm0
        simp only at hm
        by_cases e : m = n
        · subst e; rw [hm0.fn hh]; exact hev
        · simp only [e, if_false] at hm; exact h.e2 m td l0 hm hl hm0
      · intro m td hm h0
        simp only at hm
        by_cases e : m = n
        · subst e
          obtain ⟨td0, h1, _⟩ := hh
          rw [h1] at h0; cases h0
        · simp only [e, if_false] at hm; exact h.hist m td hm h0
    · constructor
      · intro m nd' hm hl
        simp only at hm ⊢
        by_cases e : m = n
        · subst e; simp only [if_true] at hm; cases hm; exact hc
        · simp only [e, if_false] at hm; exact h.t m nd' hm hl
      · intro m nd' l' hm hl
        simp only at hm
        by_cases e : m = n
        · subst e; simp only [if_true] at hm; cases hm; exact h.tab m cur l' hc hl
        · simp only [e, if_false] at hm; exact h.orig m nd' l' hm hl
      · exact h.tab
      · exact he1
      · exact h.e2
      · exact h.hist

theorem redef_afterCreate {inp : Input} {s : Sys} {n : Name} {nd : Node} {l : LId}
    (h : RedefInv inp s) (hh : Holder inp n l) (hev : inp.creatorOf l ∈ s.evaluated) :
    RedefInv inp (afterCreate inp s n nd l) := by
  unfold afterCreate
  cases nd.task.rx with
  | none => exact redef_finishLoader h hh hev rfl
  | some g =>
    simp only []
    split
    · exact redef_regexBlock l g h
    · exact redef_finishLoader (redef_regexBlock l g h) hh (by rw [(regexBlock_keeps inp s l g).2]; exact hev) rfl

theorem redef_loaderStep {inp : Input} (wf : RedefWF inp) {s : Sys} {n : Name} {nd : Node} {l : LId}
    (h : RedefInv inp s) (hn : s.nodes n = some nd) (hl : nd.task.loader = some l) :
    RedefInv inp (loaderStep inp s n nd l) := by
  have hh : Holder inp n l := h.orig n nd l hn hl
  unfold loaderStep
  cases hT : s.tasks (toLoad inp l n) with
  | none => exact h.congr rfl rfl rfl rfl
  | some tT =>
    simp only []
    split
    · rename_i hm
      have hfresh : inp.creatorOf l ∉ s.evaluated := by
        unfold mustCreate at hm
        simp only [wf.notPinned, Bool.false_or, Bool.and_eq_true, Bool.not_eq_true'] at hm
        simpa using hm.2
      obtain ⟨h1, hev1⟩ := redef_evalCreator wf h hh hfresh
      split
      · exact h1
      · exact redef_afterCreate h1 hh hev1
    · rename_i hm
      refine redef_afterCreate h hh ?_
      -- the creator was evaluated already
      obtain ⟨l', hh', hc'⟩ := wf.r n l hh
      unfold mustCreate at hm
      simp only [wf.notPinned, Bool.false_or] at hm
      cases hlT : tT.loader with
      | none => rw [← hc']; exact h.e2 _ tT l' hT hlT hh'
      | some l'' =>
        have hl'' : l'' = l' := (h.tab _ tT l'' hT hlT).fn hh'
        subst hl''
        simp only [hlT] at hm
        cases hcr : s.created l'' with
        | true => rw [← hc']; exact h.e1 l'' hcr
        | false =>
          simp only [hcr, Bool.not_false, Bool.true_and, Bool.not_eq_true'] at hm
          rw [← hc'] at hm ⊢
          simpa using hm

theorem redef_init (inp : Input) : RedefInv inp (init inp) := by
  constructor
  · intro _ _ h; simp [init] at h
  · intro _ _ _ h; simp [init] at h
  · intro n td l h hl; exact ⟨td, h, hl⟩
  · intro l h; simp [init] at h
  · intro m td l0 hm hl hh
    obtain ⟨td0, h1, h2⟩ := hh
    have : lookup0 inp.tasks0 m = some td := hm
    rw [this] at h1; cases h1; rw [hl] at h2; cases h2
  · intro m td hm h0
    have : lookup0 inp.tasks0 m = some td := hm
    rw [this] at h0; cases h0

theorem redef_step {inp : Input} (wf : RedefWF inp) {s s' : Sys} {c : Choice} (h : RedefInv inp s)
    (hs : step inp s c = some s') : RedefInv inp s' := by
  cases c with
  | tick perm =>
    simp only [step] at hs
    cases hsu : s.susp with
    | running =>
      simp only [hsu] at hs; cases hs
      rcases dtick_cases inp s with q | ⟨n, nd, l, hn, hl, heq⟩
      · exact h.quiet q
      · rw [heq]; exact redef_loaderStep wf h hn hl
    | yielded n => simp only [hsu] at hs; exact h.quiet (quiet_selectStep hs)
    | idle => simp [hsu] at hs
    | holdOn => simp [hsu] at hs
    | stopIter => simp [hsu] at hs
    | err e => simp [hsu] at hs
  | resume =>
    simp only [step] at hs
    split at hs
    · cases hs; exact h.congr rfl rfl rfl rfl
    · cases hs
  | finish n perm => exact h.quiet (quiet_finishStep hs)

theorem redef_reach {inp : Input} (wf : RedefWF inp) {s : Sys} (hr : Reach inp s) : RedefInv inp s := by
  induction hr with
  | init => exact redef_init inp
  | next _ hs ih => exact redef_step wf ih hs

/-- a task with a `start` in the trace has a node whose task object carries no loader -/
theorem started_loaded {inp : Input} {s : Sys} (hc : CountOK (stOf s) s.events) (h : ObeyInv inp s) (t : Name)
    (ht : Ev.start t ∈ s.events) : ∃ nd, s.nodes t = some nd ∧ nd.task.loader = none := by
  cases hn : s.nodes t with
  | none => exact absurd rfl (hc.fresh t (by simp [stOf, hn]) _ ht)
  | some nd =>
    refine ⟨nd, rfl, ?_⟩
    cases hs : nd.status with
    | none => exact absurd rfl (hc.fresh t (by simp [stOf, hn, hs]) _ ht)
    | _ => exact ((h.core.node t nd hn).2.2 (by rw [hs]; intro e; cases e)).2

theorem holder_mem {inp : Input} {p : Name} {l : LId} (h : Holder inp p l) : (p, l) ∈ holders inp := by
  obtain ⟨td, h1, h2⟩ := h
  unfold holders
  rw [List.mem_filterMap]
  exact ⟨(p, td), lookup0_mem _ _ _ h1, by simp [h2]⟩

theorem redefWF_of_bool {inp : Input} (h : noRedefB inp = true) : RedefWF inp := by
  unfold noRedefB at h
  simp only [Bool.and_eq_true, Bool.not_eq_true', List.all_eq_true] at h
  obtain ⟨hp, hall⟩ := h
  refine ⟨hp, ?_, ?_, ?_, ?_⟩
  · intro p l hh m hm td htd hl
    have := (hall _ (holder_mem hh)).1.1 m hm
    simp only [htd, hl] at this
    cases this
  · intro p l hh m hm l0 hh0
    obtain ⟨td0, h1, h2⟩ := hh0
    have := (hall _ (holder_mem hh)).1.1 m hm
    simp only [h1, h2] at this
    simpa using this
  · intro p l p' l' hh hh' hne m hm hm'
    have := (hall _ (holder_mem hh)).1.2 _ (holder_mem hh')
    simp only [Bool.or_eq_true, beq_iff_eq, List.all_eq_true, Bool.not_eq_true', List.contains_eq_mem,
      decide_eq_false_iff_not] at this
    rcases this with h1 | h1
    · exact hne h1
    · exact h1 m hm hm'
  · intro p l hh
    have := (hall _ (holder_mem hh)).2
    cases h1 : lookup0 inp.tasks0 (toLoad inp l p) with
    | none => simp [h1] at this
    | some tb =>
      cases h2 : tb.loader with
      | none => simp [h1, h2] at this
      | some l' =>
        simp only [h1, h2, beq_iff_eq] at this
        exact ⟨l', ⟨tb, h1, h2⟩, this⟩

end DoitModel.Delayed
