import DoitModel.Proofs.RunDeliver
import DoitModel.Proofs.C11Mono
/-! # C11, laziness: the node invariant "every list of an `ExecNode` holds what the laziness closure reaches from its
    task" — `Proofs/C09Dep.lean` with the static dependency relation replaced by the run-dependent one of the monitor
    (a calc_dep delivers what it is known to deliver: `D p r` — executed / up-to-date: its values; failed after being
    started: what it returned before failing), and every node's task justified (`J`) -/
namespace DoitModel.Run

/-- `c` is a calc_dep of `n` as far as known: listed, or delivered by a calc_dep that is known to deliver `r` (`D p r`) -/
inductive CRel (inp : RunInput) (D : Name → CalcRes → Prop) (n : Name) : Name → Prop
  | base {c} : c ∈ inp.calcDep n → CRel inp D n c
  | res {p c r} : CRel inp D n p → D p r → c ∈ r.calcs → CRel inp D n c

/-- `d` is a task_dep of `n` as far as known: listed, or a task_dep / file_dep owner delivered by a good calc_dep -/
inductive TRel (inp : RunInput) (D : Name → CalcRes → Prop) (n : Name) : Name → Prop
  | task {d} : d ∈ inp.taskDep n → TRel inp D n d
  | resT {p d r} : CRel inp D n p → D p r → d ∈ r.tasks → TRel inp D n d
  | resF {p d r} : CRel inp D n p → D p r → d ∈ r.files → TRel inp D n d

def pcJ (inp : RunInput) (D : Name → CalcRes → Prop) (n : Name) : PC → Prop
  | .calcIter todo => ∀ d ∈ todo, CRel inp D n d
  | .taskIter todo => ∀ d ∈ todo, TRel inp D n d
  | .setupIter todo => ∀ d ∈ todo, d ∈ inp.setup n
  | _ => True

structure NJ (inp : RunInput) (J : Name → Prop) (D : Name → CalcRes → Prop) (n : Name) (nd : Node) : Prop where
  self : J n
  dt : ∀ d ∈ nd.dynTask, TRel inp D n d
  dc : ∀ d ∈ nd.dynCalc, CRel inp D n d
  pt : ∀ d ∈ nd.pendTask, TRel inp D n d
  pcalc : ∀ d ∈ nd.pendCalc, CRel inp D n d
  st : ∀ d ∈ nd.snapTask, TRel inp D n d
  sc : ∀ d ∈ nd.snapCalc, CRel inp D n d
  wc : ∀ d ∈ nd.waitRunCalc, CRel inp D n d
  pcl : pcJ inp D n nd.pc

def AllJ (inp : RunInput) (J : Name → Prop) (D : Name → CalcRes → Prop) (s : Sys) : Prop := ∀ k y, s.nodes k = some y → NJ inp J D k y

variable {inp : RunInput} {J : Name → Prop} {D : Name → CalcRes → Prop}

/-! ### node level -/

theorem mkNode_nj {t : Name} {anc : List Name} (ht : J t) : NJ inp J D t (mkNode inp t anc) := by
  refine ⟨ht, fun d hd => TRel.task hd, ?_, fun d hd => TRel.task hd, ?_, ?_, ?_, ?_, trivial⟩
  · intro d hd; exact CRel.base (mem_dedup.mp hd)
  · intro d hd; exact CRel.base (mem_dedup.mp hd)
  · intro d hd; simp [mkNode] at hd
  · intro d hd; simp [mkNode] at hd
  · intro d hd; simp [mkNode] at hd

theorem addDeps_nj {n p : Name} {nd : Node} {r : CalcRes} (h : NJ inp J D n nd) (hp : CRel inp D n p) (hg : D p r) :
    NJ inp J D n (nd.addDeps r) := by
  have nt : ∀ d ∈ newTaskDeps nd r, TRel inp D n d := by
    intro d hd
    simp only [newTaskDeps, List.mem_append] at hd
    rcases hd with a | a
    · exact TRel.resT hp hg a
    · exact TRel.resF hp hg (implicitNew_mem a)
  have nc : ∀ d ∈ newCalcDeps nd r, CRel inp D n d := by
    intro d hd
    simp only [newCalcDeps, List.mem_filter] at hd
    exact CRel.res hp hg (mem_dedup.mp hd.1)
  refine ⟨h.self, ?_, ?_, ?_, ?_, h.st, h.sc, h.wc, h.pcl⟩
  · intro d hd; simp only [Node.addDeps, List.mem_append] at hd
    rcases hd with a | a
    · exact h.dt d a
    · exact nt d a
  · intro d hd; simp only [Node.addDeps, List.mem_append] at hd
    rcases hd with a | a
    · exact h.dc d a
    · exact nc d a
  · intro d hd; simp only [Node.addDeps, List.mem_append] at hd
    rcases hd with a | a
    · exact h.pt d a
    · exact nt d a
  · intro d hd; simp only [Node.addDeps, List.mem_append, List.mem_filter] at hd
    rcases hd with a | a
    · exact h.pcalc d a
    · exact nc d a.1

theorem deliver_nj {n p : Name} {nd : Node} (pst : RS) (h : NJ inp J D n nd) (hp : CRel inp D n p)
    (hg : pst.good = true → D p (inp.calcRes p)) : NJ inp J D n (deliver inp pst p nd) := by
  unfold deliver; split
  · rename_i hgood; exact addDeps_nj h hp (hg hgood)
  · exact h

theorem deliverF_nj {n p : Name} {nd : Node} (ex : Bool) (pst : RS) (h : NJ inp J D n nd) (hp : CRel inp D n p)
    (hf : pst = .fail → ex = true → D p (inp.calcResFail p)) : NJ inp J D n (deliverF inp ex pst p nd) := by
  unfold deliverF; split
  · rename_i hc; exact addDeps_nj h hp (hf hc.1 hc.2)
  · exact h

theorem parentStatus_nj {n : Name} {nd : Node} (pst : RS) (p : Name) (h : NJ inp J D n nd) :
    NJ inp J D n (parentStatus pst p nd) :=
  ⟨h.self, h.dt, h.dc, h.pt, h.pcalc, h.st, h.sc, h.wc, h.pcl⟩

/-- what the statuses and start marks of `s` say about deliveries is known to `D` -/
structure KnowsD (inp : RunInput) (D : Name → CalcRes → Prop) (s : Sys) : Prop where
  g : ∀ d, (stOf s d).good = true → D d (inp.calcRes d)
  f : ∀ d, stOf s d = .fail → started s d = true → D d (inp.calcResFail d)

theorem absorbDone_nj {s : Sys} {n : Name} (hG : KnowsD inp D s)
    (isCalc : Bool) :
    ∀ (ds : List Name) (nd : Node), NJ inp J D n nd → (isCalc = true → ∀ d ∈ ds, CRel inp D n d) →
      NJ inp J D n (absorbDone inp s isCalc ds nd) := by
  intro ds
  induction ds with
  | nil => intro nd h _; exact h
  | cons a t ih =>
    intro nd h hds
    simp only [absorbDone]
    split
    · exact ih nd h (fun e d hd => hds e d (by simp [hd]))
    · apply ih _ _ (fun e d hd => hds e d (by simp [hd]))
      split
      · rename_i hc
        exact deliverF_nj _ _ (deliver_nj _ (parentStatus_nj _ _ h) (hds hc a (by simp)) (hG.g a))
          (hds hc a (by simp)) (hG.f a)
      · exact parentStatus_nj _ _ h

theorem waitNode_nj {s : Sys} {n : Name} {nd : Node} (hG : KnowsD inp D s) (ds : List Name)
    (isCalc : Bool) (pc' : PC)
    (h : NJ inp J D n nd) (hc : isCalc = true → ∀ d ∈ ds, CRel inp D n d) (hpc : pcJ inp D n pc') :
    NJ inp J D n (waitNode inp s nd ds isCalc pc') := by
  have a := absorbDone_nj (s := s) hG isCalc ds nd h hc
  unfold waitNode addWaits
  cases isCalc with
  | true =>
    simp only [if_true]
    refine ⟨a.self, a.dt, a.dc, a.pt, a.pcalc, a.st, a.sc, ?_, hpc⟩
    intro d hd
    simp only [List.mem_append, List.mem_filter] at hd
    rcases hd with x | x
    · exact hc rfl d x.1
    · exact a.wc d x
  | false =>
    simp only [Bool.false_eq_true, if_false]
    exact ⟨a.self, a.dt, a.dc, a.pt, a.pcalc, a.st, a.sc, a.wc, hpc⟩

theorem wokenNode_nj {n : Name} {nd : Node} (pst : RS) (p : Name) (hg : pst.good = true → D p (inp.calcRes p))
    (h : NJ inp J D n nd) : NJ inp J D n (wokenNode inp pst p nd) := by
  unfold wokenNode
  split
  · rename_i hp
    apply deliver_nj _ _ (h.wc p hp) hg
    refine ⟨h.self, h.dt, h.dc, h.pt, h.pcalc, h.st, h.sc, ?_, h.pcl⟩
    intro d hd; exact h.wc d (List.mem_filter.mp hd).1
  · exact ⟨h.self, h.dt, h.dc, h.pt, h.pcalc, h.st, h.sc, h.wc, h.pcl⟩

theorem addWaiting_nj {n : Name} {nd : Node} (m : Name) (h : NJ inp J D n nd) :
    NJ inp J D n (nd.addWaiting m) := by
  unfold Node.addWaiting; split
  · exact h
  · exact ⟨h.self, h.dt, h.dc, h.pt, h.pcalc, h.st, h.sc, h.wc, h.pcl⟩

/-! ### state level -/

theorem allJ_setNode {s : Sys} {n : Name} {x : Node} (h : AllJ inp J D s) (hx : NJ inp J D n x) :
    AllJ inp J D (setNode s n x) := by
  intro k y hk
  simp only [setNode_nodes] at hk
  split at hk
  · rename_i e; subst e; cases hk; exact hx
  · exact h k y hk

theorem allJ_congr {s s' : Sys} (h : AllJ inp J D s) (e : s'.nodes = s.nodes) : AllJ inp J D s' := by
  intro k y hk; rw [e] at hk; exact h k y hk

theorem allJ_registerWaiting {s : Sys} (n : Name) (wf : List Name) (h : AllJ inp J D s) :
    AllJ inp J D (registerWaiting s n wf) := by
  intro k y hk
  rw [registerWaiting_nodes] at hk
  cases hx : s.nodes k with
  | none => rw [hx] at hk; cases hk
  | some x =>
    rw [hx] at hk
    by_cases e : k ∈ wf
    · simp only [e, if_true, Option.some.injEq] at hk; subst hk; exact addWaiting_nj n (h k x hx)
    · simp only [e, if_false, Option.some.injEq] at hk; subst hk; exact h k x hx

/-- `_gen_node(node = n, d)`: a new node is made only for a justified task -/
theorem genStep_allJ {s : Sys} {n : Name} {nd : Node} (d : Name) (pc' : PC)
    (h : AllJ inp J D s) (hn : s.nodes n = some nd) (hd : s.nodes d = none → J d) (hpc : pcJ inp D n pc') :
    AllJ inp J D (genStep inp s n nd d pc') := by
  have hnd := h n nd hn
  have hx : NJ inp J D n { nd with pc := pc' } :=
    ⟨hnd.self, hnd.dt, hnd.dc, hnd.pt, hnd.pcalc, hnd.st, hnd.sc, hnd.wc, hpc⟩
  unfold genStep
  cases hdn : s.nodes d with
  | none =>
    simp only []
    exact allJ_setNode (allJ_setNode h (mkNode_nj (hd hdn))) hx
  | some x =>
    simp only []
    split
    · exact h
    · exact allJ_setNode h hx

theorem addWaitRun_allJ {s : Sys} {n : Name} {nd : Node} (hG : KnowsD inp D s) (ds : List Name)
    (c : Bool) (pc' : PC)
    (h : AllJ inp J D s) (hn : s.nodes n = some nd) (hc : c = true → ∀ d ∈ ds, CRel inp D n d)
    (hpc : pcJ inp D n pc') :
    AllJ inp J D (addWaitRun inp s n nd ds c pc') := by
  unfold addWaitRun
  exact allJ_registerWaiting n _ (allJ_setNode h (waitNode_nj hG ds c pc' (h n nd hn) hc hpc))

/-- `J` is closed under the known dependencies -/
structure JClosed (inp : RunInput) (J : Name → Prop) (D : Name → CalcRes → Prop) : Prop where
  c : ∀ n c, J n → CRel inp D n c → J c
  t : ∀ n d, J n → TRel inp D n d → J d

theorem nodeStep_allJ {s s' : Sys} {n : Name} {nd : Node} {perm : List Name}
    (hG : KnowsD inp D s) (hC : JClosed inp J D)
    (hS : ∀ d ds, nd.pc = .setupIter (d :: ds) → s.nodes d = none → J d)
    (h : AllJ inp J D s) (hn : s.nodes n = some nd) (hs : nodeStep inp s n nd perm = some s') :
    AllJ inp J D s' := by
  have hnd := h n nd hn
  have setPc : ∀ pc', pcJ inp D n pc' → NJ inp J D n { nd with pc := pc' } := fun pc' hp =>
    ⟨hnd.self, hnd.dt, hnd.dc, hnd.pt, hnd.pcalc, hnd.st, hnd.sc, hnd.wc, hp⟩
  unfold nodeStep at hs
  cases hpc : nd.pc with
  | loopTop =>
    simp only [hpc] at hs; split at hs
    · rename_i hp; cases hs
      refine allJ_setNode h ⟨hnd.self, hnd.dt, hnd.dc, by simp, by simp, hnd.pt, ?_, hnd.wc, ?_⟩
      · intro d hd; exact hnd.pcalc d (hp.mem_iff.mp hd)
      · intro d hd; exact hnd.pcalc d (hp.mem_iff.mp hd)
    · cases hs
  | calcIter todo =>
    have hp := hnd.pcl; rw [hpc] at hp
    simp only [hpc] at hs
    cases todo with
    | cons d ds =>
      cases hs
      exact genStep_allJ d _ h hn (fun _ => hC.c n d hnd.self (hp d (by simp))) (fun x hx => hp x (by simp [hx]))
    | nil =>
      cases hs
      exact addWaitRun_allJ hG _ _ _ h hn (fun _ => hnd.sc) hnd.st
  | taskIter todo =>
    have hp := hnd.pcl; rw [hpc] at hp
    simp only [hpc] at hs
    cases todo with
    | cons d ds =>
      cases hs
      exact genStep_allJ d _ h hn (fun _ => hC.t n d hnd.self (hp d (by simp))) (fun x hx => hp x (by simp [hx]))
    | nil => cases hs; exact addWaitRun_allJ hG _ _ _ h hn (fun e => by cases e) trivial
  | afterDeps =>
    simp only [hpc] at hs
    split at hs
    · cases hs; exact allJ_setNode h (setPc _ trivial)
    · split at hs <;> (cases hs; exact allJ_setNode h (setPc _ trivial))
  | self1 => simp only [hpc] at hs; cases hs; exact allJ_setNode h (setPc _ trivial)
  | afterSelf1 =>
    simp only [hpc] at hs
    split at hs
    · cases hs; exact allJ_setNode h (setPc _ trivial)
    · split at hs
      · cases hs
        exact allJ_setNode h ⟨hnd.self, hnd.dt, hnd.dc, hnd.pt, hnd.pcalc, hnd.st, hnd.sc, hnd.wc, trivial⟩
      · cases hs; exact allJ_setNode h (setPc _ trivial)
  | setupDecide =>
    simp only [hpc] at hs
    split at hs
    · cases hs; exact allJ_setNode h (setPc _ (fun d hd => hd))
    · cases hs; exact allJ_setNode h (setPc _ trivial)
  | setupIter todo =>
    have hp := hnd.pcl; rw [hpc] at hp
    simp only [hpc] at hs
    cases todo with
    | cons d ds =>
      cases hs
      exact genStep_allJ d _ h hn (hS d ds hpc) (fun x hx => hp x (by simp [hx]))
    | nil =>
      cases hs
      exact addWaitRun_allJ hG _ _ _ h hn (fun e => by cases e) trivial
  | afterSetup =>
    simp only [hpc] at hs
    split at hs <;> (cases hs; exact allJ_setNode h (setPc _ trivial))
  | self2 => simp only [hpc] at hs; cases hs; exact allJ_setNode h (setPc _ trivial)
  | afterSelf2 => simp only [hpc] at hs; cases hs; exact allJ_setNode h (setPc _ trivial)
  | done => simp only [hpc] at hs; cases hs; exact h

theorem dtick_allJ {s s' : Sys} {perm : List Name} (hG : KnowsD inp D s)
    (hC : JClosed inp J D)
    (hS : ∀ n nd d ds, s.cur = some n → s.nodes n = some nd → nd.pc = .setupIter (d :: ds) → s.nodes d = none → J d)
    (hT : ∀ t ∈ s.toRun, J t) (h : AllJ inp J D s)
    (hs : dtick inp s perm = some s') : AllJ inp J D s' := by
  unfold dtick at hs
  cases hc : s.cur with
  | some n =>
    simp only [hc] at hs
    cases hn : s.nodes n with
    | none => simp only [hn] at hs; cases hs; exact h
    | some nd => simp only [hn] at hs; exact nodeStep_allJ hG hC (fun d ds a b => hS n nd d ds hc hn a b) h hn hs
  | none =>
    simp only [hc] at hs
    split at hs
    · cases hs; exact h
    · split at hs
      · split at hs
        · cases hs
          rename_i _ _ _ t ts htr _ _
          exact allJ_setNode h (mkNode_nj (hT t (by rw [htr]; simp)))
        · cases hs; exact h
      · split at hs
        · split at hs <;> (cases hs; exact h)
        · cases hs; exact h

theorem wokenF_nj {s : Sys} {n : Name} {nd : Node} (pst : RS) (p : Name)
    (hg : pst.good = true → D p (inp.calcRes p))
    (hf : pst = .fail → started s p = true → D p (inp.calcResFail p)) (h : NJ inp J D n nd) :
    NJ inp J D n (wokenF inp s pst p nd) := by
  unfold wokenF; split
  · rename_i hp
    exact deliverF_nj _ _ (wokenNode_nj pst p hg h) (h.wc p hp) hf
  · exact wokenNode_nj pst p hg h

theorem wakeOne_allJ {s : Sys} {pst : RS} {p w : Name} {nd : Node}
    (hg : pst.good = true → D p (inp.calcRes p))
    (hf : pst = .fail → started s p = true → D p (inp.calcResFail p)) (h : AllJ inp J D s)
    (hw : s.nodes w = some nd) : AllJ inp J D (wakeOne inp s pst p w nd) := by
  have := allJ_setNode h (wokenF_nj pst p hg hf (h w nd hw))
  unfold wakeOne; split
  · exact allJ_congr this rfl
  · exact this

theorem started_congr {s s' : Sys} (e : s'.events = s.events) (p : Name) : started s' p = started s p := by
  unfold started; rw [e]

theorem updateWaiting_allJ {pst : RS} {p : Name} (hg : pst.good = true → D p (inp.calcRes p)) (E : List Ev)
    (hf : ∀ s1 : Sys, s1.events = E → pst = .fail → started s1 p = true → D p (inp.calcResFail p)) :
    ∀ (perm : List Name) (s s' : Sys), s.events = E → AllJ inp J D s → updateWaiting inp pst p s perm = some s' →
      AllJ inp J D s' := by
  intro perm
  induction perm with
  | nil => intro s s' _ h hs; simp only [updateWaiting] at hs; cases hs; exact h
  | cons w ws ih =>
    intro s s' he h hs
    simp only [updateWaiting] at hs
    cases hw : s.nodes w with
    | none => simp only [hw] at hs; exact ih s s' he h hs
    | some nd =>
      simp only [hw] at hs
      split at hs
      · cases hs
      · exact ih _ s' ((wakeOne_outer inp s pst p w nd).1.1.trans he) (wakeOne_allJ hg (hf s he) h hw) hs

theorem sendHead_allJ {s : Sys} {p : Name} {nd : Node} (h : AllJ inp J D s) (hn : s.nodes p = some nd) :
    AllJ inp J D (sendHead s p nd) := by
  have hnd := h p nd hn
  unfold sendHead; split
  · exact allJ_congr (allJ_setNode h
      (x := { nd with waitSelect := false })
      ⟨hnd.self, hnd.dt, hnd.dc, hnd.pt, hnd.pcalc, hnd.st, hnd.sc, hnd.wc, hnd.pcl⟩) rfl
  · exact allJ_congr h rfl

theorem send_allJ {s s' : Sys} {processed : Option Name} {perm : List Name}
    (hG : KnowsD inp D s) (h : AllJ inp J D s)
    (hs : send inp s processed perm = some s') : AllJ inp J D s' := by
  unfold send at hs
  cases processed with
  | none => cases hs; exact allJ_congr h rfl
  | some p =>
    simp only [] at hs
    cases hn : s.nodes p with
    | none => simp only [hn] at hs; cases hs; exact allJ_congr h rfl
    | some nd =>
      simp only [hn] at hs
      split at hs
      · cases hs; exact allJ_congr h rfl
      · split at hs
        · cases hs; exact allJ_congr (sendHead_allJ h hn) rfl
        · split at hs
          · cases hu : updateWaiting inp nd.status p (sendHead s p nd) perm with
            | none => simp only [hu] at hs; cases hs; exact allJ_congr (sendHead_allJ h hn) rfl
            | some s2 =>
              simp only [hu] at hs; cases hs
              have hst : stOf s p = nd.status := by simp [stOf, hn]
              have hev : (sendHead s p nd).events = s.events := by unfold sendHead; split <;> rfl
              exact allJ_congr (updateWaiting_allJ (fun a => hG.g p (by rw [hst]; exact a)) s.events
                (fun s1 e1 a b => hG.f p (by rw [hst]; exact a) (by rw [← started_congr e1 p]; exact b))
                perm _ s2 hev (sendHead_allJ h hn) hu) rfl
          · cases hs

/-- the runner changes only the status of a node -/
theorem allJ_status {s s' : Sys} {n : Name} {nd : Node} (st' : RS) (h : AllJ inp J D s) (hn : s.nodes n = some nd)
    (e : s'.nodes = (setNode s n { nd with status := st' }).nodes) : AllJ inp J D s' := by
  have hnd := h n nd hn
  exact allJ_congr (allJ_setNode h (x := { nd with status := st' })
    ⟨hnd.self, hnd.dt, hnd.dc, hnd.pt, hnd.pcalc, hnd.st, hnd.sc, hnd.wc, hnd.pcl⟩) e

end DoitModel.Run
