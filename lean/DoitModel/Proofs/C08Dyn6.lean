import DoitModel.Proofs.C08Dyn5
import DoitModel.Proofs.C08Conf6
import DoitModel.Proofs.RunPar
import DoitModel.Proofs.C08LiftStart
/-! # C08 (I10) with calc_dep, step 3c: the confluence invariant `InvDen` holds in every reachable state of the serial and of the
    parallel system (any graph) -/
namespace DoitModel.Run.Dyn

/-- node-local soundness of `bad_deps`/`ignored_deps` + agreement of statuses, `go` marks and reports with `DenOf`;
    `dcf`: what a processed calc_dep that failed during its execution returned is in the dynamic dependency lists;
    `sb`: a failed task whose derived outcome is a failure during execution has a start event -/
structure InvDen (inp : RunInput) (s : Sys) : Prop where
  nodeS : InvN inp s
  den : InvE inp s
  dcf : AllDCF inp (SF inp) s
  sb : StartB (SF inp) s

/-- for a failed task: it has a start event iff its derived outcome is a failure during its execution -/
theorem InvDen.started_iff {inp : RunInput} {s : Sys} (h : InvDen inp s) (h3 : Inv3 inp s) (c : Name)
    (hf : stOf s c = .fail) : started s c = true ↔ SF inp c :=
  ⟨startF_of_inv h3 h.den c hf, h.sb c hf⟩

theorem InvDen.fin {inp : RunInput} {s : Sys} (h : InvDen inp s) (n : Name) (hf : (stOf s n).finished = true) :
    ∃ d, DenOf inp n d ∧ d.rs = stOf s n := h.den.fin n hf

theorem InvDen.rep {inp : RunInput} {s : Sys} (h : InvDen inp s) (n : Name) :
    (Ev.success n ∈ s.events → DenOf inp n .ok) ∧ (Ev.skipUtd n ∈ s.events → DenOf inp n .utd) ∧
    (Ev.skipIgn n ∈ s.events → DenOf inp n .ign) ∧ (∀ k, Ev.failure n k ∈ s.events → DenOf inp n (.fail k)) :=
  ⟨fun a => h.den.rep _ a n _ (by simp [Ev.den?]), fun a => h.den.rep _ a n _ (by simp [Ev.den?]),
   fun a => h.den.rep _ a n _ (by simp [Ev.den?]), fun k a => h.den.rep _ a n _ (by simp [Ev.den?])⟩

theorem init_invDen (inp : RunInput) : InvDen inp (init inp) :=
  ⟨fun n nd hn => by simp [init] at hn, init_invE inp, init_allDCF inp _, init_startB inp⟩

/-- nothing in the nodes changes; events without report / `go` are added -/
theorem InvDen.outer {inp : RunInput} {s s' : Sys} (h : InvDen inp s) (e1 : s'.nodes = s.nodes) (new : List Ev)
    (hev : s'.events = new ++ s.events) (hp : ∀ e ∈ new, Ev.plainD e) : InvDen inp s' :=
  ⟨invN_congr h.nodeS e1, h.den.frame (stOf_congr e1) new hev hp, allDCF_congr h.dcf e1,
   StartB.frame h.sb (stOf_congr e1) new hev⟩

theorem InvDen.same {inp : RunInput} {s s' : Sys} (h : InvDen inp s) (e1 : s'.nodes = s.nodes)
    (e2 : s'.events = s.events) : InvDen inp s' :=
  h.outer e1 [] (by simpa using e2) (by simp)

theorem dtick_invDen {inp : RunInput} {s s' : Sys} {perm : List Name} (h3 : Inv3 inp s) (h : InvDen inp s)
    (hs : dtick inp s perm = some s') : InvDen inp s' :=
  ⟨dtick_invN (startF_of_inv h3 h.den) h.nodeS hs,
   h.den.frame (dtick_stOf hs) [] (by simpa using (dtick_outer hs).1) (by simp),
   dtick_allDCF h.dcf h.sb hs, StartB.frame h.sb (dtick_stOf hs) [] (by simpa using (dtick_outer hs).1)⟩

theorem send_invDen {inp : RunInput} {s s0 : Sys} {node : Option Name} {perm : List Name} (h2 : Inv2 inp s)
    (h3 : Inv3 inp s)
    (h : InvDen inp s) (hnode : sentBack s = node) (hs : send inp s node perm = some s0) : InvDen inp s0 := by
  obtain ⟨_, hst⟩ := send_inv1 h2.inv1 (fun p hp => h2.sb p (by rw [hnode, hp])) hs
  exact ⟨send_invN (startF_of_inv h3 h.den) h.nodeS hs, h.den.frame hst [] (by simpa using (send_outer hs).1.1) (by simp),
    send_allDCF h.dcf h.sb hs, StartB.frame h.sb hst [] (by simpa using (send_outer hs).1.1)⟩

/-- at a select point the completeness invariant gives `DelivF` -/
theorem InvDen.delivF {inp : RunInput} {s : Sys} {n : Name} {nd : Node} (h : InvDen inp s) (h1 : Inv1 inp s)
    (hn : s.nodes n = some nd) (hl : nd.pc.inLoop = false) : DelivF inp s nd :=
  DelivF.ofDCF h.den h1 h.dcf hn hl

theorem select_invDen {inp : RunInput} {s : Sys} {n : Name} {nd : Node} (hG : InvG inp s) (h2 : Inv2 inp s) (h : InvDen inp s)
    (haw : awaiting s) (hsusp : s.susp = some (.node n)) (hn : s.nodes n = some nd)
    (hd : selDecision inp n nd ≠ .assertFail) : InvDen inp (applySel inp s n nd (selDecision inp n nd)) := by
  have hl : nd.pc.inLoop = false := by
    obtain ⟨nd', hn', hpc⟩ := h2.inv1.sp n hsusp
    rw [hn] at hn'; cases hn'
    rcases hpc with e | e <;> (rw [e]; rfl)
  have hE' := invE_select h.den h.nodeS h2 hG.dc haw hsusp hn (h.delivF h2.inv1 hn hl) hd
  refine ⟨?_, hE', ?_, startB_applySel h.sb hd hE'⟩
  · exact invN_congr (invN_status (selStatus (selDecision inp n nd)) h.nodeS hn (selDecision_unfinished hd)
      (selStatus_ne_none hd)) (applySel_nodes inp s n nd _ hd)
  · exact allDCF_status h.dcf h2.inv1 hn (selDecision_unfinished hd) _ (applySel_nodes inp s n nd _ hd)

theorem result_invDen {inp : RunInput} {s : Sys} {n : Name} {nd : Node} (h : InvDen inp s) (h1 : Inv1 inp s)
    (hn : s.nodes n = some nd) (hrun : nd.status = .run) (hgo : ∃ deps, Ev.go n deps ∈ s.events)
    (hstart : cStart s n ≥ 1) :
    InvDen inp (processResult inp s n nd) := by
  refine ⟨?_, invE_result h.den hgo, ?_, startB_result h.sb hstart⟩
  · exact invN_congr (invN_status (resStatus (inp.outcome n)) h.nodeS hn (by rw [hrun]; rfl) (resStatus_ne_none _))
      (processResult_nodes inp s n nd)
  · exact allDCF_status h.dcf h1 hn (by rw [hrun]; rfl) _ (processResult_nodes inp s n nd)

theorem finishRun_invDen {inp : RunInput} {s : Sys} (h : InvDen inp s) : InvDen inp (finishRun s) :=
  h.outer rfl (Ev.complete :: s.tdown.map Ev.teardown) (by simp [finishRun]) (teardown_plainD _)

/-! ### the serial runner -/

theorem serialStep_invDen {inp : RunInput} {s s' : Sys} {perm : List Name} (hG : InvG inp s) (h2 : Inv2 inp s)
    (h3 : Inv3 inp s) (h : InvDen inp s) (hs : serialStep inp s perm = some s') : InvDen inp s' := by
  unfold serialStep at hs
  cases hr : s.rpc with
  | sTop node =>
    simp only [hr] at hs
    split at hs
    · cases hs; exact h.same rfl rfl
    · cases hsd : send inp s node perm with
      | none => simp only [hsd] at hs; cases hs
      | some s0 =>
        simp only [hsd] at hs; cases hs
        exact (send_invDen h2 h3 h (by simp [sentBack, hr]) hsd).same rfl rfl
  | sWait =>
    simp only [hr] at hs
    have haw : awaiting s := Or.inl hr
    cases hsu : s.susp with
    | none => simp only [hsu] at hs; exact dtick_invDen h3 h hs
    | some o =>
      simp only [hsu] at hs
      cases o with
      | init => cases hs
      | node n =>
        simp only [] at hs
        cases hn : s.nodes n with
        | none => simp only [hn] at hs; cases hs; exact h.same rfl rfl
        | some nd =>
          simp only [hn] at hs
          have key : selDecision inp n nd ≠ .assertFail →
              InvDen inp (applySel inp s n nd (selDecision inp n nd)) := select_invDen hG h2 h haw hsu hn
          cases hd : selDecision inp n nd with
          | go =>
            simp only [hd] at hs; cases hs
            have h1 := key (by rw [hd]; simp)
            rw [hd] at h1
            exact h1.outer rfl _ (startTask_events inp _ n 0) (start_plainD inp n 0)
          | assertFail => simp only [hd] at hs; cases hs; exact h.same rfl rfl
          | skipIgn => simp only [hd] at hs; cases hs; have := key (by simp [hd]); rw [hd] at this; exact this.same rfl rfl
          | unmet => simp only [hd] at hs; cases hs; have := key (by simp [hd]); rw [hd] at this; exact this.same rfl rfl
          | depErr => simp only [hd] at hs; cases hs; have := key (by simp [hd]); rw [hd] at this; exact this.same rfl rfl
          | utd => simp only [hd] at hs; cases hs; have := key (by simp [hd]); rw [hd] at this; exact this.same rfl rfl
          | runFirst => simp only [hd] at hs; cases hs; have := key (by simp [hd]); rw [hd] at this; exact this.same rfl rfl
          | argsErr => simp only [hd] at hs; cases hs; have := key (by simp [hd]); rw [hd] at this; exact this.same rfl rfl
      | stopIter => cases hs; exact h.same rfl rfl
      | holdOn => cases hs; exact h.same rfl rfl
      | cyclic n => cases hs; exact h.same rfl rfl
      | crash => cases hs; exact h.same rfl rfl
  | sExec n =>
    simp only [hr] at hs
    cases hn : s.nodes n with
    | none => simp only [hn] at hs; cases hs; exact h.same rfl rfl
    | some nd =>
      simp only [hn] at hs; cases hs
      have hrun : nd.status = .run := by have := h2.x n hr; simpa [stOf, hn] using this
      have hgo : ∃ deps, Ev.go n deps ∈ s.events := by
        apply go_of_cGo
        have := h3.j n; have := (h3.x3 n hr).1; omega
      have h1 : InvDen inp { s with rpc := .sExec n, events := Ev.fin n 0 :: s.events } :=
        h.outer rfl [Ev.fin n 0] rfl (fin_plainD n 0)
      have h2' := result_invDen (s := { s with rpc := .sExec n, events := Ev.fin n 0 :: s.events }) h1
        (h2.inv1.congr rfl rfl rfl rfl rfl) hn hrun
        (by obtain ⟨deps, hd⟩ := hgo; exact ⟨deps, by simp [hd]⟩)
        (by have := (h3.x3 n hr).1
            have e : cStart { s with rpc := .sExec n, events := Ev.fin n 0 :: s.events } n = cStart s n := by
              simp [cStart, List.countP_cons, Ev.isStartOf]
            omega)
      exact h2'.same rfl rfl
  | fin => simp only [hr] at hs; cases hs; exact finishRun_invDen h
  | gEntry a b => simp only [hr] at hs; cases hs
  | gLoop a b => simp only [hr] at hs; cases hs
  | gWait a => simp only [hr] at hs; cases hs
  | gRet a b => simp only [hr] at hs; cases hs
  | pTop => simp only [hr] at hs; cases hs
  | pJoin => simp only [hr] at hs; cases hs
  | halted => simp only [hr] at hs; cases hs

theorem reach_invDen {inp : RunInput} {s : Sys} (h : Reach inp s) : InvDen inp s := by
  induction h with
  | init => exact init_invDen inp
  | @next s0 s1 c hr hs ih =>
    cases c with
    | main perm => exact serialStep_invDen (reach_invG hr) (reach_inv2 hr) (reach_inv3 hr) ih hs
    | take w => cases hs
    | done w => cases hs

/-! ### the parallel runners -/

theorem mainStep_invDen {inp : RunInput} {s s' : Sys} {perm : List Name} (hG : InvG inp s) (h2 : Inv2 inp s)
    (h3 : Inv3 inp s) (h : InvDen inp s) (hs : mainStep inp s perm = some s') : InvDen inp s' := by
  unfold mainStep at hs
  cases hr : s.rpc with
  | gEntry completed ret =>
    simp only [hr] at hs
    split at hs <;> (cases hs; exact h.same rfl rfl)
  | gLoop node ret =>
    simp only [hr] at hs
    cases hsd : send inp s node perm with
    | none => simp only [hsd] at hs; cases hs
    | some s0 =>
      simp only [hsd] at hs; cases hs
      exact (send_invDen h2 h3 h (by simp [sentBack, hr]) hsd).same rfl rfl
  | gWait ret =>
    simp only [hr] at hs
    have haw : awaiting s := Or.inr ⟨ret, hr⟩
    cases hsu : s.susp with
    | none => simp only [hsu] at hs; exact dtick_invDen h3 h hs
    | some o =>
      simp only [hsu] at hs
      cases o with
      | init => cases hs
      | node n =>
        simp only [] at hs
        cases hn : s.nodes n with
        | none => simp only [hn] at hs; cases hs; exact h.same rfl rfl
        | some nd =>
          simp only [hn] at hs
          have key : selDecision inp n nd ≠ .assertFail →
              InvDen inp (applySel inp s n nd (selDecision inp n nd)) := select_invDen hG h2 h haw hsu hn
          cases hd : selDecision inp n nd with
          | assertFail => simp only [hd] at hs; cases hs; exact h.same rfl rfl
          | go => simp only [hd] at hs; cases hs; have := key (by simp [hd]); rw [hd] at this; exact this.same rfl rfl
          | skipIgn => simp only [hd] at hs; cases hs; have := key (by simp [hd]); rw [hd] at this; exact this.same rfl rfl
          | unmet => simp only [hd] at hs; cases hs; have := key (by simp [hd]); rw [hd] at this; exact this.same rfl rfl
          | depErr => simp only [hd] at hs; cases hs; have := key (by simp [hd]); rw [hd] at this; exact this.same rfl rfl
          | utd => simp only [hd] at hs; cases hs; have := key (by simp [hd]); rw [hd] at this; exact this.same rfl rfl
          | runFirst => simp only [hd] at hs; cases hs; have := key (by simp [hd]); rw [hd] at this; exact this.same rfl rfl
          | argsErr => simp only [hd] at hs; cases hs; have := key (by simp [hd]); rw [hd] at this; exact this.same rfl rfl
      | holdOn => cases hs; exact h.same rfl rfl
      | stopIter => cases hs; exact h.same rfl rfl
      | cyclic n => cases hs; exact h.same rfl rfl
      | crash => cases hs; exact h.same rfl rfl
  | gRet job ret =>
    simp only [hr] at hs; cases hs
    exact h.same (gReturn_frame s job ret).1 (gReturn_frame s job ret).2
  | pTop =>
    simp only [hr] at hs
    split at hs
    · cases hs; exact h.same rfl rfl
    · cases hq : s.resQ with
      | nil => simp only [hq] at hs; cases hs
      | cons n rest =>
        simp only [hq] at hs
        cases hn : s.nodes n with
        | none => simp only [hn] at hs; cases hs; exact h.same rfl rfl
        | some nd =>
          simp only [hn] at hs; cases hs
          have hnq : n ∈ s.resQ := by rw [hq]; simp
          obtain ⟨q1a, q1b⟩ := h3.q1 n hnq
          have hrun : nd.status = .run := by simpa [stOf, hn] using q1b
          have hgo : ∃ deps, Ev.go n deps ∈ s.events := by
            apply go_of_cGo
            have := h3.j n; have := (h3.p0 n).2; omega
          have h1 : InvDen inp { s with rpc := .pTop, resQ := rest } := h.same rfl rfl
          exact (result_invDen (s := { s with rpc := .pTop, resQ := rest }) h1 (h2.inv1.congr rfl rfl rfl rfl rfl) hn
            hrun hgo (by have := (h3.p0 n).2; show cStart s n ≥ 1; omega)).same rfl rfl
  | pJoin =>
    simp only [hr] at hs
    split at hs
    · cases hs; exact h.same rfl rfl
    · cases hs
  | fin => simp only [hr] at hs; cases hs; exact finishRun_invDen h
  | sTop a => simp only [hr] at hs; cases hs
  | sWait => simp only [hr] at hs; cases hs
  | sExec a => simp only [hr] at hs; cases hs
  | halted => simp only [hr] at hs; cases hs

theorem takeStep_invDen {inp : RunInput} {s s' : Sys} {w : Nat} (h : InvDen inp s)
    (hs : takeStep inp s w = some s') : InvDen inp s' := by
  unfold takeStep at hs
  split at hs
  · cases hq : s.jobQ with
    | nil => simp only [hq] at hs; cases hs
    | cons j js =>
      simp only [hq] at hs
      cases j with
      | hold => cases hs; exact h.same rfl rfl
      | stop => cases hs; exact h.same rfl rfl
      | task n => cases hs; exact h.outer rfl _ (startTask_events inp s n w) (start_plainD inp n w)
  · cases hs

theorem doneStep_invDen {inp : RunInput} {s s' : Sys} {w : Nat} (h : InvDen inp s)
    (hs : doneStep s w = some s') : InvDen inp s' := by
  unfold doneStep at hs
  cases hw : s.workers w with
  | running n => simp only [hw] at hs; cases hs; exact h.outer rfl [Ev.fin n w] rfl (fin_plainD n w)
  | notStarted => simp only [hw] at hs; cases hs
  | idle => simp only [hw] at hs; cases hs
  | exited => simp only [hw] at hs; cases hs

theorem preach_invDen {inp : RunInput} {s : Sys} (h : PReach inp s) : InvDen inp s := by
  induction h with
  | init => exact init_invDen inp
  | @next s0 s1 c hr hs ih =>
    have h23 := preach_inv hr
    cases c with
    | main perm => exact mainStep_invDen (preach_invG hr) h23.1 h23.2 ih hs
    | take w => exact takeStep_invDen ih hs
    | done w => exact doneStep_invDen ih hs

end DoitModel.Run.Dyn
