import DoitModel.Model.Run
/-! # Invariants of the dispatcher part of M1 (helper lemmas for C01, C02, …)

Organisation (as in the M1-lite spike): node-local obligations (`NodeOK`), generic lemmas for the ways a state
changes (`setNode` with the same status, creation of a node, a status change by the runner, registration in
`waiting_me`), and relational specifications of the two loops over lists (`absorbDone`, `updateWaiting`). -/
namespace DoitModel.Run

/-! ### basic facts -/

@[simp] theorem setNode_nodes (s : Sys) (n : Name) (nd : Node) (k : Name) :
    (setNode s n nd).nodes k = if k = n then some nd else s.nodes k := rfl
@[simp] theorem setNode_events (s : Sys) (n : Name) (nd : Node) : (setNode s n nd).events = s.events := rfl
@[simp] theorem setNode_waiting (s : Sys) (n : Name) (nd : Node) : (setNode s n nd).waiting = s.waiting := rfl
@[simp] theorem setNode_ready (s : Sys) (n : Name) (nd : Node) : (setNode s n nd).ready = s.ready := rfl
@[simp] theorem setNode_cur (s : Sys) (n : Name) (nd : Node) : (setNode s n nd).cur = s.cur := rfl
@[simp] theorem setNode_susp (s : Sys) (n : Name) (nd : Node) : (setNode s n nd).susp = s.susp := rfl
@[simp] theorem setNode_rpc (s : Sys) (n : Name) (nd : Node) : (setNode s n nd).rpc = s.rpc := rfl
@[simp] theorem setNode_jobQ (s : Sys) (n : Name) (nd : Node) : (setNode s n nd).jobQ = s.jobQ := rfl
@[simp] theorem setNode_resQ (s : Sys) (n : Name) (nd : Node) : (setNode s n nd).resQ = s.resQ := rfl
@[simp] theorem setNode_workers (s : Sys) (n : Name) (nd : Node) : (setNode s n nd).workers = s.workers := rfl
@[simp] theorem setNode_toRun (s : Sys) (n : Name) (nd : Node) : (setNode s n nd).toRun = s.toRun := rfl

theorem RS.good_finished {r : RS} (h : r.good = true) : r.finished = true := by
  cases r <;> simp_all [RS.good, RS.finished]

theorem RS.good_of_fin {r : RS} (hf : r.finished = true) (h1 : r ≠ .fail) (h2 : r ≠ .ign) : r.good = true := by
  cases r <;> simp_all [RS.good, RS.finished]

theorem stOf_setNode (s : Sys) (n : Name) (nd : Node) (d : Name) :
    stOf (setNode s n nd) d = if d = n then nd.status else stOf s d := by
  simp only [stOf, setNode_nodes]; by_cases h : d = n <;> simp [h]

theorem mem_dedup {a : Name} {l : List Name} : a ∈ dedup l ↔ a ∈ l := by
  induction l with
  | nil => simp [dedup]
  | cons b t ih =>
    simp only [dedup]
    split
    · rename_i h; simp only [List.mem_cons]; constructor
      · intro h'; exact Or.inr (ih.mp h')
      · rintro (rfl | h')
        · exact h
        · exact ih.mpr h'
    · simp only [List.mem_cons, ih]

/-- statuses that are final in `s` are the same in `s'` (I1, as a relation between two states) -/
def Stable (s s' : Sys) : Prop := ∀ x, (stOf s x).finished = true → stOf s' x = stOf s x

theorem Stable.refl (s : Sys) : Stable s s := fun _ _ => rfl
theorem Stable.trans {a b c : Sys} (h1 : Stable a b) (h2 : Stable b c) : Stable a c := by
  intro x hx
  have e1 := h1 x hx
  have := h2 x (by rw [e1]; exact hx)
  rw [this, e1]

theorem Stable.of_eq {s s' : Sys} (h : ∀ x, stOf s' x = stOf s x) : Stable s s' := fun x _ => h x

/-- dependency `d` of a node is finished and, if it failed / is ignored, registered in the node -/
def Cls (s : Sys) (nd : Node) (d : Name) : Prop :=
  (stOf s d).finished = true ∧ (stOf s d = .fail → d ∈ nd.bad) ∧ (stOf s d = .ign → d ∈ nd.ign)

theorem Cls.mono {s s' : Sys} {a b : Node} {d : Name} (hs : Stable s s')
    (hb : ∀ x, x ∈ a.bad → x ∈ b.bad) (hi : ∀ x, x ∈ a.ign → x ∈ b.ign) (h : Cls s a d) : Cls s' b d := by
  obtain ⟨h1, h2, h3⟩ := h
  have e := hs d h1
  exact ⟨by rw [e]; exact h1, fun x => hb _ (h2 (e ▸ x)), fun x => hi _ (h3 (e ▸ x))⟩

/-! ### program-counter classes -/

def PC.inLoop : PC → Bool
  | .loopTop | .calcIter _ | .taskIter _ | .afterDeps => true
  | _ => false
/-- `task_dep_list` taken, not yet passed to `_node_add_wait_run` -/
def PC.iterT : PC → Bool
  | .calcIter _ | .taskIter _ => true
  | _ => false
def PC.iterC : PC → Bool
  | .calcIter _ => true
  | _ => false
/-- positions where `wait_run` is empty -/
def PC.quiet : PC → Bool
  | .self1 | .afterSelf1 | .setupDecide | .setupIter _ | .afterSelf2 | .done => true
  | _ => false
/-- setup-tasks passed to `_node_add_wait_run` -/
def PC.setupAbsorbed : PC → Bool
  | .afterSetup | .self2 | .afterSelf2 => true
  | _ => false
/-- past the first `yield this_task` -/
def PC.yielded1 : PC → Bool
  | .afterSelf1 | .setupDecide | .setupIter _ | .afterSetup | .self2 | .afterSelf2 | .done => true
  | _ => false

/-! ### node-local obligations -/

structure NodeOK (inp : RunInput) (s : Sys) (n : Name) (nd : Node) : Prop where
  kt : ∀ d ∈ nd.dynTask, d ∈ nd.pendTask ∨ (nd.pc.iterT = true ∧ d ∈ nd.snapTask) ∨ d ∈ nd.waitRun ∨ Cls s nd d
  kc : ∀ d ∈ nd.dynCalc, d ∈ nd.pendCalc ∨ (nd.pc.iterC = true ∧ d ∈ nd.snapCalc) ∨ d ∈ nd.waitRunCalc ∨ Cls s nd d
  ks : nd.pc.setupAbsorbed = true → ∀ d ∈ inp.setup n, d ∈ nd.waitRun ∨ Cls s nd d
  m1 : nd.pc.inLoop = false → nd.pendTask = [] ∧ nd.pendCalc = [] ∧ nd.waitRunCalc = []
  m2 : nd.pc.quiet = true → nd.waitRun = []
  l : nd.status ≠ .none → nd.pc.yielded1 = true
  ws : nd.waitSelect = true → nd.pc = .setupDecide
  st : (∀ d ∈ inp.taskDep n, d ∈ nd.dynTask) ∧ (∀ d ∈ inp.calcDep n, d ∈ nd.dynCalc)

/-- `b` is `a` after deliveries / `parent_status` calls: same control state, lists only grow, new dynamic deps are
    pending -/
structure Grow (a b : Node) : Prop where
  pc : b.pc = a.pc
  status : b.status = a.status
  snapTask : b.snapTask = a.snapTask
  snapCalc : b.snapCalc = a.snapCalc
  waitRun : b.waitRun = a.waitRun
  waitRunCalc : b.waitRunCalc = a.waitRunCalc
  waitingMe : b.waitingMe = a.waitingMe
  waitSelect : b.waitSelect = a.waitSelect
  anc : b.anc = a.anc
  bad : ∀ x, x ∈ a.bad → x ∈ b.bad
  ign : ∀ x, x ∈ a.ign → x ∈ b.ign
  pendTask : ∀ x, x ∈ a.pendTask → x ∈ b.pendTask
  pendCalc : ∀ x, x ∈ a.pendCalc → x ∈ b.pendCalc
  dynTask : ∀ x, x ∈ a.dynTask → x ∈ b.dynTask
  dynCalc : ∀ x, x ∈ a.dynCalc → x ∈ b.dynCalc
  newTask : ∀ x, x ∈ b.dynTask → x ∈ a.dynTask ∨ x ∈ b.pendTask
  newCalc : ∀ x, x ∈ b.dynCalc → x ∈ a.dynCalc ∨ x ∈ b.pendCalc

theorem Grow.refl (a : Node) : Grow a a :=
  ⟨rfl, rfl, rfl, rfl, rfl, rfl, rfl, rfl, rfl, fun _ h => h, fun _ h => h, fun _ h => h, fun _ h => h,
   fun _ h => h, fun _ h => h, fun _ h => Or.inl h, fun _ h => Or.inl h⟩

theorem Grow.trans {a b c : Node} (h1 : Grow a b) (h2 : Grow b c) : Grow a c where
  pc := h2.pc.trans h1.pc
  status := h2.status.trans h1.status
  snapTask := h2.snapTask.trans h1.snapTask
  snapCalc := h2.snapCalc.trans h1.snapCalc
  waitRun := h2.waitRun.trans h1.waitRun
  waitRunCalc := h2.waitRunCalc.trans h1.waitRunCalc
  waitingMe := h2.waitingMe.trans h1.waitingMe
  waitSelect := h2.waitSelect.trans h1.waitSelect
  anc := h2.anc.trans h1.anc
  bad := fun x h => h2.bad x (h1.bad x h)
  ign := fun x h => h2.ign x (h1.ign x h)
  pendTask := fun x h => h2.pendTask x (h1.pendTask x h)
  pendCalc := fun x h => h2.pendCalc x (h1.pendCalc x h)
  dynTask := fun x h => h2.dynTask x (h1.dynTask x h)
  dynCalc := fun x h => h2.dynCalc x (h1.dynCalc x h)
  newTask := fun x h => by
    rcases h2.newTask x h with h' | h'
    · rcases h1.newTask x h' with h'' | h''
      · exact Or.inl h''
      · exact Or.inr (h2.pendTask x h'')
    · exact Or.inr h'
  newCalc := fun x h => by
    rcases h2.newCalc x h with h' | h'
    · rcases h1.newCalc x h' with h'' | h''
      · exact Or.inl h''
      · exact Or.inr (h2.pendCalc x h'')
    · exact Or.inr h'

/-- the dynamic dependency lists did not change -/
def SameDeps (a b : Node) : Prop :=
  b.dynTask = a.dynTask ∧ b.dynCalc = a.dynCalc ∧ b.pendTask = a.pendTask ∧ b.pendCalc = a.pendCalc

theorem parentStatus_grow (pst : RS) (p : Name) (nd : Node) : Grow nd (parentStatus pst p nd) := by
  refine { Grow.refl nd with bad := ?_, ign := ?_ }
  · intro x hx; simp only [parentStatus]; split <;> simp [hx]
  · intro x hx; simp only [parentStatus]; split <;> simp [hx]

theorem parentStatus_same (pst : RS) (p : Name) (nd : Node) : SameDeps nd (parentStatus pst p nd) :=
  ⟨rfl, rfl, rfl, rfl⟩

theorem parentStatus_cls (pst : RS) (p : Name) (nd : Node) :
    (pst = .fail → p ∈ (parentStatus pst p nd).bad) ∧ (pst = .ign → p ∈ (parentStatus pst p nd).ign) := by
  constructor <;> (intro e; simp [parentStatus, e])

theorem addDeps_grow (nd : Node) (r : CalcRes) : Grow nd (nd.addDeps r) := by
  refine { Grow.refl nd with pendTask := ?_, pendCalc := ?_, dynTask := ?_, dynCalc := ?_, newTask := ?_, newCalc := ?_ }
  all_goals (intro x hx; simp only [Node.addDeps, List.mem_append, List.mem_filter] at hx ⊢)
  · exact Or.inl hx
  · exact Or.inl hx
  · exact Or.inl hx
  · exact Or.inl hx
  · rcases hx with h | h
    · exact Or.inl h
    · exact Or.inr (Or.inr h)
  · rcases hx with h | h
    · exact Or.inl h
    · by_cases hp : x ∈ nd.pendCalc
      · exact Or.inr (Or.inl hp)
      · exact Or.inr (Or.inr ⟨h, by simpa using hp⟩)

theorem deliver_grow (inp : RunInput) (pst : RS) (p : Name) (nd : Node) : Grow nd (deliver inp pst p nd) := by
  unfold deliver; split
  · exact addDeps_grow _ _
  · exact Grow.refl _


theorem deliverF_grow (inp : RunInput) (ex : Bool) (pst : RS) (p : Name) (nd : Node) :
    Grow nd (deliverF inp ex pst p nd) := by
  unfold deliverF; split
  · exact addDeps_grow _ _
  · exact Grow.refl _

theorem SameDeps.refl (a : Node) : SameDeps a a := ⟨rfl, rfl, rfl, rfl⟩
theorem SameDeps.trans {a b c : Node} (h1 : SameDeps a b) (h2 : SameDeps b c) : SameDeps a c :=
  ⟨h2.1.trans h1.1, h2.2.1.trans h1.2.1, h2.2.2.1.trans h1.2.2.1, h2.2.2.2.trans h1.2.2.2⟩

/-! ### `_node_add_wait_run` -/

theorem absorbDone_spec (inp : RunInput) (s : Sys) (isCalc : Bool) : ∀ (ds : List Name) (nd : Node),
    Grow nd (absorbDone inp s isCalc ds nd) ∧
    (isCalc = false → SameDeps nd (absorbDone inp s isCalc ds nd)) ∧
    (∀ d ∈ ds, unfinished s d = false →
      (stOf s d = .fail → d ∈ (absorbDone inp s isCalc ds nd).bad) ∧
      (stOf s d = .ign → d ∈ (absorbDone inp s isCalc ds nd).ign)) := by
  intro ds
  induction ds with
  | nil => intro nd; exact ⟨Grow.refl _, fun _ => SameDeps.refl _, by simp⟩
  | cons a t ih =>
    intro nd
    simp only [absorbDone]
    by_cases hu : unfinished s a = true
    · simp only [hu, if_true]
      obtain ⟨g, sd, cl⟩ := ih nd
      refine ⟨g, sd, ?_⟩
      intro d hd hfin
      rcases List.mem_cons.mp hd with rfl | hd'
      · rw [hu] at hfin; cases hfin
      · exact cl d hd' hfin
    · have hu' : unfinished s a = false := by simpa using hu
      simp only [hu', Bool.false_eq_true, if_false]
      cases isCalc with
      | false =>
        simp only [Bool.false_eq_true, if_false]
        obtain ⟨g, sd, cl⟩ := ih (parentStatus (stOf s a) a nd)
        refine ⟨(parentStatus_grow _ _ _).trans g, fun _ => (parentStatus_same _ _ _).trans (sd rfl), ?_⟩
        intro d hd hfin
        rcases List.mem_cons.mp hd with rfl | hd'
        · have := parentStatus_cls (stOf s d) d nd
          exact ⟨fun e => g.bad _ (this.1 e), fun e => g.ign _ (this.2 e)⟩
        · exact cl d hd' hfin
      | true =>
        simp only [if_true]
        obtain ⟨g, _, cl⟩ := ih (deliverF inp (started s a) (stOf s a) a
          (deliver inp (stOf s a) a (parentStatus (stOf s a) a nd)))
        have g0 := ((parentStatus_grow (stOf s a) a nd).trans (deliver_grow inp (stOf s a) a _)).trans
          (deliverF_grow inp (started s a) (stOf s a) a _)
        refine ⟨g0.trans g, (fun e => by cases e), ?_⟩
        intro d hd hfin
        rcases List.mem_cons.mp hd with rfl | hd'
        · have := parentStatus_cls (stOf s d) d nd
          have g1 := (deliver_grow inp (stOf s d) d (parentStatus (stOf s d) d nd)).trans
            (deliverF_grow inp (started s d) (stOf s d) d _)
          exact ⟨fun e => g.bad _ (g1.bad _ (this.1 e)), fun e => g.ign _ (g1.ign _ (this.2 e))⟩
        · exact cl d hd' hfin

theorem unfinished_false {s : Sys} {d : Name} (h : unfinished s d = false) : (stOf s d).finished = true := by
  simpa [unfinished] using h

/-- the node that `_node_add_wait_run(n, ds, isCalc)` leaves behind (before `waiting_me` registration) -/
def waitNode (inp : RunInput) (s : Sys) (nd : Node) (ds : List Name) (isCalc : Bool) (pc' : PC) : Node :=
  { addWaits (absorbDone inp s isCalc ds nd) isCalc (ds.filter (unfinished s)) with pc := pc' }

structure WaitFacts (s : Sys) (nd x : Node) (ds : List Name) (isCalc : Bool) (pc' : PC) : Prop where
  pc : x.pc = pc'
  status : x.status = nd.status
  waitSelect : x.waitSelect = nd.waitSelect
  snapTask : x.snapTask = nd.snapTask
  snapCalc : x.snapCalc = nd.snapCalc
  cls : ∀ d, Cls s nd d → Cls s x d
  pendTask : ∀ d, d ∈ nd.pendTask → d ∈ x.pendTask
  pendCalc : ∀ d, d ∈ nd.pendCalc → d ∈ x.pendCalc
  dynTask : ∀ d, d ∈ nd.dynTask → d ∈ x.dynTask
  dynCalc : ∀ d, d ∈ nd.dynCalc → d ∈ x.dynCalc
  newTask : ∀ d, d ∈ x.dynTask → d ∈ nd.dynTask ∨ d ∈ x.pendTask
  newCalc : ∀ d, d ∈ x.dynCalc → d ∈ nd.dynCalc ∨ d ∈ x.pendCalc
  wr : ∀ d, d ∈ nd.waitRun → d ∈ x.waitRun
  wc : ∀ d, d ∈ nd.waitRunCalc → d ∈ x.waitRunCalc
  same : isCalc = false → SameDeps nd x ∧ x.waitRunCalc = nd.waitRunCalc
  keepWr : isCalc = true → x.waitRun = nd.waitRun
  absorbed : ∀ d ∈ ds, (if isCalc then d ∈ x.waitRunCalc else d ∈ x.waitRun) ∨ Cls s x d

theorem waitNode_facts (inp : RunInput) (s : Sys) (nd : Node) (ds : List Name) (isCalc : Bool) (pc' : PC) :
    WaitFacts s nd (waitNode inp s nd ds isCalc pc') ds isCalc pc' := by
  obtain ⟨g, sd, cl⟩ := absorbDone_spec inp s isCalc ds nd
  cases isCalc with
  | false =>
    have sd := sd rfl
    refine ⟨rfl, g.status, g.waitSelect, g.snapTask, g.snapCalc, ?_, g.pendTask, g.pendCalc, g.dynTask, g.dynCalc,
      g.newTask, g.newCalc, ?_, ?_, fun _ => ⟨sd, g.waitRunCalc⟩, (fun e => by cases e), ?_⟩
    · intro d h; exact Cls.mono (Stable.refl s) g.bad g.ign h
    · intro d h; simp [waitNode, addWaits, g.waitRun, h]
    · intro d h; simp [waitNode, addWaits, g.waitRunCalc, h]
    · intro d hd
      by_cases hu : unfinished s d = true
      · left; simp [waitNode, addWaits, List.mem_filter, hd, hu]
      · right
        have hu' : unfinished s d = false := by simpa using hu
        exact ⟨unfinished_false hu', (cl d hd hu').1, (cl d hd hu').2⟩
  | true =>
    refine ⟨rfl, g.status, g.waitSelect, g.snapTask, g.snapCalc, ?_, g.pendTask, g.pendCalc, g.dynTask, g.dynCalc,
      g.newTask, g.newCalc, ?_, ?_, (fun e => by cases e), fun _ => g.waitRun, ?_⟩
    · intro d h; exact Cls.mono (Stable.refl s) g.bad g.ign h
    · intro d h; simp [waitNode, addWaits, g.waitRun, h]
    · intro d h; simp [waitNode, addWaits, g.waitRunCalc, h]
    · intro d hd
      by_cases hu : unfinished s d = true
      · left; simp [waitNode, addWaits, List.mem_filter, hd, hu]
      · right
        have hu' : unfinished s d = false := by simpa using hu
        exact ⟨unfinished_false hu', (cl d hd hu').1, (cl d hd hu').2⟩


/-! ### `_update_waiting`: what happens to one waiting node -/

structure Upd (pst : RS) (p : Name) (a b : Node) : Prop where
  pc : b.pc = a.pc
  status : b.status = a.status
  snapTask : b.snapTask = a.snapTask
  snapCalc : b.snapCalc = a.snapCalc
  waitSelect : b.waitSelect = a.waitSelect
  bad : ∀ x, x ∈ a.bad → x ∈ b.bad
  ign : ∀ x, x ∈ a.ign → x ∈ b.ign
  pendTask : ∀ x, x ∈ a.pendTask → x ∈ b.pendTask
  pendCalc : ∀ x, x ∈ a.pendCalc → x ∈ b.pendCalc
  dynTask : ∀ x, x ∈ a.dynTask → x ∈ b.dynTask
  dynCalc : ∀ x, x ∈ a.dynCalc → x ∈ b.dynCalc
  newTask : ∀ x, x ∈ b.dynTask → x ∈ a.dynTask ∨ x ∈ b.pendTask
  newCalc : ∀ x, x ∈ b.dynCalc → x ∈ a.dynCalc ∨ x ∈ b.pendCalc
  wr : ∀ d, d ∈ a.waitRun → d ∈ b.waitRun ∨ (d = p ∧ (pst = .fail → p ∈ b.bad) ∧ (pst = .ign → p ∈ b.ign))
  wr' : ∀ d, d ∈ b.waitRun → d ∈ a.waitRun
  wc : ∀ d, d ∈ a.waitRunCalc → d ∈ b.waitRunCalc ∨ (d = p ∧ (pst = .fail → p ∈ b.bad) ∧ (pst = .ign → p ∈ b.ign))
  wc' : ∀ d, d ∈ b.waitRunCalc → d ∈ a.waitRunCalc
  same : p ∉ a.waitRunCalc → SameDeps a b

theorem wokenNode_upd (inp : RunInput) (pst : RS) (p : Name) (w : Node) : Upd pst p w (wokenNode inp pst p w) := by
  have hc := parentStatus_cls pst p w
  have hg := parentStatus_grow pst p w
  unfold wokenNode
  split
  · rename_i hin
    have g := deliver_grow inp pst p { parentStatus pst p w with
      waitRun := w.waitRun.filter (· ≠ p), waitRunCalc := w.waitRunCalc.filter (· ≠ p) }
    refine ⟨g.pc, g.status, g.snapTask, g.snapCalc, g.waitSelect, fun x h => g.bad x (hg.bad x h),
      fun x h => g.ign x (hg.ign x h), g.pendTask, g.pendCalc, g.dynTask, g.dynCalc, g.newTask, g.newCalc,
      ?_, ?_, ?_, ?_, fun h => absurd hin h⟩
    · intro d hd
      by_cases e : d = p
      · right; exact ⟨e, fun x => g.bad _ (hc.1 x), fun x => g.ign _ (hc.2 x)⟩
      · left; rw [g.waitRun]; simp [List.mem_filter, hd, e]
    · intro d hd; rw [g.waitRun] at hd; simp only [List.mem_filter] at hd; exact hd.1
    · intro d hd
      by_cases e : d = p
      · right; exact ⟨e, fun x => g.bad _ (hc.1 x), fun x => g.ign _ (hc.2 x)⟩
      · left; rw [g.waitRunCalc]; simp [List.mem_filter, hd, e]
    · intro d hd; rw [g.waitRunCalc] at hd; simp only [List.mem_filter] at hd; exact hd.1
  · rename_i hin
    refine ⟨rfl, rfl, rfl, rfl, rfl, hg.bad, hg.ign, fun _ h => h, fun _ h => h, fun _ h => h, fun _ h => h,
      fun _ h => Or.inl h, fun _ h => Or.inl h, ?_, ?_, fun d hd => Or.inl hd, fun d hd => hd,
      fun _ => ⟨rfl, rfl, rfl, rfl⟩⟩
    · intro d hd
      by_cases e : d = p
      · right; exact ⟨e, hc.1, hc.2⟩
      · left; simp [List.mem_filter, hd, e]
    · intro d hd; simp only [List.mem_filter] at hd; exact hd.1

theorem Upd.grow {pst : RS} {p : Name} {a b c : Node} (hu : Upd pst p a b) (g : Grow b c)
    (hs : p ∉ a.waitRunCalc → c = b) : Upd pst p a c where
  pc := g.pc.trans hu.pc
  status := g.status.trans hu.status
  snapTask := g.snapTask.trans hu.snapTask
  snapCalc := g.snapCalc.trans hu.snapCalc
  waitSelect := g.waitSelect.trans hu.waitSelect
  bad := fun x h => g.bad x (hu.bad x h)
  ign := fun x h => g.ign x (hu.ign x h)
  pendTask := fun x h => g.pendTask x (hu.pendTask x h)
  pendCalc := fun x h => g.pendCalc x (hu.pendCalc x h)
  dynTask := fun x h => g.dynTask x (hu.dynTask x h)
  dynCalc := fun x h => g.dynCalc x (hu.dynCalc x h)
  newTask := fun x h => by
    rcases g.newTask x h with h' | h'
    · rcases hu.newTask x h' with h'' | h''
      · exact Or.inl h''
      · exact Or.inr (g.pendTask x h'')
    · exact Or.inr h'
  newCalc := fun x h => by
    rcases g.newCalc x h with h' | h'
    · rcases hu.newCalc x h' with h'' | h''
      · exact Or.inl h''
      · exact Or.inr (g.pendCalc x h'')
    · exact Or.inr h'
  wr := fun d hd => by
    rcases hu.wr d hd with h | ⟨e, h1, h2⟩
    · exact Or.inl (g.waitRun ▸ h)
    · exact Or.inr ⟨e, fun x => g.bad _ (h1 x), fun x => g.ign _ (h2 x)⟩
  wr' := fun d hd => hu.wr' d (g.waitRun ▸ hd)
  wc := fun d hd => by
    rcases hu.wc d hd with h | ⟨e, h1, h2⟩
    · exact Or.inl (g.waitRunCalc ▸ h)
    · exact Or.inr ⟨e, fun x => g.bad _ (h1 x), fun x => g.ign _ (h2 x)⟩
  wc' := fun d hd => hu.wc' d (g.waitRunCalc ▸ hd)
  same := fun h => by rw [hs h]; exact hu.same h

theorem wokenF_same {inp : RunInput} {s : Sys} {pst : RS} {p : Name} {w : Node} (h : p ∉ w.waitRunCalc) :
    wokenF inp s pst p w = wokenNode inp pst p w := by
  unfold wokenF; rw [if_neg h]

theorem wokenF_grow (inp : RunInput) (s : Sys) (pst : RS) (p : Name) (w : Node) :
    Grow (wokenNode inp pst p w) (wokenF inp s pst p w) := by
  unfold wokenF; split
  · exact deliverF_grow _ _ _ _ _
  · exact Grow.refl _

/-- what `_update_waiting` does to one waiting node, the delivery of a failed calc task's values included -/
theorem wokenF_upd (inp : RunInput) (s : Sys) (pst : RS) (p : Name) (w : Node) :
    Upd pst p w (wokenF inp s pst p w) :=
  (wokenNode_upd inp pst p w).grow (wokenF_grow inp s pst p w) (fun h => wokenF_same h)

/-! ### inputs without the delivery of a failed calc task's values

`NoFailDeliver inp`: no calc task that fails during its execution has returned dependency values before the failing
action (`calcResFail` is empty everywhere).  On such inputs `deliverF` is the identity, so `_node_add_wait_run` /
`_update_waiting` deliver from executed / up-to-date calc tasks only.  Property developments whose *statements* speak
about "what executed / up-to-date calc_deps delivered" (denotations, trace monitors) carry this as an explicit scope
hypothesis (a type-class argument, so that it threads through their lemma chains); C01, C02, C09's dependency
invariant and C12 do not need it. -/

class NoFailDeliver (inp : RunInput) : Prop where
  nil : ∀ p, inp.calcResFail p = {}

theorem addDeps_empty (nd : Node) : nd.addDeps {} = nd := by
  cases nd
  simp [Node.addDeps, newTaskDeps, newCalcDeps, implicitNew, dedup]

theorem deliverF_id {inp : RunInput} [h : NoFailDeliver inp] (ex : Bool) (pst : RS) (p : Name) (nd : Node) :
    deliverF inp ex pst p nd = nd := by
  unfold deliverF; split
  · rw [h.nil p]; exact addDeps_empty nd
  · rfl

theorem wokenF_eq {inp : RunInput} [NoFailDeliver inp] (s : Sys) (pst : RS) (p : Name) (w : Node) :
    wokenF inp s pst p w = wokenNode inp pst p w := by
  unfold wokenF; split
  · exact deliverF_id _ _ _ _
  · rfl

/-- `wakeOne` as it reads without `deliverF` -/
theorem wakeOne_eq {inp : RunInput} [NoFailDeliver inp] (s : Sys) (pst : RS) (p w : Name) (nd : Node) :
    wakeOne inp s pst p w nd =
      if wokenReady p nd ∧ w ∈ s.waiting then
        { setNode s w (wokenNode inp pst p nd) with ready := s.ready ++ [w], waiting := s.waiting.filter (· ≠ w) }
      else setNode s w (wokenNode inp pst p nd) := by
  unfold wakeOne; rw [wokenF_eq]

/-- `absorbDone` as it reads without `deliverF` -/
theorem absorbDone_cons_eq {inp : RunInput} [NoFailDeliver inp] (s : Sys) (isCalc : Bool) (d : Name) (ds : List Name)
    (nd : Node) :
    absorbDone inp s isCalc (d :: ds) nd =
      if unfinished s d then absorbDone inp s isCalc ds nd
      else absorbDone inp s isCalc ds
        (if isCalc then deliver inp (stOf s d) d (parentStatus (stOf s d) d nd) else parentStatus (stOf s d) d nd) := by
  simp only [absorbDone, deliverF_id]

theorem NodeOK.upd {inp : RunInput} {s s' : Sys} {n : Name} {a b : Node} {pst : RS} {p : Name}
    (hok : NodeOK inp s n a) (hu : Upd pst p a b) (hst : Stable s s') (hp : stOf s' p = pst)
    (hf : pst.finished = true) : NodeOK inp s' n b := by
  have clsP : (pst = .fail → p ∈ b.bad) ∧ (pst = .ign → p ∈ b.ign) → Cls s' b p := by
    intro h; exact ⟨by rw [hp]; exact hf, fun e => h.1 (hp ▸ e), fun e => h.2 (hp ▸ e)⟩
  have mono : ∀ d, Cls s a d → Cls s' b d := fun d h => Cls.mono hst hu.bad hu.ign h
  constructor
  · intro d hd
    rcases hu.newTask d hd with h | h
    · rcases hok.kt d h with h1 | ⟨h1, h2⟩ | h1 | h1
      · exact Or.inl (hu.pendTask _ h1)
      · exact Or.inr (Or.inl ⟨hu.pc ▸ h1, hu.snapTask ▸ h2⟩)
      · rcases hu.wr d h1 with h2 | ⟨rfl, h2⟩
        · exact Or.inr (Or.inr (Or.inl h2))
        · exact Or.inr (Or.inr (Or.inr (clsP h2)))
      · exact Or.inr (Or.inr (Or.inr (mono d h1)))
    · exact Or.inl h
  · intro d hd
    rcases hu.newCalc d hd with h | h
    · rcases hok.kc d h with h1 | ⟨h1, h2⟩ | h1 | h1
      · exact Or.inl (hu.pendCalc _ h1)
      · exact Or.inr (Or.inl ⟨hu.pc ▸ h1, hu.snapCalc ▸ h2⟩)
      · rcases hu.wc d h1 with h2 | ⟨rfl, h2⟩
        · exact Or.inr (Or.inr (Or.inl h2))
        · exact Or.inr (Or.inr (Or.inr (clsP h2)))
      · exact Or.inr (Or.inr (Or.inr (mono d h1)))
    · exact Or.inl h
  · intro hpc d hd
    rcases hok.ks (hu.pc ▸ hpc) d hd with h1 | h1
    · rcases hu.wr d h1 with h2 | ⟨rfl, h2⟩
      · exact Or.inl h2
      · exact Or.inr (clsP h2)
    · exact Or.inr (mono d h1)
  · intro hpc
    obtain ⟨e1, e2, e3⟩ := hok.m1 (hu.pc ▸ hpc)
    have hs := hu.same (by rw [e3]; simp)
    refine ⟨hs.2.2.1.trans e1, hs.2.2.2.trans e2, ?_⟩
    cases hw : b.waitRunCalc with
    | nil => rfl
    | cons x t => have := hu.wc' x (by simp [hw]); rw [e3] at this; cases this
  · intro hpc
    have e := hok.m2 (hu.pc ▸ hpc)
    cases hw : b.waitRun with
    | nil => rfl
    | cons x t => have := hu.wr' x (by simp [hw]); rw [e] at this; cases this
  · intro hne; rw [hu.pc]; exact hok.l (hu.status ▸ hne)
  · intro hw; rw [hu.pc]; exact hok.ws (hu.waitSelect ▸ hw)
  · exact ⟨fun d hd => hu.dynTask _ (hok.st.1 d hd), fun d hd => hu.dynCalc _ (hok.st.2 d hd)⟩

/-- a node is unchanged, the state around it changed in a `Stable` way -/
theorem NodeOK.stable {inp : RunInput} {s s' : Sys} {n : Name} {a : Node}
    (hok : NodeOK inp s n a) (hst : Stable s s') : NodeOK inp s' n a := by
  have mono : ∀ d, Cls s a d → Cls s' a d := fun d h => Cls.mono hst (fun _ h => h) (fun _ h => h) h
  constructor
  · intro d hd
    rcases hok.kt d hd with h | h | h | h
    · exact Or.inl h
    · exact Or.inr (Or.inl h)
    · exact Or.inr (Or.inr (Or.inl h))
    · exact Or.inr (Or.inr (Or.inr (mono d h)))
  · intro d hd
    rcases hok.kc d hd with h | h | h | h
    · exact Or.inl h
    · exact Or.inr (Or.inl h)
    · exact Or.inr (Or.inr (Or.inl h))
    · exact Or.inr (Or.inr (Or.inr (mono d h)))
  · intro hpc d hd
    rcases hok.ks hpc d hd with h | h
    · exact Or.inl h
    · exact Or.inr (mono d h)
  · exact hok.m1
  · exact hok.m2
  · exact hok.l
  · exact hok.ws
  · exact hok.st

end DoitModel.Run
