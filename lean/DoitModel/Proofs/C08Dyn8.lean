import DoitModel.Proofs.C08Conf11
/-! # C08 (I10) with calc_dep: the step classifications of `Proofs/C08Conf9.lean` / `C08Conf11.lean` (`serialStep_back`,
    `mainStep_back`, `serialStep_kind`, `mainStep_kind`) without the hypothesis `NoFailDeliver`: `_update_waiting` with
    the delivery of a failed calc task's values (`wokenF`) still leaves position and status of the woken node alone -/
namespace DoitModel.Run.Dyn

theorem wakeOne_back {q : Prop} {inp : RunInput} {s : Sys} {pst : RS} {p w : Name} {nd : Node}
    (hw : s.nodes w = some nd) : BackG q s (wakeOne inp s pst p w nd) := by
  have base := back_setNode (p := q) (x := wokenF inp s pst p nd) hw (wokenF_upd inp s pst p nd).pc
    (fun _ => (wokenF_upd inp s pst p nd).status)
  unfold wakeOne; split
  · exact base.wrap rfl rfl
  · exact base

theorem updateWaiting_back (q : Prop) (inp : RunInput) (pst : RS) (p : Name) :
    ∀ (perm : List Name) (s s' : Sys), updateWaiting inp pst p s perm = some s' → BackG q s s' := by
  intro perm
  induction perm with
  | nil => intro s s' hs; simp only [updateWaiting] at hs; cases hs; exact BackG.refl _ _
  | cons w ws ih =>
    intro s s' hs
    simp only [updateWaiting] at hs
    cases hw : s.nodes w with
    | none => simp only [hw] at hs; exact ih s s' hs
    | some nd =>
      simp only [hw] at hs
      split at hs
      · cases hs
      · exact (wakeOne_back (inp := inp) hw).trans (ih _ s' hs)

theorem send_back {q : Prop} {inp : RunInput} {s s' : Sys} {processed : Option Name} {perm : List Name}
    (hs : send inp s processed perm = some s') : BackG q s s' := by
  unfold send at hs
  cases processed with
  | none => cases hs; exact BackG.of_eq rfl rfl
  | some p =>
    simp only [] at hs
    cases hn : s.nodes p with
    | none => simp only [hn] at hs; cases hs; exact BackG.of_eq rfl rfl
    | some nd =>
      simp only [hn] at hs
      split at hs
      · cases hs; exact BackG.of_eq rfl rfl
      · split at hs
        · cases hs; exact (sendHead_back hn).wrap rfl rfl
        · split at hs
          · cases hu : updateWaiting inp nd.status p (sendHead s p nd) perm with
            | none => simp only [hu] at hs; cases hs; exact (sendHead_back hn).wrap rfl rfl
            | some s2 =>
              simp only [hu] at hs; cases hs
              exact ((sendHead_back hn).trans (updateWaiting_back q inp _ p perm _ s2 hu)).wrap rfl rfl
          · cases hs

/-- a step of the serial runner is a dispatcher tick or leaves generators and `tasks_to_run` alone -/
theorem serialStep_back {inp : RunInput} {s s' : Sys} {perm : List Name} (hs : serialStep inp s perm = some s') :
    dtick inp s perm = some s' ∨ BackW s s' := by
  unfold serialStep at hs
  cases hr : s.rpc with
  | sTop node =>
    simp only [hr] at hs
    split at hs
    · cases hs; exact Or.inr (BackG.of_eq (p := False) rfl rfl)
    · cases hsd : send inp s node perm with
      | none => simp only [hsd] at hs; cases hs
      | some s0 => simp only [hsd] at hs; cases hs; exact Or.inr ((send_back hsd).wrap rfl rfl)
  | sWait =>
    simp only [hr] at hs
    cases hsu : s.susp with
    | none => simp only [hsu] at hs; exact Or.inl hs
    | some o =>
      simp only [hsu] at hs
      right
      cases o with
      | init => cases hs
      | node n =>
        simp only [] at hs
        cases hn : s.nodes n with
        | none => simp only [hn] at hs; cases hs; exact BackG.of_eq rfl rfl
        | some nd =>
          simp only [hn] at hs
          have key := applySel_back (inp := inp) (selDecision inp n nd) hn
          cases hd : selDecision inp n nd with
          | go => simp only [hd] at hs; cases hs; rw [hd] at key; exact key.wrap rfl rfl
          | assertFail => simp only [hd] at hs; cases hs; exact BackG.of_eq rfl rfl
          | skipIgn => simp only [hd] at hs; cases hs; rw [hd] at key; exact key.wrap rfl rfl
          | unmet => simp only [hd] at hs; cases hs; rw [hd] at key; exact key.wrap rfl rfl
          | depErr => simp only [hd] at hs; cases hs; rw [hd] at key; exact key.wrap rfl rfl
          | utd => simp only [hd] at hs; cases hs; rw [hd] at key; exact key.wrap rfl rfl
          | runFirst => simp only [hd] at hs; cases hs; rw [hd] at key; exact key.wrap rfl rfl
          | argsErr => simp only [hd] at hs; cases hs; rw [hd] at key; exact key.wrap rfl rfl
      | stopIter => cases hs; exact BackG.of_eq rfl rfl
      | holdOn => cases hs; exact BackG.of_eq rfl rfl
      | cyclic n => cases hs; exact BackG.of_eq rfl rfl
      | crash => cases hs; exact BackG.of_eq rfl rfl
  | sExec n =>
    simp only [hr] at hs
    right
    cases hn : s.nodes n with
    | none => simp only [hn] at hs; cases hs; exact BackG.of_eq rfl rfl
    | some nd =>
      simp only [hn] at hs; cases hs
      exact (processResult_back (inp := inp) (s := { s with rpc := .sExec n, events := Ev.fin n 0 :: s.events })
        hn).wrap rfl rfl
  | fin => simp only [hr] at hs; cases hs; exact Or.inr (BackG.of_eq (p := False) rfl rfl)
  | gEntry a b => simp only [hr] at hs; cases hs
  | gLoop a b => simp only [hr] at hs; cases hs
  | gWait a => simp only [hr] at hs; cases hs
  | gRet a b => simp only [hr] at hs; cases hs
  | pTop => simp only [hr] at hs; cases hs
  | pJoin => simp only [hr] at hs; cases hs
  | halted => simp only [hr] at hs; cases hs

theorem mainStep_back {inp : RunInput} {s s' : Sys} {perm : List Name} (hs : mainStep inp s perm = some s') :
    dtick inp s perm = some s' ∨ BackW s s' := by
  unfold mainStep at hs
  cases hr : s.rpc with
  | gEntry completed ret =>
    simp only [hr] at hs
    split at hs <;> (cases hs; exact Or.inr (BackG.of_eq (p := False) rfl rfl))
  | gLoop node ret =>
    simp only [hr] at hs
    cases hsd : send inp s node perm with
    | none => simp only [hsd] at hs; cases hs
    | some s0 => simp only [hsd] at hs; cases hs; exact Or.inr ((send_back hsd).wrap rfl rfl)
  | gWait ret =>
    simp only [hr] at hs
    cases hsu : s.susp with
    | none => simp only [hsu] at hs; exact Or.inl hs
    | some o =>
      simp only [hsu] at hs
      right
      cases o with
      | init => cases hs
      | node n =>
        simp only [] at hs
        cases hn : s.nodes n with
        | none => simp only [hn] at hs; cases hs; exact BackG.of_eq rfl rfl
        | some nd =>
          simp only [hn] at hs
          have key := applySel_back (inp := inp) (selDecision inp n nd) hn
          cases hd : selDecision inp n nd with
          | go => simp only [hd] at hs; cases hs; rw [hd] at key; exact key.wrap rfl rfl
          | assertFail => simp only [hd] at hs; cases hs; exact BackG.of_eq rfl rfl
          | skipIgn => simp only [hd] at hs; cases hs; rw [hd] at key; exact key.wrap rfl rfl
          | unmet => simp only [hd] at hs; cases hs; rw [hd] at key; exact key.wrap rfl rfl
          | depErr => simp only [hd] at hs; cases hs; rw [hd] at key; exact key.wrap rfl rfl
          | utd => simp only [hd] at hs; cases hs; rw [hd] at key; exact key.wrap rfl rfl
          | runFirst => simp only [hd] at hs; cases hs; rw [hd] at key; exact key.wrap rfl rfl
          | argsErr => simp only [hd] at hs; cases hs; rw [hd] at key; exact key.wrap rfl rfl
      | holdOn => cases hs; exact BackG.of_eq rfl rfl
      | stopIter => cases hs; exact BackG.of_eq rfl rfl
      | cyclic n => cases hs; exact BackG.of_eq rfl rfl
      | crash => cases hs; exact BackG.of_eq rfl rfl
  | gRet job ret =>
    simp only [hr] at hs; cases hs
    exact Or.inr (BackG.of_eq (gReturn_frame s job ret).1 (gReturn_toRun s job ret))
  | pTop =>
    simp only [hr] at hs
    right
    split at hs
    · cases hs; exact BackG.of_eq rfl rfl
    · cases hq : s.resQ with
      | nil => simp only [hq] at hs; cases hs
      | cons n rest =>
        simp only [hq] at hs
        cases hn : s.nodes n with
        | none => simp only [hn] at hs; cases hs; exact BackG.of_eq rfl rfl
        | some nd =>
          simp only [hn] at hs; cases hs
          exact (processResult_back (inp := inp) (s := { s with rpc := .pTop, resQ := rest }) hn).wrap rfl rfl
  | pJoin =>
    simp only [hr] at hs
    split at hs
    · cases hs; exact Or.inr (BackG.of_eq (p := False) rfl rfl)
    · cases hs
  | fin => simp only [hr] at hs; cases hs; exact Or.inr (BackG.of_eq (p := False) rfl rfl)
  | sTop a => simp only [hr] at hs; cases hs
  | sWait => simp only [hr] at hs; cases hs
  | sExec a => simp only [hr] at hs; cases hs
  | halted => simp only [hr] at hs; cases hs

theorem serialStep_kind {inp : RunInput} {s s' : Sys} {perm : List Name} (h2 : Inv2 inp s) (h3 : Inv3 inp s)
    (hs : serialStep inp s perm = some s') : StepKind inp s s' perm := by
  unfold serialStep at hs
  cases hr : s.rpc with
  | sTop node =>
    simp only [hr] at hs
    split at hs
    · cases hs; exact StepKind.same rfl rfl
    · cases hsd : send inp s node perm with
      | none => simp only [hsd] at hs; cases hs
      | some s0 =>
        simp only [hsd] at hs; cases hs
        exact Or.inr (Or.inr (Or.inr ⟨(send_back hsd).wrap rfl rfl,
          (keeps_of_pcKeep (send_pcs hsd)).trans (Keeps.of_eq rfl)⟩))
  | sWait =>
    simp only [hr] at hs
    have haw : awaiting s := Or.inl hr
    cases hsu : s.susp with
    | none => simp only [hsu] at hs; exact Or.inl ⟨hsu, hs⟩
    | some o =>
      simp only [hsu] at hs
      cases o with
      | init => cases hs
      | node n =>
        simp only [] at hs
        cases hn : s.nodes n with
        | none => simp only [hn] at hs; cases hs; exact StepKind.same rfl rfl
        | some nd =>
          simp only [hn] at hs
          by_cases hd : selDecision inp n nd = .assertFail
          · simp only [hd] at hs; cases hs; exact StepKind.same rfl rfl
          · refine Or.inr (Or.inl ⟨n, nd, haw, hsu, hn, hd, ?_⟩)
            rw [← applySel_nodes inp s n nd _ hd]
            cases hd' : selDecision inp n nd <;> simp only [hd'] at hs hd ⊢ <;>
              first | (cases hs; rfl) | exact absurd rfl hd
      | stopIter => cases hs; exact StepKind.same rfl rfl
      | holdOn => cases hs; exact StepKind.same rfl rfl
      | cyclic n => cases hs; exact StepKind.same rfl rfl
      | crash => cases hs; exact StepKind.same rfl rfl
  | sExec n =>
    simp only [hr] at hs
    cases hn : s.nodes n with
    | none => simp only [hn] at hs; cases hs; exact StepKind.same rfl rfl
    | some nd =>
      simp only [hn] at hs; cases hs
      have hrun : nd.status = .run := by have := h2.x n hr; simpa [stOf, hn] using this
      have hgo : cGo s n ≥ 1 := by have := h3.j n; have := (h3.x3 n hr).1; omega
      exact Or.inr (Or.inr (Or.inl ⟨n, nd, hn, hrun, hgo, processResult_nodes inp _ n nd⟩))
  | fin => simp only [hr] at hs; cases hs; exact StepKind.same rfl rfl
  | gEntry a b => simp only [hr] at hs; cases hs
  | gLoop a b => simp only [hr] at hs; cases hs
  | gWait a => simp only [hr] at hs; cases hs
  | gRet a b => simp only [hr] at hs; cases hs
  | pTop => simp only [hr] at hs; cases hs
  | pJoin => simp only [hr] at hs; cases hs
  | halted => simp only [hr] at hs; cases hs

theorem mainStep_kind {inp : RunInput} {s s' : Sys} {perm : List Name} (h3 : Inv3 inp s)
    (hs : mainStep inp s perm = some s') : StepKind inp s s' perm := by
  unfold mainStep at hs
  cases hr : s.rpc with
  | gEntry completed ret =>
    simp only [hr] at hs
    split at hs <;> (cases hs; exact StepKind.same rfl rfl)
  | gLoop node ret =>
    simp only [hr] at hs
    cases hsd : send inp s node perm with
    | none => simp only [hsd] at hs; cases hs
    | some s0 =>
      simp only [hsd] at hs; cases hs
      exact Or.inr (Or.inr (Or.inr ⟨(send_back hsd).wrap rfl rfl,
        (keeps_of_pcKeep (send_pcs hsd)).trans (Keeps.of_eq rfl)⟩))
  | gWait ret =>
    simp only [hr] at hs
    have haw : awaiting s := Or.inr ⟨ret, hr⟩
    cases hsu : s.susp with
    | none => simp only [hsu] at hs; exact Or.inl ⟨hsu, hs⟩
    | some o =>
      simp only [hsu] at hs
      cases o with
      | init => cases hs
      | node n =>
        simp only [] at hs
        cases hn : s.nodes n with
        | none => simp only [hn] at hs; cases hs; exact StepKind.same rfl rfl
        | some nd =>
          simp only [hn] at hs
          by_cases hd : selDecision inp n nd = .assertFail
          · simp only [hd] at hs; cases hs; exact StepKind.same rfl rfl
          · refine Or.inr (Or.inl ⟨n, nd, haw, hsu, hn, hd, ?_⟩)
            rw [← applySel_nodes inp s n nd _ hd]
            cases hd' : selDecision inp n nd <;> simp only [hd'] at hs hd ⊢ <;>
              first | (cases hs; rfl) | exact absurd rfl hd
      | holdOn => cases hs; exact StepKind.same rfl rfl
      | stopIter => cases hs; exact StepKind.same rfl rfl
      | cyclic n => cases hs; exact StepKind.same rfl rfl
      | crash => cases hs; exact StepKind.same rfl rfl
  | gRet job ret =>
    simp only [hr] at hs; cases hs
    exact StepKind.same (gReturn_frame s job ret).1 (gReturn_toRun s job ret)
  | pTop =>
    simp only [hr] at hs
    split at hs
    · cases hs; exact StepKind.same rfl rfl
    · cases hq : s.resQ with
      | nil => simp only [hq] at hs; cases hs
      | cons n rest =>
        simp only [hq] at hs
        cases hn : s.nodes n with
        | none => simp only [hn] at hs; cases hs; exact StepKind.same rfl rfl
        | some nd =>
          simp only [hn] at hs; cases hs
          have hnq : n ∈ s.resQ := by rw [hq]; simp
          obtain ⟨q1a, q1b⟩ := h3.q1 n hnq
          have hrun : nd.status = .run := by simpa [stOf, hn] using q1b
          have hgo : cGo s n ≥ 1 := by have := h3.j n; have := (h3.p0 n).2; omega
          exact Or.inr (Or.inr (Or.inl ⟨n, nd, hn, hrun, hgo, processResult_nodes inp _ n nd⟩))
  | pJoin =>
    simp only [hr] at hs
    split at hs
    · cases hs; exact StepKind.same rfl rfl
    · cases hs
  | fin => simp only [hr] at hs; cases hs; exact StepKind.same rfl rfl
  | sTop a => simp only [hr] at hs; cases hs
  | sWait => simp only [hr] at hs; cases hs
  | sExec a => simp only [hr] at hs; cases hs
  | halted => simp only [hr] at hs; cases hs

end DoitModel.Run.Dyn
