import DoitModel.Model.Report
/-! # C19 helper lemmas: `final_result` as a function of the failure kinds; the FIFO forwarding queue -/
namespace DoitModel.Report
open DoitModel.Run

theorem exitSpec_nil : exitSpec [] = 0 := rfl

theorem exitSpec_cons (k : FailKind) (ks : List FailKind) :
    exitSpec (k :: ks) = finalAfter (exitSpec ks) k := by
  cases k <;> cases ks <;> simp [exitSpec, finalAfter] <;> (try split) <;> simp_all <;> (try split) <;> simp_all

/-- the fold performed by `_handle_task_error`, one failure at a time, computes `exitSpec` of the kinds reported -/
theorem finalEv_eq_spec (evs : List Ev) : finalEv evs = exitSpec (failKinds evs) := by
  induction evs with
  | nil => rfl
  | cons e post ih =>
    cases e <;> simp only [finalEv, failKinds, ih]
    rw [exitSpec_cons]

theorem exitSpec_cases (ks : List FailKind) :
    (ks = [] ∧ exitSpec ks = 0) ∨ (ks ≠ [] ∧ (∀ k ∈ ks, k = FailKind.failed) ∧ exitSpec ks = 1) ∨
    ((∃ k ∈ ks, k ≠ FailKind.failed) ∧ exitSpec ks = 2) := by
  by_cases h0 : ks = []
  · left; subst h0; exact ⟨rfl, rfl⟩
  · by_cases h1 : ∀ k ∈ ks, k = FailKind.failed
    · right; left
      refine ⟨h0, h1, ?_⟩
      have : ks.all (fun k => k == FailKind.failed) = true := by
        simp only [List.all_eq_true, beq_iff_eq]; exact h1
      simp [exitSpec, h0, this]
    · right; right
      have hex : ∃ k ∈ ks, k ≠ FailKind.failed := by
        apply Classical.byContradiction
        intro hn
        apply h1
        intro k hk
        apply Classical.byContradiction
        intro hne
        exact hn ⟨k, hk, hne⟩
      refine ⟨hex, ?_⟩
      have : ks.all (fun k => k == FailKind.failed) = false := by
        obtain ⟨k, hk, hne⟩ := hex
        cases hall : ks.all (fun k => k == FailKind.failed) with
        | false => rfl
        | true =>
          simp only [List.all_eq_true, beq_iff_eq] at hall
          exact absurd (hall k hk) hne
      simp [exitSpec, h0, this]

theorem exitSpec_eq_zero {ks : List FailKind} : exitSpec ks = 0 ↔ ks = [] := by
  rcases exitSpec_cases ks with ⟨a, b⟩ | ⟨a, _, b⟩ | ⟨⟨k, hk, _⟩, b⟩
  · exact ⟨fun _ => a, fun _ => b⟩
  · simp [a, b]
  · constructor
    · intro h; omega
    · intro h; subst h; cases hk

theorem exitSpec_eq_one {ks : List FailKind} : exitSpec ks = 1 ↔ ks ≠ [] ∧ ∀ k ∈ ks, k = .failed := by
  rcases exitSpec_cases ks with ⟨a, b⟩ | ⟨a, a2, b⟩ | ⟨⟨k, hk, hne⟩, b⟩
  · constructor
    · intro h; omega
    · intro h; exact absurd a h.1
  · exact ⟨fun _ => ⟨a, a2⟩, fun _ => b⟩
  · constructor
    · intro h; omega
    · intro h; exact absurd (h.2 k hk) hne

theorem exitSpec_eq_two {ks : List FailKind} : exitSpec ks = 2 ↔ ∃ k ∈ ks, k ≠ .failed := by
  rcases exitSpec_cases ks with ⟨a, b⟩ | ⟨a, a2, b⟩ | ⟨hex, b⟩
  · subst a; simp [b]
  · constructor
    · intro h; omega
    · intro ⟨k, hk, hne⟩; exact absurd (a2 k hk) hne
  · exact ⟨fun _ => hex, fun _ => b⟩

theorem exitSpec_le_two (ks : List FailKind) : exitSpec ks ≤ 2 := by
  unfold exitSpec; split <;> (try split) <;> omega

/-- `exitSpec` depends only on which kinds occur, not on their order or multiplicity -/
theorem exitSpec_congr {ks ks' : List FailKind} (h : ∀ k, k ∈ ks ↔ k ∈ ks') : exitSpec ks = exitSpec ks' := by
  have h0 : ks = [] ↔ ks' = [] := by
    constructor
    · intro e; subst e; cases ks' with
      | nil => rfl
      | cons a l => exact absurd ((h a).2 (by simp)) (by simp)
    · intro e; subst e; cases ks with
      | nil => rfl
      | cons a l => exact absurd ((h a).1 (by simp)) (by simp)
  have h1 : (∀ k ∈ ks, k = FailKind.failed) ↔ (∀ k ∈ ks', k = FailKind.failed) :=
    ⟨fun a k hk => a k ((h k).2 hk), fun a k hk => a k ((h k).1 hk)⟩
  unfold exitSpec
  by_cases e : ks = []
  · simp [e, h0.1 e]
  · have e' : ks' ≠ [] := fun x => e (h0.2 x)
    simp only [e, e', if_false]
    by_cases a : ∀ k ∈ ks, k = FailKind.failed
    · have a' := h1.1 a
      simp_all
    · have a' : ¬ ∀ k ∈ ks', k = FailKind.failed := fun x => a (h1.2 x)
      simp_all

theorem exitSpec_perm {ks ks' : List FailKind} (h : ks.Perm ks') : exitSpec ks = exitSpec ks' :=
  exitSpec_congr fun _ => h.mem_iff

/-! ### the forwarding queue -/

/-- state of one producer: it still has to put `workerMsgs ns`, possibly after the result of a task whose
    `execute_task` report is already among the delivered messages -/
def ProdOK (delivered : List Msg) (q : List Msg) : Prop :=
  (∃ ns, q = workerMsgs ns) ∨ (∃ n ns, q = .res n :: workerMsgs ns ∧ Msg.rep n ∈ delivered)

theorem merge_rep_before_res {qs : Nat → List Msg} {q : List Msg} (hm : Merge qs q) :
    ∀ delivered, (∀ w, ProdOK delivered (qs w)) →
      ∀ pre post n, q = pre ++ Msg.res n :: post → Msg.rep n ∈ delivered ++ pre := by
  induction hm with
  | nil h => intro d _ pre post n e; cases pre <;> cases e
  | @cons qs m q w rest hw _ ih =>
    intro d hp pre post n e
    have step : ∀ k, ProdOK (d ++ [m]) (if k = w then rest else qs k) := by
      intro k
      by_cases hk : k = w
      · subst hk; simp only [if_true]
        rcases hp k with ⟨ns, e1⟩ | ⟨n1, ns, e1, hin⟩
        · rw [hw] at e1
          cases ns with
          | nil => cases e1
          | cons a ns =>
            simp only [workerMsgs] at e1
            injection e1 with e2 e3
            subst e2; subst e3
            exact Or.inr ⟨a, ns, rfl, by simp⟩
        · rw [hw] at e1; injection e1 with e2 e3
          subst e3; exact Or.inl ⟨ns, rfl⟩
      · simp only [hk, if_false]
        rcases hp k with ⟨ns, e1⟩ | ⟨n1, ns, e1, hin⟩
        · exact Or.inl ⟨ns, e1⟩
        · exact Or.inr ⟨n1, ns, e1, by simp [hin]⟩
    cases pre with
    | nil =>
      simp only [List.nil_append] at e
      injection e with e1 e2
      subst e1
      rcases hp w with ⟨ns, e3⟩ | ⟨n1, ns, e3, hin⟩
      · rw [hw] at e3; cases ns with
        | nil => cases e3
        | cons a ns => simp only [workerMsgs] at e3; injection e3 with e4 _; cases e4
      · rw [hw] at e3; injection e3 with e4 _; injection e4 with e5; subst e5; simpa using hin
    | cons p pre =>
      simp only [List.cons_append] at e
      injection e with e1 e2
      subst e1
      have := ih (d ++ [m]) step pre post n e2
      simpa [List.append_assoc] using this

end DoitModel.Report
