import DoitModel.Proofs.RunSys
import DoitModel.Proofs.C08Conf2
import DoitModel.Proofs.C08Dyn1
import DoitModel.Proofs.C08LiftDeliver
/-! # C08 (I10) with calc_dep, step 2: soundness of the dynamic dependency lists and of `bad_deps` / `ignored_deps`

Node-local invariant `NodeS`: every entry of `task.calc_dep` (`dynCalc`) is a static calc_dep or was delivered by an
executed / up-to-date member, or by a member that failed during its execution (`SF`: its derived outcome says so)
(`CalcS`, justified by the statuses of the state), every entry of `task.task_dep`
(`dynTask`) is static or was delivered by such a member (`TaskS`); pending lists, snapshots and wait sets are drawn from
them; `bad_deps` / `ignored_deps` hold failed / ignored dependencies only.  Lifted to all nodes as `InvN`. -/
namespace DoitModel.Run.Dyn

/-- on inputs where no failing calc task has returned dependency values (`NoFailDeliver`, the former scope of this
    development) `delivOf` is the delivery of the executed / up-to-date calc tasks only -/
theorem delivOf_noFail {inp : RunInput} [h : NoFailDeliver inp] (c : Name) (d : Den) :
    delivOf inp c d = if d.rs.good then inp.calcRes c else {} := by
  unfold delivOf; rw [h.nil c]; split <;> simp


/-- `c` has a derived outcome, and it is a failure during the execution of `c` (`startedFail`) -/
def SF (inp : RunInput) (c : Name) : Prop := ∃ d, DenOf inp c d ∧ startedFail inp c d = true

/-- a failed task that has a start event failed during its execution according to the denotation -/
def StartF (inp : RunInput) (s : Sys) : Prop := ∀ c, stOf s c = .fail → started s c = true → SF inp c

/-- calc_deps of `n` justified by the statuses in `s` -/
inductive CalcS (inp : RunInput) (s : Sys) (n : Name) : Name → Prop
  | static {c : Name} : c ∈ inp.calcDep n → CalcS inp s n c
  | deliv {c x : Name} : CalcS inp s n c → (stOf s c).good = true → x ∈ (inp.calcRes c).calcs → CalcS inp s n x
  | delivF {c x : Name} : CalcS inp s n c → stOf s c = .fail → SF inp c → x ∈ (inp.calcResFail c).calcs →
      CalcS inp s n x

/-- task_deps of `n` justified by the statuses in `s` -/
def TaskS (inp : RunInput) (s : Sys) (n x : Name) : Prop :=
  x ∈ inp.taskDep n ∨
  (∃ c, CalcS inp s n c ∧ (stOf s c).good = true ∧ (x ∈ (inp.calcRes c).tasks ∨ x ∈ (inp.calcRes c).files)) ∨
  ∃ c, CalcS inp s n c ∧ stOf s c = .fail ∧ SF inp c ∧
    (x ∈ (inp.calcResFail c).tasks ∨ x ∈ (inp.calcResFail c).files)

theorem CalcS.stable {inp : RunInput} {s s' : Sys} {n x : Name} (hst : Stable s s') (h : CalcS inp s n x) :
    CalcS inp s' n x := by
  induction h with
  | static hc => exact CalcS.static hc
  | deliv _ hg hm ih => exact CalcS.deliv ih (by rw [hst _ (RS.good_finished hg)]; exact hg) hm
  | delivF _ hf hsf hm ih => exact CalcS.delivF ih (by rw [hst _ (by rw [hf]; rfl)]; exact hf) hsf hm

theorem TaskS.stable {inp : RunInput} {s s' : Sys} {n x : Name} (hst : Stable s s') (h : TaskS inp s n x) :
    TaskS inp s' n x := by
  rcases h with a | ⟨c, hc, hg, hm⟩ | ⟨c, hc, hf, hsf, hm⟩
  · exact Or.inl a
  · exact Or.inr (Or.inl ⟨c, hc.stable hst, by rw [hst _ (RS.good_finished hg)]; exact hg, hm⟩)
  · exact Or.inr (Or.inr ⟨c, hc.stable hst, by rw [hst _ (by rw [hf]; rfl)]; exact hf, hsf, hm⟩)

/-- where an entry of `wait_run` / `bad_deps` / `ignored_deps` of node `n` can come from (`lt`: the setup-tasks have
    been passed to `_node_add_wait_run`) -/
def Src (inp : RunInput) (n : Name) (lt : Bool) (nd : Node) (p : Name) : Prop :=
  p ∈ nd.dynTask ∨ p ∈ nd.dynCalc ∨ (lt = true ∧ p ∈ inp.setup n)

theorem Src.mono {inp : RunInput} {n : Name} {lt lt' : Bool} {a b : Node} {p : Name} (hl : lt = true → lt' = true)
    (hT : ∀ x, x ∈ a.dynTask → x ∈ b.dynTask) (hC : ∀ x, x ∈ a.dynCalc → x ∈ b.dynCalc)
    (h : Src inp n lt a p) : Src inp n lt' b p := by
  rcases h with x | x | ⟨x, y⟩
  · exact Or.inl (hT _ x)
  · exact Or.inr (Or.inl (hC _ x))
  · exact Or.inr (Or.inr ⟨hl x, y⟩)

structure NodeD (inp : RunInput) (s : Sys) (n : Name) (lt : Bool) (nd : Node) : Prop where
  pendT : ∀ d ∈ nd.pendTask, d ∈ nd.dynTask
  pendC : ∀ d ∈ nd.pendCalc, d ∈ nd.dynCalc
  snapT : ∀ d ∈ nd.snapTask, d ∈ nd.dynTask
  snapC : ∀ d ∈ nd.snapCalc, d ∈ nd.dynCalc
  wait : ∀ d ∈ nd.waitRun, Src inp n lt nd d
  waitC : ∀ d ∈ nd.waitRunCalc, d ∈ nd.dynCalc
  bad : ∀ p ∈ nd.bad, stOf s p = .fail ∧ Src inp n lt nd p
  ign : ∀ p ∈ nd.ign, stOf s p = .ign ∧ Src inp n lt nd p
  dynC : ∀ x ∈ nd.dynCalc, CalcS inp s n x
  dynT : ∀ x ∈ nd.dynTask, TaskS inp s n x

theorem NodeD.stable {inp : RunInput} {s s' : Sys} {n : Name} {lt : Bool} {a : Node} (h : NodeD inp s n lt a)
    (hst : Stable s s') : NodeD inp s' n lt a := by
  refine ⟨h.pendT, h.pendC, h.snapT, h.snapC, h.wait, h.waitC, ?_, ?_, fun x hx => (h.dynC x hx).stable hst,
    fun x hx => (h.dynT x hx).stable hst⟩
  · intro p hp
    obtain ⟨a1, a2⟩ := h.bad p hp
    exact ⟨by rw [hst p (by rw [a1]; rfl)]; exact a1, a2⟩
  · intro p hp
    obtain ⟨a1, a2⟩ := h.ign p hp
    exact ⟨by rw [hst p (by rw [a1]; rfl)]; exact a1, a2⟩

theorem NodeD.late {inp : RunInput} {s : Sys} {n : Name} {lt lt' : Bool} {a : Node} (h : NodeD inp s n lt a)
    (hl : lt = true → lt' = true) : NodeD inp s n lt' a :=
  ⟨h.pendT, h.pendC, h.snapT, h.snapC, fun d hd => (h.wait d hd).mono hl (fun _ x => x) (fun _ x => x), h.waitC,
   fun p hp => ⟨(h.bad p hp).1, ((h.bad p hp).2).mono hl (fun _ x => x) (fun _ x => x)⟩,
   fun p hp => ⟨(h.ign p hp).1, ((h.ign p hp).2).mono hl (fun _ x => x) (fun _ x => x)⟩, h.dynC, h.dynT⟩

/-- `NodeD` does not read `pc`, `status`, `waitingMe`, `waitSelect`, `anc` -/
theorem NodeD.ctl {inp : RunInput} {s : Sys} {n : Name} {lt : Bool} {a b : Node} (h : NodeD inp s n lt a)
    (e1 : b.pendTask = a.pendTask) (e2 : b.pendCalc = a.pendCalc) (e3 : b.snapTask = a.snapTask)
    (e4 : b.snapCalc = a.snapCalc) (e5 : b.waitRun = a.waitRun) (e6 : b.waitRunCalc = a.waitRunCalc)
    (e7 : b.bad = a.bad) (e8 : b.ign = a.ign) (e9 : b.dynTask = a.dynTask) (e10 : b.dynCalc = a.dynCalc) :
    NodeD inp s n lt b := by
  have hsrc : ∀ p, Src inp n lt a p → Src inp n lt b p := fun p hp =>
    hp.mono (fun x => x) (fun _ x => by rw [e9]; exact x) (fun _ x => by rw [e10]; exact x)
  refine ⟨?_, ?_, ?_, ?_, ?_, ?_, ?_, ?_, ?_, ?_⟩
  · rw [e1, e9]; exact h.pendT
  · rw [e2, e10]; exact h.pendC
  · rw [e3, e9]; exact h.snapT
  · rw [e4, e10]; exact h.snapC
  · rw [e5]; exact fun d hd => hsrc d (h.wait d hd)
  · rw [e6, e10]; exact h.waitC
  · rw [e7]; exact fun p hp => ⟨(h.bad p hp).1, hsrc p (h.bad p hp).2⟩
  · rw [e8]; exact fun p hp => ⟨(h.ign p hp).1, hsrc p (h.ign p hp).2⟩
  · rw [e10]; exact h.dynC
  · rw [e9]; exact h.dynT

/-! ### `parent_status`, `_process_calc_dep_results` -/

theorem parentStatus_D {inp : RunInput} {s : Sys} {n : Name} {lt : Bool} {nd : Node} {pst : RS} {p : Name}
    (h : NodeD inp s n lt nd) (hst : stOf s p = pst) (hsrc : Src inp n lt nd p) :
    NodeD inp s n lt (parentStatus pst p nd) := by
  refine ⟨h.pendT, h.pendC, h.snapT, h.snapC, h.wait, h.waitC, ?_, ?_, h.dynC, h.dynT⟩
  · intro q hq
    simp only [parentStatus] at hq
    split at hq
    · rename_i e
      rcases List.mem_append.mp hq with x | x
      · exact h.bad q x
      · simp at x; subst x; exact ⟨hst.trans e, hsrc⟩
    · exact h.bad q hq
  · intro q hq
    simp only [parentStatus] at hq
    split at hq
    · rename_i e
      rcases List.mem_append.mp hq with x | x
      · exact h.ign q x
      · simp at x; subst x; exact ⟨hst.trans e, hsrc⟩
    · exact h.ign q hq

theorem implicitNew_sub : ∀ (fs acc : List Name) (x : Name), x ∈ implicitNew acc fs → x ∈ fs := by
  intro fs
  induction fs with
  | nil => intro acc x h; simp [implicitNew] at h
  | cons f fs ih =>
    intro acc x h
    simp only [implicitNew] at h
    split at h
    · exact List.mem_cons_of_mem _ (ih _ _ h)
    · rcases List.mem_cons.mp h with e | e
      · rw [e]; simp
      · exact List.mem_cons_of_mem _ (ih _ _ e)

theorem addDeps_gen_D {inp : RunInput} {s : Sys} {n : Name} {lt : Bool} {nd : Node} (r : CalcRes)
    (h : NodeD inp s n lt nd) (hC : ∀ x ∈ r.calcs, CalcS inp s n x)
    (hT : ∀ x, x ∈ r.tasks ∨ x ∈ r.files → TaskS inp s n x) :
    NodeD inp s n lt (nd.addDeps r) := by
  have g := addDeps_grow nd r
  have hsrc : ∀ q, Src inp n lt nd q → Src inp n lt (nd.addDeps r) q :=
    fun q hq => hq.mono (fun x => x) g.dynTask g.dynCalc
  refine ⟨?_, ?_, ?_, ?_, ?_, ?_, ?_, ?_, ?_, ?_⟩
  · intro d hd
    simp only [Node.addDeps, List.mem_append] at hd ⊢
    rcases hd with a | a
    · exact Or.inl (h.pendT d a)
    · exact Or.inr a
  · intro d hd
    simp only [Node.addDeps, List.mem_append, List.mem_filter] at hd ⊢
    rcases hd with a | a
    · exact Or.inl (h.pendC d a)
    · exact Or.inr a.1
  · intro d hd; exact g.dynTask d (h.snapT d hd)
  · intro d hd; exact g.dynCalc d (h.snapC d hd)
  · intro d hd; exact hsrc d (h.wait d hd)
  · intro d hd; exact g.dynCalc d (h.waitC d hd)
  · intro q hq; exact ⟨(h.bad q hq).1, hsrc q (h.bad q hq).2⟩
  · intro q hq; exact ⟨(h.ign q hq).1, hsrc q (h.ign q hq).2⟩
  · intro x hx
    simp only [Node.addDeps, List.mem_append] at hx
    rcases hx with a | a
    · exact h.dynC x a
    · simp only [newCalcDeps, List.mem_filter] at a
      exact hC x (mem_dedup.mp a.1)
  · intro x hx
    simp only [Node.addDeps, List.mem_append] at hx
    rcases hx with a | a
    · exact h.dynT x a
    · simp only [newTaskDeps, List.mem_append] at a
      rcases a with a | a
      · exact hT x (Or.inl a)
      · exact hT x (Or.inr (implicitNew_sub _ _ _ a))

theorem addDeps_D {inp : RunInput} {s : Sys} {n : Name} {lt : Bool} {nd : Node} {p : Name}
    (h : NodeD inp s n lt nd) (hg : (stOf s p).good = true) (hp : p ∈ nd.dynCalc) :
    NodeD inp s n lt (nd.addDeps (inp.calcRes p)) :=
  addDeps_gen_D _ h (fun _ hx => CalcS.deliv (h.dynC p hp) hg hx) (fun _ hx => Or.inr (Or.inl ⟨p, h.dynC p hp, hg, hx⟩))

theorem addDepsF_D {inp : RunInput} {s : Sys} {n : Name} {lt : Bool} {nd : Node} {p : Name}
    (h : NodeD inp s n lt nd) (hf : stOf s p = .fail) (hsf : SF inp p) (hp : p ∈ nd.dynCalc) :
    NodeD inp s n lt (nd.addDeps (inp.calcResFail p)) :=
  addDeps_gen_D _ h (fun _ hx => CalcS.delivF (h.dynC p hp) hf hsf hx)
    (fun _ hx => Or.inr (Or.inr ⟨p, h.dynC p hp, hf, hsf, hx⟩))

theorem deliver_D {inp : RunInput} {s : Sys} {n : Name} {lt : Bool} {nd : Node} {pst : RS} {p : Name}
    (h : NodeD inp s n lt nd) (hst : stOf s p = pst) (hp : p ∈ nd.dynCalc) :
    NodeD inp s n lt (deliver inp pst p nd) := by
  unfold deliver
  split
  · rename_i hg; exact addDeps_D h (by rw [hst]; exact hg) hp
  · exact h

/-- `_process_calc_dep_results` for a failed `p`: what it returned before failing is justified when the flag `ex`
    (`p` has a start event) implies that the denotation of `p` is a failure during execution -/
theorem deliverF_D {inp : RunInput} {s : Sys} {n : Name} {lt : Bool} {nd : Node} {pst : RS} {p : Name} {ex : Bool}
    (h : NodeD inp s n lt nd) (hst : stOf s p = pst) (hp : p ∈ nd.dynCalc)
    (hF : pst = .fail → ex = true → SF inp p) :
    NodeD inp s n lt (deliverF inp ex pst p nd) := by
  unfold deliverF
  split
  · rename_i hc; exact addDepsF_D h (hst.trans hc.1) (hF hc.1 hc.2) hp
  · exact h

/-! ### `_node_add_wait_run` -/

theorem absorbDone_D {inp : RunInput} {s : Sys} {n : Name} {lt : Bool} (hF : StartF inp s) (isCalc : Bool) :
    ∀ (ds : List Name) (nd : Node), NodeD inp s n lt nd → (∀ d ∈ ds, if isCalc = true then d ∈ nd.dynCalc else Src inp n lt nd d) →
    NodeD inp s n lt (absorbDone inp s isCalc ds nd) := by
  intro ds
  induction ds with
  | nil => intro nd h _; exact h
  | cons a t ih =>
    intro nd h hq
    simp only [absorbDone]
    by_cases hu : unfinished s a = true
    · simp only [hu, if_true]; exact ih nd h (fun d hd => hq d (by simp [hd]))
    · simp only [hu, Bool.false_eq_true, if_false]
      have ha := hq a (by simp)
      cases isCalc with
      | false =>
        simp only [Bool.false_eq_true, if_false] at ha ⊢
        have g := parentStatus_grow (stOf s a) a nd
        apply ih _ (parentStatus_D h rfl ha)
        intro d hd
        have := hq d (by simp [hd])
        simp only [Bool.false_eq_true, if_false] at this ⊢
        exact this.mono (fun x => x) g.dynTask g.dynCalc
      | true =>
        simp only [if_true] at ha ⊢
        have g1 := parentStatus_grow (stOf s a) a nd
        have g2 := deliver_grow inp (stOf s a) a (parentStatus (stOf s a) a nd)
        have g3 := deliverF_grow inp (started s a) (stOf s a) a
          (deliver inp (stOf s a) a (parentStatus (stOf s a) a nd))
        apply ih _ (deliverF_D (deliver_D (parentStatus_D h rfl (Or.inr (Or.inl ha))) rfl (g1.dynCalc a ha)) rfl
          (g2.dynCalc a (g1.dynCalc a ha)) (fun e1 e2 => hF a e1 e2))
        intro d hd
        have := hq d (by simp [hd])
        simp only [if_true] at this ⊢
        exact g3.dynCalc d (g2.dynCalc d (g1.dynCalc d this))

theorem waitNode_D {inp : RunInput} {s : Sys} {n : Name} {lt : Bool} {nd : Node} (hF : StartF inp s) (ds : List Name)
    (isCalc : Bool) (pc' : PC) (h : NodeD inp s n lt nd)
    (hds : ∀ d ∈ ds, if isCalc = true then d ∈ nd.dynCalc else Src inp n lt nd d) :
    NodeD inp s n lt (waitNode inp s nd ds isCalc pc') := by
  have h1 := absorbDone_D hF isCalc ds nd h hds
  obtain ⟨g, _, _⟩ := absorbDone_spec inp s isCalc ds nd
  have hds' : ∀ d ∈ ds.filter (unfinished s),
      if isCalc = true then d ∈ (absorbDone inp s isCalc ds nd).dynCalc
      else Src inp n lt (absorbDone inp s isCalc ds nd) d := by
    intro d hd
    have := hds d (List.mem_filter.mp hd).1
    cases isCalc with
    | false =>
      simp only [Bool.false_eq_true, if_false] at this ⊢
      exact this.mono (fun x => x) g.dynTask g.dynCalc
    | true => simp only [if_true] at this ⊢; exact g.dynCalc d this
  unfold waitNode addWaits
  generalize absorbDone inp s isCalc ds nd = x at h1 hds' ⊢
  cases isCalc with
  | false =>
    simp only [Bool.false_eq_true, if_false] at hds' ⊢
    refine ⟨h1.pendT, h1.pendC, h1.snapT, h1.snapC, ?_, h1.waitC, h1.bad, h1.ign, h1.dynC, h1.dynT⟩
    intro d hd
    rcases List.mem_append.mp hd with a | a
    · exact hds' d a
    · exact h1.wait d a
  | true =>
    simp only [if_true] at hds' ⊢
    refine ⟨h1.pendT, h1.pendC, h1.snapT, h1.snapC, h1.wait, ?_, h1.bad, h1.ign, h1.dynC, h1.dynT⟩
    intro d hd
    rcases List.mem_append.mp hd with a | a
    · exact hds' d a
    · exact h1.waitC d a

/-! ### `_update_waiting`: one waiting node -/

theorem wokenNode_D {inp : RunInput} {s : Sys} {n : Name} {lt : Bool} {w : Node} {pst : RS} {p : Name}
    (h : NodeD inp s n lt w) (hp : p ∈ w.waitRun ∨ p ∈ w.waitRunCalc) (hst : stOf s p = pst) :
    NodeD inp s n lt (wokenNode inp pst p w) := by
  unfold wokenNode
  split
  · rename_i hc
    have hpc : p ∈ w.dynCalc := h.waitC p hc
    have h1 := parentStatus_D h hst (Or.inr (Or.inl hpc))
    refine deliver_D ?_ hst (by exact hpc)
    exact ⟨h1.pendT, h1.pendC, h1.snapT, h1.snapC, fun d hd => h1.wait d (List.mem_filter.mp hd).1,
      fun d hd => h1.waitC d (List.mem_filter.mp hd).1, h1.bad, h1.ign, h1.dynC, h1.dynT⟩
  · rename_i hc
    have hw : p ∈ w.waitRun := by rcases hp with a | a; exact a; exact absurd a hc
    have h1 := parentStatus_D h hst (h.wait p hw)
    exact ⟨h1.pendT, h1.pendC, h1.snapT, h1.snapC, fun d hd => h1.wait d (List.mem_filter.mp hd).1,
      h1.waitC, h1.bad, h1.ign, h1.dynC, h1.dynT⟩

/-! ### the node invariant with its control part -/

def NodeS (inp : RunInput) (s : Sys) (n : Name) (nd : Node) : Prop :=
  NodeD inp s n nd.pc.late nd ∧ (nd.pc.ph2 = true → nd.status ≠ .none)

theorem NodeS.stable {inp : RunInput} {s s' : Sys} {n : Name} {a : Node} (h : NodeS inp s n a) (hst : Stable s s') :
    NodeS inp s' n a := ⟨h.1.stable hst, h.2⟩

theorem NodeS.setPc {inp : RunInput} {s : Sys} {n : Name} {nd : Node} (pc' : PC) (h : NodeS inp s n nd)
    (hl : nd.pc.late = true → pc'.late = true) (hp : pc'.ph2 = true → nd.pc.ph2 = true ∨ nd.status ≠ .none) :
    NodeS inp s n { nd with pc := pc' } := by
  refine ⟨(h.1.late hl).ctl rfl rfl rfl rfl rfl rfl rfl rfl rfl rfl, ?_⟩
  intro e
  rcases hp e with a | a
  · exact h.2 a
  · exact a

theorem mkNode_S (inp : RunInput) (s : Sys) (t : Name) (anc : List Name) : NodeS inp s t (mkNode inp t anc) := by
  refine ⟨⟨fun d hd => hd, fun d hd => hd, ?_, ?_, ?_, ?_, ?_, ?_, ?_, fun x hx => Or.inl hx⟩, ?_⟩
  · intro d hd; simp [mkNode] at hd
  · intro d hd; simp [mkNode] at hd
  · intro d hd; simp [mkNode] at hd
  · intro d hd; simp [mkNode] at hd
  · intro d hd; simp [mkNode] at hd
  · intro d hd; simp [mkNode] at hd
  · intro x hx; exact CalcS.static (mem_dedup.mp hx)
  · intro e; simp [mkNode, PC.ph2] at e

theorem NodeS.addWaiting {inp : RunInput} {s : Sys} {k : Name} {x : Node} (h : NodeS inp s k x) (m : Name) :
    NodeS inp s k (x.addWaiting m) := by
  unfold Node.addWaiting; split
  · exact h
  · exact ⟨h.1.ctl rfl rfl rfl rfl rfl rfl rfl rfl rfl rfl, h.2⟩

theorem NodeS.setStatus {inp : RunInput} {s : Sys} {n : Name} {nd : Node} (st' : RS) (h : NodeS inp s n nd)
    (hne : st' ≠ .none) : NodeS inp s n { nd with status := st' } :=
  ⟨h.1.ctl rfl rfl rfl rfl rfl rfl rfl rfl rfl rfl, fun _ => hne⟩

theorem waitNode_S {inp : RunInput} {s : Sys} {n : Name} {nd : Node} (hF : StartF inp s) (ds : List Name) (isCalc : Bool)
    (pc' : PC) (h : NodeS inp s n nd)
    (hds : ∀ d ∈ ds, if isCalc = true then d ∈ nd.dynCalc else Src inp n pc'.late nd d)
    (hl : nd.pc.late = true → pc'.late = true) (hp : pc'.ph2 = true → nd.pc.ph2 = true ∨ nd.status ≠ .none) :
    NodeS inp s n (waitNode inp s nd ds isCalc pc') := by
  have f := waitNode_facts inp s nd ds isCalc pc'
  refine ⟨?_, ?_⟩
  · rw [f.pc]; exact waitNode_D hF ds isCalc pc' (h.1.late hl) hds
  · intro e; rw [f.pc] at e; rw [f.status]
    rcases hp e with a | a
    · exact h.2 a
    · exact a

theorem wokenNode_S {inp : RunInput} {s : Sys} {n : Name} {w : Node} {pst : RS} {p : Name}
    (h : NodeS inp s n w) (hp : p ∈ w.waitRun ∨ p ∈ w.waitRunCalc) (hst : stOf s p = pst) :
    NodeS inp s n (wokenNode inp pst p w) := by
  have u := wokenNode_upd inp pst p w
  exact ⟨by rw [u.pc]; exact wokenNode_D h.1 hp hst, by rw [u.pc, u.status]; exact h.2⟩

/-- `wokenNode` plus the delivery of what a failed-during-execution calc_dep returned -/
theorem wokenF_S {inp : RunInput} {s : Sys} {n : Name} {w : Node} {pst : RS} {p : Name}
    (h : NodeS inp s n w) (hp : p ∈ w.waitRun ∨ p ∈ w.waitRunCalc) (hst : stOf s p = pst)
    (hF : pst = .fail → started s p = true → SF inp p) :
    NodeS inp s n (wokenF inp s pst p w) := by
  have h1 := wokenNode_S h hp hst
  have u := wokenNode_upd inp pst p w
  unfold wokenF
  split
  · rename_i hc
    have g := deliverF_grow inp (started s p) pst p (wokenNode inp pst p w)
    refine ⟨?_, ?_⟩
    · rw [g.pc]; exact deliverF_D h1.1 hst (u.dynCalc p (h.1.waitC p hc)) hF
    · rw [g.pc, g.status]; exact h1.2
  · exact h1

/-! ### all nodes -/

def InvN (inp : RunInput) (s : Sys) : Prop := ∀ n nd, s.nodes n = some nd → NodeS inp s n nd

theorem invN_congr {inp : RunInput} {s s' : Sys} (h : InvN inp s) (e : s'.nodes = s.nodes) : InvN inp s' := by
  intro n nd hn; rw [e] at hn
  exact (h n nd hn).stable (Stable.of_eq (stOf_congr e))

theorem invN_stable {inp : RunInput} {s : Sys} {n : Name} {x : Node} (h : InvN inp s) (hst : Stable s (setNode s n x))
    (hx : NodeS inp s n x) : InvN inp (setNode s n x) := by
  intro m md hm
  simp only [setNode_nodes] at hm
  split at hm
  · rename_i e; subst e; cases hm; exact hx.stable hst
  · exact (h m md hm).stable hst

theorem invN_setNode {inp : RunInput} {s : Sys} {n : Name} {nd x : Node} (h : InvN inp s)
    (hn : s.nodes n = some nd) (hst : x.status = nd.status) (hx : NodeS inp s n x) : InvN inp (setNode s n x) :=
  invN_stable h (Stable.of_eq (stOf_setNode_same hn hst)) hx

theorem invN_create {inp : RunInput} {s : Sys} {t : Name} (anc : List Name) (h : InvN inp s)
    (ht : s.nodes t = none) : InvN inp (setNode s t (mkNode inp t anc)) :=
  invN_stable h (Stable.of_eq (stable_create anc ht)) (mkNode_S inp s t anc)

/-- the runner sets the status of node `n` (not finished before) -/
theorem invN_status {inp : RunInput} {s : Sys} {n : Name} {nd : Node} (st' : RS) (h : InvN inp s)
    (hn : s.nodes n = some nd) (hu : nd.status.finished = false) (hne : st' ≠ .none) :
    InvN inp (setNode s n { nd with status := st' }) := by
  refine invN_stable h ?_ ((h n nd hn).setStatus st' hne)
  intro d hd; rw [stOf_setNode]; split
  · rename_i e; subst e; simp [stOf, hn, hu] at hd
  · rfl

theorem invN_registerWaiting {inp : RunInput} {s : Sys} (n : Name) (wf : List Name) (h : InvN inp s) :
    InvN inp (registerWaiting s n wf) := by
  have hstb : Stable s (registerWaiting s n wf) := Stable.of_eq (stOf_registerWaiting s n wf)
  intro k y hy
  rw [registerWaiting_nodes] at hy
  cases hk : s.nodes k with
  | none => rw [hk] at hy; cases hy
  | some x =>
    rw [hk] at hy
    by_cases hkw : k ∈ wf
    · simp only [hkw, if_true, Option.some.injEq] at hy; subst hy
      exact ((h k x hk).stable hstb).addWaiting n
    · simp only [hkw, if_false, Option.some.injEq] at hy; subst hy
      exact (h k x hk).stable hstb

theorem genStep_invN {inp : RunInput} {s : Sys} {n : Name} {nd : Node} (d : Name) (pc' : PC)
    (h : InvN inp s) (hn : s.nodes n = some nd) (hx : NodeS inp s n { nd with pc := pc' }) :
    InvN inp (genStep inp s n nd d pc') := by
  unfold genStep
  cases hd : s.nodes d with
  | none =>
    simp only []
    have hdn : d ≠ n := by intro e; subst e; rw [hn] at hd; cases hd
    have h1 := invN_create (nd.anc ++ [d]) h hd
    have hn1 : (setNode s d (mkNode inp d (nd.anc ++ [d]))).nodes n = some nd := by
      simp [setNode_nodes, Ne.symm hdn, hn]
    have h2 := invN_setNode (x := { nd with pc := pc' }) h1 hn1 rfl
      (hx.stable (Stable.of_eq (stable_create (nd.anc ++ [d]) hd)))
    exact invN_congr h2 rfl
  | some x =>
    simp only []
    split
    · exact invN_congr h rfl
    · exact invN_setNode h hn rfl hx

theorem addWaitRun_invN {inp : RunInput} {s : Sys} {n : Name} {nd : Node} (ds : List Name) (isCalc : Bool)
    (pc' : PC) (h : InvN inp s) (hn : s.nodes n = some nd)
    (hx : NodeS inp s n (waitNode inp s nd ds isCalc pc')) : InvN inp (addWaitRun inp s n nd ds isCalc pc') := by
  have f := waitNode_facts inp s nd ds isCalc pc'
  unfold addWaitRun
  apply invN_registerWaiting
  exact invN_setNode (x := waitNode inp s nd ds isCalc pc') h hn f.status hx

end DoitModel.Run.Dyn
