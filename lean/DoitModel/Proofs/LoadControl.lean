import DoitModel.Proofs.Load
/-! `TaskControl.__init__` (model `control`): what an accepted task list satisfies -/
namespace DoitModel.Load

/-- `t'` is `t` with dependencies appended to `task_dep` (wild-card expansion, implicit deps) -/
def Extends (t t' : Task) : Prop :=
  t'.name = t.name ∧ t'.setupTasks = t.setupTasks ∧ t'.calcDep = t.calcDep ∧ t'.targets = t.targets ∧
  t'.fileDep = t.fileDep ∧ t'.subtaskOf = t.subtaskOf ∧ t'.hasSubtask = t.hasSubtask ∧ t'.wildDep = t.wildDep ∧
  ∃ extra, t'.taskDep = t.taskDep ++ extra

theorem extends_expandWild (names : List Name) (t : Task) : Extends t (expandWild names t) := by
  refine ⟨rfl, rfl, rfl, rfl, rfl, rfl, rfl, rfl, _, rfl⟩

theorem extends_addImplicit (ts : List Task) (t : Task) : Extends t (addImplicit ts t) := by
  refine ⟨rfl, rfl, rfl, rfl, rfl, rfl, rfl, rfl, _, rfl⟩

theorem Extends.trans {a b c : Task} (h1 : Extends a b) (h2 : Extends b c) : Extends a c := by
  obtain ⟨n1, s1, c1, t1, f1, u1, g1, w1, e1, d1⟩ := h1
  obtain ⟨n2, s2, c2, t2, f2, u2, g2, w2, e2, d2⟩ := h2
  refine ⟨n2.trans n1, s2.trans s1, c2.trans c1, t2.trans t1, f2.trans f1, u2.trans u1, g2.trans g1, w2.trans w1,
    e1 ++ e2, ?_⟩
  rw [d2, d1, List.append_assoc]

theorem owner_mem (ts : List Task) (f o : Name) (h : owner ts f = some o) : o ∈ ts.map (·.name) := by
  induction ts with
  | nil => simp [owner] at h
  | cons t rest ih =>
    by_cases ht : f ∈ t.targets
    · simp [owner, ht] at h; simp [h]
    · simp [owner, ht] at h; simp [ih h]

theorem implicitDeps_mem (ts : List Task) (fs deps : List Name) :
    ∀ o ∈ implicitDeps ts deps fs, o ∈ ts.map (·.name) := by
  induction fs generalizing deps with
  | nil => simp [implicitDeps]
  | cons f rest ih =>
    intro o ho
    unfold implicitDeps at ho
    cases hown : owner ts f with
    | none => simp only [hown] at ho; exact ih _ o ho
    | some w =>
      simp only [hown] at ho
      by_cases hc : deps.contains w = true
      · simp only [hc, if_true] at ho; exact ih _ o ho
      · simp only [hc] at ho
        rcases List.mem_cons.mp ho with h | h
        · subst h; exact owner_mem ts f _ hown
        · exact ih _ o h

/-- the three checks of `TaskControl.__init__`, and the shape of its result -/
theorem control_ok (ts ts' : List Task) (h : control ts = .ok ts') :
    nodupB (ts.map (·.name)) = true ∧
    (ts.map (expandWild (ts.map (·.name)))).all (depsExist (ts.map (·.name))) = true ∧
    nodupB ((ts.map (expandWild (ts.map (·.name)))).flatMap (·.targets)) = true ∧
    ts' = (ts.map (expandWild (ts.map (·.name)))).map (addImplicit (ts.map (expandWild (ts.map (·.name))))) := by
  unfold control at h
  by_cases h1 : nodupB (ts.map (·.name)) = true
  · by_cases h2 : (ts.map (expandWild (ts.map (·.name)))).all (depsExist (ts.map (·.name))) = true
    · by_cases h3 : nodupB ((ts.map (expandWild (ts.map (·.name)))).flatMap (·.targets)) = true
      · simp only [h1, h2, h3, Bool.not_true, Bool.false_eq_true, if_false] at h
        exact ⟨h1, h2, h3, (Except.ok.inj h).symm⟩
      · simp [h1, h2, h3] at h
    · simp [h1, h2] at h
  · simp [h1] at h

/-- every task of the result is the corresponding input task with dependencies appended -/
theorem control_extends (ts ts' : List Task) (h : control ts = .ok ts') :
    ∃ f : Task → Task, (∀ t, Extends t (f t)) ∧ ts' = ts.map f := by
  obtain ⟨_, _, _, rfl⟩ := control_ok ts ts' h
  refine ⟨fun t => addImplicit (ts.map (expandWild (ts.map (·.name)))) (expandWild (ts.map (·.name)) t), ?_, ?_⟩
  · intro t
    exact (extends_expandWild _ t).trans (extends_addImplicit _ _)
  · simp [List.map_map, Function.comp_def]

theorem map_extends_names (ts : List Task) (f : Task → Task) (hf : ∀ t, Extends t (f t)) :
    (ts.map f).map (·.name) = ts.map (·.name) := by
  induction ts with
  | nil => rfl
  | cons t rest ih => simp [(hf t).1, ih]

theorem map_extends_targets (ts : List Task) (f : Task → Task) (hf : ∀ t, Extends t (f t)) :
    (ts.map f).flatMap (·.targets) = ts.flatMap (·.targets) := by
  induction ts with
  | nil => rfl
  | cons t rest ih => simp [(hf t).2.2.2.1, ih]

end DoitModel.Load
