import DoitModel.Proofs.C05Inv
/-! # C05 (d) — the serial runner without `--continue` starts nothing after the first failure report -/
namespace DoitModel.Run

def failIn (l : List Ev) : Prop := ∃ n k, Ev.failure n k ∈ l

/-- (newest first) no `start` is newer than a failure report -/
def NSA : List Ev → Prop
  | [] => True
  | e :: rest => (e.isStart = true → ¬ failIn rest) ∧ NSA rest

structure InvS (inp : RunInput) (s : Sys) : Prop where
  sd : failIn s.events → s.stop = true ∧ s.rpc ≠ .sWait ∧ ∀ m, s.rpc ≠ .sExec m
  ns : NSA s.events

theorem failIn_append {a b : List Ev} : failIn (a ++ b) ↔ failIn a ∨ failIn b := by
  constructor
  · rintro ⟨n, k, h⟩
    rcases List.mem_append.mp h with x | x
    · exact Or.inl ⟨n, k, x⟩
    · exact Or.inr ⟨n, k, x⟩
  · rintro (⟨n, k, h⟩ | ⟨n, k, h⟩)
    · exact ⟨n, k, List.mem_append.mpr (Or.inl h)⟩
    · exact ⟨n, k, List.mem_append.mpr (Or.inr h)⟩

/-- prepend events none of which is a `start` -/
theorem NSA_append_nostart {new old : List Ev} (h : NSA old) (hn : ∀ e ∈ new, e.isStart = false) : NSA (new ++ old) := by
  induction new with
  | nil => exact h
  | cons e t ih =>
    refine ⟨fun he => ?_, ih (fun x hx => hn x (by simp [hx]))⟩
    have := hn e (by simp); rw [this] at he; cases he

/-- prepend events none of which is a failure, onto a list without failures -/
theorem NSA_append_nofail {new old : List Ev} (h : NSA old) (ho : ¬ failIn old) (hn : ¬ failIn new) :
    NSA (new ++ old) := by
  induction new with
  | nil => exact h
  | cons e t ih =>
    have ht : ¬ failIn t := fun ⟨n, k, x⟩ => hn ⟨n, k, by simp [x]⟩
    refine ⟨fun _ hf => ?_, ih ht⟩
    rcases failIn_append.mp hf with x | x
    · exact ht x
    · exact ho x

/-- only bookkeeping changed, and the runner is not about to select or execute -/
theorem invS_frame {inp : RunInput} {s s' : Sys} (h : InvS inp s) (e1 : s'.events = s.events) (e2 : s'.stop = s.stop)
    (hr : failIn s.events → s'.rpc ≠ .sWait ∧ ∀ m, s'.rpc ≠ .sExec m) : InvS inp s' :=
  ⟨fun hf => by rw [e1] at hf; rw [e2]; exact ⟨(h.sd hf).1, hr hf⟩, by rw [e1]; exact h.ns⟩

theorem statusEv_nofail (nd : Node) (n : Name) : ¬ failIn (statusEv nd n) := by
  rintro ⟨m, k, h⟩; unfold statusEv at h; split at h <;> simp at h

theorem statusEv_nostart (nd : Node) (n : Name) : ∀ e ∈ statusEv nd n, e.isStart = false := by
  intro e h; unfold statusEv at h; split at h <;> simp at h; subst h; rfl

theorem selEvents_nostart (inp : RunInput) (n : Name) (nd : Node) (d : Sel) :
    ∀ e ∈ selEvents inp n nd d, e.isStart = false := by
  intro e h
  cases d <;> simp only [selEvents, List.mem_cons] at h <;>
    first
    | (rcases h with a | a
       · subst a; rfl
       · exact statusEv_nostart nd n e a)
    | exact statusEv_nostart nd n e h
    | cases h

theorem failNode_stop {inp : RunInput} (s : Sys) (n : Name) (nd : Node) (k : FailKind) (pre : List Ev)
    (hc : inp.continue_ = false) : (failNode inp s n nd k pre).stop = true := by
  simp [failNode, hc]

/-- after a non-`go` decision: a failure decision sets `_stop_running` -/
theorem applySel_stop_fail {inp : RunInput} (s : Sys) (n : Name) (nd : Node) (d : Sel) (hc : inp.continue_ = false)
    (hf : failIn (selEvents inp n nd d)) : (applySel inp s n nd d).stop = true := by
  cases d with
  | unmet => exact failNode_stop s n nd _ _ hc
  | depErr => exact failNode_stop s n nd _ _ hc
  | argsErr => exact failNode_stop s n nd _ _ hc
  | skipIgn =>
    obtain ⟨m, k, h⟩ := hf; simp only [selEvents, List.mem_cons] at h
    rcases h with a | a
    · cases a
    · exact absurd ⟨m, k, a⟩ (statusEv_nofail nd n)
  | utd =>
    obtain ⟨m, k, h⟩ := hf; simp only [selEvents, List.mem_cons] at h
    rcases h with a | a
    · cases a
    · exact absurd ⟨m, k, a⟩ (statusEv_nofail nd n)
  | go =>
    obtain ⟨m, k, h⟩ := hf; simp only [selEvents, List.mem_cons] at h
    rcases h with a | a
    · cases a
    · exact absurd ⟨m, k, a⟩ (statusEv_nofail nd n)
  | runFirst => exact absurd hf (statusEv_nofail nd n)
  | assertFail => obtain ⟨m, k, h⟩ := hf; cases h

theorem serialStep_invS {inp : RunInput} {s s' : Sys} {perm : List Name} (hc : inp.continue_ = false) (h : InvS inp s)
    (hs : serialStep inp s perm = some s') : InvS inp s' := by
  unfold serialStep at hs
  cases hr : s.rpc with
  | sTop node =>
    simp only [hr] at hs
    by_cases hstop : s.stop = true
    · simp only [hstop, if_true] at hs; cases hs
      exact invS_frame h rfl (by simp [hstop]) (fun _ => ⟨by simp, by simp⟩)
    · simp only [hstop] at hs
      cases hsd : send inp s node perm with
      | none => simp only [hsd] at hs; simp at hs
      | some s0 =>
        simp only [hsd] at hs; simp at hs; subst hs
        obtain ⟨o, _⟩ := send_outer hsd
        refine invS_frame h (by simpa using o.1) (by simpa using o.2.2.2.2.2.1) ?_
        intro hf; exact absurd (h.sd hf).1 hstop
  | sWait =>
    simp only [hr] at hs
    have nof : ¬ failIn s.events := fun hf => (h.sd hf).2.1 hr
    cases hsu : s.susp with
    | none =>
      simp only [hsu] at hs
      have o := dtick_outer hs
      exact invS_frame h o.1 o.2.2.2.2.2.1 (fun hf => absurd hf nof)
    | some o =>
      simp only [hsu] at hs
      cases o with
      | init => cases hs
      | node n =>
        simp only [] at hs
        cases hn : s.nodes n with
        | none => simp only [hn] at hs; cases hs; exact invS_frame h rfl rfl (fun hf => absurd hf nof)
        | some nd =>
          simp only [hn] at hs
          have key : InvS inp { applySel inp s n nd (selDecision inp n nd) with rpc := .sTop (some n) } := by
            constructor
            · intro hf
              have hf' : failIn (selEvents inp n nd (selDecision inp n nd) ++ s.events) := by
                have : (applySel inp s n nd (selDecision inp n nd)).events = _ := applySel_events inp s n nd _
                rw [← this]; exact hf
              rcases failIn_append.mp hf' with x | x
              · exact ⟨applySel_stop_fail s n nd _ hc x, by simp, by simp⟩
              · exact absurd x nof
            · show NSA (applySel inp s n nd (selDecision inp n nd)).events
              rw [applySel_events]
              exact NSA_append_nostart h.ns (selEvents_nostart inp n nd _)
          cases hd : selDecision inp n nd with
          | go =>
            simp only [hd] at hs; cases hs
            have hev : (startTask inp (applySel inp s n nd .go) n 0).events =
                (if inp.runner = .process then [Ev.start n 0] else [Ev.start n 0, Ev.execute n]) ++
                  (selEvents inp n nd .go ++ s.events) := by
              rw [startTask_events, applySel_events]
            have nof2 : ¬ failIn ((if inp.runner = .process then [Ev.start n 0] else [Ev.start n 0, Ev.execute n]) ++
                  selEvents inp n nd .go) := by
              rintro ⟨m, k, x⟩
              rcases List.mem_append.mp x with a | a
              · split at a <;> simp at a
              · simp only [selEvents, List.mem_cons] at a
                rcases a with a | a
                · cases a
                · exact statusEv_nofail nd n ⟨m, k, a⟩
            constructor
            · intro hf
              have hf' : failIn (startTask inp (applySel inp s n nd .go) n 0).events := hf
              rw [hev, ← List.append_assoc] at hf'
              rcases failIn_append.mp hf' with x | x
              · exact absurd x nof2
              · exact absurd x nof
            · show NSA (startTask inp (applySel inp s n nd .go) n 0).events
              rw [hev, ← List.append_assoc]
              exact NSA_append_nofail h.ns nof nof2
          | assertFail => simp only [hd] at hs; cases hs; exact invS_frame h rfl rfl (fun hf => absurd hf nof)
          | skipIgn => simp only [hd] at hs; cases hs; rwa [hd] at key
          | unmet => simp only [hd] at hs; cases hs; rwa [hd] at key
          | depErr => simp only [hd] at hs; cases hs; rwa [hd] at key
          | utd => simp only [hd] at hs; cases hs; rwa [hd] at key
          | runFirst => simp only [hd] at hs; cases hs; rwa [hd] at key
          | argsErr => simp only [hd] at hs; cases hs; rwa [hd] at key
      | stopIter => cases hs; exact invS_frame h rfl rfl (fun hf => absurd hf nof)
      | holdOn => cases hs; exact invS_frame h rfl rfl (fun hf => absurd hf nof)
      | cyclic n => cases hs; exact invS_frame h rfl rfl (fun hf => absurd hf nof)
      | crash => cases hs; exact invS_frame h rfl rfl (fun hf => absurd hf nof)
  | sExec n =>
    simp only [hr] at hs
    have nof : ¬ failIn s.events := fun hf => (h.sd hf).2.2 n hr
    cases hn : s.nodes n with
    | none => simp only [hn] at hs; cases hs; exact invS_frame h rfl rfl (fun hf => absurd hf nof)
    | some nd =>
      simp only [hn] at hs; cases hs
      have hev : (processResult inp { s with rpc := .sExec n, events := Ev.fin n 0 :: s.events } n nd).events =
          resEvents n (inp.outcome n) ++ (Ev.fin n 0 :: s.events) := processResult_events _ _ _ _
      constructor
      · intro hf
        refine ⟨?_, by simp, by simp⟩
        show (processResult inp { s with rpc := .sExec n, events := Ev.fin n 0 :: s.events } n nd).stop = true
        have hf' : failIn (processResult inp { s with rpc := .sExec n, events := Ev.fin n 0 :: s.events } n nd).events := hf
        rw [hev] at hf'
        unfold processResult
        cases ho : inp.outcome n with
        | ok =>
          rw [ho] at hf'
          obtain ⟨m, k, x⟩ := hf'
          simp only [resEvents, List.cons_append, List.nil_append, List.mem_cons] at x
          rcases x with a | a | a
          · cases a
          · cases a
          · exact absurd ⟨m, k, a⟩ nof
        | failed => exact failNode_stop _ n nd _ _ hc
        | error => exact failNode_stop _ n nd _ _ hc
        | saveErr => exact failNode_stop _ n nd _ _ hc
      · show NSA (processResult inp { s with rpc := .sExec n, events := Ev.fin n 0 :: s.events } n nd).events
        rw [hev]
        have : resEvents n (inp.outcome n) ++ (Ev.fin n 0 :: s.events) =
            (resEvents n (inp.outcome n) ++ [Ev.fin n 0]) ++ s.events := by simp
        rw [this]
        refine NSA_append_nostart h.ns ?_
        intro e he
        rcases List.mem_append.mp he with a | a
        · cases ho : inp.outcome n <;> rw [ho] at a <;> simp [resEvents] at a <;> (subst a; rfl)
        · simp at a; subst a; rfl
  | fin =>
    simp only [hr] at hs; cases hs
    constructor
    · intro hf
      have hf' : failIn ((Ev.complete :: s.tdown.map Ev.teardown) ++ s.events) := by simpa [finishRun] using hf
      rcases failIn_append.mp hf' with ⟨m, k, x⟩ | x
      · simp only [List.mem_cons, List.mem_map] at x
        rcases x with a | ⟨_, _, a⟩ <;> cases a
      · exact ⟨(h.sd x).1, by simp [finishRun], by simp [finishRun]⟩
    · show NSA (finishRun s).events
      have : (finishRun s).events = (Ev.complete :: s.tdown.map Ev.teardown) ++ s.events := by simp [finishRun]
      rw [this]
      refine NSA_append_nostart h.ns ?_
      intro e he
      simp only [List.mem_cons, List.mem_map] at he
      rcases he with rfl | ⟨a, _, rfl⟩ <;> rfl
  | gEntry a b => simp only [hr] at hs; cases hs
  | gLoop a b => simp only [hr] at hs; cases hs
  | gWait a => simp only [hr] at hs; cases hs
  | gRet a b => simp only [hr] at hs; cases hs
  | pTop => simp only [hr] at hs; cases hs
  | pJoin => simp only [hr] at hs; cases hs
  | halted => simp only [hr] at hs; cases hs

theorem reach_invS {inp : RunInput} {s : Sys} (hc : inp.continue_ = false) (h : Reach inp s) : InvS inp s := by
  induction h with
  | init => exact ⟨fun ⟨n, k, x⟩ => by simp [init] at x, by simp [init, NSA]⟩
  | @next s0 s1 c _ hs ih =>
    cases c with
    | main perm => exact serialStep_invS hc ih hs
    | take w => cases hs
    | done w => cases hs

/-- `NSA` in split form -/
theorem NSA_split {l : List Ev} (h : NSA l) {post pre : List Ev} {d : Name} {k : FailKind}
    (he : l = post ++ Ev.failure d k :: pre) : ∀ e ∈ post, e.isStart = false := by
  induction post generalizing l with
  | nil => intro e he'; cases he'
  | cons p ps ih =>
    subst he
    intro e he'
    rcases List.mem_cons.mp he' with a | a
    · subst a
      cases hp : e.isStart with
      | false => rfl
      | true => exact absurd ⟨d, k, by simp⟩ (h.1 hp)
    · exact ih h.2 rfl e a

end DoitModel.Run
