import DoitModel.Proofs.RunDeliver
/-! # Values of failed calc tasks are delivered: when a calc_dep of a node has been processed, has failed and was
    started (an action ran), what it delivers (`calcResFail`) is part of the node's dynamic dependency lists.
    Mirror of the `Delivered` / `DCn` / `AllDC` development of `RunDeliver`, generic in a predicate `P` on the
    failed calc tasks for which a start event is known (`StartB`). -/
namespace DoitModel.Run

/-- everything the failed calc task `c` delivers is among the dynamic deps of `nd` -/
def DeliveredF (inp : RunInput) (nd : Node) (c : Name) : Prop :=
  (∀ x ∈ (inp.calcResFail c).tasks, x ∈ nd.dynTask) ∧ (∀ x ∈ (inp.calcResFail c).files, x ∈ nd.dynTask) ∧
  (∀ x ∈ (inp.calcResFail c).calcs, x ∈ nd.dynCalc)

def DCnF (inp : RunInput) (P : Name → Prop) (s : Sys) (nd : Node) : Prop :=
  ∀ c ∈ nd.dynCalc, Processed nd c → stOf s c = .fail → P c → DeliveredF inp nd c

def AllDCF (inp : RunInput) (P : Name → Prop) (s : Sys) : Prop := ∀ n nd, s.nodes n = some nd → DCnF inp P s nd

/-- a failed task satisfying `P` has a start event -/
def StartB (P : Name → Prop) (s : Sys) : Prop := ∀ c, stOf s c = .fail → P c → started s c = true

theorem addDeps_deliveredF (inp : RunInput) (nd : Node) (p : Name) :
    DeliveredF inp (nd.addDeps (inp.calcResFail p)) p := by
  refine ⟨?_, ?_, ?_⟩
  · intro x hx; simp only [Node.addDeps, newTaskDeps, List.mem_append]; exact Or.inr (Or.inl hx)
  · intro x hx
    simp only [Node.addDeps, newTaskDeps, List.mem_append]
    rcases implicitNew_covers (acc := nd.dynTask ++ (inp.calcResFail p).tasks) hx with a | a
    · rcases List.mem_append.mp a with b | b
      · exact Or.inl b
      · exact Or.inr (Or.inl b)
    · exact Or.inr (Or.inr a)
  · intro x hx
    simp only [Node.addDeps, newCalcDeps, List.mem_append, List.mem_filter]
    by_cases e : x ∈ nd.dynCalc
    · exact Or.inl e
    · exact Or.inr ⟨mem_dedup.mpr hx, by simpa using e⟩

theorem DeliveredF.mono {inp : RunInput} {a b : Node} {c : Name} (h : DeliveredF inp a c)
    (h1 : ∀ x, x ∈ a.dynTask → x ∈ b.dynTask) (h2 : ∀ x, x ∈ a.dynCalc → x ∈ b.dynCalc) : DeliveredF inp b c :=
  ⟨fun x hx => h1 x (h.1 x hx), fun x hx => h1 x (h.2.1 x hx), fun x hx => h2 x (h.2.2 x hx)⟩

theorem deliverF_delivered {inp : RunInput} (ex : Bool) (pst : RS) (p : Name) (nd : Node) (h1 : pst = .fail)
    (h2 : ex = true) : DeliveredF inp (deliverF inp ex pst p nd) p := by
  unfold deliverF; simp only [h1, h2, and_self, if_true]; exact addDeps_deliveredF inp nd p

/-- `DCnF` survives growth of the lists at the same position -/
theorem DCnF.grow {inp : RunInput} {P : Name → Prop} {s : Sys} {a b : Node} (h : DCnF inp P s a) (g : Grow a b) :
    DCnF inp P s b := by
  intro c hc hp hg hP
  rcases g.newCalc c hc with x | x
  · have hpa : Processed a c := by
      refine ⟨fun e => hp.1 (g.pendCalc c e), ?_, ?_⟩
      · rw [← g.pc, ← g.snapCalc]; exact hp.2.1
      · rw [← g.waitRunCalc]; exact hp.2.2
    exact (h c x hpa hg hP).mono g.dynTask g.dynCalc
  · exact absurd x hp.1

/-- the deps absorbed by `_node_add_wait_run(…, calc=True)` that are finished, failed and started are delivered -/
theorem absorbDone_deliveredF {inp : RunInput} {s : Sys} : ∀ (ds : List Name) (nd : Node),
    ∀ d ∈ ds, unfinished s d = false → stOf s d = .fail → started s d = true →
      DeliveredF inp (absorbDone inp s true ds nd) d := by
  intro ds
  induction ds with
  | nil => intro nd d hd; cases hd
  | cons a t ih =>
    intro nd d hd hu hg hst
    simp only [absorbDone]
    by_cases hua : unfinished s a = true
    · simp only [hua, if_true]
      rcases List.mem_cons.mp hd with rfl | hd'
      · rw [hua] at hu; cases hu
      · exact ih nd d hd' hu hg hst
    · have hua' : unfinished s a = false := by simpa using hua
      simp only [hua', Bool.false_eq_true, if_false, if_true]
      rcases List.mem_cons.mp hd with rfl | hd'
      · have g := (absorbDone_spec inp s true t (deliverF inp (started s d) (stOf s d) d
            (deliver inp (stOf s d) d (parentStatus (stOf s d) d nd)))).1
        exact (deliverF_delivered (started s d) (stOf s d) d _ hg hst).mono g.dynTask g.dynCalc
      · exact ih _ d hd' hu hg hst

/-- `calcIter []`: the calc_dep snapshot is absorbed -/
theorem waitNode_calc_dcnF {inp : RunInput} {P : Name → Prop} {s : Sys} {nd : Node} (pc' : PC) (h : DCnF inp P s nd)
    (hB : StartB P s) (_hpc : nd.pc = .calcIter []) : DCnF inp P s (waitNode inp s nd nd.snapCalc true pc') := by
  have f := waitNode_facts inp s nd nd.snapCalc true pc'
  have dynT : (waitNode inp s nd nd.snapCalc true pc').dynTask = (absorbDone inp s true nd.snapCalc nd).dynTask := rfl
  have dynC : (waitNode inp s nd nd.snapCalc true pc').dynCalc = (absorbDone inp s true nd.snapCalc nd).dynCalc := rfl
  intro c hc hp hg hP
  by_cases hs : c ∈ nd.snapCalc
  · -- in the snapshot: not awaited afterwards, hence finished; failed and started, hence delivered
    have hu : unfinished s c = false := by
      by_cases hu : unfinished s c = true
      · exfalso; apply hp.2.2
        simp [waitNode, addWaits, List.mem_filter, hs, hu]
      · simpa using hu
    have := absorbDone_deliveredF (inp := inp) (s := s) nd.snapCalc nd c hs hu hg (hB c hg hP)
    exact ⟨by rw [dynT]; exact this.1, by rw [dynT]; exact this.2.1, by rw [dynC]; exact this.2.2⟩
  · rcases f.newCalc c hc with x | x
    · have hpa : Processed nd c := by
        refine ⟨fun e => hp.1 (f.pendCalc c e), fun e => hs e.2, fun e => hp.2.2 (f.wc c e)⟩
      exact (h c x hpa hg hP).mono f.dynTask f.dynCalc
    · exact absurd x hp.1

/-- `_node_add_wait_run` for task_deps / setup-tasks does not touch the calc bookkeeping -/
theorem waitNode_plain_dcnF {inp : RunInput} {P : Name → Prop} {s : Sys} {nd : Node} (ds : List Name) (pc' : PC)
    (h : DCnF inp P s nd) (hc1 : nd.pc.iterC = false) (_hc2 : pc'.iterC = false) :
    DCnF inp P s (waitNode inp s nd ds false pc') := by
  have f := waitNode_facts inp s nd ds false pc'
  obtain ⟨⟨e1, e2, e3, e4⟩, e5⟩ := f.same rfl
  intro c hc hp hg hP
  rw [e2] at hc
  have hpa : Processed nd c := by
    refine ⟨by rw [← e4]; exact hp.1, (fun (e : nd.pc.iterC = true ∧ c ∈ nd.snapCalc) => by rw [hc1] at e; cases e.1), by rw [← e5]; exact hp.2.2⟩
  have := h c hc hpa hg hP
  exact ⟨by rw [e1]; exact this.1, by rw [e1]; exact this.2.1, by rw [e2]; exact this.2.2⟩

theorem wokenF_dcnF {inp : RunInput} {P : Name → Prop} {s : Sys} {nd : Node} (pst : RS) (p : Name)
    (h : DCnF inp P s nd) (hp : stOf s p = pst) (hB : pst = .fail → P p → started s p = true) :
    DCnF inp P s (wokenF inp s pst p nd) := by
  have hu := wokenF_upd inp s pst p nd
  intro c hc hpr hg hP
  by_cases e : c = p ∧ p ∈ nd.waitRunCalc
  · obtain ⟨rfl, hin⟩ := e
    -- the calc_dep that just finished: delivered by `_update_waiting`
    have hfail : pst = .fail := by rw [← hp]; exact hg
    unfold wokenF; simp only [hin, if_true]
    exact deliverF_delivered (started s c) pst c _ hfail (hB hfail hP)
  · rcases hu.newCalc c hc with x | x
    · have hpa : Processed nd c := by
        refine ⟨fun y => hpr.1 (hu.pendCalc c y), by rw [← hu.pc, ← hu.snapCalc]; exact hpr.2.1, ?_⟩
        intro y
        rcases hu.wc c y with z | ⟨z, _⟩
        · exact hpr.2.2 z
        · exact e ⟨z, z ▸ y⟩
      exact (h c x hpa hg hP).mono hu.dynTask hu.dynCalc
    · exact absurd x hpr.1

/-- only the position changes, between two positions outside the calc_dep loop -/
theorem DCnF.setPc {inp : RunInput} {P : Name → Prop} {s : Sys} {nd : Node} (pc' : PC) (h : DCnF inp P s nd)
    (h1 : nd.pc.iterC = false) : DCnF inp P s { nd with pc := pc' } := by
  intro c hc hp hg hP
  exact h c hc ⟨hp.1, (fun (e : nd.pc.iterC = true ∧ c ∈ nd.snapCalc) => by rw [h1] at e; cases e.1), hp.2.2⟩ hg hP

theorem DCnF.stable {inp : RunInput} {P : Name → Prop} {s s' : Sys} {n : Name} {nd : Node} (h : DCnF inp P s nd)
    (hok : NodeOK inp s n nd) (hst : Stable s s') : DCnF inp P s' nd := by
  intro c hc hp hg hP
  -- a processed calc_dep is finished, so its status is the same in both states
  rcases hok.kc c hc with a | a | a | a
  · exact absurd a hp.1
  · exact absurd a hp.2.1
  · exact absurd a hp.2.2
  · have := hst c a.1
    exact h c hc hp (by rw [← this]; exact hg) hP

theorem mkNode_dcnF (inp : RunInput) (P : Name → Prop) (s : Sys) (t : Name) (anc : List Name) :
    DCnF inp P s (mkNode inp t anc) := by
  intro c hc hp _ _; exact absurd hc hp.1


/-! ### state level -/

theorem DCnF.congr {inp : RunInput} {P : Name → Prop} {s s' : Sys} {nd : Node} (h : DCnF inp P s nd)
    (hst : ∀ x, stOf s' x = stOf s x) : DCnF inp P s' nd := by
  intro c hc hp hg hP; rw [hst] at hg; exact h c hc hp hg hP

theorem allDCF_setNode {inp : RunInput} {P : Name → Prop} {s : Sys} {n : Name} {x : Node} (h : AllDCF inp P s)
    (hx : DCnF inp P s x) (hst : ∀ d, stOf (setNode s n x) d = stOf s d) : AllDCF inp P (setNode s n x) := by
  intro k y hk
  simp only [setNode_nodes] at hk
  split at hk
  · cases hk; exact hx.congr hst
  · exact (h k y hk).congr hst

theorem allDCF_congr {inp : RunInput} {P : Name → Prop} {s s' : Sys} (h : AllDCF inp P s) (e : s'.nodes = s.nodes) :
    AllDCF inp P s' := by
  intro k y hk; rw [e] at hk; exact (h k y hk).congr (stOf_congr e)

theorem dcnF_addWaiting {inp : RunInput} {P : Name → Prop} {s : Sys} {nd : Node} (m : Name) (h : DCnF inp P s nd) :
    DCnF inp P s (nd.addWaiting m) := by
  unfold Node.addWaiting; split
  · exact h
  · exact h

theorem allDCF_registerWaiting {inp : RunInput} {P : Name → Prop} {s : Sys} (n : Name) (wf : List Name)
    (h : AllDCF inp P s) : AllDCF inp P (registerWaiting s n wf) := by
  intro k y hk
  rw [registerWaiting_nodes] at hk
  cases hx : s.nodes k with
  | none => rw [hx] at hk; cases hk
  | some x =>
    rw [hx] at hk
    by_cases e : k ∈ wf
    · simp only [e, if_true, Option.some.injEq] at hk; subst hk
      exact (dcnF_addWaiting n (h k x hx)).congr (stOf_registerWaiting s n wf)
    · simp only [e, if_false, Option.some.injEq] at hk; subst hk
      exact (h k x hx).congr (stOf_registerWaiting s n wf)

theorem genStep_allDCF {inp : RunInput} {P : Name → Prop} {s : Sys} {n : Name} {nd : Node} (d : Name) (pc' : PC)
    (h : AllDCF inp P s) (hn : s.nodes n = some nd) (hx : DCnF inp P s { nd with pc := pc' }) :
    AllDCF inp P (genStep inp s n nd d pc') := by
  have hst := fun x => genStep_stOf (inp := inp) d pc' hn x
  intro k y hk
  have key : DCnF inp P s y := by
    unfold genStep at hk
    cases hd : s.nodes d with
    | none =>
      rw [hd] at hk; simp only [] at hk
      by_cases e1 : k = n
      · subst e1; simp [setNode] at hk; subst hk; exact hx
      · by_cases e2 : k = d
        · subst e2; simp [setNode, e1] at hk; subst hk; exact mkNode_dcnF inp P s _ _
        · exact h k y (by simpa [setNode, e1, e2] using hk)
    | some z =>
      rw [hd] at hk; simp only [] at hk
      split at hk
      · exact h k y hk
      · by_cases e1 : k = n
        · subst e1; simp [setNode] at hk; subst hk; exact hx
        · exact h k y (by simpa [setNode, e1] using hk)
  exact key.congr hst

theorem addWaitRun_allDCF {inp : RunInput} {P : Name → Prop} {s : Sys} {n : Name} {nd : Node} (ds : List Name)
    (c : Bool) (pc' : PC) (h : AllDCF inp P s) (hn : s.nodes n = some nd)
    (hx : DCnF inp P s (waitNode inp s nd ds c pc')) : AllDCF inp P (addWaitRun inp s n nd ds c pc') := by
  have e0 : addWaitRun inp s n nd ds c pc' =
      registerWaiting (setNode s n (waitNode inp s nd ds c pc')) n (ds.filter (unfinished s)) := rfl
  rw [e0]
  apply allDCF_registerWaiting
  exact allDCF_setNode h hx (stOf_setNode_same hn (waitNode_facts inp s nd ds c pc').status)

theorem nodeStep_allDCF {inp : RunInput} {P : Name → Prop} {s s' : Sys} {n : Name} {nd : Node} {perm : List Name}
    (h : AllDCF inp P s) (hB : StartB P s) (hn : s.nodes n = some nd) (hs : nodeStep inp s n nd perm = some s') :
    AllDCF inp P s' := by
  have hD := h n nd hn
  have same : ∀ x : Node, x.status = nd.status → ∀ d, stOf (setNode s n x) d = stOf s d :=
    fun x hx => stOf_setNode_same hn hx
  unfold nodeStep at hs
  cases hpc : nd.pc with
  | loopTop =>
    simp only [hpc] at hs; split at hs
    · rename_i hp; cases hs
      refine allDCF_setNode h ?_ (same _ rfl)
      intro c hc hpr hg hP
      have hnot : c ∉ perm := fun e => hpr.2.1 ⟨rfl, e⟩
      exact h n nd hn c hc ⟨fun e => hnot (hp.mem_iff.mpr e), (fun (e : nd.pc.iterC = true ∧ c ∈ nd.snapCalc) => by rw [hpc] at e; cases e.1), hpr.2.2⟩ hg hP
    · cases hs
  | calcIter todo =>
    simp only [hpc] at hs
    cases todo with
    | cons d ds =>
      cases hs
      refine genStep_allDCF d _ h hn ?_
      intro c hc hpr hg hP
      exact hD c hc ⟨hpr.1, fun e => hpr.2.1 ⟨rfl, e.2⟩, hpr.2.2⟩ hg hP
    | nil => cases hs; exact addWaitRun_allDCF _ _ _ h hn (waitNode_calc_dcnF _ hD hB hpc)
  | taskIter todo =>
    simp only [hpc] at hs
    cases todo with
    | cons d ds => cases hs; exact genStep_allDCF d _ h hn (hD.setPc _ (by rw [hpc]; rfl))
    | nil => cases hs; exact addWaitRun_allDCF _ _ _ h hn (waitNode_plain_dcnF _ _ hD (by rw [hpc]; rfl) rfl)
  | afterDeps =>
    simp only [hpc] at hs
    split at hs
    · cases hs; exact allDCF_setNode h (hD.setPc _ (by rw [hpc]; rfl)) (same _ rfl)
    · split at hs
      · cases hs; exact allDCF_congr (allDCF_setNode h (hD.setPc .loopTop (by rw [hpc]; rfl)) (same _ rfl)) rfl
      · cases hs; exact allDCF_setNode h (hD.setPc _ (by rw [hpc]; rfl)) (same _ rfl)
  | self1 =>
    simp only [hpc] at hs; cases hs
    exact allDCF_congr (allDCF_setNode h (hD.setPc .afterSelf1 (by rw [hpc]; rfl)) (same _ rfl)) rfl
  | afterSelf1 =>
    simp only [hpc] at hs
    split at hs
    · cases hs; exact allDCF_setNode h (hD.setPc _ (by rw [hpc]; rfl)) (same _ rfl)
    · split at hs
      · cases hs
        have := hD.setPc .setupDecide (by rw [hpc]; rfl)
        exact allDCF_congr (allDCF_setNode (x := { nd with pc := .setupDecide, waitSelect := true }) h this (same _ rfl)) rfl
      · cases hs; exact allDCF_setNode h (hD.setPc _ (by rw [hpc]; rfl)) (same _ rfl)
  | setupDecide =>
    simp only [hpc] at hs
    split at hs <;> (cases hs; exact allDCF_setNode h (hD.setPc _ (by rw [hpc]; rfl)) (same _ rfl))
  | setupIter todo =>
    simp only [hpc] at hs
    cases todo with
    | cons d ds => cases hs; exact genStep_allDCF d _ h hn (hD.setPc _ (by rw [hpc]; rfl))
    | nil => cases hs; exact addWaitRun_allDCF _ _ _ h hn (waitNode_plain_dcnF _ _ hD (by rw [hpc]; rfl) rfl)
  | afterSetup =>
    simp only [hpc] at hs
    split at hs
    · cases hs; exact allDCF_congr (allDCF_setNode h (hD.setPc .self2 (by rw [hpc]; rfl)) (same _ rfl)) rfl
    · cases hs; exact allDCF_setNode h (hD.setPc _ (by rw [hpc]; rfl)) (same _ rfl)
  | self2 =>
    simp only [hpc] at hs; cases hs
    exact allDCF_congr (allDCF_setNode h (hD.setPc .afterSelf2 (by rw [hpc]; rfl)) (same _ rfl)) rfl
  | afterSelf2 => simp only [hpc] at hs; cases hs; exact allDCF_setNode h (hD.setPc _ (by rw [hpc]; rfl)) (same _ rfl)
  | done => simp only [hpc] at hs; cases hs; exact allDCF_congr h rfl

theorem dtick_allDCF {inp : RunInput} {P : Name → Prop} {s s' : Sys} {perm : List Name} (h : AllDCF inp P s)
    (hB : StartB P s) (hs : dtick inp s perm = some s') : AllDCF inp P s' := by
  unfold dtick at hs
  cases hc : s.cur with
  | some n =>
    simp only [hc] at hs
    cases hn : s.nodes n with
    | none => simp only [hn] at hs; cases hs; exact allDCF_congr h rfl
    | some nd => simp only [hn] at hs; exact nodeStep_allDCF h hB hn hs
  | none =>
    simp only [hc] at hs
    split at hs
    · cases hs; exact allDCF_congr h rfl
    · split at hs
      · split at hs
        · rename_i t ts _ _ hnt
          cases hs
          refine allDCF_congr (allDCF_setNode h (mkNode_dcnF inp P s t [t]) ?_) rfl
          intro d; rw [stOf_setNode]; split
          · rename_i e; subst e; simp [stOf, hnt, mkNode]
          · rfl
        · cases hs; exact allDCF_congr h rfl
      · split at hs
        · split at hs <;> (cases hs; exact allDCF_congr h rfl)
        · cases hs; exact allDCF_congr h rfl

/-- `started` only reads the event list -/
theorem started_congr {s s' : Sys} (e : s'.events = s.events) (p : Name) : started s' p = started s p := by
  unfold started; rw [e]

theorem wakeOne_events (inp : RunInput) (s : Sys) (pst : RS) (p w : Name) (nd : Node) :
    (wakeOne inp s pst p w nd).events = s.events := by
  unfold wakeOne; split <;> rfl

theorem sendHead_events (s : Sys) (p : Name) (nd : Node) : (sendHead s p nd).events = s.events := by
  unfold sendHead; split <;> rfl

theorem wakeOne_allDCF {inp : RunInput} {P : Name → Prop} {s : Sys} {pst : RS} {p w : Name} {nd : Node}
    (h : AllDCF inp P s) (hw : s.nodes w = some nd) (hp : stOf s p = pst)
    (hB : pst = .fail → P p → started s p = true) : AllDCF inp P (wakeOne inp s pst p w nd) := by
  have hu := wokenF_upd inp s pst p nd
  have base := allDCF_setNode h (wokenF_dcnF pst p (h w nd hw) hp hB) (stOf_setNode_same hw hu.status)
  unfold wakeOne; split
  · exact allDCF_congr base rfl
  · exact base

theorem updateWaiting_allDCF {inp : RunInput} {P : Name → Prop} {pst : RS} {p : Name} :
    ∀ (perm : List Name) (s s' : Sys), AllDCF inp P s → stOf s p = pst →
      (pst = .fail → P p → started s p = true) → updateWaiting inp pst p s perm = some s' → AllDCF inp P s' := by
  intro perm
  induction perm with
  | nil => intro s s' h _ _ hs; simp only [updateWaiting] at hs; cases hs; exact h
  | cons w ws ih =>
    intro s s' h hp hB hs
    simp only [updateWaiting] at hs
    cases hw : s.nodes w with
    | none => simp only [hw] at hs; exact ih s s' h hp hB hs
    | some nd =>
      simp only [hw] at hs
      split at hs
      · cases hs
      · refine ih _ s' (wakeOne_allDCF h hw hp hB) ?_ ?_ hs
        · have hu := wokenF_upd inp s pst p nd
          have e : ∀ x, stOf (wakeOne inp s pst p w nd) x = stOf s x := by
            intro x
            have : (wakeOne inp s pst p w nd).nodes = (setNode s w (wokenF inp s pst p nd)).nodes := by
              unfold wakeOne; split <;> rfl
            rw [stOf_congr this]; exact stOf_setNode_same hw hu.status x
          rw [e]; exact hp
        · intro a b; rw [started_congr (wakeOne_events inp s pst p w nd)]; exact hB a b

theorem sendHead_allDCF {inp : RunInput} {P : Name → Prop} {s : Sys} {p : Name} {nd : Node} (h : AllDCF inp P s)
    (hn : s.nodes p = some nd) :
    AllDCF inp P (sendHead s p nd) ∧ ∀ x, stOf (sendHead s p nd) x = stOf s x := by
  unfold sendHead; split
  · have hst := stOf_setNode_same (x := { nd with waitSelect := false }) hn rfl
    have hx : DCnF inp P s { nd with waitSelect := false } := h p nd hn
    exact ⟨allDCF_congr (allDCF_setNode (x := { nd with waitSelect := false }) h hx hst) rfl, hst⟩
  · exact ⟨allDCF_congr h rfl, fun _ => rfl⟩

theorem send_allDCF {inp : RunInput} {P : Name → Prop} {s s' : Sys} {processed : Option Name} {perm : List Name}
    (h : AllDCF inp P s) (hB : StartB P s) (hs : send inp s processed perm = some s') : AllDCF inp P s' := by
  unfold send at hs
  cases processed with
  | none => cases hs; exact allDCF_congr h rfl
  | some p =>
    simp only [] at hs
    cases hn : s.nodes p with
    | none => simp only [hn] at hs; cases hs; exact allDCF_congr h rfl
    | some nd =>
      simp only [hn] at hs
      obtain ⟨h1, e1⟩ := sendHead_allDCF h hn
      split at hs
      · cases hs; exact allDCF_congr h rfl
      · split at hs
        · cases hs; exact allDCF_congr h1 rfl
        · split at hs
          · cases hu : updateWaiting inp nd.status p (sendHead s p nd) perm with
            | none => simp only [hu] at hs; cases hs; exact allDCF_congr h1 rfl
            | some s2 =>
              simp only [hu] at hs; cases hs
              have hst : stOf s p = nd.status := by simp [stOf, hn]
              have hp : stOf (sendHead s p nd) p = nd.status := by rw [e1]; exact hst
              have hB' : nd.status = .fail → P p → started (sendHead s p nd) p = true := by
                intro a b
                rw [started_congr (sendHead_events s p nd)]
                exact hB p (by rw [hst]; exact a) b
              exact allDCF_congr (updateWaiting_allDCF perm _ s2 h1 hp hB' hu) rfl
          · cases hs

/-- the runner gives node `n` (unfinished so far) the status `st'` -/
theorem allDCF_status {inp : RunInput} {P : Name → Prop} {s s' : Sys} {n : Name} {nd : Node} (h : AllDCF inp P s)
    (h1 : Inv1 inp s) (hn : s.nodes n = some nd) (hu : nd.status.finished = false) (st' : RS)
    (e1 : s'.nodes = (setNode s n { nd with status := st' }).nodes) : AllDCF inp P s' := by
  have hstb : Stable s s' := by
    intro d hd
    rw [stOf_congr e1, stOf_setNode]; split
    · rename_i e; subst e; simp [stOf, hn, hu] at hd
    · rfl
  intro k y hk
  rw [e1] at hk
  by_cases e : k = n
  · subst e
    simp [setNode] at hk; subst hk
    intro c hc hp hg hP
    -- the node itself: same lists, only the status changed
    have hok := h1.node k nd hn
    rcases hok.kc c hc with a | a | a | a
    · exact absurd a hp.1
    · exact absurd a hp.2.1
    · exact absurd a hp.2.2
    · have := hstb c a.1
      exact h k nd hn c hc hp (by rw [← this]; exact hg) hP
  · have hk' : s.nodes k = some y := by simpa [setNode, e] using hk
    exact (h k y hk').stable (h1.node k y hk') hstb

theorem init_allDCF (inp : RunInput) (P : Name → Prop) : AllDCF inp P (init inp) := by
  intro n nd hn; simp [init] at hn

end DoitModel.Run
