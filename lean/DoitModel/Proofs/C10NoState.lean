import DoitModel.Proofs.C10
/-! # C10 helper: a record holds per-file state only for files that were a file_dep of the task at some point -/
namespace DoitModel.Inputs
open DoitModel.Status

/-- `E t p` over-approximates "p was a file_dep of t"; `Within E s`: definitions and records stay inside it -/
structure Within (E : Name → Path → Prop) (s : St) : Prop where
  defs : ∀ t p, p ∈ (s.defs t).deps → E t p
  rcd : ∀ t p, (s.rcd t).fstate p ≠ none → E t p

theorem within_init (E : Name → Path → Prop) : Within E St.init :=
  ⟨by intro t p h; simp [St.init, TaskDef.empty] at h, by intro t p h; simp [St.init, Rcd.empty] at h⟩

theorem within_fs {E : Name → Path → Prop} {s : St} (h : Within E s) (fs : FS) (clock : Nat) :
    Within E { s with fs := fs, clock := clock } := ⟨h.defs, h.rcd⟩

theorem within_crashed {E : Name → Path → Prop} {s : St} (h : Within E s) : Within E { s with crashed := true } :=
  ⟨h.defs, h.rcd⟩

theorem within_erase {E : Name → Path → Prop} {s : St} (h : Within E s) (t : Name) : Within E (erase s t) := by
  refine ⟨h.defs, ?_⟩
  intro k p hk
  simp only [erase] at hk
  by_cases hkt : k = t
  · simp [hkt, Rcd.empty] at hk
  · simp only [hkt, if_false] at hk; exact h.rcd k p hk

theorem within_writeFile {E : Name → Path → Prop} {s : St} (h : Within E s) (p sz c) : Within E (writeFile s p sz c) :=
  ⟨h.defs, h.rcd⟩

theorem within_applyWrites {E : Name → Path → Prop} {s : St} (h : Within E s) (ws : List (Path × Nat × Nat)) :
    Within E (applyWrites s ws) := by
  induction ws generalizing s with
  | nil => exact h
  | cons w rest ih =>
    obtain ⟨p, sz, c⟩ := w
    exact ih (within_writeFile h p sz c)

theorem within_peek {E : Name → Path → Prop} {s : St} (h : Within E s) (t : Name) : Within E (peek s t) := by
  unfold peek
  split
  · exact within_erase h t
  · exact h

/-- what `save_success` leaves in a record: state for the saved dependencies, everything else as before -/
theorem save_fstate {c : Checker} {deps : List Path} {r r' : Rcd} {fs : FS} {vals : Values} {res : Option Res}
    (hs : saveSuccess c deps r fs vals res = .ok r') (p : Path) (hp : r'.fstate p ≠ none) :
    p ∈ deps ∨ r.fstate p ≠ none := by
  unfold saveSuccess at hs
  split at hs
  · simp at hs
  · split at hs
    · simp at hs
    · simp only [SaveOut.ok.injEq] at hs
      subst hs
      simp only at hp
      by_cases hd : p ∈ deps
      · exact Or.inl hd
      · simp only [hd, if_false] at hp; exact Or.inr hp

theorem within_commit {E : Name → Path → Prop} {s : St} (h : Within E s) (t : Name) (r : Rcd) (e : Exec)
    (hr : ∀ p, r.fstate p ≠ none → E t p) : Within E (commit s t r e) := by
  refine ⟨h.defs, ?_⟩
  intro k p hk
  simp only [commit] at hk
  by_cases hkt : k = t
  · subst hkt; simp only [if_true] at hk; exact hr p hk
  · simp only [hkt, if_false] at hk; exact h.rcd k p hk

theorem within_finish {E : Name → Path → Prop} {s : St} (h : Within E s) (t : Name) (ok : Bool) (res : Option Res) :
    Within E (finish s t ok res) := by
  unfold finish
  cases ok with
  | false => simpa using within_erase h t
  | true =>
    simp only [if_true]
    cases hs : saveSuccess s.checker (s.defs t).deps (s.rcd t) s.fs (newValues (s.defs t) s.resOf) res with
    | ok r =>
      apply within_commit h
      intro p hp
      rcases save_fstate hs p hp with hd | hd
      · exact h.defs t p hd
      · exact h.rcd t p hd
    | missing => exact within_erase h t
    | crash => exact within_erase h t

theorem within_runTask {E : Name → Path → Prop} {s : St} (h : Within E s) (t : Name) (ok always : Bool)
    (ws : List (Path × Nat × Nat)) (res : Option Res) : Within E (runTask true s t ok always ws res) := by
  unfold runTask
  split
  · exact h
  · cases hst : s.status true t with
    | crash => exact within_crashed h
    | error => exact within_erase h t
    | upToDate =>
      simp only
      split
      · exact within_finish (within_applyWrites h ws) t ok res
      · exact h
    | run => exact within_finish (within_applyWrites (within_peek h t) ws) t ok res

theorem within_resetDep {E : Name → Path → Prop} {s : St} (h : Within E s) (t : Name) : Within E (resetDep true s t) := by
  unfold resetDep
  split
  · exact h
  · cases hst : s.status true t with
    | crash => exact within_crashed h
    | error => exact h
    | upToDate => exact h
    | run =>
      simp only
      cases hs : saveSuccess s.checker (s.defs t).deps ((peek s t).rcd t) s.fs (s.rcd t).getValues (s.rcd t).result with
      | ok r =>
        apply within_commit h
        intro p hp
        rcases save_fstate hs p hp with hd | hd
        · exact h.defs t p hd
        · exact (within_peek h t).rcd t p hd
      | missing => exact h
      | crash => exact within_crashed h

/-- the operation introduces only dependencies that `E` allows -/
def IOp.respects (E : Name → Path → Prop) : IOp → Prop
  | .base (.redefine t d) => ∀ p, p ∈ d.deps → E t p
  | _ => True

theorem within_step {E : Name → Path → Prop} {s : St} (h : Within E s) (o : Op) (ho : IOp.respects E (.base o)) :
    Within E (step true s o) := by
  unfold step
  split
  · exact h
  · cases o with
    | edit p sz c => exact within_writeFile h p sz c
    | touch p => exact ⟨h.defs, h.rcd⟩
    | delete p => exact ⟨h.defs, h.rcd⟩
    | editKeep p sz c => exact ⟨h.defs, h.rcd⟩
    | redefine t d =>
      refine ⟨?_, h.rcd⟩
      intro k p hk
      simp only at hk
      by_cases hkt : k = t
      · subst hkt; simp only [if_true] at hk; exact ho p hk
      · simp only [hkt, if_false] at hk; exact h.defs k p hk
    | run t ok always ws res => exact within_runTask h t ok always ws res
    | unmet t => exact within_erase h t
    | forget t => exact within_erase h t
    | ignore t =>
      refine ⟨h.defs, ?_⟩
      intro k p hk
      simp only at hk
      by_cases hkt : k = t
      · subst hkt; simp only [if_true] at hk; exact h.rcd k p hk
      · simp only [hkt, if_false] at hk; exact h.rcd k p hk
    | resetDep t =>
      simp only [resetDepKeep]
      split
      · have h' := within_resetDep h t
        refine ⟨h'.defs, ?_⟩
        intro k p hk
        simp only [markIgn] at hk
        by_cases hkt : k = t
        · subst hkt; simp only [if_true] at hk; exact h'.rcd k p hk
        · simp only [hkt, if_false] at hk; exact h'.rcd k p hk
      · exact within_resetDep h t
    | peek t =>
      simp only
      split
      · exact within_crashed h
      · exact within_peek h t
    | switchChecker c => exact ⟨h.defs, h.rcd⟩
    | info t =>
      simp only [info]
      split
      · exact h
      · split
        · exact within_crashed h
        · split
          · exact within_erase h t
          · exact h

theorem within_istep {E : Name → Path → Prop} {s : St} (h : Within E s) (o : IOp) (ho : IOp.respects E o) :
    Within E (istep s o) := by
  cases o with
  | base o => exact within_step h o ho
  | select t =>
    simp only [istep]
    split
    · exact h
    · unfold selectTask
      cases hst : s.status true t with
      | crash => exact within_crashed h
      | error => exact within_erase h t
      | upToDate => exact h
      | run => exact within_peek h t
  | complete t ok ws res =>
    simp only [istep]
    split
    · exact h
    · exact within_finish (within_applyWrites h ws) t ok res

theorem within_foldl {E : Name → Path → Prop} (ops : List IOp) (s : St) (h : Within E s)
    (ho : ∀ o, o ∈ ops → IOp.respects E o) : Within E (ops.foldl istep s) := by
  induction ops generalizing s with
  | nil => exact h
  | cons o os ih =>
    exact ih _ (within_istep h o (ho o (by simp))) (fun o' ho' => ho o' (by simp [ho']))

/-- `p` is a file_dep in some definition of `t` given in the history -/
def IOp.definesDep (t : Name) (p : Path) : IOp → Bool
  | .base (.redefine t' d) => decide (t' = t) && decide (p ∈ d.deps)
  | _ => false

def everDep (h : List IOp) (t : Name) (p : Path) : Bool := h.any (IOp.definesDep t p)

theorem respects_everDep (h : List IOp) : ∀ o, o ∈ h → IOp.respects (fun t p => everDep h t p = true) o := by
  intro o ho
  cases o with
  | base b =>
    cases b with
    | redefine t d =>
      intro p hp
      simp only [everDep, List.any_eq_true]
      exact ⟨_, ho, by simp [IOp.definesDep, hp]⟩
    | _ => trivial
  | select t => trivial
  | complete t ok ws res => trivial

/-- a file that no definition of `t` in the history names as file_dep has no saved state in `t`'s record -/
theorem no_state_of_never_dep (h : List IOp) (t : Name) (p : Path) (hn : everDep h t p = false) :
    ((runI h).rcd t).fstate p = none := by
  have hw : Within (fun t p => everDep h t p = true) (runI h) :=
    within_foldl h St.init (within_init _) (respects_everDep h)
  cases hf : ((runI h).rcd t).fstate p with
  | none => rfl
  | some st =>
    have := hw.rcd t p (by simp [hf])
    simp [hn] at this

end DoitModel.Inputs
