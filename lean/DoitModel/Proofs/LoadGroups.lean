import DoitModel.Proofs.LoadAccept
/-! the group invariant of `_generate_task_from_yield`: every sub-task is attached to its group task, which depends
    on the sub-tasks in yield order — as long as no yield replaces a task the generator already defined -/
namespace DoitModel.Load

/-- names of the sub-tasks of `b` in list order -/
def subsIn (b : Name) (l : List Task) : List Name := (l.filter (fun t => t.subtaskOf == some b)).map (·.name)

def vals (tk : Tasks) : List Task := tk.map (·.2)

/-! ## `lookup` / `insert` -/

theorem lookup_mem (tk : Tasks) (k : Name) (t : Task) (h : lookup tk k = some t) : (k, t) ∈ tk := by
  induction tk with
  | nil => simp [lookup] at h
  | cons p rest ih =>
    obtain ⟨k', t'⟩ := p
    by_cases hk : k' = k
    · subst hk; simp [lookup] at h; simp [h]
    · simp [lookup, hk] at h; simp [ih h]

theorem lookup_insert_self (tk : Tasks) (k : Name) (t : Task) : lookup (insert tk k t) k = some t := by
  induction tk with
  | nil => simp [insert, lookup]
  | cons p rest ih =>
    obtain ⟨k', t'⟩ := p
    by_cases hk : k' = k
    · simp [insert, hk, lookup]
    · simp [insert, hk, lookup, ih]

theorem lookup_insert_ne (tk : Tasks) (k k' : Name) (t : Task) (h : k' ≠ k) :
    lookup (insert tk k t) k' = lookup tk k' := by
  induction tk with
  | nil => simp [insert, lookup, Ne.symm h]
  | cons p rest ih =>
    obtain ⟨k2, t2⟩ := p
    by_cases hk : k2 = k
    · subst hk; simp [insert, lookup, Ne.symm h]
    · by_cases hk' : k2 = k'
      · subst hk'; simp [insert, hk, lookup]
      · simp [insert, hk, lookup, hk', ih]

theorem mem_insert (tk : Tasks) (k : Name) (t : Task) (p : Name × Task) (h : p ∈ insert tk k t) :
    p ∈ tk ∨ p = (k, t) := by
  induction tk with
  | nil => simp [insert] at h; exact Or.inr h
  | cons q rest ih =>
    obtain ⟨k2, t2⟩ := q
    by_cases hk : k2 = k
    · simp [insert, hk] at h
      rcases h with h | h
      · exact Or.inr h
      · exact Or.inl (by simp [h])
    · simp [insert, hk] at h
      rcases h with h | h
      · exact Or.inl (by simp [h])
      · rcases ih h with h' | h'
        · exact Or.inl (by simp [h'])
        · exact Or.inr h'

/-- replacing the task under an existing key by one with the same name and parent does not change `subsIn` -/
theorem subsIn_insert_same (tk : Tasks) (k b : Name) (g t : Task) (h : lookup tk k = some g)
    (h1 : t.subtaskOf = g.subtaskOf) (h2 : t.name = g.name) :
    subsIn b (vals (insert tk k t)) = subsIn b (vals tk) := by
  induction tk with
  | nil => simp [lookup] at h
  | cons p rest ih =>
    obtain ⟨k', t'⟩ := p
    by_cases hk : k' = k
    · subst hk
      simp [lookup] at h
      subst h
      simp [insert, vals, subsIn, List.filter_cons, h1]
      split <;> simp [h2]
    · simp [lookup, hk] at h
      have := ih h
      simp only [subsIn, vals] at this ⊢
      simp [insert, hk, List.filter_cons]
      split <;> simp_all

theorem subsIn_insert_new (tk : Tasks) (k b : Name) (t : Task) (h : lookup tk k = none) :
    subsIn b (vals (insert tk k t)) = subsIn b (vals tk) ++ (if t.subtaskOf = some b then [t.name] else []) := by
  induction tk with
  | nil => simp [insert, vals, subsIn, List.filter_cons]; split <;> simp
  | cons p rest ih =>
    obtain ⟨k', t'⟩ := p
    by_cases hk : k' = k
    · simp [lookup, hk] at h
    · simp [lookup, hk] at h
      have := ih h
      simp only [subsIn, vals] at this ⊢
      simp [insert, hk, List.filter_cons]
      split <;> simp_all

/-! ## the invariant -/

structure Inv (tk : Tasks) (seen : List Name) : Prop where
  keyName : ∀ p ∈ tk, p.2.name = p.1
  seenKeys : ∀ p ∈ tk, p.1 ∈ seen
  hasGroup : ∀ p ∈ tk, ∀ b, p.2.subtaskOf = some b → ∃ g, lookup tk b = some g ∧ g.hasSubtask = true
  groupDeps : ∀ b g, lookup tk b = some g → List.Sublist (subsIn b (vals tk)) g.taskDep
  groupPlain : ∀ p ∈ tk, p.2.hasSubtask = true → p.2.subtaskOf = none

theorem inv_nil : Inv [] [] :=
  ⟨by simp, by simp, by simp, by simp [lookup], by simp⟩

theorem Inv.mono {tk : Tasks} {seen : List Name} (h : Inv tk seen) (more : List Name) : Inv tk (seen ++ more) :=
  ⟨h.keyName, fun p hp => by simp [h.seenKeys p hp], h.hasGroup, h.groupDeps, h.groupPlain⟩

/-- no task claims to be a sub-task of a name that is not a key -/
theorem Inv.subs_nil {tk : Tasks} {seen : List Name} (h : Inv tk seen) (b : Name) (hb : lookup tk b = none) :
    subsIn b (vals tk) = [] := by
  unfold subsIn vals
  rw [List.map_eq_nil_iff, List.filter_eq_nil_iff]
  intro t ht
  obtain ⟨p, hp, rfl⟩ := List.mem_map.mp ht
  intro hsub
  have hsub' : p.2.subtaskOf = some b := by simpa using hsub
  obtain ⟨g, hg, _⟩ := h.hasGroup p hp b hsub'
  rw [hb] at hg; cases hg

theorem Inv.unseen {tk : Tasks} {seen : List Name} (h : Inv tk seen) (k : Name) (hk : k ∉ seen) :
    lookup tk k = none := by
  cases hl : lookup tk k with
  | none => rfl
  | some g => exact absurd (h.seenKeys _ (lookup_mem tk k g hl)) hk

/-- a new key with a task that is not a sub-task -/
theorem Inv.insert_new {tk : Tasks} {seen : List Name} (h : Inv tk seen) (k : Name) (t : Task)
    (hnew : lookup tk k = none) (hname : t.name = k) (hsub : t.subtaskOf = none) :
    Inv (insert tk k t) (seen ++ [k]) := by
  refine ⟨?_, ?_, ?_, ?_, ?_⟩
  rotate_left 4
  · intro p hp _
    rcases mem_insert tk k t p hp with h' | h'
    · exact h.groupPlain p h' ‹_›
    · subst h'; exact hsub
  · intro p hp
    rcases mem_insert tk k t p hp with h' | h'
    · exact h.keyName p h'
    · subst h'; exact hname
  · intro p hp
    rcases mem_insert tk k t p hp with h' | h'
    · simp [h.seenKeys p h']
    · subst h'; simp
  · intro p hp b hb
    rcases mem_insert tk k t p hp with h' | h'
    · obtain ⟨g, hg, hgs⟩ := h.hasGroup p h' b hb
      have hne : b ≠ k := by intro e; subst e; rw [hnew] at hg; cases hg
      exact ⟨g, by rw [lookup_insert_ne _ _ _ _ hne]; exact hg, hgs⟩
    · subst h'; simp [hsub] at hb
  · intro b g hg
    rw [subsIn_insert_new tk k b t hnew]
    simp only [hsub, reduceCtorEq, if_false, List.append_nil]
    by_cases hbk : b = k
    · subst hbk
      rw [h.subs_nil b hnew]
      exact List.nil_sublist _
    · rw [lookup_insert_ne _ _ _ _ hbk] at hg
      exact h.groupDeps b g hg

/-- the group task gets one more dependency -/
theorem Inv.insert_grow {tk : Tasks} {seen : List Name} (h : Inv tk seen) (b : Name) (g : Task) (extra : List Name)
    (hg : lookup tk b = some g) :
    Inv (insert tk b { g with taskDep := g.taskDep ++ extra }) seen := by
  have hmem := lookup_mem tk b g hg
  refine ⟨?_, ?_, ?_, ?_, ?_⟩
  rotate_left 4
  · intro p hp hs
    rcases mem_insert _ _ _ p hp with h' | h'
    · exact h.groupPlain p h' hs
    · subst h'; exact h.groupPlain (b, g) hmem hs
  · intro p hp
    rcases mem_insert _ _ _ p hp with h' | h'
    · exact h.keyName p h'
    · subst h'; exact h.keyName (b, g) hmem
  · intro p hp
    rcases mem_insert _ _ _ p hp with h' | h'
    · exact h.seenKeys p h'
    · subst h'; exact h.seenKeys (b, g) hmem
  · intro p hp c hc
    have old : ∃ g0, lookup tk c = some g0 ∧ g0.hasSubtask = true := by
      rcases mem_insert _ _ _ p hp with h' | h'
      · exact h.hasGroup p h' c hc
      · subst h'; exact h.hasGroup (b, g) hmem c hc
    obtain ⟨g0, hg0, hs0⟩ := old
    by_cases hcb : c = b
    · subst hcb
      rw [hg] at hg0; cases hg0
      exact ⟨_, lookup_insert_self _ _ _, hs0⟩
    · exact ⟨g0, by rw [lookup_insert_ne _ _ _ _ hcb]; exact hg0, hs0⟩
  · intro c gc hgc
    rw [subsIn_insert_same tk b c g { g with taskDep := g.taskDep ++ extra } hg rfl rfl]
    by_cases hcb : c = b
    · subst hcb
      rw [lookup_insert_self] at hgc
      cases hgc
      exact (h.groupDeps c g hg).trans (List.sublist_append_left _ _)
    · rw [lookup_insert_ne _ _ _ _ hcb] at hgc
      exact h.groupDeps c gc hgc

/-- a new sub-task whose group already lists it last -/
theorem Inv.insert_sub {tk : Tasks} {seen : List Name} (h : Inv tk seen) (b full : Name) (g sub : Task)
    (front : List Name) (hnew : lookup tk full = none) (hne : full ≠ b) (hg : lookup tk b = some g)
    (hgs : g.hasSubtask = true) (hdeps : g.taskDep = front ++ [full])
    (hfront : List.Sublist (subsIn b (vals tk)) front) (hname : sub.name = full) (hsub : sub.subtaskOf = some b)
    (hleaf : sub.hasSubtask = false) :
    Inv (insert tk full sub) (seen ++ [full]) := by
  refine ⟨?_, ?_, ?_, ?_, ?_⟩
  rotate_left 4
  · intro p hp hs
    rcases mem_insert _ _ _ p hp with h' | h'
    · exact h.groupPlain p h' hs
    · subst h'; rw [hleaf] at hs; cases hs
  · intro p hp
    rcases mem_insert _ _ _ p hp with h' | h'
    · exact h.keyName p h'
    · subst h'; exact hname
  · intro p hp
    rcases mem_insert _ _ _ p hp with h' | h'
    · simp [h.seenKeys p h']
    · subst h'; simp
  · intro p hp c hc
    rcases mem_insert _ _ _ p hp with h' | h'
    · obtain ⟨g0, hg0, hs0⟩ := h.hasGroup p h' c hc
      have hcf : c ≠ full := by intro e; subst e; rw [hnew] at hg0; cases hg0
      exact ⟨g0, by rw [lookup_insert_ne _ _ _ _ hcf]; exact hg0, hs0⟩
    · subst h'
      rw [hsub] at hc; cases hc
      exact ⟨g, by rw [lookup_insert_ne _ _ _ _ (Ne.symm hne)]; exact hg, hgs⟩
  · intro c gc hgc
    rw [subsIn_insert_new tk full c sub hnew, hsub]
    by_cases hcf : c = full
    · subst hcf
      have : ¬ (some b = some c) := by intro e; cases e; exact hne rfl
      simp only [this, if_false, List.append_nil]
      rw [h.subs_nil c hnew]
      exact List.nil_sublist _
    · rw [lookup_insert_ne _ _ _ _ hcf] at hgc
      by_cases hcb : c = b
      · subst hcb
        rw [hg] at hgc; cases hgc
        simp only [if_true, hname, hdeps]
        exact List.Sublist.append hfront (List.Sublist.refl _)
      · have : ¬ (some b = some c) := by intro e; cases e; exact hcb rfl
        simp only [this, if_false, List.append_nil]
        exact h.groupDeps c gc hgc

/-- the group task is replaced by a group task of the same name whose `task_dep` ends with the old one -/
theorem Inv.insert_merge {tk : Tasks} {seen : List Name} (h : Inv tk seen) (b : Name) (ex g : Task)
    (own : List Name) (hex : lookup tk b = some ex) (hexs : ex.hasSubtask = true) (hname : g.name = b)
    (hsub : g.subtaskOf = none) (hgs : g.hasSubtask = true) (hdeps : g.taskDep = own ++ ex.taskDep) :
    Inv (insert tk b g) seen := by
  have hmem := lookup_mem tk b ex hex
  have hexsub : ex.subtaskOf = none := h.groupPlain (b, ex) hmem hexs
  have hexname : ex.name = b := h.keyName (b, ex) hmem
  refine ⟨?_, ?_, ?_, ?_, ?_⟩
  · intro p hp
    rcases mem_insert _ _ _ p hp with h' | h'
    · exact h.keyName p h'
    · subst h'; exact hname
  · intro p hp
    rcases mem_insert _ _ _ p hp with h' | h'
    · exact h.seenKeys p h'
    · subst h'; exact h.seenKeys (b, ex) hmem
  · intro p hp c hc
    rcases mem_insert _ _ _ p hp with h' | h'
    · obtain ⟨g0, hg0, hs0⟩ := h.hasGroup p h' c hc
      by_cases hcb : c = b
      · subst hcb; exact ⟨g, lookup_insert_self _ _ _, hgs⟩
      · exact ⟨g0, by rw [lookup_insert_ne _ _ _ _ hcb]; exact hg0, hs0⟩
    · subst h'; rw [hsub] at hc; cases hc
  · intro c gc hgc
    rw [subsIn_insert_same tk b c ex g hex (by rw [hsub, hexsub]) (by rw [hname, hexname])]
    by_cases hcb : c = b
    · subst hcb
      rw [lookup_insert_self] at hgc
      cases hgc
      rw [hdeps]
      exact (h.groupDeps c ex hex).trans (List.sublist_append_right _ _)
    · rw [lookup_insert_ne _ _ _ _ hcb] at hgc
      exact h.groupDeps c gc hgc
  · intro p hp hs
    rcases mem_insert _ _ _ p hp with h' | h'
    · exact h.groupPlain p h' hs
    · subst h'; exact hsub

end DoitModel.Load
