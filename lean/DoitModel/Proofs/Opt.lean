import DoitModel.Model.Opt
/-! helper lemmas for M4 (purity of `parse`, getopt state machine) -/
namespace DoitModel.Opt

/-! ## purity: the fixed `parse` never changes the parser object -/

theorem applyOpt_fixed_state (st : PState) (p : Params) (o : Opt) (inv : Bool) (v : Str) :
    (applyOpt false st p o inv v).1 = st := by
  unfold applyOpt
  cases o.ty <;> simp only [listStep, scalarStep]
  · split <;> simp
  · split <;> simp
  · split <;> simp

theorem applyPair_fixed_state (st : PState) (p : Params) (kv : Key × Str) :
    (applyPair false st p kv).1 = st := by
  unfold applyPair
  split
  · rfl
  · exact applyOpt_fixed_state ..

theorem applyPairs_fixed_state (ps : Pairs) (st : PState) (p : Params) :
    (applyPairs false ps st p).1 = st := by
  induction ps generalizing st p with
  | nil => rfl
  | cons kv rest ih =>
    have h := applyPair_fixed_state st p kv
    unfold applyPairs
    generalize applyPair false st p kv = r at h
    obtain ⟨st', res⟩ := r
    cases res with
    | error e => simpa using h
    | ok p' => simp only at h; subst h; exact ih ..

theorem withPos_fst (pos : List Str) (r : PState × Except Err Params) : (withPos pos r).1 = r.1 := by
  obtain ⟨st, res⟩ := r
  cases res <;> rfl

theorem parseOnly_fixed_state (st : PState) (p : Params) (argv : List Str) :
    (parseOnly false st p argv).1 = st := by
  unfold parseOnly
  split
  · rfl
  · rw [withPos_fst]; exact applyPairs_fixed_state ..

theorem parse_fixed_state (st : PState) (env : Str → Option Str) (argv : List Str) :
    (parse false st env argv).1 = st := by
  unfold parse
  split
  · rfl
  · exact parseOnly_fixed_state ..

end DoitModel.Opt
