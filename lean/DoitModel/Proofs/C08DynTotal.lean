import DoitModel.Proofs.C08Dyn1
/-! # C08 (I10) with calc_dep: the denotation `Dyn.DenOf` is total on finite acyclic graphs

`Ranked` is the hypothesis of C09 (`Proofs/C09Dep.lean`; restated here because that file and `Proofs/C08Conf8.lean` both
define a `Run.Acyclic`): a rank decreases along every edge of `Dep` — task_dep, setup-task, calc_dep (static or
deliverable) and every task_dep / file_dep owner a (possibly delivered) calc_dep can deliver, executed successfully
(`calcRes`) or failed during its execution (`calcResFail`).  The dependencies the
denotation reads (`Dyn.DepOf`, the edges that ARE delivered under the derived outcomes) are among them. -/
namespace DoitModel.Run.Dyn

/-- `c` can become a calc_dep of `n`: listed, or delivered (`values['calc_dep']`) by something that can -/
inductive CalcAny (inp : RunInput) (n : Name) : Name → Prop
  | base {c : Name} : c ∈ inp.calcDep n → CalcAny inp n c
  | res {p c : Name} : CalcAny inp n p → c ∈ (inp.calcRes p).calcs → CalcAny inp n c
  | resFail {p c : Name} : CalcAny inp n p → c ∈ (inp.calcResFail p).calcs → CalcAny inp n c

/-- `n` depends on `d`: task_dep, calc_dep, setup-task, or a task_dep / file_dep owner delivered by one of its
    (possibly delivered) calc_deps — whatever the outcomes -/
inductive Dep (inp : RunInput) : Name → Name → Prop
  | task {n d : Name} : d ∈ inp.taskDep n → Dep inp n d
  | ofCalc {n c : Name} : CalcAny inp n c → Dep inp n c
  | setup {n d : Name} : d ∈ inp.setup n → Dep inp n d
  | resT {n p d : Name} : CalcAny inp n p → d ∈ (inp.calcRes p).tasks → Dep inp n d
  | resF {n p d : Name} : CalcAny inp n p → d ∈ (inp.calcRes p).files → Dep inp n d
  | resTFail {n p d : Name} : CalcAny inp n p → d ∈ (inp.calcResFail p).tasks → Dep inp n d
  | resFFail {n p d : Name} : CalcAny inp n p → d ∈ (inp.calcResFail p).files → Dep inp n d

/-- `rank` decreases along every dependency edge -/
def Ranked (inp : RunInput) (rank : Name → Nat) : Prop := ∀ n d, Dep inp n d → rank d < rank n

theorem CalcOf.toDep {inp : RunInput} {dd : Name → Den} {n c : Name} (h : CalcOf inp dd n c) : CalcAny inp n c := by
  induction h with
  | static hc => exact CalcAny.base hc
  | @deliv c x _ hm ih =>
    rcases delivOf_cases inp c (dd c) with ⟨_, e⟩ | ⟨_, _, e⟩ | e <;> rw [e] at hm
    · exact CalcAny.res ih hm
    · exact CalcAny.resFail ih hm
    · cases hm

theorem DepOf.toDep {inp : RunInput} {dd : Name → Den} {n x : Name} (h : DepOf inp dd n x) : Dep inp n x := by
  rcases h with a | a | ⟨c, hc, m⟩
  · exact Dep.task a
  · exact Dep.ofCalc a.toDep
  · rcases delivOf_cases inp c (dd c) with ⟨_, e⟩ | ⟨_, _, e⟩ | e <;> rw [e] at m
    · rcases m with m | m
      · exact Dep.resT hc.toDep m
      · exact Dep.resF hc.toDep m
    · rcases m with m | m
      · exact Dep.resTFail hc.toDep m
      · exact Dep.resFFail hc.toDep m
    · rcases m with m | m <;> cases m

/-- on an acyclic graph whose dependency edges stay below `N`, every task has a derived outcome (and by
    `DenOf.functional` exactly one) -/
theorem DenOf_total {inp : RunInput} {rank : Name → Nat} (hr : Ranked inp rank) (N : Nat)
    (hN : ∀ n d, Dep inp n d → d < N) : ∀ n, ∃ d, DenOf inp n d := by
  have key : ∀ k n, rank n < k → ∃ d, DenOf inp n d := by
    intro k
    induction k with
    | zero => intro n h; omega
    | succ k ih =>
      intro n hn
      classical
      let dd : Name → Den := fun x => if h : ∃ d, DenOf inp x d then Classical.choose h else .bot
      have hdd : ∀ x, Dep inp n x → DenOf inp x (dd x) := by
        intro x hx
        have hx' : ∃ d, DenOf inp x d := ih x (by have := hr n x hx; omega)
        show DenOf inp x (if h : ∃ d, DenOf inp x d then Classical.choose h else .bot)
        rw [dif_pos hx']; exact Classical.choose_spec hx'
      let L : List Name := (List.range N).filter (fun x => decide (DepOf inp dd n x))
      have hL : ∀ x, x ∈ L ↔ DepOf inp dd n x := by
        intro x
        simp only [L, List.mem_filter, List.mem_range, decide_eq_true_eq]
        exact ⟨fun h => h.2, fun h => ⟨hN n x h.toDep, h⟩⟩
      exact ⟨_, DenOf.mk n dd L hL (fun d hd => hdd d ((hL d).mp hd).toDep) (fun _ d hd => hdd d (Dep.setup hd))⟩
  intro n
  exact key (rank n + 1) n (Nat.lt_succ_self _)

end DoitModel.Run.Dyn
