import DoitModel.Proofs.C08Dyn9
import DoitModel.Proofs.C08Conf10
import DoitModel.Proofs.RunAcct
/-! # C08 (I10) with calc_dep, closure, part 2a: a node whose first pass said `run` gets a node for each of its setup-tasks
    (node-local invariant `NodeP`, preserved by the dispatcher) -/
namespace DoitModel.Run.Dyn

structure NodeP (inp : RunInput) (s : Sys) (n : Name) (nd : Node) : Prop where
  early : nd.status.finished = true → (nd.pc = .afterSelf1 ∨ nd.pc = .setupDecide) → inp.setup n ≠ [] → ¬ R1 inp n
  iter : ∀ todo, nd.pc = .setupIter todo → ∀ d ∈ inp.setup n, d ∈ todo ∨ created s d
  late : nd.pc.setupAbsorbed = true → ∀ d ∈ inp.setup n, created s d
  fin : nd.pc = .done → nd.status ≠ .none → inp.setup n = [] ∨ ¬ R1 inp n ∨ ∀ d ∈ inp.setup n, created s d

def InvP2 (inp : RunInput) (s : Sys) : Prop := ∀ n nd, s.nodes n = some nd → NodeP inp s n nd

theorem NodeP.mono {inp : RunInput} {s s' : Sys} {n : Name} {a b : Node} (h : NodeP inp s n a) (k : Keeps s s')
    (hpc : b.pc = a.pc) (hst : b.status = a.status) : NodeP inp s' n b := by
  constructor
  · intro h1 h2; rw [hst] at h1; rw [hpc] at h2; exact h.early h1 h2
  · intro todo h1 d hd; rw [hpc] at h1
    rcases h.iter todo h1 d hd with a | a
    · exact Or.inl a
    · exact Or.inr (k d a)
  · intro h1 d hd; rw [hpc] at h1; exact k d (h.late h1 d hd)
  · intro h1 h2; rw [hpc] at h1; rw [hst] at h2
    rcases h.fin h1 h2 with a | a | a
    · exact Or.inl a
    · exact Or.inr (Or.inl a)
    · exact Or.inr (Or.inr (fun d hd => k d (a d hd)))

theorem nodeP_of_plain {inp : RunInput} {s : Sys} {n : Name} {x : Node} (hp : x.pc.plainP = true) : NodeP inp s n x := by
  constructor
  · intro _ h; rcases h with e | e <;> (rw [e] at hp; cases hp)
  · intro todo e; rw [e] at hp; cases hp
  · intro e; cases hx : x.pc <;> rw [hx] at hp e <;> first | (cases e; done) | (cases hp; done)
  · intro e; rw [e] at hp; cases hp

theorem InvP2.back {inp : RunInput} {s s' : Sys} (h : InvP2 inp s) (b : Back s s') (k : Keeps s s') : InvP2 inp s' := by
  intro n nd hn
  obtain ⟨x, hx, e1, e2⟩ := b.1 n nd hn
  exact (h n x hx).mono k e1 (e2 trivial)

theorem InvP2.same {inp : RunInput} {s s' : Sys} (h : InvP2 inp s) (e : s'.nodes = s.nodes) : InvP2 inp s' :=
  fun n nd hn => by rw [e] at hn; exact (h n nd hn).mono (Keeps.of_eq e) rfl rfl

theorem invP2_setNode {inp : RunInput} {s : Sys} {n : Name} (x : Node) (h : InvP2 inp s)
    (hx : NodeP inp (setNode s n x) n x) : InvP2 inp (setNode s n x) := by
  intro k y hk
  simp only [setNode_nodes] at hk
  split at hk
  · rename_i e; subst e; cases hk; exact hx
  · exact (h k y hk).mono (keeps_setNode x) rfl rfl

theorem invP2_registerWaiting {inp : RunInput} {s : Sys} (n : Name) (wf : List Name) (h : InvP2 inp s) :
    InvP2 inp (registerWaiting s n wf) :=
  h.back (back_registerWaiting True s n wf) (keeps_registerWaiting s n wf)

theorem genStep_invP2 {inp : RunInput} {s : Sys} {n : Name} {nd : Node} (d : Name) (pc' : PC) (h : InvP2 inp s)
    (_hn : s.nodes n = some nd)
    (hx : ∀ s', Keeps s s' → created s' d → NodeP inp s' n { nd with pc := pc' }) :
    InvP2 inp (genStep inp s n nd d pc') := by
  unfold genStep
  cases hdn : s.nodes d with
  | none =>
    simp only []
    have h1 : InvP2 inp (setNode s d (mkNode inp d (nd.anc ++ [d]))) :=
      invP2_setNode _ h (nodeP_of_plain (by simp [mkNode, PC.plainP]))
    have k1 : Keeps s (setNode (setNode s d (mkNode inp d (nd.anc ++ [d]))) n { nd with pc := pc' }) :=
      (keeps_setNode _).trans (keeps_setNode _)
    have h2 := invP2_setNode { nd with pc := pc' } h1
      (hx _ k1 (keeps_setNode _ d (created_self s d _)))
    exact h2.same rfl
  | some x =>
    simp only []
    split
    · exact h.same rfl
    · exact invP2_setNode _ h (hx _ (keeps_setNode _) (keeps_setNode _ d ⟨x, hdn⟩))

theorem addWaitRun_invP2 {inp : RunInput} {s : Sys} {n : Name} {nd : Node} (ds : List Name) (isCalc : Bool)
    (pc' : PC) (h : InvP2 inp s)
    (hx : ∀ s', Keeps s s' → NodeP inp s' n (waitNode inp s nd ds isCalc pc')) :
    InvP2 inp (addWaitRun inp s n nd ds isCalc pc') := by
  unfold addWaitRun
  exact invP2_registerWaiting _ _ (invP2_setNode _ h (hx _ (keeps_setNode _)))

theorem nodeStep_invP2 {inp : RunInput} {s s' : Sys} {n : Name} {nd : Node} {perm : List Name}
    (hok : NodeOK inp s n nd) (hnn : nd.pc = .setupDecide → nd.status ≠ .none)
    (h : InvP2 inp s) (hn : s.nodes n = some nd) (hs : nodeStep inp s n nd perm = some s') : InvP2 inp s' := by
  have hP := h n nd hn
  unfold nodeStep at hs
  cases hpc : nd.pc with
  | loopTop =>
    simp only [hpc] at hs
    split at hs
    · cases hs; exact invP2_setNode _ h (nodeP_of_plain rfl)
    · cases hs
  | calcIter todo =>
    simp only [hpc] at hs
    cases todo with
    | cons d ds => cases hs; exact genStep_invP2 d _ h hn (fun _ _ _ => nodeP_of_plain rfl)
    | nil =>
      cases hs
      exact addWaitRun_invP2 _ _ _ h (fun _ _ => nodeP_of_plain (by rw [(waitNode_facts inp s nd _ _ _).pc]; rfl))
  | taskIter todo =>
    simp only [hpc] at hs
    cases todo with
    | cons d ds => cases hs; exact genStep_invP2 d _ h hn (fun _ _ _ => nodeP_of_plain rfl)
    | nil =>
      cases hs
      exact addWaitRun_invP2 _ _ _ h (fun _ _ => nodeP_of_plain (by rw [(waitNode_facts inp s nd _ _ _).pc]; rfl))
  | afterDeps =>
    simp only [hpc] at hs
    split at hs
    · cases hs; exact invP2_setNode _ h (nodeP_of_plain rfl)
    · split at hs
      · cases hs; exact (invP2_setNode { nd with pc := .loopTop } h (nodeP_of_plain rfl)).same rfl
      · cases hs; exact invP2_setNode _ h (nodeP_of_plain rfl)
  | self1 =>
    simp only [hpc] at hs; cases hs
    have hst : nd.status = .none := by
      cases hx : nd.status with
      | none => rfl
      | _ => have := hok.l (by simp [hx]); simp [hpc, PC.yielded1] at this
    refine (invP2_setNode { nd with pc := .afterSelf1 } h ?_).same rfl
    exact ⟨(fun e => by simp [hst, RS.finished] at e), (fun _ e => by cases e), (fun e => by cases e), (fun e => by cases e)⟩
  | afterSelf1 =>
    simp only [hpc] at hs
    split at hs
    · rename_i hsetup; cases hs
      exact invP2_setNode _ h
        ⟨(fun _ e => by rcases e with e | e <;> cases e), (fun _ e => by cases e), (fun e => by cases e),
         fun _ _ => Or.inl hsetup⟩
    · have early' : nd.status.finished = true → inp.setup n ≠ [] → ¬ R1 inp n :=
        fun a b => hP.early a (Or.inl hpc) b
      split at hs
      · cases hs
        refine (invP2_setNode { nd with pc := .setupDecide, waitSelect := true } h ?_).same rfl
        exact ⟨fun a _ b => early' a b, (fun _ e => by cases e), (fun e => by cases e), (fun e => by cases e)⟩
      · cases hs
        refine invP2_setNode { nd with pc := .setupDecide } h ?_
        exact ⟨fun a _ b => early' a b, (fun _ e => by cases e), (fun e => by cases e), (fun e => by cases e)⟩
  | setupDecide =>
    simp only [hpc] at hs
    split at hs
    · cases hs
      refine invP2_setNode { nd with pc := .setupIter (inp.setup n) } h ?_
      exact ⟨(fun _ e => by rcases e with e | e <;> cases e),
        (fun todo e d hd => by cases e; exact Or.inl hd), (fun e => by cases e), (fun e => by cases e)⟩
    · rename_i hnr; cases hs
      refine invP2_setNode { nd with pc := .done } h ?_
      refine ⟨(fun _ e => by rcases e with e | e <;> cases e), (fun _ e => by cases e), (fun e => by cases e), ?_⟩
      intro _ _
      by_cases hsetup : inp.setup n = []
      · exact Or.inl hsetup
      · right; left
        have hfin : nd.status.finished = true := by
          have := hnn hpc
          cases hx : nd.status <;> simp_all [RS.finished]
        exact hP.early hfin (Or.inr hpc) hsetup
  | setupIter todo =>
    simp only [hpc] at hs
    cases todo with
    | cons d ds =>
      cases hs
      refine genStep_invP2 d _ h hn ?_
      intro s' k hd
      refine ⟨(fun _ e => by rcases e with e | e <;> cases e), ?_, (fun e => by cases e), (fun e => by cases e)⟩
      intro todo e x hx
      cases e
      rcases hP.iter (d :: ds) hpc x hx with a | a
      · rcases List.mem_cons.mp a with rfl | a'
        · exact Or.inr hd
        · exact Or.inl a'
      · exact Or.inr (k x a)
    | nil =>
      cases hs
      refine addWaitRun_invP2 _ _ _ h ?_
      intro s' k
      have f := waitNode_facts inp s nd (inp.setup n) false .afterSetup
      refine ⟨(fun _ e => by rw [f.pc] at e; rcases e with e | e <;> cases e), (fun _ e => by rw [f.pc] at e; cases e),
        ?_, (fun e => by rw [f.pc] at e; cases e)⟩
      intro _ x hx
      rcases hP.iter [] hpc x hx with a | a
      · cases a
      · exact k x a
  | afterSetup =>
    simp only [hpc] at hs
    have late' : ∀ s', Keeps s s' → ∀ d ∈ inp.setup n, created s' d :=
      fun s' k d hd => k d (hP.late (by rw [hpc]; rfl) d hd)
    have ok' : ∀ s', Keeps s s' → NodeP inp s' n { nd with pc := .self2 } := fun s' k =>
      ⟨(fun _ e => by rcases e with e | e <;> cases e), (fun _ e => by cases e), fun _ => late' s' k, (fun e => by cases e)⟩
    split at hs
    · cases hs; exact (invP2_setNode { nd with pc := .self2 } h (ok' _ (keeps_setNode _))).same rfl
    · cases hs; exact invP2_setNode { nd with pc := .self2 } h (ok' _ (keeps_setNode _))
  | self2 =>
    simp only [hpc] at hs; cases hs
    refine (invP2_setNode { nd with pc := .afterSelf2 } h ?_).same rfl
    exact ⟨(fun _ e => by rcases e with e | e <;> cases e), (fun _ e => by cases e),
      fun _ d hd => keeps_setNode _ d (hP.late (by rw [hpc]; rfl) d hd), (fun e => by cases e)⟩
  | afterSelf2 =>
    simp only [hpc] at hs; cases hs
    refine invP2_setNode { nd with pc := .done } h ?_
    exact ⟨(fun _ e => by rcases e with e | e <;> cases e), (fun _ e => by cases e), (fun e => by cases e),
      fun _ _ => Or.inr (Or.inr (fun d hd => keeps_setNode _ d (hP.late (by rw [hpc]; rfl) d hd)))⟩
  | done => simp only [hpc] at hs; cases hs; exact h.same rfl

theorem dtick_invP2 {inp : RunInput} {s s' : Sys} {perm : List Name} (h1 : Inv1 inp s)
    (ha4 : ∀ n nd, s.nodes n = some nd → nd.pc.yielded1 = true → nd.status = .none → s.susp = some (.node n))
    (hsusp : s.susp = none) (h : InvP2 inp s) (hs : dtick inp s perm = some s') : InvP2 inp s' := by
  unfold dtick at hs
  cases hc : s.cur with
  | some n =>
    simp only [hc] at hs
    cases hn : s.nodes n with
    | none => simp only [hn] at hs; cases hs; exact h.same rfl
    | some nd =>
      simp only [hn] at hs
      refine nodeStep_invP2 (h1.node n nd hn) ?_ h hn hs
      intro hpc e
      have := ha4 n nd hn (by rw [hpc]; rfl) e
      rw [hsusp] at this; cases this
  | none =>
    simp only [hc] at hs
    cases hr : s.ready with
    | cons r rs => simp only [hr] at hs; cases hs; exact h.same rfl
    | nil =>
      simp only [hr] at hs
      cases ht : s.toRun with
      | cons t ts =>
        simp only [ht] at hs
        cases hnt : s.nodes t with
        | none =>
          simp only [hnt] at hs; cases hs
          exact (invP2_setNode (mkNode inp t [t]) h (nodeP_of_plain (by simp [mkNode, PC.plainP]))).same rfl
        | some x => simp only [hnt] at hs; cases hs; exact h.same rfl
      | nil =>
        simp only [ht] at hs
        split at hs
        · split at hs <;> (cases hs; exact h.same rfl)
        · cases hs; exact h.same rfl

end DoitModel.Run.Dyn
