import DoitModel.Model.Act
/-! `Task.execute` (`taskRun`): closed form of the loop. -/
namespace DoitModel.Act

/-- the actions executed successfully before the first unsuccessful one -/
def okPrefix (as : List ARes) : List ARes := as.takeWhile (fun a => a.outcome = .ok)

theorem okPrefix_cons_ok (a : ARes) (as : List ARes) (h : a.outcome = .ok) :
    okPrefix (a :: as) = a :: okPrefix as := by
  simp [okPrefix, List.takeWhile, h]

theorem okPrefix_cons_bad (a : ARes) (as : List ARes) (h : a.outcome ≠ .ok) :
    okPrefix (a :: as) = [] := by
  simp [okPrefix, List.takeWhile, h]

theorem okPrefix_all_ok (as : List ARes) : ∀ a, a ∈ okPrefix as → a.outcome = .ok := by
  induction as with
  | nil => intro a ha; simp [okPrefix] at ha
  | cons b as ih =>
    intro a ha
    by_cases h : b.outcome = .ok
    · rw [okPrefix_cons_ok b as h] at ha
      rcases List.mem_cons.mp ha with e | e
      · rw [e]; exact h
      · exact ih a e
    · rw [okPrefix_cons_bad b as h] at ha; simp at ha

theorem okPrefix_next_bad (as : List ARes) :
    ∀ a, as[(okPrefix as).length]? = some a → a.outcome ≠ .ok := by
  induction as with
  | nil => intro a ha; simp at ha
  | cons b as ih =>
    intro a ha
    by_cases h : b.outcome = .ok
    · rw [okPrefix_cons_ok b as h] at ha
      simp only [List.length_cons, List.getElem?_cons_succ] at ha
      exact ih a ha
    · rw [okPrefix_cons_bad b as h] at ha
      simp at ha
      rw [← ha]; exact h

theorem taskRun_spec (as : List ARes) : ∀ (res : Res) (vals : Vals) (ran : Nat),
    (taskRun res vals ran as).values = (okPrefix as).foldl (fun v a => Vals.update v a.values) vals ∧
    (taskRun res vals ran as).result = (okPrefix as).foldl (fun _ a => a.result) res ∧
    (taskRun res vals ran as).outcome = ((as[(okPrefix as).length]?).map (·.outcome)).getD .ok ∧
    (taskRun res vals ran as).ran =
      ran + (okPrefix as).length + (if (okPrefix as).length < as.length then 1 else 0) := by
  induction as with
  | nil => intro res vals ran; simp [taskRun, okPrefix]
  | cons a as ih =>
    intro res vals ran
    by_cases h : a.outcome = .ok
    · have := ih a.result (vals.update a.values) (ran + 1)
      simp only [taskRun, h, if_true, okPrefix_cons_ok a as h, List.foldl_cons, List.length_cons,
        List.getElem?_cons_succ, Nat.add_lt_add_iff_right]
      refine ⟨this.1, this.2.1, this.2.2.1, ?_⟩
      rw [this.2.2.2]; omega
    · simp [taskRun, h, okPrefix_cons_bad a as h]

theorem teardownRun_spec (as : List ARes) : ∀ (res : Res) (vals : Vals) (ran : Nat),
    teardownRun ran as = ((taskRun res vals ran as).outcome, (taskRun res vals ran as).ran) := by
  induction as with
  | nil => intro res vals ran; rfl
  | cons a as ih =>
    intro res vals ran
    by_cases h : a.outcome = .ok
    · simp only [teardownRun, taskRun, h, if_true]
      exact ih _ _ _
    · simp [teardownRun, taskRun, h]

theorem foldl_last (pre : List ARes) : ∀ res : Res,
    pre.foldl (fun _ a => a.result) res = (pre.getLast?.map (·.result)).getD res := by
  induction pre with
  | nil => intro res; rfl
  | cons a pre ih =>
    intro res
    rw [List.foldl_cons, ih]
    cases pre with
    | nil => rfl
    | cons b pre =>
      rw [List.getLast?_cons_cons]
      cases h : (b :: pre).getLast? with
      | none => simp [List.getLast?_eq_none_iff] at h
      | some x => rfl

theorem alookup_append {β : Type} (k : Nat) (xs ys : List (Nat × β)) :
    alookup k (xs ++ ys) = (alookup k xs).or (alookup k ys) := by
  induction xs with
  | nil => simp [alookup]
  | cons p xs ih =>
    obtain ⟨a, b⟩ := p
    by_cases h : a = k
    · simp [alookup, h]
    · simp [alookup, h, ih]

/-- dict lookup in the merged values: the last successful action that binds `k` wins -/
theorem foldl_update_get (pre : List ARes) (k : Nat) : ∀ vals : Vals,
    Vals.get (pre.foldl (fun v a => Vals.update v a.values) vals) k =
      ((pre.reverse.findSome? (fun a => Vals.get a.values k)).or (Vals.get vals k)) := by
  induction pre with
  | nil => intro vals; simp
  | cons a pre ih =>
    intro vals
    rw [List.foldl_cons, ih]
    simp only [Vals.get, Vals.update, alookup_append, List.reverse_cons, List.findSome?_append,
      List.findSome?_cons, List.findSome?_nil]
    cases List.findSome? (fun a => alookup k a.values) pre.reverse <;> cases alookup k a.values <;> simp

end DoitModel.Act
