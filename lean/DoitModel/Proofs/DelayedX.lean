import DoitModel.Model.DelayedX
/-! # M1+X: which transitions write which events

The dispatcher half of the extended system (`dtick`: `_add_task` with calc_dep / setup sections, the loader section)
never writes a `start`: only `select_task` does, and for a task with setup-tasks only its SECOND call. -/
namespace DoitModel.DelayedX
open DoitModel.Run (RS Name)
open DoitModel.Delayed (Input Ev Susp Choice TDef LId)

/-- the events of `s'` are those of `s`, possibly with one creator evaluation on top -/
def EvQuiet (s s' : Sys) : Prop := s'.events = s.events ∨ ∃ c, s'.events = Ev.creator c :: s.events

theorem registerWaiting_events (s : Sys) (n : Name) (l : List Name) : (registerWaiting s n l).events = s.events := rfl

theorem withCalcTable_events (s : Sys) (w : Name) (o : Nat) (ds : List Name) :
    (withCalcTable s w o ds).events = s.events := by
  unfold withCalcTable
  split
  · rfl
  · split
    · split <;> rfl
    · rfl

theorem genStep_events (s : Sys) (n : Name) (nd : Node) (d : Name) (pc' : PC) :
    (genStep s n nd d pc').events = s.events := by
  unfold genStep
  split
  · split <;> rfl
  · split <;> rfl

theorem addWaitRun_events (s : Sys) (n : Name) (nd : Node) (ds : List Name) (pc' : PC) :
    (addWaitRun s n nd ds pc').events = s.events := rfl

theorem addWaitCalc_events (inp : Input) (s : Sys) (n : Name) (nd : Node) (cs : List Name) (pc' : PC) :
    (addWaitCalc inp s n nd cs pc').events = s.events := by
  unfold addWaitCalc
  simp only [registerWaiting_events, withCalcTable_events]
  rfl

theorem finishLoader_events (s : Sys) (n : Name) (nd : Node) (l : LId) (tk : TDef) :
    (finishLoader s n nd l tk).events = s.events := by
  unfold finishLoader
  split
  · rfl
  · split <;> rfl

theorem regexBlock_events (inp : Input) (s : Sys) (l : LId) (g : Nat) : (regexBlock inp s l g).events = s.events := by
  unfold regexBlock
  split
  · rfl
  · split
    · rfl
    · split
      · split <;> rfl
      · rfl

theorem afterCreate_events (inp : Input) (s : Sys) (n : Name) (nd : Node) (l : LId) :
    (afterCreate inp s n nd l).events = s.events := by
  unfold afterCreate
  split
  · exact finishLoader_events ..
  · split
    · exact regexBlock_events ..
    · rw [finishLoader_events, regexBlock_events]

theorem evalCreator_events (inp : Input) (s : Sys) (l : LId) (t : Name) (b : Bool) :
    (evalCreator inp s l t b).events = Ev.creator (inp.creatorOf l) :: s.events := by
  unfold evalCreator
  split <;> rfl

theorem loaderStep_quiet (inp : Input) (s : Sys) (n : Name) (nd : Node) (l : LId) :
    EvQuiet s (loaderStep inp s n nd l) := by
  unfold loaderStep
  split
  · exact Or.inl rfl
  · split
    · split
      · exact Or.inr ⟨_, evalCreator_events ..⟩
      · exact Or.inr ⟨_, by rw [afterCreate_events, evalCreator_events]⟩
    · exact Or.inl (afterCreate_events ..)

theorem nodeStep_quiet (inp : Input) (s : Sys) (n : Name) (nd : Node) : EvQuiet s (nodeStep inp s n nd) := by
  unfold nodeStep
  split
  · split <;> exact Or.inl rfl
  · exact Or.inl rfl
  · exact Or.inl (genStep_events ..)
  · exact Or.inl (addWaitCalc_events ..)
  · exact Or.inl (genStep_events ..)
  · exact Or.inl rfl
  · split
    · exact Or.inl rfl
    · split <;> exact Or.inl rfl
  · split
    · exact Or.inl rfl
    · exact loaderStep_quiet ..
  · exact Or.inl rfl
  · split <;> exact Or.inl rfl
  · split <;> exact Or.inl rfl
  · exact Or.inl (genStep_events ..)
  · simp only []
    split <;> exact Or.inl rfl
  · exact Or.inl rfl
  · exact Or.inl rfl

theorem dtick_quiet (inp : Input) (s : Sys) : EvQuiet s (dtick inp s) := by
  unfold dtick
  split
  · split
    · exact Or.inl rfl
    · exact nodeStep_quiet ..
  · split
    · exact Or.inl rfl
    · split
      · split
        · exact Or.inl rfl
        · split <;> exact Or.inl rfl
      · split
        · split <;> exact Or.inl rfl
        · exact Or.inl rfl

theorem clearSelect_events (s : Sys) (p : Name) (nd : Node) : (clearSelect s p nd).events = s.events := by
  unfold clearSelect
  split <;> rfl

theorem wakeOne_events {inp : Input} {s s' : Sys} {pst : RS} {p w : Name} {nd : Node}
    (h : wakeOne inp s pst p w nd = some s') : s'.events = s.events := by
  unfold wakeOne at h
  simp only [] at h
  split at h
  · split at h
    · cases h
      split
      · simp [withCalcTable_events]; rfl
      · simp [withCalcTable_events]; rfl
    · cases h
  · cases h
    split <;> rfl

theorem updateWaiting_events (inp : Input) (pst : RS) (p : Name) (perm : List Name) :
    ∀ s s', updateWaiting inp pst p s perm = some s' → s'.events = s.events := by
  induction perm with
  | nil => intro s s' h; simp only [updateWaiting] at h; cases h; rfl
  | cons w ws ih =>
    intro s s' h
    simp only [updateWaiting] at h
    split at h
    · exact ih _ _ h
    · split at h
      · rename_i hw
        rw [ih _ _ h, wakeOne_events hw]
      · cases h

theorem feed_events {inp : Input} {s s' : Sys} {p : Name} {perm : List Name} (h : feed inp s p perm = some s') :
    s'.events = s.events := by
  unfold feed at h
  split at h
  · cases h; rfl
  · simp only [] at h
    split at h
    · split at h
      · split at h
        · rename_i hu
          cases h
          have := updateWaiting_events _ _ _ _ _ _ hu
          rw [clearSelect_events] at this
          exact this
        · cases h; rfl
      · cases h
    · cases h
      exact clearSelect_events ..

theorem handBack_events {inp : Input} {s s' : Sys} {p : Name} {perm : List Name}
    (h : handBack inp s p perm = some s') : s'.events = s.events := by
  unfold handBack at h
  split at h
  · cases h; rfl
  · exact feed_events h

/-- **the guard of a start**: when one step of the system (any runner, any schedule) writes `start n`, it is a
    `select_task(n)` on a node that is not `bad`, and EITHER the task has no setup-tasks and this is its first
    selection (`run_status is None`, not up-to-date) OR it has setup-tasks and this is its SECOND selection
    (`run_status == 'run'`, not in flight): the first selection of a task with setup-tasks never starts it. -/
theorem step_start_guard {inp : Input} {s s' : Sys} {c : Choice} (h : step inp s c = some s') (n : Name)
    (hev : s'.events = Ev.start n :: s.events) :
    s.susp = .yielded n ∧ ∃ nd, s.nodes n = some nd ∧ nd.bad = false ∧
      ((nd.task.setup = [] ∧ nd.status = .none ∧ inp.utd n = false) ∨
       (nd.task.setup ≠ [] ∧ nd.status = .run ∧ n ∉ s.running)) := by
  cases c with
  | resume =>
    simp only [step] at h
    split at h
    · cases h; simp at hev
    · cases h
  | finish m perm =>
    simp only [step, finishStep] at h
    split at h
    · split at h
      · cases h
      · split at h
        · cases h
        · split at h
          · split at h
            · have := feed_events h; rw [this] at hev; simp [failSys] at hev
            · cases h; simp [failSys] at hev
          · split at h
            · cases h; simp at hev
            · have := feed_events h; rw [this] at hev; simp at hev
    · cases h
  | tick perm =>
    simp only [step] at h
    split at h
    · cases h
      rcases dtick_quiet inp s with h1 | ⟨c, h1⟩
      · rw [h1] at hev; simp at hev
      · rw [h1] at hev; simp at hev
    · rename_i m hs
      simp only [selectStep] at h
      split at h
      · cases h; simp at hev
      · rename_i nd hn
        split at h
        · rename_i hst
          split at h
          · have := handBack_events h; rw [this] at hev; simp [failSys] at hev
          · rename_i hb
            split at h
            · have := handBack_events h; rw [this] at hev; simp at hev
            · rename_i hu
              split at h
              · have := handBack_events h; rw [this] at hev; simp [setNode] at hev
              · rename_i hsu
                cases h
                simp [startSys, setNode] at hev
                subst hev
                exact ⟨hs, nd, hn, by simpa using hb, Or.inl ⟨by simpa using hsu, hst, by simpa using hu⟩⟩
        · split at h
          · rename_i hc
            split at h
            · have := handBack_events h; rw [this] at hev; simp [failSys] at hev
            · rename_i hb
              cases h
              simp [startSys, setNode] at hev
              subst hev
              exact ⟨hs, nd, hn, by simpa using hb, Or.inr ⟨hc.2.1, hc.1, hc.2.2⟩⟩
          · cases h; simp at hev
    · cases h

theorem autoRun_reach {inp : Input} : ∀ (k : Nat) (s : Sys), Reach inp s → Reach inp (autoRun inp k s)
  | 0, _, h => h
  | k + 1, s, h => by
    simp only [autoRun]
    split
    · rename_i s' hs; exact autoRun_reach k s' (Reach.next h hs)
    · exact h

end DoitModel.DelayedX
