import DoitModel.Proofs.StatusDecision
/-! # M2 — lemmas for the corollaries of C04 (`C04_rerun`, `C04_touch_md5`) and the no-crash side condition -/
namespace DoitModel.Status

theorem any_congr {α} {l : List α} {f g : α → Bool} (h : ∀ x, x ∈ l → f x = g x) : l.any f = l.any g := by
  induction l with
  | nil => rfl
  | cons a t ih =>
    simp only [List.any_cons, h a (by simp), ih (fun x hx => h x (by simp [hx]))]

/-- the status depends on the file system only through existence and the per-dependency verdicts -/
theorem statusOf_congr (fixed : Bool) (c : Checker) (d : TaskDef) (r : Rcd) (fs fs' : FS) (resOf : Name → Option Res)
    (hm : ∀ p, depMissing fs' p = depMissing fs p)
    (hv : ∀ v p, depIs v c r fs' p = depIs v c r fs p) :
    statusOf fixed c d r fs' resOf = statusOf fixed c d r fs resOf := by
  have hm' : depMissing fs' = depMissing fs := funext hm
  have hv' : ∀ v, depIs v c r fs' = depIs v c r fs := fun v => funext (hv v)
  unfold statusOf earlyRun fileVerdict
  rw [hm', hv' .crash, hv' .modified]

/-- under md5, replacing a file's metadata by one with the same content and a fresh mtime changes no verdict -/
theorem depIs_fresh_md5 {r : Rcd} {fs : FS} {clock : Nat} (hst : StOk fs clock r) (v : Mod) (p q : Path)
    (cur cur' : FMeta) (hcur : fs p = some cur) (hsz : cur'.size = cur.size) (hcid : cur'.cid = cur.cid)
    (hfresh : clock < cur'.mtime) :
    depIs v .md5 r (fun x => if x = p then some cur' else fs x) q = depIs v .md5 r fs q := by
  by_cases hq : q = p
  · subst hq
    simp only [depIs, if_true, hcur, depVerdict]
    cases hr : r.fstate q with
    | none => rfl
    | some st =>
      cases st with
      | ts m => rfl
      | md5 m sz c' =>
        have h1 := hst q m sz c' hr
        have hne : cur'.mtime ≠ m := by omega
        simp only [checkModified, hne, if_false, hsz, hcid]
        by_cases hm : cur.mtime = m
        · have := h1.2 cur hcur hm
          simp [hm, this.1, this.2]
        · simp [hm]
  · simp only [depIs, hq, if_false]

theorem depMissing_fresh (fs : FS) (p q : Path) (cur cur' : FMeta) (hcur : fs p = some cur) :
    depMissing (fun x => if x = p then some cur' else fs x) q = depMissing fs q := by
  by_cases hq : q = p
  · subst hq; simp [depMissing, hcur]
  · simp [depMissing, hq]

end DoitModel.Status
