import DoitModel.Model.Delayed
/-! # Delayed creation: the "once" invariant

`Quiet s s'`: a step that does not evaluate a creator — the task table, the `created` flags and the creator events
are untouched, and every node holds either the `Task` object it held before or the one the table has under its name.
Every operation of the model except `loaderStep` is quiet; `OnceInv` is preserved by quiet steps for free. -/
namespace DoitModel.Delayed
open DoitModel.Run (RS Name)

/-- task `n` of the initial table carries loader object `l` -/
def Holder (inp : Input) (n : Name) (l : LId) : Prop :=
  ∃ td0, lookup0 inp.tasks0 n = some td0 ∧ td0.loader = some l

structure Quiet (s s' : Sys) : Prop where
  tasks : s'.tasks = s.tasks
  created : s'.created = s.created
  ev : ∃ pre, s'.events = pre ++ s.events ∧ ∀ e ∈ pre, ∀ c, e ≠ Ev.creator c
  nodes : ∀ n nd', s'.nodes n = some nd' →
    (∃ nd, s.nodes n = some nd ∧ nd'.task = nd.task) ∨ s.tasks n = some nd'.task
  evald : s'.evaluated = s.evaluated

theorem Quiet.refl (s : Sys) : Quiet s s :=
  ⟨rfl, rfl, ⟨[], rfl, by simp⟩, fun _ nd' h => Or.inl ⟨nd', h, rfl⟩, rfl⟩

/-- only fields the invariant does not read differ -/
theorem Quiet.of_eq {s s' : Sys} (h1 : s'.tasks = s.tasks) (h2 : s'.created = s.created)
    (h3 : s'.events = s.events) (h4 : s'.nodes = s.nodes) (h5 : s'.evaluated = s.evaluated) : Quiet s s' :=
  ⟨h1, h2, ⟨[], by simp [h3], by simp⟩, fun n nd' h => Or.inl ⟨nd', by rw [← h4]; exact h, rfl⟩, h5⟩

theorem Quiet.trans {s s' s'' : Sys} (q : Quiet s s') (q' : Quiet s' s'') : Quiet s s'' := by
  refine ⟨q'.tasks.trans q.tasks, q'.created.trans q.created, ?_, ?_, q'.evald.trans q.evald⟩
  · obtain ⟨p1, h1, g1⟩ := q.ev
    obtain ⟨p2, h2, g2⟩ := q'.ev
    refine ⟨p2 ++ p1, by rw [h2, h1, List.append_assoc], ?_⟩
    intro e he
    rcases List.mem_append.mp he with h | h
    · exact g2 e h
    · exact g1 e h
  · intro n nd'' h
    rcases q'.nodes n nd'' h with ⟨nd', h1, h2⟩ | h1
    · rcases q.nodes n nd' h1 with ⟨nd, h3, h4⟩ | h3
      · exact Or.inl ⟨nd, h3, h2.trans h4⟩
      · exact Or.inr (by rw [h2]; exact h3)
    · exact Or.inr (by rw [← q.tasks]; exact h1)

/-- a quiet step followed by a change of fields the invariant does not read -/
theorem Quiet.then_eq {s s' s'' : Sys} (q : Quiet s s') (h1 : s''.tasks = s'.tasks) (h2 : s''.created = s'.created)
    (h3 : s''.events = s'.events) (h4 : s''.nodes = s'.nodes) (h5 : s''.evaluated = s'.evaluated) : Quiet s s'' :=
  q.trans (Quiet.of_eq h1 h2 h3 h4 h5)

/-- one more event that is not a creator evaluation -/
theorem Quiet.add_ev {s s' : Sys} (e : Ev) (he : ∀ c, e ≠ Ev.creator c)
    (h1 : s'.tasks = s.tasks) (h2 : s'.created = s.created)
    (h3 : s'.events = e :: s.events) (h4 : s'.nodes = s.nodes) (h5 : s'.evaluated = s.evaluated) : Quiet s s' :=
  ⟨h1, h2, ⟨[e], by simp [h3], by simpa using he⟩, fun n nd' h => Or.inl ⟨nd', by rw [← h4]; exact h, rfl⟩, h5⟩

theorem quiet_setNode {s : Sys} {n : Name} {nd x : Node} (hn : s.nodes n = some nd) (ht : x.task = nd.task) :
    Quiet s (setNode s n x) := by
  refine ⟨rfl, rfl, ⟨[], rfl, by simp⟩, ?_, rfl⟩
  intro k nd' h
  simp only [setNode] at h
  split at h
  · rename_i e; subst e; cases h; exact Or.inl ⟨nd, hn, ht⟩
  · exact Or.inl ⟨nd', h, rfl⟩

theorem quiet_newNode {s : Sys} {d : Name} {td : TDef} (anc : List Name) (ht : s.tasks d = some td) :
    Quiet s (setNode s d (mkNodeI s₀ d₀ td anc)) := by
  refine ⟨rfl, rfl, ⟨[], rfl, by simp⟩, ?_, rfl⟩
  intro k nd' h
  simp only [setNode] at h
  split at h
  · rename_i e; subst e; cases h; exact Or.inr ht
  · exact Or.inl ⟨nd', h, rfl⟩

theorem quiet_registerWaiting (s : Sys) (n : Name) (wf : List Name) : Quiet s (registerWaiting s n wf) := by
  refine ⟨rfl, rfl, ⟨[], rfl, by simp⟩, ?_, rfl⟩
  intro k nd' h
  simp only [registerWaiting] at h
  cases hk : s.nodes k with
  | none => simp [hk] at h
  | some x =>
    simp only [hk] at h
    split at h
    · cases h; refine Or.inl ⟨x, rfl, ?_⟩; unfold Node.addWaiting; split <;> rfl
    · cases h; exact Or.inl ⟨_, rfl, rfl⟩

theorem quiet_genStep {s : Sys} {n : Name} {nd : Node} (hn : s.nodes n = some nd) (d : Name) (pc' : PC) :
    Quiet s (genStep s n nd d pc') := by
  unfold genStep
  cases hd : s.nodes d with
  | some x =>
    simp only []
    split
    · exact Quiet.of_eq rfl rfl rfl rfl rfl
    · exact quiet_setNode hn rfl
  | none =>
    simp only []
    cases ht : s.tasks d with
    | none => exact Quiet.of_eq rfl rfl rfl rfl rfl
    | some td =>
      simp only []
      have hnd : n ≠ d := by intro e; subst e; rw [hn] at hd; cases hd
      have q1 : Quiet s (setNode s d (mkNodeI s d td (nd.anc ++ [d]))) := quiet_newNode _ ht
      have hn' : (setNode s d (mkNodeI s d td (nd.anc ++ [d]))).nodes n = some nd := by
        simp [setNode, hnd, hn]
      have q2 := quiet_setNode (x := { nd with pc := pc' }) hn' rfl
      exact (q1.trans q2).then_eq rfl rfl rfl rfl rfl

theorem quiet_addWaitRun {s : Sys} {n : Name} {nd : Node} (hn : s.nodes n = some nd) (ds : List Name) (pc' : PC) :
    Quiet s (addWaitRun s n nd ds pc') := by
  unfold addWaitRun
  have q1 := quiet_setNode (x := { nd with waitRun := ds.filter (unfinished s) ++ nd.waitRun,
                                           bad := nd.bad || ds.any (isBad s), pc := pc' }) hn rfl
  exact q1.trans (quiet_registerWaiting _ _ _)

theorem quiet_wakeOne {s : Sys} {w : Name} {nd : Node} (hn : s.nodes w = some nd) (pst : RS) (p : Name) :
    Quiet s (wakeOne s pst p w nd) := by
  unfold wakeOne
  split
  · exact (quiet_setNode (x := wokenNode pst p nd) hn rfl).then_eq rfl rfl rfl rfl rfl
  · exact quiet_setNode (x := wokenNode pst p nd) hn rfl

theorem quiet_updateWaiting (pst : RS) (p : Name) (perm : List Name) :
    ∀ (s s' : Sys), updateWaiting pst p s perm = some s' → Quiet s s' := by
  induction perm with
  | nil => intro s s' h; simp only [updateWaiting] at h; cases h; exact Quiet.refl _
  | cons w ws ih =>
    intro s s' h
    simp only [updateWaiting] at h
    cases hw : s.nodes w with
    | none => simp only [hw] at h; exact ih s s' h
    | some nd =>
      simp only [hw] at h
      split at h
      · cases h
      · exact (quiet_wakeOne hw pst p).trans (ih _ _ h)

theorem quiet_feed {s s' : Sys} {p : Name} {perm : List Name} (h : feed s p perm = some s') : Quiet s s' := by
  unfold feed at h
  cases hp : s.nodes p with
  | none => simp only [hp] at h; cases h; exact Quiet.of_eq rfl rfl rfl rfl rfl
  | some nd =>
    simp only [hp] at h
    split at h
    · split at h
      · cases hu : updateWaiting nd.status p { s with dispatched := s.dispatched.filter (· ≠ p) } perm with
        | none => simp only [hu] at h; cases h; exact Quiet.of_eq rfl rfl rfl rfl rfl
        | some s1 =>
          simp only [hu] at h; cases h
          have q := quiet_updateWaiting _ _ _ _ _ hu
          have q0 : Quiet s { s with dispatched := s.dispatched.filter (· ≠ p) } := Quiet.of_eq rfl rfl rfl rfl rfl
          exact (q0.trans q).then_eq rfl rfl rfl rfl rfl
      · cases h
    · cases h; exact Quiet.of_eq rfl rfl rfl rfl rfl

/-- every step of a node generator except the loader section is quiet -/
theorem quiet_nodeStep {inp : Input} {s : Sys} {n : Name} {nd : Node} (hn : s.nodes n = some nd)
    (hl : nd.pc = .loaderPc → nd.task.loader = none) : Quiet s (nodeStep inp s n nd) := by
  unfold nodeStep
  cases hpc : nd.pc with
  | start => simp only []; split <;> exact quiet_setNode hn rfl
  | loopTop => exact quiet_setNode hn rfl
  | taskIter todo =>
    cases todo with
    | nil => exact quiet_addWaitRun hn _ _
    | cons d ds => exact quiet_genStep hn _ _
  | afterDeps =>
    simp only []
    split
    · exact quiet_setNode hn rfl
    · split
      · exact (quiet_setNode (x := { nd with pc := .loopTop }) hn rfl).then_eq rfl rfl rfl rfl rfl
      · exact quiet_setNode hn rfl
  | loaderPc => simp only [hl hpc]; exact quiet_setNode hn rfl
  | self1 => exact (quiet_setNode (x := { nd with pc := .done }) hn rfl).then_eq rfl rfl rfl rfl rfl
  | done => exact Quiet.of_eq rfl rfl rfl rfl rfl

/-- a dispatcher step is quiet, or it is the loader section of the current node -/
theorem dtick_cases (inp : Input) (s : Sys) :
    Quiet s (dtick inp s) ∨
    ∃ n nd l, s.nodes n = some nd ∧ nd.task.loader = some l ∧ dtick inp s = loaderStep inp s n nd l := by
  unfold dtick
  cases hc : s.cur with
  | some n =>
    simp only []
    cases hn : s.nodes n with
    | none => exact Or.inl (Quiet.of_eq rfl rfl rfl rfl rfl)
    | some nd =>
      simp only []
      by_cases hl : nd.pc = .loaderPc → nd.task.loader = none
      · exact Or.inl (quiet_nodeStep hn hl)
      · refine Or.inr ?_
        have hpc : nd.pc = .loaderPc := by
          by_cases h : nd.pc = .loaderPc
          · exact h
          · exact absurd (fun h' => absurd h' h) hl
        cases hld : nd.task.loader with
        | none => exact absurd (fun _ => hld) hl
        | some l => exact ⟨n, nd, l, hn, hld, by unfold nodeStep; simp only [hpc, hld]⟩
  | none =>
    simp only []
    refine Or.inl ?_
    cases hr : s.ready with
    | cons r rs => exact Quiet.of_eq rfl rfl rfl rfl rfl
    | nil =>
      simp only []
      cases ht : s.toRun with
      | nil => simp only []; split
               · split <;> exact Quiet.of_eq rfl rfl rfl rfl rfl
               · exact Quiet.of_eq rfl rfl rfl rfl rfl
      | cons t ts =>
        simp only []
        cases hn : s.nodes t with
        | some x => exact Quiet.of_eq rfl rfl rfl rfl rfl
        | none =>
          simp only []
          cases htt : s.tasks t with
          | none => exact Quiet.of_eq rfl rfl rfl rfl rfl
          | some td => exact (quiet_newNode [t] htt).then_eq rfl rfl rfl rfl rfl

theorem quiet_handBack {inp : Input} {s s' : Sys} {n : Name} {perm : List Name}
    (h : handBack inp s n perm = some s') : Quiet s s' := by
  unfold handBack at h
  split at h
  · cases h; exact Quiet.of_eq rfl rfl rfl rfl rfl
  · exact quiet_feed h

theorem quiet_failSys {inp : Input} {s : Sys} {n : Name} {nd : Node} (hn : s.nodes n = some nd) (e : Ev)
    (he : ∀ c, e ≠ Ev.creator c) (fin : Nat) : Quiet s (failSys inp s n nd e fin) := by
  unfold failSys
  exact (quiet_setNode (x := { nd with status := .fail }) hn rfl).trans (Quiet.add_ev e he rfl rfl rfl rfl rfl)

theorem quiet_selectStep {inp : Input} {s s' : Sys} {n : Name} {perm : List Name}
    (h : selectStep inp s n perm = some s') : Quiet s s' := by
  unfold selectStep at h
  cases hn : s.nodes n with
  | none => simp only [hn] at h; cases h; exact Quiet.of_eq rfl rfl rfl rfl rfl
  | some nd =>
    simp only [hn] at h
    split at h
    · cases h; exact Quiet.of_eq rfl rfl rfl rfl rfl
    · split at h
      · exact (quiet_failSys (inp := inp) hn (.unmet n) (by intro c; simp) 2).trans (quiet_handBack h)
      · split at h
        · refine Quiet.trans ?_ (quiet_handBack h)
          exact (quiet_setNode (x := { nd with status := .utd }) hn rfl).trans
            (Quiet.add_ev (Ev.skipUtd n) (by intro c; simp) rfl rfl rfl rfl rfl)
        · cases h
          exact (quiet_setNode (x := { nd with status := .run }) hn rfl).trans
            (Quiet.add_ev (Ev.start n) (by intro c; simp) rfl rfl rfl rfl rfl)

theorem quiet_finishStep {inp : Input} {s s' : Sys} {n : Name} {perm : List Name}
    (h : finishStep inp s n perm = some s') : Quiet s s' := by
  unfold finishStep at h
  split at h
  · cases hn : s.nodes n with
    | none => simp only [hn] at h; cases h
    | some nd =>
      simp only [hn] at h
      split at h
      · cases h
      · have qf : Quiet s { failSys inp s n nd (.failure n) (if s.final = 2 then 2 else 1) with
                            running := s.running.filter (· ≠ n) } :=
          (quiet_failSys (inp := inp) hn (.failure n) (by intro c; simp) (if s.final = 2 then 2 else 1)).then_eq rfl rfl rfl rfl rfl
        have qs : Quiet s { setNode s n { nd with status := .ok } with
                            events := Ev.success n :: s.events, running := s.running.filter (· ≠ n) } :=
          (quiet_setNode (x := { nd with status := .ok }) hn rfl).trans
            (Quiet.add_ev (Ev.success n) (by intro c; simp) rfl rfl rfl rfl rfl)
        split at h
        · split at h
          · exact qf.trans (quiet_feed h)
          · cases h; exact qf
        · split at h
          · cases h; exact qs
          · exact qs.trans (quiet_feed h)
  · cases h

end DoitModel.Delayed
