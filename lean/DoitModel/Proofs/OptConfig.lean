import DoitModel.Proofs.OptPrec
/-! M4: the configuration layers — `overwrite_defaults` (INI/TOML/API/per-task sections) below the environment,
    `update_defaults(DOIT_CONFIG)` between environment and sections -/
namespace DoitModel.Opt

theorem alookup_cons {α β : Type _} [DecidableEq α] (k a : α) (b : β) (rest : List (α × β)) :
    alookup k ((a, b) :: rest) = if a = k then some b else alookup k rest := rfl

theorem alookup_not_mem {α β : Type _} [DecidableEq α] (k : α) (l : List (α × β)) (h : k ∉ l.map (·.1)) :
    alookup k l = none := by
  induction l with
  | nil => rfl
  | cons x r ih =>
    obtain ⟨a, b⟩ := x
    simp only [List.map_cons, List.mem_cons, not_or] at h
    have : ¬ a = k := fun e => h.1 e.symm
    simp [alookup_cons, this, ih h.2]

/-! ### update_defaults -/

theorem updateDefaults_nd (dodo : List (Str × Val)) (p : Params) : (updateDefaults dodo p).nd = p.nd := by
  induction dodo generalizing p with
  | nil => rfl
  | cons x r ih =>
    obtain ⟨k, v⟩ := x
    simp only [updateDefaults]
    rw [ih]
    split <;> rfl

theorem updateDefaults_vals (dodo : List (Str × Val)) (hnd : (dodo.map (·.1)).Nodup) (p : Params) (n : Str) :
    (updateDefaults dodo p).vals n =
      if p.nd n then p.vals n else match alookup n dodo with
        | some v => some v
        | none => p.vals n := by
  induction dodo generalizing p with
  | nil => simp [updateDefaults, alookup]
  | cons x r ih =>
    obtain ⟨k, v⟩ := x
    simp only [List.map_cons, List.nodup_cons] at hnd
    simp only [updateDefaults]
    rw [ih hnd.2, alookup_cons]
    by_cases hk : k = n
    · subst hk
      have hnone := alookup_not_mem k r hnd.1
      by_cases hp : p.nd k = true
      · simp [hp]
      · simp [hp, hnone, Params.setDefault]
    · by_cases hp : p.nd k = true
      · simp [hp, hk]
      · have hk' : ¬ n = k := fun e => hk e.symm
        simp [hp, hk, hk', Params.setDefault]

/-! ### overwrite_defaults -/

def newDefault (ini : List (Str × CfgVal)) (o : Opt) : Val :=
  match alookup o.name ini with
  | some c => match str2typeCfg o c with
    | .ok v => v
    | .error _ => o.default
  | none => o.default

def withDefault (ini : List (Str × CfgVal)) (o : Opt) : Opt := { o with default := newDefault ini o }

theorem str2type_default (o : Opt) (d : Val) (s : Str) : str2type { o with default := d } s = str2type o s := rfl
theorem str2typeCfg_default (o : Opt) (d : Val) (c : CfgVal) :
    str2typeCfg { o with default := d } c = str2typeCfg o c := by cases c <;> rfl

theorem setDefaultOf_names (st : PState) (k : Str) (v : Val) :
    (setDefaultOf st k v).map (·.name) = st.map (·.name) := by
  simp only [setDefaultOf, List.map_map]
  apply List.map_congr_left
  intro o _
  simp only [Function.comp]
  split <;> rfl

theorem findOpt_some (st : PState) (k : Str) (o : Opt) (h : findOpt st k = some o) : o ∈ st ∧ o.name = k := by
  unfold findOpt at h
  exact ⟨List.mem_of_find?_eq_some h, by simpa using List.find?_some h⟩

theorem findOpt_none (st : PState) (k : Str) (h : findOpt st k = none) (o : Opt) (ho : o ∈ st) : o.name ≠ k := by
  unfold findOpt at h
  have := List.find?_eq_none.mp h o ho
  simpa using this

/-- `overwrite_defaults` replaces the default of exactly the options the section names, by the converted value;
    it succeeds only if every such value converts -/
theorem overwriteDefaults_char (ini : List (Str × CfgVal)) (hini : (ini.map (·.1)).Nodup) (spec st : PState)
    (hnd : (spec.map (·.name)).Nodup) (h : overwriteDefaults ini spec = .ok st) :
    st = spec.map (withDefault ini) ∧
    ∀ o ∈ spec, ∀ c, alookup o.name ini = some c → ∃ v, str2typeCfg o c = .ok v := by
  induction ini generalizing spec with
  | nil =>
    simp only [overwriteDefaults] at h
    injection h with h
    subst h
    refine ⟨?_, fun o _ c hc => by simp [alookup] at hc⟩
    have : (withDefault [] : Opt → Opt) = id := funext fun o => by simp [withDefault, newDefault, alookup]
    rw [this, List.map_id]
  | cons x rest ih =>
    obtain ⟨k, c⟩ := x
    simp only [List.map_cons, List.nodup_cons] at hini
    unfold overwriteDefaults at h
    cases hf : findOpt spec k with
    | none =>
      simp only [hf] at h
      obtain ⟨h1, h2⟩ := ih hini.2 spec hnd h
      have hne := findOpt_none spec k hf
      refine ⟨?_, ?_⟩
      · rw [h1]
        apply List.map_congr_left
        intro o ho
        have : ¬ k = o.name := fun e => hne o ho e.symm
        simp [withDefault, newDefault, alookup_cons, this]
      · intro o ho c' hc'
        have : ¬ k = o.name := fun e => hne o ho e.symm
        simp only [alookup_cons, this, if_false] at hc'
        exact h2 o ho c' hc'
    | some o0 =>
      simp only [hf] at h
      obtain ⟨hm0, hn0⟩ := findOpt_some spec k o0 hf
      cases hv : str2typeCfg o0 c with
      | error e => simp [hv] at h
      | ok v =>
        simp only [hv] at h
        have hnd1 : ((setDefaultOf spec k v).map (·.name)).Nodup := by rw [setDefaultOf_names]; exact hnd
        obtain ⟨h1, h2⟩ := ih hini.2 (setDefaultOf spec k v) hnd1 h
        have hknone := alookup_not_mem k rest hini.1
        refine ⟨?_, ?_⟩
        · rw [h1]
          simp only [setDefaultOf, List.map_map]
          apply List.map_congr_left
          intro o ho
          simp only [Function.comp]
          by_cases hk : o.name = k
          · have : o = o0 := name_inj spec hnd o o0 ho hm0 (by rw [hk, hn0])
            subst this
            simp [hk, withDefault, newDefault, alookup_cons, hknone, str2typeCfg_default, hv]
          · have hk' : ¬ k = o.name := fun e => hk e.symm
            simp [hk, withDefault, newDefault, alookup_cons, hk']
        · intro o ho c' hc'
          by_cases hk : o.name = k
          · have : o = o0 := name_inj spec hnd o o0 ho hm0 (by rw [hk, hn0])
            subst this
            simp only [alookup_cons, hk, if_true] at hc'
            injection hc' with hc'
            subst hc'
            exact ⟨v, hv⟩
          · have hk' : ¬ k = o.name := fun e => hk e.symm
            simp only [alookup_cons, hk', if_false] at hc'
            have hmem : o ∈ setDefaultOf spec k v := by
              simp only [setDefaultOf, List.mem_map]
              exact ⟨o, ho, by simp [hk]⟩
            exact h2 o hmem c' hc'

/-! ### a table whose defaults were replaced parses the same way -/

section wd
variable (f : Opt → Val)

def wd (o : Opt) : Opt := { o with default := f o }

theorem shortTable_wd (spec : List Opt) : shortTable (spec.map (wd f)) = shortTable spec := by
  simp only [shortTable, List.filterMap_map]
  rfl

theorem longTable_wd (spec : List Opt) : longTable (spec.map (wd f)) = longTable spec := by
  simp only [longTable, List.flatMap_map]
  rfl

theorem getopt_wd (spec : List Opt) (argv : List Str) : getopt (spec.map (wd f)) argv = getopt spec argv := by
  simp [getopt, shortTable_wd, longTable_wd]

theorem getOption_wd (spec : List Opt) (k : Key) :
    getOption (spec.map (wd f)) k = (getOption spec k).map fun r => (wd f r.1, r.2) := by
  induction spec with
  | nil => rfl
  | cons a r ih =>
    simp only [List.map_cons, getOption]
    have : matchKey (wd f a) k = matchKey a k := by cases k <;> rfl
    rw [this]
    split <;> simp [ih]

theorem occurrences_wd (spec : List Opt) (o : Opt) (ps : Pairs) :
    occurrences (spec.map (wd f)) (wd f o) ps = occurrences spec o ps := by
  simp only [occurrences]
  congr 1
  funext kv
  rw [getOption_wd]
  cases getOption spec kv.1 with
  | none => rfl
  | some r => rfl

end wd

theorem specValue_dodo (o : Opt) (occ : List (Bool × Str)) (envv : Option Str) (dodov : Option Val)
    (iniv : Option CfgVal) :
    specValue o occ envv dodov iniv =
      if (envv.isSome || !occ.isEmpty) then specValue o occ envv none iniv
      else match dodov with
        | some v => .ok v
        | none => specValue o occ envv none iniv := by
  cases occ with
  | nil => cases envv <;> cases dodov <;> simp [specValue]
  | cons x xs =>
    simp only [specValue]
    cases hl : (x :: xs).getLast? with
    | none => simp at hl
    | some l => simp

/-- the specification does not see whether the configured default is written into the option or given separately -/
theorem specValue_withDefault (ini : List (Str × CfgVal)) (o : Opt) (occ : List (Bool × Str)) (envv : Option Str)
    (hconv : ∀ c, alookup o.name ini = some c → ∃ v, str2typeCfg o c = .ok v) :
    specValue (withDefault ini o) occ envv none none = specValue o occ envv none (alookup o.name ini) := by
  have hb : baseValue (withDefault ini o) envv none = baseValue o envv (alookup o.name ini) := by
    cases envv with
    | some s => rfl
    | none =>
      simp only [baseValue, withDefault, newDefault]
      cases hc : alookup o.name ini with
      | none => rfl
      | some c =>
        obtain ⟨v, hv⟩ := hconv c hc
        simp [hv]
  unfold specValue
  cases occ.getLast? with
  | none =>
    cases envv with
    | some s => rfl
    | none => exact hb
  | some l =>
    obtain ⟨inv, v⟩ := l
    simp only [hb]
    rfl

theorem parse_ok_getopt (st : PState) (env : Str → Option Str) (argv : List Str) (p : Params) (pos : List Str)
    (h : (parse false st env argv).2 = .ok (p, pos)) : ∃ ps, getopt st argv = .ok (ps, pos) := by
  unfold parse at h
  cases he : applyEnv env st (initParams st Params.empty) with
  | error e => simp [he] at h
  | ok p0 =>
    simp only [he] at h
    unfold parseOnly at h
    cases hg : getopt st argv with
    | error e => simp [hg] at h
    | ok r =>
      obtain ⟨ps, pos'⟩ := r
      simp only [hg] at h
      generalize applyPairs false ps st p0 = ar at h
      obtain ⟨st', res⟩ := ar
      cases res with
      | error e => simp [withPos] at h
      | ok p1 =>
        simp only [withPos] at h
        injection h with h; injection h with _ h2
        exact ⟨ps, by rw [h2]⟩

/-- **the whole resolution, seen from one option**: the value is the specification's -/
theorem pipeline_value (spec : List Opt) (ini : List (Str × CfgVal)) (dodo : List (Str × Val))
    (env : Str → Option Str) (argv : List Str) (p : Params) (pos : List Str)
    (hnd : (spec.map (·.name)).Nodup) (hini : (ini.map (·.1)).Nodup) (hdodo : (dodo.map (·.1)).Nodup)
    (h : pipeline spec ini dodo env argv = .ok (p, pos)) :
    ∃ ps, getopt spec argv = .ok (ps, pos) ∧
      ∀ o ∈ spec, ∃ v, specOf spec ini dodo env ps o = .ok v ∧ p.vals o.name = some v := by
  unfold pipeline at h
  cases hov : overwriteDefaults ini spec with
  | error e => simp [hov] at h
  | ok st =>
    simp only [hov] at h
    obtain ⟨hst, hconv⟩ := overwriteDefaults_char ini hini spec st hnd hov
    cases hp : (parse false st env argv).2 with
    | error e => simp [hp, withDodo] at h
    | ok r =>
      obtain ⟨p0, pos0⟩ := r
      simp only [hp, withDodo] at h
      injection h with h; injection h with h1 h2
      subst h2
      obtain ⟨ps, hg⟩ := parse_ok_getopt st env argv p0 pos0 hp
      have hstw : st = spec.map (wd (newDefault ini)) := hst
      have hg' : getopt spec argv = .ok (ps, pos0) := by rw [← getopt_wd (newDefault ini) spec argv, ← hstw]; exact hg
      refine ⟨ps, hg', ?_⟩
      intro o ho
      have hnd' : (st.map (·.name)).Nodup := by
        rw [hstw, List.map_map]; exact hnd
      have ho' : wd (newDefault ini) o ∈ st := by rw [hstw]; exact List.mem_map_of_mem ho
      obtain ⟨ps', hg2, v0, hv0, hval0, hnd0⟩ := parse_value st hnd' env argv p0 pos0 hp _ ho'
      have hps : ps' = ps := by rw [hg] at hg2; injection hg2 with hg2; injection hg2 with hg2 _; exact hg2.symm
      subst hps
      have hocc : occurrences st (wd (newDefault ini) o) ps' = occurrences spec o ps' := by
        rw [hstw]; exact occurrences_wd _ spec o ps'
      rw [hocc] at hv0 hnd0
      have henv : envOf env (wd (newDefault ini) o) = envOf env o := rfl
      rw [henv] at hv0 hnd0
      have hsv := specValue_withDefault ini o (occurrences spec o ps') (envOf env o) (hconv o ho)
      have hsv' : specValue o (occurrences spec o ps') (envOf env o) none (alookup o.name ini) = .ok v0 := by
        rw [← hsv]; exact hv0
      have hname : (wd (newDefault ini) o).name = o.name := rfl
      rw [hname] at hval0 hnd0
      subst h1
      rw [updateDefaults_vals dodo hdodo p0 o.name, hnd0, hval0]
      unfold specOf
      rw [specValue_dodo, hsv']
      by_cases hc : ((envOf env o).isSome || !(occurrences spec o ps').isEmpty) = true
      · simp only [hc, if_true]; exact ⟨v0, rfl, rfl⟩
      · simp only [hc]
        cases alookup o.name dodo with
        | none => exact ⟨v0, rfl, rfl⟩
        | some dv => exact ⟨dv, rfl, rfl⟩

end DoitModel.Opt
