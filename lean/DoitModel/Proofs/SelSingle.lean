import DoitModel.Proofs.Sel
/-! helper lemmas for the selection model (M8): re-initialisation, `--single`, closure -/
namespace DoitModel.Sel

/-- when the loop never meets a task whose options are already initialised, the pinned code (before dcfe778) and the
    current code agree -/
theorem pf_head_eq_spec (ts : List Task) (n : Nat) (ini args : List Tok) (h : reinitB ts n ini args = false) :
    pf ts true n ini args = pf ts false n ini args := by
  induction n generalizing ini args with
  | zero => simp [pf]
  | succ n ih =>
    cases args with
    | nil => simp [pf]
    | cons a rest =>
      simp only [pf, reinitB] at h ⊢
      by_cases hs : hasStar a = true
      · simp only [hs, if_true] at h ⊢
        rw [ih _ _ h]
      · have hs' : hasStar a = false := by simpa using hs
        simp only [hs', Bool.false_eq_true, if_false] at h ⊢
        cases hf : find ts a with
        | none => simp only [hf] at h ⊢; rw [ih _ _ h]
        | some t =>
          simp only [hf] at h ⊢
          by_cases hi : ini.contains a = true
          · simp only [hi, if_true] at h; cases h
          · have hi' : ini.contains a = false := by simpa using hi
            simp only [hi', Bool.false_eq_true, if_false] at h ⊢
            cases hd : dropOpts t.params rest with
            | none => rfl
            | some rest' =>
              simp only [hd] at h ⊢
              by_cases hp : t.posArg = true
              · simp [hp]
              · have hp' : t.posArg = false := by simpa using hp
                simp only [hp', Bool.false_eq_true, if_false] at h ⊢
                rw [ih _ _ h]

/-! ## `--single` -/

theorem find_name (ts : List Task) (a : Tok) (t : Task) (h : find ts a = some t) : t.name = a := by
  unfold find at h
  have := List.find?_some h
  simpa using this

theorem find_clearDeps (ts : List Task) (V : List Tok) (n : Tok) :
    find (clearDeps ts V) n = (find ts n).map (fun t => if V.contains t.name then { t with taskDep := [] } else t) := by
  unfold find clearDeps
  rw [List.find?_map]
  have : ((fun t : Task => t.name == n) ∘ fun t => if V.contains t.name then { t with taskDep := [] } else t)
      = fun t : Task => t.name == n := by
    funext t
    simp only [Function.comp]
    split <;> rfl
  rw [this]

/-- `n`'s task_dep list is empty (if `n` is a task at all) -/
def Cleared (ts : List Task) (n : Tok) : Prop := ∀ t, find ts n = some t → t.taskDep = []

/-- what `--single` promises about a named task -/
def SingleOK (ts : List Task) (n : Tok) : Prop :=
  ∀ t, find ts n = some t →
    (t.hasSubtask = false → t.taskDep = []) ∧ (t.hasSubtask = true → ∀ d ∈ t.taskDep, Cleared ts d)

theorem step_shape (ts : List Task) (m n : Tok) (t' : Task) (h : find (singleStep ts m) n = some t') :
    ∃ t, find ts n = some t ∧ t'.hasSubtask = t.hasSubtask ∧ t'.name = t.name ∧
      (t'.taskDep = t.taskDep ∨ t'.taskDep = []) := by
  unfold singleStep at h
  cases hm : find ts m with
  | none => simp only [hm] at h; exact ⟨t', h, rfl, rfl, Or.inl rfl⟩
  | some tm =>
    simp only [hm] at h
    have key : ∀ V, find (clearDeps ts V) n = some t' → ∃ t, find ts n = some t ∧ t'.hasSubtask = t.hasSubtask ∧
        t'.name = t.name ∧ (t'.taskDep = t.taskDep ∨ t'.taskDep = []) := by
      intro V hV
      rw [find_clearDeps] at hV
      cases hn : find ts n with
      | none => simp [hn] at hV
      | some t =>
        simp only [hn, Option.map_some, Option.some.injEq] at hV
        refine ⟨t, rfl, ?_⟩
        split at hV <;> subst hV <;> simp
    split at h
    · exact key _ h
    · exact key _ h

theorem cleared_step (ts : List Task) (m n : Tok) (h : Cleared ts n) : Cleared (singleStep ts m) n := by
  intro t' ht'
  rcases step_shape ts m n t' ht' with ⟨t, ht, _, _, hd | hd⟩
  · rw [hd]; exact h t ht
  · exact hd

theorem cleared_of_victim (ts : List Task) (V : List Tok) (d : Tok) (hd : d ∈ V) : Cleared (clearDeps ts V) d := by
  intro t' ht'
  rw [find_clearDeps] at ht'
  cases hn : find ts d with
  | none => simp [hn] at ht'
  | some t =>
    have hname := find_name ts d t hn
    simp only [hn, Option.map_some, Option.some.injEq] at ht'
    have : V.contains t.name = true := by simp [hname, hd]
    simp only [this, if_true] at ht'
    subst ht'; rfl

theorem singleOK_step_self (ts : List Task) (n : Tok) : SingleOK (singleStep ts n) n := by
  intro t' ht'
  have hshape := step_shape ts n n t' ht'
  rcases hshape with ⟨t, ht, hsub, hname, hdeps⟩
  unfold singleStep at ht' ⊢
  simp only [ht] at ht' ⊢
  by_cases hg : t.hasSubtask = true
  · simp only [hg, if_true] at ht' ⊢
    refine ⟨fun h => ?_, fun _ d hd => ?_⟩
    · rw [hsub, hg] at h; cases h
    apply cleared_of_victim
    rcases hdeps with h | h
    · rw [h] at hd; exact hd
    · rw [h] at hd; cases hd
  · have hg' : t.hasSubtask = false := by simpa using hg
    simp only [hg', Bool.false_eq_true, if_false] at ht' ⊢
    refine ⟨fun _ => ?_, fun h => ?_⟩
    · exact cleared_of_victim ts [n] n (by simp) t' ht'
    · rw [hsub, hg'] at h; cases h

theorem singleOK_step (ts : List Task) (m n : Tok) (h : SingleOK ts n) : SingleOK (singleStep ts m) n := by
  intro t' ht'
  rcases step_shape ts m n t' ht' with ⟨t, ht, hsub, _, hdeps⟩
  have ⟨h1, h2⟩ := h t ht
  refine ⟨fun hs => ?_, fun hs d hd => ?_⟩
  · rcases hdeps with hd | hd
    · rw [hd]; exact h1 (by rw [← hsub]; exact hs)
    · exact hd
  · rcases hdeps with hd' | hd'
    · rw [hd'] at hd
      exact cleared_step ts m d (h2 (by rw [← hsub]; exact hs) d hd)
    · rw [hd'] at hd; cases hd

theorem singleOK_foldl (ts : List Task) (sel : List Tok) (n : Tok) (h : SingleOK ts n) :
    SingleOK (sel.foldl singleStep ts) n := by
  induction sel generalizing ts with
  | nil => exact h
  | cons m rest ih => exact ih _ (singleOK_step ts m n h)

theorem applySingle_ok (ts : List Task) (sel : List Tok) : ∀ n ∈ sel, SingleOK (applySingle ts sel) n := by
  unfold applySingle
  induction sel generalizing ts with
  | nil => intro n hn; cases hn
  | cons m rest ih =>
    intro n hn
    simp only [List.foldl_cons]
    rcases List.mem_cons.1 hn with rfl | hn
    · exact singleOK_foldl _ rest n (singleOK_step_self ts n)
    · exact ih _ n hn

end DoitModel.Sel
