import DoitModel.Model.RunData
/-! # C08 (I10), step 1: the relational denotation `DenOf` — total on no hypothesis, functional, schedule-free -/
namespace DoitModel.Run

/-- graphs without calc_dep (accepted restriction of the confluence proof) -/
def NoCalc (inp : RunInput) : Prop := ∀ n, inp.calcDep n = []

/-- `DenOf inp n d`: `d` is the outcome of `n` in a complete run, derived bottom-up from the outcomes of its
    task_deps and (only when the first pass says `run`) of its setup-tasks.  No acyclicity hypothesis: on a cyclic
    graph no derivation exists. -/
inductive DenOf (inp : RunInput) : Name → Den → Prop
  | mk (n : Name) (dd : Name → Den)
      (hT : ∀ d ∈ inp.taskDep n, DenOf inp d (dd d))
      (hS : stage1 inp dd n = .run → ∀ d ∈ inp.setup n, DenOf inp d (dd d)) :
      DenOf inp n (combine inp dd n)

theorem any_congr {l : List Name} {f g : Name → Bool} (h : ∀ d ∈ l, f d = g d) : l.any f = l.any g := by
  induction l with
  | nil => rfl
  | cons a t ih =>
    simp only [List.any_cons]
    rw [h a (by simp), ih (fun d hd => h d (by simp [hd]))]

theorem stage1_congr {inp : RunInput} {dd dd' : Name → Den} {n : Name} (h : ∀ d ∈ inp.taskDep n, dd d = dd' d) :
    stage1 inp dd n = stage1 inp dd' n := by
  unfold stage1
  rw [any_congr (f := fun d => (dd d).isIgn) (g := fun d => (dd' d).isIgn) (fun d hd => by simp only [h d hd]),
      any_congr (f := fun d => (dd d).isFail) (g := fun d => (dd' d).isFail) (fun d hd => by simp only [h d hd])]

theorem stage2_congr {inp : RunInput} {dd dd' : Name → Den} {n : Name} (h : ∀ d ∈ inp.setup n, dd d = dd' d) :
    stage2 inp dd n = stage2 inp dd' n := by
  unfold stage2
  rw [any_congr (f := fun d => (dd d).isIgn) (g := fun d => (dd' d).isIgn) (fun d hd => by simp only [h d hd]),
      any_congr (f := fun d => (dd d).isFail) (g := fun d => (dd' d).isFail) (fun d hd => by simp only [h d hd])]

theorem combine_congr {inp : RunInput} {dd dd' : Name → Den} {n : Name} (hT : ∀ d ∈ inp.taskDep n, dd d = dd' d)
    (hS : stage1 inp dd n = .run → ∀ d ∈ inp.setup n, dd d = dd' d) : combine inp dd n = combine inp dd' n := by
  unfold combine
  rw [← stage1_congr hT]
  cases h1 : stage1 inp dd n with
  | run => simp only []; exact stage2_congr (hS h1)
  | _ => rfl

theorem resDen_ne_bot (o : Outcome) : resDen o ≠ .bot := by cases o <;> simp [resDen]

theorem stage2_ne_bot (inp : RunInput) (dd : Name → Den) (n : Name) : stage2 inp dd n ≠ .bot := by
  unfold stage2
  split; · simp
  split; · simp
  split
  · exact resDen_ne_bot _
  · simp

theorem combine_ne_bot (inp : RunInput) (dd : Name → Den) (n : Name) : combine inp dd n ≠ .bot := by
  unfold combine
  cases stage1 inp dd n <;> simp [stage2_ne_bot]

/-- a derived outcome is never "undetermined" -/
theorem DenOf.ne_bot {inp : RunInput} {n : Name} {d : Den} (h : DenOf inp n d) : d ≠ .bot := by
  cases h with
  | mk n dd hT hS => exact combine_ne_bot inp dd n

/-- the denotation is a partial function of the input: no schedule, no choice enters it -/
theorem DenOf.functional {inp : RunInput} {n : Name} {a b : Den} (ha : DenOf inp n a) (hb : DenOf inp n b) : a = b := by
  induction ha generalizing b with
  | mk n dd hT hS ihT ihS =>
    cases hb with
    | mk _ dd' hT' hS' =>
      have eT : ∀ d ∈ inp.taskDep n, dd d = dd' d := fun d hd => ihT d hd (hT' d hd)
      apply combine_congr eT
      intro h1 d hd
      have h1' : stage1 inp dd' n = .run := by rw [← stage1_congr eT]; exact h1
      exact ihS h1 d hd (hS' h1' d hd)

/-- the fields of the input the denotation reads -/
structure SameTasks (a b : RunInput) : Prop where
  taskDep : a.taskDep = b.taskDep
  setup : a.setup = b.setup
  ignored : a.ignored = b.ignored
  statusOf : a.statusOf = b.statusOf
  always : a.always = b.always
  outcome : a.outcome = b.outcome
  argsOk : a.argsOk = b.argsOk
  calcDep : a.calcDep = b.calcDep

theorem SameTasks.refl (a : RunInput) : SameTasks a a := ⟨rfl, rfl, rfl, rfl, rfl, rfl, rfl, rfl⟩
theorem SameTasks.symm {a b : RunInput} (h : SameTasks a b) : SameTasks b a :=
  ⟨h.1.symm, h.2.symm, h.3.symm, h.4.symm, h.5.symm, h.6.symm, h.7.symm, h.8.symm⟩

theorem stage1_same {a b : RunInput} (h : SameTasks a b) (dd : Name → Den) (n : Name) :
    stage1 a dd n = stage1 b dd n := by
  unfold stage1 effStatus; rw [h.taskDep, h.ignored, h.statusOf, h.always]

theorem stage2_same {a b : RunInput} (h : SameTasks a b) (dd : Name → Den) (n : Name) :
    stage2 a dd n = stage2 b dd n := by
  unfold stage2; rw [h.setup, h.argsOk, h.outcome]

theorem combine_same {a b : RunInput} (h : SameTasks a b) (dd : Name → Den) (n : Name) :
    combine a dd n = combine b dd n := by
  simp only [combine, stage1_same h, stage2_same h]

theorem DenOf.same {a b : RunInput} (h : SameTasks a b) {n : Name} {d : Den} (hd : DenOf a n d) : DenOf b n d := by
  induction hd with
  | mk n dd hT hS ihT ihS =>
    rw [combine_same h]
    refine DenOf.mk n dd ?_ ?_
    · intro d hd; rw [← h.taskDep] at hd; exact ihT d hd
    · intro h1 d hd; rw [← h.setup] at hd; rw [← stage1_same h] at h1; exact ihS h1 d hd

/-- `DenOf` depends only on taskDep, setup, ignored, statusOf, always, outcome, argsOk -/
theorem DenOf_congr {a b : RunInput} (h : SameTasks a b) (n : Name) (d : Den) : DenOf a n d ↔ DenOf b n d :=
  ⟨fun x => x.same h, fun x => x.same h.symm⟩

/-- in particular: not on the runner kind and the number of processes -/
theorem DenOf_runner (inp : RunInput) (r : RunnerKind) (k : Nat) (n : Name) (d : Den) :
    DenOf { inp with runner := r, numProc := k } n d ↔ DenOf inp n d :=
  DenOf_congr (a := { inp with runner := r, numProc := k }) (b := inp) ⟨rfl, rfl, rfl, rfl, rfl, rfl, rfl, rfl⟩ n d

theorem any_isBot_false {l : List Name} {f : Name → Den} (h : ¬ (l.any (fun d => (f d).isBot) = true)) :
    ∀ d ∈ l, f d ≠ .bot := by
  intro d hd e
  apply h
  rw [List.any_eq_true]
  exact ⟨d, hd, by rw [e]; rfl⟩

/-- the executable fuel version is sound: any determined answer is THE outcome -/
theorem denF_sound (inp : RunInput) : ∀ (f : Nat) (n : Name), denF inp f n ≠ .bot → DenOf inp n (denF inp f n) := by
  intro f
  induction f with
  | zero => intro n h; exact absurd rfl h
  | succ f ih =>
    intro n h
    simp only [denF] at h ⊢
    split at h
    · exact absurd rfl h
    · rename_i hT
      simp only [hT] at ⊢
      split at h
      · exact absurd rfl h
      · rename_i hS
        simp only [hS, if_false]
        refine DenOf.mk n (denF inp f) ?_ ?_
        · intro d hd; exact ih d (any_isBot_false hT d hd)
        · intro h1 d hd
          have : ¬ ((inp.setup n).any (fun d => (denF inp f d).isBot) = true) := fun x => hS ⟨h1, x⟩
          exact ih d (any_isBot_false this d hd)

end DoitModel.Run
