import DoitModel.Proofs.C08Dyn11
import DoitModel.Proofs.C08Conf12
/-! # C08 (I10) with calc_dep, closure, part 2c: at a complete end of a run (normal end, not stopped, no exception) the
    reported tasks are exactly the denotational closure `Dyn.DenCl` of the selection -/
namespace DoitModel.Run.Dyn

/-- at a complete end every entry of `task.calc_dep` of every node has a node -/
theorem end_calc_created {inp : RunInput} {s : Sys} (hr : Reach inp s ∨ PReach inp s) (hE : EndFacts inp s)
    (t : Name) (nd : Node) (hn : s.nodes t = some nd) (d : Name) (hd : d ∈ nd.dynCalc) : created s d := by
  have hpc := hE.allDone t nd hn
  have h1 : Inv1 inp s := by rcases hr with a | a; exact (reach_inv2 a).inv1; exact (preach_inv a).1.inv1
  have hm := (h1.node t nd hn).m1 (by rw [hpc]; rfl)
  have hA : NodeA s nd := by
    rcases hr with a | a
    · exact (reach_invL a).d.a1 t nd hn
    · exact (preach_invP a).d.a1 t nd hn
  rcases hA.c d hd with a | ⟨_, a, _⟩ | a
  · rw [hm.2.1] at a; cases a
  · rw [hpc] at a; cases a
  · exact a

/-- at a point where the node waits for nothing, the calc_deps of the denotation are in `task.calc_dep` -/
theorem CalcR.mem_dyn {inp : RunInput} {s : Sys} {n : Name} {nd : Node} (hok : NodeOK inp s n nd)
    (sd : SelDeps inp s n nd) {c : Name} (h : CalcR inp n c) : c ∈ nd.dynCalc := by
  induction h with
  | static hc => exact hok.st.2 _ hc
  | @deliv c x d _ hd hm ih =>
    have hin : c ∈ nd.dynTask ++ nd.dynCalc := by simp [ih]
    have e : d = ddOf inp s c := hd.functional (sd.hT c hin)
    subst e
    rcases delivOf_cases inp c (ddOf inp s c) with ⟨hg, e⟩ | ⟨hg, hsf, e⟩ | e
    · rw [e] at hm; rw [sd.rs c hin] at hg
      exact (sd.deliv c ih hg).2.2 x hm
    · rw [e] at hm; rw [sd.rs c hin] at hg
      exact (sd.delivF c ih (sd.cls c hin).1 hg hsf).2.2 x hm
    · rw [e] at hm; cases hm

/-- at a complete end every member of the denotational closure has been reported -/
theorem closure_reported {inp : RunInput} {s : Sys} (hr : Reach inp s ∨ PReach inp s)
    (hend : s.rpc = .halted) (hhalt : s.halt = .none) (hstop : s.stop = false) (t : Name) (h : DenCl inp t) :
    Reported s t := by
  have hE : EndFacts inp s := by
    rcases hr with a | a
    · exact endFacts_serial a hend hhalt hstop
    · exact endFacts_parallel a hend hhalt hstop
  have hP2 : InvP2 inp s := by rcases hr with a | a; exact reach_invP2 a; exact preach_invP2 a
  have h2 : Inv2 inp s := by rcases hr with a | a; exact reach_inv2 a; exact (preach_inv a).1
  have hD : InvDen inp s := by rcases hr with a | a; exact reach_invDen a; exact preach_invDen a
  have hG : InvG inp s := by rcases hr with a | a; exact reach_invG a; exact preach_invG a
  have sdOf : ∀ t nd, s.nodes t = some nd → SelDeps inp s t nd := fun t nd hn =>
    sel_deps hD.den hD.nodeS h2.inv1 hG.dc hn (by rw [hE.allDone t nd hn]; rfl) (by rw [hE.allDone t nd hn]; rfl)
      (hD.delivF h2.inv1 hn (by rw [hE.allDone t nd hn]; rfl))
  have mk : ∀ t, DenCl inp t → created s t := by
    intro t ht
    induction ht with
    | ofSel hm => exact hE.sel _ hm
    | @ofTask t d _ hd ih =>
      obtain ⟨nd, hn⟩ := ih
      exact hE.dep t nd hn d ((h2.inv1.node t nd hn).st.1 d hd)
    | @ofCalc t c _ hc ih =>
      obtain ⟨nd, hn⟩ := ih
      exact end_calc_created hr hE t nd hn c (hc.mem_dyn (h2.inv1.node t nd hn) (sdOf t nd hn))
    | @ofDeliv t c x d _ hc hd hm ih =>
      obtain ⟨nd, hn⟩ := ih
      have sd := sdOf t nd hn
      have hcm := hc.mem_dyn (h2.inv1.node t nd hn) sd
      have hin : c ∈ nd.dynTask ++ nd.dynCalc := by simp [hcm]
      have e : d = ddOf inp s c := hd.functional (sd.hT c hin)
      subst e
      rcases delivOf_cases inp c (ddOf inp s c) with ⟨hg, e⟩ | ⟨hg, hsf, e⟩ | e
      · rw [e] at hm; rw [sd.rs c hin] at hg
        obtain ⟨d1, d2, _⟩ := sd.deliv c hcm hg
        rcases hm with m | m
        · exact hE.dep t nd hn x (d1 x m)
        · exact hE.dep t nd hn x (d2 x m)
      · rw [e] at hm; rw [sd.rs c hin] at hg
        obtain ⟨d1, d2, _⟩ := sd.delivF c hcm (sd.cls c hin).1 hg hsf
        rcases hm with m | m
        · exact hE.dep t nd hn x (d1 x m)
        · exact hE.dep t nd hn x (d2 x m)
      · rw [e] at hm; rcases hm with m | m <;> cases m
    | @ofSetup t d _ hr1 hd ih =>
      obtain ⟨nd, hn⟩ := ih
      rcases (hP2 t nd hn).fin (hE.allDone t nd hn) (hE.notNone t nd hn) with a | a | a
      · rw [a] at hd; cases hd
      · exact absurd hr1 a
      · exact a d hd
  exact (reported_iff_cTerm s t).mpr (by have := hE.rep t (mk t h); omega)

/-- closure equality: at a complete end of a run — serial or parallel, any schedule, any graph — exactly the members of
    the denotational closure of the selection have a terminal report -/
theorem reported_iff_closure {inp : RunInput} {s : Sys} (hr : Reach inp s ∨ PReach inp s)
    (hend : s.rpc = .halted) (hhalt : s.halt = .none) (hstop : s.stop = false) (t : Name) :
    Reported s t ↔ DenCl inp t :=
  ⟨reported_in_closure hr t, closure_reported hr hend hhalt hstop t⟩

end DoitModel.Run.Dyn
