import DoitModel.Proofs.Status
/-! # M2 — under the invariant, `get_status` decides exactly the specification -/
namespace DoitModel.Status

theorem fileVerdict_upToDate_iff (c : Checker) (r : Rcd) (fs : FS) (deps : List Path) :
    fileVerdict c r fs deps = .upToDate ↔ ∀ p, p ∈ deps → ∃ cur, fs p = some cur ∧ depVerdict c r cur p = .same := by
  unfold fileVerdict
  constructor
  · intro h
    cases h1 : deps.any (depMissing fs) with
    | true => simp [h1] at h
    | false =>
    cases h2 : deps.any (depIs .crash c r fs) with
    | true => simp [h1, h2] at h
    | false =>
    cases h3 : deps.any (depIs .modified c r fs) with
    | true => simp [h1, h2, h3] at h
    | false =>
      intro p hp
      have m1 := any_false_of h1 hp
      have m2 := any_false_of h2 hp
      have m3 := any_false_of h3 hp
      simp only [depMissing] at m1
      cases hf : fs p with
      | none => simp [hf] at m1
      | some cur =>
        refine ⟨cur, rfl, ?_⟩
        simp only [depIs, hf] at m2 m3
        cases hv : depVerdict c r cur p with
        | same => rfl
        | modified => simp [hv] at m3
        | crash => simp [hv] at m2
  · intro h
    have h1 : deps.any (depMissing fs) = false := by
      rw [List.any_eq_false]
      intro p hp
      obtain ⟨cur, hc, _⟩ := h p hp
      simp [depMissing, hc]
    have h2 : deps.any (depIs .crash c r fs) = false := by
      rw [List.any_eq_false]
      intro p hp
      obtain ⟨cur, hc, hv⟩ := h p hp
      simp [depIs, hc, hv]
    have h3 : deps.any (depIs .modified c r fs) = false := by
      rw [List.any_eq_false]
      intro p hp
      obtain ⟨cur, hc, hv⟩ := h p hp
      simp [depIs, hc, hv]
    simp [h1, h2, h3]

theorem early_eq (d : TaskDef) (vals : Values) (resOf : Name → Option Res) (fs : FS) :
    (!utdFalse vals resOf d.uptodate && (!d.deps.isEmpty || utdEvaluated vals resOf d.uptodate)
      && d.targets.all (fun p => (fs p).isSome)) = !earlyRun d vals resOf fs := by
  have : d.targets.all (fun p => (fs p).isSome) = !d.targets.any (depMissing fs) := by
    induction d.targets with
    | nil => rfl
    | cons a l ih =>
      simp only [List.all_cons, List.any_cons, ih, depMissing]
      cases fs a <;> simp
  simp only [earlyRun, this]
  cases utdFalse vals resOf d.uptodate <;> cases d.deps.isEmpty <;> cases utdEvaluated vals resOf d.uptodate <;>
    cases d.targets.any (depMissing fs) <;> rfl

theorem sameSet_mem {a b : List Path} (h : sameSet a b = true) {p : Path} (hp : p ∈ b) : p ∈ a := by
  unfold sameSet at h
  simp only [Bool.and_eq_true, List.all_eq_true, decide_eq_true_eq] at h
  exact h.2 p hp

/-- C03 ∧ C04 in one state: the status computed from the record is `up-to-date` exactly when the specification,
    which reads only the ghost state, says so -/
theorem decision_eq_spec {s : St} (h : Inv s) (t : Name) : s.status true t = .upToDate ↔ s.spec t = true := by
  have hres := resOf_eq_specRes h
  have hval := getValues_eq_last h t
  have hag := h.agree t
  unfold St.status St.spec statusOf specUpToDate
  rw [hres, hval, early_eq]
  cases hE : earlyRun (s.defs t) (lastValues (s.shadow t)) s.specRes s.fs with
  | true => simp
  | false =>
    simp only [Bool.false_eq_true, if_false, Bool.not_false, Bool.true_and]
    cases hs : s.shadow t with
    | none =>
      rw [hs] at hag
      obtain ⟨_, _, hck, hdeps, hfst⟩ := hag
      have hcc : checkerChanged s.checker (s.rcd t) = false := by simp [checkerChanged, hck]
      have hdc : depsChanged true (s.rcd t) (s.defs t).deps = false := by simp [depsChanged, hdeps]
      simp only [hcc, hdc, Bool.false_eq_true, if_false]
      have key := fileVerdict_upToDate_iff s.checker (s.rcd t) s.fs (s.defs t).deps
      constructor
      · intro hst
        have hv : fileVerdict s.checker (s.rcd t) s.fs (s.defs t).deps = .upToDate := by
          cases hfv : fileVerdict s.checker (s.rcd t) s.fs (s.defs t).deps <;> simp [hfv] at hst ⊢
        have := key.mp hv
        cases hd : (s.defs t).deps with
        | nil => rfl
        | cons a l =>
          obtain ⟨cur, _, hv⟩ := this a (by simp [hd])
          simp [depVerdict, hfst a] at hv
      · intro hd
        have hd' : (s.defs t).deps = [] := by simpa using hd
        have : fileVerdict s.checker (s.rcd t) s.fs (s.defs t).deps = .upToDate := by
          rw [hd']; simp [fileVerdict]
        simp [this]
    | some e =>
      rw [hs] at hag
      obtain ⟨_, _, hck, hdeps, hfst⟩ := hag
      by_cases hc : e.checker = s.checker
      · have hcc : checkerChanged s.checker (s.rcd t) = false := by simp [checkerChanged, hck, hc]
        have hdc : depsChanged true (s.rcd t) (s.defs t).deps = !sameSet e.deps (s.defs t).deps := by
          simp [depsChanged, hdeps]
        simp only [hcc, hdc, Bool.false_eq_true, if_false, hc, beq_self_eq_true, Bool.true_and]
        cases hss : sameSet e.deps (s.defs t).deps with
        | false =>
          simp only [Bool.not_false, if_true, Bool.false_and, Bool.false_eq_true, iff_false]
          cases fileVerdict s.checker (s.rcd t) s.fs (s.defs t).deps <;> simp
        | true =>
          simp only [Bool.not_true, Bool.false_eq_true, if_false, Bool.true_and]
          have key := fileVerdict_upToDate_iff s.checker (s.rcd t) s.fs (s.defs t).deps
          have hdep : ∀ p, p ∈ (s.defs t).deps → ∀ cur, s.fs p = some cur →
              (depVerdict s.checker (s.rcd t) cur p = .same ↔ depUnmod s.checker e s.fs p = true) := by
            intro p hp cur hcur
            obtain ⟨sm, hsaw, hst⟩ := hfst p (sameSet_mem hss hp)
            have hns : notSaved (s.rcd t) p = false := by
              simp [notSaved, hdeps, sameSet_mem hss hp]
            simp only [depVerdict, hst, hns, Bool.false_eq_true, if_false, depUnmod, hcur, hsaw, unmodBy, hc, beq_iff_eq]
          constructor
          · intro hst
            have hv : fileVerdict s.checker (s.rcd t) s.fs (s.defs t).deps = .upToDate := by
              cases hfv : fileVerdict s.checker (s.rcd t) s.fs (s.defs t).deps <;> simp [hfv] at hst ⊢
            rw [List.all_eq_true]
            intro p hp
            obtain ⟨cur, hcur, hv'⟩ := key.mp hv p hp
            exact (hdep p hp cur hcur).mp hv'
          · intro hall
            rw [List.all_eq_true] at hall
            have : fileVerdict s.checker (s.rcd t) s.fs (s.defs t).deps = .upToDate := by
              apply key.mpr
              intro p hp
              have hu := hall p hp
              cases hcur : s.fs p with
              | none => simp [depUnmod, hcur] at hu
              | some cur => exact ⟨cur, rfl, (hdep p hp cur hcur).mpr hu⟩
            simp [this]
      · have hcc : checkerChanged s.checker (s.rcd t) = true := by simp [checkerChanged, hck, hc]
        have : (e.checker == s.checker) = false := by simpa using hc
        simp [hcc, this]

end DoitModel.Status
