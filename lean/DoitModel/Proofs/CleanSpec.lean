import DoitModel.Proofs.CleanOrder
import DoitModel.Proofs.CleanBuild
/-! Helper lemmas for C14, part 4: de-duplication, the sub-task table, acyclicity test, gluing. -/
namespace DoitModel.Clean

/-! ### `clean_tasks`' de-duplication is the identity on a duplicate-free list -/
theorem dedup_of_nodup : ∀ (l seen : List Name), l.Nodup → (∀ x, x ∈ l → x ∉ seen) → dedup seen l = l := by
  intro l
  induction l with
  | nil => intro _ _ _; rfl
  | cons x xs ih =>
    intro seen hn hd
    simp only [List.nodup_cons] at hn
    have hx : x ∉ seen := hd x (by simp)
    simp only [dedup, hx, if_false]
    congr 1
    apply ih _ hn.2
    intro y hy hm
    simp only [List.mem_cons] at hm
    rcases hm with hm | hm
    · exact hn.1 (hm ▸ hy)
    · exact hd y (List.mem_cons_of_mem _ hy) hm

/-! ### `build_nodes` (no dependencies): keys are the listed tasks plus their direct sub-tasks -/
theorem buildNoDepsStep_keys (subs : Name → List Name) (ns : Nodes) (name x : Name) :
    x ∈ keys (buildNoDepsStep subs ns name) ↔ x ∈ keys ns ∨ x = name ∨ x ∈ subs name := by
  unfold buildNoDepsStep
  have : ∀ (ds : List Name) (ms : Nodes),
      x ∈ keys (ds.foldl (fun ns d => addRev d name ns) ms) ↔ x ∈ keys ms ∨ x ∈ ds := by
    intro ds
    induction ds with
    | nil => intro ms; simp
    | cons d ds ih =>
      intro ms
      simp only [List.foldl_cons, ih, mem_keys_addRev, List.mem_cons]
      constructor
      · intro h; rcases h with (h | h) | h
        · exact Or.inr (Or.inl h)
        · exact Or.inl h
        · exact Or.inr (Or.inr h)
      · intro h; rcases h with h | h | h
        · exact Or.inl (Or.inr h)
        · exact Or.inl (Or.inl h)
        · exact Or.inr h
  rw [this, mem_keys_setdef]
  constructor
  · intro h; rcases h with (h | h) | h
    · exact Or.inr (Or.inl h)
    · exact Or.inl h
    · exact Or.inr (Or.inr h)
  · intro h; rcases h with h | h | h
    · exact Or.inl (Or.inr h)
    · exact Or.inl (Or.inl h)
    · exact Or.inr h

theorem buildNoDepsStep_nodup (subs : Name → List Name) (ns : Nodes) (name : Name) (h : (keys ns).Nodup) :
    (keys (buildNoDepsStep subs ns name)).Nodup := by
  unfold buildNoDepsStep
  have : ∀ (ds : List Name) (ms : Nodes), (keys ms).Nodup →
      (keys (ds.foldl (fun ns d => addRev d name ns) ms)).Nodup := by
    intro ds
    induction ds with
    | nil => intro ms h; exact h
    | cons d ds ih => intro ms h; exact ih _ (nodup_keys_addRev h)
  exact this _ _ (nodup_keys_setdef h)

theorem buildNoDeps_spec (subs : Name → List Name) (cl : List Name) :
    (keys (buildNoDeps subs cl)).Nodup ∧
    ∀ x, x ∈ keys (buildNoDeps subs cl) ↔ x ∈ cl ∨ ∃ n, n ∈ cl ∧ x ∈ subs n := by
  unfold buildNoDeps
  have : ∀ (l : List Name) (ns : Nodes), (keys ns).Nodup →
      (keys (l.foldl (buildNoDepsStep subs) ns)).Nodup ∧
      ∀ x, x ∈ keys (l.foldl (buildNoDepsStep subs) ns) ↔ x ∈ keys ns ∨ x ∈ l ∨ ∃ n, n ∈ l ∧ x ∈ subs n := by
    intro l
    induction l with
    | nil => intro ns h; exact ⟨h, fun x => by simp⟩
    | cons a l ih =>
      intro ns h
      simp only [List.foldl_cons]
      obtain ⟨i1, i2⟩ := ih _ (buildNoDepsStep_nodup subs ns a h)
      refine ⟨i1, fun x => ?_⟩
      rw [i2, buildNoDepsStep_keys]
      simp only [List.mem_cons]
      constructor
      · intro hh
        rcases hh with (hh | hh | hh) | hh | ⟨n, hn, hx⟩
        · exact Or.inl hh
        · exact Or.inr (Or.inl (Or.inl hh))
        · exact Or.inr (Or.inr ⟨a, Or.inl rfl, hh⟩)
        · exact Or.inr (Or.inl (Or.inr hh))
        · exact Or.inr (Or.inr ⟨n, Or.inr hn, hx⟩)
      · intro hh
        rcases hh with hh | (hh | hh) | ⟨n, hn | hn, hx⟩
        · exact Or.inl (Or.inl hh)
        · exact Or.inl (Or.inr (Or.inl hh))
        · exact Or.inr (Or.inl hh)
        · rw [hn] at hx; exact Or.inl (Or.inr (Or.inr hx))
        · exact Or.inr (Or.inr ⟨n, hn, hx⟩)
  obtain ⟨a, b⟩ := this cl [] (by simp [keys])
  exact ⟨a, fun x => by rw [b]; simp [keys]⟩

theorem mem_subsRevOf (tbl : Table) (n x : Name) :
    x ∈ subsRevOf tbl n ↔ x ∈ taskDepOf tbl n ∧ isSubOf tbl x n = true := by
  simp [subsRevOf]

/-! ### the acyclicity test is sound: it yields a rank that strictly decreases along every dependency -/
theorem depsOf_nil_of_ge (tbl : Table) (a : Name) (h : tbl.length ≤ a) : depsOf tbl a = [] := by
  have : tbl[a]? = none := by simp [h]
  simp [depsOf, setupOf, taskDepOf, this]

theorem acyclicB_sound (tbl : Table) (h : acyclicB tbl = true) :
    ∀ a b, b ∈ depsOf tbl a →
      depth (depsOf tbl) (tbl.length + 1) b < depth (depsOf tbl) (tbl.length + 1) a := by
  intro a b hb
  by_cases ha : a < tbl.length
  · simp only [acyclicB, allNames, List.all_eq_true, List.mem_range, decide_eq_true_eq] at h
    exact h a ha b hb
  · rw [depsOf_nil_of_ge tbl a (Nat.le_of_not_lt ha)] at hb
    exact absurd hb (by simp)

/-! ### closure: the keys of the table built with dependencies are exactly what is reachable from the roots -/
theorem reach_in_closed {deps : Name → List Name} {S : Name → Prop}
    (hclosed : ∀ a, S a → ∀ b, b ∈ deps a → S b) {r x : Name} (hr : S r) (h : Reach deps r x) : S x := by
  induction h with
  | refl => exact hr
  | step _ hc ih => exact hclosed _ ih _ hc

/-- `clean_tasks`' de-duplication never removes anything: what `flat` emits is already duplicate-free -/
theorem dedup_flat (ns : Nodes) (h : (keys ns).Nodup) : dedup [] (flat ns).out = (flat ns).out :=
  dedup_of_nodup _ _ ((flat_spec ns).2.nodup_iff.2 h) (fun _ _ hm => by simp at hm)

theorem plan_order {tbl : Table} {r : Req} {base : List Name} {p : Plan}
    (hb : cleanList tbl r = .ok base) (hp : plan tbl r = .ok p) :
    p.order = dedup [] (flat (buildTree tbl r base).nodes).out := by
  simp only [plan, hb] at hp
  cases hp
  rfl

theorem tree_nodup {tbl : Table} {r : Req} {base : List Name} (hf : BuildFuelOk tbl r base) :
    (keys (buildTree tbl r base).nodes).Nodup := by
  unfold BuildFuelOk at hf
  unfold buildTree at hf ⊢
  by_cases hd : withDeps r = true
  · simp only [hd, if_true] at hf ⊢
    exact (buildAll_spec _ _ _ hf).1
  · simp only [hd] at hf ⊢
    exact (buildNoDeps_spec _ _).1


end DoitModel.Clean
