import DoitModel.Proofs.C19Json
/-! # C19: from the model's raw event list to its observable trace (`Run.trace`: internal `go` events and the start /
    end marks of action-less tasks removed) — the report discipline and the JSON document are unaffected -/
namespace DoitModel.Report
open DoitModel.Run

def keepOf (inp : RunInput) (e : Ev) : Bool := !hidden inp e

theorem foldl_filter_neutral {α : Type} (f : α → Ev → α) (keep : Ev → Bool)
    (hn : ∀ e, keep e = false → ∀ a, f a e = a) : ∀ (l : List Ev) (a : α), (l.filter keep).foldl f a = l.foldl f a
  | [], _ => rfl
  | e :: l, a => by
    cases hk : keep e with
    | true => simp [List.filter_cons, hk, foldl_filter_neutral f keep hn l]
    | false => simp [List.filter_cons, hk, hn e hk a, foldl_filter_neutral f keep hn l]

theorem jStep_hidden (inp : RunInput) (e : Ev) (h : keepOf inp e = false) (st : Option (List JEnt)) :
    jStep st e = st := by
  cases e <;> simp [keepOf, hidden] at h <;> cases st <;> rfl

/-- the JSON document computed from the observable trace is the one computed from the raw event list -/
theorem jsonOf_trace (inp : RunInput) (s : Sys) : jsonOf (trace inp s) = jsonOf s.events.reverse := by
  unfold jsonOf trace
  have : (s.events.filter fun e => !hidden inp e).reverse = s.events.reverse.filter (keepOf inp) := by
    rw [List.filter_reverse]; rfl
  rw [this, foldl_filter_neutral jStep (keepOf inp) (jStep_hidden inp)]

theorem any_filter_false {p keep : Ev → Bool} {l : List Ev} (h : l.any p = false) : (l.filter keep).any p = false := by
  cases ha : (l.filter keep).any p with
  | false => rfl
  | true =>
    obtain ⟨e, he, hp⟩ := List.any_eq_true.mp ha
    have : l.any p = true := List.any_eq_true.mpr ⟨e, (List.mem_filter.mp he).1, hp⟩
    rw [h] at this; cases this

theorem any_filter_kept {p keep : Ev → Bool} {l : List Ev} (hk : ∀ e, p e = true → keep e = true) :
    (l.filter keep).any p = l.any p := by
  cases ha : l.any p with
  | false => exact any_filter_false ha
  | true =>
    obtain ⟨e, he, hp⟩ := List.any_eq_true.mp ha
    exact List.any_eq_true.mpr ⟨e, List.mem_filter.mpr ⟨he, hk e hp⟩, hp⟩

theorem keep_gs (inp : RunInput) (n : Name) : ∀ e, Ev.isGetStatusOf n e = true → keepOf inp e = true := by
  intro e h; cases e <;> simp_all [Ev.isGetStatusOf, keepOf, hidden]
theorem keep_exec (inp : RunInput) (n : Name) : ∀ e, Ev.isExecOf n e = true → keepOf inp e = true := by
  intro e h; cases e <;> simp_all [Ev.isExecOf, keepOf, hidden]
theorem keep_term (inp : RunInput) (n : Name) : ∀ e, Ev.isTerminalOf n e = true → keepOf inp e = true := by
  intro e h; cases e <;> simp_all [Ev.isTerminalOf, keepOf, hidden]
theorem keep_start (inp : RunInput) (n : Name) (hn : inp.noAct n = false) :
    ∀ e, Ev.isStartOf n e = true → keepOf inp e = true := by
  intro e h; cases e <;> simp_all [Ev.isStartOf, keepOf, hidden]
theorem keep_fin (inp : RunInput) (n : Name) (hn : inp.noAct n = false) :
    ∀ e, Ev.isFinOf n e = true → keepOf inp e = true := by
  intro e h; cases e <;> simp_all [Ev.isFinOf, keepOf, hidden]

theorem firstFinal_filter (inp : RunInput) (n : Name) (post : List Ev) (h : firstFinal n post = true) :
    firstFinal n (post.filter (keepOf inp)) = true := by
  unfold firstFinal at *
  simp only [Bool.and_eq_true, Bool.not_eq_true'] at h ⊢
  exact ⟨by rw [any_filter_kept (keep_gs inp n)]; exact h.1, any_filter_false h.2⟩

/-- an observable event stays admissible when the unobservable events are removed from the older ones; for tasks
    without actions the requirement "the action ended" is what `noAct` waives -/
theorem repOK_filter (inp : RunInput) (ex fwd : Bool) (e : Ev) (post : List Ev) (hk : keepOf inp e = true)
    (h : repOK ex fwd (fun _ => false) e post = true) :
    repOK ex fwd inp.noAct e (post.filter (keepOf inp)) = true := by
  cases e with
  | getStatus n =>
    simp only [repOK, Bool.not_eq_true'] at h ⊢; exact any_filter_false h
  | execute n =>
    simp only [repOK, Bool.and_eq_true, Bool.not_eq_true'] at h ⊢
    exact ⟨firstFinal_filter inp n post h.1, any_filter_false h.2⟩
  | start n w =>
    simp only [repOK] at h ⊢
    rw [any_filter_kept (keep_exec inp n)]; exact h
  | fin n w =>
    have hn : inp.noAct n = false := by simpa [keepOf, hidden] using hk
    simp only [repOK] at h ⊢
    rw [any_filter_kept (keep_start inp n hn)]; exact h
  | success n =>
    simp only [repOK, Bool.and_eq_true, Bool.false_or] at h ⊢
    refine ⟨⟨firstFinal_filter inp n post h.1.1, ?_⟩, by rw [any_filter_kept (keep_exec inp n)]; exact h.2⟩
    cases hn : inp.noAct n with
    | true => rfl
    | false => rw [Bool.false_or, any_filter_kept (keep_fin inp n hn)]; exact h.1.2
  | failure n k =>
    cases k with
    | unmet =>
      simp only [repOK, Bool.and_eq_true, Bool.not_eq_true'] at h ⊢
      exact ⟨firstFinal_filter inp n post h.1, any_filter_false h.2.1, any_filter_false h.2.2⟩
    | depErr =>
      simp only [repOK, Bool.and_eq_true, Bool.and_true] at h ⊢
      exact firstFinal_filter inp n post h
    | failed =>
      simp only [repOK, Bool.and_eq_true, Bool.false_or] at h ⊢
      refine ⟨firstFinal_filter inp n post h.1, ?_, by rw [any_filter_kept (keep_exec inp n)]; exact h.2.2⟩
      cases hn : inp.noAct n with
      | true => rfl
      | false => rw [Bool.false_or, any_filter_kept (keep_fin inp n hn)]; exact h.2.1
    | error =>
      simp only [repOK, Bool.and_eq_true, Bool.false_or] at h ⊢
      refine ⟨firstFinal_filter inp n post h.1, ?_, by rw [any_filter_kept (keep_exec inp n)]; exact h.2.2⟩
      cases hn : inp.noAct n with
      | true => rfl
      | false => rw [Bool.false_or, any_filter_kept (keep_fin inp n hn)]; exact h.2.1
  | skipUtd n =>
    simp only [repOK, Bool.and_eq_true, Bool.not_eq_true'] at h ⊢
    exact ⟨⟨firstFinal_filter inp n post h.1.1, any_filter_false h.1.2⟩, any_filter_false h.2⟩
  | skipIgn n =>
    simp only [repOK, Bool.and_eq_true, Bool.not_eq_true'] at h ⊢
    exact ⟨⟨firstFinal_filter inp n post h.1.1, any_filter_false h.1.2⟩, any_filter_false h.2⟩
  | teardown n => rfl
  | complete => rfl
  | go n ds => rfl

theorem repOrd_filter (inp : RunInput) (ex fwd : Bool) : ∀ (evs : List Ev),
    repOrd ex fwd (fun _ => false) evs = true → repOrd ex fwd inp.noAct (evs.filter (keepOf inp)) = true
  | [], _ => rfl
  | e :: post, h => by
    simp only [repOrd, Bool.and_eq_true] at h
    have ih := repOrd_filter inp ex fwd post h.2
    cases hk : keepOf inp e with
    | false => simpa [List.filter_cons, hk] using ih
    | true =>
      simp only [List.filter_cons, hk, if_true, repOrd, Bool.and_eq_true]
      exact ⟨repOK_filter inp ex fwd e post hk h.1, ih⟩

/-- the observable trace, newest first -/
theorem trace_reverse (inp : RunInput) (s : Sys) : (trace inp s).reverse = s.events.filter (keepOf inp) := by
  unfold trace; rw [List.reverse_reverse]; rfl

end DoitModel.Report
