import DoitModel.Proofs.SelClosed
import DoitModel.Proofs.C12Main
/-! # C12 — from the run model (M1) to the order clause of the selection model (M8) -/
namespace DoitModel.Sel
open DoitModel

/-! ### list facts -/

theorem addNew_prefix (S l : List Tok) : ∃ e, addNew S l = S ++ e := by
  induction l generalizing S with
  | nil => exact ⟨[], by simp [addNew]⟩
  | cons m ms ih =>
    simp only [addNew]
    split
    · exact ih S
    · obtain ⟨e, he⟩ := ih (S ++ [m])
      exact ⟨m :: e, by rw [he]; simp⟩

/-- an element of the first `n` entries that is not in the accumulator lies beyond it: the accumulator is inside -/
theorem addNew_take_acc (S l : List Tok) (n : Nat) (x : Tok) (hx : x ∈ (addNew S l).take n) (hS : x ∉ S) :
    ∀ m ∈ S, m ∈ (addNew S l).take n := by
  obtain ⟨e, he⟩ := addNew_prefix S l
  rw [he] at hx ⊢
  rw [List.take_append] at hx ⊢
  intro m hm
  rcases List.mem_append.mp hx with a | a
  · exact absurd (List.mem_of_mem_take a) hS
  · have : S.length < n := by
      apply Classical.byContradiction; intro h
      have : n - S.length = 0 := by omega
      rw [this] at a; simp at a
    rw [List.take_of_length_le (by omega)]
    exact List.mem_append_left _ hm

/-- a member of the first `n` distinct selected names: everything given before its first occurrence is among them -/
theorem addNew_take_split (l : List Tok) : ∀ (S : List Tok) (n : Nat) (x : Tok), x ∈ (addNew S l).take n → x ∉ S →
    ∃ l1 l2, l = l1 ++ x :: l2 ∧ ∀ y ∈ l1, y ∈ (addNew S l).take n := by
  induction l with
  | nil => intro S n x hx hS; simp only [addNew] at hx; exact absurd (List.mem_of_mem_take hx) hS
  | cons m ms ih =>
    intro S n x hx hS
    have hacc := addNew_take_acc S (m :: ms) n x hx hS
    by_cases hm : S.contains m = true
    · have e0 : addNew S (m :: ms) = addNew S ms := by simp only [addNew, hm, if_true]
      rw [e0] at hx hacc ⊢
      obtain ⟨l1, l2, e, f⟩ := ih S n x hx hS
      refine ⟨m :: l1, l2, by rw [e]; rfl, ?_⟩
      intro y hy
      rcases List.mem_cons.mp hy with rfl | hy
      · exact hacc y (by simpa using hm)
      · exact f y hy
    · have e0 : addNew S (m :: ms) = addNew (S ++ [m]) ms := by simp only [addNew, hm]; rfl
      rw [e0] at hx hacc ⊢
      by_cases hxm : x = m
      · subst hxm; exact ⟨[], ms, rfl, fun y a => by cases a⟩
      · have hS' : x ∉ S ++ [m] := by simp [hS, hxm]
        obtain ⟨l1, l2, e, f⟩ := ih (S ++ [m]) n x hx hS'
        refine ⟨m :: l1, l2, by rw [e]; rfl, ?_⟩
        intro y hy
        rcases List.mem_cons.mp hy with rfl | hy
        · exact addNew_take_acc (S ++ [y]) ms n x hx hS' y (by simp)
        · exact f y hy

/-- `b` occurs before the first `a` in the image of `L` -/
theorem split_of_idx_lt {nm : Run.Name → Tok} (L : List Run.Name) (a b : Tok) (ha : a ∈ L.map nm)
    (hlt : idxOf (L.map nm) b < idxOf (L.map nm) a) :
    ∃ before a' after b', L = before ++ a' :: after ∧ nm a' = a ∧ b' ∈ before ∧ nm b' = b := by
  unfold idxOf at hlt
  have hq : (L.map nm).findIdx (· == a) < (L.map nm).length :=
    List.findIdx_lt_length_of_exists ⟨a, ha, by simp⟩
  have hp : (L.map nm).findIdx (· == b) < (L.map nm).length := by omega
  have eq : (L.map nm)[(L.map nm).findIdx (· == a)] == a := List.findIdx_getElem (w := hq)
  have ep : (L.map nm)[(L.map nm).findIdx (· == b)] == b := List.findIdx_getElem (w := hp)
  generalize (L.map nm).findIdx (· == a) = q at *
  generalize (L.map nm).findIdx (· == b) = p at *
  simp only [List.length_map] at hq hp
  simp only [List.getElem_map, beq_iff_eq] at eq ep
  refine ⟨L.take q, L[q], L.drop (q + 1), L[p], ?_, eq, ?_, ep⟩
  · rw [List.getElem_cons_drop, List.take_append_drop]
  · rw [List.mem_take_iff_getElem]
    exact ⟨p, by omega, rfl⟩

/-! ### the run input represents the task table -/

/-- `inp` is a serial run of the (prepared) task table `ts` with selection `sel`; `nm` gives the names of the run
    model's tasks.  Every edge the dispatcher can follow is an edge of the static graph `succs`: task_dep, calc_dep,
    the setup-tasks of a task that may run (`Run.MayRun`: not ignored and not up-to-date — for a task declared
    up-to-date, `Task.utd`, `succs` has no setup edge), and whatever a calc_dep task delivers. -/
structure Represents (ts : List Task) (sel : List Tok) (nm : Run.Name → Tok) (inp : Run.RunInput) : Prop where
  serial : inp.runner = .serial
  inj : ∀ a b, nm a = nm b → a = b
  sel : inp.sel.map nm = sel
  taskE : ∀ n d, d ∈ inp.taskDep n → nm d ∈ succs ts (nm n)
  calcE : ∀ n d, d ∈ inp.calcDep n → nm d ∈ succs ts (nm n)
  setupE : ∀ n d, Run.MayRun inp n → d ∈ inp.setup n → nm d ∈ succs ts (nm n)
  resE : ∀ c d, (d ∈ (inp.calcRes c).tasks ∨ d ∈ (inp.calcRes c).files ∨ d ∈ (inp.calcRes c).calcs) →
    nm d ∈ succs ts (nm c)
  resFE : ∀ c d, (d ∈ (inp.calcResFail c).tasks ∨ d ∈ (inp.calcResFail c).files ∨ d ∈ (inp.calcResFail c).calcs) →
    nm d ∈ succs ts (nm c)         -- also what a calc task returned before its execution failed (M1 `deliverF`)

theorem reach_mono (ts : List Task) (A B : List Tok) (h : ∀ x ∈ A, x ∈ B) (m : Tok) (hm : Reach ts A m) :
    Reach ts B m := by
  induction hm with
  | base n hn => exact .base n (h n hn)
  | step n m _ hm ih => exact .step n m ih hm

theorem cl_reach {ts : List Task} {sel : List Tok} {nm : Run.Name → Tok} {inp : Run.RunInput}
    (h : Represents ts sel nm inp) (pre : List Run.Name) (b : Run.Name) (hb : Run.Cl (Run.cutSel inp pre) b) :
    Reach ts (pre.map nm) (nm b) := by
  induction hb with
  | ofSel ht => exact .base _ (List.mem_map.mpr ⟨_, ht, rfl⟩)
  | ofTask _ hd ih => exact .step _ _ ih (h.taskE _ _ hd)
  | ofCalc _ hd ih => exact .step _ _ ih (h.calcE _ _ hd)
  | ofSetup _ hm hd ih => exact .step _ _ ih (h.setupE _ _ hm hd)
  | ofRes _ hd ih => exact .step _ _ ih (h.resE _ _ hd)
  | ofResFail _ hd ih => exact .step _ _ ih (h.resFE _ _ hd)

/-- the order clause for every reachable state of a serial run, in terms of `Reach` -/
theorem order_reach {ts : List Task} {sel : List Tok} {nm : Run.Name → Tok} {inp : Run.RunInput} {s : Run.Sys}
    (h : Represents ts sel nm inp) (hr : Run.Reach inp s) (i : Nat) (a b : Tok)
    (ha : a ∈ (addNew [] sel).take (i + 1)) (has : a ∈ (Run.startOrder s).map nm)
    (hlt : idxOf ((Run.startOrder s).map nm) b < idxOf ((Run.startOrder s).map nm) a) :
    Reach ts ((addNew [] sel).take (i + 1)) b := by
  obtain ⟨before, a', after, b', hso, ea, hb', eb⟩ := split_of_idx_lt _ a b has hlt
  obtain ⟨l1, l2, esel, hl1⟩ := addNew_take_split sel [] (i + 1) a ha (by simp)
  -- pull the split of `sel` back to the run model's selection
  have e1 := h.sel
  rw [esel, List.map_eq_append_iff] at e1
  obtain ⟨p1, p2', e2, e3, e4⟩ := e1
  rw [List.map_eq_cons_iff] at e4
  obtain ⟨a'', p2, e5, e6, _⟩ := e4
  have : a'' = a' := h.inj _ _ (by rw [e6, ea])
  subst this
  have hsel : inp.sel = (p1 ++ [a'']) ++ p2 := by rw [e2, e5]; simp
  have hcl := Run.serial_start_order h.serial hsel hr before a'' after hso (by simp) b' hb'
  have := cl_reach h (p1 ++ [a'']) b' hcl
  rw [eb] at this
  refine reach_mono ts _ _ ?_ b this
  intro x hx
  simp only [List.map_append, List.map_cons, List.map_nil, List.mem_append, List.mem_singleton] at hx
  rcases hx with hx | hx
  · rw [e3] at hx; exact hl1 x hx
  · rw [hx, e6]; exact ha

/-- the order clause of C12 (`orderPairsBad`, the clause `Sel.monitor` evaluates) holds of the start order of every
    reachable state of every serial run of the run model -/
theorem order_of_run {ts : List Task} {sel : List Tok} {nm : Run.Name → Tok} {inp : Run.RunInput} {s : Run.Sys}
    (h : Represents ts sel nm inp) (hr : Run.Reach inp s) :
    orderPairsBad ts sel ((Run.startOrder s).map nm) = [] := by
  unfold orderPairsBad
  simp only [List.flatMap_eq_nil_iff, List.filterMap_eq_nil_iff, List.mem_range]
  intro i hi j _
  have hmem := getD_mem_take (addNew [] sel) i hi
  generalize (addNew [] sel).getD i [] = a at *
  generalize (addNew [] sel).getD j [] = b at *
  split
  · next hc =>
    exfalso
    simp only [Bool.and_eq_true, decide_eq_true_eq, Bool.not_eq_true'] at hc
    obtain ⟨⟨⟨⟨_, ha⟩, _⟩, hlt⟩, hnot⟩ := hc
    have := closure_complete' ts _ b (order_reach h hr i a b hmem (List.contains_iff_mem.1 ha) hlt)
    rw [List.contains_iff_mem.2 this] at hnot
    cases hnot
  · rfl

end DoitModel.Sel
