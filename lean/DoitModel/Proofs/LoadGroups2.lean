import DoitModel.Proofs.LoadGroups
/-! every step of `_generate_task_from_yield` keeps the group invariant (no replacing yields) -/
namespace DoitModel.Load

theorem Inv.weaken {tk : Tasks} {seen seen' : List Name} (h : Inv tk seen) (hs : ∀ x ∈ seen, x ∈ seen') :
    Inv tk seen' :=
  ⟨h.keyName, fun p hp => hs _ (h.seenKeys p hp), h.hasGroup, h.groupDeps, h.groupPlain⟩

theorem dictToTask_plain (d : TDict) (t : Task) (h : dictToTask d = .ok t) :
    t.subtaskOf = none ∧ t.hasSubtask = false ∧ get d .name = some (.str t.name) := by
  obtain ⟨_, _, hi⟩ := dictToTask_ok d t h
  obtain ⟨_, nm, ga, hn, _, _, ht⟩ := initTask_ok d t hi
  subst ht
  exact ⟨rfl, rfl, hn⟩

theorem fullName_ne (b : Name) (nv : RawVal) (nf bf : Name) : fullName (.str b) nv nf bf ≠ b := by
  intro h
  have := congrArg List.length h
  simp [fullName, fmtOf] at this

theorem groupTask_ok (b : Name) (deps : List Name) (g : Task) (h : groupTask b deps = .ok g) :
    g.name = b ∧ g.taskDep = deps ∧ g.subtaskOf = none ∧ g.hasSubtask = true := by
  unfold groupTask at h
  split at h
  · simp at h
  · cases h; exact ⟨rfl, rfl, rfl, rfl⟩

theorem attachSub_inv {tk r : Tasks} {seen : List Name} (h : Inv tk seen) (b full : Name) (sub : Task)
    (hnew : lookup tk full = none) (hne : full ≠ b) (hname : sub.name = full) (hleaf : sub.hasSubtask = false)
    (hr : attachSub tk b full sub = .ok r) : Inv r (seen ++ [b, full]) := by
  unfold attachSub at hr
  split at hr
  · rename_i g hg
    split at hr
    · simp at hr
    · rename_i hgs
      cases hr
      have hgs' : g.hasSubtask = true := by simpa using hgs
      have h1 := h.insert_grow b g [full] hg
      have hsame : subsIn b (vals (insert tk b { g with taskDep := g.taskDep ++ [full] })) = subsIn b (vals tk) :=
        subsIn_insert_same tk b b g { g with taskDep := g.taskDep ++ [full] } hg rfl rfl
      have h2 := h1.insert_sub b full { g with taskDep := g.taskDep ++ [full] } { sub with subtaskOf := some b }
        g.taskDep (by rw [lookup_insert_ne _ _ _ _ hne]; exact hnew) hne (lookup_insert_self _ _ _) hgs' rfl
        (by rw [hsame]; exact h.groupDeps b g hg) hname rfl hleaf
      exact h2.weaken (by intro x hx; simp at hx ⊢; rcases hx with hx | hx <;> simp [hx])
  · rename_i hg
    split at hr
    · simp at hr
    · rename_i grp hgrp
      cases hr
      obtain ⟨gn, gd, gs, gh⟩ := groupTask_ok b [full] grp hgrp
      have h1 := h.insert_new b grp hg gn gs
      have hsubs : subsIn b (vals (insert tk b grp)) = [] := by
        rw [subsIn_insert_new tk b b grp hg, gs, h.subs_nil b hg]
        simp
      have h2 := h1.insert_sub b full grp { sub with subtaskOf := some b } []
        (by rw [lookup_insert_ne _ _ _ _ hne]; exact hnew) hne (lookup_insert_self _ _ _) gh (by simp [gd])
        (by rw [hsubs]; exact List.Sublist.refl _) hname rfl hleaf
      exact h2.weaken (by intro x hx; simp at hx ⊢; rcases hx with hx | hx | hx <;> simp [hx])

theorem hasKey_false (tk : Tasks) (k : Name) (h : ¬ hasKey tk k = true) : lookup tk k = none := by
  unfold hasKey at h
  cases hl : lookup tk k with
  | none => rfl
  | some g => simp [hl] at h

theorem yieldDict_inv {tk r : Tasks} {seen : List Name} (fn : Name) (d : TDict) (nf bf : Name) (h : Inv tk seen)
    (hr : yieldDict tk fn d nf bf = .ok r) : Inv r (seen ++ yieldKeys fn (.dict d nf bf)) := by
  unfold yieldDict at hr
  split at hr
  · simp at hr
  unfold yieldDictPinned at hr
  split at hr
  · rename_i nv hnv
    split at hr
    · -- attributes of the group task
      rename_i hnone
      subst hnone
      unfold yieldGroupAttrs at hr
      split at hr
      · simp at hr
      · rename_i g hd
        obtain ⟨gs, _, gname⟩ := dictToTask_plain _ g hd
        rw [get_put_ne _ _ _ _ (by decide), get_put_self] at gname
        have hbase : baseOf fn d = .str g.name := Option.some.inj gname
        have hkeys : yieldKeys fn (.dict d nf bf) = [g.name] := by
          simp [yieldKeys, hnv, hbase, fmtOf]
        rw [hkeys]
        split at hr
        · rename_i hnew
          cases hr
          exact h.insert_new g.name { g with hasSubtask := true } hnew rfl gs
        · rename_i ex hex
          split at hr
          · simp at hr
          · rename_i hexs
            cases hr
            have := h.insert_merge g.name ex { g with hasSubtask := true, taskDep := g.taskDep ++ ex.taskDep }
              g.taskDep hex (by simpa using hexs) rfl gs rfl rfl
            exact this.weaken (by intro x hx; simp [hx])
    · rename_i hnone
      unfold yieldSub at hr
      split at hr
      · simp at hr
      · rename_i hkey
        split at hr
        · simp at hr
        · rename_i sub hd
          obtain ⟨_, sleaf, sname⟩ := dictToTask_plain _ sub hd
          rw [get_put_self] at sname
          have hsn : sub.name = fullName (baseOf fn d) nv nf bf := by
            have := Option.some.inj sname
            exact (RawVal.str.inj this).symm
          unfold afterSub at hr
          split at hr
          · rename_i b hb
            have hkeys : yieldKeys fn (.dict d nf bf) = [b, fullName (.str b) nv nf bf] := by
              simp [yieldKeys, hnv, hnone, hb, fmtOf]
            rw [hkeys]
            rw [hb] at hkey hsn hr
            exact attachSub_inv h b _ sub (hasKey_false _ _ hkey) (fullName_ne b nv nf bf) hsn sleaf hr
          · split at hr <;> simp at hr
  · rename_i hnv
    unfold yieldPlain at hr
    split at hr
    · simp at hr
    · split at hr
      · simp at hr
      · split at hr
        · rename_i b hb
          split at hr
          · simp at hr
          · rename_i hkey
            split at hr
            · simp at hr
            · rename_i t hd
              cases hr
              obtain ⟨ts, _, tname⟩ := dictToTask_plain _ t hd
              rw [get_put_self] at tname
              have htn : t.name = b := (RawVal.str.inj (Option.some.inj tname)).symm
              have hkeys : yieldKeys fn (.dict d nf bf) = [b] := by
                simp [yieldKeys, hnv, hb, fmtOf]
              rw [hkeys]
              exact h.insert_new b t (hasKey_false _ _ hkey) htn ts
        · rename_i other hother
          split at hr
          · simp at hr
          · rename_i t hd
            exfalso
            obtain ⟨_, _, tname⟩ := dictToTask_plain _ t hd
            rw [get_put_self] at tname
            exact hother t.name (Option.some.inj tname)

theorem yieldOne_inv {tk r : Tasks} {seen : List Name} (fn : Name) (y : Yielded) (h : Inv tk seen)
    (hplain : ∀ t, y = .task t → plainTask t = true)
    (hr : yieldOne fn tk y = .ok r) : Inv r (seen ++ yieldKeys fn y) := by
  cases y with
  | other => simp [yieldOne] at hr
  | dict d nf bf => exact yieldDict_inv fn d nf bf h hr
  | task t =>
    simp only [yieldOne] at hr
    split at hr
    · simp at hr
    · rename_i hkey
      cases hr
      have hp := hplain t rfl
      simp only [plainTask, Bool.and_eq_true, Option.isNone_iff_eq_none] at hp
      simpa [yieldKeys] using h.insert_new t.name t (hasKey_false _ _ hkey) rfl hp.1

theorem yieldAll_inv (fn : Name) (ys : List Yielded) {tk r : Tasks} {seen : List Name} (h : Inv tk seen)
    (hplain : (yieldedTasks ys).all plainTask = true)
    (hr : yieldAll fn tk ys = .ok r) : ∃ seen', Inv r seen' := by
  induction ys generalizing tk seen with
  | nil => simp [yieldAll] at hr; cases hr; exact ⟨seen, h⟩
  | cons y rest ih =>
    unfold yieldAll at hr
    split at hr
    · simp at hr
    · rename_i tk' hy
      have hp1 : ∀ t, y = .task t → plainTask t = true := by
        intro t ht; subst ht
        simp [yieldedTasks] at hplain
        exact hplain.1
      have hp2 : (yieldedTasks rest).all plainTask = true := by
        cases y <;> simp_all [yieldedTasks]
      exact ih (yieldOne_inv fn y h hp1 hy) hp2 hr

end DoitModel.Load
