import DoitModel.Model.RunTeardown
/-! # C11, laziness monitor: list-level facts — `addNew`, the fuel of `calcsAt` / `lazyIter` suffices when all task
    names are below `nTasks`, monotonicity of the monitor's sets in the trace -/
namespace DoitModel.Run

theorem mem_addNew {x : Name} : ∀ (xs acc : List Name), x ∈ addNew acc xs ↔ x ∈ acc ∨ x ∈ xs := by
  intro xs
  induction xs with
  | nil => intro acc; simp [addNew]
  | cons b bs ih =>
    intro acc
    have e : addNew acc (b :: bs) = addNew (if b ∈ acc then acc else acc ++ [b]) bs := by simp [addNew]
    rw [e, ih]
    by_cases hb : b ∈ acc
    · simp only [hb, if_true, List.mem_cons]
      constructor
      · rintro (a | a); exact Or.inl a; exact Or.inr (Or.inr a)
      · rintro (a | a | a); exact Or.inl a; exact Or.inl (a ▸ hb); exact Or.inr a
    · simp only [hb, if_false, List.mem_append, List.mem_cons, List.not_mem_nil, or_false]
      constructor
      · rintro ((a | a) | a); exact Or.inl a; exact Or.inr (Or.inl a); exact Or.inr (Or.inr a)
      · rintro (a | a | a); exact Or.inl (Or.inl a); exact Or.inl (Or.inr a); exact Or.inr a

theorem addNew_eq_self : ∀ (xs acc : List Name), (∀ x ∈ xs, x ∈ acc) → addNew acc xs = acc := by
  intro xs
  induction xs with
  | nil => intro acc _; rfl
  | cons b bs ih =>
    intro acc h
    have e : addNew acc (b :: bs) = addNew (if b ∈ acc then acc else acc ++ [b]) bs := by simp [addNew]
    rw [e, if_pos (h b (by simp))]
    exact ih acc (fun x hx => h x (by simp [hx]))

/-! ### an extensive round function on lists of names below `n` reaches a closed list within `n` rounds -/

def iterF (F : List Name → List Name) : Nat → List Name → List Name
  | 0, cl => cl
  | k + 1, cl => iterF F k (F cl)

/-- names below `n` that are missing from `cl` -/
def missing (n : Nat) (cl : List Name) : Nat := (List.range n).countP fun x => decide (x ∉ cl)

theorem countP_lt {α} {p q : α → Bool} : ∀ {l : List α}, (∀ a ∈ l, p a = true → q a = true) →
    (∃ x ∈ l, q x = true ∧ p x = false) → l.countP p < l.countP q := by
  intro l
  induction l with
  | nil => intro _ ⟨x, hx, _⟩; cases hx
  | cons a t ih =>
    intro himp ⟨x, hx, hq, hp⟩
    have hle : t.countP p ≤ t.countP q :=
      List.countP_mono_left (fun b hb hpb => himp b (List.mem_cons_of_mem _ hb) hpb)
    rw [List.countP_cons, List.countP_cons]
    rcases List.mem_cons.mp hx with e | e
    · subst e; simp only [hq, hp, if_true]; simp; omega
    · have := ih (fun b hb => himp b (List.mem_cons_of_mem _ hb)) ⟨x, e, hq, hp⟩
      by_cases hpa : p a = true
      · simp only [hpa, himp a (by simp) hpa, if_true]; omega
      · have hpa' : p a = false := by simpa using hpa
        simp only [hpa', Bool.false_eq_true, if_false]
        split <;> omega

theorem missing_lt {n : Nat} {a b : List Name} (hsub : ∀ x ∈ a, x ∈ b) {x : Name} (hx : x < n) (hb : x ∈ b)
    (ha : x ∉ a) : missing n b < missing n a := by
  unfold missing
  apply countP_lt
  · intro y _ hy; simp only [decide_eq_true_eq] at hy ⊢; exact fun h => hy (hsub y h)
  · exact ⟨x, List.mem_range.mpr hx, by simpa using ha, by simpa using hb⟩

theorem missing_le (n : Nat) (cl : List Name) : missing n cl ≤ n := by
  unfold missing
  exact Nat.le_trans (List.countP_le_length) (by simp)

theorem missing_zero {n : Nat} {cl : List Name} (h : missing n cl = 0) {x : Name} (hx : x < n) : x ∈ cl := by
  unfold missing at h
  have := List.countP_eq_zero.mp h x (List.mem_range.mpr hx)
  simpa using this

structure Round (n : Nat) (F : List Name → List Name) : Prop where
  ext : ∀ cl x, x ∈ cl → x ∈ F cl
  fix : ∀ cl, (∀ x ∈ F cl, x ∈ cl) → F cl = cl
  bnd : ∀ cl, (∀ x ∈ cl, x < n) → ∀ x ∈ F cl, x < n

theorem iterF_fixed {F : List Name → List Name} {cl : List Name} (h : F cl = cl) : ∀ k, iterF F k cl = cl := by
  intro k; induction k with
  | zero => rfl
  | succ k ih => simp only [iterF, h, ih]

theorem iterF_ext {n : Nat} {F : List Name → List Name} (r : Round n F) : ∀ k cl x, x ∈ cl → x ∈ iterF F k cl := by
  intro k; induction k with
  | zero => intro cl x h; exact h
  | succ k ih => intro cl x h; exact ih _ x (r.ext cl x h)

theorem iterF_bnd {n : Nat} {F : List Name → List Name} (r : Round n F) : ∀ k cl, (∀ x ∈ cl, x < n) →
    ∀ x ∈ iterF F k cl, x < n := by
  intro k; induction k with
  | zero => intro cl h; exact h
  | succ k ih => intro cl h; exact ih _ (r.bnd cl h)

/-- after `k` rounds the list is closed, or `k` more of the names below `n` have been added -/
theorem iterF_progress {n : Nat} {F : List Name → List Name} (r : Round n F) : ∀ k cl, (∀ x ∈ cl, x < n) →
    (F (iterF F k cl) = iterF F k cl) ∨ missing n (iterF F k cl) + k ≤ missing n cl := by
  intro k
  induction k with
  | zero => intro cl _; exact Or.inr (by simp [iterF])
  | succ k ih =>
    intro cl hb
    by_cases hc : ∀ x ∈ F cl, x ∈ cl
    · have e := r.fix cl hc
      left; simp only [iterF, e, iterF_fixed e k]
    · simp only [iterF]
      rcases ih (F cl) (r.bnd cl hb) with a | a
      · exact Or.inl a
      · right
        have ⟨x, hx, hxn⟩ : ∃ x, x ∈ F cl ∧ x ∉ cl := by
          false_or_by_contra; rename_i hh
          exact hc (fun x hx => by false_or_by_contra; rename_i h2; exact hh ⟨x, hx, h2⟩)
        have := missing_lt (n := n) (r.ext cl) (r.bnd cl hb x hx) hx hxn
        omega

theorem iterF_closed {n : Nat} {F : List Name → List Name} (r : Round n F) {k : Nat} (hk : n ≤ k) {cl : List Name}
    (hb : ∀ x ∈ cl, x < n) : ∀ x ∈ F (iterF F k cl), x ∈ iterF F k cl := by
  rcases iterF_progress r k cl hb with a | a
  · intro x hx; rw [a] at hx; exact hx
  · have h0 : missing n (iterF F k cl) = 0 := by have := missing_le n cl; omega
    intro x hx
    exact missing_zero h0 (r.bnd _ (iterF_bnd r k cl hb) x hx)

/-! ### the two iterations of the monitor -/

structure BoundedP (inp : RunInput) (n : Nat) : Prop where
  sel : ∀ t ∈ inp.sel, t < n
  td : ∀ t, t < n → ∀ d ∈ inp.taskDep t, d < n
  cd : ∀ t, t < n → ∀ d ∈ inp.calcDep t, d < n
  su : ∀ t, t < n → ∀ d ∈ inp.setup t, d < n
  rt : ∀ t, t < n → ∀ d ∈ (inp.calcRes t).tasks, d < n
  rf : ∀ t, t < n → ∀ d ∈ (inp.calcRes t).files, d < n
  rc : ∀ t, t < n → ∀ d ∈ (inp.calcRes t).calcs, d < n
  ft : ∀ t, t < n → ∀ d ∈ (inp.calcResFail t).tasks, d < n
  ff : ∀ t, t < n → ∀ d ∈ (inp.calcResFail t).files, d < n
  fc : ∀ t, t < n → ∀ d ∈ (inp.calcResFail t).calcs, d < n
  na : ∀ t, t < n → inp.noAct t = true →
    (inp.calcResFail t).tasks = [] ∧ (inp.calcResFail t).files = [] ∧ (inp.calcResFail t).calcs = []

theorem Bounded.p {inp : RunInput} {n : Nat} (h : Bounded inp n) : BoundedP inp n := by
  unfold Bounded boundedB at h
  simp only [Bool.and_eq_true, List.all_eq_true, List.mem_range, decide_eq_true_eq, Bool.or_eq_true,
    Bool.not_eq_true', List.isEmpty_iff] at h
  refine ⟨h.1, fun t ht => (h.2 t ht).1.1.1.1.1.1.1.1.1, fun t ht => (h.2 t ht).1.1.1.1.1.1.1.1.2,
    fun t ht => (h.2 t ht).1.1.1.1.1.1.1.2, fun t ht => (h.2 t ht).1.1.1.1.1.1.2, fun t ht => (h.2 t ht).1.1.1.1.1.2,
    fun t ht => (h.2 t ht).1.1.1.1.2, fun t ht => (h.2 t ht).1.1.1.2, fun t ht => (h.2 t ht).1.1.2,
    fun t ht => (h.2 t ht).1.2, ?_⟩
  intro t ht hna
  rcases (h.2 t ht).2 with a | a
  · rw [hna] at a; cases a
  · exact ⟨a.1.1, a.1.2, a.2⟩

def roundC (inp : RunInput) (pre : List Ev) (cs : List Name) : List Name :=
  addNew cs ((cs.filter (finishedIn pre)).flatMap fun c => (inp.calcRes c).calcs)

theorem calcsAt_iter (inp : RunInput) (pre : List Ev) : ∀ k cs, calcsAt inp pre k cs = iterF (roundC inp pre) k cs := by
  intro k; induction k with
  | zero => intro cs; rfl
  | succ k ih => intro cs; simp only [calcsAt, iterF, roundC, ih]

theorem roundC_round {inp : RunInput} {n : Nat} (hb : BoundedP inp n) (pre : List Ev) : Round n (roundC inp pre) := by
  refine ⟨?_, ?_, ?_⟩
  · intro cl x hx; exact (mem_addNew _ _).mpr (Or.inl hx)
  · intro cl h
    exact addNew_eq_self _ _ (fun x hx => h x ((mem_addNew _ _).mpr (Or.inr hx)))
  · intro cl h x hx
    rcases (mem_addNew _ _).mp hx with a | a
    · exact h x a
    · simp only [List.mem_flatMap, List.mem_filter] at a
      obtain ⟨c, ⟨hc, _⟩, hxc⟩ := a
      exact hb.rc c (h c hc) x hxc

theorem calcsAt_ext (inp : RunInput) (pre : List Ev) : ∀ k cs x, x ∈ cs → x ∈ calcsAt inp pre k cs := by
  intro k; induction k with
  | zero => intro cs x h; exact h
  | succ k ih => intro cs x h; simp only [calcsAt]; exact ih _ x ((mem_addNew _ _).mpr (Or.inl h))

/-- with bounded names the fuel `n` closes `calcsAt` under the deliveries of its finished members -/
theorem calcsAt_closed {inp : RunInput} {n : Nat} (hb : BoundedP inp n) (pre : List Ev) {cs : List Name}
    (hcs : ∀ x ∈ cs, x < n) {c x : Name} (hc : c ∈ calcsAt inp pre n cs) (hf : finishedIn pre c = true)
    (hx : x ∈ (inp.calcRes c).calcs) : x ∈ calcsAt inp pre n cs := by
  rw [calcsAt_iter] at hc ⊢
  apply iterF_closed (roundC_round hb pre) (Nat.le_refl n) hcs
  unfold roundC
  refine (mem_addNew _ _).mpr (Or.inr ?_)
  simp only [List.mem_flatMap, List.mem_filter]
  exact ⟨c, ⟨hc, hf⟩, hx⟩

theorem calcsAt_bnd {inp : RunInput} {n : Nat} (hb : BoundedP inp n) (pre : List Ev) (k : Nat) {cs : List Name}
    (hcs : ∀ x ∈ cs, x < n) : ∀ x ∈ calcsAt inp pre k cs, x < n := by
  rw [calcsAt_iter]; exact iterF_bnd (roundC_round hb pre) k cs hcs

/-- what a calc task delivers according to the trace is one of its two oracle values, or nothing -/
theorem resAt_cases (inp : RunInput) (tr : List Ev) (c : Name) :
    resAt inp tr c = inp.calcRes c ∨ resAt inp tr c = inp.calcResFail c ∨ resAt inp tr c = {} := by
  unfold resAt; split
  · exact Or.inl rfl
  · split
    · exact Or.inr (Or.inl rfl)
    · exact Or.inr (Or.inr rfl)

theorem resAt_bnd {inp : RunInput} {n : Nat} (hb : BoundedP inp n) (tr : List Ev) {c : Name} (hc : c < n) :
    (∀ x ∈ (resAt inp tr c).calcs, x < n) ∧ (∀ x ∈ (resAt inp tr c).tasks, x < n) ∧
    (∀ x ∈ (resAt inp tr c).files, x < n) := by
  rcases resAt_cases inp tr c with e | e | e <;> rw [e]
  · exact ⟨hb.rc c hc, hb.rt c hc, hb.rf c hc⟩
  · exact ⟨hb.fc c hc, hb.ft c hc, hb.ff c hc⟩
  · exact ⟨fun x hx => (by simp at hx), fun x hx => (by simp at hx), fun x hx => (by simp at hx)⟩

def roundCF (inp : RunInput) (pre : List Ev) (cs : List Name) : List Name :=
  addNew cs (cs.flatMap fun c => (resAt inp pre c).calcs)

theorem calcsAtF_iter (inp : RunInput) (pre : List Ev) : ∀ k cs,
    calcsAtF inp pre k cs = iterF (roundCF inp pre) k cs := by
  intro k; induction k with
  | zero => intro cs; rfl
  | succ k ih => intro cs; simp only [calcsAtF, iterF, roundCF, ih]

theorem roundCF_round {inp : RunInput} {n : Nat} (hb : BoundedP inp n) (pre : List Ev) : Round n (roundCF inp pre) := by
  refine ⟨?_, ?_, ?_⟩
  · intro cl x hx; exact (mem_addNew _ _).mpr (Or.inl hx)
  · intro cl h
    exact addNew_eq_self _ _ (fun x hx => h x ((mem_addNew _ _).mpr (Or.inr hx)))
  · intro cl h x hx
    rcases (mem_addNew _ _).mp hx with a | a
    · exact h x a
    · simp only [List.mem_flatMap] at a
      obtain ⟨c, hc, hxc⟩ := a
      exact (resAt_bnd hb pre (h c hc)).1 x hxc

theorem calcsAtF_ext (inp : RunInput) (pre : List Ev) : ∀ k cs x, x ∈ cs → x ∈ calcsAtF inp pre k cs := by
  intro k; induction k with
  | zero => intro cs x h; exact h
  | succ k ih => intro cs x h; simp only [calcsAtF]; exact ih _ x ((mem_addNew _ _).mpr (Or.inl h))

/-- with bounded names the fuel `n` closes `calcsAtF` under the deliveries of its members -/
theorem calcsAtF_closed {inp : RunInput} {n : Nat} (hb : BoundedP inp n) (pre : List Ev) {cs : List Name}
    (hcs : ∀ x ∈ cs, x < n) {c x : Name} (hc : c ∈ calcsAtF inp pre n cs)
    (hx : x ∈ (resAt inp pre c).calcs) : x ∈ calcsAtF inp pre n cs := by
  rw [calcsAtF_iter] at hc ⊢
  apply iterF_closed (roundCF_round hb pre) (Nat.le_refl n) hcs
  unfold roundCF
  refine (mem_addNew _ _).mpr (Or.inr ?_)
  simp only [List.mem_flatMap]
  exact ⟨c, hc, hx⟩

theorem calcsAtF_bnd {inp : RunInput} {n : Nat} (hb : BoundedP inp n) (pre : List Ev) (k : Nat) {cs : List Name}
    (hcs : ∀ x ∈ cs, x < n) : ∀ x ∈ calcsAtF inp pre k cs, x < n := by
  rw [calcsAtF_iter]; exact iterF_bnd (roundCF_round hb pre) k cs hcs

/-! ### the successors of a task in the laziness closure -/

def setupOK (inp : RunInput) (nTasks : Nat) (tr : List Ev) (t d : Name) : Bool :=
  match firstMentionIdx tr d with
  | some i => runPending inp nTasks (tr.take i) t
  | none => runPending inp nTasks tr t

def succs (inp : RunInput) (nTasks : Nat) (tr : List Ev) (t : Name) : List Name :=
  inp.taskDep t ++ calcsAtF inp tr nTasks (inp.calcDep t) ++
    ((calcsAtF inp tr nTasks (inp.calcDep t)).flatMap fun c =>
      (resAt inp tr c).tasks ++ (resAt inp tr c).files) ++
    ((inp.setup t).filter fun d => setupOK inp nTasks tr t d)

theorem lazyOnce_eq (inp : RunInput) (nTasks : Nat) (tr : List Ev) (cl : List Name) :
    lazyOnce inp nTasks tr cl = cl.foldl (fun acc t => addNew acc (succs inp nTasks tr t)) cl := rfl

theorem mem_foldl_addNew {f : Name → List Name} {x : Name} : ∀ (l acc : List Name),
    x ∈ l.foldl (fun a t => addNew a (f t)) acc ↔ x ∈ acc ∨ ∃ t ∈ l, x ∈ f t := by
  intro l
  induction l with
  | nil => intro acc; simp
  | cons b bs ih =>
    intro acc
    rw [List.foldl_cons, ih, mem_addNew]
    constructor
    · rintro ((a | a) | ⟨t, ht, a⟩)
      · exact Or.inl a
      · exact Or.inr ⟨b, by simp, a⟩
      · exact Or.inr ⟨t, by simp [ht], a⟩
    · rintro (a | ⟨t, ht, a⟩)
      · exact Or.inl (Or.inl a)
      · rcases List.mem_cons.mp ht with e | e
        · subst e; exact Or.inl (Or.inr a)
        · exact Or.inr ⟨t, e, a⟩

theorem foldl_addNew_self {f : Name → List Name} : ∀ (l acc : List Name), (∀ t ∈ l, ∀ x ∈ f t, x ∈ acc) →
    l.foldl (fun a t => addNew a (f t)) acc = acc := by
  intro l
  induction l with
  | nil => intro acc _; rfl
  | cons b bs ih =>
    intro acc h
    rw [List.foldl_cons, addNew_eq_self _ _ (h b (by simp))]
    exact ih acc (fun t ht => h t (by simp [ht]))

theorem mem_lazyOnce {inp : RunInput} {nTasks : Nat} {tr : List Ev} {cl : List Name} {x : Name} :
    x ∈ lazyOnce inp nTasks tr cl ↔ x ∈ cl ∨ ∃ t ∈ cl, x ∈ succs inp nTasks tr t := by
  rw [lazyOnce_eq]; exact mem_foldl_addNew cl cl

theorem succs_bnd {inp : RunInput} {n : Nat} (hb : BoundedP inp n) (tr : List Ev) {t : Name} (ht : t < n) :
    ∀ x ∈ succs inp n tr t, x < n := by
  intro x hx
  have hc := calcsAtF_bnd hb tr n (hb.cd t ht)
  simp only [succs, List.mem_append, List.mem_flatMap, List.mem_filter] at hx
  rcases hx with ((a | a) | ⟨c, hcc, a | a⟩) | ⟨a, _⟩
  · exact hb.td t ht x a
  · exact hc x a
  · exact (resAt_bnd hb tr (hc c hcc)).2.1 x a
  · exact (resAt_bnd hb tr (hc c hcc)).2.2 x a
  · exact hb.su t ht x a

theorem lazyOnce_round {inp : RunInput} {n : Nat} (hb : BoundedP inp n) (tr : List Ev) :
    Round n (lazyOnce inp n tr) := by
  refine ⟨?_, ?_, ?_⟩
  · intro cl x hx; exact mem_lazyOnce.mpr (Or.inl hx)
  · intro cl h
    rw [lazyOnce_eq]
    exact foldl_addNew_self cl cl (fun t ht x hx => h x (mem_lazyOnce.mpr (Or.inr ⟨t, ht, hx⟩)))
  · intro cl h x hx
    rcases mem_lazyOnce.mp hx with a | ⟨t, ht, a⟩
    · exact h x a
    · exact succs_bnd hb tr (h t ht) x a

theorem lazyIter_iter (inp : RunInput) (n : Nat) (tr : List Ev) : ∀ k cl,
    lazyIter inp n tr k cl = iterF (lazyOnce inp n tr) k cl := by
  intro k; induction k with
  | zero => intro cl; rfl
  | succ k ih => intro cl; simp only [lazyIter, iterF, ih]

/-- the inductive reading of the laziness closure -/
inductive Just (inp : RunInput) (n : Nat) (tr : List Ev) : Name → Prop
  | sel {t} : t ∈ inp.sel → Just inp n tr t
  | step {t d} : Just inp n tr t → d ∈ succs inp n tr t → Just inp n tr d

/-- with bounded names the fuel `n + 1` of `monLazy` reaches everything that is justified -/
theorem just_mem_lazyIter {inp : RunInput} {n : Nat} (hb : BoundedP inp n) (tr : List Ev) {d : Name}
    (h : Just inp n tr d) : d ∈ lazyIter inp n tr (n + 1) (addNew [] inp.sel) := by
  have r := lazyOnce_round hb tr
  have hsel : ∀ x ∈ addNew [] inp.sel, x < n := by
    intro x hx
    rcases (mem_addNew _ _).mp hx with a | a
    · cases a
    · exact hb.sel x a
  rw [lazyIter_iter]
  induction h with
  | sel ht => exact iterF_ext r _ _ _ ((mem_addNew _ _).mpr (Or.inr ht))
  | step _ hd ih =>
    exact iterF_closed r (Nat.le_succ n) hsel _ (mem_lazyOnce.mpr (Or.inr ⟨_, ih, hd⟩))

end DoitModel.Run
