import DoitModel.Proofs.C08Conf6
/-! # C08 (I10), exit code: `final_result` is the fold of `_handle_task_error` over the failure reports of the trace,
    and that fold only depends on the *set* of reported failure kinds (no restriction on the graph) -/
namespace DoitModel.Run

def fstep (f : Nat) (e : Ev) : Nat :=
  match e with
  | .failure _ k => finalAfter f k
  | _ => f

/-- `exitOfTrace` of the reversed (newest first) event list -/
def exitR (l : List Ev) : Nat := l.foldr (fun e f => fstep f e) 0

theorem exitOfTrace_reverse (l : List Ev) : exitOfTrace l.reverse = exitR l := by
  unfold exitOfTrace exitR; rw [List.foldl_reverse]; rfl

def InvX (s : Sys) : Prop := s.final = exitR s.events

def Ev.noFail (e : Ev) : Prop := ∀ n k, e ≠ .failure n k

theorem exitR_append_noFail (new l : List Ev) (h : ∀ e ∈ new, Ev.noFail e) : exitR (new ++ l) = exitR l := by
  induction new with
  | nil => rfl
  | cons e t ih =>
    have ih' := ih (fun x hx => h x (by simp [hx]))
    show fstep (exitR (t ++ l)) e = exitR l
    rw [ih']
    have := h e (by simp)
    cases e <;> first | rfl | exact absurd rfl (this _ _)

theorem InvX.outer {s s' : Sys} (h : InvX s) (e1 : s'.final = s.final) (new : List Ev)
    (hev : s'.events = new ++ s.events) (hp : ∀ e ∈ new, Ev.noFail e) : InvX s' := by
  unfold InvX at *; rw [e1, hev, exitR_append_noFail new _ hp]; exact h

theorem InvX.same {s s' : Sys} (h : InvX s) (e1 : s'.final = s.final) (e2 : s'.events = s.events) : InvX s' :=
  h.outer e1 [] (by simpa using e2) (by simp)

theorem statusEv_noFail (nd : Node) (n : Name) : ∀ e ∈ statusEv nd n, Ev.noFail e := by
  intro e he; unfold statusEv at he; split at he
  · simp at he; subst he; intro _ _ x; cases x
  · cases he

theorem invX_failNode {inp : RunInput} {s : Sys} (n : Name) (nd : Node) (k : FailKind) (pre : List Ev) (h : InvX s)
    (hp : ∀ e ∈ pre, Ev.noFail e) : InvX (failNode inp s n nd k pre) := by
  unfold InvX at *
  show finalAfter s.final k = fstep (exitR (pre ++ s.events)) (Ev.failure n k)
  rw [exitR_append_noFail pre _ hp, h]; rfl

theorem invX_applySel {inp : RunInput} {s : Sys} (n : Name) (nd : Node) (dec : Sel) (h : InvX s) :
    InvX (applySel inp s n nd dec) := by
  have sn := statusEv_noFail nd n
  cases dec with
  | skipIgn =>
    refine h.outer rfl (Ev.skipIgn n :: statusEv nd n) rfl ?_
    intro e he; rcases List.mem_cons.mp he with rfl | a
    · intro _ _ x; cases x
    · exact sn e a
  | utd =>
    refine h.outer rfl (Ev.skipUtd n :: statusEv nd n) rfl ?_
    intro e he; rcases List.mem_cons.mp he with rfl | a
    · intro _ _ x; cases x
    · exact sn e a
  | runFirst => exact h.outer rfl (statusEv nd n) rfl sn
  | go =>
    refine h.outer rfl (Ev.go n (allDeps inp n nd) :: statusEv nd n) rfl ?_
    intro e he; rcases List.mem_cons.mp he with rfl | a
    · intro _ _ x; cases x
    · exact sn e a
  | unmet => exact invX_failNode n nd _ _ h sn
  | depErr => exact invX_failNode n nd _ _ h sn
  | argsErr => exact invX_failNode n nd _ _ h sn
  | assertFail => exact h

theorem invX_processResult {inp : RunInput} {s : Sys} (n : Name) (nd : Node) (h : InvX s) :
    InvX (processResult inp s n nd) := by
  unfold processResult
  split
  · refine h.outer rfl [Ev.success n] rfl ?_
    intro e he; simp at he; subst he; intro _ _ x; cases x
  · exact invX_failNode n nd _ _ h (by simp)
  · exact invX_failNode n nd _ _ h (by simp)
  · exact invX_failNode n nd _ _ h (by simp)

theorem start_noFail (inp : RunInput) (n w : Nat) :
    ∀ e ∈ (if inp.runner = .process then [Ev.start n w] else [Ev.start n w, Ev.execute n]), Ev.noFail e := by
  intro e he
  split at he <;> simp at he
  · subst he; intro _ _ x; cases x
  · rcases he with rfl | rfl <;> (intro _ _ x; cases x)

theorem teardown_noFail (l : List Name) : ∀ e ∈ Ev.complete :: l.map Ev.teardown, Ev.noFail e := by
  intro e he
  simp only [List.mem_cons, List.mem_map] at he
  rcases he with rfl | ⟨a, _, rfl⟩ <;> (intro _ _ x; cases x)

theorem fin_noFail (n w : Nat) : ∀ e ∈ [Ev.fin n w], Ev.noFail e := by
  intro e he; simp at he; subst he; intro _ _ x; cases x

theorem finishRun_invX {s : Sys} (h : InvX s) : InvX (finishRun s) :=
  h.outer rfl (Ev.complete :: s.tdown.map Ev.teardown) (by simp [finishRun]) (teardown_noFail _)

theorem init_invX (inp : RunInput) : InvX (init inp) := rfl

theorem outer_invX {s s' : Sys} (h : InvX s) (o : SameOuter s s') : InvX s' :=
  h.same o.2.2.2.2.2.2.1 o.1

theorem serialStep_invX {inp : RunInput} {s s' : Sys} {perm : List Name} (h : InvX s)
    (hs : serialStep inp s perm = some s') : InvX s' := by
  unfold serialStep at hs
  cases hr : s.rpc with
  | sTop node =>
    simp only [hr] at hs
    split at hs
    · cases hs; exact h.same rfl rfl
    · cases hsd : send inp s node perm with
      | none => simp only [hsd] at hs; cases hs
      | some s0 => simp only [hsd] at hs; cases hs; exact (outer_invX h (send_outer hsd).1).same rfl rfl
  | sWait =>
    simp only [hr] at hs
    cases hsu : s.susp with
    | none => simp only [hsu] at hs; exact outer_invX h (dtick_outer hs)
    | some o =>
      simp only [hsu] at hs
      cases o with
      | init => cases hs
      | node n =>
        simp only [] at hs
        cases hn : s.nodes n with
        | none => simp only [hn] at hs; cases hs; exact h.same rfl rfl
        | some nd =>
          simp only [hn] at hs
          have key := invX_applySel (inp := inp) n nd (selDecision inp n nd) h
          cases hd : selDecision inp n nd with
          | go =>
            simp only [hd] at hs; cases hs
            rw [hd] at key
            exact key.outer rfl _ (startTask_events inp _ n 0) (start_noFail inp n 0)
          | assertFail => simp only [hd] at hs; cases hs; exact h.same rfl rfl
          | skipIgn => simp only [hd] at hs; cases hs; rw [hd] at key; exact key.same rfl rfl
          | unmet => simp only [hd] at hs; cases hs; rw [hd] at key; exact key.same rfl rfl
          | depErr => simp only [hd] at hs; cases hs; rw [hd] at key; exact key.same rfl rfl
          | utd => simp only [hd] at hs; cases hs; rw [hd] at key; exact key.same rfl rfl
          | runFirst => simp only [hd] at hs; cases hs; rw [hd] at key; exact key.same rfl rfl
          | argsErr => simp only [hd] at hs; cases hs; rw [hd] at key; exact key.same rfl rfl
      | stopIter => cases hs; exact h.same rfl rfl
      | holdOn => cases hs; exact h.same rfl rfl
      | cyclic n => cases hs; exact h.same rfl rfl
      | crash => cases hs; exact h.same rfl rfl
  | sExec n =>
    simp only [hr] at hs
    cases hn : s.nodes n with
    | none => simp only [hn] at hs; cases hs; exact h.same rfl rfl
    | some nd =>
      simp only [hn] at hs; cases hs
      have h1 : InvX { s with rpc := .sExec n, events := Ev.fin n 0 :: s.events } :=
        h.outer rfl [Ev.fin n 0] rfl (fin_noFail n 0)
      exact (invX_processResult (inp := inp) n nd h1).same rfl rfl
  | fin => simp only [hr] at hs; cases hs; exact finishRun_invX h
  | gEntry a b => simp only [hr] at hs; cases hs
  | gLoop a b => simp only [hr] at hs; cases hs
  | gWait a => simp only [hr] at hs; cases hs
  | gRet a b => simp only [hr] at hs; cases hs
  | pTop => simp only [hr] at hs; cases hs
  | pJoin => simp only [hr] at hs; cases hs
  | halted => simp only [hr] at hs; cases hs

theorem gReturn_final (s : Sys) (job : Job) (ret : Ret) : (gReturn s job ret).final = s.final := by
  cases ret with
  | startLoop k =>
    simp only [gReturn]
    split
    · rfl
    · split <;> rfl
  | feedLoop k =>
    simp only [gReturn]
    split
    · split <;> rfl
    · rfl

theorem mainStep_invX {inp : RunInput} {s s' : Sys} {perm : List Name} (h : InvX s)
    (hs : mainStep inp s perm = some s') : InvX s' := by
  unfold mainStep at hs
  cases hr : s.rpc with
  | gEntry completed ret =>
    simp only [hr] at hs
    split at hs <;> (cases hs; exact h.same rfl rfl)
  | gLoop node ret =>
    simp only [hr] at hs
    cases hsd : send inp s node perm with
    | none => simp only [hsd] at hs; cases hs
    | some s0 => simp only [hsd] at hs; cases hs; exact (outer_invX h (send_outer hsd).1).same rfl rfl
  | gWait ret =>
    simp only [hr] at hs
    cases hsu : s.susp with
    | none => simp only [hsu] at hs; exact outer_invX h (dtick_outer hs)
    | some o =>
      simp only [hsu] at hs
      cases o with
      | init => cases hs
      | node n =>
        simp only [] at hs
        cases hn : s.nodes n with
        | none => simp only [hn] at hs; cases hs; exact h.same rfl rfl
        | some nd =>
          simp only [hn] at hs
          have key := invX_applySel (inp := inp) n nd (selDecision inp n nd) h
          cases hd : selDecision inp n nd with
          | assertFail => simp only [hd] at hs; cases hs; exact h.same rfl rfl
          | go => simp only [hd] at hs; cases hs; rw [hd] at key; exact key.same rfl rfl
          | skipIgn => simp only [hd] at hs; cases hs; rw [hd] at key; exact key.same rfl rfl
          | unmet => simp only [hd] at hs; cases hs; rw [hd] at key; exact key.same rfl rfl
          | depErr => simp only [hd] at hs; cases hs; rw [hd] at key; exact key.same rfl rfl
          | utd => simp only [hd] at hs; cases hs; rw [hd] at key; exact key.same rfl rfl
          | runFirst => simp only [hd] at hs; cases hs; rw [hd] at key; exact key.same rfl rfl
          | argsErr => simp only [hd] at hs; cases hs; rw [hd] at key; exact key.same rfl rfl
      | holdOn => cases hs; exact h.same rfl rfl
      | stopIter => cases hs; exact h.same rfl rfl
      | cyclic n => cases hs; exact h.same rfl rfl
      | crash => cases hs; exact h.same rfl rfl
  | gRet job ret =>
    simp only [hr] at hs; cases hs
    exact h.same (gReturn_final s job ret) (gReturn_frame s job ret).2
  | pTop =>
    simp only [hr] at hs
    split at hs
    · cases hs; exact h.same rfl rfl
    · cases hq : s.resQ with
      | nil => simp only [hq] at hs; cases hs
      | cons n rest =>
        simp only [hq] at hs
        cases hn : s.nodes n with
        | none => simp only [hn] at hs; cases hs; exact h.same rfl rfl
        | some nd =>
          simp only [hn] at hs; cases hs
          have h1 : InvX { s with rpc := .pTop, resQ := rest } := h.same rfl rfl
          exact (invX_processResult (inp := inp) n nd h1).same rfl rfl
  | pJoin =>
    simp only [hr] at hs
    split at hs
    · cases hs; exact h.same rfl rfl
    · cases hs
  | fin => simp only [hr] at hs; cases hs; exact finishRun_invX h
  | sTop a => simp only [hr] at hs; cases hs
  | sWait => simp only [hr] at hs; cases hs
  | sExec a => simp only [hr] at hs; cases hs
  | halted => simp only [hr] at hs; cases hs

theorem takeStep_invX {inp : RunInput} {s s' : Sys} {w : Nat} (h : InvX s)
    (hs : takeStep inp s w = some s') : InvX s' := by
  unfold takeStep at hs
  split at hs
  · cases hq : s.jobQ with
    | nil => simp only [hq] at hs; cases hs
    | cons j js =>
      simp only [hq] at hs
      cases j with
      | hold => cases hs; exact h.same rfl rfl
      | stop => cases hs; exact h.same rfl rfl
      | task n => cases hs; exact h.outer rfl _ (startTask_events inp s n w) (start_noFail inp n w)
  · cases hs

theorem doneStep_invX {s s' : Sys} {w : Nat} (h : InvX s) (hs : doneStep s w = some s') : InvX s' := by
  unfold doneStep at hs
  cases hw : s.workers w with
  | running n => simp only [hw] at hs; cases hs; exact h.outer rfl [Ev.fin n w] rfl (fin_noFail n w)
  | notStarted => simp only [hw] at hs; cases hs
  | idle => simp only [hw] at hs; cases hs
  | exited => simp only [hw] at hs; cases hs

theorem reach_invX {inp : RunInput} {s : Sys} (h : Reach inp s) : InvX s := by
  induction h with
  | init => exact init_invX inp
  | @next s0 s1 c _ hs ih =>
    cases c with
    | main perm => exact serialStep_invX ih hs
    | take w => cases hs
    | done w => cases hs

theorem preach_invX {inp : RunInput} {s : Sys} (h : PReach inp s) : InvX s := by
  induction h with
  | init => exact init_invX inp
  | @next s0 s1 c _ hs ih =>
    cases c with
    | main perm => exact mainStep_invX ih hs
    | take w => exact takeStep_invX ih hs
    | done w => exact doneStep_invX ih hs

/-- `final_result` of every reachable state is the fold over the failure reports so far -/
theorem final_of_reports {inp : RunInput} {s : Sys} (hr : Reach inp s ∨ PReach inp s) :
    s.final = exitOfTrace s.events.reverse := by
  rw [exitOfTrace_reverse]
  rcases hr with h | h
  · exact reach_invX h
  · exact preach_invX h

/-- the exit code of a run that no exception ended is determined by its failure reports -/
theorem exit_of_reports {inp : RunInput} {s : Sys} (hr : Reach inp s ∨ PReach inp s) (hh : s.halt = .none) :
    exitCode s = exitOfTrace s.events.reverse := by
  unfold exitCode; rw [hh]; exact final_of_reports hr

/-! ### the fold only depends on the set of failure kinds -/

/-- the outcome a failure report carries -/
def Ev.failDen : Ev → Option Den
  | .failure _ k => some (.fail k)
  | _ => none

theorem exitOfDens_aux (a b : Bool) (k : FailKind) :
    (if (k != FailKind.failed || a) = true then 2
      else if (Den.fail k == Den.fail FailKind.failed || b) = true then 1 else 0) =
    (if k = FailKind.failed ∧ (if a = true then 2 else if b = true then 1 else 0) ≠ 2 then 1 else 2) := by
  cases a <;> cases b <;> cases k <;> decide

theorem exitOfDens_cons_fail (k : FailKind) (ds : List Den) :
    exitOfDens (.fail k :: ds) = finalAfter (exitOfDens ds) k := by
  unfold exitOfDens finalAfter
  simp only [List.any_cons]
  exact exitOfDens_aux _ _ k

theorem exitR_eq_exitOfDens (l : List Ev) : exitR l = exitOfDens (l.filterMap Ev.failDen) := by
  induction l with
  | nil => rfl
  | cons e t ih =>
    show fstep (exitR t) e = _
    cases e <;> simp only [List.filterMap_cons, Ev.failDen, fstep] <;> first | exact ih | skip
    rw [exitOfDens_cons_fail, ih]

theorem exitOfDens_set {ds ds' : List Den} (h : ∀ d, d ∈ ds ↔ d ∈ ds') : exitOfDens ds = exitOfDens ds' := by
  have key : ∀ f : Den → Bool, ds.any f = ds'.any f := by
    intro f
    rw [Bool.eq_iff_iff, List.any_eq_true, List.any_eq_true]
    exact ⟨fun ⟨x, a, b⟩ => ⟨x, (h x).mp a, b⟩, fun ⟨x, a, b⟩ => ⟨x, (h x).mpr a, b⟩⟩
  unfold exitOfDens; rw [key, key]

/-- `exitOfTrace` is `exitOfDens` of the failure outcomes reported in the trace … -/
theorem exitOfTrace_eq_exitOfDens (tr : List Ev) : exitOfTrace tr = exitOfDens (tr.filterMap Ev.failDen) := by
  have := exitR_eq_exitOfDens tr.reverse
  rw [← exitOfTrace_reverse, List.reverse_reverse] at this
  rw [this]
  apply exitOfDens_set
  intro d; simp [List.mem_filterMap]

/-- … hence two traces that report the same set of failure kinds give the same exit code, whatever the order -/
theorem exitOfTrace_set {tr tr' : List Ev}
    (h : ∀ k, (∃ n, Ev.failure n k ∈ tr) ↔ (∃ n, Ev.failure n k ∈ tr')) : exitOfTrace tr = exitOfTrace tr' := by
  rw [exitOfTrace_eq_exitOfDens, exitOfTrace_eq_exitOfDens]
  apply exitOfDens_set
  intro d
  simp only [List.mem_filterMap]
  constructor
  · rintro ⟨e, he, hd⟩
    cases e <;> simp [Ev.failDen] at hd
    rename_i n k; subst hd
    obtain ⟨n', hn'⟩ := (h k).mp ⟨n, he⟩
    exact ⟨_, hn', rfl⟩
  · rintro ⟨e, he, hd⟩
    cases e <;> simp [Ev.failDen] at hd
    rename_i n k; subst hd
    obtain ⟨n', hn'⟩ := (h k).mpr ⟨n, he⟩
    exact ⟨_, hn', rfl⟩

end DoitModel.Run
