import DoitModel.Proofs.C19Inv
/-! # C19: `Inv19` holds in every reachable state (serial runner, parallel runners) -/
namespace DoitModel.Report
open DoitModel.Run

theorem inv19_send {inp : RunInput} {s s0 : Sys} {node : Option Name} {perm : List Name} (h : Inv19 inp s)
    (h2 : Inv2 inp s) (hnode : sentBack s = node) (hs : send inp s node perm = some s0) : Inv19 inp s0 := by
  have o := (send_outer hs).1
  have hst := (send_inv1 h2.inv1 (fun p hp => h2.sb p (by rw [hnode, hp])) hs).2
  exact h.outer o hst

theorem inv19_dtick {inp : RunInput} {s s' : Sys} {perm : List Name} (h : Inv19 inp s)
    (hs : dtick inp s perm = some s') : Inv19 inp s' :=
  h.outer (dtick_outer hs) (dtick_stOf hs)

/-- `select_task` said yes: facts needed to start the task -/
theorem go_facts {inp : RunInput} {s : Sys} {n : Name} {nd : Node} (h3 : Inv3 inp s)
    (haw : awaiting s) (hsu : s.susp = some (.node n)) (hn : s.nodes n = some nd)
    (hd : selDecision inp n nd = .go) :
    stOf (applySel inp s n nd .go) n = .run ∧ cStart (applySel inp s n nd .go) n = 0 ∧
    cTerm (applySel inp s n nd .go) n = 0 := by
  have hne : selDecision inp n nd ≠ .assertFail := by rw [hd]; simp
  have hstat := selDecision_status hne
  have hstn : stOf s n = nd.status := by simp [stOf, hn]
  have hgo : cGo s n = 0 := h3.z haw n hsu
  have hstart : cStart s n = 0 := by have := h3.j n; omega
  have hterm : cTerm s n = 0 := h3.t n (by rw [hstn]; rcases hstat with a | a <;> rw [a] <;> rfl)
  have c := counts_append (applySel_events inp s n nd .go) n
  have sc := selEvents_counts inp n nd .go n
  refine ⟨?_, ?_, ?_⟩
  · rw [stOf_applySel inp s n nd .go (by simp)]; simp [selStatus]
  · rw [c.2.1, sc.start]; omega
  · rw [c.2.2.2, sc.term]; simp [selTerm]; exact hterm

theorem serialStep_inv19 {inp : RunInput} {s s' : Sys} {perm : List Name} (h : Inv19 inp s) (h2 : Inv2 inp s)
    (h3 : Inv3 inp s) (hs : serialStep inp s perm = some s') : Inv19 inp s' := by
  unfold serialStep at hs
  cases hr : s.rpc with
  | sTop node =>
    simp only [hr] at hs
    split at hs
    · cases hs; exact h.same rfl (fun _ => rfl) rfl
    · cases hsd : send inp s node perm with
      | none => simp only [hsd] at hs; cases hs
      | some s0 =>
        simp only [hsd] at hs; cases hs
        exact (inv19_send h h2 (by simp [sentBack, hr]) hsd).same rfl (fun _ => rfl) rfl
  | sWait =>
    simp only [hr] at hs
    have haw : awaiting s := Or.inl hr
    cases hsu : s.susp with
    | none => simp only [hsu] at hs; exact inv19_dtick h hs
    | some o =>
      simp only [hsu] at hs
      cases o with
      | init => cases hs
      | node n =>
        simp only [] at hs
        cases hn : s.nodes n with
        | none => simp only [hn] at hs; cases hs; exact h.same rfl (fun _ => rfl) rfl
        | some nd =>
          simp only [hn] at hs
          have key : selDecision inp n nd ≠ .assertFail →
              Inv19 inp (applySel inp s n nd (selDecision inp n nd)) := inv19_select h h3 haw hsu hn
          cases hd : selDecision inp n nd with
          | go =>
            simp only [hd] at hs; cases hs
            have h1 := key (by rw [hd]; simp); rw [hd] at h1
            obtain ⟨f1, f2, f3⟩ := go_facts h3 haw hsu hn hd
            exact inv19_start (w := 0) h1 f1 f2 f3 (startTask_events inp _ n 0) (fun _ => rfl) rfl
          | assertFail => simp only [hd] at hs; cases hs; exact h.same rfl (fun _ => rfl) rfl
          | skipIgn => simp only [hd] at hs; cases hs; have := key (by simp [hd]); rw [hd] at this; exact this.same rfl (fun _ => rfl) rfl
          | unmet => simp only [hd] at hs; cases hs; have := key (by simp [hd]); rw [hd] at this; exact this.same rfl (fun _ => rfl) rfl
          | depErr => simp only [hd] at hs; cases hs; have := key (by simp [hd]); rw [hd] at this; exact this.same rfl (fun _ => rfl) rfl
          | utd => simp only [hd] at hs; cases hs; have := key (by simp [hd]); rw [hd] at this; exact this.same rfl (fun _ => rfl) rfl
          | runFirst => simp only [hd] at hs; cases hs; have := key (by simp [hd]); rw [hd] at this; exact this.same rfl (fun _ => rfl) rfl
          | argsErr => simp only [hd] at hs; cases hs; have := key (by simp [hd]); rw [hd] at this; exact this.same rfl (fun _ => rfl) rfl
      | stopIter => cases hs; exact h.same rfl (fun _ => rfl) rfl
      | holdOn => cases hs; exact h.same rfl (fun _ => rfl) rfl
      | cyclic n => cases hs; exact h.same rfl (fun _ => rfl) rfl
      | crash => cases hs; exact h.same rfl (fun _ => rfl) rfl
  | sExec n =>
    simp only [hr] at hs
    cases hn : s.nodes n with
    | none => simp only [hn] at hs; cases hs; exact h.same rfl (fun _ => rfl) rfl
    | some nd =>
      simp only [hn] at hs; cases hs
      have hst : stOf s n = .run := h2.x n hr
      have hrun : nd.status = .run := by simpa [stOf, hn] using hst
      obtain ⟨x1, x2⟩ := h3.x3 n hr
      have hterm : cTerm s n = 0 := h3.t n (by rw [hst]; rfl)
      have hs1 : cStart s n ≥ 1 := by rw [x1]; exact Nat.le_refl 1
      have hmid : Inv19 inp { s with events := Ev.fin n 0 :: s.events } :=
        inv19_fin (n := n) (w := 0) h hst hs1 rfl (fun _ => rfl) rfl
      have := inv19_result (s := { s with events := Ev.fin n 0 :: s.events }) hmid hn hrun
        (by simpa [cTerm, List.countP_cons, Ev.isTerminalOf] using hterm)
        (by simp [cFin, List.countP_cons, Ev.isFinOf])
        (by simpa [cStart, List.countP_cons, Ev.isStartOf] using hs1)
      simp only [hr] at this
      exact this.same rfl (fun _ => rfl) rfl
  | fin => simp only [hr] at hs; cases hs; exact inv19_finishRun h
  | gEntry a b => simp only [hr] at hs; cases hs
  | gLoop a b => simp only [hr] at hs; cases hs
  | gWait a => simp only [hr] at hs; cases hs
  | gRet a b => simp only [hr] at hs; cases hs
  | pTop => simp only [hr] at hs; cases hs
  | pJoin => simp only [hr] at hs; cases hs
  | halted => simp only [hr] at hs; cases hs

theorem reach_inv19 {inp : RunInput} {s : Sys} (h : Reach inp s) : Inv19 inp s := by
  induction h with
  | init => exact init_inv19 inp
  | @next s0 s1 c hr hs ih =>
    cases c with
    | main perm => exact serialStep_inv19 ih (reach_inv2 hr) (reach_inv3 hr) hs
    | take w => cases hs
    | done w => cases hs

/-! ### the parallel runners -/

theorem gReturn_same (s : Sys) (job : Job) (ret : Ret) :
    (gReturn s job ret).events = s.events ∧ (∀ x, stOf (gReturn s job ret) x = stOf s x) ∧
    (gReturn s job ret).final = s.final := by
  unfold gReturn
  cases ret with
  | startLoop k => simp only []; split <;> (try split) <;> exact ⟨rfl, fun _ => rfl, rfl⟩
  | feedLoop k => simp only []; split <;> (try split) <;> exact ⟨rfl, fun _ => rfl, rfl⟩

theorem mainStep_inv19 {inp : RunInput} {s s' : Sys} {perm : List Name} (h : Inv19 inp s) (h2 : Inv2 inp s)
    (h3 : Inv3 inp s) (hs : mainStep inp s perm = some s') : Inv19 inp s' := by
  unfold mainStep at hs
  cases hr : s.rpc with
  | gEntry completed ret =>
    simp only [hr] at hs
    split at hs <;> (cases hs; exact h.same rfl (fun _ => rfl) rfl)
  | gLoop node ret =>
    simp only [hr] at hs
    cases hsd : send inp s node perm with
    | none => simp only [hsd] at hs; cases hs
    | some s0 =>
      simp only [hsd] at hs; cases hs
      exact (inv19_send h h2 (by simp [sentBack, hr]) hsd).same rfl (fun _ => rfl) rfl
  | gWait ret =>
    simp only [hr] at hs
    have haw : awaiting s := Or.inr ⟨ret, hr⟩
    cases hsu : s.susp with
    | none => simp only [hsu] at hs; exact inv19_dtick h hs
    | some o =>
      simp only [hsu] at hs
      cases o with
      | init => cases hs
      | node n =>
        simp only [] at hs
        cases hn : s.nodes n with
        | none => simp only [hn] at hs; cases hs; exact h.same rfl (fun _ => rfl) rfl
        | some nd =>
          simp only [hn] at hs
          have key : selDecision inp n nd ≠ .assertFail →
              Inv19 inp (applySel inp s n nd (selDecision inp n nd)) := inv19_select h h3 haw hsu hn
          cases hd : selDecision inp n nd with
          | assertFail => simp only [hd] at hs; cases hs; exact h.same rfl (fun _ => rfl) rfl
          | go => simp only [hd] at hs; cases hs; have := key (by simp [hd]); rw [hd] at this; exact this.same rfl (fun _ => rfl) rfl
          | skipIgn => simp only [hd] at hs; cases hs; have := key (by simp [hd]); rw [hd] at this; exact this.same rfl (fun _ => rfl) rfl
          | unmet => simp only [hd] at hs; cases hs; have := key (by simp [hd]); rw [hd] at this; exact this.same rfl (fun _ => rfl) rfl
          | depErr => simp only [hd] at hs; cases hs; have := key (by simp [hd]); rw [hd] at this; exact this.same rfl (fun _ => rfl) rfl
          | utd => simp only [hd] at hs; cases hs; have := key (by simp [hd]); rw [hd] at this; exact this.same rfl (fun _ => rfl) rfl
          | runFirst => simp only [hd] at hs; cases hs; have := key (by simp [hd]); rw [hd] at this; exact this.same rfl (fun _ => rfl) rfl
          | argsErr => simp only [hd] at hs; cases hs; have := key (by simp [hd]); rw [hd] at this; exact this.same rfl (fun _ => rfl) rfl
      | stopIter => cases hs; exact h.same rfl (fun _ => rfl) rfl
      | holdOn => cases hs; exact h.same rfl (fun _ => rfl) rfl
      | cyclic n => cases hs; exact h.same rfl (fun _ => rfl) rfl
      | crash => cases hs; exact h.same rfl (fun _ => rfl) rfl
  | gRet job ret =>
    simp only [hr] at hs; cases hs
    obtain ⟨a, b, c⟩ := gReturn_same s job ret
    exact h.same a b c
  | pTop =>
    simp only [hr] at hs
    split at hs
    · cases hs; exact h.same rfl (fun _ => rfl) rfl
    · cases hq : s.resQ with
      | nil => simp only [hq] at hs; cases hs
      | cons n rest =>
        simp only [hq] at hs
        cases hn : s.nodes n with
        | none => simp only [hn] at hs; cases hs; exact h.same rfl (fun _ => rfl) rfl
        | some nd =>
          simp only [hn] at hs; cases hs
          have hnq : n ∈ s.resQ := by rw [hq]; simp
          obtain ⟨q1a, q1b⟩ := h3.q1 n hnq
          have hrun : nd.status = .run := by simpa [stOf, hn] using q1b
          have hterm : cTerm s n = 0 := h3.t n (by rw [q1b]; rfl)
          have hp0 := (h3.p0 n).2
          have hmid : Inv19 inp { s with resQ := rest } := h.same rfl (fun _ => rfl) rfl
          have := inv19_result (s := { s with resQ := rest }) hmid hn hrun hterm
            (by show cFin s n ≥ 1; omega) (by show cStart s n ≥ 1; omega)
          simp only [hr] at this
          exact this.same rfl (fun _ => rfl) rfl
  | pJoin => simp only [hr] at hs; split at hs <;> cases hs; exact h.same rfl (fun _ => rfl) rfl
  | fin => simp only [hr] at hs; cases hs; exact inv19_finishRun h
  | sTop a => simp only [hr] at hs; cases hs
  | sWait => simp only [hr] at hs; cases hs
  | sExec a => simp only [hr] at hs; cases hs
  | halted => simp only [hr] at hs; cases hs

theorem takeStep_inv19 {inp : RunInput} {s s' : Sys} {w : Nat} (h : Inv19 inp s) (h3 : Inv3 inp s)
    (hs : takeStep inp s w = some s') : Inv19 inp s' := by
  unfold takeStep at hs
  by_cases hidle : s.workers w = .idle
  case neg => simp only [hidle, if_false] at hs; cases hs
  simp only [hidle, if_true] at hs
  cases hq : s.jobQ with
  | nil => simp only [hq] at hs; cases hs
  | cons j js =>
    simp only [hq] at hs
    cases j with
    | hold => simp only [] at hs; cases hs; exact h.same rfl (fun _ => rfl) rfl
    | stop => simp only [] at hs; cases hs; exact h.same rfl (fun _ => rfl) rfl
    | task n =>
      simp only [] at hs; cases hs
      have hmem : Job.task n ∈ s.jobQ := by rw [hq]; simp
      have hrun : stOf s n = .run := h3.j2 n (Or.inl hmem)
      have hc : s.jobQ.count (.task n) ≥ 1 := count_task_pos.mp hmem
      have hj := h3.j n
      have hg := (h3.p0 n).1
      have hstart : cStart s n = 0 := by omega
      have hterm : cTerm s n = 0 := h3.t n (by rw [hrun]; rfl)
      exact inv19_start (n := n) (w := w) h hrun hstart hterm (startTask_events inp s n w) (fun _ => rfl) rfl

theorem doneStep_inv19 {inp : RunInput} {s s' : Sys} {w : Nat} (h : Inv19 inp s) (h3 : Inv3 inp s)
    (hs : doneStep s w = some s') : Inv19 inp s' := by
  unfold doneStep at hs
  cases hw : s.workers w with
  | running n =>
    simp only [hw] at hs; cases hs
    obtain ⟨a1, a2, a3⟩ := h3.w1 w n hw
    exact inv19_fin (n := n) (w := w) h a3 (by omega) rfl (fun _ => rfl) rfl
  | notStarted => simp only [hw] at hs; cases hs
  | idle => simp only [hw] at hs; cases hs
  | exited => simp only [hw] at hs; cases hs

theorem preach_inv19 {inp : RunInput} {s : Sys} (h : PReach inp s) : Inv19 inp s := by
  induction h with
  | init => exact init_inv19 inp
  | @next s0 s1 c hr hs ih =>
    obtain ⟨h2, h3⟩ := preach_inv hr
    cases c with
    | main perm => exact mainStep_inv19 ih h2 h3 hs
    | take w => exact takeStep_inv19 ih h3 hs
    | done w => exact doneStep_inv19 ih h3 hs

end DoitModel.Report
