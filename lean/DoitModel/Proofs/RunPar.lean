import DoitModel.Proofs.RunSerial3
/-! # The parallel runners (`MRunner` / `MThreadRunner` main loop and workers) preserve `Inv2` and `Inv3` -/
namespace DoitModel.Run

/-! ### workers -/

theorem count_cons_task (j : Job) (q : List Job) (n : Name) :
    (j :: q).count (.task n) = (if j = .task n then 1 else 0) + q.count (.task n) := by
  rw [List.count_cons]; by_cases e : j = .task n <;> simp [e]; omega

theorem takeStep_inv {inp : RunInput} {s s' : Sys} {w : Nat} (h2 : Inv2 inp s) (h3 : Inv3 inp s)
    (hs : takeStep inp s w = some s') : Inv2 inp s' ∧ Inv3 inp s' := by
  unfold takeStep at hs
  by_cases hidle : s.workers w = .idle
  case neg => simp only [hidle, if_false] at hs; cases hs
  simp only [hidle, if_true] at hs
  cases hq : s.jobQ with
  | nil => simp only [hq] at hs; cases hs
  | cons j js =>
    simp only [hq] at hs
    have hcnt : ∀ m, s.jobQ.count (.task m) = (if j = .task m then 1 else 0) + js.count (.task m) := by
      intro m; rw [hq]; exact count_cons_task j js m
    have hmem : ∀ m, Job.task m ∈ js → Job.task m ∈ s.jobQ := by intro m hm; rw [hq]; simp [hm]
    -- the two silent pick-ups share everything but the worker's state
    have silent : ∀ (wk : Nat → WState), (∀ m, j ≠ .task m) →
        (∀ k m, wk k = .running m → s.workers k = .running m) →
        Inv2 inp { s with jobQ := js, workers := wk } ∧ Inv3 inp { s with jobQ := js, workers := wk } := by
      intro wk hj hwk
      constructor
      · refine h2.outer rfl rfl rfl rfl rfl [] rfl h2.ord (by simp) (fun p hp => h2.sb p hp) (fun a => a) ?_
          (fun m a => h2.x m a)
        intro m hm
        rcases hm with a | a
        · exact h2.f1 m (Or.inl (hmem m a))
        · exact h2.f1 m (Or.inr a)
      · refine h3.outer rfl rfl [] rfl (by simp) (fun a => a) (fun m => (h3.p0 m).2) ?_ ?_ ?_ h3.q1 h3.q2 ?_ h3.x3 ?_
        · intro m
          have := h3.j m; rw [hcnt m] at this
          have hne : ¬ j = .task m := hj m
          simp only [hne, if_false, Nat.zero_add] at this
          exact this
        · intro k m hk; exact h3.w1 k m (hwk k m hk)
        · intro k k' m a b; exact h3.w2 k k' m (hwk k m a) (hwk k' m b)
        · intro m hm
          rcases hm with a | a
          · exact h3.j2 m (Or.inl (hmem m a))
          · exact h3.j2 m (Or.inr a)
        · intro m k hm hk; exact h3.xw m k hm (hwk k m hk)
    cases j with
    | hold =>
      cases hs
      exact silent s.workers (fun m e => by cases e) (fun _ _ a => a)
    | stop =>
      cases hs
      refine silent (fun k => if k = w then .exited else s.workers k) (fun m e => by cases e) ?_
      intro k m hk
      by_cases e : k = w
      · simp [e] at hk
      · simpa [e] using hk
    | task n =>
      cases hs
      have hn_in : Job.task n ∈ s.jobQ := by rw [hq]; simp
      obtain ⟨deps, hgo⟩ := h2.f1 n (Or.inl hn_in)
      have hev := startTask_events inp s n w
      have sc := startTask_counts inp n w
      have hjn := h3.j n
      rw [hcnt n] at hjn; simp only [if_true] at hjn
      have key : cStart s n = 0 ∧ cFin s n = 0 ∧ holding s n = 0 ∧ js.count (.task n) = 0 := by
        have := h3.p0 n; omega
      have hrun : stOf s n = .run := h3.j2 n (Or.inl hn_in)
      constructor
      · refine h2.outer rfl rfl rfl rfl rfl _ hev ?_ ?_ (fun p hp => h2.sb p hp) (fun a => a) ?_ (fun m a => h2.x m a)
        · split
          · exact ⟨⟨deps, hgo⟩, h2.ord⟩
          · exact ⟨⟨deps, by simp [hgo]⟩, trivial, h2.ord⟩
        · intro m d hm; split at hm <;> simp at hm
        · intro m hm
          have : ∃ deps, Ev.go m deps ∈ s.events := by
            rcases hm with a | a
            · exact h2.f1 m (Or.inl (hmem m a))
            · exact h2.f1 m (Or.inr a)
          obtain ⟨d, hd⟩ := this
          exact ⟨d, by show Ev.go m d ∈ (startTask inp s n w).events; rw [hev]; exact List.mem_append_right _ hd⟩
      · have hc : ∀ m, _ := fun m => counts_append
          (s' := { setWorker (startTask inp s n w) w (.running n) with jobQ := js }) hev m
        have hhold : ∀ m, holding { setWorker (startTask inp s n w) w (.running n) with jobQ := js } m = holding s m := by
          intro m; rfl
        refine h3.outer rfl rfl _ hev (fun m => ⟨(sc m).go, (sc m).term⟩) (fun a => a) ?_ ?_ ?_ ?_ ?_ h3.q2 ?_ ?_ ?_
        · intro m; rw [(hc m).2.1, (hc m).2.2.1, (sc m).start, (sc m).fin]; have := (h3.p0 m).2; omega
        · intro m
          rw [hhold, (hc m).1, (hc m).2.1, (sc m).go, (sc m).start]
          have := h3.j m; rw [hcnt m] at this
          show js.count _ + _ + _ = _
          by_cases e : n = m
          · subst e; simp only [if_true] at this ⊢; omega
          · have e' : ¬ Job.task n = Job.task m := fun x => e (by cases x; rfl)
            simp only [e, e', if_false] at this ⊢; omega
        · intro k m hk
          rw [(hc m).2.1, (hc m).2.2.1, (sc m).start, (sc m).fin]
          by_cases e : k = w
          · subst e
            have : m = n := by simpa [setWorker] using hk.symm
            subst this
            simp only [if_true]; exact ⟨by omega, by omega, hrun⟩
          · have hk' : s.workers k = .running m := by simpa [setWorker, startTask, e] using hk
            obtain ⟨a, b, c⟩ := h3.w1 k m hk'
            have hne : n ≠ m := by intro x; subst x; omega
            simp only [hne, if_false]; exact ⟨by omega, by omega, c⟩
        · intro k k' m a b
          by_cases e : k = w <;> by_cases e' : k' = w
          · rw [e, e']
          · subst e
            have hm : m = n := by simpa [setWorker] using a.symm
            subst hm
            have hb : s.workers k' = .running m := by simpa [setWorker, startTask, e'] using b
            have := (h3.w1 k' m hb).1; omega
          · subst e'
            have hm : m = n := by simpa [setWorker] using b.symm
            subst hm
            have ha : s.workers k = .running m := by simpa [setWorker, startTask, e] using a
            have := (h3.w1 k m ha).1; omega
          · exact h3.w2 k k' m (by simpa [setWorker, startTask, e] using a) (by simpa [setWorker, startTask, e'] using b)
        · intro m hm
          obtain ⟨a, c⟩ := h3.q1 m hm
          rw [(hc m).2.2.1, (sc m).fin]; exact ⟨by omega, c⟩
        · intro m hm
          rw [hhold] at hm
          rcases hm with a | a
          · exact h3.j2 m (Or.inl (hmem m a))
          · exact h3.j2 m (Or.inr a)
        · intro m hm
          have hm' : s.rpc = .sExec m := hm
          obtain ⟨a, b⟩ := h3.x3 m hm'
          rw [(hc m).2.1, (hc m).2.2.1, (sc m).start, (sc m).fin]
          have hne : n ≠ m := by intro x; subst x; omega
          simp only [hne, if_false]; omega
        · intro m k hm hk
          have hm' : s.rpc = .sExec m := hm
          by_cases e : k = w
          · subst e
            have : m = n := by simpa [setWorker] using hk.symm
            subst this
            have := (h3.x3 m hm').1; omega
          · exact h3.xw m k hm' (by simpa [setWorker, startTask, e] using hk)


theorem doneStep_inv {inp : RunInput} {s s' : Sys} {w : Nat} (h2 : Inv2 inp s) (h3 : Inv3 inp s)
    (hs : doneStep s w = some s') : Inv2 inp s' ∧ Inv3 inp s' := by
  unfold doneStep at hs
  cases hw : s.workers w with
  | running n =>
    simp only [hw] at hs; cases hs
    obtain ⟨a1, a2, a3⟩ := h3.w1 w n hw
    have hev : ({ setWorker s w .idle with events := Ev.fin n w :: s.events, resQ := s.resQ ++ [n] } : Sys).events
        = [Ev.fin n w] ++ s.events := rfl
    have cnt : ∀ m, Counts [Ev.fin n w] m 0 0 (if n = m then 1 else 0) 0 := by
      intro m; constructor <;> simp [List.countP_cons, Ev.isGoOf, Ev.isStartOf, Ev.isFinOf, Ev.isTerminalOf]
    constructor
    · refine h2.outer rfl rfl rfl rfl rfl _ hev ⟨trivial, h2.ord⟩ (by simp) (fun p hp => h2.sb p hp) (fun a => a) ?_
        (fun m a => h2.x m a)
      intro m hm
      obtain ⟨d, hd⟩ := h2.f1 m hm
      exact ⟨d, by simp [hd]⟩
    · have hc : ∀ m, _ := fun m => counts_append
        (s' := { setWorker s w .idle with events := Ev.fin n w :: s.events, resQ := s.resQ ++ [n] }) hev m
      have hwk : ∀ k m, (setWorker s w .idle).workers k = .running m → s.workers k = .running m ∧ k ≠ w := by
        intro k m hk
        by_cases e : k = w
        · simp [setWorker, e] at hk
        · exact ⟨by simpa [setWorker, e] using hk, e⟩
      refine h3.outer rfl rfl _ hev (fun m => ⟨(cnt m).go, (cnt m).term⟩) (fun a => a) ?_ ?_ ?_ ?_ ?_ ?_ ?_ ?_ ?_
      · intro m; rw [(hc m).2.1, (hc m).2.2.1, (cnt m).start, (cnt m).fin]
        have := (h3.p0 m).2
        by_cases e : n = m
        · subst e; simp only [if_true]; omega
        · simp only [e, if_false]; omega
      · intro m; rw [(hc m).1, (hc m).2.1, (cnt m).go, (cnt m).start]
        have := h3.j m
        show s.jobQ.count _ + holding s m + _ = _; omega
      · intro k m hk
        obtain ⟨hk', hne⟩ := hwk k m hk
        obtain ⟨b1, b2, b3⟩ := h3.w1 k m hk'
        have hnm : n ≠ m := by intro e; subst e; exact hne (h3.w2 k w n hk' hw)
        rw [(hc m).2.1, (hc m).2.2.1, (cnt m).start, (cnt m).fin]; simp only [hnm, if_false]
        exact ⟨by omega, by omega, b3⟩
      · intro k k' m a b; exact h3.w2 k k' m (hwk k m a).1 (hwk k' m b).1
      · intro m hm
        rw [(hc m).2.2.1, (cnt m).fin]
        have hm' : m ∈ s.resQ ∨ m = n := by simpa using hm
        rcases hm' with a | a
        · obtain ⟨b1, b2⟩ := h3.q1 m a
          have hnm : n ≠ m := by intro e; subst e; omega
          simp only [hnm, if_false]; exact ⟨by omega, b2⟩
        · subst a; simp only [if_true]; exact ⟨by omega, a3⟩
      · show (s.resQ ++ [n]).Nodup
        refine List.nodup_append.mpr ⟨h3.q2, by simp, ?_⟩
        intro a ha b hb
        simp at hb; subst hb
        intro e; subst e
        have := (h3.q1 a ha).1; omega
      · intro m hm; exact h3.j2 m hm
      · intro m hm
        have hm' : s.rpc = .sExec m := hm
        obtain ⟨b1, b2⟩ := h3.x3 m hm'
        rw [(hc m).2.1, (hc m).2.2.1, (cnt m).start, (cnt m).fin]
        by_cases e : n = m
        · subst e; exact absurd hw (h3.xw n w hm')
        · simp only [e, if_false]; omega
      · intro m k hm hk
        exact h3.xw m k hm (hwk k m hk).1
  | notStarted => simp only [hw] at hs; cases hs
  | idle => simp only [hw] at hs; cases hs
  | exited => simp only [hw] at hs; cases hs


/-! ### the main thread -/

/-- `get_next_job` hands its job over: appended to the job queue (a `None` in the start loop is not queued) -/
theorem enqueue_inv {inp : RunInput} {s s' : Sys} {job : Job} {ret : Ret} (h2 : Inv2 inp s) (h3 : Inv3 inp s)
    (hr : s.rpc = .gRet job ret)
    (e1 : s'.nodes = s.nodes) (e2 : s'.ready = s.ready) (e3 : s'.waiting = s.waiting) (e4 : s'.cur = s.cur)
    (e5 : s'.susp = s.susp) (e6 : s'.events = s.events) (e8 : s'.resQ = s.resQ)
    (ej : s'.jobQ = s.jobQ ++ [job] ∨ (job = .stop ∧ s'.jobQ = s.jobQ))
    (ew : ∀ k m, s'.workers k = .running m → s.workers k = .running m)
    (erpc : s'.rpc = .pTop ∨ (∃ r, s'.rpc = .gEntry none r) ∨ s'.rpc = .fin) : Inv2 inp s' ∧ Inv3 inp s' := by
  have hold' : ∀ m, holding s' m = 0 := by
    intro m; rcases erpc with e | ⟨r, e⟩ | e <;> simp [holding, e]
  have hnaw : ¬ awaiting s' := by
    intro a; rcases erpc with e | ⟨r, e⟩ | e <;> (rcases a with a | ⟨r', a⟩ <;> (rw [e] at a; cases a))
  have hnx : ∀ m, s'.rpc ≠ .sExec m := by
    intro m a; rcases erpc with e | ⟨r, e⟩ | e <;> (rw [e] at a; cases a)
  have hcnt : ∀ m, s'.jobQ.count (.task m) = s.jobQ.count (.task m) + holding s m := by
    intro m
    rcases ej with e | ⟨e, e'⟩
    · rw [e, List.count_append]
      cases job with
      | task k =>
        by_cases x : k = m
        · subst x; simp [holding, hr]
        · have : ¬ Job.task k = Job.task m := fun y => x (by cases y; rfl)
          simp [holding, hr, x, List.count_cons, this]
      | hold => simp [holding, hr, List.count_cons]
      | stop => simp [holding, hr, List.count_cons]
    · subst e; rw [e']; simp [holding, hr]
  have hmem : ∀ m, Job.task m ∈ s'.jobQ → Job.task m ∈ s.jobQ ∨ holding s m = 1 := by
    intro m hm
    have := count_task_pos.mp hm
    rw [hcnt m] at this
    by_cases x : Job.task m ∈ s.jobQ
    · exact Or.inl x
    · right
      have : s.jobQ.count (.task m) = 0 := List.count_eq_zero.mpr x
      have hh : holding s m ≤ 1 := by unfold holding; rw [hr]; cases job <;> simp; split <;> omega
      omega
  have hc := fun m => counts_same e6 m
  constructor
  · refine h2.outer e1 e2 e3 e4 e5 [] (by simpa using e6) h2.ord (by simp) ?_ (fun a => absurd a hnaw) ?_
      (fun m a => absurd a (hnx m))
    · intro p hp
      rcases erpc with e | ⟨r, e⟩ | e <;> simp [sentBack, e] at hp
    · intro m hm
      rw [e6]
      rcases hm with a | ⟨r, a⟩
      · rcases hmem m a with b | b
        · exact h2.f1 m (Or.inl b)
        · apply h2.f1 m; right
          unfold holding at b; rw [hr] at b
          cases job with
          | task k =>
            simp only at b
            by_cases x : k = m
            · subst x; exact ⟨ret, hr⟩
            · simp [x] at b
          | hold => simp at b
          | stop => simp at b
      · rcases erpc with e | ⟨r', e⟩ | e <;> (rw [e] at a; cases a)
  · refine h3.outer e1 e5 [] (by simpa using e6) (by simp) (fun a => absurd a hnaw) ?_ ?_ ?_ ?_ ?_ ?_ ?_ ?_ ?_
    · intro m; rw [(hc m).2.1, (hc m).2.2.1]; exact (h3.p0 m).2
    · intro m; rw [hcnt m, hold', (hc m).1, (hc m).2.1]; have := h3.j m; omega
    · intro k m hk; rw [(hc m).2.1, (hc m).2.2.1]; exact h3.w1 k m (ew k m hk)
    · intro k k' m a b; exact h3.w2 k k' m (ew k m a) (ew k' m b)
    · intro m hm; rw [e8] at hm; rw [(hc m).2.2.1]; exact h3.q1 m hm
    · rw [e8]; exact h3.q2
    · intro m hm; rw [hold'] at hm
      rcases hm with a | a
      · exact h3.j2 m (hmem m a)
      · cases a
    · intro m hm; exact absurd hm (hnx m)
    · intro m k hm; exact absurd hm (hnx m)

theorem setWorker_running {s : Sys} {w k : Nat} {m : Name} (h : (setWorker s w .idle).workers k = .running m) :
    s.workers k = .running m := by
  by_cases e : k = w
  · simp [setWorker, e] at h
  · simpa [setWorker, e] using h

theorem gReturn_inv {inp : RunInput} {s : Sys} {job : Job} {ret : Ret} (h2 : Inv2 inp s) (h3 : Inv3 inp s)
    (hr : s.rpc = .gRet job ret) : Inv2 inp (gReturn s job ret) ∧ Inv3 inp (gReturn s job ret) := by
  cases ret with
  | startLoop k =>
    simp only [gReturn]
    split
    · rename_i hj
      exact enqueue_inv h2 h3 hr rfl rfl rfl rfl rfl rfl rfl (Or.inr ⟨hj, rfl⟩) (fun _ _ a => a) (Or.inl rfl)
    · split
      · exact enqueue_inv h2 h3 hr rfl rfl rfl rfl rfl rfl rfl (Or.inl rfl) (fun _ _ a => setWorker_running a)
          (Or.inl rfl)
      · exact enqueue_inv h2 h3 hr rfl rfl rfl rfl rfl rfl rfl (Or.inl rfl) (fun _ _ a => setWorker_running a)
          (Or.inr (Or.inl ⟨_, rfl⟩))
  | feedLoop k =>
    simp only [gReturn]
    split
    · split
      · exact enqueue_inv h2 h3 hr rfl rfl rfl rfl rfl rfl rfl (Or.inl rfl) (fun _ _ a => a) (Or.inl rfl)
      · exact enqueue_inv h2 h3 hr rfl rfl rfl rfl rfl rfl rfl (Or.inl rfl) (fun _ _ a => a) (Or.inr (Or.inr rfl))
    · exact enqueue_inv h2 h3 hr rfl rfl rfl rfl rfl rfl rfl (Or.inl rfl) (fun _ _ a => a)
        (Or.inr (Or.inl ⟨_, rfl⟩))


/-- a change of the runner's position that keeps the node to be sent back and holds no job before or after -/
theorem rpcMove_inv {inp : RunInput} {s s' : Sys} (h2 : Inv2 inp s) (h3 : Inv3 inp s)
    (e1 : s'.nodes = s.nodes) (e2 : s'.ready = s.ready) (e3 : s'.waiting = s.waiting) (e4 : s'.cur = s.cur)
    (e5 : s'.susp = s.susp) (e6 : s'.events = s.events) (e7 : s'.jobQ = s.jobQ) (e8 : s'.resQ = s.resQ)
    (e9 : s'.workers = s.workers)
    (hsb : sentBack s' = none ∨ sentBack s' = sentBack s) (haw : ¬ awaiting s')
    (hh : ∀ n, holding s' n = 0) (hh0 : ∀ n, holding s n = 0) (hx : ∀ n, s'.rpc ≠ .sExec n)
    (hg : ∀ n ret, s'.rpc ≠ .gRet (.task n) ret) : Inv2 inp s' ∧ Inv3 inp s' := by
  constructor
  · refine h2.outer e1 e2 e3 e4 e5 [] (by simpa using e6) h2.ord (by simp) ?_ (fun a => absurd a haw) ?_
      (fun m a => absurd a (hx m))
    · intro p hp
      rcases hsb with e | e
      · rw [e] at hp; cases hp
      · rw [e] at hp; exact h2.sb p hp
    · intro m hm
      rw [e6]
      rcases hm with a | ⟨r, a⟩
      · exact h2.f1 m (Or.inl (e7 ▸ a))
      · exact absurd a (hg m r)
  · exact inv3_rpc h3 e1 e5 e6 e7 e8 e9 haw hh hh0 hx

/-- `MRunner.run_tasks`: a result is taken from the result queue and processed -/
theorem pTopResult_inv {inp : RunInput} {s : Sys} {n : Name} {rest : List Name} {nd : Node} (h2 : Inv2 inp s)
    (h3 : Inv3 inp s) (hr : s.rpc = .pTop) (hq : s.resQ = n :: rest) (hn : s.nodes n = some nd) :
    Inv2 inp { processResult inp { s with resQ := rest } n nd with
               rpc := .gEntry (some n) (.feedLoop (s.freeProc + 1)), freeProc := 0 } ∧
    Inv3 inp { processResult inp { s with resQ := rest } n nd with
               rpc := .gEntry (some n) (.feedLoop (s.freeProc + 1)), freeProc := 0 } := by
  have hold : ∀ n, holding s n = 0 := by intro n; simp [holding, hr]
  have hnq : n ∈ s.resQ := by rw [hq]; simp
  obtain ⟨q1a, q1b⟩ := h3.q1 n hnq
  have hrun : nd.status = .run := by simpa [stOf, hn] using q1b
  have hnd : (n :: rest).Nodup := hq ▸ h3.q2
  have ⟨hnr, hrest⟩ := List.nodup_cons.mp hnd
  constructor
  · have a : Inv2 inp { s with resQ := rest } :=
      h2.outer rfl rfl rfl rfl rfl [] rfl h2.ord (by simp) (fun p hp => h2.sb p hp) (fun a => a)
        (fun m hm => h2.f1 m hm) (fun m a => h2.x m a)
    have b := inv2_result (.gEntry (some n) (.feedLoop (s.freeProc + 1))) a hn hrun
      (fun p hp => by simp only [sentBack, Option.some.injEq] at hp; exact hp.symm)
      (fun a => by rcases a with a | ⟨r, a⟩ <;> cases a) (fun m r a => by cases a) (fun m a => by cases a)
    exact b.outer rfl rfl rfl rfl rfl [] rfl b.ord (by simp) (fun p hp => b.sb p hp) (fun a => a)
      (fun m hm => b.f1 m hm) (fun m a => b.x m a)
  · obtain ⟨f1, f2, f3, f4, f5, f6, f7, f8⟩ := processResult_frame inp { s with resQ := rest } n nd
    have hev := processResult_events inp { s with resQ := rest } n nd
    have rc := resEvents_counts n (inp.outcome n)
    have hc : ∀ m, _ := fun m => counts_append
      (s' := { processResult inp { s with resQ := rest } n nd with
               rpc := .gEntry (some n) (.feedLoop (s.freeProc + 1)), freeProc := 0 })
      (s := s) hev m
    have hold' : ∀ m, holding { processResult inp { s with resQ := rest } n nd with
               rpc := .gEntry (some n) (.feedLoop (s.freeProc + 1)), freeProc := 0 } m = 0 := by
      intro m; simp [holding]
    have cstart : cStart s n ≥ 1 := by have := (h3.p0 n).2; omega
    refine h3.finish hn hrun (resStatus (inp.outcome n)) (resStatus_finished _)
      (processResult_nodes inp _ n nd) f4 _ hev (fun m => ⟨(rc m).go, (rc m).term⟩) ?_ ?_ ?_ ?_ ?_ ?_ ?_ ?_ ?_
    · intro a; rcases a with a | ⟨r, a⟩ <;> cases a
    · intro m; rw [(hc m).2.1, (hc m).2.2.1, (rc m).start, (rc m).fin]; have := (h3.p0 m).2; omega
    · intro m; rw [hold', (hc m).1, (hc m).2.1, (rc m).go, (rc m).start]
      have := h3.j m; rw [hold] at this
      show (processResult inp { s with resQ := rest } n nd).jobQ.count _ + _ + _ = _
      rw [f6]; show s.jobQ.count _ + _ + _ = _; omega
    · intro w m hw
      have hw' : s.workers w = .running m := by rw [← f8]; exact hw
      obtain ⟨a, b, c⟩ := h3.w1 w m hw'
      rw [(hc m).2.1, (hc m).2.2.1, (rc m).start, (rc m).fin]
      exact ⟨by omega, by omega, c, by intro e; subst e; omega⟩
    · intro w w' m a b
      exact h3.w2 w w' m (by rw [← f8]; exact a) (by rw [← f8]; exact b)
    · intro m hm
      have hm' : m ∈ rest := by
        have : (processResult inp { s with resQ := rest } n nd).resQ = rest := f7
        rw [← this]; exact hm
      obtain ⟨a, c⟩ := h3.q1 m (by rw [hq]; simp [hm'])
      rw [(hc m).2.2.1, (rc m).fin]
      exact ⟨by omega, c, by intro e; subst e; exact hnr hm'⟩
    · show (processResult inp { s with resQ := rest } n nd).resQ.Nodup
      rw [f7]; exact hrest
    · intro m hm
      rw [hold'] at hm
      rcases hm with a | a
      · have a' : Job.task m ∈ s.jobQ := by
          have : (processResult inp { s with resQ := rest } n nd).jobQ = s.jobQ := f6
          rw [← this]; exact a
        refine ⟨h3.j2 m (Or.inl a'), ?_⟩
        intro e; subst e
        have := h3.j m; have := count_task_pos.mp a'; have := (h3.p0 m).1; omega
      · cases a
    · intro m a; cases a

theorem mainStep_inv {inp : RunInput} {s s' : Sys} {perm : List Name} (h2 : Inv2 inp s) (h3 : Inv3 inp s)
    (hs : mainStep inp s perm = some s') : Inv2 inp s' ∧ Inv3 inp s' := by
  unfold mainStep at hs
  cases hr : s.rpc with
  | gEntry completed ret =>
    simp only [hr] at hs
    have hold : ∀ n, holding s n = 0 := by intro n; simp [holding, hr]
    split at hs
    · cases hs
      refine rpcMove_inv h2 h3 rfl rfl rfl rfl rfl rfl rfl rfl rfl (Or.inl rfl) ?_ (fun n => by simp [holding]) hold
        (fun n a => by cases a) (fun n r a => by cases a)
      intro a; rcases a with a | ⟨r, a⟩ <;> cases a
    · cases hs
      refine rpcMove_inv h2 h3 rfl rfl rfl rfl rfl rfl rfl rfl rfl (Or.inr (by simp [sentBack, hr])) ?_
        (fun n => by simp [holding]) hold (fun n a => by cases a) (fun n r a => by cases a)
      intro a; rcases a with a | ⟨r, a⟩ <;> cases a
  | gLoop node ret =>
    simp only [hr] at hs
    have hold : ∀ n, holding s n = 0 := by intro n; simp [holding, hr]
    cases hsd : send inp s node perm with
    | none => simp only [hsd] at hs; cases hs
    | some s0 =>
      simp only [hsd] at hs; cases hs
      exact ⟨inv2_send (.gWait ret) h2 (by simp [sentBack, hr]) hsd rfl (fun n r a => by cases a) (fun n a => by cases a),
        inv3_send (.gWait ret) h3 h2 (by simp [sentBack, hr]) hsd (funext hold) (fun n r a => by cases a)
          (fun n a => by cases a)⟩
  | gWait ret =>
    simp only [hr] at hs
    have haw : awaiting s := Or.inr ⟨ret, hr⟩
    have hold : ∀ n, holding s n = 0 := awaiting_holding haw
    have raiseOK : ∀ hl, Inv2 inp (raise s hl) ∧ Inv3 inp (raise s hl) :=
      fun hl => ⟨inv2_raise h2 hl, inv3_raise h3 hold hl⟩
    have toRet : ∀ (j : Job) (fp : Nat), (∀ n, j ≠ .task n) →
        Inv2 inp { s with freeProc := fp, rpc := .gRet j ret } ∧ Inv3 inp { s with freeProc := fp, rpc := .gRet j ret } := by
      intro j fp hj
      refine rpcMove_inv h2 h3 rfl rfl rfl rfl rfl rfl rfl rfl rfl (Or.inl rfl) ?_ ?_ hold (fun n a => by cases a) ?_
      · intro a; rcases a with a | ⟨r, a⟩ <;> cases a
      · intro n; cases j with
        | task m => exact absurd rfl (hj m)
        | hold => simp [holding]
        | stop => simp [holding]
      · intro n r a; cases a; exact hj n rfl
    cases hsu : s.susp with
    | none => simp only [hsu] at hs; exact ⟨inv2_dtick h2 hsu hs, inv3_dtick h3 h2 hsu hs⟩
    | some o =>
      simp only [hsu] at hs
      cases o with
      | init => cases hs
      | node n =>
        simp only [] at hs
        cases hn : s.nodes n with
        | none => simp only [hn] at hs; cases hs; exact raiseOK _
        | some nd =>
          simp only [hn] at hs
          have key : ∀ (hd : selDecision inp n nd ≠ .assertFail) (hg : selDecision inp n nd ≠ .go),
              Inv2 inp { applySel inp s n nd (selDecision inp n nd) with rpc := .gLoop (some n) ret } ∧
              Inv3 inp { applySel inp s n nd (selDecision inp n nd) with rpc := .gLoop (some n) ret } := by
            intro hd hg
            constructor
            · refine inv2_select _ h2 haw hsu hn hd ?_ ?_ ?_ ?_
              · intro p hp; simp only [sentBack, Option.some.injEq] at hp; exact hp.symm
              · intro a; rcases a with a | ⟨r, a⟩ <;> cases a
              · intro m r a; cases a
              · intro m a; cases a
            · refine inv3_select _ h3 h2 haw hsu hn hd ?_ ?_ ?_
              · intro a; rcases a with a | ⟨r, a⟩ <;> cases a
              · intro m
                have : selGo (selDecision inp n nd) = 0 := by
                  cases hdd : selDecision inp n nd <;> first | rfl | exact absurd hdd hg
                simp [holding, this]
              · intro m a; cases a
          cases hd : selDecision inp n nd with
          | go =>
            simp only [hd] at hs; cases hs
            have a : Inv2 inp { applySel inp s n nd (selDecision inp n nd) with rpc := .gRet (.task n) ret } := by
              refine inv2_select _ h2 haw hsu hn (by rw [hd]; simp) ?_ ?_ ?_ ?_
              · intro p hp; simp [sentBack] at hp
              · intro a; rcases a with a | ⟨r, a⟩ <;> cases a
              · intro m r a; cases a; exact ⟨rfl, hd⟩
              · intro m a; cases a
            have b : Inv3 inp { applySel inp s n nd (selDecision inp n nd) with rpc := .gRet (.task n) ret } := by
              refine inv3_select _ h3 h2 haw hsu hn (by rw [hd]; simp) ?_ ?_ ?_
              · intro a; rcases a with a | ⟨r, a⟩ <;> cases a
              · intro m; simp only [holding, hd, selGo]
              · intro m a; cases a
            rw [hd] at a b
            exact ⟨a, b⟩
          | assertFail => simp only [hd] at hs; cases hs; exact raiseOK _
          | skipIgn => simp only [hd] at hs; cases hs; have := key (by simp [hd]) (by simp [hd]); rwa [hd] at this
          | unmet => simp only [hd] at hs; cases hs; have := key (by simp [hd]) (by simp [hd]); rwa [hd] at this
          | depErr => simp only [hd] at hs; cases hs; have := key (by simp [hd]) (by simp [hd]); rwa [hd] at this
          | utd => simp only [hd] at hs; cases hs; have := key (by simp [hd]) (by simp [hd]); rwa [hd] at this
          | runFirst => simp only [hd] at hs; cases hs; have := key (by simp [hd]) (by simp [hd]); rwa [hd] at this
          | argsErr => simp only [hd] at hs; cases hs; have := key (by simp [hd]) (by simp [hd]); rwa [hd] at this
      | holdOn =>
        cases hs
        have := toRet .hold (s.freeProc + 1) (fun n a => by cases a)
        simpa [hsu] using this
      | stopIter =>
        cases hs
        have := toRet .stop s.freeProc (fun n a => by cases a)
        simpa [hsu] using this
      | cyclic n => cases hs; exact raiseOK _
      | crash => cases hs; exact raiseOK _
  | gRet job ret =>
    simp only [hr] at hs; cases hs
    exact gReturn_inv h2 h3 hr
  | pTop =>
    simp only [hr] at hs
    have hold : ∀ n, holding s n = 0 := by intro n; simp [holding, hr]
    split at hs
    · cases hs
      refine rpcMove_inv h2 h3 rfl rfl rfl rfl rfl rfl rfl rfl rfl (Or.inl rfl) ?_ (fun n => by simp [holding]) hold
        (fun n a => by cases a) (fun n r a => by cases a)
      intro a; rcases a with a | ⟨r, a⟩ <;> cases a
    · cases hq : s.resQ with
      | nil => simp only [hq] at hs; cases hs
      | cons n rest =>
        simp only [hq] at hs
        cases hn : s.nodes n with
        | none => simp only [hn] at hs; cases hs; exact ⟨inv2_raise h2 _, inv3_raise h3 hold _⟩
        | some nd =>
          simp only [hn] at hs; cases hs
          have := pTopResult_inv h2 h3 hr hq hn
          simp only [hr] at this
          exact this
  | pJoin =>
    simp only [hr] at hs
    have hold : ∀ n, holding s n = 0 := by intro n; simp [holding, hr]
    split at hs
    · cases hs
      refine rpcMove_inv h2 h3 rfl rfl rfl rfl rfl rfl rfl rfl rfl (Or.inl rfl) ?_ (fun n => by simp [holding]) hold
        (fun n a => by cases a) (fun n r a => by cases a)
      intro a; rcases a with a | ⟨r, a⟩ <;> cases a
    · cases hs
  | fin => simp only [hr] at hs; cases hs; exact ⟨inv2_finishRun h2, inv3_finishRun h3 hr⟩
  | sTop a => simp only [hr] at hs; cases hs
  | sWait => simp only [hr] at hs; cases hs
  | sExec a => simp only [hr] at hs; cases hs
  | halted => simp only [hr] at hs; cases hs

theorem preach_inv {inp : RunInput} {s : Sys} (h : PReach inp s) : Inv2 inp s ∧ Inv3 inp s := by
  induction h with
  | init => exact ⟨init_inv2 inp, init_inv3 inp⟩
  | @next s0 s1 c _ hs ih =>
    cases c with
    | main perm => exact mainStep_inv ih.1 ih.2 hs
    | take w => exact takeStep_inv ih.1 ih.2 hs
    | done w => exact doneStep_inv ih.1 ih.2 hs


/-! ### the default schedule stays inside the reachable states (used by the non-vacuity examples) -/

theorem firstMove_step {inp : RunInput} {s s' : Sys} {rev : Bool} {mk : Nat → Choice} {c : Choice} :
    ∀ k, firstMove inp s rev mk k = some (c, s') → pstep inp s c = some s' := by
  intro k
  induction k with
  | zero => intro h; simp [firstMove] at h
  | succ k ih =>
    intro h
    simp only [firstMove] at h
    split at h
    · rename_i s1 h1; cases h; exact h1
    · exact ih h

theorem firstWorkerMove_step {inp : RunInput} {s s' : Sys} {rev : Bool} {c : Choice}
    (h : firstWorkerMove inp s rev = some (c, s')) : pstep inp s c = some s' := by
  unfold firstWorkerMove at h
  cases h1 : firstMove inp s rev Choice.take s.nStarted with
  | some x => simp only [h1, Option.orElse] at h; cases h; exact firstMove_step _ h1
  | none => simp only [h1, Option.orElse] at h; exact firstMove_step _ h

theorem autoRun_preach {inp : RunInput} (hp : inp.runner ≠ .serial) (wf rev : Bool) :
    ∀ fuel s, PReach inp s → PReach inp (autoRun inp wf rev fuel s).1 := by
  intro fuel
  induction fuel with
  | zero => intro s h; exact h
  | succ k ih =>
    intro s h
    simp only [autoRun]
    have hstep : stepOf inp = pstep inp := by simp [stepOf, hp]
    split
    · rename_i c s' hm
      apply ih
      refine PReach.next h (c := c) ?_
      cases wf with
      | true =>
        simp only [if_true, hp, if_false] at hm
        cases hw : firstWorkerMove inp s rev with
        | some x =>
          simp only [hw, Option.orElse] at hm
          cases hm; exact firstWorkerMove_step hw
        | none =>
          simp only [hw, Option.orElse, Option.map_eq_some_iff] at hm
          obtain ⟨a, ha, hb⟩ := hm
          cases hb; rw [← hstep]; exact ha
      | false =>
        simp only [Bool.false_eq_true, if_false, hp] at hm
        cases hmm : stepOf inp s (.main (defaultPerm s)) with
        | some x =>
          simp only [hmm, Option.map, Option.orElse] at hm
          cases hm; rw [← hstep]; exact hmm
        | none =>
          simp only [hmm, Option.map, Option.orElse] at hm
          exact firstWorkerMove_step hm
    · exact h

theorem autoRun_reach {inp : RunInput} (hp : inp.runner = .serial) (wf rev : Bool) :
    ∀ fuel s, Reach inp s → Reach inp (autoRun inp wf rev fuel s).1 := by
  intro fuel
  induction fuel with
  | zero => intro s h; exact h
  | succ k ih =>
    intro s h
    simp only [autoRun]
    have hstep : stepOf inp = step inp := by simp [stepOf, hp]
    split
    · rename_i c s' hm
      apply ih
      refine Reach.next h (c := c) ?_
      simp only [hp, if_true] at hm
      cases hmm : stepOf inp s (.main (defaultPerm s)) with
      | some x =>
        cases wf <;> (simp only [hmm, Option.map, Option.orElse] at hm; cases hm; rw [← hstep]; exact hmm)
      | none =>
        cases wf <;> simp [hmm, Option.map, Option.orElse] at hm
    · exact h

end DoitModel.Run
